//go:build verif

package governance

// C36: alphabet rotation keeps size, uniqueness and the one-third replacement
// bound; the inner ring list derived from it has no duplicates and differs from
// the old list exactly by the replaced keys.
//
// newAlphabetList / updateInnerRing are called exactly as processAlphabetSync
// (process_update.go) calls them:
//
//	newAlphabet, err := newAlphabetList(fsChainAlphabet, mainnetAlphabet)   // sorts both in place
//	newInnerRing, err := updateInnerRing(innerRing, fsChainAlphabet, newAlphabet)
//
// Oracle (sets over a fixed key universe, independent of the code under test):
//   - |main| >= |cur| >= 1  =>  no error;
//   - a non-nil proposal differs from cur as a set, |new| = |cur|, no duplicates,
//     new ⊆ cur ∪ main, |new \ cur| <= floor((n-1)/3), and it does not depend on
//     the order of the input lists;
//   - updateInnerRing: no error, no duplicates, and as sets
//     result = (ir \ (cur \ new)) ∪ (new \ cur).

import (
	"fmt"
	"math/bits"
	"slices"
	"strings"
	"testing"

	"github.com/nspcc-dev/neo-go/pkg/crypto/keys"
	"github.com/nspcc-dev/neofs-node/verifharness/ev"
	"pgregory.net/rapid"
)

// fingerprint of the suspected defect class (see sensitivity/C36.md and the report):
// a non-alphabet inner ring key that is promoted into the new alphabet ends up twice
// in the updateInnerRing result.
const vc36KnownPromotedDup = "C36:promoted-ir-key-duplicated"

// vc36Universe returns n fixed keys (private scalars 1..n), ordered as keys.PublicKeys sorts them.
func vc36Universe(n int) keys.PublicKeys {
	res := make(keys.PublicKeys, 0, n)
	for i := 1; i <= n; i++ {
		b := make([]byte, 32)
		b[30], b[31] = byte(i>>8), byte(i)
		p, err := keys.NewPrivateKeyFromBytes(b)
		if err != nil {
			ev.Inconclusive("C36: cannot derive fixed key %d: %v", i, err)
		}
		res = append(res, p.PublicKey())
	}
	slices.SortFunc(res, func(a, b *keys.PublicKey) int { return a.Cmp(b) })
	return res
}

// vc36Idx maps a key back to its index in the universe (-1: foreign key).
func vc36Idx(u keys.PublicKeys, k *keys.PublicKey) int {
	for i := range u {
		if u[i] == k {
			return i
		}
	}
	if k == nil {
		return -1
	}
	for i := range u {
		if u[i].Equal(k) {
			return i
		}
	}
	return -1
}

// vc36Mask converts a list into a bit set; dup reports the set of indices seen more than once.
func vc36Mask(u keys.PublicKeys, l keys.PublicKeys) (mask, dup uint64, foreign bool) {
	for _, k := range l {
		i := vc36Idx(u, k)
		if i < 0 {
			foreign = true
			continue
		}
		if mask&(1<<i) != 0 {
			dup |= 1 << i
		}
		mask |= 1 << i
	}
	return
}

func vc36List(u keys.PublicKeys, mask uint64) keys.PublicKeys {
	res := make(keys.PublicKeys, 0, bits.OnesCount64(mask))
	for i := range u {
		if mask&(1<<i) != 0 {
			res = append(res, u[i])
		}
	}
	return res
}

func vc36Names(u keys.PublicKeys, l keys.PublicKeys) string {
	var sb strings.Builder
	sb.WriteByte('[')
	for i, k := range l {
		if i > 0 {
			sb.WriteByte(' ')
		}
		if j := vc36Idx(u, k); j >= 0 {
			fmt.Fprintf(&sb, "k%d", j)
		} else {
			sb.WriteString("?")
		}
	}
	sb.WriteByte(']')
	return sb.String()
}

func vc36MaskNames(mask uint64) string {
	var sb strings.Builder
	sb.WriteByte('{')
	first := true
	for i := 0; i < 64; i++ {
		if mask&(1<<i) != 0 {
			if !first {
				sb.WriteByte(' ')
			}
			first = false
			fmt.Fprintf(&sb, "k%d", i)
		}
	}
	sb.WriteByte('}')
	return sb.String()
}

// vc36CheckAlphabet evaluates the newAlphabetList part of the oracle for the sets cur/main given
// as lists in the caller's order. It returns the proposal (nil: nothing proposed) and the slice
// that processAlphabetSync would pass on as `before` (cur, sorted in place by newAlphabetList).
func vc36CheckAlphabet(u keys.PublicKeys, cur, main keys.PublicKeys) (newAlpha, before keys.PublicKeys, msg string) {
	curMask, curDup, _ := vc36Mask(u, cur)
	mainMask, _, _ := vc36Mask(u, main)
	if curDup != 0 {
		return nil, nil, "harness: duplicate in generated current list"
	}
	n := len(cur)

	before = slices.Clone(cur)
	res, err := newAlphabetList(before, slices.Clone(main))
	if err != nil {
		if res != nil {
			return nil, nil, fmt.Sprintf("newAlphabetList returned both a list %s and an error %v", vc36Names(u, res), err)
		}
		if n >= 1 && len(main) >= n {
			return nil, nil, fmt.Sprintf("newAlphabetList failed for |cur|=%d <= |main|=%d: %v", n, len(main), err)
		}
		return nil, before, ""
	}
	if n == 0 || len(main) < n {
		// documented: errEmptyFSChain / errNotEnoughKeys. A proposal here would shrink the alphabet.
		if res != nil {
			return nil, nil, fmt.Sprintf("newAlphabetList proposed %s although |main|=%d < |cur|=%d", vc36Names(u, res), len(main), n)
		}
		return nil, before, ""
	}
	if res == nil {
		return nil, before, ""
	}
	newMask, newDup, foreign := vc36Mask(u, res)
	switch {
	case foreign:
		return nil, nil, "proposal contains a key that is in neither input list: " + vc36Names(u, res)
	case len(res) != n:
		return nil, nil, fmt.Sprintf("proposal %s has size %d, current alphabet has %d", vc36Names(u, res), len(res), n)
	case newDup != 0:
		return nil, nil, fmt.Sprintf("proposal %s contains duplicates %s", vc36Names(u, res), vc36MaskNames(newDup))
	case newMask&^(curMask|mainMask) != 0:
		return nil, nil, fmt.Sprintf("proposal %s contains keys outside cur ∪ main: %s", vc36Names(u, res), vc36MaskNames(newMask&^(curMask|mainMask)))
	case newMask == curMask:
		return nil, nil, fmt.Sprintf("proposal %s equals the current alphabet as a set (nothing changed, yet proposed)", vc36Names(u, res))
	}
	if added := bits.OnesCount64(newMask &^ curMask); added > (n-1)/3 {
		return nil, nil, fmt.Sprintf("proposal %s has %d new keys %s, bound floor((%d-1)/3) = %d", vc36Names(u, res), added, vc36MaskNames(newMask&^curMask), n, (n-1)/3)
	}
	return res, before, ""
}

// vc36CheckIR evaluates the updateInnerRing part for one inner ring list. known reports that the only
// deviation is the suspected-defect class (promoted extra key duplicated).
func vc36CheckIR(u keys.PublicKeys, ir, before, newAlpha keys.PublicKeys) (known bool, msg string) {
	irMask, irDup, _ := vc36Mask(u, ir)
	curMask, _, _ := vc36Mask(u, before)
	newMask, _, _ := vc36Mask(u, newAlpha)
	if irDup != 0 || irMask&curMask != curMask {
		return false, "harness: generated inner ring list is not a duplicate-free superset of the alphabet"
	}
	res, err := updateInnerRing(ir, before, newAlpha)
	if err != nil {
		return false, fmt.Sprintf("updateInnerRing failed: %v", err)
	}
	removed, added := curMask&^newMask, newMask&^curMask
	want := (irMask &^ removed) | added
	gotMask, gotDup, foreign := vc36Mask(u, res)
	if foreign {
		return false, "result contains a foreign key: " + vc36Names(u, res)
	}
	if gotMask != want {
		return false, fmt.Sprintf("result %s is the set %s, expected (ir \\ removed%s) ∪ added%s = %s",
			vc36Names(u, res), vc36MaskNames(gotMask), vc36MaskNames(removed), vc36MaskNames(added), vc36MaskNames(want))
	}
	if gotDup != 0 {
		promoted := irMask &^ curMask & added
		if gotDup&^promoted == 0 && len(res) == bits.OnesCount64(gotMask)+bits.OnesCount64(gotDup) {
			return true, fmt.Sprintf("result %s contains the promoted inner ring key(s) %s twice", vc36Names(u, res), vc36MaskNames(gotDup))
		}
		return false, fmt.Sprintf("result %s contains duplicates %s", vc36Names(u, res), vc36MaskNames(gotDup))
	}
	return false, ""
}

// vc36Reorder returns deterministic re-orderings of l (reverse, rotation) to check order independence.
func vc36Reorder(l keys.PublicKeys, variant int) keys.PublicKeys {
	r := slices.Clone(l)
	switch variant {
	case 1:
		slices.Reverse(r)
	case 2:
		if len(r) > 1 {
			k := len(r)/2 + 1
			r = append(r[k%len(r):], r[:k%len(r)]...)
		}
	}
	return r
}

func vc36SameList(a, b keys.PublicKeys) bool {
	return slices.EqualFunc(a, b, func(x, y *keys.PublicKey) bool { return x.Equal(y) })
}

// TestVerifC36Exhaustive enumerates, over a universe of 8 fixed keys (8+scale-1 in thorough):
// every current alphabet (a set of 1..|U|-1 keys) x every main-net list (every subset, i.e. also
// the too-short ones that must be refused) x every inner ring list = alphabet + <=2 extra keys in
// every interleaving. Pairs are partitioned over shards by index.
func TestVerifC36Exhaustive(t *testing.T) {
	recA := ev.New("C36", "exh-newAlphabetList")
	recI := ev.New("C36", "exh-updateInnerRing")
	defer recA.Flush()
	defer recI.Flush()

	usize := 8 + ev.Scale() - 1
	if usize > 10 {
		usize = 10
	}
	u := vc36Universe(usize)
	shard, nshards := ev.Shard()
	full := uint64(1)<<usize - 1
	recA.Set("universe_keys", usize)

	pair := 0
	for curMask := uint64(1); curMask < full; curMask++ { // sizes 1..usize-1
		n := bits.OnesCount64(curMask)
		for mainMask := uint64(0); mainMask <= full; mainMask++ {
			pair++
			if int((uint64(pair)*0x9E3779B97F4A7C15)>>33)%nshards != shard { // mixed, so that shards do not correlate with low mask bits
				continue
			}
			cur, main := vc36List(u, curMask), vc36List(u, mainMask)
			sizeLbl := "main>=cur"
			if len(main) < n {
				sizeLbl = "main<cur"
			}

			// as the caller would: lists arrive in some order (variant 1 = reversed)
			newAlpha, before, msg := vc36CheckAlphabet(u, vc36Reorder(cur, 1), vc36Reorder(main, 2))
			if msg != "" {
				recA.Case(true, fmt.Sprintf("%x:%x", curMask, mainMask), sizeLbl, "FAIL")
				t.Fatalf("C36 newAlphabetList: cur=%s main=%s: %s", vc36MaskNames(curMask), vc36MaskNames(mainMask), msg)
			}
			// order independence (metamorphic): other input orders give the same proposal
			for v := 0; v < 3; v++ {
				alt, err := newAlphabetList(vc36Reorder(cur, v), vc36Reorder(main, (v+1)%3))
				if err != nil && newAlpha != nil || !vc36SameList(alt, newAlpha) {
					t.Fatalf("C36 newAlphabetList depends on input order: cur=%s main=%s: %s vs %s (err %v)",
						vc36MaskNames(curMask), vc36MaskNames(mainMask), vc36Names(u, newAlpha), vc36Names(u, alt), err)
				}
			}
			lbl := "no-proposal"
			if newAlpha != nil {
				nm, _, _ := vc36Mask(u, newAlpha)
				lbl = fmt.Sprintf("proposal:new=%d/limit=%d", bits.OnesCount64(nm&^curMask), (n-1)/3)
			}
			recA.Case(newAlpha != nil, fmt.Sprintf("%x:%x", curMask, mainMask), sizeLbl, lbl)
			if newAlpha == nil {
				continue
			}
			if recA.WantSample() {
				recA.Sample(map[string]string{"cur": vc36MaskNames(curMask), "main": vc36MaskNames(mainMask), "new": vc36Names(u, newAlpha)})
			}
			nm, _, _ := vc36Mask(u, newAlpha)
			added := nm &^ curMask

			// inner ring lists: alphabet (as the role list returns it: sorted) + <= 2 extras, every interleaving
			rest := full &^ curMask
			check := func(ir keys.PublicKeys, extras uint64) {
				labels := []string{fmt.Sprintf("extras=%d", bits.OnesCount64(extras))}
				if extras&added != 0 {
					labels = append(labels, "extra-is-promoted")
				}
				var fp [20]byte
				fp[0], fp[1], fp[2], fp[3] = byte(curMask), byte(curMask>>8), byte(mainMask), byte(mainMask>>8)
				for i, k := range ir {
					fp[4+i] = byte(vc36Idx(u, k) + 1)
				}
				known, msg := vc36CheckIR(u, ir, before, newAlpha)
				if msg != "" && known && recI.Known(vc36KnownPromotedDup) {
					recI.Excluded(1)
					labels = append(labels, "known-finding")
					msg = ""
				}
				recI.Case(true, string(fp[:4+len(ir)]), labels...)
				if msg != "" {
					t.Fatalf("C36 updateInnerRing: alphabet cur=%s main=%s -> new=%s; innerRing=%s (extras %s): %s",
						vc36Names(u, before), vc36MaskNames(mainMask), vc36Names(u, newAlpha), vc36Names(u, ir), vc36MaskNames(extras), msg)
				}
			}
			base := slices.Clone(before)
			check(base, 0)
			for e1 := 0; e1 < usize; e1++ {
				if rest&(1<<e1) == 0 {
					continue
				}
				for p1 := 0; p1 <= n; p1++ {
					ir1 := slices.Insert(slices.Clone(base), p1, u[e1])
					check(ir1, 1<<e1)
					for e2 := e1 + 1; e2 < usize; e2++ {
						if rest&(1<<e2) == 0 {
							continue
						}
						for p2 := 0; p2 <= n+1; p2++ {
							check(slices.Insert(slices.Clone(ir1), p2, u[e2]), 1<<e1|1<<e2)
						}
					}
				}
			}
		}
	}
	// every shard walks its whole partition; the driver ANDs the flags of all shards
	recA.Set("exhaustive", true)
}

// TestVerifC36Rapid samples bigger universes (up to 40 keys, alphabets up to 22 keys = more than the
// Neo committee limit of 21, up to 4 non-alphabet inner ring nodes) with the same oracle.
func TestVerifC36Rapid(t *testing.T) {
	rec := ev.New("C36", "rapid")
	defer rec.Flush()
	u := vc36Universe(40)
	rapid.Check(t, func(t *rapid.T) {
		n := rapid.IntRange(1, 22).Draw(t, "alphabetSize")
		if n < 4 && rapid.IntRange(0, 3).Draw(t, "keepSmall") != 0 {
			n += 3 // alphabets below 4 keys can never rotate (limit 0): keep them, but rarer
		}
		perm := rapid.Permutation(vc36Iota(len(u))).Draw(t, "perm")
		curIdx := perm[:n]
		others := perm[n:]
		limit := (n - 1) / 3

		// main net list: keep some current members, add some new ones (biased around the limit), any order
		var mainIdx []int
		mode := rapid.SampledFrom([]string{"rotate", "rotate", "rotate", "rotate", "rotate", "rotate", "same", "random", "superset"}).Draw(t, "mode")
		switch mode {
		case "same":
			mainIdx = slices.Clone(curIdx)
		case "superset":
			mainIdx = append(slices.Clone(curIdx), others[:rapid.IntRange(1, 6).Draw(t, "more")]...)
		case "random":
			m := rapid.IntRange(0, len(u)).Draw(t, "mainSize")
			p2 := rapid.Permutation(vc36Iota(len(u))).Draw(t, "mainPerm")
			mainIdx = p2[:m]
		default:
			drop := rapid.IntRange(0, n).Draw(t, "dropped")
			add := rapid.IntRange(max(1, limit-1), min(len(others), limit+3+drop)).Draw(t, "addedInMain")
			mainIdx = append(slices.Clone(curIdx[drop:]), others[:add]...)
		}
		mainIdx = vc36Shuffle(t, mainIdx, "mainOrder")
		cur, main := make(keys.PublicKeys, 0, n), make(keys.PublicKeys, 0, len(mainIdx))
		for _, i := range curIdx {
			cur = append(cur, u[i])
		}
		for _, i := range mainIdx {
			main = append(main, u[i])
		}
		curMask, _, _ := vc36Mask(u, cur)
		mainMask, _, _ := vc36Mask(u, main)

		labels := []string{"mode:" + mode}
		nontrivial := false
		fp := fmt.Sprintf("%x:%x", curMask, mainMask)
		defer func() { rec.Case(nontrivial, fp, labels...) }()

		newAlpha, before, msg := vc36CheckAlphabet(u, cur, main)
		if msg != "" {
			t.Fatalf("C36 newAlphabetList: cur=%s main=%s: %s", vc36Names(u, cur), vc36Names(u, main), msg)
		}
		alt, err := newAlphabetList(vc36Pick(u, vc36Shuffle(t, slices.Clone(curIdx), "curOrder2")), vc36Pick(u, vc36Shuffle(t, slices.Clone(mainIdx), "mainOrder2")))
		if err != nil && newAlpha != nil || !vc36SameList(alt, newAlpha) {
			t.Fatalf("C36 newAlphabetList depends on input order: cur=%s main=%s: %s vs %s (err %v)",
				vc36Names(u, cur), vc36Names(u, main), vc36Names(u, newAlpha), vc36Names(u, alt), err)
		}
		if newAlpha == nil {
			labels = append(labels, "no-proposal")
			return
		}
		nontrivial = true
		nm, _, _ := vc36Mask(u, newAlpha)
		added := nm &^ curMask
		if bits.OnesCount64(added) == limit {
			labels = append(labels, "proposal:at-limit")
		} else {
			labels = append(labels, "proposal:below-limit")
		}

		// inner ring = alphabet + up to 4 non-alphabet keys, any order; extras are biased towards keys
		// of the main net list (the promoted-node situation) unless that class is a recorded finding.
		var pool, promoted []int
		for _, i := range others {
			if added&(1<<i) != 0 {
				promoted = append(promoted, i)
			} else {
				pool = append(pool, i)
			}
		}
		nExtra := rapid.IntRange(0, 4).Draw(t, "extras")
		irIdx := make([]int, 0, n+nExtra)
		var extras uint64
		for j := 0; j < nExtra; j++ {
			usePromoted := len(promoted) > 0 && rapid.IntRange(0, 2).Draw(t, "promote") == 0
			if usePromoted && ev.IsOpen("C36", vc36KnownPromotedDup) {
				rec.Excluded(1)
				usePromoted = false
			}
			if usePromoted {
				k := rapid.IntRange(0, len(promoted)-1).Draw(t, "promotedIdx")
				irIdx = append(irIdx, promoted[k])
				extras |= 1 << promoted[k]
				promoted = slices.Delete(promoted, k, k+1)
			} else if len(pool) > 0 {
				k := rapid.IntRange(0, len(pool)-1).Draw(t, "poolIdx")
				irIdx = append(irIdx, pool[k])
				extras |= 1 << pool[k]
				pool = slices.Delete(pool, k, k+1)
			}
		}
		irIdx = vc36Shuffle(t, append(irIdx, curIdx...), "irOrder")
		ir := make(keys.PublicKeys, 0, len(irIdx))
		for _, i := range irIdx {
			ir = append(ir, u[i])
		}
		labels = append(labels, fmt.Sprintf("extras=%d", bits.OnesCount64(extras)))
		if extras&added != 0 {
			labels = append(labels, "extra-is-promoted")
		}
		fp += ":" + vc36Names(u, ir)
		if rec.WantSample() {
			rec.Sample(map[string]string{"cur": vc36Names(u, before), "main": vc36Names(u, main), "new": vc36Names(u, newAlpha), "ir": vc36Names(u, ir)})
		}
		known, msg := vc36CheckIR(u, ir, before, newAlpha)
		if msg != "" && known && rec.Known(vc36KnownPromotedDup) {
			labels = append(labels, "known-finding")
			return
		}
		if msg != "" {
			t.Fatalf("C36 updateInnerRing: alphabet cur=%s main=%s -> new=%s; innerRing=%s (extras %s): %s",
				vc36Names(u, before), vc36Names(u, main), vc36Names(u, newAlpha), vc36Names(u, ir), vc36MaskNames(extras), msg)
		}
	})
}

func vc36Iota(n int) []int {
	r := make([]int, n)
	for i := range r {
		r[i] = i
	}
	return r
}

func vc36Shuffle(t *rapid.T, l []int, label string) []int {
	if len(l) < 2 {
		return l
	}
	return rapid.Permutation(l).Draw(t, label)
}

func vc36Pick(u keys.PublicKeys, idx []int) keys.PublicKeys {
	r := make(keys.PublicKeys, 0, len(idx))
	for _, i := range idx {
		r = append(r, u[i])
	}
	return r
}

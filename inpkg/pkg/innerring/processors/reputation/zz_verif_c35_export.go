//go:build verif

package reputation

import "runtime"

// VerifWaitIdle returns after every task handed to the processor's worker pool
// before the call has finished. It needs a pool of size 1: a marker task is
// accepted by the non-blocking pool only after the single worker finished its
// previous task. Used by the C35/C37/C38 harness to wait for the registered
// (asynchronous) handlers. Only code is added.
func (rp *Processor) VerifWaitIdle() {
	done := make(chan struct{})
	for rp.pool.Submit(func() { close(done) }) != nil {
		runtime.Gosched()
	}
	<-done
}

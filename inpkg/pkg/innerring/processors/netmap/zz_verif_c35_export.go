//go:build verif

package netmap

import (
	"runtime"

	"github.com/nspcc-dev/neofs-sdk-go/netmap"
	"github.com/panjf2000/ants/v2"
)

// VerifNewOffline is New without the initial network map read from the chain
// (the given map is used instead), for harness runs that have no chain behind
// the morph client. Everything else is exactly as in New.
func VerifNewOffline(p *Params, cur *netmap.NetMap) (*Processor, error) {
	pool, err := ants.NewPool(p.PoolSize, ants.WithNonblocking(true))
	if err != nil {
		return nil, err
	}
	processor := &Processor{
		log:                 p.Log,
		pool:                pool,
		epochTimer:          p.EpochTimer,
		epochState:          p.EpochState,
		alphabetState:       p.AlphabetState,
		netmapClient:        p.NetmapClient,
		containerWrp:        p.ContainerWrapper,
		metaClient:          p.MetaClient,
		handleAlphabetSync:  p.AlphabetSyncHandler,
		handleNotaryDeposit: p.NotaryDepositHandler,
		nodeValidator:       p.NodeValidator,
	}
	processor.curMap.Store(cur)
	return processor, nil
}

// VerifWaitIdle returns after every task handed to the processor's worker pool
// before the call has finished. It needs a pool of size 1: a marker task is
// accepted by the non-blocking pool only after the single worker finished its
// previous task. Used by the C35/C37/C38 harness to wait for the registered
// (asynchronous) handlers. Only code is added.
func (np *Processor) VerifWaitIdle() {
	done := make(chan struct{})
	for np.pool.Submit(func() { close(done) }) != nil {
		runtime.Gosched()
	}
	<-done
}

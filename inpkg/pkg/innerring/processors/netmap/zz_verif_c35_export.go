//go:build verif

package netmap

import (
	"github.com/nspcc-dev/neofs-sdk-go/netmap"
	"github.com/panjf2000/ants/v2"
)

// VerifPoolRunning returns the number of tasks the processor's worker pool is
// currently running (see the other processors' shims).
func (np *Processor) VerifPoolRunning() int { return np.pool.Running() }

// VerifNewOffline is New without the initial network map read from the chain
// (the given map is used instead), for harness runs that have no chain behind
// the morph client. Everything else is exactly as in New.
func VerifNewOffline(p *Params, cur *netmap.NetMap) (*Processor, error) {
	pool, err := ants.NewPool(p.PoolSize, ants.WithNonblocking(true))
	if err != nil {
		return nil, err
	}
	processor := &Processor{
		log:                 p.Log,
		pool:                pool,
		epochTimer:          p.EpochTimer,
		epochState:          p.EpochState,
		alphabetState:       p.AlphabetState,
		netmapClient:        p.NetmapClient,
		containerWrp:        p.ContainerWrapper,
		metaClient:          p.MetaClient,
		handleAlphabetSync:  p.AlphabetSyncHandler,
		handleNotaryDeposit: p.NotaryDepositHandler,
		nodeValidator:       p.NodeValidator,
	}
	processor.curMap.Store(cur)
	return processor, nil
}

//go:build verif

package netmap

import (
	nmClient "github.com/nspcc-dev/neofs-node/pkg/morph/client/netmap"
	"github.com/nspcc-dev/neofs-node/pkg/morph/event"
)

// VerifC34NotaryBindings returns what ListenerNotaryParsers / ListenerNotaryHandlers
// of a Processor bound to the given Netmap contract client return. It exists because
// New reads the network map from the chain and so cannot run offline; only code is
// added, nothing is replaced. The returned handlers belong to a partially
// initialised Processor and must not be invoked: callers use their keys only.
func VerifC34NotaryBindings(c *nmClient.Client) ([]event.NotaryParserInfo, []event.NotaryHandlerInfo) {
	p := &Processor{netmapClient: c}
	return p.ListenerNotaryParsers(), p.ListenerNotaryHandlers()
}

//go:build verif

package neofs

// VerifPoolRunning returns the number of tasks the processor's worker pool is
// currently running. The C35/C37/C38 harness invokes the registered (async)
// handlers and waits until the pool is idle again. Only code is added.
func (np *Processor) VerifPoolRunning() int { return np.pool.Running() }

//go:build verif

package neofs

import "runtime"

// VerifWaitIdle returns after every task handed to the processor's worker pool
// before the call has finished. It needs a pool of size 1: a marker task is
// accepted by the non-blocking pool only after the single worker finished its
// previous task. Used by the C35/C37/C38 harness to wait for the registered
// (asynchronous) handlers. Only code is added.
func (np *Processor) VerifWaitIdle() {
	done := make(chan struct{})
	for np.pool.Submit(func() { close(done) }) != nil {
		runtime.Gosched()
	}
	<-done
}

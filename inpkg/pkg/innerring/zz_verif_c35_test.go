//go:build verif

package innerring

// C35 (in-package part (a)): the membership indexer and the Server-level guards.
//
//   - TestVerifC35Indexer: innerRingIndexer + Server.IsAlphabet / AlphabetIndex /
//     InnerRingIndex / IsActive against a reference model of "list position as of
//     the last successful refresh, refreshed when the cache timeout elapsed"
//     (fake fetchers: key present / absent / lookup error; fake time).
//   - TestVerifC35VoteGuard: Server.voteForFSChainValidator (called
//     unconditionally by Server.Start and by the governance processor) with the
//     node being alphabet member / inner ring only / outsider / lookup error.
//     Oracle: a node that is not an alphabet member performs no RPC at all on
//     behalf of the vote (the real morph client talks to a recording endpoint).
//   - TestVerifC35ServerActions: RequestNotary and the only-alphabet wrapper.
//
// Table of Server-level chain actions and their membership guards:
//
//	action (trigger)                                   guard
//	Start -> voteForFSChainValidator (startup)         AlphabetIndex() < 0 || >= len(alphabet contracts)  (was InnerRingIndex() >= len: let -1 and inner-ring-only indexes pass; fixed b6c4980)
//	governance -> VoteForFSChainValidator (event)      governance: IsAlphabet(); then the same range guard
//	RequestNotary (control API)                        IsAlphabet()
//	SignNotary (control API)                           none (explicit operator command; out of the property's triggers)
//	notaryHandler (new epoch event)                    onlyAlphabetEventHandler: IsAlphabet()  (deposit of own GAS, no alphabet authority)
//	depositMainNotary / depositFSNotary (startup)      none needed (own GAS)

import (
	"context"
	"errors"
	"fmt"
	"sort"
	"strings"
	"testing"
	"time"

	"github.com/nspcc-dev/neo-go/pkg/crypto/keys"
	"github.com/nspcc-dev/neo-go/pkg/util"
	"github.com/nspcc-dev/neofs-node/pkg/morph/client"
	nmClient "github.com/nspcc-dev/neofs-node/pkg/morph/client/netmap"
	"github.com/nspcc-dev/neofs-node/pkg/morph/event"
	"github.com/nspcc-dev/neofs-node/verifharness/bubble"
	"github.com/nspcc-dev/neofs-node/verifharness/ev"
	"github.com/nspcc-dev/neofs-node/verifharness/irfix"
	"github.com/nspcc-dev/neofs-node/verifharness/neoproxy"
	"go.uber.org/zap"
	"pgregory.net/rapid"
)

type verifFetcher struct {
	ir, comm       keys.PublicKeys
	irErr, commErr bool
	irCalls, cCalls int
}

type verifIRF struct{ f *verifFetcher }
type verifCF struct{ f *verifFetcher }

var errVerifLookup = errors.New("harness: lookup failed")

func (x verifIRF) InnerRingKeys() (keys.PublicKeys, error) {
	x.f.irCalls++
	if x.f.irErr {
		return nil, errVerifLookup
	}
	return x.f.ir, nil
}

func (x verifCF) Committee() (keys.PublicKeys, error) {
	x.f.cCalls++
	if x.f.commErr {
		return nil, errVerifLookup
	}
	return x.f.comm, nil
}

func verifKeys(n int) keys.PublicKeys {
	res := make(keys.PublicKeys, n)
	for i := range res {
		res[i] = irfix.Key(byte(i + 1)).PublicKey()
	}
	return res
}

func verifPos(k *keys.PublicKey, l keys.PublicKeys) int {
	for i := range l {
		if l[i].Equal(k) {
			return i
		}
	}
	return -1
}

// genList draws a duplicate-free list over the universe; self included with
// probability ~1/2.
func genList(t *rapid.T, uni keys.PublicKeys, label string) keys.PublicKeys {
	perm := rapid.Permutation([]int{0, 1, 2, 3, 4, 5, 6}).Draw(t, label+"Perm")
	n := rapid.IntRange(0, len(perm)).Draw(t, label+"Len")
	res := make(keys.PublicKeys, 0, n)
	for _, i := range perm[:n] {
		res = append(res, uni[i])
	}
	return res
}

func TestVerifC35Indexer(t *testing.T) {
	rec := ev.New("C35", "indexer")
	defer rec.Flush()
	uni := verifKeys(7)
	self := uni[0]

	bubble.Check(t, func(t *rapid.T) {
		timeout := rapid.SampledFrom([]time.Duration{0, time.Second, 15 * time.Second}).Draw(t, "timeout")
		f := &verifFetcher{}
		idx := newInnerRingIndexer(verifCF{f}, verifIRF{f}, self, timeout)
		srv := &Server{log: zap.NewNop(), statusIndex: idx}

		// model
		type snap struct{ ir, size, alpha int }
		var (
			cached   snap
			cachedAt time.Time
			valid    bool
			history  []string
			sawErr, sawStale, sawRefresh, sawMember, sawNonMember bool
		)
		// expect returns the model's answer for a query made now.
		expect := func() (snap, bool) {
			if valid && time.Since(cachedAt) < timeout {
				if verifPos(self, f.comm) != cached.alpha || verifPos(self, f.ir) != cached.ir {
					sawStale = true
				}
				return cached, true
			}
			if f.irErr || f.commErr {
				sawErr = true
				return snap{}, false
			}
			cached = snap{verifPos(self, f.ir), len(f.ir), verifPos(self, f.comm)}
			cachedAt = time.Now()
			valid = true
			sawRefresh = true
			return cached, true
		}

		steps := rapid.IntRange(1, 25).Draw(t, "steps")
		for i := 0; i < steps; i++ {
			switch op := rapid.SampledFrom([]string{"lists", "lists", "err", "sleep", "sleep", "reset", "query", "query", "query", "query"}).Draw(t, "op"); op {
			case "lists":
				f.ir = genList(t, uni, "ir")
				f.comm = genList(t, uni, "comm")
				history = append(history, fmt.Sprintf("lists(irPos=%d,commPos=%d)", verifPos(self, f.ir), verifPos(self, f.comm)))
			case "err":
				f.irErr = rapid.Bool().Draw(t, "irErr")
				f.commErr = rapid.Bool().Draw(t, "commErr")
				history = append(history, fmt.Sprintf("err(ir=%v,comm=%v)", f.irErr, f.commErr))
			case "sleep":
				d := rapid.SampledFrom([]time.Duration{time.Nanosecond, timeout / 2, timeout - time.Nanosecond, timeout, timeout + time.Nanosecond, 3 * timeout}).Draw(t, "d")
				if d > 0 {
					time.Sleep(d)
				}
				history = append(history, "sleep("+d.String()+")")
			case "reset":
				idx.reset()
				valid = false
				history = append(history, "reset")
			case "query":
				q := rapid.SampledFrom([]string{"IsAlphabet", "AlphabetIndex", "InnerRingIndex", "InnerRingSize", "IsActive", "raw"}).Draw(t, "q")
				want, ok := expect()
				history = append(history, "query:"+q)
				fail := func(got, exp any) {
					t.Fatalf("%s = %v, model %v (cache valid=%v)\nhistory: %s", q, got, exp, ok, strings.Join(history, " "))
				}
				switch q {
				case "IsAlphabet":
					got := srv.IsAlphabet()
					exp := ok && want.alpha >= 0
					if got != exp {
						fail(got, exp)
					}
					if got {
						sawMember = true
					} else {
						sawNonMember = true
					}
				case "AlphabetIndex":
					exp := -1
					if ok {
						exp = want.alpha
					}
					if got := srv.AlphabetIndex(); got != exp {
						fail(got, exp)
					}
				case "InnerRingIndex":
					exp := -1
					if ok {
						exp = want.ir
					}
					if got := srv.InnerRingIndex(); got != exp {
						fail(got, exp)
					}
				case "InnerRingSize":
					exp := 0
					if ok {
						exp = want.size
					}
					if got := srv.InnerRingSize(); got != exp {
						fail(got, exp)
					}
				case "IsActive":
					exp := ok && want.ir >= 0
					if got := srv.IsActive(); got != exp {
						fail(got, exp)
					}
				case "raw":
					a, err := idx.AlphabetIndex()
					if (err == nil) != ok {
						fail(err, ok)
					}
					if ok && int(a) != want.alpha {
						fail(a, want.alpha)
					}
				}
			}
		}
		var labels []string
		for l, b := range map[string]bool{"lookup-error": sawErr, "stale-cache-served": sawStale, "refresh": sawRefresh, "member-answer": sawMember, "non-member-answer": sawNonMember} {
			if b {
				labels = append(labels, l)
			}
		}
		sort.Strings(labels)
		rec.Case(sawRefresh && (sawErr || sawStale), strings.Join(history, " "), labels...)
		if rec.WantSample() {
			rec.Sample(history)
		}
	})
}

// ---------------------------------------------------------------- vote guard

type verifVoteEnv struct {
	proxy *neoproxy.Proxy
	cli   *client.Client
}

func newVerifVoteEnv() *verifVoteEnv {
	p, err := neoproxy.NewStub()
	if err != nil {
		ev.Inconclusive("cannot start recording RPC endpoint: %v", err)
	}
	ph := irfix.Hash160(0xA0)
	cli, err := irfix.NewClient(p.URL, irfix.Key(1), &ph, func() (keys.PublicKeys, error) { return verifKeys(4), nil })
	if err != nil {
		ev.Inconclusive("cannot connect morph client to the recording endpoint: %v", err)
	}
	return &verifVoteEnv{proxy: p, cli: cli}
}

func TestVerifC35VoteGuard(t *testing.T) {
	rec := ev.New("C35", "vote-guard")
	defer rec.Flush()
	env := newVerifVoteEnv()
	defer env.proxy.Close()
	defer env.cli.Close()
	uni := verifKeys(7)
	self := uni[0]

	rapid.Check(t, func(t *rapid.T) {
		f := &verifFetcher{}
		nAlpha := rapid.IntRange(1, 4).Draw(t, "alphabetContracts")
		// committee = alphabet (size nAlpha), inner ring = committee + extras, both orders free
		role := rapid.SampledFrom([]string{"alphabet", "ir-only", "ir-only", "outsider", "lookup-error"}).Draw(t, "role")
		others := rapid.Permutation([]int{1, 2, 3, 4, 5, 6}).Draw(t, "others")
		comm := keys.PublicKeys{}
		for _, i := range others[:nAlpha] {
			comm = append(comm, uni[i])
		}
		extras := keys.PublicKeys{}
		for _, i := range others[nAlpha : nAlpha+rapid.IntRange(0, 2).Draw(t, "extras")] {
			extras = append(extras, uni[i])
		}
		switch role {
		case "alphabet":
			comm[rapid.IntRange(0, nAlpha-1).Draw(t, "alphaPos")] = self
		case "ir-only":
			extras = append(extras, self)
		}
		ir := append(append(keys.PublicKeys{}, comm...), extras...)
		if rapid.Bool().Draw(t, "sortedIR") {
			sort.Sort(ir) // as governance.updateInnerRing leaves it
		} else {
			p := rapid.Permutation(ir).Draw(t, "irOrder")
			ir = p
		}
		f.ir, f.comm = ir, comm
		if role == "lookup-error" {
			f.irErr = rapid.Bool().Draw(t, "irErr")
			f.commErr = !f.irErr || rapid.Bool().Draw(t, "commErr")
		}
		validators := keys.PublicKeys{}
		for _, i := range others[:rapid.IntRange(0, 3).Draw(t, "validators")] {
			validators = append(validators, uni[i])
		}
		alpha := make([]util.Uint160, nAlpha)
		for i := range alpha {
			alpha[i] = irfix.Hash160(byte(0x10 * (i + 1)))
		}
		srv := &Server{
			log:           zap.NewNop(),
			statusIndex:   newInnerRingIndexer(verifCF{f}, verifIRF{f}, self, 0),
			contracts:     &contracts{alphabet: alpha},
			fsChainClient: env.cli,
		}
		member := role == "alphabet"
		irIdx := -1
		if role != "lookup-error" {
			irIdx = verifPos(self, ir)
		}
		label := role
		if !member && irIdx >= 0 && irIdx < nAlpha {
			label += "+ir-index-in-alphabet-range"
		}
		rec.Case(!member && len(validators) > 0, fmt.Sprintf("%s|%d|%d|%d|%d", role, nAlpha, irIdx, len(ir), len(validators)), label, fmt.Sprintf("validators-%d", len(validators)))

		env.proxy.Reset()
		err := srv.voteForFSChainValidator(context.Background(), validators, nil)
		calls := env.proxy.Calls()

		if member {
			if len(validators) > 0 && len(calls) == 0 {
				t.Fatalf("harness self-check: alphabet member with validators to vote for made no RPC (err=%v)", err)
			}
			return
		}
		if len(calls) == 0 {
			return
		}
		// A non-member went past the membership guard and started the vote
		// procedure (the stub has no chain, so it stops at the first read).
		// (both classes were confirmed on the original tree and fixed in /repo b6c4980)
		fp := "vote-guard-inner-ring-index-not-alphabet"
		if irIdx < 0 {
			fp = "vote-guard-negative-index"
		}
		t.Fatalf("[%s] node is not an alphabet member (role %s, inner ring index %d, alphabet index %d, %d alphabet contracts) but voteForFSChainValidator passed its guard and went on to the vote: RPCs %s, returned %v",
			fp, role, irIdx, verifPos(self, comm), nAlpha, neoproxy.Describe(calls), err)
	})
}

// ---------------------------------------------------------------- other Server actions

func TestVerifC35ServerActions(t *testing.T) {
	rec := ev.New("C35", "server-actions")
	defer rec.Flush()
	env := newVerifVoteEnv()
	defer env.proxy.Close()
	defer env.cli.Close()
	uni := verifKeys(7)
	self := uni[0]
	nm, err := nmClient.NewFromMorph(env.cli, irfix.Hash160(0x33))
	if err != nil {
		t.Fatal(err)
	}

	rapid.Check(t, func(t *rapid.T) {
		f := &verifFetcher{}
		role := rapid.SampledFrom([]string{"alphabet", "ir-only", "outsider", "lookup-error"}).Draw(t, "role")
		f.comm = keys.PublicKeys{uni[1], uni[2], uni[3]}
		f.ir = keys.PublicKeys{uni[1], uni[2], uni[3], uni[4]}
		switch role {
		case "alphabet":
			f.comm[rapid.IntRange(0, 2).Draw(t, "pos")] = self
			f.ir = append(keys.PublicKeys{}, f.comm...)
		case "ir-only":
			f.ir[rapid.IntRange(0, 3).Draw(t, "pos")] = self
			// keep committee a subset of ir where possible: irrelevant for the guard
		case "lookup-error":
			f.commErr = true
			f.comm[0] = self // even if it *would* be a member
		}
		srv := &Server{
			log:          zap.NewNop(),
			statusIndex:  newInnerRingIndexer(verifCF{f}, verifIRF{f}, self, 0),
			netmapClient: nm,
		}
		srv.epochCounter.Store(rapid.Uint64Range(0, 1000).Draw(t, "epoch"))
		action := rapid.SampledFrom([]string{"newEpoch", "setConfig", "removeNode", "only-alphabet-wrapper"}).Draw(t, "action")
		member := role == "alphabet"
		rec.Case(!member, role+"|"+action, role, action)

		env.proxy.Reset()
		ran := false
		switch action {
		case "only-alphabet-wrapper":
			srv.onlyAlphabetEventHandler(func(event.Event) { ran = true })(nil)
			if ran != member {
				t.Fatalf("onlyAlphabetEventHandler ran=%v for role %s", ran, role)
			}
		case "newEpoch":
			_, _ = srv.RequestNotary("newEpoch")
		case "setConfig":
			_, _ = srv.RequestNotary("setConfig", []byte("MaxObjectSize"), []byte("1024"))
		case "removeNode":
			_, _ = srv.RequestNotary("removeNode", uni[5].Bytes())
		}
		calls := env.proxy.Calls()
		if !member && len(calls) > 0 {
			t.Fatalf("role %s: Server.RequestNotary(%s) touched the chain: %s", role, action, neoproxy.Describe(calls))
		}
		if member && action != "only-alphabet-wrapper" && len(calls) == 0 {
			t.Fatalf("harness self-check: member's RequestNotary(%s) made no RPC", action)
		}
	})
}

//go:build verif

package objectcore

// C05 (in-package part): the decimal readers of pkg/core/object follow the one
// grammar ^[+-]?[0-9]+$ and agree with math/big on value and order.

import (
	"errors"
	"math/big"
	"testing"

	"github.com/nspcc-dev/neofs-node/internal/signed256"
	"github.com/nspcc-dev/neofs-node/verifharness/ev"
	"github.com/nspcc-dev/neofs-node/verifharness/genint"
	"github.com/nspcc-dev/neofs-sdk-go/object"
	"pgregory.net/rapid"
)

func TestVerifC05SplitAndNormalized(t *testing.T) {
	rec := ev.New("C05", "split+normalized")
	defer rec.Flush()
	rapid.Check(t, func(t *rapid.T) {
		s := genint.DecimalLike().Draw(t, "s")
		ref, ok := genint.RefParse(s)
		_, gram := genint.RefParseAnyLen(s)
		rec.Case(genint.NearMiss(s), s)
		if rec.WantSample() {
			rec.Sample(s)
		}
		neg, digits, err := splitIntString(s)
		if gram != (err == nil) {
			t.Fatalf("splitIntString(%q): err=%v, grammar match=%v", s, err, gram)
		}
		if err != nil {
			return
		}
		z, err := signed256.ParseNormalizedDecimal(neg, digits)
		if ok != (err == nil) {
			t.Fatalf("ParseNormalizedDecimal(splitIntString(%q)): err=%v, reference accept=%v", s, err, ok)
		}
		if !ok {
			return
		}
		if z.String() != ref.String() {
			t.Fatalf("%q -> %s, reference %s", s, z.String(), ref)
		}
		// agreement with the other reader
		z2, err := signed256.ParseDecimal(s)
		if err != nil || z2 != z {
			t.Fatalf("ParseDecimal(%q)=%s,%v but normalized path gives %s", s, z2.String(), err, z.String())
		}
		b := IntBytes(&z)
		if len(b) != 33 {
			t.Fatalf("IntBytes len %d", len(b))
		}
		if enc := genint.RefEncode(ref); string(b) != string(enc[:]) {
			t.Fatalf("IntBytes(%q) = %x, reference %x", s, b, enc)
		}
		back, err := RestoreIntAttribute(b)
		if err != nil || back != ref.String() {
			t.Fatalf("RestoreIntAttribute(IntBytes(%q)) = %q, %v", s, back, err)
		}
	})
}

func TestVerifC05CompareIntStrings(t *testing.T) {
	rec := ev.New("C05", "compareIntStrings")
	defer rec.Flush()
	rapid.Check(t, func(t *rapid.T) {
		var a, b string
		if rapid.IntRange(0, 3).Draw(t, "mode") == 0 {
			a, b = genint.DecimalLike().Draw(t, "a"), genint.DecimalLike().Draw(t, "b")
		} else {
			p := genint.Pair().Draw(t, "pair")
			spell := func(x *big.Int, lbl string) string {
				s := new(big.Int).Abs(x).String()
				for i := rapid.IntRange(0, 3).Draw(t, lbl+"zeros"); i > 0; i-- {
					s = "0" + s
				}
				if x.Sign() < 0 {
					return "-" + s
				}
				if x.Sign() == 0 && rapid.Bool().Draw(t, lbl+"negzero") {
					return "-" + s
				}
				if rapid.Bool().Draw(t, lbl+"plus") {
					return "+" + s
				}
				return s
			}
			a, b = spell(p[0], "a"), spell(p[1], "b")
		}
		ra, oka := genint.RefParseAnyLen(a)
		rb, okb := genint.RefParseAnyLen(b)
		rec.Case(oka && okb && (ra.Sign() != rb.Sign() || len(a) != len(b)), a+"|"+b)
		if rec.WantSample() {
			rec.Sample([]string{a, b})
		}
		got, err := compareIntStrings(a, b)
		if (oka && okb) != (err == nil) {
			t.Fatalf("compareIntStrings(%q,%q): err=%v, grammar a=%v b=%v", a, b, err, oka, okb)
		}
		if err != nil {
			return
		}
		if want := ra.Cmp(rb); got != want {
			t.Fatalf("compareIntStrings(%q,%q) = %d, numeric %d", a, b, got, want)
		}
	})
}

func TestVerifC05ParseIntFilters(t *testing.T) {
	rec := ev.New("C05", "parseIntFilters")
	defer rec.Flush()
	ops := []object.SearchMatchType{object.MatchNumGT, object.MatchNumGE, object.MatchNumLT, object.MatchNumLE}
	rapid.Check(t, func(t *rapid.T) {
		s := genint.DecimalLike().Draw(t, "s")
		op := rapid.SampledFrom(ops).Draw(t, "op")
		ref, ok := genint.RefParse(s)
		rec.Case(genint.NearMiss(s), s)
		if rec.WantSample() {
			rec.Sample(map[string]any{"value": s, "op": op.String()})
		}
		var fs object.SearchFilters
		fs.AddFilter("attr", s, op)
		res, err := parseIntFilters(fs)
		if errors.Is(err, ErrUnreachableQuery) {
			// documented: only > MAX and < MIN are unreachable
			if !ok || !((op == object.MatchNumGT && ref.Cmp(genint.MaxAbs) == 0) || (op == object.MatchNumLT && ref.Cmp(genint.MinVal) == 0)) {
				t.Fatalf("parseIntFilters(%q %v) says unreachable", s, op)
			}
			return
		}
		if ok != (err == nil) {
			t.Fatalf("parseIntFilters(%q %v): err=%v, reference accept=%v", s, op, err, ok)
		}
		if !ok {
			return
		}
		if (op == object.MatchNumGT && ref.Cmp(genint.MaxAbs) == 0) || (op == object.MatchNumLT && ref.Cmp(genint.MinVal) == 0) {
			t.Fatalf("parseIntFilters(%q %v) must be unreachable", s, op)
		}
		auto := (op == object.MatchNumLE && ref.Cmp(genint.MaxAbs) == 0) || (op == object.MatchNumGE && ref.Cmp(genint.MinVal) == 0)
		if res[0].AutoMatch != auto {
			t.Fatalf("parseIntFilters(%q %v) AutoMatch=%v want %v", s, op, res[0].AutoMatch, auto)
		}
		if !auto {
			if enc := genint.RefEncode(ref); string(res[0].Raw) != string(enc[:]) {
				t.Fatalf("parseIntFilters(%q) raw %x, reference %x", s, res[0].Raw, enc)
			}
		}
		v, err := parseNumericFilterValue(res[0])
		if err != nil || v.String() != ref.String() {
			t.Fatalf("parseNumericFilterValue(%q) = %s, %v", s, v.String(), err)
		}
	})
}

//go:build verif

package event_test

// C34: an inner ring node reaches its sign-the-main-transaction path (a notary handler
// receives an event) only if the main transaction has the required signers, witnesses,
// attributes and an unexpired fallback, and every contract call in its script is an
// expected (contract, method) that the handler the event is delivered to covers.
//
// Reach: a real event.Listener with notary support, the REAL parser tables of the inner ring
// processors that register notary parsers (container, netmap, reputation: their
// ListenerNotaryParsers()), connected exactly like innerring.connectListenerWithProcessor does,
// and recording handlers registered under the keys of the real ListenerNotaryHandlers().
// Requests are fed through listener.parseAndHandleNotary (the function listenForNotary calls).
//
// Generate: main transactions built with neo-go's emit: scripts of 0-3 System.Contract.Call
// invocations to {registered, unregistered} contracts x methods with argument shapes that are
// valid for the addressed parser (or for another one), and valid / broken signers, witnesses,
// NotaryAssisted attribute and fallback NotValidBefore around the current height.
//
// Oracle (handler receipt => everything below, computed from the generated ground truth and an
// independent restatement of the structural rules in preparator.Prepare's documentation):
//   - the transaction structure is valid and the fallback is not yet valid;
//   - the first call is the (contract, method) the handler is registered for;
//   - there is no other call, except: createV2 may be followed by exactly one
//     (container contract, putEACL) call;
//   - the event carries the very main transaction that was submitted.
// Not asserted: handler-side business validation (C37/C38), liveness (a valid request may be dropped).

import (
	"bytes"
	"encoding/hex"
	"errors"
	"fmt"
	"math/big"
	"reflect"
	"slices"
	"strings"
	"testing"
	"time"

	"github.com/nspcc-dev/neo-go/pkg/core/mempoolevent"
	"github.com/nspcc-dev/neo-go/pkg/core/transaction"
	"github.com/nspcc-dev/neo-go/pkg/crypto/hash"
	"github.com/nspcc-dev/neo-go/pkg/crypto/keys"
	"github.com/nspcc-dev/neo-go/pkg/io"
	"github.com/nspcc-dev/neo-go/pkg/neorpc/result"
	"github.com/nspcc-dev/neo-go/pkg/network/payload"
	"github.com/nspcc-dev/neo-go/pkg/smartcontract"
	"github.com/nspcc-dev/neo-go/pkg/smartcontract/callflag"
	"github.com/nspcc-dev/neo-go/pkg/util"
	"github.com/nspcc-dev/neo-go/pkg/vm/emit"
	"github.com/nspcc-dev/neo-go/pkg/vm/opcode"
	containerrpc "github.com/nspcc-dev/neofs-contract/rpc/container"
	netmaprpc "github.com/nspcc-dev/neofs-contract/rpc/netmap"
	cnrproc "github.com/nspcc-dev/neofs-node/pkg/innerring/processors/container"
	nmproc "github.com/nspcc-dev/neofs-node/pkg/innerring/processors/netmap"
	repproc "github.com/nspcc-dev/neofs-node/pkg/innerring/processors/reputation"
	"github.com/nspcc-dev/neofs-node/pkg/morph/client"
	cnrclient "github.com/nspcc-dev/neofs-node/pkg/morph/client/container"
	nmclient "github.com/nspcc-dev/neofs-node/pkg/morph/client/netmap"
	repclient "github.com/nspcc-dev/neofs-node/pkg/morph/client/reputation"
	"github.com/nspcc-dev/neofs-node/pkg/morph/event"
	"github.com/nspcc-dev/neofs-node/verifharness/ev"
	neofsecdsa "github.com/nspcc-dev/neofs-sdk-go/crypto/ecdsa"
	"github.com/nspcc-dev/neofs-sdk-go/netmap"
	"github.com/nspcc-dev/neofs-sdk-go/reputation"
	"go.uber.org/zap"
	"pgregory.net/rapid"
)

// fingerprint of the suspected defect class: createV2 followed by a second call whose
// contract / method is not checked by RestoreCreateContainerV2Request.
const vc34KnownSecondCall = "C34:createV2-second-call-unchecked"

// ---------------------------------------------------------------- fixed environment

type vc34Key struct {
	hash   util.Uint160
	method string
}

type vc34Env struct {
	contracts map[string]util.Uint160 // name -> hash ("container", "netmap", "reputation" are registered)
	names     map[util.Uint160]string
	parsers   []event.NotaryParserInfo
	handlers  []event.NotaryHandlerInfo
	reg       map[vc34Key]bool // registered (contract, method) pairs, from the real parser tables
	regList   []vc34Key        // deterministic order
	keys      []*keys.PrivateKey
	localAcc  util.Uint160
	trust     []byte // a marshalled, signed reputation.GlobalTrust
}

type vc34Alpha struct{}

func (vc34Alpha) IsAlphabet() bool { return true }

type vc34Net struct{}

func (vc34Net) Epoch() (uint64, error)                        { return 1, nil }
func (vc34Net) NetMap() (*netmap.NetMap, error)               { return nil, errors.New("verif: no chain") }
func (vc34Net) GetEpochBlock(uint64) (uint32, error)          { return 0, errors.New("verif: no chain") }
func (vc34Net) GetEpochBlockByTime(uint32) (uint32, error)    { return 0, errors.New("verif: no chain") }
func (vc34Net) Now() time.Time                                { return time.Unix(1700000000, 0) }
func (vc34Net) EpochCounter() uint64                          { return 1 }
func (vc34Net) BuildManagers(uint64, reputation.PeerID) ([]netmap.NodeInfo, error) {
	return nil, errors.New("verif: no chain")
}

func vc34Hash(b byte) util.Uint160 {
	var h util.Uint160
	for i := range h {
		h[i] = b + byte(i)
	}
	return h
}

func vc34FixedKey(i int) *keys.PrivateKey {
	b := make([]byte, 32)
	b[0], b[31] = 0x34, byte(i)
	p, err := keys.NewPrivateKeyFromBytes(b)
	if err != nil {
		ev.Inconclusive("C34: cannot derive fixed key: %v", err)
	}
	return p
}

func vc34NewEnv() *vc34Env {
	e := &vc34Env{
		contracts: map[string]util.Uint160{
			"container": vc34Hash(0x10), "netmap": vc34Hash(0x40), "reputation": vc34Hash(0x70),
			"balance": vc34Hash(0xA0), "proxy": vc34Hash(0xC0), "gas": vc34Hash(0xE0),
		},
		names: map[util.Uint160]string{},
		reg:   map[vc34Key]bool{},
	}
	for n, h := range e.contracts {
		e.names[h] = n
	}
	for i := 0; i < 10; i++ {
		e.keys = append(e.keys, vc34FixedKey(i+1))
	}
	e.localAcc = e.keys[9].GetScriptHash()
	log := zap.NewNop()
	cli := new(client.Client) // never dereferenced on the notary parsing path

	cc, err := cnrclient.NewFromMorph(cli, e.contracts["container"])
	if err != nil {
		ev.Inconclusive("C34: container client: %v", err)
	}
	cp, err := cnrproc.New(&cnrproc.Params{Log: log, PoolSize: 1, AlphabetState: vc34Alpha{}, ContainerClient: cc,
		NetworkState: vc34Net{}, ChainTime: vc34Net{}})
	if err != nil {
		ev.Inconclusive("C34: container processor: %v", err)
	}
	rc, err := repclient.NewFromMorph(cli, e.contracts["reputation"])
	if err != nil {
		ev.Inconclusive("C34: reputation client: %v", err)
	}
	rp, err := repproc.New(&repproc.Params{Log: log, PoolSize: 1, EpochState: vc34Net{}, AlphabetState: vc34Alpha{},
		ReputationWrapper: rc, ManagerBuilder: vc34Net{}})
	if err != nil {
		ev.Inconclusive("C34: reputation processor: %v", err)
	}
	nc, err := nmclient.NewFromMorph(cli, e.contracts["netmap"])
	if err != nil {
		ev.Inconclusive("C34: netmap client: %v", err)
	}
	nmP, nmH := nmproc.VerifC34NotaryBindings(nc) // netmap.New needs the chain (reads the network map)

	e.parsers = append(append(append(e.parsers, cp.ListenerNotaryParsers()...), nmP...), rp.ListenerNotaryParsers()...)
	e.handlers = append(append(append(e.handlers, cp.ListenerNotaryHandlers()...), nmH...), rp.ListenerNotaryHandlers()...)
	for _, p := range e.parsers {
		k := vc34Key{p.ScriptHash(), p.RequestType().String()}
		if !e.reg[k] {
			e.reg[k] = true
			e.regList = append(e.regList, k)
		}
	}
	if len(e.regList) < 10 || len(e.handlers) != len(e.parsers) {
		ev.Inconclusive("C34: unexpected parser/handler tables: %d parsers, %d handlers", len(e.parsers), len(e.handlers))
	}

	var peer reputation.PeerID
	peer.SetPublicKey(e.keys[0].PublicKey().Bytes())
	var tr reputation.Trust
	tr.SetPeer(peer)
	tr.SetValue(0.5)
	var gt reputation.GlobalTrust
	gt.Init()
	gt.SetManager(peer)
	gt.SetTrust(tr)
	if err := gt.Sign(neofsecdsa.SignerRFC6979(e.keys[0].PrivateKey)); err != nil {
		ev.Inconclusive("C34: cannot sign global trust: %v", err)
	}
	e.trust = gt.Marshal()
	return e
}

func (e *vc34Env) name(k vc34Key) string {
	n, ok := e.names[k.hash]
	if !ok {
		n = k.hash.StringLE()[:8]
	}
	return n + "." + k.method
}

// ---------------------------------------------------------------- one listener per case

type vc34Delivery struct {
	key vc34Key
	ev  event.Event
}

type vc34BC struct {
	h   uint32
	err error
}

func (b vc34BC) BlockCount() (uint32, error) { return b.h, b.err }

func (e *vc34Env) newListener(alpha keys.PublicKeys, alphaErr error, bc vc34BC, sink *[]vc34Delivery) event.Listener {
	l, err := event.NewListener(event.ListenerParams{Logger: zap.NewNop(), Client: new(client.Client)})
	if err != nil {
		ev.Inconclusive("C34: NewListener: %v", err)
	}
	l.EnableNotarySupport(e.contracts["proxy"], e.localAcc, func() (keys.PublicKeys, error) { return alpha, alphaErr }, bc)
	// as innerring.connectListenerWithProcessor
	for _, p := range e.parsers {
		l.SetNotaryParser(p)
	}
	for _, h := range e.handlers {
		k := vc34Key{h.ScriptHash(), h.RequestType().String()}
		h.SetHandler(func(x event.Event) { *sink = append(*sink, vc34Delivery{k, x}) })
		l.RegisterNotaryHandler(h)
	}
	return l
}

// ---------------------------------------------------------------- calls and scripts

type vc34Call struct {
	key   vc34Key
	shape string
	args  []any
}

var vc34Shapes = []string{"bytes3", "bytes4", "put6", "put7", "createV2", "report", "setAttr7", "rmAttr6", "addNode", "updateState", "repPut", "none", "ints"}

// canonical argument shapes per method name (what the addressed parser accepts)
func vc34Canonical(contract, method string) []string {
	switch method {
	case "put":
		if contract == "reputation" {
			return []string{"repPut"}
		}
		return []string{"bytes4", "put6", "put7"}
	case "putNamed":
		return []string{"put6"}
	case "create":
		return []string{"put7"}
	case "createV2":
		return []string{"createV2"}
	case "delete":
		return []string{"bytes3"}
	case "remove", "setEACL", "putEACL":
		return []string{"bytes4"}
	case "putReport":
		return []string{"report"}
	case "setAttribute":
		return []string{"setAttr7"}
	case "removeAttribute":
		return []string{"rmAttr6"}
	case "addNode":
		return []string{"addNode"}
	case "updateState":
		return []string{"updateState"}
	}
	return nil
}

// vc34D draws from rapid, or - with a nil t - returns fixed middle choices (self-check).
type vc34D struct{ t *rapid.T }

func (d vc34D) pick(label string, n int) int {
	if d.t == nil {
		return n / 2
	}
	return rapid.IntRange(0, n-1).Draw(d.t, label)
}

func vc34Bytes(d vc34D, label string) []byte {
	lens := []int{0, 1, 20, 32, 33, 64, 90}
	n := lens[d.pick(label+"Len", len(lens))]
	b := make([]byte, n)
	for i := range b {
		b[i] = byte(i*7 + n)
	}
	return b
}

func (e *vc34Env) args(d vc34D, shape, label string) []any {
	bs := func(n int) []any {
		r := make([]any, n)
		for i := range r {
			r[i] = vc34Bytes(d, fmt.Sprintf("%s.b%d", label, i))
		}
		return r
	}
	switch shape {
	case "bytes3":
		return bs(3)
	case "bytes4":
		return bs(4)
	case "put6":
		return append(bs(4), "name", "zone")
	case "put7":
		return append(bs(4), "name", "zone", d.pick(label+".meta", 2) == 1)
	case "createV2":
		ci := &containerrpc.ContainerInfo{Owner: vc34Hash(0x55), Nonce: make([]byte, 16), BasicACL: big.NewInt(0x1fbfbfff),
			StoragePolicy: []byte{1, 2, 3}}
		if d.pick(label+".version", 2) == 1 {
			ci.Version = &containerrpc.ContainerAPIVersion{Major: big.NewInt(2), Minor: big.NewInt(18)}
		}
		for i := d.pick(label+".attrs", 3); i > 0; i-- {
			ci.Attributes = append(ci.Attributes, &containerrpc.ContainerAttribute{Key: fmt.Sprintf("k%d", i), Value: "v"})
		}
		return append([]any{ci}, bs(3)...)
	case "report":
		return []any{vc34Bytes(d, label+".cid"), int64(1000), int64(3), e.keys[1].PublicKey().Bytes()}
	case "setAttr7":
		return append([]any{vc34Bytes(d, label+".cid"), "attr", "value", int64(1234567)}, bs(3)...)
	case "rmAttr6":
		return append([]any{vc34Bytes(d, label+".cid"), "attr", int64(1234567)}, bs(3)...)
	case "addNode":
		return []any{&netmaprpc.NetmapNode2{Addresses: []string{"/ip4/10.0.0.1/tcp/8080"}, Attributes: map[string]string{"Price": "1"},
			Key: e.keys[2].PublicKey(), State: big.NewInt(1)}}
	case "updateState":
		return []any{int64(d.pick(label+".state", 5)), e.keys[2].PublicKey().Bytes()}
	case "repPut":
		return []any{int64(7), e.keys[0].PublicKey().Bytes(), e.trust}
	case "ints":
		r := make([]any, 1+d.pick(label+".n", 4))
		for i := range r {
			r[i] = int64(i)
		}
		return r
	}
	return nil
}

var vc34OtherMethods = []string{"transfer", "update", "setConfig", "newEpoch", "designateAsRole", "mint"}

// genCall draws one call. role: 0 = first call, >0 = follower.
func (e *vc34Env) genCall(t *rapid.T, i int, firstIsCreateV2 bool) vc34Call {
	lbl := fmt.Sprintf("call%d", i)
	var k vc34Key
	kind := ""
	if i == 0 {
		kind = rapid.SampledFrom([]string{"registered", "registered", "registered", "createV2", "createV2", "mixed", "unregistered"}).Draw(t, lbl+".kind")
	} else if firstIsCreateV2 {
		kind = rapid.SampledFrom([]string{"cnr.putEACL", "cnr.putEACL", "other.putEACL", "cnr.4bytes", "registered", "mixed", "unregistered"}).Draw(t, lbl+".kind")
	} else {
		kind = rapid.SampledFrom([]string{"cnr.putEACL", "registered", "registered", "mixed", "unregistered"}).Draw(t, lbl+".kind")
	}
	forceShape := ""
	switch kind {
	case "registered":
		k = rapid.SampledFrom(e.regList).Draw(t, lbl+".key")
	case "createV2":
		k = vc34Key{e.contracts["container"], "createV2"}
	case "cnr.putEACL":
		k = vc34Key{e.contracts["container"], "putEACL"}
	case "other.putEACL":
		k = vc34Key{e.contracts[rapid.SampledFrom([]string{"netmap", "balance", "gas", "proxy"}).Draw(t, lbl+".contract")], "putEACL"}
		forceShape = "bytes4"
	case "cnr.4bytes":
		k = vc34Key{e.contracts["container"], rapid.SampledFrom([]string{"remove", "setEACL", "put", "update", "transfer"}).Draw(t, lbl+".method")}
		forceShape = "bytes4"
	case "mixed": // registered method name on any contract, or unregistered method on a registered contract
		cn := rapid.SampledFrom([]string{"container", "netmap", "reputation", "balance", "gas"}).Draw(t, lbl+".contract")
		var ms []string
		for _, r := range e.regList {
			ms = append(ms, r.method)
		}
		ms = append(ms, vc34OtherMethods...)
		k = vc34Key{e.contracts[cn], rapid.SampledFrom(ms).Draw(t, lbl+".method")}
	default:
		k = vc34Key{e.contracts[rapid.SampledFrom([]string{"balance", "gas", "proxy"}).Draw(t, lbl+".contract")],
			rapid.SampledFrom(vc34OtherMethods).Draw(t, lbl+".method")}
	}
	shape := forceShape
	if shape == "" {
		canon := vc34Canonical(e.names[k.hash], k.method)
		switch {
		case len(canon) > 0 && rapid.IntRange(0, 9).Draw(t, lbl+".canonShape") < 8:
			shape = rapid.SampledFrom(canon).Draw(t, lbl+".shape")
		case i > 0 && rapid.Bool().Draw(t, lbl+".eaclShape"):
			shape = "bytes4" // what the optional eACL parser accepts
		default:
			shape = rapid.SampledFrom(vc34Shapes).Draw(t, lbl+".shape")
		}
	}
	return vc34Call{key: k, shape: shape, args: e.args(vc34D{t}, shape, lbl)}
}

func vc34Script(calls []vc34Call) []byte {
	w := io.NewBufBinWriter()
	for _, c := range calls {
		emit.AppCall(w.BinWriter, c.key.hash, c.key.method, callflag.All, c.args...)
	}
	if w.Err != nil {
		ev.Inconclusive("C34: cannot emit script: %v", w.Err)
	}
	return w.Bytes()
}

// ---------------------------------------------------------------- transactions

var vc34Dummy = append([]byte{byte(opcode.PUSHDATA1), 64}, make([]byte, 64)...)

func vc34Multisig(alpha keys.PublicKeys) []byte {
	s, err := smartcontract.CreateMultiSigRedeemScript(len(alpha)*2/3+1, alpha.Copy())
	if err != nil {
		ev.Inconclusive("C34: multisig script: %v", err)
	}
	return s
}

// validNR builds a request that satisfies every structural rule.
func (e *vc34Env) validNR(script []byte, alpha keys.PublicKeys, invoker, oldDummy, presigned bool, height uint32) *payload.P2PNotaryRequest {
	ms := vc34Multisig(alpha)
	invAcc := e.keys[8]
	signers := []transaction.Signer{
		{Account: e.contracts["proxy"], Scopes: transaction.None},
		{Account: hash.Hash160(ms), Scopes: transaction.Global},
	}
	var alphaInv, notaryInv []byte
	if oldDummy {
		alphaInv, notaryInv = vc34Dummy, vc34Dummy
	}
	if presigned {
		alphaInv = append([]byte{byte(opcode.PUSHDATA1), 64}, bytes.Repeat([]byte{7}, 64)...)
	}
	scripts := []transaction.Witness{{}, {InvocationScript: alphaInv, VerificationScript: ms}}
	nKeys := uint8(len(alpha))
	if invoker {
		signers = append(signers, transaction.Signer{Account: invAcc.GetScriptHash(), Scopes: transaction.CalledByEntry})
		scripts = append(scripts, transaction.Witness{InvocationScript: vc34Dummy, VerificationScript: invAcc.PublicKey().GetVerificationScript()})
		nKeys++
	}
	signers = append(signers, transaction.Signer{Account: vc34Hash(0xF0) /* notary */, Scopes: transaction.None})
	scripts = append(scripts, transaction.Witness{InvocationScript: notaryInv})
	return &payload.P2PNotaryRequest{
		MainTransaction: &transaction.Transaction{
			Nonce: 1, ValidUntilBlock: height + 100, Script: script, Signers: signers, Scripts: scripts,
			Attributes: []transaction.Attribute{{Type: transaction.NotaryAssistedT, Value: &transaction.NotaryAssisted{NKeys: nKeys}}},
		},
		FallbackTransaction: &transaction.Transaction{
			Script:  []byte{byte(opcode.RET)},
			Signers: []transaction.Signer{{Account: vc34Hash(0xF0)}, {Account: invAcc.GetScriptHash()}},
			Attributes: []transaction.Attribute{
				{Type: transaction.NotaryAssistedT, Value: &transaction.NotaryAssisted{NKeys: 0}},
				{Type: transaction.NotValidBeforeT, Value: &transaction.NotValidBefore{Height: height + 50}},
				{Type: transaction.ConflictsT, Value: &transaction.Conflicts{Hash: util.Uint256{1}}},
			},
			Scripts: []transaction.Witness{{InvocationScript: vc34Dummy}, {}},
		},
	}
}

var vc34Mutations = []string{
	"witness-count-2", "witness-count-5", "signer-missing", "signer-extra", "alphabet-signer-wrong",
	"attr-none", "attr-two", "attr-wrong-type", "nkeys+1", "nkeys-1",
	"proxy-witness-inv", "proxy-witness-ver", "alphabet-witness-wrong-keys", "alphabet-witness-wrong-m",
	"invoker-witness-empty", "notary-ver-nonempty", "notary-inv-wrong",
	"fb-attrs-2", "fb-no-nvb", "fb-two-nvb", "fb-expired-eq", "fb-expired-lt", "fb-nvb+1", "fb-own",
	"alphabet-error", "height-error",
}

type vc34Faults struct {
	alphaErr, bcErr error
}

func (e *vc34Env) mutate(t *rapid.T, nr *payload.P2PNotaryRequest, alpha keys.PublicKeys, height uint32, f *vc34Faults) string {
	m := rapid.SampledFrom(vc34Mutations).Draw(t, "mutation")
	mt, fb := nr.MainTransaction, nr.FallbackTransaction
	last := len(mt.Scripts) - 1
	setNVB := func(h uint32) {
		for i := range fb.Attributes {
			if fb.Attributes[i].Type == transaction.NotValidBeforeT {
				fb.Attributes[i].Value = &transaction.NotValidBefore{Height: h}
			}
		}
	}
	switch m {
	case "witness-count-2":
		mt.Scripts, mt.Signers = mt.Scripts[:2], mt.Signers[:2]
	case "witness-count-5":
		for len(mt.Scripts) < 5 {
			mt.Scripts = slices.Insert(mt.Scripts, 2, transaction.Witness{InvocationScript: vc34Dummy, VerificationScript: []byte{1}})
			mt.Signers = slices.Insert(mt.Signers, 2, transaction.Signer{Account: vc34Hash(0x99)})
		}
	case "signer-missing":
		if len(mt.Signers) > 0 {
			mt.Signers = mt.Signers[:len(mt.Signers)-1]
		}
	case "signer-extra":
		mt.Signers = append(mt.Signers, transaction.Signer{Account: vc34Hash(0x98)})
	case "alphabet-signer-wrong":
		if len(mt.Signers) > 1 {
			mt.Signers[1].Account = e.keys[7].GetScriptHash()
		}
	case "attr-none":
		mt.Attributes = nil
	case "attr-two":
		mt.Attributes = append(mt.Attributes, transaction.Attribute{Type: transaction.HighPriority})
	case "attr-wrong-type":
		mt.Attributes = []transaction.Attribute{{Type: transaction.NotValidBeforeT, Value: &transaction.NotValidBefore{Height: 1}}}
	case "nkeys+1", "nkeys-1":
		if len(mt.Attributes) > 0 {
			if na, ok := mt.Attributes[0].Value.(*transaction.NotaryAssisted); ok {
				d := uint8(1)
				if m == "nkeys-1" {
					d = 0xff
				}
				mt.Attributes[0].Value = &transaction.NotaryAssisted{NKeys: na.NKeys + d}
			}
		}
	case "proxy-witness-inv":
		mt.Scripts[0].InvocationScript = []byte{1}
	case "proxy-witness-ver":
		mt.Scripts[0].VerificationScript = []byte{byte(opcode.PUSHT)}
	case "alphabet-witness-wrong-keys":
		other := keys.PublicKeys{}
		for i := range alpha {
			other = append(other, e.keys[(i+3)%8].PublicKey())
		}
		other[0] = e.keys[8].PublicKey()
		ms := vc34Multisig(other)
		mt.Scripts[1].VerificationScript = ms
		if rapid.Bool().Draw(t, "alsoSigner") && len(mt.Signers) > 1 {
			mt.Signers[1].Account = hash.Hash160(ms)
		}
	case "alphabet-witness-wrong-m":
		// a 1-of-n script over the right keys (weaker threshold)
		ms, err := smartcontract.CreateMultiSigRedeemScript(1, alpha.Copy())
		if err != nil {
			ev.Inconclusive("C34: %v", err)
		}
		if len(alpha)*2/3+1 == 1 {
			ms = append(ms, byte(opcode.NOP))
		}
		mt.Scripts[1].VerificationScript = ms
		if rapid.Bool().Draw(t, "alsoSigner") && len(mt.Signers) > 1 {
			mt.Signers[1].Account = hash.Hash160(ms)
		}
	case "invoker-witness-empty":
		if len(mt.Scripts) == 4 {
			mt.Scripts[2] = transaction.Witness{}
		} else {
			mt.Scripts[last].VerificationScript = []byte{1} // 3 witnesses: break the placeholder instead
		}
	case "notary-ver-nonempty":
		mt.Scripts[last].VerificationScript = []byte{byte(opcode.PUSHT)}
	case "notary-inv-wrong":
		mt.Scripts[last].InvocationScript = append([]byte{byte(opcode.PUSHDATA1), 64, 1}, make([]byte, 63)...)
	case "fb-attrs-2":
		fb.Attributes = fb.Attributes[:2]
	case "fb-no-nvb":
		fb.Attributes[1] = transaction.Attribute{Type: transaction.HighPriority}
	case "fb-two-nvb":
		if len(fb.Attributes) > 2 {
			fb.Attributes[2] = transaction.Attribute{Type: transaction.NotValidBeforeT, Value: &transaction.NotValidBefore{Height: height + 60}}
		}
	case "fb-expired-eq":
		setNVB(height)
	case "fb-expired-lt":
		if height > 0 {
			setNVB(height - 1)
		} else {
			setNVB(0)
		}
	case "fb-nvb+1":
		setNVB(height + 1) // still valid: the tightest unexpired fallback
	case "fb-own":
		fb.Signers[1].Account = e.localAcc
	case "alphabet-error":
		f.alphaErr = errors.New("verif: alphabet unavailable")
	case "height-error":
		f.bcErr = errors.New("verif: height unavailable")
	}
	return m
}

// structOK restates, independently of the code under test, the structural rules from the documentation of
// preparator.Prepare / validate*: returns "" when the request may be co-signed as far as structure goes.
func (e *vc34Env) structOK(nr *payload.P2PNotaryRequest, alpha keys.PublicKeys, height uint32, f vc34Faults) string {
	mt, fb := nr.MainTransaction, nr.FallbackTransaction
	n := len(mt.Scripts)
	if n != 3 && n != 4 {
		return "witness-count"
	}
	if len(fb.Signers) > 1 && fb.Signers[1].Account.Equals(e.localAcc) {
		return "own-request"
	}
	if f.alphaErr != nil {
		return "alphabet-unknown"
	}
	if len(mt.Signers) != n {
		return "signer-count"
	}
	ms := vc34Multisig(alpha)
	if !mt.Signers[1].Account.Equals(hash.Hash160(ms)) {
		return "alphabet-signer"
	}
	want := len(alpha)
	if n == 4 {
		want++
	}
	if len(mt.Attributes) != 1 || mt.Attributes[0].Type != transaction.NotaryAssistedT {
		return "attributes"
	}
	if na, ok := mt.Attributes[0].Value.(*transaction.NotaryAssisted); !ok || int(na.NKeys) != want {
		return "nkeys"
	}
	if len(mt.Scripts[0].InvocationScript)+len(mt.Scripts[0].VerificationScript) != 0 {
		return "proxy-witness"
	}
	if !bytes.Equal(mt.Scripts[1].VerificationScript, ms) {
		return "alphabet-witness"
	}
	if n == 4 && len(mt.Scripts[2].InvocationScript)+len(mt.Scripts[2].VerificationScript) == 0 {
		return "invoker-witness"
	}
	lw := mt.Scripts[n-1]
	if len(lw.VerificationScript) != 0 || len(lw.InvocationScript) != 0 && !bytes.Equal(lw.InvocationScript, vc34Dummy) {
		return "notary-placeholder"
	}
	if len(fb.Attributes) != 3 {
		return "fallback-attributes"
	}
	var nvb []uint32
	for _, a := range fb.Attributes {
		if a.Type == transaction.NotValidBeforeT {
			nvb = append(nvb, a.Value.(*transaction.NotValidBefore).Height)
		}
	}
	if len(nvb) != 1 {
		return "fallback-nvb"
	}
	if f.bcErr != nil {
		return "height-unknown"
	}
	if nvb[0] <= height {
		return "expired"
	}
	return ""
}

// eventMainTx digs the main transaction out of any of the notary event types.
func vc34EventMainTx(x event.Event) *transaction.Transaction {
	if nrq, ok := x.(interface {
		NotaryRequest() *payload.P2PNotaryRequest
	}); ok {
		if r := nrq.NotaryRequest(); r != nil {
			return r.MainTransaction
		}
		return nil
	}
	v := reflect.ValueOf(x)
	if v.Kind() == reflect.Struct {
		if f := v.FieldByName("MainTransaction"); f.IsValid() {
			if tx, ok := f.Interface().(transaction.Transaction); ok {
				return &tx
			}
		}
		if f := v.FieldByName("NotaryRequest"); f.IsValid() {
			if r, ok := f.Interface().(*payload.P2PNotaryRequest); ok && r != nil {
				return r.MainTransaction
			}
		}
	}
	return nil
}

func (e *vc34Env) describe(calls []vc34Call) string {
	var sb strings.Builder
	for i, c := range calls {
		if i > 0 {
			sb.WriteString(" ; ")
		}
		fmt.Fprintf(&sb, "%s(%s)", e.name(c.key), c.shape)
	}
	if len(calls) == 0 {
		return "<empty script>"
	}
	return sb.String()
}

var vc34E *vc34Env

func vc34GetEnv() *vc34Env {
	if vc34E == nil {
		vc34E = vc34NewEnv()
	}
	return vc34E
}

// TestVerifC34Canonical is the harness self-check: for every registered (contract, method) a canonical
// single-call request with valid structure must reach the handler - otherwise the generator does not
// exercise the real parsers and the safety property below would hold vacuously (=> inconclusive).
func TestVerifC34Canonical(t *testing.T) {
	e := vc34GetEnv()
	rec := ev.New("C34", "canonical")
	defer rec.Flush()
	alpha := keys.PublicKeys{e.keys[3].PublicKey(), e.keys[4].PublicKey(), e.keys[5].PublicKey(), e.keys[6].PublicKey()}
	for _, k := range e.regList {
		for _, shape := range vc34Canonical(e.names[k.hash], k.method) {
			var got []vc34Delivery
			c := vc34Call{key: k, shape: shape, args: e.args(vc34D{}, shape, "c")}
			nr := e.validNR(vc34Script([]vc34Call{c}), alpha, false, false, false, 100)
			l := e.newListener(alpha, nil, vc34BC{h: 100}, &got)
			event.VerifC34ParseAndHandleNotary(l, &result.NotaryRequestEvent{Type: mempoolevent.TransactionAdded, NotaryRequest: nr})
			if len(got) != 1 || got[0].key != k {
				ev.Inconclusive("C34 self-check: canonical %s(%s) was not delivered to its handler (got %d deliveries)", e.name(k), shape, len(got))
			}
			rec.Case(true, e.name(k)+"/"+shape, "canonical-delivered")
		}
	}
	for _, k := range e.regList {
		if len(vc34Canonical(e.names[k.hash], k.method)) == 0 {
			ev.Inconclusive("C34: parser table has a new entry %s the generator knows no argument shape for", e.name(k))
		}
	}
}

func TestVerifC34CoSignOnlyValidated(t *testing.T) {
	e := vc34GetEnv()
	rec := ev.New("C34", "cosign")
	defer rec.Flush()
	cnr := e.contracts["container"]
	createV2 := vc34Key{cnr, "createV2"}
	putEACL := vc34Key{cnr, "putEACL"}

	rapid.Check(t, func(t *rapid.T) {
		// --- script
		nCalls := rapid.SampledFrom([]int{1, 1, 1, 1, 1, 1, 1, 2, 2, 2, 2, 2, 2, 2, 3, 3, 0}).Draw(t, "nCalls")
		var calls []vc34Call
		for i := 0; i < nCalls; i++ {
			calls = append(calls, e.genCall(t, i, i > 0 && calls[0].key == createV2))
		}
		script := vc34Script(calls)

		// --- transaction structure
		nAlpha := rapid.SampledFrom([]int{1, 4, 7}).Draw(t, "alphabetSize")
		alpha := make(keys.PublicKeys, 0, nAlpha)
		for i := 0; i < nAlpha; i++ {
			alpha = append(alpha, e.keys[i].PublicKey())
		}
		height := uint32(rapid.SampledFrom([]int{0, 1, 100, 1 << 20}).Draw(t, "height"))
		invoker := rapid.Bool().Draw(t, "invokerWitness")
		oldDummy := rapid.Bool().Draw(t, "oldDummy")
		presigned := rapid.IntRange(0, 5).Draw(t, "presigned") == 5
		nr := e.validNR(script, alpha, invoker, oldDummy, presigned, height)
		var faults vc34Faults
		var muts []string
		for i := rapid.SampledFrom([]int{0, 0, 0, 1, 1, 2}).Draw(t, "nMutations"); i > 0; i-- {
			muts = append(muts, e.mutate(t, nr, alpha, height, &faults))
		}
		why := e.structOK(nr, alpha, height, faults)

		// --- run
		var got []vc34Delivery
		l := e.newListener(alpha, faults.alphaErr, vc34BC{h: height, err: faults.bcErr}, &got)
		submitted := nr.MainTransaction.Hash()
		event.VerifC34ParseAndHandleNotary(l, &result.NotaryRequestEvent{Type: mempoolevent.TransactionAdded, NotaryRequest: nr})

		// --- evidence
		firstReg := len(calls) > 0 && e.reg[calls[0].key]
		labels := []string{fmt.Sprintf("calls=%d", len(calls))}
		if why == "" {
			labels = append(labels, "struct:ok")
		} else {
			labels = append(labels, "struct:bad", "struct:bad:"+why)
		}
		if firstReg {
			labels = append(labels, "first:registered")
		} else {
			labels = append(labels, "first:unregistered")
		}
		allReg := len(calls) > 0
		for _, c := range calls {
			allReg = allReg && e.reg[c.key]
		}
		if len(calls) > 1 {
			if allReg {
				labels = append(labels, "multi:all-registered")
			} else if firstReg {
				labels = append(labels, "multi:registered-then-unregistered")
			}
			if calls[0].key == createV2 {
				if calls[1].key == putEACL {
					labels = append(labels, "createV2+putEACL")
				} else if calls[1].shape == "bytes4" {
					labels = append(labels, "createV2+foreign-4bytes-call")
				}
			}
		}
		for _, d := range got {
			labels = append(labels, "delivered", "delivered:"+e.name(d.key))
		}
		if len(got) == 0 && why == "" && firstReg {
			labels = append(labels, "reached-parser-but-dropped")
		}
		desc := fmt.Sprintf("script: %s | alphabet=%d height=%d invoker=%v oldDummy=%v presigned=%v mutations=%v structure=%q",
			e.describe(calls), nAlpha, height, invoker, oldDummy, presigned, muts, why)
		rec.Case(why == "" && firstReg, hex.EncodeToString(script)+fmt.Sprint(nAlpha, height, invoker, oldDummy, presigned), labels...)
		if rec.WantSample() && len(got) > 0 {
			rec.Sample(desc)
		}

		// --- oracle
		if len(got) == 0 {
			return
		}
		if len(got) > 1 {
			t.Fatalf("C34: one notary request reached %d handlers: %s", len(got), desc)
		}
		d := got[0]
		if why != "" {
			t.Fatalf("C34: handler %s received a request whose structure is invalid (%s): %s", e.name(d.key), why, desc)
		}
		if len(calls) == 0 || calls[0].key != d.key || !e.reg[d.key] {
			t.Fatalf("C34: handler %s received a request whose first call is not its registered (contract, method): %s", e.name(d.key), desc)
		}
		if tx := vc34EventMainTx(d.ev); tx == nil {
			ev.Inconclusive("C34: cannot find the main transaction in event %T", d.ev)
		} else if !bytes.Equal(tx.Script, script) || tx.Hash() != submitted {
			t.Fatalf("C34: handler %s received an event for a different main transaction: %s", e.name(d.key), desc)
		}
		for i, c := range calls[1:] {
			allowed := d.key == createV2 && i == 0 && c.key == putEACL
			if allowed {
				continue
			}
			msg := fmt.Sprintf("C34: handler %s received a request (the node would validate call #0 and sign the whole transaction) "+
				"whose call #%d %s is not an expected call for this handler: %s", e.name(d.key), i+1, e.name(c.key), desc)
			if d.key == createV2 && i == 0 && len(calls) == 2 && rec.Known(vc34KnownSecondCall) {
				rec.Excluded(1)
				return
			}
			t.Fatal(msg)
		}
	})
}

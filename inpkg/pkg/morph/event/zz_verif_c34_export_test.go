//go:build verif

package event

import "github.com/nspcc-dev/neo-go/pkg/neorpc/result"

// VerifC34ParseAndHandleNotary feeds one notary request event into the listener the way
// listenForNotary does (test-only export for the external test package event_test, which
// needs the inner ring processors and therefore cannot live inside package event).
func VerifC34ParseAndHandleNotary(l Listener, nr *result.NotaryRequestEvent) {
	l.(*listener).parseAndHandleNotary(nr)
}

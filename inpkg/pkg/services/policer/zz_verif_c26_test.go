//go:build verif

package policer

// Property C26: the policer never drops a local copy that may be needed.
//
// Policer.processObject (and processECPartByRule for EC parts) is driven
// synchronously with
//   - a scripted Network (1-2 REP lists, optional EC lists, the local node at any
//     position or absent, in/out of the network map),
//   - a recording localStorage (Delete / DeleteRedundantCopies),
//   - scripted apiConnections (per remote node: holds / not found / answers with
//     the maintenance status / fails / is flagged MAINTENANCE in the network map),
//   - the REAL replicator.Replicator (public constructor) on top of a real
//     storage engine that holds the object bytes, whose remote sender talks to a
//     scripted client constructor (per node: stores or fails).
//
// Oracle (DESIGN.md §4 C26), evaluated only from what the policer itself
// observed: "confirmed" = nodes whose HEAD returned OK to the policer ∪ nodes
// that stored the replica sent by the replicator. A local removal requires,
// for every list containing the local node, #confirmed remote nodes of that
// list >= copies required by the rule (REP number; the whole list for
// LOCK/LINK and for TOMBSTONE on EC lists); with the local node in no list, >=1
// confirmed holder and the node being in the network map. Maintenance and
// failing nodes never count. The replicator must not report more successes
// than asked, nor a node that did not store.
//
// The helpers prefixed vp* are shared with the C27 check.

import (
	"context"
	"errors"
	"fmt"
	"io"
	"os"
	"reflect"
	"sort"
	"strconv"
	"strings"
	"sync"
	"testing"
	"time"

	iec "github.com/nspcc-dev/neofs-node/internal/ec"
	clientcore "github.com/nspcc-dev/neofs-node/pkg/core/client"
	objectcore "github.com/nspcc-dev/neofs-node/pkg/core/object"
	"github.com/nspcc-dev/neofs-node/pkg/local_object_storage/engine"
	putsvc "github.com/nspcc-dev/neofs-node/pkg/services/object/put"
	objutil "github.com/nspcc-dev/neofs-node/pkg/services/object/util"
	"github.com/nspcc-dev/neofs-node/pkg/services/replicator"
	"github.com/nspcc-dev/neofs-node/verifharness/ev"
	"github.com/nspcc-dev/neofs-node/verifharness/stor"
	"github.com/nspcc-dev/neofs-node/verifharness/uni"
	apistatus "github.com/nspcc-dev/neofs-sdk-go/client/status"
	cid "github.com/nspcc-dev/neofs-sdk-go/container/id"
	neofscrypto "github.com/nspcc-dev/neofs-sdk-go/crypto"
	neofscryptotest "github.com/nspcc-dev/neofs-sdk-go/crypto/test"
	"github.com/nspcc-dev/neofs-sdk-go/netmap"
	"github.com/nspcc-dev/neofs-sdk-go/object"
	oid "github.com/nspcc-dev/neofs-sdk-go/object/id"
	"go.uber.org/zap"
	"pgregory.net/rapid"
)

// ---------------------------------------------------------------------------
// shared helpers (vp*)
// ---------------------------------------------------------------------------

// vpUniverse is the number of remote node identities; vpLocal is the index of
// the "local" identity used by C26 (C27 uses universe indexes as local nodes).
const (
	vpUniverse = 12
	vpLocal    = -1
)

var (
	vpKeys   [vpUniverse + 1][]byte
	vpKeyIdx = map[string]int{}
)

func init() {
	for i := vpLocal; i < vpUniverse; i++ {
		k := []byte("verif_policer_node_" + strconv.Itoa(i))
		vpKeys[i+1] = k
		vpKeyIdx[string(k)] = i
	}
}

func vpKey(i int) []byte { return vpKeys[i+1] }

func vpIdx(key []byte) int {
	i, ok := vpKeyIdx[string(key)]
	if !ok {
		panic("verif: unknown node key " + string(key))
	}
	return i
}

func vpNode(i int, maintenance bool) netmap.NodeInfo {
	var n netmap.NodeInfo
	n.SetPublicKey(vpKey(i))
	n.SetNetworkEndpoints("localhost:" + strconv.Itoa(20000+i))
	if maintenance {
		n.SetMaintenance()
	} else {
		n.SetOnline()
	}
	return n
}

func vpName(i int) string {
	if i == vpLocal {
		return "L"
	}
	return "n" + strconv.Itoa(i)
}

// vpNet is a scripted policer.Network / replicator.LocalNodeKey.
type vpNet struct {
	local    int
	inNetmap bool
	place    func(oid.Address) ([][]netmap.NodeInfo, []uint, []iec.Rule, error)
}

func (n *vpNet) IsLocalNodeInNetmap() bool { return n.inNetmap }
func (n *vpNet) IsLocalNodePublicKey(k []byte) bool {
	return string(k) == string(vpKey(n.local))
}
func (n *vpNet) GetNodesForObject(a oid.Address) ([][]netmap.NodeInfo, []uint, []iec.Rule, error) {
	return n.place(a)
}

// vpStore is a recording policer.localStorage.
type vpStore struct {
	mu        sync.Mutex
	deletes   []oid.Address
	marks     []engine.GarbageMark
	redundant [][]string
	redAddrs  []oid.Address
	onDelete  func(oid.Address)
}

var errVPUnavailable = errors.New("verif: unavailable")

func (s *vpStore) reset() {
	s.deletes, s.marks, s.redundant, s.redAddrs = s.deletes[:0], s.marks[:0], s.redundant[:0], s.redAddrs[:0]
}
func (s *vpStore) ListWithCursor(context.Context, uint32, *engine.Cursor, ...string) ([]objectcore.AddressWithAttributes, *engine.Cursor, error) {
	return nil, nil, engine.ErrEndOfListing
}
func (s *vpStore) Delete(_ context.Context, a oid.Address, m engine.GarbageMark) error {
	s.mu.Lock()
	s.deletes = append(s.deletes, a)
	s.marks = append(s.marks, m)
	s.mu.Unlock()
	if s.onDelete != nil {
		s.onDelete(a)
	}
	return nil
}
func (s *vpStore) DeleteRedundantCopies(_ context.Context, a oid.Address, shards []string) error {
	s.mu.Lock()
	s.redAddrs = append(s.redAddrs, a)
	s.redundant = append(s.redundant, append([]string(nil), shards...))
	s.mu.Unlock()
	return nil
}
func (s *vpStore) Put(context.Context, *object.Object, []byte) error { return nil }
func (s *vpStore) Head(context.Context, oid.Address, bool) (*object.Object, error) {
	return nil, errVPUnavailable
}
func (s *vpStore) HeadECPart(context.Context, cid.ID, oid.ID, iec.PartInfo) (object.Object, error) {
	return object.Object{}, errVPUnavailable
}
func (s *vpStore) GetRange(context.Context, oid.Address, uint64, uint64) ([]byte, error) {
	return nil, errVPUnavailable
}

// vpConns is a scripted policer.apiConnections.
type vpConns struct {
	head func(node int, addr oid.Address, xs []string) error
}

func (c *vpConns) headObject(_ context.Context, n netmap.NodeInfo, a oid.Address, _ bool, xs []string) (object.Object, error) {
	return object.Object{}, c.head(vpIdx(n.PublicKey()), a, xs)
}
func (c *vpConns) GetRange(context.Context, netmap.NodeInfo, cid.ID, oid.ID, uint64, uint64, []string) (io.ReadCloser, error) {
	return nil, errVPUnavailable
}

// vpClients is the putsvc.ClientConstructor behind the real replicator's remote
// sender: "sending" to a node calls store.
type vpClients struct {
	store func(node int, id oid.ID) error
}

func (c *vpClients) Get(_ context.Context, n netmap.NodeInfo) (clientcore.MultiAddressClient, error) {
	return &vpClient{c: c, node: vpIdx(n.PublicKey())}, nil
}

type vpClient struct {
	clientcore.MultiAddressClient // nil: any other call is a harness error (panics)
	c                             *vpClients
	node                          int
}

func (c *vpClient) ReplicateObject(_ context.Context, id oid.ID, _ io.ReadSeeker, _ neofscrypto.Signer, _ bool) (*neofscrypto.Signature, error) {
	return nil, c.c.store(c.node, id)
}

// vpTask is what the recording wrapper saw of one replicator task.
type vpTask struct {
	quantity uint32
	nodes    []int
	stored   []int // nodes whose ReplicateObject returned nil during the task
	tried    []int
	reported []int
}

// vpRepl wraps the REAL replicator: it taps the task and the TaskResult.
type vpRepl struct {
	real    *replicator.Replicator
	clients *vpClients
	mu      sync.Mutex
	cur     *vpTask
	tasks   []*vpTask
}

type vpResTap struct {
	res replicator.TaskResult
	t   *vpTask
}

func (r vpResTap) SubmitSuccessfulReplication(n netmap.NodeInfo) {
	r.t.reported = append(r.t.reported, vpIdx(n.PublicKey()))
	r.res.SubmitSuccessfulReplication(n)
}

func (r *vpRepl) HandleTask(ctx context.Context, task replicator.Task, res replicator.TaskResult) {
	t := &vpTask{quantity: uint32(reflect.ValueOf(task).FieldByName("quantity").Uint())}
	for _, n := range task.Nodes() {
		t.nodes = append(t.nodes, vpIdx(n.PublicKey()))
	}
	r.mu.Lock()
	if r.cur != nil {
		r.mu.Unlock()
		panic("verif: concurrent replication tasks are not modelled")
	}
	r.cur = t
	r.tasks = append(r.tasks, t)
	r.mu.Unlock()
	r.real.HandleTask(ctx, task, vpResTap{res: res, t: t})
	r.mu.Lock()
	r.cur = nil
	r.mu.Unlock()
}

// noteStore is called by the world's store function.
func (r *vpRepl) noteStore(node int, ok bool) {
	r.mu.Lock()
	defer r.mu.Unlock()
	if r.cur == nil {
		panic("verif: object sent outside of a replication task")
	}
	r.cur.tried = append(r.cur.tried, node)
	if ok {
		r.cur.stored = append(r.cur.stored, node)
	}
}

// check verifies the replicator clause of C26/C27 for one finished task.
func (t *vpTask) check() string {
	if uint32(len(t.reported)) > t.quantity {
		return fmt.Sprintf("replicator reported %d successes for a task of %d copies (nodes %v, reported %v)", len(t.reported), t.quantity, t.nodes, t.reported)
	}
	seen := map[int]bool{}
	for _, n := range t.reported {
		if seen[n] {
			return fmt.Sprintf("replicator reported node %s twice", vpName(n))
		}
		seen[n] = true
		if !vpHas(t.stored, n) {
			return fmt.Sprintf("replicator reported success for %s which did not store the object (stored %v, tried %v)", vpName(n), t.stored, t.tried)
		}
		if !vpHas(t.nodes, n) {
			return fmt.Sprintf("replicator reported %s which is not a node of the task %v", vpName(n), t.nodes)
		}
	}
	return ""
}

func vpHas(s []int, v int) bool {
	for _, x := range s {
		if x == v {
			return true
		}
	}
	return false
}

// vpContent is a real engine holding the bytes of the fixed objects the real
// replicator reads (regular o0, tombstone o1, lock o2, link o3, EC part o4).
type vpContent struct {
	dir string
	eng *stor.Engine
}

const (
	vpObjRegular = iota
	vpObjTombstone
	vpObjLock
	vpObjLink
	vpObjECPart
	vpObjRegular2
	vpNObjs
)

var vpObjTypes = [vpNObjs]object.Type{object.TypeRegular, object.TypeTombstone, object.TypeLock, object.TypeLink, object.TypeRegular, object.TypeRegular}

const vpECParent = 6

func vpAddr(i int) oid.Address { return uni.Addr(0, i) }

func vpOpenContent() *vpContent {
	dir, err := os.MkdirTemp("", "vpolicer")
	if err != nil {
		ev.Inconclusive("mkdtemp: %v", err)
	}
	eng, err := stor.OpenEngine([]stor.ShardCfg{{Dir: dir + "/s0", Epoch: &stor.Epoch{}}})
	if err != nil {
		os.RemoveAll(dir)
		ev.Inconclusive("open engine: %v", err)
	}
	specs := []uni.Spec{
		{Kind: uni.Regular, ID: vpObjRegular, Exp: -1, PayloadLen: 16},
		{Kind: uni.Tombstone, ID: vpObjTombstone, Exp: 1000, Target: 9},
		{Kind: uni.Lock, ID: vpObjLock, Exp: -1, Target: 10},
		{Kind: uni.Link, ID: vpObjLink, Exp: -1, Parent: 11, ParentExp: -1, ParentLen: 32, First: 8, PayloadLen: 8},
		{Kind: uni.ECPart, ID: vpObjECPart, Exp: -1, Parent: vpECParent, ParentExp: -1, ParentLen: 32, RuleIdx: 0, PartIdx: 0, PayloadLen: 16},
		{Kind: uni.Regular, ID: vpObjRegular2, Exp: -1, PayloadLen: 5},
	}
	for _, s := range specs {
		if err := eng.E.Put(context.Background(), uni.Build(s), nil); err != nil {
			eng.E.Close()
			os.RemoveAll(dir)
			ev.Inconclusive("put %s: %v", s, err)
		}
	}
	for i := range specs {
		if _, err := eng.E.GetBytes(context.Background(), vpAddr(i)); err != nil {
			eng.E.Close()
			os.RemoveAll(dir)
			ev.Inconclusive("content object %d unreadable: %v", i, err)
		}
	}
	return &vpContent{dir: dir, eng: eng}
}

func (c *vpContent) close() {
	_ = c.eng.E.Close()
	_ = os.RemoveAll(c.dir)
}

// vpNewPolicer builds a Policer around the fakes and the REAL replicator whose
// local node is net.local.
func vpNewPolicer(content *vpContent, net *vpNet, st *vpStore, conns *vpConns) (*Policer, *vpRepl) {
	key := neofscryptotest.ECDSAPrivateKey()
	clients := &vpClients{}
	real := replicator.New(
		replicator.WithPutTimeout(time.Minute),
		replicator.WithLogger(zap.NewNop()),
		replicator.WithRemoteSender(putsvc.NewRemoteSender(objutil.NewKeyStorage(&key, nil, nil), clients)),
		replicator.WithLocalStorage(content.eng.E),
		replicator.WithLocalNodeKey(net),
	)
	rp := &vpRepl{real: real, clients: clients}
	p := New(neofscryptotest.Signer(),
		WithNetwork(net),
		WithLogger(zap.NewNop()),
		WithHeadTimeout(time.Minute),
	)
	p.localStorage = st
	p.apiConns = conns
	p.replicator = rp
	return p, rp
}

// ---------------------------------------------------------------------------
// C26
// ---------------------------------------------------------------------------

// remote node behaviours
const (
	c26Has       = iota // HEAD OK
	c26NotFound         // HEAD 404, replication per RepOK
	c26MaintStat        // HEAD answers NODE_UNDER_MAINTENANCE, netmap state online
	c26Err              // HEAD fails (kind per ErrKind)
	c26MaintFlag        // flagged MAINTENANCE in the network map (and denies everything)
	c26NOutcomes
)

var c26OutNames = [...]string{"has", "404", "maint-status", "error", "maint-flag"}

var c26Errs = []error{
	errors.New("verif: connection refused"),
	apistatus.ErrServerInternal,
	apistatus.ErrObjectAlreadyRemoved,
	context.DeadlineExceeded,
	apistatus.ErrObjectAccessDenied,
	apistatus.ErrContainerNotFound,
}

// c26Case is one REP-path case: the placement as the Network reports it and
// the behaviour of every remote node.
type c26Case struct {
	Typ     int     // index into vpObjTypes (0..3)
	Lists   [][]int // node indexes, vpLocal = the local node; REP lists first, then NEC EC lists
	Reps    []uint
	NEC     int
	Out     [vpUniverse]int
	RepOK   [vpUniverse]bool
	InNM    bool
	Shards  int
	ErrKind int
}

func (c *c26Case) String() string {
	var b strings.Builder
	fmt.Fprintf(&b, "%s shards=%d inNetmap=%v", vpObjTypes[c.Typ], c.Shards, c.InNM)
	for i, l := range c.Lists {
		if i < len(c.Reps) {
			fmt.Fprintf(&b, " | REP %d [", c.Reps[i])
		} else {
			b.WriteString(" | EC [")
		}
		for j, n := range l {
			if j > 0 {
				b.WriteByte(' ')
			}
			b.WriteString(vpName(n))
			if n != vpLocal {
				b.WriteByte(':')
				b.WriteString(c26OutNames[c.Out[n]])
				if c.Out[n] == c26NotFound {
					if c.RepOK[n] {
						b.WriteString("+put-ok")
					} else {
						b.WriteString("+put-fail")
					}
				}
			}
		}
		b.WriteByte(']')
	}
	if c.ErrKind != 0 {
		fmt.Fprintf(&b, " err=%v", c26Errs[c.ErrKind])
	}
	return b.String()
}

// c26Obs is what happened during one processObject / processECPartByRule.
type c26Obs struct {
	deletes   []oid.Address
	marks     []engine.GarbageMark
	redundant [][]string
	headOK    map[int]bool
	headMaint map[int]bool
	tasks     []*vpTask
}

func (o *c26Obs) confirmed(withMaintenance bool, flagged func(int) bool, universe []int) map[int]bool {
	res := map[int]bool{}
	for n := range o.headOK {
		res[n] = true
	}
	for _, t := range o.tasks {
		for _, n := range t.stored {
			res[n] = true
		}
	}
	if withMaintenance {
		for n := range o.headMaint {
			res[n] = true
		}
		for _, n := range universe {
			if n != vpLocal && flagged(n) {
				res[n] = true
			}
		}
	}
	return res
}

// c26Env is built once per test function.
type c26Env struct {
	content *vpContent
	net     *vpNet
	st      *vpStore
	conns   *vpConns
	p       *Policer
	rp      *vpRepl
}

func newC26Env() *c26Env {
	e := &c26Env{content: vpOpenContent(), net: &vpNet{local: vpLocal}, st: &vpStore{}, conns: &vpConns{}}
	e.p, e.rp = vpNewPolicer(e.content, e.net, e.st, e.conns)
	return e
}

func (e *c26Env) close() { e.content.close() }

// arm scripts the fakes with node behaviours and returns the observation that
// gets filled while the policer runs.
func (e *c26Env) arm(out *[vpUniverse]int, repOK *[vpUniverse]bool, errKind int, partAddr oid.Address) *c26Obs {
	obs := &c26Obs{headOK: map[int]bool{}, headMaint: map[int]bool{}}
	e.st.reset()
	e.rp.tasks = nil
	e.conns.head = func(n int, a oid.Address, xs []string) error {
		if a != partAddr || xs != nil {
			// EC sibling-part probing of checkECParts: siblings are unavailable in this harness
			return errVPUnavailable
		}
		switch out[n] {
		case c26Has:
			obs.headOK[n] = true
			return nil
		case c26NotFound:
			return apistatus.ErrObjectNotFound
		case c26MaintStat, c26MaintFlag:
			obs.headMaint[n] = true
			return apistatus.ErrNodeUnderMaintenance
		default:
			return c26Errs[errKind]
		}
	}
	e.rp.clients.store = func(n int, id oid.ID) error {
		if id != partAddr.Object() {
			panic("verif: unexpected object replicated")
		}
		ok := out[n] == c26NotFound && repOK[n] || out[n] == c26Has
		e.rp.noteStore(n, ok)
		if !ok {
			if out[n] == c26MaintStat || out[n] == c26MaintFlag {
				return apistatus.ErrNodeUnderMaintenance
			}
			return errVPUnavailable
		}
		return nil
	}
	return obs
}

func (e *c26Env) collect(obs *c26Obs) {
	obs.deletes = append([]oid.Address(nil), e.st.deletes...)
	obs.marks = append([]engine.GarbageMark(nil), e.st.marks...)
	obs.redundant = append([][]string(nil), e.st.redundant...)
	obs.tasks = e.rp.tasks
}

func (e *c26Env) run(c *c26Case) *c26Obs {
	addr := vpAddr(c.Typ)
	obs := e.arm(&c.Out, &c.RepOK, c.ErrKind, addr)
	lists := make([][]netmap.NodeInfo, len(c.Lists))
	for i, l := range c.Lists {
		lists[i] = make([]netmap.NodeInfo, len(l))
		for j, n := range l {
			lists[i][j] = vpNode(n, n != vpLocal && c.Out[n] == c26MaintFlag)
		}
	}
	var ecRules []iec.Rule
	for i := len(c.Reps); i < len(c.Lists); i++ {
		ecRules = append(ecRules, iec.Rule{DataPartNum: 2, ParityPartNum: 1})
	}
	e.net.inNetmap = c.InNM
	e.net.place = func(a oid.Address) ([][]netmap.NodeInfo, []uint, []iec.Rule, error) {
		if a != addr {
			panic("verif: placement of unexpected object requested")
		}
		return lists, c.Reps, ecRules, nil
	}
	shards := make([]string, c.Shards)
	for i := range shards {
		shards[i] = "shard" + strconv.Itoa(i)
	}
	e.p.processObject(context.Background(), objectcore.AddressWithAttributes{
		Address:    addr,
		Type:       vpObjTypes[c.Typ],
		Attributes: make([]string, 3),
		ShardIDs:   shards,
	})
	e.collect(obs)
	return obs
}

// required returns the number of copies the policer has to see for list i, as
// processObject/processNodes define it (REP number; every node for LOCK/LINK
// and for TOMBSTONE on EC lists). ok=false: the list is not consulted.
func (c *c26Case) required(i int) (uint, bool) {
	typ := vpObjTypes[c.Typ]
	if typ == object.TypeLock || typ == object.TypeLink {
		return uint(len(c.Lists[i])), true
	}
	if i < len(c.Reps) {
		return c.Reps[i], true
	}
	if typ == object.TypeTombstone {
		return uint(len(c.Lists[i])), true
	}
	return 0, false // REGULAR non-EC object: EC lists are not its placement
}

// judge applies the C26 oracle. It returns a violation text ("" = fine) and
// whether the violation is of the maintenance class (it disappears when nodes
// the policer knew to be under maintenance are counted as holders).
func (c *c26Case) judge(obs *c26Obs) (string, bool, bool) {
	addr := vpAddr(c.Typ)
	for _, t := range obs.tasks {
		if m := t.check(); m != "" {
			return m, false, false
		}
	}
	if len(obs.deletes) > 1 {
		return fmt.Sprintf("%d Delete calls", len(obs.deletes)), false, false
	}
	for _, a := range obs.deletes {
		if a != addr {
			return "Delete of a foreign address " + a.String(), false, false
		}
	}
	typ := vpObjTypes[c.Typ]
	inContainer := false
	var universe []int
	for i, l := range c.Lists {
		if _, ok := c.required(i); !ok {
			continue
		}
		universe = append(universe, l...)
		if vpHas(l, vpLocal) {
			inContainer = true
		}
	}
	if len(obs.redundant) > 0 {
		switch {
		case len(obs.deletes) > 0:
			return "both Delete and DeleteRedundantCopies called", false, inContainer
		case len(obs.redundant) > 1:
			return "DeleteRedundantCopies called more than once", false, inContainer
		case c.Shards < 2 || len(obs.redundant[0]) != c.Shards:
			return fmt.Sprintf("DeleteRedundantCopies(%v) for an object stored in %d shard(s)", obs.redundant[0], c.Shards), false, inContainer
		case typ != object.TypeRegular:
			return "DeleteRedundantCopies for " + typ.String(), false, inContainer
		}
	}
	if len(obs.deletes) == 0 {
		return "", false, inContainer
	}
	eval := func(withMaint bool) string {
		conf := obs.confirmed(withMaint, func(n int) bool { return c.Out[n] == c26MaintFlag }, universe)
		if !inContainer {
			if !c.InNM {
				return "local copy removed by a node outside the network map (and the container)"
			}
			for _, n := range universe {
				if conf[n] {
					return ""
				}
			}
			return "node outside the container removed its copy although no container node is confirmed to hold the object"
		}
		if typ == object.TypeLock || typ == object.TypeLink {
			return typ.String() + " removed from a container node"
		}
		for i, l := range c.Lists {
			req, ok := c.required(i)
			if !ok || !vpHas(l, vpLocal) {
				continue
			}
			var got uint
			for _, n := range l {
				if n != vpLocal && conf[n] {
					got++
				}
			}
			if got < req {
				return fmt.Sprintf("local copy removed although list %d has only %d confirmed remote holder(s), %d required", i, got, req)
			}
		}
		return ""
	}
	m := eval(false)
	if m == "" {
		return "", false, inContainer
	}
	return m, eval(true) == "", inContainer
}

const (
	c26KnownOut = "C26:maintenance-node-counted-as-holder-outside-container"
	c26KnownIn  = "C26:maintenance-copy-ignored-when-rebalancing-in-container"
)

// c26Report handles a violation: known maintenance classes are counted,
// anything else fails the test.
func c26Report(rec *ev.Recorder, fail func(string, ...any), desc string, msg string, maint, inContainer bool) {
	if maint {
		fp := c26KnownOut
		if inContainer {
			fp = c26KnownIn
		}
		if rec.Known(fp) {
			rec.Excluded(1)
			rec.Label("known:" + fp)
			return
		}
		fail("C26 violated [%s]: %s\ncase: %s", fp, msg, desc)
		return
	}
	fail("C26 violated: %s\ncase: %s", msg, desc)
}

func (c *c26Case) labels(obs *c26Obs) (labels []string, nontrivial bool) {
	inC := false
	anyMaint, anyErr, anyPutFail, shared := false, false, false, false
	seen := map[int]bool{}
	for _, l := range c.Lists {
		for _, n := range l {
			if n == vpLocal {
				inC = true
				continue
			}
			if seen[n] {
				shared = true
				continue
			}
			seen[n] = true
			switch c.Out[n] {
			case c26MaintStat, c26MaintFlag:
				anyMaint = true
			case c26Err:
				anyErr = true
			case c26NotFound:
				if !c.RepOK[n] {
					anyPutFail = true
				}
			}
		}
	}
	if shared {
		labels = append(labels, "node-shared-between-lists")
	}
	if inC {
		labels = append(labels, "local-in-container")
	} else if c.InNM {
		labels = append(labels, "local-outside-container")
	} else {
		labels = append(labels, "local-outside-netmap")
	}
	labels = append(labels, "type-"+vpObjTypes[c.Typ].String(), "lists-"+strconv.Itoa(len(c.Lists)))
	if c.NEC > 0 {
		labels = append(labels, "has-ec-list")
	}
	if anyMaint {
		labels = append(labels, "has-maintenance-node")
	}
	if anyErr {
		labels = append(labels, "has-failing-node")
	}
	if len(obs.deletes) > 0 {
		labels = append(labels, "local-copy-removed")
		if anyMaint {
			labels = append(labels, "removed-with-maintenance-node-present")
		}
	} else {
		labels = append(labels, "local-copy-kept")
	}
	if len(obs.redundant) > 0 {
		labels = append(labels, "shard-duplicates-dropped")
	}
	nrep, nfail := 0, 0
	for _, t := range obs.tasks {
		nrep += len(t.stored)
		nfail += len(t.tried) - len(t.stored)
	}
	if len(obs.tasks) > 0 {
		labels = append(labels, "replication-task")
	}
	if nrep > 0 {
		labels = append(labels, "replica-stored")
	}
	if nfail > 0 {
		labels = append(labels, "replica-put-failed")
	}
	// non-trivial: some remote node is NOT a plain holder in a way that must
	// not be counted (maintenance / failing / failing replication)
	return labels, anyMaint || anyErr || anyPutFail && nfail > 0
}

// TestVerifC26Exhaustive enumerates the whole small domain: one REP list of
// 1..4 (thorough: 5) nodes, REP 1..min(3,len), the local node at every position
// or absent (then in/out of the network map), every remote node in each of six
// behaviours, four object types; plus EC parts: rule 2/1 over 3..4 (thorough: 6)
// nodes, every part index, local at every position or absent.
func TestVerifC26Exhaustive(t *testing.T) {
	rec := ev.New("C26", "exhaustive")
	defer rec.Flush()
	env := newC26Env()
	defer env.close()
	k, n := ev.Shard()
	maxLen, maxEC := 4, 4
	if ev.Thorough() {
		maxLen, maxEC = 5, 6
	}
	var idx int64
	failed, shown := 0, map[string]int{}
	fail := func(f string, a ...any) {
		failed++
		msg := fmt.Sprintf(f, a...)
		class := msg
		if i := strings.Index(msg, "\ncase:"); i > 0 {
			class = msg[:i]
		}
		if shown[class]++; shown[class] <= 3 && len(shown) <= 8 {
			t.Error(msg)
		}
	}
	// behaviours: has, 404+put-ok, 404+put-fail, maint-status, error, maint-flag
	const nb = 6
	setB := func(c *[vpUniverse]int, ok *[vpUniverse]bool, node, b int) {
		switch b {
		case 0:
			c[node] = c26Has
		case 1:
			c[node], ok[node] = c26NotFound, true
		case 2:
			c[node], ok[node] = c26NotFound, false
		case 3:
			c[node] = c26MaintStat
		case 4:
			c[node] = c26Err
		case 5:
			c[node] = c26MaintFlag
		}
	}
	for ln := 1; ln <= maxLen; ln++ {
		for lpos := -1; lpos < ln; lpos++ {
			remotes := ln
			if lpos >= 0 {
				remotes--
			}
			list := make([]int, 0, ln)
			for i, r := 0, 0; i < ln; i++ {
				if i == lpos {
					list = append(list, vpLocal)
				} else {
					list = append(list, r)
					r++
				}
			}
			combos := 1
			for i := 0; i < remotes; i++ {
				combos *= nb
			}
			for rep := 1; rep <= min(3, ln); rep++ {
				for typ := 0; typ < 4; typ++ {
					for nm := 0; nm < 2; nm++ {
						if lpos >= 0 && nm == 0 {
							continue // a container node is in the network map
						}
						for combo := 0; combo < combos; combo++ {
							idx++
							if idx%int64(n) != int64(k) {
								continue
							}
							c := &c26Case{Typ: typ, Lists: [][]int{list}, Reps: []uint{uint(rep)}, InNM: nm == 1, Shards: 1 + int(idx%3)}
							for i, x := 0, combo; i < remotes; i++ {
								setB(&c.Out, &c.RepOK, i, x%nb)
								x /= nb
							}
							obs := env.run(c)
							labels, nt := c.labels(obs)
							desc := c.String()
							rec.Case(nt, desc, labels...)
							if rec.WantSample() && nt && len(obs.deletes) > 0 {
								rec.Sample(desc)
							}
							if m, maint, inC := c.judge(obs); m != "" {
								c26Report(rec, fail, desc, m, maint, inC)
							}
						}
					}
				}
			}
		}
	}
	// EC parts through processECPartByRule
	for ln := 3; ln <= maxEC; ln++ {
		if ln == 5 {
			continue
		}
		for lpos := -1; lpos < ln; lpos++ {
			remotes := ln
			if lpos >= 0 {
				remotes--
			}
			list := make([]int, 0, ln)
			for i, r := 0, 0; i < ln; i++ {
				if i == lpos {
					list = append(list, vpLocal)
				} else {
					list = append(list, r)
					r++
				}
			}
			combos := 1
			for i := 0; i < remotes; i++ {
				combos *= nb
			}
			for part := 0; part < 3; part++ {
				for combo := 0; combo < combos; combo++ {
					idx++
					if idx%int64(n) != int64(k) {
						continue
					}
					c := &c26EC{D: 2, P: 1, Part: part, Nodes: list}
					for i, x := 0, combo; i < remotes; i++ {
						setB(&c.Out, &c.RepOK, i, x%nb)
						x /= nb
					}
					obs := env.runEC(c, false)
					labels, nt := c.labels(obs)
					desc := c.String()
					rec.Case(nt, desc, labels...)
					if m := c.judge(obs); m != "" {
						fail("C26 violated (EC part): %s\ncase: %s", m, desc)
					}
				}
			}
		}
	}
	rec.Set("exhaustive", true)
	rec.Set("domain", fmt.Sprintf("1 REP list of 1..%d nodes x REP 1..3 x local position/absent x in/out netmap x 6 behaviours per remote x 4 types; EC 2/1 parts over 3..%d nodes", maxLen, maxEC))
	if failed > 0 {
		t.Errorf("%d violations in total (first 3 of each kind shown)", failed)
	}
}

// c26EC is one EC-part case.
type c26EC struct {
	D, P    int
	Part    int
	Nodes   []int
	Out     [vpUniverse]int
	RepOK   [vpUniverse]bool
	ErrKind int
	// via processObject: rule index and number of preceding REP lists
	RuleIdx, NRep int
}

func (c *c26EC) String() string {
	var b strings.Builder
	fmt.Fprintf(&b, "EC %d/%d part %d rule#%d after %d REP list(s) [", c.D, c.P, c.Part, c.RuleIdx, c.NRep)
	for j, n := range c.Nodes {
		if j > 0 {
			b.WriteByte(' ')
		}
		b.WriteString(vpName(n))
		if n != vpLocal {
			b.WriteByte(':')
			b.WriteString(c26OutNames[c.Out[n]])
			if c.Out[n] == c26NotFound {
				if c.RepOK[n] {
					b.WriteString("+put-ok")
				} else {
					b.WriteString("+put-fail")
				}
			}
		}
	}
	b.WriteByte(']')
	if c.ErrKind != 0 {
		fmt.Fprintf(&b, " err=%v", c26Errs[c.ErrKind])
	}
	return b.String()
}

func (e *c26Env) runEC(c *c26EC, viaProcessObject bool) *c26Obs {
	addr := vpAddr(vpObjECPart)
	obs := e.arm(&c.Out, &c.RepOK, c.ErrKind, addr)
	nodes := make([]netmap.NodeInfo, len(c.Nodes))
	for j, n := range c.Nodes {
		nodes[j] = vpNode(n, n != vpLocal && c.Out[n] == c26MaintFlag)
	}
	rule := iec.Rule{DataPartNum: uint8(c.D), ParityPartNum: uint8(c.P)}
	if !viaProcessObject {
		e.p.processECPartByRule(context.Background(), rule, addr, c.Part, nodes)
		e.collect(obs)
		return obs
	}
	parent := uni.OID(vpECParent)
	// decoy lists: whoever is consulted there "has" nothing to do with the part;
	// they consist of the local node only, so that using a wrong list shows up
	// as "local node is optimal, hold" or as a removal without confirmation.
	var lists [][]netmap.NodeInfo
	var reps []uint
	for i := 0; i < c.NRep; i++ {
		lists = append(lists, []netmap.NodeInfo{vpNode(vpUniverse-1, false)})
		reps = append(reps, 1)
	}
	var rules []iec.Rule
	for i := 0; i <= c.RuleIdx; i++ {
		if i == c.RuleIdx {
			lists = append(lists, nodes)
			rules = append(rules, rule)
		} else {
			lists = append(lists, []netmap.NodeInfo{vpNode(vpUniverse-1, false), vpNode(vpUniverse-2, false), vpNode(vpUniverse-3, false)})
			rules = append(rules, iec.Rule{DataPartNum: 2, ParityPartNum: 1})
		}
	}
	e.net.inNetmap = true
	e.net.place = func(a oid.Address) ([][]netmap.NodeInfo, []uint, []iec.Rule, error) {
		if a.Object() != parent {
			panic("verif: EC placement must be requested for the parent")
		}
		return lists, reps, rules, nil
	}
	e.p.processObject(context.Background(), objectcore.AddressWithAttributes{
		Address:    addr,
		Type:       object.TypeRegular,
		Attributes: []string{strconv.Itoa(c.RuleIdx), strconv.Itoa(c.Part), string(parent[:])},
		ShardIDs:   []string{"shard0"},
	})
	e.collect(obs)
	return obs
}

func (c *c26EC) judge(obs *c26Obs) string {
	addr := vpAddr(vpObjECPart)
	for _, t := range obs.tasks {
		if m := t.check(); m != "" {
			return m
		}
		if t.quantity != 1 {
			return fmt.Sprintf("EC part replication task for %d copies", t.quantity)
		}
	}
	if len(obs.redundant) > 0 {
		return "DeleteRedundantCopies for an EC part"
	}
	if len(obs.deletes) == 0 {
		return ""
	}
	if len(obs.deletes) > 1 || obs.deletes[0] != addr {
		return fmt.Sprintf("unexpected Delete calls %v", obs.deletes)
	}
	conf := obs.confirmed(false, nil, nil)
	for _, n := range c.Nodes {
		if n != vpLocal && conf[n] {
			return ""
		}
	}
	return "EC part removed although no node of its list is confirmed to hold it"
}

func (c *c26EC) labels(obs *c26Obs) ([]string, bool) {
	labels := []string{"ec-part"}
	inC := vpHas(c.Nodes, vpLocal)
	if inC {
		labels = append(labels, "local-in-container")
	} else {
		labels = append(labels, "local-outside-container")
	}
	anyBad, anyMaint, anyErr := false, false, false
	for _, n := range c.Nodes {
		if n == vpLocal {
			continue
		}
		switch c.Out[n] {
		case c26MaintStat, c26MaintFlag:
			anyBad, anyMaint = true, true
		case c26Err:
			anyBad, anyErr = true, true
		case c26NotFound:
			if !c.RepOK[n] {
				anyBad = true
			}
		}
	}
	if anyMaint {
		labels = append(labels, "has-maintenance-node")
	}
	if anyErr {
		labels = append(labels, "has-failing-node")
	}
	if len(obs.deletes) > 0 {
		labels = append(labels, "ec-part-removed")
	} else {
		labels = append(labels, "ec-part-kept")
	}
	if len(obs.tasks) > 0 {
		labels = append(labels, "replication-task")
	}
	return labels, anyBad
}

// c26Gen draws a REP-path case.
func c26Gen(t *rapid.T) *c26Case {
	c := &c26Case{}
	c.Typ = rapid.SampledFrom([]int{0, 0, 0, 1, 1, 2, 3}).Draw(t, "type")
	nrep := rapid.SampledFrom([]int{1, 1, 1, 2, 2, 0}).Draw(t, "repLists")
	if c.Typ == vpObjRegular && nrep == 0 {
		nrep = 1 // a REGULAR non-EC object in an EC-only container is garbage by design
	}
	c.NEC = 0
	if nrep == 0 || rapid.IntRange(0, 4).Draw(t, "withEC") == 0 {
		c.NEC = 1
	}
	const pool = 7
	for i := 0; i < nrep+c.NEC; i++ {
		ln := rapid.IntRange(1, 5).Draw(t, "len")
		perm := rapid.Permutation([]int{0, 1, 2, 3, 4, 5, 6}).Draw(t, "members")
		l := append([]int(nil), perm[:ln]...)
		// local node: absent (2/5) or at a drawn position
		if pos := rapid.IntRange(-2, ln-1).Draw(t, "localPos"); pos >= 0 {
			l[pos] = vpLocal
		}
		c.Lists = append(c.Lists, l)
		if i < nrep {
			c.Reps = append(c.Reps, uint(rapid.IntRange(1, min(3, ln)).Draw(t, "rep")))
		}
	}
	for n := 0; n < pool; n++ {
		c.Out[n] = rapid.SampledFrom([]int{c26Has, c26Has, c26Has, c26NotFound, c26NotFound, c26NotFound, c26MaintStat, c26MaintStat, c26Err, c26MaintFlag}).Draw(t, "out")
		c.RepOK[n] = rapid.Bool().Draw(t, "putOK")
	}
	c.ErrKind = rapid.IntRange(0, len(c26Errs)-1).Draw(t, "errKind")
	inC := false
	for _, l := range c.Lists {
		inC = inC || vpHas(l, vpLocal)
	}
	c.InNM = inC || rapid.IntRange(0, 4).Draw(t, "inNetmap") > 0
	c.Shards = rapid.IntRange(1, 3).Draw(t, "shards")
	return c
}

// TestVerifC26Rapid samples the larger space: 1-2 REP lists (plus an EC list
// for the broadcast types), lists of 1-5 out of 7 remote nodes (shared between
// lists), the local node anywhere.
func TestVerifC26Rapid(t *testing.T) {
	rec := ev.New("C26", "rapid-rep")
	defer rec.Flush()
	env := newC26Env()
	defer env.close()
	rapid.Check(t, func(t *rapid.T) {
		c := c26Gen(t)
		obs := env.run(c)
		labels, nt := c.labels(obs)
		desc := c.String()
		rec.Case(nt, desc, labels...)
		if rec.WantSample() && nt && len(obs.deletes) > 0 {
			rec.Sample(desc)
		}
		if m, maint, inC := c.judge(obs); m != "" {
			c26Report(rec, t.Fatalf, desc, m, maint, inC)
		}
	})
}

// TestVerifC26RapidEC samples EC parts through processObject (valid rule and
// part indexes; rule list preceded by 0-2 REP lists and 0-1 other EC rules) and
// through processECPartByRule directly.
func TestVerifC26RapidEC(t *testing.T) {
	rec := ev.New("C26", "rapid-ec")
	defer rec.Flush()
	env := newC26Env()
	defer env.close()
	rules := [][2]int{{1, 1}, {2, 1}, {2, 2}, {3, 1}, {4, 2}}
	rapid.Check(t, func(t *rapid.T) {
		c := &c26EC{}
		r := rapid.SampledFrom(rules).Draw(t, "rule")
		c.D, c.P = r[0], r[1]
		total := c.D + c.P
		ln := rapid.IntRange(total, min(2*total, vpUniverse-3)).Draw(t, "len")
		perm := rapid.Permutation([]int{0, 1, 2, 3, 4, 5, 6, 7, 8}).Draw(t, "members")
		c.Nodes = append([]int(nil), perm[:ln]...)
		if pos := rapid.IntRange(-ln/3-1, ln-1).Draw(t, "localPos"); pos >= 0 {
			c.Nodes[pos] = vpLocal
		}
		c.Part = rapid.IntRange(0, total-1).Draw(t, "part")
		for n := 0; n < 9; n++ {
			c.Out[n] = rapid.SampledFrom([]int{c26Has, c26NotFound, c26NotFound, c26NotFound, c26MaintStat, c26Err, c26Err, c26MaintFlag}).Draw(t, "out")
			c.RepOK[n] = rapid.Bool().Draw(t, "putOK")
		}
		c.ErrKind = rapid.IntRange(0, len(c26Errs)-1).Draw(t, "errKind")
		via := rapid.Bool().Draw(t, "viaProcessObject")
		if via {
			c.RuleIdx = rapid.IntRange(0, 1).Draw(t, "ruleIdx")
			c.NRep = rapid.IntRange(0, 2).Draw(t, "repLists")
		}
		obs := env.runEC(c, via)
		labels, nt := c.labels(obs)
		if via {
			labels = append(labels, "via-processObject")
		}
		desc := c.String()
		rec.Case(nt, desc, labels...)
		if rec.WantSample() && nt && len(obs.deletes) > 0 {
			rec.Sample(desc)
		}
		if m := c.judge(obs); m != "" {
			t.Fatalf("C26 violated (EC part): %s\ncase: %s", m, desc)
		}
	})
}

var _ = sort.Ints

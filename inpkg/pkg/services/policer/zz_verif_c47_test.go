//go:build verif

package policer

// Property C47, policer path: Policer.processObject discards the local copy of
// an object because of its container ONLY when the container source
// definitively reports the container as absent.
//
// Same exhaustive domain as /verif/harness/c47 (package cells). For every
// (epoch, payments) pair a real two-shard engine holds one container per
// remaining cell; the policer runs over every object the engine lists, with
// the REAL placement.Service as its network view on top of the scripted
// container source (found / ContainerNotFound status / transient errors) and a
// one-node network map in which the local node is the only (and sufficient)
// holder – so for "found" containers the policer has no reason of its own to
// drop anything. Afterwards the new-epoch handler runs on every shard and the
// union decision (gone ∨ unpaid for ≥3 epochs) is checked.

import (
	"bytes"
	"context"
	"errors"
	"fmt"
	"os"
	"sort"
	"testing"

	iec "github.com/nspcc-dev/neofs-node/internal/ec"
	"github.com/nspcc-dev/neofs-node/pkg/local_object_storage/engine"
	"github.com/nspcc-dev/neofs-node/pkg/services/object/placement"
	"github.com/nspcc-dev/neofs-node/verifharness/c47/cells"
	"github.com/nspcc-dev/neofs-node/verifharness/ev"
	"github.com/nspcc-dev/neofs-node/verifharness/stor"
	"github.com/nspcc-dev/neofs-sdk-go/container"
	neofscryptotest "github.com/nspcc-dev/neofs-sdk-go/crypto/test"
	"github.com/nspcc-dev/neofs-sdk-go/netmap"
	"github.com/nspcc-dev/neofs-sdk-go/object"
	oid "github.com/nspcc-dev/neofs-sdk-go/object/id"
	"go.uber.org/zap"
)

type verifC47Netmap struct {
	epoch uint64
	nm    *netmap.NetMap
}

func (n *verifC47Netmap) GetNetMapByEpoch(uint64) (*netmap.NetMap, error) { return n.nm, nil }
func (n *verifC47Netmap) Epoch() (uint64, error)                          { return n.epoch, nil }
func (n *verifC47Netmap) NetMap() (*netmap.NetMap, error)                 { return n.nm, nil }

// verifC47Network is policer.Network backed by the real placement service.
type verifC47Network struct {
	svc      *placement.Service
	localKey []byte
}

func (n *verifC47Network) IsLocalNodeInNetmap() bool { return true }
func (n *verifC47Network) GetNodesForObject(a oid.Address) ([][]netmap.NodeInfo, []uint, []iec.Rule, error) {
	return n.svc.GetNodesForObject(a)
}
func (n *verifC47Network) IsLocalNodePublicKey(k []byte) bool { return bytes.Equal(k, n.localKey) }

func TestVerifC47Policer(t *testing.T) {
	rec := ev.New("C47", "policer")
	defer rec.Flush()
	k := &cells.Collector{Rec: rec}
	ctx := context.Background()

	localKey := bytes.Repeat([]byte{0x02}, 33)
	var node netmap.NodeInfo
	node.SetPublicKey(localKey)
	node.SetNetworkEndpoints("/dns4/localhost/tcp/8080")
	var nm netmap.NetMap
	nm.SetNodes([]netmap.NodeInfo{node})
	var pol netmap.PlacementPolicy
	if err := pol.DecodeString("REP 1"); err != nil {
		ev.Inconclusive("policy: %v", err)
	}
	var foundCnr container.Container
	foundCnr.SetPlacementPolicy(pol)

	cells.Outer(1, func(epoch int, payOn bool, _ int) {
		dir, err := os.MkdirTemp("", "c47p")
		if err != nil {
			ev.Inconclusive("mkdtemp: %v", err)
		}
		defer os.RemoveAll(dir)
		ep := &stor.Epoch{}
		eng, err := stor.OpenEngine([]stor.ShardCfg{
			{Dir: dir + "/s0", Epoch: ep, Payments: cells.Payments(payOn), FSTOpts: cells.FastBlob},
			{Dir: dir + "/s1", Epoch: ep, Payments: cells.Payments(payOn), FSTOpts: cells.FastBlob},
		})
		if err != nil {
			ev.Inconclusive("open engine: %v", err)
		}
		defer eng.E.Close()
		cells.Fill(func(o *object.Object) error { return eng.E.Put(ctx, o, nil) })

		src := cells.NewSource(epoch*2 + 7)
		src.Found = foundCnr
		nm.SetEpoch(uint64(epoch))
		svc, err := placement.New(src, &verifC47Netmap{epoch: uint64(epoch), nm: &nm})
		if err != nil {
			ev.Inconclusive("placement service: %v", err)
		}
		p := New(neofscryptotest.Signer(),
			WithNetwork(&verifC47Network{svc: svc, localKey: localKey}),
			WithLogger(zap.NewNop()),
			WithLocalStorage(eng.E),
		)

		// one full policer cycle: every listed object, listed the way shardPolicyWorker lists
		var (
			cursor *engine.Cursor
			seen   int
		)
		for {
			batch, next, err := eng.E.ListWithCursor(ctx, 50, cursor, iec.AttributeRuleIdx, iec.AttributePartIdx, object.FilterParentID)
			if err != nil {
				if errors.Is(err, engine.ErrEndOfListing) {
					break
				}
				ev.Inconclusive("list: %v", err)
			}
			for i := range batch {
				p.processObject(ctx, batch[i])
				seen++
			}
			if next == nil {
				break
			}
			cursor = next
		}
		if seen < 84*cells.ObjsPerCnr {
			ev.Inconclusive("engine listed only %d of %d objects", seen, 84*cells.ObjsPerCnr)
		}

		get := func(a oid.Address) (*object.Object, error) { return eng.E.Get(ctx, a) }
		cells.Inner(func(u, s int, pe bool) {
			c := cells.Cell{Epoch: epoch, Unpaid: u, PayOn: payOn, Src: s, PayErr: pe}
			got, oerr := cells.Observe(get, cells.CnrOf(u, s, pe))
			k.Judge("policer", c, false, 0, cells.Gone(c), got, oerr)
		})

		// then the epoch event reaches every shard
		ep.Set(uint64(epoch))
		shards := eng.E.VerifShards()
		ids := make([]string, 0, len(shards))
		for id := range shards {
			ids = append(ids, id)
		}
		sort.Strings(ids)
		for _, id := range ids {
			shards[id].VerifNewEpoch(uint64(epoch))
		}
		for pass := 0; pass < 2; pass++ {
			cells.Inner(func(u, s int, pe bool) {
				c := cells.Cell{Epoch: epoch, Unpaid: u, PayOn: payOn, Src: s, PayErr: pe}
				got, oerr := cells.Observe(get, cells.CnrOf(u, s, pe))
				k.Judge("policer+epoch", c, true, epoch, cells.Gone(c) || cells.UnpaidLong(c), got, oerr)
			})
			for _, id := range ids {
				shards[id].VerifGCPass()
			}
		}
		cells.Inner(func(u, s int, pe bool) {
			c := cells.Cell{Epoch: epoch, Unpaid: u, PayOn: payOn, Src: s, PayErr: pe}
			lbl := "keep"
			if cells.Gone(c) {
				lbl = "discard-gone"
			} else if cells.UnpaidLong(c) {
				lbl = "discard-unpaid"
			}
			rec.Case(cells.Nontrivial(c), fmt.Sprintf("policer/%v", c), "policer:"+lbl, "policer:src-"+cells.SrcNames[s])
			if rec.WantSample() && c.Epoch == 5 && u == 1 && !pe {
				rec.Sample(map[string]any{"path": "policer+epoch", "cell": c, "expect_discard": cells.Gone(c) || cells.UnpaidLong(c)})
			}
		})
	})
	rec.Set("exhaustive", true)
	if msg := k.Report(); msg != "" {
		t.Fatal(msg)
	}
}

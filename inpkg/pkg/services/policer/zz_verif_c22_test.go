//go:build verif

package policer

// Property C22 (policer part): the node order in which the Policer offers a
// RECREATED EC part to the replicator is the part's own node sequence.
//
// An EC object (rule d/p, d 1..4, p 1..3) is spread over the sorted node list of
// its EC rule (rule index 0..1, preceded by 0..2 REP rules with their own lists);
// 1..p parts are lost. The holder of another part runs the real
// Policer.processObject on its part: checkECParts HEADs the siblings, fetches
// the surviving payloads, decodes the lost parts and hands each of them to the
// replicator (recreateECPart). A capturing replicator records the node list of
// every such task.
//
// Oracle for every lost part i: the offered list is a permutation of the sorted
// node list; it equals internal/ec NodeSequenceForPart(i, total, nodes) applied
// to that list (the order PUT, GET and the policer's own optimal-node check
// use); when nodes >= total it starts at node i and different lost parts start
// at different nodes. Agreement with the policer's own check: a policer
// running on the first offered node sees itself as the optimal holder of the
// recreated part (processECPartByRule contacts nobody and removes nothing).

import (
	"bytes"
	"context"
	"fmt"
	"io"
	"reflect"
	"slices"
	"strconv"
	"sync"
	"testing"
	"unsafe"

	iec "github.com/nspcc-dev/neofs-node/internal/ec"
	objectcore "github.com/nspcc-dev/neofs-node/pkg/core/object"
	"github.com/nspcc-dev/neofs-node/pkg/services/replicator"
	"github.com/nspcc-dev/neofs-node/verifharness/ev"
	"github.com/nspcc-dev/neofs-node/verifharness/uni"
	apistatus "github.com/nspcc-dev/neofs-sdk-go/client/status"
	cid "github.com/nspcc-dev/neofs-sdk-go/container/id"
	neofscryptotest "github.com/nspcc-dev/neofs-sdk-go/crypto/test"
	"github.com/nspcc-dev/neofs-sdk-go/netmap"
	"github.com/nspcc-dev/neofs-sdk-go/object"
	oid "github.com/nspcc-dev/neofs-sdk-go/object/id"
	"go.uber.org/zap"
	"pgregory.net/rapid"
)

const c22MaxNodes = 24

func c22NodeInfo(i int) netmap.NodeInfo {
	var n netmap.NodeInfo
	n.SetPublicKey([]byte("verif_c22_node_" + strconv.Itoa(i)))
	n.SetNetworkEndpoints("localhost:" + strconv.Itoa(30000+i))
	n.SetOnline()
	return n
}

type c22Net struct {
	localKey []byte
	place    func(oid.Address) ([][]netmap.NodeInfo, []uint, []iec.Rule, error)
}

func (n *c22Net) IsLocalNodeInNetmap() bool          { return true }
func (n *c22Net) IsLocalNodePublicKey(k []byte) bool { return bytes.Equal(k, n.localKey) }
func (n *c22Net) GetNodesForObject(a oid.Address) ([][]netmap.NodeInfo, []uint, []iec.Rule, error) {
	return n.place(a)
}

// c22World is the cluster state of one case.
type c22World struct {
	rule    iec.Rule
	ruleIdx int
	sorted  []netmap.NodeInfo
	parent  object.Object
	parts   []object.Object // with payload
	holder  []int           // node index per part, -1 = lost
	local   int             // node index of the policer under test
}

func (w *c22World) nodeIdx(key []byte) int {
	return slices.IndexFunc(w.sorted, func(n netmap.NodeInfo) bool { return bytes.Equal(n.PublicKey(), key) })
}

func (w *c22World) partByID(id oid.ID) int {
	return slices.IndexFunc(w.parts, func(o object.Object) bool { return o.GetID() == id })
}

// partFromXHeaders resolves the part requested through the EC X-headers.
func (w *c22World) partFromXHeaders(parent oid.ID, xs []string) int {
	if parent != w.parent.GetID() || len(xs)%2 != 0 {
		return -1
	}
	rule, part := -1, -1
	for i := 0; i < len(xs); i += 2 {
		v, err := strconv.Atoi(xs[i+1])
		if err != nil {
			return -1
		}
		switch xs[i] {
		case iec.AttributeRuleIdx:
			rule = v
		case iec.AttributePartIdx:
			part = v
		}
	}
	if rule != w.ruleIdx || part < 0 || part >= len(w.parts) {
		return -1
	}
	return part
}

// c22Store is the policer's localStorage of node w.local.
type c22Store struct {
	*vpStore
	w *c22World
}

func (s *c22Store) Head(_ context.Context, a oid.Address, _ bool) (*object.Object, error) {
	if a.Object() == s.w.parent.GetID() {
		h := s.w.parent
		return &h, nil
	}
	return nil, apistatus.ErrObjectNotFound
}

func (s *c22Store) HeadECPart(_ context.Context, _ cid.ID, parent oid.ID, pi iec.PartInfo) (object.Object, error) {
	if parent == s.w.parent.GetID() && pi.RuleIndex == s.w.ruleIdx && pi.Index >= 0 && pi.Index < len(s.w.parts) && s.w.holder[pi.Index] == s.w.local {
		return *s.w.parts[pi.Index].CutPayload(), nil
	}
	return object.Object{}, apistatus.ErrObjectNotFound
}

func (s *c22Store) GetRange(_ context.Context, a oid.Address, off, ln uint64) ([]byte, error) {
	i := s.w.partByID(a.Object())
	if i < 0 || s.w.holder[i] != s.w.local {
		return nil, apistatus.ErrObjectNotFound
	}
	return c22Slice(s.w.parts[i].Payload(), off, ln)
}

func c22Slice(p []byte, off, ln uint64) ([]byte, error) {
	if off > uint64(len(p)) || ln > uint64(len(p))-off {
		return nil, apistatus.ErrObjectOutOfRange
	}
	if ln == 0 {
		return p[off:], nil
	}
	return p[off : off+ln], nil
}

// c22Conns answers HEAD / RANGE of remote nodes from the world.
type c22Conns struct {
	w     *c22World
	mu    sync.Mutex
	heads int
}

func (c *c22Conns) headObject(_ context.Context, n netmap.NodeInfo, a oid.Address, _ bool, xs []string) (object.Object, error) {
	c.mu.Lock()
	c.heads++
	c.mu.Unlock()
	ni := c.w.nodeIdx(n.PublicKey())
	if ni == c.w.local {
		panic("verif: policer contacts its own node remotely")
	}
	pi := -1
	if xs != nil {
		pi = c.w.partFromXHeaders(a.Object(), xs)
	} else {
		pi = c.w.partByID(a.Object())
	}
	if ni < 0 || pi < 0 || c.w.holder[pi] != ni {
		return object.Object{}, apistatus.ErrObjectNotFound
	}
	return *c.w.parts[pi].CutPayload(), nil
}

func (c *c22Conns) GetRange(_ context.Context, n netmap.NodeInfo, _ cid.ID, id oid.ID, off, ln uint64, xs []string) (io.ReadCloser, error) {
	ni := c.w.nodeIdx(n.PublicKey())
	pi := c.w.partFromXHeaders(id, xs)
	if ni < 0 || pi < 0 || c.w.holder[pi] != ni {
		return nil, apistatus.ErrObjectNotFound
	}
	b, err := c22Slice(c.w.parts[pi].Payload(), off, ln)
	if err != nil {
		return nil, err
	}
	return io.NopCloser(bytes.NewReader(b)), nil
}

// c22Repl captures replication tasks; the first offered node accepts.
type c22Repl struct {
	mu    sync.Mutex
	tasks []c22Task
}

type c22Task struct {
	obj   *object.Object
	nodes []netmap.NodeInfo
}

func c22TaskObject(task replicator.Task) *object.Object {
	f := reflect.ValueOf(&task).Elem().FieldByName("obj")
	if !f.IsValid() {
		ev.Inconclusive("replicator.Task has no field obj any more")
	}
	return *(**object.Object)(unsafe.Pointer(f.UnsafeAddr()))
}

func (r *c22Repl) HandleTask(_ context.Context, task replicator.Task, res replicator.TaskResult) {
	t := c22Task{obj: c22TaskObject(task), nodes: slices.Clone(task.Nodes())}
	r.mu.Lock()
	r.tasks = append(r.tasks, t)
	r.mu.Unlock()
	if t.obj != nil && len(t.nodes) > 0 {
		res.SubmitSuccessfulReplication(t.nodes[0])
	}
}

func TestVerifC22PolicerRecreate(t *testing.T) {
	rec := ev.New("C22", "policer-recreate")
	defer rec.Flush()
	ctx := context.Background()
	signer := neofscryptotest.Signer()
	all := make([]netmap.NodeInfo, c22MaxNodes)
	for i := range all {
		all[i] = c22NodeInfo(i)
	}
	decoy := []netmap.NodeInfo{c22NodeInfo(100), c22NodeInfo(101), c22NodeInfo(102)}
	recreated := 0

	rapid.Check(t, func(t *rapid.T) {
		d := rapid.IntRange(1, 4).Draw(t, "data")
		p := rapid.IntRange(1, 3).Draw(t, "parity")
		total := d + p
		var n int
		if rapid.IntRange(0, 9).Draw(t, "fewNodes") < 2 {
			n = rapid.IntRange(1, total-1).Draw(t, "nodes")
		} else {
			n = rapid.IntRange(total, min(c22MaxNodes, 3*total)).Draw(t, "nodes")
		}
		w := &c22World{rule: iec.Rule{DataPartNum: uint8(d), ParityPartNum: uint8(p)}}
		w.ruleIdx = rapid.IntRange(0, 1).Draw(t, "ruleIdx")
		// the sorted list is an arbitrary arrangement of node identities
		perm := rapid.Permutation(c22Range(c22MaxNodes)).Draw(t, "sorted")
		w.sorted = make([]netmap.NodeInfo, n)
		for i := range w.sorted {
			w.sorted[i] = all[perm[i]]
		}

		plen := rapid.IntRange(1, 200).Draw(t, "payloadLen")
		payload := uni.Payload(0, vpECParent, plen)
		w.parent = *uni.ParentHeader(0, vpECParent, 0, -1, plen)
		chunks, _, err := iec.Encode(w.rule, payload)
		if err != nil {
			ev.Inconclusive("iec.Encode: %v", err)
		}
		for i := range chunks {
			po, err := iec.FormObjectForECPart(signer, w.parent, chunks[i], iec.PartInfo{RuleIndex: w.ruleIdx, Index: i})
			if err != nil {
				ev.Inconclusive("form part: %v", err)
			}
			w.parts = append(w.parts, po)
		}

		// 1..p lost parts; every survivor sits on the k-th node of its own sequence
		nLost := rapid.IntRange(1, p).Draw(t, "lost")
		order := rapid.Permutation(c22Range(total)).Draw(t, "partOrder")
		lost := slices.Sorted(slices.Values(order[:nLost]))
		localPart := order[nLost]
		w.holder = make([]int, total)
		for i := range w.holder {
			if slices.Contains(lost, i) {
				w.holder[i] = -1
				continue
			}
			seq := slices.Collect(iec.NodeSequenceForPart(i, total, n))
			k := rapid.SampledFrom([]int{0, 0, 0, 0, 1, 2}).Draw(t, "reserve")
			w.holder[i] = seq[min(k, len(seq)-1)]
		}
		w.local = w.holder[localPart]

		lists := [][]netmap.NodeInfo{w.sorted}
		rules := []iec.Rule{w.rule}
		if w.ruleIdx == 1 {
			lists = [][]netmap.NodeInfo{decoy, w.sorted}
			rules = []iec.Rule{{DataPartNum: 2, ParityPartNum: 1}, w.rule}
		}
		// 0-2 REP rules in front of the EC rules, each with its own node list made of
		// identities that are not in the EC rule's list
		nRep := rapid.SampledFrom([]int{0, 1, 1, 2}).Draw(t, "repLists")
		var repRules []uint
		if nRep > 0 {
			var repLists [][]netmap.NodeInfo
			for r := 0; r < nRep; r++ {
				ln := rapid.IntRange(1, 2*total).Draw(t, "repLen")
				l := make([]netmap.NodeInfo, ln)
				for i := range l {
					if j := n + r*total + i; j < c22MaxNodes && rapid.Bool().Draw(t, "repFromPool") {
						l[i] = all[perm[j]]
					} else {
						l[i] = c22NodeInfo(200 + r*50 + i)
					}
				}
				repLists = append(repLists, l)
				repRules = append(repRules, uint(rapid.IntRange(1, min(3, ln)).Draw(t, "rep")))
			}
			lists = append(repLists, lists...)
		}
		parentAddr := oid.NewAddress(w.parent.GetContainerID(), w.parent.GetID())
		net := &c22Net{localKey: w.sorted[w.local].PublicKey(), place: func(a oid.Address) ([][]netmap.NodeInfo, []uint, []iec.Rule, error) {
			if a != parentAddr {
				panic("verif: placement requested for " + a.String())
			}
			return lists, repRules, rules, nil
		}}
		repl := &c22Repl{}
		pol := New(signer, WithNetwork(net), WithLogger(zap.NewNop()))
		pol.localStorage = &c22Store{vpStore: &vpStore{}, w: w}
		pol.apiConns = &c22Conns{w: w}
		pol.replicator = repl

		parentID := w.parent.GetID()
		pol.processObject(ctx, objectcore.AddressWithAttributes{
			Address:    oid.NewAddress(w.parent.GetContainerID(), w.parts[localPart].GetID()),
			Type:       object.TypeRegular,
			Attributes: []string{strconv.Itoa(w.ruleIdx), strconv.Itoa(localPart), string(parentID[:])},
			ShardIDs:   []string{"shard0"},
		})

		desc := fmt.Sprintf("EC %d/%d rule#%d after %d REP list(s) %v nodes=%d lost=%v local part %d on node %d holders=%v", d, p, w.ruleIdx, nRep, repRules, n, lost, localPart, w.local, w.holder)
		labels := []string{"total-" + strconv.Itoa(total), "rep-lists-" + strconv.Itoa(nRep)}
		if n < total {
			labels = append(labels, "nodes<total")
		} else if n == total {
			labels = append(labels, "nodes=total")
		} else {
			labels = append(labels, "nodes>total")
		}
		nontrivial := false
		firsts := map[int]int{}
		for _, m := range lost {
			var got []int
			found := 0
			var partAddr oid.Address
			for _, tk := range repl.tasks {
				if tk.obj == nil {
					continue
				}
				pi, err := iec.GetRequiredPartInfo(*tk.obj)
				if err != nil {
					t.Fatalf("C22 violated: recreated object without EC attributes: %v\ncase: %s", err, desc)
				}
				if pi.Index != m {
					continue
				}
				found++
				partAddr = oid.NewAddress(tk.obj.GetContainerID(), tk.obj.GetID())
				got = got[:0]
				for _, nd := range tk.nodes {
					got = append(got, w.nodeIdx(nd.PublicKey()))
				}
			}
			if found == 0 {
				labels = append(labels, "part-not-recreated")
				continue
			}
			if found > 1 {
				t.Fatalf("C22 violated: part %d recreated %d times in one pass\ncase: %s", m, found, desc)
			}
			recreated++
			exp := slices.Collect(iec.NodeSequenceForPart(m, total, n))
			inv := make([]int, len(exp))
			for i, x := range exp {
				inv[x] = i
			}
			if !slices.Equal(inv, exp) {
				nontrivial = true
				labels = append(labels, "sequence-is-not-its-own-inverse")
			}
			sorted := slices.Sorted(slices.Values(got))
			if !slices.Equal(sorted, c22Range(n)) {
				t.Fatalf("C22 violated: nodes offered for recreated part %d are not a permutation of the %d container nodes: %v\ncase: %s", m, n, got, desc)
			}
			if !slices.Equal(got, exp) {
				t.Fatalf("C22 violated: recreated part %d is offered to nodes %v, the part's node sequence (PUT/GET/policer check) is %v\ncase: %s", m, got, exp, desc)
			}
			if n >= total {
				if got[0] != m {
					t.Fatalf("C22 violated: recreated part %d starts at node %d\ncase: %s", m, got[0], desc)
				}
				if prev, ok := firsts[got[0]]; ok {
					t.Fatalf("C22 violated: recreated parts %d and %d both start at node %d\ncase: %s", prev, m, got[0], desc)
				}
				firsts[got[0]] = m
			}
			// agreement with the policer's own optimal-node check on the accepting node
			w2 := *w
			w2.holder = slices.Clone(w.holder)
			w2.holder[m] = got[0]
			w2.local = got[0]
			st2 := &vpStore{}
			conns2 := &c22Conns{w: &w2}
			repl2 := &c22Repl{}
			pol2 := New(signer, WithNetwork(&c22Net{localKey: w.sorted[got[0]].PublicKey(), place: net.place}), WithLogger(zap.NewNop()))
			pol2.localStorage = &c22Store{vpStore: st2, w: &w2}
			pol2.apiConns = conns2
			pol2.replicator = repl2
			pol2.processECPartByRule(ctx, w.rule, partAddr, m, w.sorted)
			if conns2.heads > 0 || len(st2.deletes) > 0 || len(repl2.tasks) > 0 {
				t.Fatalf("C22 violated: the node that accepted recreated part %d (node %d, first offered) is not the optimal holder by the policer's own check: %d HEADs, %d deletes, %d move tasks\ncase: %s",
					m, got[0], conns2.heads, len(st2.deletes), len(repl2.tasks), desc)
			}
		}
		rec.Case(nontrivial, desc, labels...)
		if rec.WantSample() && nontrivial {
			rec.Sample(desc)
		}
	})
	if recreated == 0 {
		ev.Inconclusive("the EC part recreation path was never reached")
	}
}

func c22Range(n int) []int {
	r := make([]int, n)
	for i := range r {
		r[i] = i
	}
	return r
}

//go:build verif

package policer

// Property C27: repeated policer cycles restore the required replicas and then
// stop; the replicator never over-reports.
//
// A cluster of 3-6 nodes shares one in-memory replica map (object x node).
// Every node runs the real Policer.processObject for every object it holds,
// with the REAL replicator.Replicator (its remote sender writes into the map
// through a scripted client constructor), HEAD fakes reading the map and a
// localStorage fake whose Delete clears the node's cell. Rounds (every node
// once, in a generated order) are repeated until a whole round neither
// replicates nor deletes.
//
// Optionally the first 0-2 rounds are "faulty": replication PUTs to some nodes
// fail (HEADs stay truthful). They only feed the safety clauses; the
// convergence bound of 12 rounds is counted after the last faulty round.
//
// Oracle: (safety, after every processObject) the number of copies of every
// object never becomes 0; every replication task reports at most `quantity`
// successes, each for a node of the task that really stored. (Fixed point) a
// quiet round is reached within 12 rounds and then every primary node (first
// REP nodes of every list; every node of every list for LOCK/LINK) holds the
// object. Containers may have EC rules behind (or instead of) the REP rules,
// with node lists of other sizes: LOCK/LINK must then reach every node of
// every list, TOMBSTONE every node of each EC rule's list ("broadcast across EC
// SN" in processObject), other non-EC objects are placed by the REP rules only.

import (
	"context"
	"fmt"
	"strconv"
	"strings"
	"testing"

	iec "github.com/nspcc-dev/neofs-node/internal/ec"
	objectcore "github.com/nspcc-dev/neofs-node/pkg/core/object"
	"github.com/nspcc-dev/neofs-node/verifharness/ev"
	apistatus "github.com/nspcc-dev/neofs-sdk-go/client/status"
	"github.com/nspcc-dev/neofs-sdk-go/netmap"
	"github.com/nspcc-dev/neofs-sdk-go/object"
	oid "github.com/nspcc-dev/neofs-sdk-go/object/id"
	"pgregory.net/rapid"
)

const (
	c27MaxNodes  = 6
	c27MaxRounds = 12
)

type c27Obj struct {
	Content int // index of the content object (vpObj*)
	// Lists holds the REP lists (one per Reps entry) followed by the lists of
	// the container's EC rules (mixed REP+EC or EC-only policy).
	Lists [][]int
	Reps  []uint
	Init  []bool
}

func (o *c27Obj) nEC() int { return len(o.Lists) - len(o.Reps) }

// required returns how many nodes of list i must hold the object, as the
// documented intent of processObject/processNodes says: REP number on REP
// lists; LOCK/LINK are broadcast over every node of every list; TOMBSTONE is
// broadcast over every node of each EC rule's list; other non-EC objects are
// not placed by EC rules at all (ok=false).
func (o *c27Obj) required(i int) (int, bool) {
	typ := vpObjTypes[o.Content]
	if typ == object.TypeLock || typ == object.TypeLink {
		return len(o.Lists[i]), true
	}
	if i < len(o.Reps) {
		return int(o.Reps[i]), true
	}
	if typ == object.TypeTombstone {
		return len(o.Lists[i]), true
	}
	return 0, false
}

type c27Case struct {
	N           int
	Objs        []c27Obj
	FaultRounds int
	FailPut     []bool
}

func (c *c27Case) String() string {
	var b strings.Builder
	fmt.Fprintf(&b, "N=%d", c.N)
	if c.FaultRounds > 0 {
		fmt.Fprintf(&b, " faultyRounds=%d failPut=%v", c.FaultRounds, c.FailPut)
	}
	for _, o := range c.Objs {
		fmt.Fprintf(&b, " || %s", vpObjTypes[o.Content])
		for i, l := range o.Lists {
			if i < len(o.Reps) {
				fmt.Fprintf(&b, " REP %d %v", o.Reps[i], l)
			} else {
				fmt.Fprintf(&b, " EC %v", l)
			}
		}
		b.WriteString(" holders=[")
		first := true
		for n, h := range o.Init {
			if h {
				if !first {
					b.WriteByte(' ')
				}
				first = false
				b.WriteString(strconv.Itoa(n))
			}
		}
		b.WriteByte(']')
	}
	return b.String()
}

// primaries returns the nodes that must hold object o at the fixed point.
func (o *c27Obj) primaries() map[int]bool {
	res := map[int]bool{}
	for i, l := range o.Lists {
		k, ok := o.required(i)
		if !ok {
			continue
		}
		for _, n := range l[:k] {
			res[n] = true
		}
	}
	return res
}

type c27Node struct {
	net   *vpNet
	st    *vpStore
	conns *vpConns
	p     *Policer
	rp    *vpRepl
}

type c27World struct {
	c       *c27Case
	hold    [][]bool // [object][node]
	faulty  bool
	stores  int
	deletes int
	putFail int
	history []string
}

func (w *c27World) objByID(id oid.ID) int {
	for i, o := range w.c.Objs {
		if vpAddr(o.Content).Object() == id {
			return i
		}
	}
	panic("verif: unknown object " + id.String())
}

func (w *c27World) copies(oi int) int {
	k := 0
	for _, h := range w.hold[oi] {
		if h {
			k++
		}
	}
	return k
}

func (w *c27World) holders(oi int) []int {
	var r []int
	for n, h := range w.hold[oi] {
		if h {
			r = append(r, n)
		}
	}
	return r
}

type c27Env struct {
	content *vpContent
	nodes   [c27MaxNodes]*c27Node
	w       *c27World
}

func newC27Env() *c27Env {
	e := &c27Env{content: vpOpenContent()}
	for i := range e.nodes {
		self := i
		n := &c27Node{net: &vpNet{local: self, inNetmap: true}, st: &vpStore{}, conns: &vpConns{}}
		n.p, n.rp = vpNewPolicer(e.content, n.net, n.st, n.conns)
		n.net.place = func(a oid.Address) ([][]netmap.NodeInfo, []uint, []iec.Rule, error) {
			o := &e.w.c.Objs[e.w.objByID(a.Object())]
			lists := make([][]netmap.NodeInfo, len(o.Lists))
			for i, l := range o.Lists {
				lists[i] = make([]netmap.NodeInfo, len(l))
				for j, x := range l {
					lists[i][j] = vpNode(x, false)
				}
			}
			var ecRules []iec.Rule
			for i := 0; i < o.nEC(); i++ {
				ecRules = append(ecRules, iec.Rule{DataPartNum: 2, ParityPartNum: 2})
			}
			return lists, o.Reps, ecRules, nil
		}
		n.conns.head = func(node int, a oid.Address, _ []string) error {
			if node == self {
				panic("verif: policer HEADs its own node remotely")
			}
			if e.w.hold[e.w.objByID(a.Object())][node] {
				return nil
			}
			return apistatus.ErrObjectNotFound
		}
		n.rp.clients.store = func(node int, id oid.ID) error {
			w := e.w
			oi := w.objByID(id)
			if node == self {
				panic("verif: replicator sends to its own node remotely")
			}
			if !w.hold[oi][self] {
				panic("verif: node replicates an object it does not hold")
			}
			if w.faulty && w.c.FailPut[node] {
				n.rp.noteStore(node, false)
				w.putFail++
				w.history = append(w.history, fmt.Sprintf("  n%d -> n%d PUT %s FAILED", self, node, vpObjTypes[w.c.Objs[oi].Content]))
				return errVPUnavailable
			}
			n.rp.noteStore(node, true)
			w.hold[oi][node] = true
			w.stores++
			w.history = append(w.history, fmt.Sprintf("  n%d -> n%d PUT %s", self, node, vpObjTypes[w.c.Objs[oi].Content]))
			return nil
		}
		n.st.onDelete = func(a oid.Address) {
			w := e.w
			oi := w.objByID(a.Object())
			w.hold[oi][self] = false
			w.deletes++
			w.history = append(w.history, fmt.Sprintf("  n%d DELETE %s", self, vpObjTypes[w.c.Objs[oi].Content]))
		}
		e.nodes[i] = n
	}
	return e
}

func (e *c27Env) close() { e.content.close() }

func c27Gen(t *rapid.T) *c27Case {
	c := &c27Case{N: rapid.IntRange(3, c27MaxNodes).Draw(t, "nodes")}
	all := make([]int, c.N)
	for i := range all {
		all[i] = i
	}
	nobj := rapid.SampledFrom([]int{1, 1, 2, 3}).Draw(t, "objects")
	contents := rapid.Permutation([]int{vpObjRegular, vpObjRegular2, vpObjTombstone, vpObjLock, vpObjLink}).Draw(t, "kinds")
	if nobj == 1 && rapid.Bool().Draw(t, "regularFirst") {
		contents[0] = vpObjRegular
	}
	for k := 0; k < nobj; k++ {
		o := c27Obj{Content: contents[k]}
		nl := rapid.SampledFrom([]int{1, 1, 1, 2}).Draw(t, "lists")
		for i := 0; i < nl; i++ {
			ln := rapid.IntRange(1, c.N).Draw(t, "len")
			perm := rapid.Permutation(all).Draw(t, "list")
			o.Lists = append(o.Lists, append([]int(nil), perm[:ln]...))
			o.Reps = append(o.Reps, uint(rapid.IntRange(1, min(3, ln)).Draw(t, "rep")))
		}
		// mixed REP+EC policy (lists of unequal sizes) or, for the broadcast types,
		// an EC-only one; a REGULAR non-EC object needs a REP rule to be legitimate
		typ := vpObjTypes[o.Content]
		nec := rapid.SampledFrom([]int{0, 0, 1, 1, 2}).Draw(t, "ecLists")
		if typ != object.TypeRegular && nec > 0 && rapid.IntRange(0, 3).Draw(t, "ecOnly") == 0 {
			o.Lists, o.Reps = nil, nil
		}
		for i := 0; i < nec; i++ {
			ln := rapid.IntRange(1, c.N).Draw(t, "ecLen")
			perm := rapid.Permutation(all).Draw(t, "ecList")
			o.Lists = append(o.Lists, append([]int(nil), perm[:ln]...))
		}
		o.Init = make([]bool, c.N)
		for n := range o.Init {
			o.Init[n] = rapid.IntRange(0, 2).Draw(t, "holds") == 0
		}
		o.Init[rapid.IntRange(0, c.N-1).Draw(t, "holder")] = true
		c.Objs = append(c.Objs, o)
	}
	c.FaultRounds = rapid.SampledFrom([]int{0, 0, 1, 2}).Draw(t, "faultyRounds")
	c.FailPut = make([]bool, c.N)
	if c.FaultRounds > 0 {
		for n := range c.FailPut {
			c.FailPut[n] = rapid.Bool().Draw(t, "failPut")
		}
	}
	return c
}

func TestVerifC27Converge(t *testing.T) {
	rec := ev.New("C27", "converge")
	defer rec.Flush()
	env := newC27Env()
	defer env.close()
	ctx := context.Background()
	rapid.Check(t, func(t *rapid.T) {
		c := c27Gen(t)
		w := &c27World{c: c}
		for _, o := range c.Objs {
			w.hold = append(w.hold, append([]bool(nil), o.Init...))
		}
		env.w = w
		all := make([]int, c.N)
		for i := range all {
			all[i] = i
		}

		// classification of the initial state
		var labels []string
		needsRepl, excess, outside := false, false, false
		for oi := range c.Objs {
			prim := c.Objs[oi].primaries()
			inCnr := map[int]bool{}
			for i, l := range c.Objs[oi].Lists {
				if _, ok := c.Objs[oi].required(i); !ok {
					continue
				}
				for _, n := range l {
					inCnr[n] = true
				}
			}
			if o := &c.Objs[oi]; o.nEC() > 0 {
				typ := vpObjTypes[o.Content]
				switch {
				case len(o.Reps) == 0:
					labels = append(labels, "ec-only&"+strings.ToLower(typ.String()))
				case typ == object.TypeTombstone:
					labels = append(labels, "mixed-rep-ec&tombstone")
					for i := range o.Reps {
						for j := len(o.Reps); j < len(o.Lists); j++ {
							if i == j-len(o.Reps) && len(o.Lists[i]) < len(o.Lists[j]) {
								labels = append(labels, "mixed-rep-ec&tombstone&rep-list-shorter")
							}
						}
					}
				default:
					labels = append(labels, "mixed-rep-ec&"+strings.ToLower(typ.String()))
				}
			}
			for n := range prim {
				if !w.hold[oi][n] {
					needsRepl = true
				}
			}
			for n, h := range w.hold[oi] {
				if h && !prim[n] {
					excess = true
					if !inCnr[n] {
						outside = true
					}
				}
			}
		}
		if needsRepl {
			labels = append(labels, "primary-lacks-copy")
		}
		if excess {
			labels = append(labels, "non-primary-holder")
		}
		if outside {
			labels = append(labels, "holder-outside-container")
		}
		if c.FaultRounds > 0 {
			labels = append(labels, "faulty-rounds")
		}
		labels = append(labels, "nodes-"+strconv.Itoa(c.N), "objects-"+strconv.Itoa(len(c.Objs)))

		quietAt := -1
		desc := c.String()
		defer func() {
			labels = append(labels, "rounds-to-quiet-"+strconv.Itoa(quietAt))
			if w.putFail > 0 {
				labels = append(labels, "replica-put-failed")
			}
			if w.deletes > 0 {
				labels = append(labels, "some-copy-removed")
			}
			rec.Case(needsRepl, desc, labels...)
			if rec.WantSample() && needsRepl {
				rec.Sample(desc)
			}
		}()
		fatal := func(f string, a ...any) {
			t.Fatalf("C27 violated: %s\ncase: %s\nhistory:\n%s", fmt.Sprintf(f, a...), desc, strings.Join(w.history, "\n"))
		}

		for round := 0; round < c.FaultRounds+c27MaxRounds; round++ {
			w.faulty = round < c.FaultRounds
			order := rapid.Permutation(all).Draw(t, "order")
			w.history = append(w.history, fmt.Sprintf("round %d (faulty=%v) order %v", round, w.faulty, order))
			s0, d0, f0 := w.stores, w.deletes, w.putFail
			for _, n := range order {
				node := env.nodes[n]
				for oi := range c.Objs {
					if !w.hold[oi][n] {
						continue
					}
					o := &c.Objs[oi]
					node.rp.tasks = nil
					node.st.reset()
					node.p.processObject(ctx, objectcore.AddressWithAttributes{
						Address:    vpAddr(o.Content),
						Type:       vpObjTypes[o.Content],
						Attributes: make([]string, 3),
						ShardIDs:   []string{"shard0"},
					})
					for _, tk := range node.rp.tasks {
						if m := tk.check(); m != "" {
							fatal("%s (node n%d, %s)", m, n, vpObjTypes[o.Content])
						}
					}
					for oj := range c.Objs {
						if w.copies(oj) == 0 {
							fatal("no copy of %s is left after n%d processed %s", vpObjTypes[c.Objs[oj].Content], n, vpObjTypes[o.Content])
						}
					}
				}
			}
			if !w.faulty && w.stores == s0 && w.deletes == d0 && w.putFail == f0 {
				quietAt = round - c.FaultRounds
				break
			}
		}
		if quietAt < 0 {
			fatal("no quiet round within %d rounds after the faults stopped", c27MaxRounds)
		}
		for oi := range c.Objs {
			for n := range c.Objs[oi].primaries() {
				if !w.hold[oi][n] {
					fatal("fixed point reached (round %d) but primary node n%d does not hold %s; holders %v", quietAt, n, vpObjTypes[c.Objs[oi].Content], w.holders(oi))
				}
			}
		}
	})
}

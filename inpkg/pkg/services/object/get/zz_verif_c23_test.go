//go:build verif

package getsvc

// C23: reading a whole object or any payload range through the GET service
// returns exactly the original bytes – for objects stored whole, size-split
// (V1 split ID / V2 first ID, via the link object or walking back from the last
// part) and erasure-coded (with <= parity parts missing). An unsatisfiable
// range is reported as ErrObjectOutOfRange.
//
// Reach: Service with in-memory fakes for localStorage / clientCache / conns /
// localObjects. The fakes serve payload ranges with common.PayloadRange.Resolve
// exactly as the storage engine does (FSTree.readPayloadRange → Resolve): in
// particular an offset-length range (0,0) means the WHOLE payload.
//
// Oracle: bytes received by the ObjectWriter == payload[off:off+ln] where
// (off, ln) come from an independent reading of the range modes; the written
// header equals the parent header; unsatisfiable ⇒ ErrObjectOutOfRange.

import (
	"bytes"
	"context"
	"crypto/ecdsa"
	"errors"
	"flag"
	"fmt"
	"io"
	"os"
	"strconv"
	"strings"
	"testing"

	iec "github.com/nspcc-dev/neofs-node/internal/ec"
	"github.com/nspcc-dev/neofs-node/pkg/local_object_storage/blobstor/common"
	"github.com/nspcc-dev/neofs-node/verifharness/ev"
	"github.com/nspcc-dev/neofs-node/verifharness/genobj"
	"github.com/nspcc-dev/neofs-node/verifharness/gensign"
	"github.com/nspcc-dev/neofs-node/verifharness/stor"
	"github.com/nspcc-dev/neofs-sdk-go/client"
	apistatus "github.com/nspcc-dev/neofs-sdk-go/client/status"
	cid "github.com/nspcc-dev/neofs-sdk-go/container/id"
	neofscrypto "github.com/nspcc-dev/neofs-sdk-go/crypto"
	"github.com/nspcc-dev/neofs-sdk-go/netmap"
	"github.com/nspcc-dev/neofs-sdk-go/object"
	oid "github.com/nspcc-dev/neofs-sdk-go/object/id"
	"github.com/nspcc-dev/neofs-sdk-go/object/slicer"
	"github.com/nspcc-dev/neofs-sdk-go/user"
	"github.com/nspcc-dev/neofs-sdk-go/version"
	"go.uber.org/zap"
	"pgregory.net/rapid"
)

// ---------------------------------------------------------------------------
// fakes

// vc23Store is an in-memory object store used both as the local storage of the
// service under test and as the storage behind a remote node.
type vc23Store struct {
	unimplementedLocalStorage
	objs map[oid.ID]*object.Object
	virt map[oid.ID]*object.SplitInfo
}

func newVC23Store() *vc23Store {
	return &vc23Store{objs: map[oid.ID]*object.Object{}, virt: map[oid.ID]*object.SplitInfo{}}
}

func (s *vc23Store) serve(exec *execCtx) (*object.Object, io.ReadCloser, error) {
	id := exec.address().Object()
	if si, ok := s.virt[id]; ok {
		if exec.headOnly() && !exec.isRaw() {
			// shard.Head: the header of a virtual object is the parent header of its
			// last part or link object when one of them is stored here
			for _, cid := range []oid.ID{si.GetLastPart(), si.GetLink()} {
				if c, ok := s.objs[cid]; ok && c.Parent() != nil {
					return c.Parent(), nil, nil
				}
			}
		}
		return nil, nil, object.NewSplitInfoError(si)
	}
	obj, ok := s.objs[id]
	if !ok {
		var e apistatus.ObjectNotFound
		return nil, nil, e
	}
	hdr := obj.CutPayload()
	if exec.headOnly() {
		return hdr, nil, nil
	}
	pld := obj.Payload()
	if exec.hasPayloadRange() {
		off, ln, err := exec.payloadRange.Resolve(uint64(len(pld)))
		if err != nil {
			return nil, nil, err
		}
		pld = pld[off : off+ln]
	}
	return hdr, io.NopCloser(bytes.NewReader(pld)), nil
}

func (s *vc23Store) get(exec *execCtx) (*object.Object, io.ReadCloser, error) { return s.serve(exec) }

type vc23Remote struct{ *vc23Store }

func (r vc23Remote) getObject(exec *execCtx) (*object.Object, io.ReadCloser, error) {
	return r.serve(exec)
}

type vc23Clients map[string]getClient

func (c vc23Clients) get(_ context.Context, info netmap.NodeInfo) (getClient, error) {
	v, ok := c[string(info.PublicKey())]
	if !ok {
		return nil, errors.New("[verif] no such node")
	}
	return v, nil
}

type vc23Net struct {
	lists [][]netmap.NodeInfo
	rep   []uint
	ec    []iec.Rule
	local []byte
}

func (n *vc23Net) GetNodesForObject(oid.Address) ([][]netmap.NodeInfo, []uint, []iec.Rule, error) {
	return n.lists, n.rep, n.ec, nil
}

func (n *vc23Net) IsLocalNodePublicKey(pk []byte) bool {
	return n.local != nil && bytes.Equal(pk, n.local)
}

// vc23Writer records what the service writes to the client.
type vc23Writer struct {
	hdr       *object.Object
	hdrCount  int
	valCount  int
	buf       bytes.Buffer
	validator bool
}

func (w *vc23Writer) WriteHeader(h *object.Object) error {
	w.hdrCount++
	w.hdr = h
	return nil
}

func (w *vc23Writer) WriteChunk(p []byte) error {
	w.buf.Write(p)
	return nil
}

// vc23ValidatingWriter additionally implements HeaderValidator.
type vc23ValidatingWriter struct{ vc23Writer }

func (w *vc23ValidatingWriter) ValidateHeader(h *object.Object) error {
	w.valCount++
	w.hdr = h
	return nil
}

// ---------------------------------------------------------------------------
// layouts

var (
	vc23Signer = gensign.New(0, neofscrypto.ECDSA_DETERMINISTIC_SHA256)
	vc23Cnr    = genobj.Container(0)
)

type vc23Layout struct {
	kind     string // whole | v1 | v2
	payload  []byte
	parent   *object.Object   // header (no payload) of the requested object
	children []*object.Object // physical children in order (nil for whole)
	link     *object.Object   // nil for whole
	bounds   []uint64         // cumulative right bounds of children / EC data parts (incl. those of nested children)
	outer    []uint64         // cumulative right bounds of the direct children only
	nested   map[int]*vc23Layout // direct children that are split objects themselves (not stored physically)
}

// vc23Nested describes how a direct child is split itself.
type vc23Nested struct {
	ver   int
	sizes []int
}

type vc23CapWriter struct{ objs []*object.Object }

type vc23CapStream struct {
	w   *vc23CapWriter
	hdr object.Object
	buf bytes.Buffer
}

func (w *vc23CapWriter) ObjectPutInit(_ context.Context, hdr object.Object, _ user.Signer, _ client.PrmObjectPutInit) (client.ObjectWriter, error) {
	return &vc23CapStream{w: w, hdr: hdr}, nil
}

func (s *vc23CapStream) Write(p []byte) (int, error) { return s.buf.Write(p) }
func (s *vc23CapStream) ReadFrom(r io.Reader) (int64, error) { return s.buf.ReadFrom(r) }
func (s *vc23CapStream) Close() error {
	o := s.hdr
	o.SetPayload(append([]byte(nil), s.buf.Bytes()...))
	s.w.objs = append(s.w.objs, &o)
	return nil
}
func (s *vc23CapStream) GetResult() client.ResObjectPut { return client.ResObjectPut{} }

func vc23RootHeader(nAttr int) object.Object {
	var hdr object.Object
	hdr.SetContainerID(vc23Cnr)
	hdr.SetOwner(vc23Signer.UserID())
	var attrs []object.Attribute
	for i := range nAttr {
		attrs = append(attrs, object.NewAttribute(fmt.Sprintf("k%d", i), fmt.Sprintf("v%d", i)))
	}
	hdr.SetAttributes(attrs...)
	return hdr
}

// vc23Slice slices payload with the SDK slicer (what the node's PUT service and
// clients use): V2 split or a single object.
func vc23Slice(payload []byte, limit uint64, nAttr int) (*vc23Layout, error) {
	var opts slicer.Options
	opts.SetObjectPayloadLimit(limit)
	opts.SetCurrentNeoFSEpoch(10)
	cw := &vc23CapWriter{}
	root, err := slicer.Put(context.Background(), cw, vc23RootHeader(nAttr), vc23Signer, bytes.NewReader(payload), opts)
	if err != nil {
		return nil, err
	}
	l := &vc23Layout{payload: payload}
	if len(cw.objs) == 1 {
		l.kind = "whole"
		l.parent = cw.objs[0].CutPayload()
		l.children = cw.objs
		if l.parent.GetID() != root {
			return nil, errors.New("slicer root id mismatch")
		}
		return l, nil
	}
	l.kind = "v2"
	l.link = cw.objs[len(cw.objs)-1]
	l.children = cw.objs[:len(cw.objs)-1]
	if l.link.Type() != object.TypeLink || l.link.Parent() == nil {
		return nil, errors.New("unexpected slicer output: last object is not a link")
	}
	l.parent = l.link.Parent().CutPayload()
	if l.parent.GetID() != root {
		return nil, errors.New("slicer root id mismatch")
	}
	var acc uint64
	for _, c := range l.children {
		acc += uint64(len(c.Payload()))
		l.bounds = append(l.bounds, acc)
	}
	l.outer = l.bounds
	return l, nil
}

func vc23Finish(o *object.Object) error {
	o.SetPayloadSize(uint64(len(o.Payload())))
	return o.SetVerificationFields(vc23Signer)
}

// vc23Handmade builds a split chain by hand from chunk sizes: V1 (legacy split
// ID layout produced by old nodes/clients) or V2 with arbitrary child sizes
// (client-side slicing).
func vc23Handmade(ver int, payload []byte, sizes []int, nAttr int) (*vc23Layout, error) {
	cur := version.Current()
	par := vc23RootHeader(nAttr)
	par.SetVersion(&cur)
	par.SetCreationEpoch(10)
	par.SetType(object.TypeRegular)
	return vc23HandmadeFrom(ver, par, payload, sizes, nil)
}

func vc23HandmadeNested(ver int, payload []byte, sizes []int, nAttr int, nested map[int]vc23Nested) (*vc23Layout, error) {
	cur := version.Current()
	par := vc23RootHeader(nAttr)
	par.SetVersion(&cur)
	par.SetCreationEpoch(10)
	par.SetType(object.TypeRegular)
	return vc23HandmadeFrom(ver, par, payload, sizes, nested)
}

// vc23GenNested picks 1..2 non-last children (of >= 2 bytes) to be split objects themselves.
func vc23GenNested(t *rapid.T, sizes []int) map[int]vc23Nested {
	var cand []int
	for i := 0; i < len(sizes)-1; i++ {
		if sizes[i] >= 2 {
			cand = append(cand, i)
		}
	}
	if len(cand) == 0 {
		return nil
	}
	res := map[int]vc23Nested{}
	for range rapid.IntRange(1, 2).Draw(t, "nNested") {
		i := cand[rapid.IntRange(0, len(cand)-1).Draw(t, "nestedIdx")]
		parts := rapid.IntRange(2, min(4, sizes[i])).Draw(t, "nestedParts")
		var in []int
		left := sizes[i]
		for k := 0; k < parts-1; k++ {
			sz := rapid.IntRange(1, left-(parts-1-k)).Draw(t, "nestedChunk")
			in = append(in, sz)
			left -= sz
		}
		in = append(in, left)
		res[i] = vc23Nested{ver: rapid.IntRange(1, 2).Draw(t, "nestedVer"), sizes: in}
	}
	return res
}

// vc23HandmadeFrom splits the object with the prepared header par (no payload,
// ID or signature yet). Children listed in nested are split objects themselves
// (what a node produces when a client uploads an oversized child of its own
// split chain through a session): they are not stored, their pieces are.
func vc23HandmadeFrom(ver int, par object.Object, payload []byte, sizes []int, nested map[int]vc23Nested) (*vc23Layout, error) {
	cur := version.Current()
	parNoID := par // first V2 child carries the parent header without ID/signature/sizes
	par.SetPayload(payload)
	if err := vc23Finish(&par); err != nil {
		return nil, err
	}
	parHdr := par.CutPayload()

	l := &vc23Layout{payload: payload, parent: parHdr}
	blank := func() *object.Object {
		var o object.Object
		o.SetVersion(&cur)
		o.SetContainerID(vc23Cnr)
		o.SetOwner(vc23Signer.UserID())
		o.SetCreationEpoch(10)
		o.SetType(object.TypeRegular)
		return &o
	}
	var splitID *object.SplitID
	if ver == 1 {
		l.kind = "v1"
		u := genobjUUID(uint64(len(payload))*31 + uint64(len(sizes)))
		splitID = object.NewSplitIDFromV2(u[:])
	} else {
		l.kind = "v2"
	}

	var off int
	var acc uint64
	var measured []object.MeasuredObject
	var ids []oid.ID
	for i, sz := range sizes {
		c := blank()
		c.SetPayload(append([]byte(nil), payload[off:off+sz]...))
		off += sz
		last := i == len(sizes)-1
		if i > 0 {
			c.SetPreviousID(ids[i-1])
		}
		if ver == 1 {
			c.SetSplitID(splitID)
			if last {
				c.SetParentID(parHdr.GetID())
				c.SetParent(parHdr)
			}
		} else {
			if i == 0 {
				c.SetParent(&parNoID)
			} else {
				c.SetFirstID(ids[0])
			}
			if last {
				c.SetParentID(parHdr.GetID())
				c.SetParent(parHdr)
			}
		}
		if ns, ok := nested[i]; ok {
			chunk := c.Payload()
			c.SetPayload(nil)
			sub, err := vc23HandmadeFrom(ns.ver, *c, chunk, ns.sizes, nil)
			if err != nil {
				return nil, err
			}
			if l.nested == nil {
				l.nested = map[int]*vc23Layout{}
			}
			l.nested[i] = sub
			c = sub.parent
			for _, b := range sub.bounds[:len(sub.bounds)-1] {
				l.bounds = append(l.bounds, acc+b)
			}
		} else if err := vc23Finish(c); err != nil {
			return nil, err
		}
		ids = append(ids, c.GetID())
		var m object.MeasuredObject
		m.SetObjectID(c.GetID())
		m.SetObjectSize(uint32(sz))
		measured = append(measured, m)
		acc += uint64(sz)
		l.bounds = append(l.bounds, acc)
		l.outer = append(l.outer, acc)
		l.children = append(l.children, c)
	}
	if off != len(payload) {
		return nil, errors.New("sizes do not cover payload")
	}

	lnk := blank()
	lnk.SetParentID(parHdr.GetID())
	lnk.SetParent(parHdr)
	if ver == 1 {
		lnk.SetSplitID(splitID)
		lnk.SetChildren(ids...)
	} else {
		lnk.SetFirstID(ids[0])
		var link object.Link
		link.SetObjects(measured)
		lnk.WriteLink(link)
	}
	if err := vc23Finish(lnk); err != nil {
		return nil, err
	}
	l.link = lnk
	return l, nil
}

func genobjUUID(seed uint64) [16]byte {
	var u [16]byte
	copy(u[:], genobj.Fill(seed|1, 16))
	u[6] = (u[6] & 0x0f) | 0x40
	u[8] = (u[8] & 0x3f) | 0x80
	return u
}

// ---------------------------------------------------------------------------
// ranges

type vc23Query struct {
	API         string // get | get-range | getrange
	Mode        common.PayloadRangeMode
	A, B        uint64
	PayloadOnly bool
	Validator   bool
}

func (q vc23Query) String() string {
	return fmt.Sprintf("%s/mode=%d(%d,%d)/po=%t/val=%t", q.API, q.Mode, q.A, q.B, q.PayloadOnly, q.Validator)
}

// vc23Expect is the reference reading of a range request against a payload of
// size bytes: returns the expected slice bounds or oor=true.
func vc23Expect(q vc23Query, size uint64) (off, ln uint64, oor bool) {
	switch q.Mode {
	case common.PayloadRangeModeNone:
		return 0, size, false
	case common.PayloadRangeModeOffsetLength:
		if q.A == 0 && q.B == 0 {
			return 0, size, false // "whole payload"
		}
		if q.A+q.B > size || q.A >= size {
			return 0, 0, true
		}
		return q.A, q.B, false
	case common.PayloadRangeModeBounds:
		if q.A >= size {
			return 0, 0, true
		}
		last := min(q.B, size-1)
		return q.A, last - q.A + 1, false
	case common.PayloadRangeModeFrom:
		if q.A >= size {
			return 0, 0, true
		}
		return q.A, size - q.A, false
	case common.PayloadRangeModeSuffix:
		if q.A == 0 {
			return 0, 0, true
		}
		ln = min(q.A, size)
		return size - ln, ln, false
	}
	panic("unknown mode")
}

// vc23Pos draws a position biased to child/part boundaries of the layout.
func vc23Pos(t *rapid.T, label string, size uint64, bounds []uint64) uint64 {
	switch rapid.IntRange(0, 9).Draw(t, label+"-k") {
	case 0:
		return 0
	case 1:
		return size
	case 2:
		if size > 0 {
			return size - 1
		}
		return 0
	case 3:
		return size + uint64(rapid.IntRange(1, 3).Draw(t, label+"-over"))
	case 4, 5, 6, 7:
		if len(bounds) > 0 {
			b := bounds[rapid.IntRange(0, len(bounds)-1).Draw(t, label+"-b")]
			d := rapid.IntRange(-2, 2).Draw(t, label+"-d")
			if d < 0 && uint64(-d) > b {
				return 0
			}
			return uint64(int64(b) + int64(d))
		}
	}
	return uint64(rapid.IntRange(0, int(size)+1).Draw(t, label+"-u"))
}

func vc23GenQuery(t *rapid.T, size uint64, bounds []uint64) vc23Query {
	var q vc23Query
	switch rapid.IntRange(0, 9).Draw(t, "api") {
	case 0:
		q.API = "get"
		q.Mode = common.PayloadRangeModeNone
		return q
	case 1, 2, 3:
		q.API = "getrange"
		q.Mode = common.PayloadRangeModeOffsetLength
	default:
		q.API = "get-range"
		q.Mode = common.PayloadRangeMode(rapid.IntRange(int(common.PayloadRangeModeOffsetLength), int(common.PayloadRangeModeSuffix)).Draw(t, "mode"))
		q.PayloadOnly = rapid.Bool().Draw(t, "payloadOnly")
		q.Validator = rapid.Bool().Draw(t, "validator")
	}
	switch q.Mode {
	case common.PayloadRangeModeOffsetLength:
		// what the API server lets through: (0,0) or ln>0 without overflow
		if rapid.IntRange(0, 15).Draw(t, "full00") == 0 {
			return q
		}
		q.A = vc23Pos(t, "off", size, bounds)
		end := vc23Pos(t, "end", size, bounds)
		if end <= q.A {
			end = q.A + uint64(rapid.IntRange(1, 3).Draw(t, "ln"))
		}
		q.B = end - q.A
	case common.PayloadRangeModeBounds:
		q.A = vc23Pos(t, "first", size, bounds)
		q.B = vc23Pos(t, "last", size, bounds)
		if q.B < q.A {
			q.A, q.B = q.B, q.A
		}
	case common.PayloadRangeModeFrom:
		q.A = vc23Pos(t, "first", size, bounds)
	case common.PayloadRangeModeSuffix:
		q.A = vc23Pos(t, "suffix", size, bounds)
	}
	return q
}

// crossings counts the boundaries strictly inside (off, off+ln).
func vc23Crossings(off, ln uint64, bounds []uint64) int {
	n := 0
	for _, b := range bounds {
		if b > off && b < off+ln {
			n++
		}
	}
	return n
}

// vc23Run performs the query against svc.
func vc23Run(svc *Service, addr oid.Address, q vc23Query) (*vc23Writer, error) {
	ctx := context.Background()
	var w *vc23Writer
	var ow ObjectWriter
	if q.Validator {
		vw := &vc23ValidatingWriter{}
		w, ow = &vw.vc23Writer, vw
	} else {
		w = &vc23Writer{}
		ow = w
	}
	switch q.API {
	case "getrange":
		var p RangePrm
		p.SetChunkWriter(ow)
		p.SetCommonParameters(newCommonParameters(false, nil))
		p.WithAddress(addr)
		r := object.NewRange()
		r.SetOffset(q.A)
		r.SetLength(q.B)
		p.SetRange(r)
		return w, svc.GetRange(ctx, p)
	default:
		var p Prm
		p.SetObjectWriter(ow)
		p.SetCommonParameters(newCommonParameters(false, nil))
		p.WithAddress(addr)
		switch q.Mode {
		case common.PayloadRangeModeOffsetLength:
			r := object.NewRange()
			r.SetOffset(q.A)
			r.SetLength(q.B)
			p.SetRange(r)
		case common.PayloadRangeModeBounds:
			p.SetRangeBounds(q.A, q.B)
		case common.PayloadRangeModeFrom:
			p.SetRangeFrom(q.A)
		case common.PayloadRangeModeSuffix:
			p.SetRangeSuffix(q.A)
		}
		if q.PayloadOnly {
			p.MarkPayloadOnly()
		}
		return w, svc.Get(ctx, p)
	}
}

// vc23Check applies the oracle; returns a non-empty message on violation.
func vc23Check(q vc23Query, w *vc23Writer, err error, payload []byte, parent *object.Object) string {
	off, ln, oor := vc23Expect(q, uint64(len(payload)))
	if oor {
		if !errors.Is(err, apistatus.ErrObjectOutOfRange) {
			return fmt.Sprintf("unsatisfiable range: want ErrObjectOutOfRange, got err=%v (%d bytes written)", err, w.buf.Len())
		}
		return ""
	}
	if err != nil {
		return fmt.Sprintf("satisfiable request [%d:+%d] of %d failed: %v (%d bytes written)", off, ln, len(payload), err, w.buf.Len())
	}
	want := payload[off : off+ln]
	if got := w.buf.Bytes(); !bytes.Equal(got, want) {
		return fmt.Sprintf("payload mismatch for [%d:+%d] of %d: got %d bytes, want %d; first diff at %d", off, ln, len(payload), len(got), len(want), vc23FirstDiff(got, want))
	}
	wantHdr := q.API != "getrange" && !q.PayloadOnly
	if wantHdr {
		if w.hdrCount != 1 {
			return fmt.Sprintf("header written %d times", w.hdrCount)
		}
		if !bytes.Equal(w.hdr.CutPayload().Marshal(), parent.Marshal()) {
			return fmt.Sprintf("written header differs from the parent header: got id %s size %d, want id %s size %d", w.hdr.GetID(), w.hdr.PayloadSize(), parent.GetID(), parent.PayloadSize())
		}
	} else if w.hdrCount != 0 {
		return fmt.Sprintf("header written %d times in a payload-only request", w.hdrCount)
	}
	if w.hdr != nil && q.PayloadOnly && w.valCount > 0 {
		if w.hdr.GetID() != parent.GetID() {
			return "validated header is not the parent header"
		}
	}
	return ""
}

func vc23FirstDiff(a, b []byte) int {
	for i := 0; i < len(a) && i < len(b); i++ {
		if a[i] != b[i] {
			return i
		}
	}
	return min(len(a), len(b))
}

// ---------------------------------------------------------------------------
// split / whole

func vc23NodeInfo(key int) netmap.NodeInfo {
	var n netmap.NodeInfo
	n.SetPublicKey(gensign.PubBytes(key))
	n.SetNetworkEndpoints("/ip4/127.0.0.1/tcp/8080")
	return n
}

func vc23Sizes(t *rapid.T, total int, limit int) []int {
	// non-uniform chunking of total bytes into 2..N chunks of 1..limit bytes
	var sizes []int
	left := total
	for left > 0 {
		sz := rapid.IntRange(1, limit).Draw(t, "chunk")
		if rapid.IntRange(0, 2).Draw(t, "fullchunk") == 0 {
			sz = limit
		}
		sz = min(sz, left)
		sizes = append(sizes, sz)
		left -= sz
	}
	return sizes
}

func vc23PayloadLen(t *rapid.T, limit int) int {
	switch rapid.IntRange(0, 9).Draw(t, "lenKind") {
	case 0:
		return rapid.IntRange(0, limit).Draw(t, "lenSmall") // whole object
	case 1:
		return rapid.IntRange(0, 64<<10).Draw(t, "lenAny")
	case 2, 3:
		// exact multiples of the limit
		return limit * rapid.IntRange(1, min(8, (64<<10)/limit)).Draw(t, "mult")
	default:
		k := rapid.IntRange(1, min(6, (64<<10)/limit-1)).Draw(t, "k")
		return max(0, limit*k+rapid.IntRange(-2, 2).Draw(t, "d")+rapid.IntRange(0, 1).Draw(t, "half")*(limit/2))
	}
}

func TestVerifC23Split(t *testing.T) {
	rec := ev.New("C23", "split")
	defer rec.Flush()
	rapid.Check(t, func(t *rapid.T) {
		limit := rapid.IntRange(1<<10, 4<<10).Draw(t, "limit")
		if rapid.IntRange(0, 3).Draw(t, "tinyLimit") == 0 {
			limit = rapid.IntRange(1, 64).Draw(t, "limitTiny")
		}
		n := vc23PayloadLen(t, limit)
		if limit < 1<<10 {
			n = min(n, limit*rapid.IntRange(1, 12).Draw(t, "tinyMult")+rapid.IntRange(-1, 1).Draw(t, "tinyD"))
			n = max(n, 0)
		}
		payload := genobj.Fill(rapid.Uint64().Draw(t, "seed"), n)
		nAttr := rapid.IntRange(0, 3).Draw(t, "nAttr")

		var lay *vc23Layout
		var err error
		shape := rapid.IntRange(0, 5).Draw(t, "shape")
		uniform := func() []int {
			var sizes []int
			for left := n; left > 0; left -= min(left, limit) {
				sizes = append(sizes, min(left, limit))
			}
			return sizes
		}
		switch {
		case n <= 1:
			lay, err = vc23Slice(payload, uint64(limit), nAttr)
		case shape <= 1: // V2 uniform or whole: SDK slicer unless its link object would not fit the limit
			if n > limit && (n/limit+2)*48 > limit {
				lay, err = vc23Handmade(2, payload, uniform(), nAttr)
			} else {
				lay, err = vc23Slice(payload, uint64(limit), nAttr)
			}
		case shape == 2: // V2, client-side chunking
			sizes := vc23Sizes(t, n, limit)
			if len(sizes) < 2 {
				sizes = []int{n / 2, n - n/2}
			}
			var nested map[int]vc23Nested
			if rapid.IntRange(0, 2).Draw(t, "withNested") == 0 {
				nested = vc23GenNested(t, sizes)
			}
			lay, err = vc23HandmadeNested(2, payload, sizes, nAttr, nested)
		default: // V1
			var sizes []int
			if rapid.Bool().Draw(t, "v1Uniform") {
				sizes = uniform()
			} else {
				sizes = vc23Sizes(t, n, limit)
			}
			if len(sizes) < 2 {
				sizes = []int{n / 2, n - n/2}
			}
			var nested map[int]vc23Nested
			if rapid.IntRange(0, 2).Draw(t, "withNested") == 0 {
				nested = vc23GenNested(t, sizes)
			}
			lay, err = vc23HandmadeNested(1, payload, sizes, nAttr, nested)
		}
		if err != nil {
			t.Fatalf("build layout: %v", err)
		}

		// placement of the pieces
		local, remote := newVC23Store(), newVC23Store()
		put := func(o *object.Object, where int) {
			if where != 1 {
				local.objs[o.GetID()] = o
			}
			if where != 0 {
				remote.objs[o.GetID()] = o
			}
		}
		allLocal := rapid.IntRange(0, 2).Draw(t, "allLocal") == 0
		where := func(label string) int {
			if allLocal {
				return 0
			}
			return rapid.IntRange(0, 2).Draw(t, label)
		}
		linkMode := "n/a"
		if lay.kind == "whole" {
			put(lay.children[0], where("whereWhole"))
		} else {
			for i, c := range lay.children {
				sub, ok := lay.nested[i]
				if !ok {
					put(c, where(fmt.Sprintf("where%d", i)))
					continue
				}
				// a nested split child: its whole subtree lives on the same node(s), which
				// therefore know its split info and can serve its header (shard.Head)
				w := where(fmt.Sprintf("whereNested%d", i))
				nsi := object.NewSplitInfo()
				if sub.kind == "v1" {
					nsi.SetSplitID(sub.children[0].SplitID())
				} else {
					nsi.SetFirstPart(sub.children[0].GetID())
				}
				for _, g := range sub.children {
					put(g, w)
				}
				switch rapid.SampledFrom([]string{"link+last", "link-only", "last-only"}).Draw(t, "nestedLinkMode") {
				case "link+last":
					nsi.SetLink(sub.link.GetID())
					nsi.SetLastPart(sub.children[len(sub.children)-1].GetID())
					put(sub.link, w)
				case "link-only":
					nsi.SetLink(sub.link.GetID())
					put(sub.link, w)
				default:
					nsi.SetLastPart(sub.children[len(sub.children)-1].GetID())
				}
				if w != 1 {
					local.virt[c.GetID()] = nsi
				}
				if w != 0 {
					remote.virt[c.GetID()] = nsi
				}
			}
			si := object.NewSplitInfo()
			if lay.kind == "v1" {
				si.SetSplitID(lay.children[0].SplitID())
			} else {
				si.SetFirstPart(lay.children[0].GetID())
			}
			last := lay.children[len(lay.children)-1].GetID()
			modes := []string{"link+last", "link-only", "last-only"}
			if lay.kind == "v2" {
				modes = append(modes, "dangling-link")
			}
			linkMode = rapid.SampledFrom(modes).Draw(t, "linkMode")
			switch linkMode {
			case "link+last":
				si.SetLink(lay.link.GetID())
				si.SetLastPart(last)
				put(lay.link, where("whereLink"))
			case "link-only":
				si.SetLink(lay.link.GetID())
				put(lay.link, where("whereLink"))
			case "last-only":
				si.SetLastPart(last)
			case "dangling-link": // link ID known, link object lost: V2 falls back to the chain
				si.SetLink(lay.link.GetID())
				si.SetLastPart(last)
			}
			switch where("whereInfo") {
			case 0:
				local.virt[lay.parent.GetID()] = si
			case 1:
				remote.virt[lay.parent.GetID()] = si
			default:
				local.virt[lay.parent.GetID()] = si
				remote.virt[lay.parent.GetID()] = si
			}
		}

		svc := &Service{cfg: new(cfg)}
		svc.log = zap.NewNop()
		svc.localStorage = local
		svc.localObjects = local
		nodes := []netmap.NodeInfo{vc23NodeInfo(1), vc23NodeInfo(2)}
		svc.neoFSNet = &vc23Net{lists: [][]netmap.NodeInfo{nodes}, rep: []uint{1}, local: gensign.PubBytes(1)}
		svc.clientCache = vc23Clients{string(gensign.PubBytes(2)): vc23Remote{remote}}
		svc.keyStore = &mockKeyStorage{privKey: *gensign.Key(5)}

		addr := oid.NewAddress(vc23Cnr, lay.parent.GetID())
		nq := rapid.IntRange(1, 8).Draw(t, "nq")
		for i := 0; i < nq; i++ {
			q := vc23GenQuery(t, uint64(n), lay.bounds)
			if len(lay.nested) > 0 && q.Mode != common.PayloadRangeModeNone && rapid.Bool().Draw(t, "aimAtNested") {
				vc23AimAtNested(t, lay, &q)
			}
			off, ln, oor := vc23Expect(q, uint64(n))
			cross := 0
			if !oor {
				cross = vc23Crossings(off, ln, lay.bounds)
			}
			labels := []string{"kind:" + lay.kind, "api:" + q.API, fmt.Sprintf("mode:%d", q.Mode), "link:" + linkMode}
			if oor {
				labels = append(labels, "oor")
			}
			if cross > 0 {
				labels = append(labels, "crosses-boundary")
			}
			if cross > 1 {
				labels = append(labels, "crosses-2+")
			}
			if !oor && ln == 0 {
				labels = append(labels, "empty-result")
			}
			if !allLocal {
				labels = append(labels, "mixed-placement")
			}
			if len(lay.children) > 0 && lay.kind != "whole" && len(lay.outer) > 1 && lay.outer[0] != lay.outer[1]-lay.outer[0] {
				labels = append(labels, "nonuniform")
			}
			if len(lay.nested) > 0 {
				labels = append(labels, "nested-virtual-child")
				if !oor && ln > 0 && vc23NestedPartial(lay, off, ln) {
					labels = append(labels, "nested-virtual-child&partial")
				}
			}
			rec.Case(cross > 0, fmt.Sprintf("%s|%v|%v|%s|%s", lay.kind, lay.bounds, vc23NestedIdx(lay), linkMode, q), labels...)
			if rec.WantSample() && cross > 0 {
				rec.Sample(map[string]any{"kind": lay.kind, "bounds": lay.bounds, "link": linkMode, "query": q.String()})
			}

			w, err := vc23Run(svc, addr, q)
			if msg := vc23Check(q, w, err, payload, lay.parent); msg != "" {
				t.Fatalf("C23 violation: %s\nlayout=%s children=%v nested=%s link=%s allLocal=%t\nquery=%s", msg, lay.kind, vc23ChildSizes(lay), vc23NestedDesc(lay), linkMode, allLocal, q)
			}
		}
	})
}

func vc23ChildSizes(l *vc23Layout) []int {
	var r []int
	for _, c := range l.children {
		r = append(r, int(c.PayloadSize()))
	}
	return r
}

// vc23AimAtNested rewrites the positions of q so that the range starts or ends
// strictly inside a nested split child and reaches into a neighbouring child.
func vc23AimAtNested(t *rapid.T, l *vc23Layout, q *vc23Query) {
	idx := vc23NestedIdx(l)
	i := idx[rapid.IntRange(0, len(idx)-1).Draw(t, "aimIdx")]
	var start uint64
	if i > 0 {
		start = l.outer[i-1]
	}
	end := l.outer[i] // nested children are never the last ones
	inside := start + uint64(rapid.IntRange(1, int(end-start)-1).Draw(t, "aimInside"))
	size := l.outer[len(l.outer)-1]
	var from, to uint64 // [from, to)
	if i > 0 && rapid.Bool().Draw(t, "aimTail") {
		from = uint64(rapid.IntRange(0, int(start)-1).Draw(t, "aimFrom"))
		to = inside
	} else {
		from = inside
		to = end + uint64(rapid.IntRange(1, int(size-end)).Draw(t, "aimTo"))
	}
	switch q.Mode {
	case common.PayloadRangeModeOffsetLength:
		q.A, q.B = from, to-from
	case common.PayloadRangeModeBounds:
		q.A, q.B = from, to-1
	case common.PayloadRangeModeFrom:
		q.A = inside
	case common.PayloadRangeModeSuffix:
		q.A = size - inside
	}
}

func vc23NestedIdx(l *vc23Layout) []int {
	var r []int
	for i := range l.children {
		if _, ok := l.nested[i]; ok {
			r = append(r, i)
		}
	}
	return r
}

func vc23NestedDesc(l *vc23Layout) string {
	var b strings.Builder
	for _, i := range vc23NestedIdx(l) {
		fmt.Fprintf(&b, "#%d:%s%v ", i, l.nested[i].kind, vc23ChildSizes(l.nested[i]))
	}
	return b.String()
}

// vc23NestedPartial reports whether [off, off+ln) spans >= 2 direct children and
// its first or last touched child is a nested split object covered only partly.
func vc23NestedPartial(l *vc23Layout, off, ln uint64) bool {
	first, last := -1, -1
	var left uint64
	for i, right := range l.outer {
		if right > off && left < off+ln {
			if first < 0 {
				first = i
			}
			last = i
		}
		left = right
	}
	if first < 0 || first == last {
		return false
	}
	start := func(i int) uint64 {
		if i == 0 {
			return 0
		}
		return l.outer[i-1]
	}
	if _, ok := l.nested[first]; ok && off > start(first) {
		return true
	}
	if _, ok := l.nested[last]; ok && off+ln < l.outer[last] {
		return true
	}
	return false
}

// TestVerifC23Engine repeats the split check with the REAL storage engine as the
// local storage (WithLocalStorageEngine): split info comes from the metabase,
// ranges are cut by FSTree. It confirms that the in-memory fakes of
// TestVerifC23Split behave like the engine (same oracle, fewer cases).
func TestVerifC23Engine(t *testing.T) {
	rec := ev.New("C23", "engine")
	defer rec.Flush()
	// a real engine per case costs ~100 ms: spend 1/25 of the unit's case budget here
	budget := 40
	if f := flag.Lookup("rapid.checks"); f != nil {
		if n, err := strconv.Atoi(f.Value.String()); err == nil {
			budget = max(20, n/25)
		}
	}
	done := 0
	rapid.Check(t, func(t *rapid.T) {
		if done >= budget {
			return
		}
		done++
		limit := rapid.IntRange(1, 64).Draw(t, "limit")
		if rapid.IntRange(0, 2).Draw(t, "bigLimit") == 0 {
			limit = rapid.IntRange(1<<10, 4<<10).Draw(t, "limitBig")
		}
		n := max(0, limit*rapid.IntRange(1, 6).Draw(t, "k")+rapid.IntRange(-2, 2).Draw(t, "d"))
		if rapid.IntRange(0, 7).Draw(t, "small") == 0 {
			n = rapid.IntRange(0, limit).Draw(t, "lenSmall")
		}
		payload := genobj.Fill(rapid.Uint64().Draw(t, "seed"), n)
		var sizes []int
		for left := n; left > 0; left -= min(left, limit) {
			sizes = append(sizes, min(left, limit))
		}
		var lay *vc23Layout
		var err error
		ver := rapid.IntRange(1, 2).Draw(t, "ver")
		switch {
		case len(sizes) < 2:
			lay, err = vc23Slice(payload, uint64(max(limit, n, 1)), 1)
		case ver == 2 && limit >= 1<<10:
			lay, err = vc23Slice(payload, uint64(limit), 1)
		default:
			lay, err = vc23Handmade(ver, payload, sizes, 1)
		}
		if err != nil {
			t.Fatalf("build layout: %v", err)
		}

		dir, err := os.MkdirTemp("", "c23eng")
		if err != nil {
			ev.Inconclusive("mkdir temp: %v", err)
		}
		defer os.RemoveAll(dir)
		eng, err := stor.OpenEngine([]stor.ShardCfg{{Dir: dir}})
		if err != nil {
			ev.Inconclusive("open engine: %v", err)
		}
		defer eng.E.Close()

		linkMode := "n/a"
		for _, c := range lay.children {
			if err := eng.E.Put(context.Background(), c, nil); err != nil {
				t.Fatalf("engine put child: %v", err)
			}
		}
		if lay.link != nil {
			linkMode = rapid.SampledFrom([]string{"link+last", "last-only"}).Draw(t, "linkMode")
			if linkMode == "link+last" {
				if err := eng.E.Put(context.Background(), lay.link, nil); err != nil {
					t.Fatalf("engine put link: %v", err)
				}
			}
		}

		self := vc23NodeInfo(1)
		svc := New(&vc23Net{lists: [][]netmap.NodeInfo{{self}}, rep: []uint{1}, local: self.PublicKey()},
			WithLocalStorageEngine(eng.E), WithLogger(zap.NewNop()))
		svc.clientCache = vc23Clients{}
		svc.keyStore = &mockKeyStorage{privKey: *gensign.Key(5)}

		addr := oid.NewAddress(vc23Cnr, lay.parent.GetID())
		nq := rapid.IntRange(1, 6).Draw(t, "nq")
		for i := 0; i < nq; i++ {
			q := vc23GenQuery(t, uint64(n), lay.bounds)
			off, ln, oor := vc23Expect(q, uint64(n))
			cross := 0
			if !oor {
				cross = vc23Crossings(off, ln, lay.bounds)
			}
			labels := []string{"kind:" + lay.kind, "api:" + q.API, "link:" + linkMode}
			if cross > 0 {
				labels = append(labels, "crosses-boundary")
			}
			rec.Case(cross > 0, fmt.Sprintf("%s|%v|%s|%s", lay.kind, lay.bounds, linkMode, q), labels...)
			w, err := vc23Run(svc, addr, q)
			if msg := vc23Check(q, w, err, payload, lay.parent); msg != "" {
				t.Fatalf("C23 violation (real engine): %s\nlayout=%s children=%v link=%s\nquery=%s", msg, lay.kind, vc23ChildSizes(lay), linkMode, q)
			}
		}
	})
}

// ---------------------------------------------------------------------------
// EC

type vc23ECKey struct {
	parent oid.ID
	pi     iec.PartInfo
}

// vc23EC is the local object storage of one EC container node: it resolves
// (parent, rule, part) to the stored part object like the engine does.
type vc23EC struct {
	unimplementedLocalStorage
	parts map[vc23ECKey]*object.Object
}

func (x *vc23EC) GetECPart(_ context.Context, _ cid.ID, parent oid.ID, pi iec.PartInfo, _ bool) (object.Object, io.ReadCloser, error) {
	o, ok := x.parts[vc23ECKey{parent, pi}]
	if !ok {
		var e apistatus.ObjectNotFound
		return object.Object{}, nil, e
	}
	return *o.CutPayload(), io.NopCloser(bytes.NewReader(o.Payload())), nil
}

func (x *vc23EC) GetECPartRange(_ context.Context, _ cid.ID, parent oid.ID, pi iec.PartInfo, rng common.PayloadRange, readHeader bool) (*object.Object, uint64, io.ReadCloser, error) {
	o, ok := x.parts[vc23ECKey{parent, pi}]
	if !ok {
		var e apistatus.ObjectNotFound
		return nil, 0, nil, e
	}
	pld := o.Payload()
	off, ln, err := rng.Resolve(uint64(len(pld)))
	if err != nil {
		return nil, 0, nil, err
	}
	if ln == 0 && !readHeader { // shard.getECPartRangeFunc
		return nil, 0, nil, nil
	}
	var hdr *object.Object
	if readHeader {
		hdr = o.CutPayload()
	}
	return hdr, uint64(len(pld)), io.NopCloser(bytes.NewReader(pld[off : off+ln])), nil
}

func (x *vc23EC) Head(_ context.Context, _ oid.Address, _ bool) (*object.Object, error) {
	var e apistatus.ObjectNotFound
	return nil, e
}

// vc23Conns routes node-to-node requests to the per-node Services, mimicking
// clientCacheWrapper.InitGetObjectStream + the API server's request checks.
type vc23Conns struct {
	mockKeyStorage
	nodes map[string]*Service
}

func (x *vc23Conns) InitGetObjectStream(ctx context.Context, node netmap.NodeInfo, pk ecdsa.PrivateKey,
	cnr cid.ID, id oid.ID, local, verifyID bool, rng *object.Range, xs []string) (object.Object, io.ReadCloser, error) {
	if !local || verifyID || !pk.Equal(&x.privKey) {
		return object.Object{}, nil, errors.New("[verif] unexpected request parameters")
	}
	v, ok := x.nodes[string(node.PublicKey())]
	if !ok {
		return object.Object{}, nil, errors.New("[verif] connection refused")
	}
	var w mockObjectWriter
	var prm Prm
	prm.WithAddress(oid.NewAddress(cnr, id))
	prm.SetObjectWriter(&w)
	prm.SetCommonParameters(newCommonParameters(local, xs))
	if rng != nil {
		// convertGetPrm of the API server
		if rng.GetLength() == 0 {
			if rng.GetOffset() != 0 {
				return object.Object{}, nil, errors.New("[verif] server: zero range length")
			}
		} else if rng.GetOffset()+rng.GetLength() <= rng.GetOffset() {
			return object.Object{}, nil, errors.New("[verif] server: range overflow")
		}
		prm.SetRange(rng)
		prm.MarkPayloadOnly()
	}
	if err := v.Get(ctx, prm); err != nil {
		return object.Object{}, nil, err
	}
	if rng != nil {
		if w.buf.Len() == 0 { // clientCacheWrapper reads the first byte eagerly
			return object.Object{}, nil, io.EOF
		}
		return object.Object{}, io.NopCloser(&w.buf), nil
	}
	return w.hdr, io.NopCloser(&w.buf), nil
}

func (x *vc23Conns) Head(ctx context.Context, node netmap.NodeInfo, pk ecdsa.PrivateKey, cnr cid.ID, id oid.ID) (object.Object, error) {
	v, ok := x.nodes[string(node.PublicKey())]
	if !ok {
		return object.Object{}, errors.New("[verif] connection refused")
	}
	var w mockObjectWriter
	var prm HeadPrm
	prm.WithAddress(oid.NewAddress(cnr, id))
	prm.SetHeaderWriter(&w)
	prm.SetCommonParameters(newCommonParameters(true, nil))
	if err := v.Head(ctx, prm); err != nil {
		return object.Object{}, err
	}
	return w.hdr, nil
}

var vc23NodeKeys [][]byte

func vc23NodeKey(i int) []byte {
	for len(vc23NodeKeys) <= i {
		// deterministic distinct "public keys" (only compared as bytes here)
		k := append([]byte{2}, genobj.Fill(uint64(1000+len(vc23NodeKeys)), 32)...)
		vc23NodeKeys = append(vc23NodeKeys, k)
	}
	return vc23NodeKeys[i]
}

func TestVerifC23EC(t *testing.T) {
	rec := ev.New("C23", "ec")
	defer rec.Flush()
	rapid.Check(t, func(t *rapid.T) {
		nRules := rapid.IntRange(1, 2).Draw(t, "nRules")
		rules := make([]iec.Rule, nRules)
		for i := range rules {
			rules[i] = iec.Rule{
				DataPartNum:   uint8(rapid.IntRange(1, 6).Draw(t, fmt.Sprintf("d%d", i))),
				ParityPartNum: uint8(rapid.IntRange(1, 3).Draw(t, fmt.Sprintf("p%d", i))),
			}
		}
		// payload size biased to multiples of the data part number +-1
		d0 := int(rules[0].DataPartNum)
		var n int
		switch rapid.IntRange(0, 5).Draw(t, "lenKind") {
		case 0:
			n = rapid.IntRange(0, 3*d0).Draw(t, "lenTiny")
		case 1:
			n = rapid.IntRange(0, 64<<10).Draw(t, "lenAny")
		default:
			n = max(0, d0*rapid.IntRange(1, 700).Draw(t, "partLen")+rapid.IntRange(-d0, d0).Draw(t, "d"))
		}
		payload := genobj.Fill(rapid.Uint64().Draw(t, "seed"), n)

		cur := version.Current()
		par := vc23RootHeader(rapid.IntRange(0, 2).Draw(t, "nAttr"))
		par.SetVersion(&cur)
		par.SetCreationEpoch(10)
		par.SetType(object.TypeRegular)
		par.SetPayload(payload)
		if err := vc23Finish(&par); err != nil {
			t.Fatal(err)
		}
		parHdr := *par.CutPayload()
		parID := parHdr.GetID()

		cbf := rapid.IntRange(1, 2).Draw(t, "cbf")
		lists := make([][]netmap.NodeInfo, nRules)
		conns := &vc23Conns{mockKeyStorage: mockKeyStorage{privKey: *gensign.Key(5)}, nodes: map[string]*Service{}}
		stores := map[string]*vc23EC{}
		nodeIdx := 0
		anyMissing, anyBackup := false, false
		readable := false
		var missDesc []string
		for ri, rule := range rules {
			total := int(rule.DataPartNum + rule.ParityPartNum)
			for j := 0; j < total*cbf; j++ {
				var ni netmap.NodeInfo
				ni.SetPublicKey(vc23NodeKey(nodeIdx))
				nodeIdx++
				lists[ri] = append(lists[ri], ni)
				st := &vc23EC{parts: map[vc23ECKey]*object.Object{}}
				stores[string(ni.PublicKey())] = st
			}
			parts, _, err := iec.Encode(rule, append([]byte(nil), payload...))
			if err != nil {
				t.Fatal(err)
			}
			// how many parts of this rule are lost
			maxLost := int(rule.ParityPartNum)
			if ri > 0 || nRules > 1 {
				// with several rules one of them may be beyond repair
				maxLost = total
			}
			nLost := 0
			if rapid.IntRange(0, 3).Draw(t, fmt.Sprintf("lose%d", ri)) != 0 {
				nLost = rapid.IntRange(0, maxLost).Draw(t, fmt.Sprintf("nLost%d", ri))
			}
			if ri == nRules-1 && !readable && nLost > int(rule.ParityPartNum) {
				nLost = int(rule.ParityPartNum)
			}
			lost := map[int]bool{}
			for len(lost) < nLost {
				lost[rapid.IntRange(0, total-1).Draw(t, fmt.Sprintf("lost%d", ri))] = true
			}
			if nLost <= int(rule.ParityPartNum) {
				readable = true
			}
			for pi := range parts {
				if lost[pi] {
					anyMissing = true
					missDesc = append(missDesc, fmt.Sprintf("%d/%d", ri, pi))
					continue
				}
				po, err := iec.FormObjectForECPart(vc23Signer, parHdr, parts[pi], iec.PartInfo{RuleIndex: ri, Index: pi})
				if err != nil {
					t.Fatal(err)
				}
				holder := pi
				if cbf == 2 && rapid.IntRange(0, 3).Draw(t, fmt.Sprintf("backup%d_%d", ri, pi)) == 0 {
					holder = pi + total
					anyBackup = true
				}
				stores[string(lists[ri][holder].PublicKey())].parts[vc23ECKey{parID, iec.PartInfo{RuleIndex: ri, Index: pi}}] = &po
			}
		}
		for ri := range lists {
			for _, ni := range lists[ri] {
				ns := New(&vc23Net{lists: lists, ec: rules, local: ni.PublicKey()})
				ns.localObjects = stores[string(ni.PublicKey())]
				ns.keyStore = conns
				ns.conns = conns
				conns.nodes[string(ni.PublicKey())] = ns
			}
		}

		// the service under test: an outsider or one of the container nodes
		net := &vc23Net{lists: lists, ec: rules}
		svc := New(net)
		svc.log = zap.NewNop()
		svc.keyStore = conns
		svc.conns = conns
		svc.localObjects = &vc23EC{parts: map[vc23ECKey]*object.Object{}}
		role := "outsider"
		if rapid.Bool().Draw(t, "inContainer") {
			role = "container-node"
			ri := rapid.IntRange(0, nRules-1).Draw(t, "selfRule")
			ni := lists[ri][rapid.IntRange(0, len(lists[ri])-1).Draw(t, "selfNode")]
			net.local = ni.PublicKey()
			svc.localObjects = stores[string(ni.PublicKey())]
		}

		// boundaries of the data parts of rule 0
		var bounds []uint64
		if n > 0 {
			partLen := (uint64(n) + uint64(d0) - 1) / uint64(d0)
			for b := partLen; b < uint64(n); b += partLen {
				bounds = append(bounds, b)
			}
		}

		addr := oid.NewAddress(vc23Cnr, parID)
		nq := rapid.IntRange(1, 6).Draw(t, "nq")
		for i := 0; i < nq; i++ {
			q := vc23GenQuery(t, uint64(n), bounds)
			off, ln, oor := vc23Expect(q, uint64(n))
			cross := 0
			if !oor {
				cross = vc23Crossings(off, ln, bounds)
			}
			labels := []string{"api:" + q.API, fmt.Sprintf("mode:%d", q.Mode), "role:" + role, fmt.Sprintf("rules:%d", nRules)}
			if anyMissing {
				labels = append(labels, "part-missing")
			}
			if anyBackup {
				labels = append(labels, "part-on-backup-node")
			}
			if cross > 0 {
				labels = append(labels, "crosses-part-boundary")
			}
			if oor {
				labels = append(labels, "oor")
			}
			if n%d0 != 0 {
				labels = append(labels, "padded-last-part")
			}
			rec.Case(cross > 0 || anyMissing, fmt.Sprintf("%v|%d|cbf%d|miss%v|%s|%s", rules, n, cbf, missDesc, role, q), labels...)
			if rec.WantSample() && anyMissing && cross > 0 {
				rec.Sample(map[string]any{"rules": fmt.Sprint(rules), "len": n, "missing": missDesc, "role": role, "query": q.String()})
			}

			w, err := vc23Run(svc, addr, q)
			if msg := vc23Check(q, w, err, payload, &parHdr); msg != "" {
				t.Fatalf("C23 violation (EC): %s\nrules=%v len=%d cbf=%d missing(rule/part)=%v role=%s\nquery=%s", msg, rules, n, cbf, missDesc, role, q)
			}
		}
	})
}

var _ = strings.Contains

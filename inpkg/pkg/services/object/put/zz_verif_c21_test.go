//go:build verif

package putsvc

// C21 (in-package part): distributedTarget.modifyECParentObject encodes one
// payload under several EC rules from a pooled buffer. Whatever buffer the
// package pool hands out (larger, equal, smaller than the payload; dirty from
// previous uses), every rule's encoding must be self-consistent (equal part
// lengths, hashes match), decode back to the payload from any sufficient
// subset, stay intact after the following rules were encoded, and the
// __NEOFS__EC_PART_HASHES attribute must be the comma-joined hashes of all
// rules in order.

import (
	"bytes"
	"crypto/sha256"
	"encoding/hex"
	"fmt"
	"strings"
	"testing"

	iec "github.com/nspcc-dev/neofs-node/internal/ec"
	"github.com/nspcc-dev/neofs-node/verifharness/ev"
	"github.com/nspcc-dev/neofs-sdk-go/object"
	"pgregory.net/rapid"
)

const verifC21MaxPayload = 4096

func verifC21Fill(b []byte, seed uint64) {
	if seed%16 == 0 {
		for i := range b {
			b[i] = byte(seed >> 8)
		}
		return
	}
	x := seed
	for i := range b {
		if i%8 == 0 {
			x += 0x9e3779b97f4a7c15
			z := x
			z = (z ^ (z >> 30)) * 0xbf58476d1ce4e5b9
			z = (z ^ (z >> 27)) * 0x94d049bb133111eb
			seed = z ^ (z >> 31)
		}
		b[i] = byte(seed >> (8 * (i % 8)))
	}
}

func verifC21Hash(b []byte) string {
	h := sha256.Sum256(b)
	return hex.EncodeToString(h[:])
}

func verifC21Rule() *rapid.Generator[iec.Rule] {
	return rapid.Custom(func(t *rapid.T) iec.Rule {
		p := rapid.IntRange(0, 4).Draw(t, "p")
		if p == 0 && rapid.Bool().Draw(t, "preferParity") {
			p = 1
		}
		return iec.Rule{DataPartNum: uint8(rapid.IntRange(1, 8).Draw(t, "d")), ParityPartNum: uint8(p)}
	})
}

// one PUT of the history
type verifC21Put struct {
	rules   []iec.Rule
	n       int
	seed    uint64
	primes  []int // capacities of dirty buffers put into the pool right before the PUT (other pool users)
	hasAttr bool  // the header already carries a (stale) part hashes attribute
}

func (p verifC21Put) String() string {
	return fmt.Sprintf("{rules=%v len=%d primes=%v attr=%v}", p.rules, p.n, p.primes, p.hasAttr)
}

func verifC21PutGen() *rapid.Generator[verifC21Put] {
	return rapid.Custom(func(t *rapid.T) verifC21Put {
		var p verifC21Put
		p.rules = rapid.SliceOfN(verifC21Rule(), 1, 3).Draw(t, "rules")
		if len(p.rules) == 1 && rapid.IntRange(0, 2).Draw(t, "forceMulti") > 0 {
			p.rules = append(p.rules, verifC21Rule().Draw(t, "rule2"))
		}
		d := int(p.rules[rapid.IntRange(0, len(p.rules)-1).Draw(t, "lenByRule")].DataPartNum)
		switch rapid.IntRange(0, 5).Draw(t, "lenKind") {
		case 0:
			p.n = rapid.IntRange(0, 2*d+1).Draw(t, "tiny")
		case 1, 2:
			p.n = d*rapid.IntRange(0, verifC21MaxPayload/d).Draw(t, "mult") + rapid.IntRange(-1, 1).Draw(t, "pm")
		case 3:
			p.n = rapid.SampledFrom([]int{0, 1, defaultAllocSize - 1, defaultAllocSize, defaultAllocSize + 1, 4095, 4096}).Draw(t, "edge")
		default:
			p.n = rapid.IntRange(0, verifC21MaxPayload).Draw(t, "any")
		}
		p.n = min(max(p.n, 0), verifC21MaxPayload)
		p.seed = rapid.Uint64().Draw(t, "seed")
		p.hasAttr = rapid.IntRange(0, 4).Draw(t, "hasAttr") == 0
		for range rapid.IntRange(0, 2).Draw(t, "nPrimes") {
			var c int
			switch rapid.IntRange(0, 4).Draw(t, "primeKind") {
			case 0:
				c = p.n + rapid.IntRange(-2, 2).Draw(t, "nearLen")
			case 1: // enough room for all parts of some rule (what the EC library would like to use)
				r := p.rules[rapid.IntRange(0, len(p.rules)-1).Draw(t, "primeRule")]
				per := (p.n + int(r.DataPartNum) - 1) / int(r.DataPartNum)
				c = per*(int(r.DataPartNum)+int(r.ParityPartNum)) + rapid.IntRange(-1, 1).Draw(t, "pm")
			case 2:
				c = rapid.SampledFrom([]int{0, 1, defaultAllocSize, 2 * defaultAllocSize, 16384}).Draw(t, "fixed")
			default:
				c = rapid.IntRange(0, 3*verifC21MaxPayload).Draw(t, "cap")
			}
			p.primes = append(p.primes, max(c, 0))
		}
		return p
	})
}

func TestVerifC21MultiRuleFromPool(t *testing.T) {
	rec := ev.New("C21", "putsvc-multirule-pool")
	defer rec.Flush()

	// Observation only: remember every buffer that enters the pool (created by the pool's New,
	// put by "other users" below, or released by a previous PUT) with its capacity, so that the
	// buffer modifyECParentObject received can be classified exactly.
	registry := map[*byte]int{}
	reg := func(b []byte) {
		if cap(b) > 0 {
			registry[&b[:1][0]] = cap(b)
		}
	}
	newCalls := 0
	origNew := putBytesPool.New
	defer func() { putBytesPool.New = origNew }()
	putBytesPool.New = func() any {
		newCalls++
		b := origNew().([]byte)
		reg(b)
		return b
	}
	drain := func() { // empty the pool: it is empty exactly when Get had to call New
		for range 100000 {
			c := newCalls
			_ = getPayload()
			if newCalls > c {
				return
			}
		}
	}

	rapid.Check(t, func(t *rapid.T) {
		puts := rapid.SliceOfN(verifC21PutGen(), 1, 3).Draw(t, "puts")
		nontrivial := false
		var labels []string
		defer func() {
			rec.Case(nontrivial, fmt.Sprint(puts), labels...)
		}()
		if rec.WantSample() {
			rec.Sample(fmt.Sprint(puts))
		}
		drain()
		clear(registry)
		for pi, p := range puts {
			payload := make([]byte, p.n)
			verifC21Fill(payload, p.seed)

			// other users of the pool leave dirty buffers of various capacities
			for _, c := range p.primes {
				b := make([]byte, c)
				for i := range b {
					b[i] = 0xA5
				}
				reg(b)
				putPayload(b)
			}

			var hdr object.Object
			hdr.SetPayloadSize(uint64(p.n))
			other := object.NewAttribute("verif", "x")
			if p.hasAttr {
				hdr.SetAttributes(other, object.NewAttribute(iec.AttributePartsHashes, "stale"))
			} else {
				hdr.SetAttributes(other)
			}

			tgt := &distributedTarget{ecRules: p.rules}
			if err := tgt.modifyECParentObject(&hdr, bytes.NewReader(payload)); err != nil {
				t.Fatalf("put #%d %s: modifyECParentObject: %v", pi, p, err)
			}

			// which buffer did modifyECParentObject work in? (measured, not assumed)
			bufClass := "buf:none(empty-payload)"
			if p.n > 0 {
				if c, ok := registry[&tgt.objectPayload[:1][0]]; ok {
					switch {
					case c > p.n && c == defaultAllocSize:
						bufClass = "buf:pooled-larger(default-1024)"
					case c > p.n:
						bufClass = "buf:pooled-larger"
					case c == p.n:
						bufClass = "buf:pooled-exact"
					default: // bookkeeping of this harness is off; not a property violation
						bufClass = "buf:unknown(registry-mismatch)"
					}
				} else {
					bufClass = "buf:fresh(pooled-one-too-small)"
				}
				if cap(tgt.objectPayload) != p.n {
					labels = append(labels, "payload-buffer-with-spare-capacity")
				}
			}
			withParity := 0
			for _, r := range p.rules {
				if r.ParityPartNum > 0 {
					withParity++
				}
			}
			labels = append(labels, bufClass, fmt.Sprintf("rules=%d", len(p.rules)))
			if strings.HasPrefix(bufClass, "buf:pooled-larger") && len(p.rules) >= 2 && withParity >= 1 {
				// the capacity condition of the documented hazard is met
				nontrivial = true
				labels = append(labels, "hazard-condition:larger-pooled-buffer+multi-rule")
			}
			if pi > 0 {
				labels = append(labels, "after-previous-put")
			}

			if !tgt.payloadAlreadyRead {
				t.Fatalf("put #%d %s: payloadAlreadyRead not set", pi, p)
			}
			if !bytes.Equal(tgt.objectPayload, payload) {
				t.Fatalf("put #%d %s: buffered payload differs from the source", pi, p)
			}
			if len(tgt.encodedECParts) != len(p.rules) {
				t.Fatalf("put #%d %s: %d encodings for %d rules", pi, p, len(tgt.encodedECParts), len(p.rules))
			}
			var allHashes []string
			for ri, r := range p.rules {
				parts := tgt.encodedECParts[ri]
				d, total := int(r.DataPartNum), int(r.DataPartNum)+int(r.ParityPartNum)
				if len(parts) != total {
					t.Fatalf("put #%d %s: rule #%d has %d parts, want %d", pi, p, ri, len(parts), total)
				}
				per := (p.n + d - 1) / d
				for i := range parts {
					if len(parts[i]) != per {
						t.Fatalf("put #%d %s: rule #%d part #%d has %d bytes, want %d", pi, p, ri, i, len(parts[i]), per)
					}
					allHashes = append(allHashes, verifC21Hash(parts[i]))
				}
				if p.n == 0 {
					continue
				}
				// every rule still decodes after all rules were encoded; erase up to parity parts
				in := make([][]byte, total)
				copy(in, parts)
				nErased := rapid.IntRange(0, int(r.ParityPartNum)).Draw(t, "nErased")
				perm := rapid.Permutation(verifC21Seq(total)).Draw(t, "erasedPerm")
				for _, i := range perm[:nErased] {
					in[i] = nil
				}
				var got []byte
				var err error
				if nErased == 0 {
					got = iec.ConcatDataParts(r, uint64(p.n), in)
				} else {
					got, err = iec.Decode(r, uint64(p.n), in)
				}
				if err != nil {
					t.Fatalf("put #%d %s: rule #%d erased %v: Decode: %v", pi, p, ri, perm[:nErased], err)
				}
				if !bytes.Equal(got, payload) {
					t.Fatalf("put #%d %s: rule #%d erased %v: decoded payload differs from the original (encoding corrupted)", pi, p, ri, perm[:nErased])
				}
			}
			// the attribute announces exactly the hashes of the parts as they are now
			want := strings.Join(allHashes, ",")
			var got []string
			for _, a := range hdr.Attributes() {
				if a.Key() == iec.AttributePartsHashes {
					got = append(got, a.Value())
				}
			}
			if len(got) != 1 {
				t.Fatalf("put #%d %s: %d %s attributes", pi, p, len(got), iec.AttributePartsHashes)
			}
			if got[0] != want {
				gh := strings.Split(got[0], ",")
				for i := range allHashes {
					if i >= len(gh) || gh[i] != allHashes[i] {
						t.Fatalf("put #%d %s: announced hash #%d (of %d, over all rules in order) does not match the part: announced %q, part hashes to %s",
							pi, p, i, len(allHashes), verifC21At(gh, i), allHashes[i])
					}
				}
				t.Fatalf("put #%d %s: attribute announces %d hashes, there are %d parts", pi, p, len(gh), len(allHashes))
			}
			foundOther := false
			for _, a := range hdr.Attributes() {
				if a.Key() == "verif" && a.Value() == "x" {
					foundOther = true
				}
			}
			if !foundOther {
				t.Fatalf("put #%d %s: unrelated attribute lost", pi, p)
			}

			// release like distributedTarget.Close does: "encoded EC parts share memory, so only a
			// single slice can be reused"
			if len(tgt.encodedECParts) > 0 && len(tgt.encodedECParts[0]) > 0 {
				reg(tgt.encodedECParts[0][0])
				putPayload(tgt.encodedECParts[0][0])
			}
			tgt.encodedECParts = nil
		}
	})
}

func verifC21At(s []string, i int) string {
	if i < len(s) {
		return s[i]
	}
	return "<missing>"
}

func verifC21Seq(n int) []int {
	s := make([]int, n)
	for i := range s {
		s[i] = i
	}
	return s
}

//go:build verif

package putsvc

// C25: a PUT reports full success only if, for every replication rule, the
// required number of distinct nodes of that rule's list acknowledged storage;
// under an initial placement policy the per-rule / total limits are honoured
// instead; every applied EC rule has all parts stored on distinct nodes of its
// list. Otherwise an error / explicitly incomplete result is reported. No node
// outside all lists is contacted.
//
// Reach: a full in-process cluster built by the package's newPlacementTestEnv
// (one real Service per node, real Streamer → validatingTarget →
// slicingTarget → distributedTarget → placementIterator / applyECRule), whose
// container node lists are then replaced by generated lists with shared nodes.
// Every node's storage is wrapped: scripted failure, fake-time delay (the case
// runs in a synctest bubble, so delays order the concurrent acknowledgements
// deterministically) and a record of every Put.
//
// Oracle: see vc25Demand.

import (
	"context"
	"errors"
	"fmt"
	"sort"
	"strings"
	"sync"
	"testing"
	"time"

	iec "github.com/nspcc-dev/neofs-node/internal/ec"
	"github.com/nspcc-dev/neofs-node/verifharness/bubble"
	"github.com/nspcc-dev/neofs-node/verifharness/ev"
	"github.com/nspcc-dev/neofs-node/verifharness/genobj"
	"github.com/nspcc-dev/neofs-node/verifharness/gensign"
	apistatus "github.com/nspcc-dev/neofs-sdk-go/client/status"
	"github.com/nspcc-dev/neofs-sdk-go/container"
	neofscrypto "github.com/nspcc-dev/neofs-sdk-go/crypto"
	"github.com/nspcc-dev/neofs-sdk-go/netmap"
	"github.com/nspcc-dev/neofs-sdk-go/object"
	oid "github.com/nspcc-dev/neofs-sdk-go/object/id"
	sessionv2 "github.com/nspcc-dev/neofs-sdk-go/session/v2"
	"github.com/nspcc-dev/neofs-sdk-go/user"
	"go.uber.org/zap"
	"pgregory.net/rapid"
)

type vc25Put struct {
	id     oid.ID
	parent oid.ID // for EC parts
	ri, pi int    // EC part info, -1 otherwise
	ok     bool
}

// vc25Store wraps a node's storage.
type vc25Store struct {
	inner *inMemLocalStorage
	fail  bool
	delay time.Duration

	mu   sync.Mutex
	puts []vc25Put
}

func (x *vc25Store) Put(ctx context.Context, obj *object.Object, bin []byte) error {
	if x.delay > 0 {
		time.Sleep(x.delay) // fake time inside the bubble
	}
	p := vc25Put{id: obj.GetID(), ri: -1, pi: -1}
	if ri, pi, isPart := vc24ECInfo(obj); isPart {
		p.ri, p.pi = ri, pi
		if par := obj.Parent(); par != nil {
			p.parent = par.GetID()
		}
	}
	var err error
	if x.fail {
		err = errors.New("[verif] node refuses to store")
	} else {
		err = x.inner.Put(ctx, obj, bin)
	}
	p.ok = err == nil
	x.mu.Lock()
	x.puts = append(x.puts, p)
	x.mu.Unlock()
	return err
}

func (x *vc25Store) IsLocked(ctx context.Context, a oid.Address) (bool, error) {
	return x.inner.IsLocked(ctx, a)
}

type vc25Case struct {
	rep      []uint
	ec       []iec.Rule
	lists    [][]int // indexes into the pool; first len(rep) lists are REP
	pool     int
	through  int // pool index of the node serving the PUT
	signed   bool
	limits   []uint32
	maxRepl  uint32
	prefLoc  bool
	initial  bool
	failing  map[int]bool
	delays   map[int]int
	describe string
}

func vc25Gen(t *rapid.T) *vc25Case {
	c := &vc25Case{failing: map[int]bool{}, delays: map[int]int{}}
	nRep := rapid.IntRange(0, 3).Draw(t, "nRep")
	nEC := rapid.IntRange(0, 2).Draw(t, "nEC")
	if rapid.IntRange(0, 2).Draw(t, "repOnly") == 0 {
		nEC = 0
	}
	if nRep+nEC == 0 {
		nRep = 1
	}
	c.signed = nRep > 0 && rapid.Bool().Draw(t, "clientSigned")
	for i := 0; i < nRep; i++ {
		c.rep = append(c.rep, uint(rapid.IntRange(1, 4).Draw(t, fmt.Sprintf("rep%d", i))))
	}
	for j := 0; j < nEC; j++ {
		c.ec = append(c.ec, iec.Rule{DataPartNum: uint8(rapid.IntRange(1, 3).Draw(t, fmt.Sprintf("d%d", j))), ParityPartNum: uint8(rapid.IntRange(1, 2).Draw(t, fmt.Sprintf("p%d", j)))})
	}
	// a small pool makes the lists overlap
	need := 0
	for _, r := range c.rep {
		need = max(need, int(r))
	}
	for _, r := range c.ec {
		need = max(need, int(r.DataPartNum+r.ParityPartNum))
	}
	c.pool = need + rapid.IntRange(0, 4).Draw(t, "poolExtra")
	envSize := 0 // newPlacementTestEnv creates 3 nodes per required replica / EC part
	for _, r := range c.rep {
		envSize += 3 * int(r)
	}
	for _, r := range c.ec {
		envSize += 3 * int(r.DataPartNum+r.ParityPartNum)
	}
	c.pool = min(c.pool, envSize)
	perm := func(label string, n int) []int {
		// a random n-subset of the pool in random order
		idx := make([]int, c.pool)
		for i := range idx {
			idx[i] = i
		}
		for i := 0; i < n; i++ {
			j := i + rapid.IntRange(0, c.pool-1-i).Draw(t, label)
			idx[i], idx[j] = idx[j], idx[i]
		}
		return idx[:n]
	}
	for i, r := range c.rep {
		n := min(c.pool, int(r)+rapid.IntRange(0, 3).Draw(t, fmt.Sprintf("repExtra%d", i)))
		n = min(n, 6)
		n = max(n, int(r))
		c.lists = append(c.lists, perm(fmt.Sprintf("repList%d", i), n))
	}
	for j, r := range c.ec {
		total := int(r.DataPartNum + r.ParityPartNum)
		n := min(c.pool, total+rapid.IntRange(0, total).Draw(t, fmt.Sprintf("ecExtra%d", j)))
		c.lists = append(c.lists, perm(fmt.Sprintf("ecList%d", j), n))
	}
	// the node serving the request: usually a container node, sometimes an outsider
	inLists := map[int]bool{}
	for _, l := range c.lists {
		for _, n := range l {
			inLists[n] = true
		}
	}
	c.through = rapid.IntRange(0, c.pool-1).Draw(t, "through")

	// initial placement policy
	nRules := nRep + nEC
	switch rapid.IntRange(0, 3).Draw(t, "initialKind") {
	case 1: // limits only
		c.limits = make([]uint32, nRules)
		differs, sum := false, uint32(0)
		for i := range c.limits {
			if i < nRep {
				c.limits[i] = uint32(rapid.IntRange(0, int(c.rep[i])).Draw(t, fmt.Sprintf("limit%d", i)))
				differs = differs || c.limits[i] < uint32(c.rep[i])
			} else {
				c.limits[i] = uint32(rapid.IntRange(0, 1).Draw(t, fmt.Sprintf("limit%d", i)))
				differs = differs || c.limits[i] == 0
			}
			sum += c.limits[i]
		}
		if sum == 0 || !differs {
			c.limits = nil // not a valid initial policy: fall back to the main one
		} else {
			c.initial = true
		}
	case 2, 3: // MaxReplicas (with or without limits)
		var sum uint32
		if rapid.Bool().Draw(t, "withLimits") {
			c.limits = make([]uint32, nRules)
			for i := range c.limits {
				if i < nRep {
					c.limits[i] = uint32(rapid.IntRange(0, int(c.rep[i])).Draw(t, fmt.Sprintf("limit%d", i)))
				} else {
					c.limits[i] = uint32(rapid.IntRange(0, 1).Draw(t, fmt.Sprintf("limit%d", i)))
				}
				sum += c.limits[i]
			}
			if sum == 0 {
				c.limits = nil
			}
		}
		if c.limits == nil {
			sum = 0
			for _, r := range c.rep {
				sum += uint32(r)
			}
			sum += uint32(nEC)
		}
		c.maxRepl = uint32(rapid.IntRange(1, int(sum)).Draw(t, "maxReplicas"))
		c.prefLoc = rapid.Bool().Draw(t, "preferLocal")
		c.initial = true
	}

	// node behaviour
	failMode := rapid.IntRange(0, 3).Draw(t, "failMode")
	for n := 0; n < c.pool; n++ {
		switch failMode {
		case 0: // all healthy
		case 1, 2:
			c.failing[n] = rapid.IntRange(0, 3).Draw(t, fmt.Sprintf("fail%d", n)) == 0
		default:
			c.failing[n] = rapid.Bool().Draw(t, fmt.Sprintf("fail%d", n))
		}
		c.delays[n] = rapid.IntRange(0, 3).Draw(t, fmt.Sprintf("delay%d", n))
	}
	c.describe = fmt.Sprintf("rep=%v ec=%v lists=%v through=%d signed=%t limits=%v max=%d preferLocal=%t failing=%v", c.rep, c.ec, c.lists, c.through, c.signed, c.limits, c.maxRepl, c.prefLoc, vc25Keys(c.failing))
	return c
}

func vc25Keys(m map[int]bool) []int {
	var r []int
	for k, v := range m {
		if v {
			r = append(r, k)
		}
	}
	sort.Ints(r)
	return r
}

func (c *vc25Case) container() container.Container {
	var pp netmap.PlacementPolicy
	if len(c.ec) > 0 {
		rules := make([]netmap.ECRule, len(c.ec))
		for i := range c.ec {
			rules[i] = netmap.NewECRule(uint32(c.ec[i].DataPartNum), uint32(c.ec[i].ParityPartNum))
		}
		pp.SetECRules(rules)
	}
	if c.initial {
		var ip netmap.InitialPlacementPolicy
		if c.limits != nil {
			ip.SetReplicaLimits(c.limits)
		}
		ip.SetMaxReplicas(c.maxRepl)
		ip.SetPreferLocal(c.prefLoc && c.maxRepl > 0)
		pp.SetInitial(ip)
	}
	var cnr container.Container
	cnr.SetPlacementPolicy(pp)
	return cnr
}

// vc25Demand evaluates what a fully successful PUT of root promises.
// acks[n] lists the successful Puts on pool node n.
func vc25Demand(c *vc25Case, root oid.ID, acks map[int][]vc25Put) error {
	nRep := len(c.rep)
	stored := func(n int) bool {
		for _, p := range acks[n] {
			if p.id == root && p.ri < 0 {
				return true
			}
		}
		return false
	}
	req := make([]uint, nRep)
	for i := range c.rep {
		req[i] = c.rep[i]
		if c.limits != nil {
			req[i] = uint(c.limits[i])
		}
	}
	got := make([]uint, nRep)
	for i := 0; i < nRep; i++ {
		for _, n := range c.lists[i] {
			if stored(n) {
				got[i]++
			}
		}
	}
	// EC rules are applied by the node only when it forms the object itself (session)
	ecReq := make([]bool, len(c.ec))
	ecDone := make([]error, len(c.ec))
	for j := range c.ec {
		ecReq[j] = !c.signed
		if c.limits != nil && c.limits[nRep+j] == 0 {
			ecReq[j] = false
		}
		total := int(c.ec[j].DataPartNum + c.ec[j].ParityPartNum)
		holders := make([]int, total)
		for _, n := range c.lists[nRep+j] {
			cnt := 0
			for _, p := range acks[n] {
				if p.parent == root && p.ri == j && p.pi >= 0 && p.pi < total {
					holders[p.pi]++
					cnt++
				}
			}
			if cnt > 1 {
				ecDone[j] = fmt.Errorf("node %d of EC list #%d holds %d parts", n, j, cnt)
			}
		}
		for q, h := range holders {
			if h == 0 && ecDone[j] == nil {
				ecDone[j] = fmt.Errorf("part %d of EC rule #%d is not acknowledged by any node of its list", q, j)
			}
		}
	}
	if c.maxRepl == 0 {
		for i := range req {
			if got[i] < req[i] {
				return fmt.Errorf("REP rule #%d: %d of %d required nodes of its list %v acknowledged", i, got[i], req[i], c.lists[i])
			}
		}
		for j := range c.ec {
			if ecReq[j] && ecDone[j] != nil {
				return ecDone[j]
			}
		}
		return nil
	}
	var have, limit uint
	for i := range req {
		have += min(got[i], req[i])
		limit += req[i]
	}
	for j := range c.ec {
		if ecReq[j] {
			limit++
			if ecDone[j] == nil {
				have++
			}
		}
	}
	if want := min(uint(c.maxRepl), limit); have < want {
		return fmt.Errorf("MaxReplicas=%d (sum of limits %d): only %d replicas/EC partitions acknowledged (per REP rule %v of %v)", c.maxRepl, limit, have, got, req)
	}
	return nil
}

func TestVerifC25Placement(t *testing.T) {
	rec := ev.New("C25", "placement")
	defer rec.Flush()
	bubble.Check(t, func(rt *rapid.T) {
		c := vc25Gen(rt)
		cnr := c.container()
		env := newPlacementTestEnv(t, cnr, c.rep, c.ec, false, true)
		cl := env.cluster
		// the pool: first c.pool nodes of the environment
		var all []netmap.NodeInfo
		for _, l := range env.nodeLists {
			all = append(all, l...)
		}
		if len(all) < c.pool {
			rt.Fatalf("harness: pool of %d nodes needed, environment has %d", c.pool, len(all))
		}
		lists := make([][]netmap.NodeInfo, len(c.lists))
		for i, l := range c.lists {
			for _, n := range l {
				lists[i] = append(lists[i], all[n])
			}
		}
		cn := mockContainerNodes{unsorted: lists, sorted: lists, repCounts: c.rep, ecRules: c.ec}
		stores := make([]*vc25Store, len(cl.nodeServices))
		for i := range cl.nodeServices {
			cl.nodeNetworks[i].cnrNodes = cn
			cl.nodeServices[i].log = zap.NewNop()
			stores[i] = &vc25Store{inner: &cl.nodeLocalStorages[i]}
			if i < c.pool {
				stores[i].fail = c.failing[i]
				stores[i].delay = time.Duration(c.delays[i]) * time.Millisecond
			}
			cl.nodeServices[i].localStore = stores[i]
		}

		owner := gensign.New(0, neofscrypto.ECDSA_DETERMINISTIC_SHA256)
		payload := genobj.Fill(rapid.Uint64().Draw(rt, "seed"), rapid.IntRange(0, 64).Draw(rt, "len"))
		var rootID oid.ID
		var err error
		if c.signed {
			o := vc24Blank(owner.UserID())
			o.SetAttributes(object.NewAttribute("k", "v"))
			o.SetPayload(payload)
			o.SetPayloadSize(uint64(len(payload)))
			o.CalculateAndSetPayloadChecksum()
			vc24Sign(rt, &o, owner)
			rootID, err = vc24Stream(cl.nodeServices[c.through], o.CutPayload(), [][]byte{payload}, nil, nil)
		} else {
			var hdr object.Object
			hdr.SetContainerID(vc24Cnr)
			hdr.SetOwner(owner.UserID())
			hdr.SetAttributes(object.NewAttribute("k", "v"))
			st2 := vc24TokenV2(t, rt, owner, user.NewFromECDSAPublicKey(cl.nodeSessions[c.through].signer.ECDSAPrivateKey.PublicKey))
			rootID, err = vc24Stream(cl.nodeServices[c.through], &hdr, [][]byte{payload}, nil, st2)
		}
		if errors.Is(err, errVC24Panic) {
			rt.Fatalf("C25: %v\n%s", err, c.describe)
		}

		acks := map[int][]vc25Put{}
		contactedOutside := -1
		inLists := map[int]bool{}
		shared := false
		seen := map[int]int{}
		for _, l := range c.lists {
			for _, n := range l {
				inLists[n] = true
				seen[n]++
				shared = shared || seen[n] > 1
			}
		}
		anyFail := false
		for i, s := range stores {
			s.mu.Lock()
			for _, p := range s.puts {
				if p.ok {
					acks[i] = append(acks[i], p)
				} else {
					anyFail = true
				}
			}
			if len(s.puts) > 0 && !inLists[i] {
				contactedOutside = i
			}
			s.mu.Unlock()
		}

		outcome := "ok"
		switch {
		case errors.Is(err, apistatus.ErrIncomplete):
			outcome = "incomplete"
		case err != nil:
			outcome = "error"
		}
		kind := "session"
		if c.signed {
			kind = "signed"
		}
		role := "container-node"
		if !inLists[c.through] {
			role = "outsider"
		}
		pol := "main"
		switch {
		case c.maxRepl > 0 && c.prefLoc:
			pol = "maxreplicas+preferlocal"
		case c.maxRepl > 0:
			pol = "maxreplicas"
		case c.initial:
			pol = "limits"
		}
		labels := []string{"outcome:" + outcome, "kind:" + kind, "role:" + role, "policy:" + pol,
			fmt.Sprintf("rep:%d", len(c.rep)), fmt.Sprintf("ec:%d", len(c.ec))}
		if shared {
			labels = append(labels, "shared-nodes")
		}
		if anyFail {
			labels = append(labels, "node-failure")
		}
		if anyFail && shared && outcome == "ok" {
			labels = append(labels, "ok-despite-failures-with-shared-nodes")
		}
		rec.Case(anyFail && shared, strings.ReplaceAll(c.describe, " ", ""), labels...)
		if rec.WantSample() && anyFail && shared && outcome == "ok" {
			rec.Sample(map[string]any{"case": c.describe, "outcome": outcome})
		}

		if contactedOutside >= 0 {
			rt.Fatalf("C25 violation: node %d outside all lists was asked to store an object\n%s", contactedOutside, c.describe)
		}
		if err != nil {
			return // an error / incomplete result promises nothing
		}
		if e := vc25Demand(c, rootID, acks); e != nil {
			rt.Fatalf("C25 violation: PUT reported full success but %v\n%s\nacks=%s", e, c.describe, vc25Acks(acks))
		}
	})
}

func vc25Acks(a map[int][]vc25Put) string {
	var ks []int
	for k := range a {
		ks = append(ks, k)
	}
	sort.Ints(ks)
	var b strings.Builder
	for _, k := range ks {
		fmt.Fprintf(&b, " n%d:", k)
		for _, p := range a[k] {
			if p.ri >= 0 {
				fmt.Fprintf(&b, "[ec %d/%d]", p.ri, p.pi)
			} else {
				b.WriteString("[obj]")
			}
		}
	}
	return b.String()
}

var _ = sessionv2.VerbObjectPut

//go:build verif

package putsvc

// C24: a node never stores an object – from a client (Streamer), from another
// node (ValidateAndStoreObjectLocally = Replicate) or from its own slicer –
// unless ID matches header, payload matches declared length and checksum,
// format/attributes are valid and (non-EC) the signature authenticates the
// owner or session. Node-sliced uploads reassemble to the streamed bytes.
//
// Reach: the package's own testCluster (real Service + FormatValidator on every
// node, in-memory node storages that record what was stored).
//
// Generate: a valid object (owner-signed / V1-session / V2-session signed,
// optionally a split child carrying a parent header, or an EC part), then 0..1
// mutation; payload streamed in a random chunking.
//
// Oracle: mutated ⇒ error and nothing stored on any node. Not mutated ⇒ accepted
// and every stored object passes an independent validity predicate
// (vc24CheckStored) and equals the original; for node-sliced uploads the stored
// pieces reassemble (link order / EC decode) to exactly the streamed bytes.

import (
	"bytes"
	"context"
	"crypto/elliptic"
	"crypto/sha256"
	"encoding/hex"
	"errors"
	"fmt"
	"runtime/debug"
	"strconv"
	"strings"
	"sync"
	"testing"

	"github.com/nspcc-dev/neo-go/pkg/crypto/keys"
	iec "github.com/nspcc-dev/neofs-node/internal/ec"
	"github.com/nspcc-dev/neofs-node/pkg/services/object/common"
	objutil "github.com/nspcc-dev/neofs-node/pkg/services/object/util"
	"github.com/nspcc-dev/neofs-node/verifharness/ev"
	"github.com/nspcc-dev/neofs-node/verifharness/genobj"
	"github.com/nspcc-dev/neofs-node/verifharness/gensign"
	"github.com/nspcc-dev/neofs-sdk-go/checksum"
	"github.com/nspcc-dev/neofs-sdk-go/container"
	neofscrypto "github.com/nspcc-dev/neofs-sdk-go/crypto"
	"github.com/nspcc-dev/neofs-sdk-go/netmap"
	"github.com/nspcc-dev/neofs-sdk-go/object"
	oid "github.com/nspcc-dev/neofs-sdk-go/object/id"
	"github.com/nspcc-dev/neofs-sdk-go/session"
	sessionv2 "github.com/nspcc-dev/neofs-sdk-go/session/v2"
	"github.com/nspcc-dev/neofs-sdk-go/user"
	"github.com/nspcc-dev/neofs-sdk-go/version"
	"go.uber.org/zap"
	"pgregory.net/rapid"
)

// ---------------------------------------------------------------------------
// clusters

type vc24Cluster struct {
	name     string
	c        *testCluster
	rules    []iec.Rule
	cnrNodes int
	faulty   []*vc24FaultyStore
}

// vc24FaultyStore wraps a node's in-memory storage and fails scripted Put calls
// (the k-th Put of this node within the current case).
type vc24FaultyStore struct {
	inner  *inMemLocalStorage
	mu     sync.Mutex
	n      int
	failAt map[int]bool
}

func (x *vc24FaultyStore) Put(ctx context.Context, obj *object.Object, bin []byte) error {
	x.mu.Lock()
	x.n++
	fail := x.failAt[x.n]
	x.mu.Unlock()
	if fail {
		return errors.New("[verif] injected storage failure")
	}
	return x.inner.Put(ctx, obj, bin)
}

func (x *vc24FaultyStore) IsLocked(ctx context.Context, a oid.Address) (bool, error) {
	return x.inner.IsLocked(ctx, a)
}

func (x *vc24Cluster) resetFaults() {
	for _, f := range x.faulty {
		f.mu.Lock()
		f.n, f.failAt = 0, nil
		f.mu.Unlock()
	}
}

func vc24ECContainer(rules []iec.Rule) container.Container {
	var cnr container.Container
	var policy netmap.PlacementPolicy
	ecRules := make([]netmap.ECRule, len(rules))
	for i := range rules {
		ecRules[i].SetDataPartNum(uint32(rules[i].DataPartNum))
		ecRules[i].SetParityPartNum(uint32(rules[i].ParityPartNum))
	}
	policy.SetECRules(ecRules)
	cnr.SetPlacementPolicy(policy)
	return cnr
}

func vc24NewCluster(t *testing.T, name string, rules []iec.Rule) *vc24Cluster {
	const reserve, out = 1, 1
	var c *testCluster
	var primary int
	if len(rules) == 0 {
		primary = 2
		c = newTestClusterForRepPolicy(t, uint(primary), reserve, out)
	} else {
		for _, r := range rules {
			primary = max(primary, int(r.DataPartNum+r.ParityPartNum))
		}
		c = newTestClusterForRepPolicyWithContainer(t, uint(primary), reserve, out, vc24ECContainer(rules))
		// "REP cluster to EC cluster magic" of Test_Slicing_EC
		for i := range c.nodeNetworks {
			c.nodeNetworks[i].cnrNodes.repCounts = nil
			for range len(rules) - 1 {
				c.nodeNetworks[i].cnrNodes.unsorted = append(c.nodeNetworks[i].cnrNodes.unsorted, c.nodeNetworks[i].cnrNodes.unsorted[0])
				c.nodeNetworks[i].cnrNodes.sorted = append(c.nodeNetworks[i].cnrNodes.sorted, c.nodeNetworks[i].cnrNodes.sorted[0])
			}
			c.nodeNetworks[i].cnrNodes.ecRules = rules
		}
	}
	res := &vc24Cluster{name: name, c: c, rules: rules, cnrNodes: primary + reserve}
	for i := range c.nodeServices {
		c.nodeServices[i].log = zap.NewNop()
		f := &vc24FaultyStore{inner: &c.nodeLocalStorages[i]}
		c.nodeServices[i].localStore = f
		res.faulty = append(res.faulty, f)
	}
	return res
}

func (x *vc24Cluster) stored() []object.Object {
	var res []object.Object
	for _, l := range x.c.allStoredObjects() {
		res = append(res, l...)
	}
	return res
}

// ---------------------------------------------------------------------------
// valid objects

var vc24Cnr = genobj.Container(1)

type vc24Subject struct {
	obj     object.Object // complete valid object incl. payload
	signer  gensign.Signer
	owner   gensign.Signer
	auth    string // owner | v1 | v2
	shape   string // plain | child | ecpart
	payload []byte
}

func vc24Attrs(t *rapid.T) []object.Attribute {
	n := rapid.IntRange(0, 3).Draw(t, "nAttr")
	var as []object.Attribute
	for i := 0; i < n; i++ {
		as = append(as, object.NewAttribute("key"+strconv.Itoa(i), rapid.SampledFrom([]string{"v", "value with spaces", "юникод", "0"}).Draw(t, "attrVal")))
	}
	if rapid.IntRange(0, 4).Draw(t, "withExp") == 0 {
		as = append(as, object.NewAttribute(object.AttributeExpirationEpoch, strconv.Itoa(currentEpoch+rapid.IntRange(0, 5).Draw(t, "expD"))))
	}
	return as
}

func vc24Blank(owner user.ID) object.Object {
	cur := version.Current()
	var o object.Object
	o.SetVersion(&cur)
	o.SetContainerID(vc24Cnr)
	o.SetOwner(owner)
	o.SetCreationEpoch(currentEpoch)
	o.SetType(object.TypeRegular)
	return o
}

func vc24TokenV1(t *rapid.T, owner gensign.Signer, authKey neofscrypto.PublicKey) *session.Object {
	var tok session.Object
	tok.SetID(genobjUUID24(rapid.Uint64().Draw(t, "tokID")))
	tok.SetExp(currentEpoch + 10)
	tok.SetNbf(1)
	tok.SetIat(1)
	tok.BindContainer(vc24Cnr)
	tok.ForVerb(session.VerbObjectPut)
	tok.SetAuthKey(authKey)
	if err := tok.Sign(owner); err != nil {
		t.Fatal(err)
	}
	return &tok
}

func genobjUUID24(seed uint64) [16]byte {
	var u [16]byte
	copy(u[:], genobj.Fill(seed|1, 16))
	u[6] = (u[6] & 0x0f) | 0x40
	u[8] = (u[8] & 0x3f) | 0x80
	return u
}

func vc24TokenV2(tt *testing.T, t *rapid.T, owner gensign.Signer, subject user.ID) *sessionv2.Token {
	tok := newSessionTokenV2(tt, vc24Cnr, owner, nil, []sessionv2.Verb{sessionv2.VerbObjectPut})
	if err := tok.SetSubjects([]sessionv2.Target{sessionv2.NewTargetUser(subject)}); err != nil {
		t.Fatal(err)
	}
	if err := tok.Sign(owner); err != nil {
		t.Fatal(err)
	}
	return tok
}

// vc24Sign (re)computes ID and signature of o for its current header.
func vc24Sign(t *rapid.T, o *object.Object, signer neofscrypto.Signer) {
	if err := o.SetIDWithSignature(signer); err != nil {
		t.Fatal(err)
	}
}

// vc24Uniform draws an index in [0,n) without rapid's bias to small values.
func vc24Uniform(t *rapid.T, label string, n int) int {
	x := uint64(rapid.IntRange(0, 1<<20).Draw(t, label))
	return int((x * 0x9e3779b97f4a7c15 >> 33) % uint64(n))
}

func vc24Subject_(tt *testing.T, t *rapid.T, maxLen int, allowChild bool, wantAuth, wantShape string) *vc24Subject {
	s := &vc24Subject{}
	s.owner = gensign.New(0, rapid.SampledFrom(gensign.Schemes).Draw(t, "ownerScheme"))
	s.signer = s.owner
	n := rapid.IntRange(0, maxLen).Draw(t, "len")
	if rapid.IntRange(0, 5).Draw(t, "edgeLen") == 0 {
		n = rapid.SampledFrom([]int{0, 1, maxLen - 1, maxLen}).Draw(t, "lenEdge")
	}
	s.payload = genobj.Fill(rapid.Uint64().Draw(t, "seed"), n)
	o := vc24Blank(s.owner.UserID())
	o.SetAttributes(vc24Attrs(t)...)
	s.auth = rapid.SampledFrom([]string{"owner", "owner", "v1", "v2"}).Draw(t, "auth")
	if wantAuth != "" {
		s.auth = wantAuth
	}
	switch s.auth {
	case "v1":
		s.signer = gensign.New(1, rapid.SampledFrom(gensign.Schemes).Draw(t, "sessScheme"))
		o.SetSessionToken(vc24TokenV1(t, s.owner, s.signer.Public()))
	case "v2":
		s.signer = gensign.New(1, rapid.SampledFrom(gensign.Schemes).Draw(t, "sessScheme"))
		o.SetSessionTokenV2(vc24TokenV2(tt, t, s.owner, s.signer.UserID()))
	}
	s.shape = "plain"
	if allowChild && wantShape != "plain" && (wantShape == "child" || rapid.IntRange(0, 3).Draw(t, "child") == 0) {
		// last child of a V2 split chain carrying the complete parent header
		s.shape = "child"
		par := vc24Blank(s.owner.UserID())
		par.SetAttributes(object.NewAttribute("parent-attr", "x"))
		par.SetPayloadSize(uint64(n) + 100)
		par.SetPayloadChecksum(checksum.NewSHA256(sha256.Sum256(genobj.Fill(7, 32))))
		vc24Sign(t, &par, s.owner)
		o.SetAttributes()
		o.SetFirstID(genobj.PoolID(1))
		o.SetPreviousID(genobj.PoolID(2))
		o.SetParentID(par.GetID())
		o.SetParent(&par)
	}
	o.SetPayload(s.payload)
	o.SetPayloadSize(uint64(n))
	o.CalculateAndSetPayloadChecksum()
	vc24Sign(t, &o, s.signer)
	s.obj = o
	return s
}

// ---------------------------------------------------------------------------
// mutations (each makes the object invalid by the property's criteria)

type vc24Mutation struct {
	name string
	// apply mutates the object to be sent and/or the streamed payload.
	apply func(t *rapid.T, s *vc24Subject, o *object.Object, stream *[]byte)
	// only lists the subjects the mutation applies to ("" = any)
	auth  string
	shape string
}

func vc24FlipID(o *object.Object, t *rapid.T) {
	id := o.GetID()
	id[rapid.IntRange(0, len(id)-1).Draw(t, "idByte")] ^= 1 << rapid.IntRange(0, 7).Draw(t, "idBit")
	o.SetID(id)
}

func vc24FlipSig(sig *neofscrypto.Signature, t *rapid.T) neofscrypto.Signature {
	v := bytes.Clone(sig.Value())
	v[rapid.IntRange(0, len(v)-1).Draw(t, "sigByte")] ^= 1 << rapid.IntRange(0, 7).Draw(t, "sigBit")
	return neofscrypto.NewSignatureFromRawKey(sig.Scheme(), sig.PublicKeyBytes(), v)
}

func vc24Mutations() []vc24Mutation {
	return []vc24Mutation{
		{name: "id-flip", apply: func(t *rapid.T, s *vc24Subject, o *object.Object, _ *[]byte) {
			vc24FlipID(o, t)
		}},
		{name: "id-flip-resigned", apply: func(t *rapid.T, s *vc24Subject, o *object.Object, _ *[]byte) {
			vc24FlipID(o, t)
			if err := o.Sign(s.signer); err != nil {
				t.Fatal(err)
			}
		}},
		{name: "checksum-flip-refinalized", apply: func(t *rapid.T, s *vc24Subject, o *object.Object, _ *[]byte) {
			cs, _ := o.PayloadChecksum()
			v := bytes.Clone(cs.Value())
			v[rapid.IntRange(0, len(v)-1).Draw(t, "csByte")] ^= 1
			o.SetPayloadChecksum(checksum.New(checksum.SHA256, v))
			vc24Sign(t, o, s.signer)
		}},
		{name: "declared-size-refinalized", apply: func(t *rapid.T, s *vc24Subject, o *object.Object, _ *[]byte) {
			d := rapid.IntRange(1, 3).Draw(t, "sizeD")
			sz := o.PayloadSize()
			if rapid.Bool().Draw(t, "smaller") && sz >= uint64(d) {
				o.SetPayloadSize(sz - uint64(d))
			} else {
				o.SetPayloadSize(sz + uint64(d))
			}
			vc24Sign(t, o, s.signer)
		}},
		{name: "stream-longer", apply: func(t *rapid.T, s *vc24Subject, o *object.Object, stream *[]byte) {
			*stream = append(bytes.Clone(*stream), genobj.Fill(3, rapid.IntRange(1, 3).Draw(t, "extra"))...)
		}},
		{name: "stream-shorter", apply: func(t *rapid.T, s *vc24Subject, o *object.Object, stream *[]byte) {
			if len(*stream) == 0 {
				*stream = []byte{1}
				return
			}
			*stream = (*stream)[:len(*stream)-rapid.IntRange(1, min(3, len(*stream))).Draw(t, "cut")]
		}},
		{name: "stream-byte-changed", apply: func(t *rapid.T, s *vc24Subject, o *object.Object, stream *[]byte) {
			if len(*stream) == 0 {
				*stream = []byte{1}
				return
			}
			c := bytes.Clone(*stream)
			c[rapid.IntRange(0, len(c)-1).Draw(t, "pos")] ^= 0x80
			*stream = c
		}},
		{name: "header-changed-not-refinalized", apply: func(t *rapid.T, s *vc24Subject, o *object.Object, _ *[]byte) {
			switch rapid.IntRange(0, 2).Draw(t, "field") {
			case 0:
				o.SetCreationEpoch(o.CreationEpoch() + 1)
			case 1:
				o.SetAttributes(append(o.Attributes(), object.NewAttribute("injected", "1"))...)
			default:
				o.SetOwner(gensign.UserID(3))
			}
		}},
		{name: "signature-flip", apply: func(t *rapid.T, s *vc24Subject, o *object.Object, _ *[]byte) {
			sig := vc24FlipSig(o.Signature(), t)
			o.SetSignature(&sig)
		}},
		{name: "foreign-signer", apply: func(t *rapid.T, s *vc24Subject, o *object.Object, _ *[]byte) {
			// correct ID, signed by a key that is neither the owner nor the session key
			if err := o.Sign(gensign.New(2, s.signer.Scheme())); err != nil {
				t.Fatal(err)
			}
		}},
		{name: "reowned-signed-by-old-owner", apply: func(t *rapid.T, s *vc24Subject, o *object.Object, _ *[]byte) {
			// another user's object re-owned: owner replaced, ID recomputed, signed by the old key
			o.SetOwner(gensign.UserID(3))
			vc24Sign(t, o, s.signer)
		}, auth: "owner"},
		{name: "token-signature-flip", auth: "v1", apply: func(t *rapid.T, s *vc24Subject, o *object.Object, _ *[]byte) {
			tok := *o.SessionToken()
			sig, _ := tok.Signature()
			tok.AttachSignature(vc24FlipSig(&sig, t))
			o.SetSessionToken(&tok)
			vc24Sign(t, o, s.signer)
		}},
		{name: "token-changed-after-signing", auth: "v1", apply: func(t *rapid.T, s *vc24Subject, o *object.Object, _ *[]byte) {
			tok := *o.SessionToken()
			tok.SetExp(tok.Exp() + 1000)
			o.SetSessionToken(&tok)
			vc24Sign(t, o, s.signer)
		}},
		{name: "token-foreign-issuer", auth: "v1", apply: func(t *rapid.T, s *vc24Subject, o *object.Object, _ *[]byte) {
			// well-formed token issued by somebody else than the object owner
			o.SetSessionToken(vc24TokenV1(t, gensign.New(3, neofscrypto.ECDSA_DETERMINISTIC_SHA256), s.signer.Public()))
			vc24Sign(t, o, s.signer)
		}},
		{name: "token-for-another-key", auth: "v1", apply: func(t *rapid.T, s *vc24Subject, o *object.Object, _ *[]byte) {
			o.SetSessionToken(vc24TokenV1(t, s.owner, gensign.New(4, neofscrypto.ECDSA_DETERMINISTIC_SHA256).Public()))
			vc24Sign(t, o, s.signer)
		}},
		{name: "tokenv2-signature-flip", auth: "v2", apply: func(t *rapid.T, s *vc24Subject, o *object.Object, _ *[]byte) {
			var tok sessionv2.Token
			o.SessionTokenV2().CopyTo(&tok)
			sig, _ := tok.Signature()
			tok.AttachSignature(vc24FlipSig(&sig, t))
			o.SetSessionTokenV2(&tok)
			vc24Sign(t, o, s.signer)
		}},
		{name: "tokenv2-for-another-subject", auth: "v2", apply: func(t *rapid.T, s *vc24Subject, o *object.Object, _ *[]byte) {
			var tok sessionv2.Token
			o.SessionTokenV2().CopyTo(&tok)
			if err := tok.SetSubjects([]sessionv2.Target{sessionv2.NewTargetUser(gensign.UserID(4))}); err != nil {
				t.Fatal(err)
			}
			if err := tok.Sign(s.owner); err != nil {
				t.Fatal(err)
			}
			o.SetSessionTokenV2(&tok)
			vc24Sign(t, o, s.signer)
		}},
		{name: "both-tokens", auth: "v2", apply: func(t *rapid.T, s *vc24Subject, o *object.Object, _ *[]byte) {
			o.SetSessionToken(vc24TokenV1(t, s.owner, s.signer.Public()))
			vc24Sign(t, o, s.signer)
		}},
		{name: "attr-zero-byte", apply: func(t *rapid.T, s *vc24Subject, o *object.Object, _ *[]byte) {
			k, v := "zk", "zv"
			if rapid.Bool().Draw(t, "inKey") {
				k = "z\x00k"
			} else {
				v = rapid.SampledFrom([]string{"\x00", "a\x00", "\x00b", "a\x00b"}).Draw(t, "zval")
			}
			as := o.Attributes()
			pos := rapid.IntRange(0, len(as)).Draw(t, "attrPos")
			as = append(as[:pos:pos], append([]object.Attribute{object.NewAttribute(k, v)}, as[pos:]...)...)
			o.SetAttributes(as...)
			vc24Sign(t, o, s.signer)
		}},
		{name: "attr-duplicate-key", apply: func(t *rapid.T, s *vc24Subject, o *object.Object, _ *[]byte) {
			as := append(o.Attributes(), object.NewAttribute("dup", "1"))
			as = append(as, object.NewAttribute("dup", rapid.SampledFrom([]string{"1", "2"}).Draw(t, "dupVal")))
			o.SetAttributes(as...)
			vc24Sign(t, o, s.signer)
		}},
		{name: "attr-empty-value", apply: func(t *rapid.T, s *vc24Subject, o *object.Object, _ *[]byte) {
			o.SetAttributes(append(o.Attributes(), object.NewAttribute("empty", ""))...)
			vc24Sign(t, o, s.signer)
		}},
		{name: "ec-attrs-in-plain-object", shape: "plain", apply: func(t *rapid.T, s *vc24Subject, o *object.Object, _ *[]byte) {
			// a signed regular object that claims to be an EC part (with or without other attributes)
			as := []object.Attribute{object.NewAttribute(iec.AttributeRuleIdx, "0"), object.NewAttribute(iec.AttributePartIdx, "0")}
			if rapid.Bool().Draw(t, "keepAttrs") {
				as = append(o.Attributes(), as...)
			}
			o.SetAttributes(as...)
			vc24Sign(t, o, s.signer)
		}},
		{name: "parent-id-flip", shape: "child", apply: func(t *rapid.T, s *vc24Subject, o *object.Object, _ *[]byte) {
			par := *o.Parent()
			vc24FlipID(&par, t)
			if rapid.Bool().Draw(t, "parResign") {
				_ = par.Sign(s.owner)
			}
			o.SetParentID(par.GetID())
			o.SetParent(&par)
			vc24Sign(t, o, s.signer)
		}},
		{name: "parent-signature-flip", shape: "child", apply: func(t *rapid.T, s *vc24Subject, o *object.Object, _ *[]byte) {
			par := *o.Parent()
			sig := vc24FlipSig(par.Signature(), t)
			par.SetSignature(&sig)
			o.SetParent(&par)
			vc24Sign(t, o, s.signer)
		}},
		{name: "parent-foreign-signer", shape: "child", apply: func(t *rapid.T, s *vc24Subject, o *object.Object, _ *[]byte) {
			par := *o.Parent()
			_ = par.Sign(gensign.New(2, neofscrypto.ECDSA_DETERMINISTIC_SHA256))
			o.SetParent(&par)
			vc24Sign(t, o, s.signer)
		}},
		{name: "parent-bad-attribute", shape: "child", apply: func(t *rapid.T, s *vc24Subject, o *object.Object, _ *[]byte) {
			par := *o.Parent()
			par.SetAttributes(object.NewAttribute("a", "1"), object.NewAttribute("a", "2"))
			vc24Sign(t, &par, s.owner)
			o.SetParentID(par.GetID())
			o.SetParent(&par)
			vc24Sign(t, o, s.signer)
		}},
		{name: "parent-header-changed", shape: "child", apply: func(t *rapid.T, s *vc24Subject, o *object.Object, _ *[]byte) {
			par := *o.Parent()
			par.SetPayloadSize(par.PayloadSize() + 1) // ID and signature left as they were
			o.SetParent(&par)
			vc24Sign(t, o, s.signer)
		}},
	}
}

// ---------------------------------------------------------------------------
// independent validity predicate for stored objects

func vc24SignerUser(sig *neofscrypto.Signature) (user.ID, error) {
	pub, err := keys.NewPublicKeyFromBytes(sig.PublicKeyBytes(), elliptic.P256())
	if err != nil {
		return user.ID{}, fmt.Errorf("signer key: %w", err)
	}
	return user.NewFromScriptHash(pub.GetScriptHash()), nil
}

func vc24CheckAttrs(o *object.Object) error {
	seen := map[string]bool{}
	for _, a := range o.Attributes() {
		if seen[a.Key()] {
			return fmt.Errorf("duplicate attribute %q", a.Key())
		}
		seen[a.Key()] = true
		if a.Value() == "" || a.Key() == "" {
			return fmt.Errorf("empty attribute %q", a.Key())
		}
		if strings.ContainsRune(a.Key(), 0) || strings.ContainsRune(a.Value(), 0) {
			return fmt.Errorf("zero byte in attribute %q", a.Key())
		}
	}
	return nil
}

// vc24CheckHeaderAuth checks ID == hash(header) and that the signature
// authenticates the owner or the session.
func vc24CheckHeaderAuth(o *object.Object) error {
	id, err := o.CalculateID()
	if err != nil {
		return err
	}
	if id != o.GetID() {
		return errors.New("ID does not match the header")
	}
	sig := o.Signature()
	if sig == nil {
		return errors.New("no signature")
	}
	if !o.VerifySignature() {
		return errors.New("signature does not verify")
	}
	su, err := vc24SignerUser(sig)
	if err != nil {
		return err
	}
	switch {
	case o.SessionToken() != nil && o.SessionTokenV2() != nil:
		return errors.New("both session tokens")
	case o.SessionToken() != nil:
		tok := o.SessionToken()
		if !tok.VerifySignature() {
			return errors.New("V1 token signature does not verify")
		}
		if tok.Issuer() != o.Owner() {
			return errors.New("V1 token issuer is not the owner")
		}
		if !tok.AssertAuthKey(sig.PublicKey()) {
			return errors.New("V1 token is for another key")
		}
	case o.SessionTokenV2() != nil:
		tok := o.SessionTokenV2()
		if !tok.VerifySignature() {
			return errors.New("V2 token signature does not verify")
		}
		if tok.OriginalIssuer() != o.Owner() {
			return errors.New("V2 token issuer is not the owner")
		}
		ok := false
		for _, sb := range tok.Subjects() {
			ok = ok || sb.UserID() == su
		}
		if !ok {
			return errors.New("V2 token is for another subject")
		}
	default:
		if su != o.Owner() {
			return errors.New("signer is not the owner")
		}
	}
	return nil
}

func vc24ECInfo(o *object.Object) (ri, pi int, isPart bool) {
	ri, pi = -1, -1
	for _, a := range o.Attributes() {
		switch a.Key() {
		case iec.AttributeRuleIdx:
			ri, _ = strconv.Atoi(a.Value())
			isPart = true
		case iec.AttributePartIdx:
			pi, _ = strconv.Atoi(a.Value())
			isPart = true
		}
	}
	return
}

func vc24CheckStored(o *object.Object, rules []iec.Rule) error {
	if uint64(len(o.Payload())) != o.PayloadSize() {
		return fmt.Errorf("payload len %d != declared %d", len(o.Payload()), o.PayloadSize())
	}
	cs, ok := o.PayloadChecksum()
	if !ok {
		return errors.New("no checksum")
	}
	if h := sha256.Sum256(o.Payload()); cs.Type() != checksum.SHA256 || !bytes.Equal(h[:], cs.Value()) {
		return errors.New("payload checksum mismatch")
	}
	if err := vc24CheckAttrs(o); err != nil {
		return err
	}
	if o.Owner().IsZero() || o.GetContainerID().IsZero() {
		return errors.New("no owner/container")
	}
	ri, pi, isPart := vc24ECInfo(o)
	if !isPart {
		if err := vc24CheckHeaderAuth(o); err != nil {
			return err
		}
		if par := o.Parent(); par != nil && !par.GetID().IsZero() {
			if err := vc24CheckAttrs(par); err != nil {
				return fmt.Errorf("parent: %w", err)
			}
			if err := vc24CheckHeaderAuth(par); err != nil {
				return fmt.Errorf("parent: %w", err)
			}
			if o.GetParentID() != par.GetID() {
				return errors.New("parent ID field differs from the parent header")
			}
		}
		return nil
	}
	// EC part
	if len(rules) == 0 {
		return errors.New("EC part in a container without EC rules")
	}
	id, err := o.CalculateID()
	if err != nil || id != o.GetID() {
		return errors.New("EC part ID does not match the header")
	}
	if o.Signature() != nil {
		return errors.New("signed EC part")
	}
	if ri < 0 || ri >= len(rules) || pi < 0 || pi >= int(rules[ri].DataPartNum+rules[ri].ParityPartNum) {
		return fmt.Errorf("EC indexes %d/%d out of policy", ri, pi)
	}
	par := o.Parent()
	if par == nil {
		return errors.New("EC part without parent header")
	}
	if err := vc24CheckAttrs(par); err != nil {
		return fmt.Errorf("EC parent: %w", err)
	}
	if err := vc24CheckHeaderAuth(par); err != nil {
		return fmt.Errorf("EC parent: %w", err)
	}
	d := uint64(rules[ri].DataPartNum)
	if want := (par.PayloadSize() + d - 1) / d; want != o.PayloadSize() {
		return fmt.Errorf("EC part len %d, want %d", o.PayloadSize(), want)
	}
	var hashes string
	for _, a := range par.Attributes() {
		if a.Key() == iec.AttributePartsHashes {
			hashes = a.Value()
		}
	}
	all := strings.Split(hashes, ",")
	idx := pi
	for i := 0; i < ri; i++ {
		idx += int(rules[i].DataPartNum + rules[i].ParityPartNum)
	}
	if idx >= len(all) || all[idx] != hex.EncodeToString(cs.Value()) {
		return errors.New("EC part checksum is not the one promised by the parent header")
	}
	return nil
}

// ---------------------------------------------------------------------------
// streaming

func vc24Chunks(t *rapid.T, p []byte) [][]byte {
	var res [][]byte
	for len(p) > 0 {
		var n int
		switch rapid.IntRange(0, 5).Draw(t, "chunkKind") {
		case 0:
			n = 0
		case 1:
			n = 1
		case 2:
			n = len(p)
		default:
			n = rapid.IntRange(1, len(p)).Draw(t, "chunkLen")
		}
		res = append(res, p[:n])
		p = p[n:]
	}
	if rapid.IntRange(0, 3).Draw(t, "tailEmpty") == 0 {
		res = append(res, nil)
	}
	return res
}

func vc24Stream(svc *Service, hdr *object.Object, chunks [][]byte, st *session.Object, st2 *sessionv2.Token) (id oid.ID, err error) {
	defer func() {
		if r := recover(); r != nil {
			err = fmt.Errorf("%w: %v\n%s", errVC24Panic, r, vc24ShortStack())
		}
	}()
	stream, err := svc.Put(context.Background())
	if err != nil {
		return oid.ID{}, err
	}
	cp := objutil.CommonPrmFromRequest(2, nil, common.RequestTokens{Session: st2, SessionV1: st})
	if err = stream.Init(new(PutInitPrm).WithObject(hdr).WithCommonPrm(cp)); err != nil {
		return oid.ID{}, fmt.Errorf("init: %w", err)
	}
	for _, c := range chunks {
		if err = stream.SendChunk(new(PutChunkPrm).WithChunk(c)); err != nil {
			return oid.ID{}, fmt.Errorf("chunk: %w", err)
		}
	}
	id, err = stream.Close()
	if err != nil {
		return oid.ID{}, fmt.Errorf("close: %w", err)
	}
	return id, nil
}

func vc24ShortStack() string {
	var out []string
	for _, l := range strings.Split(string(debug.Stack()), "\n") {
		if strings.Contains(l, "/repo/") || strings.Contains(l, "neofs-sdk-go") {
			out = append(out, strings.TrimSpace(l))
		}
	}
	return strings.Join(out[:min(len(out), 12)], "\n")
}

// errVC24Panic marks a panic inside the PUT service (always a failure of the check).
var errVC24Panic = errors.New("PANIC in the PUT service")

// ---------------------------------------------------------------------------
// client-signed objects: Streamer and replication

func TestVerifC24Signed(t *testing.T) {
	rec := ev.New("C24", "signed")
	defer rec.Flush()
	cl := vc24NewCluster(t, "rep", nil)
	muts := vc24Mutations()
	rapid.Check(t, func(rt *rapid.T) {
		defer cl.c.resetAllStoredObjects()
		var m *vc24Mutation
		wantAuth, wantShape := "", ""
		if rapid.IntRange(0, 4).Draw(rt, "mutate") != 0 {
			m = &muts[vc24Uniform(rt, "mutation", len(muts))]
			wantAuth, wantShape = m.auth, m.shape
		}
		s := vc24Subject_(t, rt, maxObjectSize, true, wantAuth, wantShape)
		sent := s.obj
		stream := s.payload
		mut := "none"
		if m != nil {
			mut = m.name
			var cp object.Object
			s.obj.CopyTo(&cp)
			sent = cp
			m.apply(rt, s, &sent, &stream)
		}
		path := rapid.SampledFrom([]string{"stream", "stream", "replicate"}).Draw(rt, "path")
		through := rapid.IntRange(0, len(cl.c.nodeServices)-1).Draw(rt, "through")
		if path == "replicate" {
			through = rapid.IntRange(0, cl.cnrNodes-1).Draw(rt, "throughCnr")
		}
		svc := cl.c.nodeServices[through]

		var err error
		nChunks := 0
		if path == "stream" {
			chunks := vc24Chunks(rt, stream)
			nChunks = len(chunks)
			_, err = vc24Stream(svc, sent.CutPayload(), chunks, nil, nil)
		} else {
			var cp object.Object
			sent.CopyTo(&cp)
			cp.SetPayload(stream)
			err = svc.ValidateAndStoreObjectLocally(context.Background(), cp)
		}

		role := "container-node"
		if through >= cl.cnrNodes {
			role = "outsider"
		}
		rec.Case(mut != "none" || nChunks > 1, fmt.Sprintf("%s|%s|%s|%s|%d|%d|%s", mut, s.auth, s.shape, path, len(s.payload), nChunks, role),
			"mut:"+mut, "auth:"+s.auth, "shape:"+s.shape, "path:"+path, "role:"+role)
		if rec.WantSample() && mut != "none" {
			rec.Sample(map[string]any{"mutation": mut, "auth": s.auth, "shape": s.shape, "path": path, "len": len(s.payload), "through": through})
		}

		stored := cl.stored()
		if mut != "none" {
			if err == nil {
				rt.Fatalf("C24 violation: %s object (auth=%s shape=%s, %s via node %d) was accepted", mut, s.auth, s.shape, path, through)
			}
			if len(stored) != 0 {
				rt.Fatalf("C24 violation: %s object rejected (%v) but %d object(s) were stored", mut, err, len(stored))
			}
			return
		}
		if err != nil {
			rt.Fatalf("valid object (auth=%s shape=%s len=%d, %s via node %d) rejected: %v", s.auth, s.shape, len(s.payload), path, through, err)
		}
		if len(stored) == 0 {
			rt.Fatalf("valid object accepted but nothing stored")
		}
		want := s.obj.Marshal()
		for i := range stored {
			if e := vc24CheckStored(&stored[i], nil); e != nil {
				rt.Fatalf("C24 violation: stored object is not self-consistent: %v", e)
			}
			if !bytes.Equal(stored[i].Marshal(), want) {
				rt.Fatalf("C24 violation: stored object differs from the uploaded one")
			}
		}
	})
}

// ---------------------------------------------------------------------------
// node-sliced uploads (unsigned header + session token)

// vc24Reassemble rebuilds the uploaded payload from everything stored in the
// cluster and returns it with the root header.
func vc24Reassemble(stored []object.Object, rules []iec.Rule) ([]byte, *object.Object, int, error) {
	byID := map[oid.ID]*object.Object{}
	for i := range stored {
		byID[stored[i].GetID()] = &stored[i]
	}
	// logical objects (children or the whole object): id -> payload, header
	type logical struct {
		hdr *object.Object
		pld []byte
	}
	logicals := map[oid.ID]logical{}
	var links []*object.Object
	if len(rules) == 0 {
		for id, o := range byID {
			if o.Type() == object.TypeLink {
				links = append(links, o)
				continue
			}
			logicals[id] = logical{hdr: o.CutPayload(), pld: o.Payload()}
		}
	} else {
		type key struct {
			par oid.ID
			ri  int
		}
		groups := map[key]map[int]*object.Object{}
		for _, o := range byID {
			if o.Type() == object.TypeLink {
				links = append(links, o)
				continue
			}
			ri, pi, isPart := vc24ECInfo(o)
			if !isPart || o.Parent() == nil {
				return nil, nil, 0, fmt.Errorf("non-EC regular object %s stored in EC container", o.GetID())
			}
			k := key{o.Parent().GetID(), ri}
			if groups[k] == nil {
				groups[k] = map[int]*object.Object{}
			}
			if groups[k][pi] != nil {
				return nil, nil, 0, fmt.Errorf("two different objects for EC part %d/%d of %s", ri, pi, k.par)
			}
			groups[k][pi] = o
		}
		for k, g := range groups {
			rule := rules[k.ri]
			total := int(rule.DataPartNum + rule.ParityPartNum)
			if len(g) < int(rule.DataPartNum) {
				return nil, nil, 0, fmt.Errorf("rule #%d of %s: only %d of %d parts stored, %d needed", k.ri, k.par, len(g), total, rule.DataPartNum)
			}
			var par *object.Object
			parts := make([][]byte, total)
			for i := 0; i < total; i++ {
				if g[i] != nil {
					par = g[i].Parent()
					parts[i] = bytes.Clone(g[i].Payload())
				}
			}
			var pld []byte
			if par.PayloadSize() > 0 {
				var err error
				pld, err = iec.Decode(rule, par.PayloadSize(), parts) // restores missing parts in place
				if err != nil {
					return nil, nil, 0, fmt.Errorf("rule #%d of %s: decode: %w", k.ri, k.par, err)
				}
				if len(g) == total {
					// the parity parts must be able to stand in for lost data parts
					broken := make([][]byte, total)
					for i := range parts {
						broken[i] = bytes.Clone(parts[i])
					}
					for i := 0; i < int(rule.ParityPartNum) && i < int(rule.DataPartNum); i++ {
						broken[i] = nil
					}
					dec, err := iec.Decode(rule, par.PayloadSize(), broken)
					if err != nil {
						return nil, nil, 0, fmt.Errorf("rule #%d of %s: decode without first parts: %w", k.ri, k.par, err)
					}
					if !bytes.Equal(dec, pld) {
						return nil, nil, 0, fmt.Errorf("rule #%d of %s: parity parts do not restore the data parts", k.ri, k.par)
					}
				}
			}
			if prev, ok := logicals[k.par]; ok {
				if !bytes.Equal(prev.pld, pld) {
					return nil, nil, 0, fmt.Errorf("EC rules give different payloads for %s", k.par)
				}
				continue
			}
			logicals[k.par] = logical{hdr: par, pld: pld}
		}
		for par := range logicals {
			for ri := range rules {
				if groups[key{par, ri}] == nil {
					return nil, nil, 0, fmt.Errorf("no parts of rule #%d stored for %s", ri, par)
				}
			}
		}
	}
	for id, l := range logicals {
		if uint64(len(l.pld)) != l.hdr.PayloadSize() {
			return nil, nil, 0, fmt.Errorf("%s: %d payload bytes, header says %d", id, len(l.pld), l.hdr.PayloadSize())
		}
		if cs, ok := l.hdr.PayloadChecksum(); !ok || cs.Value() == nil || !bytes.Equal(cs.Value(), vc24Sum(l.pld)) {
			return nil, nil, 0, fmt.Errorf("%s: payload checksum mismatch", id)
		}
	}
	switch {
	case len(links) == 0:
		if len(logicals) != 1 {
			return nil, nil, 0, fmt.Errorf("%d objects stored without a link object", len(logicals))
		}
		for _, l := range logicals {
			return l.pld, l.hdr, 1, nil
		}
	case len(links) > 1:
		return nil, nil, 0, fmt.Errorf("%d different link objects", len(links))
	}
	lnk := links[0]
	var link object.Link
	if err := lnk.ReadLink(&link); err != nil {
		return nil, nil, 0, fmt.Errorf("link payload: %w", err)
	}
	root := lnk.Parent()
	if root == nil {
		return nil, nil, 0, errors.New("link without parent header")
	}
	var pld []byte
	var prev oid.ID
	first := link.Objects()[0].ObjectID()
	for i, m := range link.Objects() {
		l, ok := logicals[m.ObjectID()]
		if !ok {
			return nil, nil, 0, fmt.Errorf("child #%d %s listed in the link is not stored", i, m.ObjectID())
		}
		if uint64(m.ObjectSize()) != uint64(len(l.pld)) {
			return nil, nil, 0, fmt.Errorf("child #%d: link says %d bytes, stored %d", i, m.ObjectSize(), len(l.pld))
		}
		if l.hdr.GetPreviousID() != prev {
			return nil, nil, 0, fmt.Errorf("child #%d: broken previous-ID chain", i)
		}
		if i > 0 && l.hdr.GetFirstID() != first {
			return nil, nil, 0, fmt.Errorf("child #%d: wrong first ID", i)
		}
		if i == len(link.Objects())-1 {
			if p := l.hdr.Parent(); p == nil || p.GetID() != root.GetID() {
				return nil, nil, 0, errors.New("last child does not carry the root header")
			}
		}
		prev = m.ObjectID()
		pld = append(pld, l.pld...)
	}
	if len(link.Objects()) != len(logicals) {
		return nil, nil, 0, fmt.Errorf("%d children stored, link lists %d", len(logicals), len(link.Objects()))
	}
	return pld, root, len(link.Objects()), nil
}

func vc24Sum(b []byte) []byte { h := sha256.Sum256(b); return h[:] }

func TestVerifC24Sliced(t *testing.T) {
	rec := ev.New("C24", "sliced")
	defer rec.Flush()
	clusters := []*vc24Cluster{
		vc24NewCluster(t, "rep", nil),
		vc24NewCluster(t, "ec2/1", []iec.Rule{{DataPartNum: 2, ParityPartNum: 1}}),
		vc24NewCluster(t, "ec3/1+1/1", []iec.Rule{{DataPartNum: 3, ParityPartNum: 1}, {DataPartNum: 1, ParityPartNum: 1}}),
	}
	rapid.Check(t, func(rt *rapid.T) {
		cl := clusters[vc24Uniform(rt, "cluster", len(clusters))]
		defer cl.c.resetAllStoredObjects()
		owner := gensign.New(0, rapid.SampledFrom(gensign.Schemes).Draw(rt, "ownerScheme"))
		var n int
		switch rapid.IntRange(0, 4).Draw(rt, "lenKind") {
		case 0:
			n = rapid.IntRange(0, maxObjectSize).Draw(rt, "lenSmall")
		case 1:
			n = rapid.IntRange(0, 4*maxObjectSize+500).Draw(rt, "lenAny")
		default:
			n = max(0, maxObjectSize*rapid.IntRange(1, 4).Draw(rt, "k")+rapid.IntRange(-2, 2).Draw(rt, "d"))
		}
		payload := genobj.Fill(rapid.Uint64().Draw(rt, "seed"), n)
		stream := payload

		var hdr object.Object
		hdr.SetContainerID(vc24Cnr)
		hdr.SetOwner(owner.UserID())
		hdr.SetAttributes(vc24Attrs(rt)...)
		declared := rapid.Bool().Draw(rt, "declareSize")
		if declared {
			hdr.SetPayloadSize(uint64(n))
		}

		mut := "none"
		if rapid.IntRange(0, 2).Draw(rt, "mutate") == 0 {
			mut = rapid.SampledFrom([]string{"attr-zero-byte", "attr-duplicate-key", "attr-empty-value", "ec-attrs", "stream-longer", "stream-shorter"}).Draw(rt, "mutation")
			switch mut {
			case "attr-zero-byte":
				hdr.SetAttributes(append(hdr.Attributes(), object.NewAttribute("z", "a\x00b"))...)
			case "attr-duplicate-key":
				hdr.SetAttributes(append(hdr.Attributes(), object.NewAttribute("dup", "1"), object.NewAttribute("dup", "2"))...)
			case "attr-empty-value":
				hdr.SetAttributes(append(hdr.Attributes(), object.NewAttribute("empty", ""))...)
			case "ec-attrs":
				hdr.SetAttributes(append(hdr.Attributes(), object.NewAttribute(iec.AttributeRuleIdx, "0"), object.NewAttribute(iec.AttributePartIdx, "0"))...)
			case "stream-longer": // more bytes than declared
				if !declared || n == 0 {
					mut = "none"
					break
				}
				stream = append(bytes.Clone(payload), genobj.Fill(5, rapid.IntRange(1, 3).Draw(rt, "extra"))...)
			case "stream-shorter":
				if !declared || n == 0 {
					mut = "none"
					break
				}
				stream = payload[:n-rapid.IntRange(1, min(3, n)).Draw(rt, "cut")]
			}
		}

		through := rapid.IntRange(0, len(cl.c.nodeServices)-1).Draw(rt, "through")
		var st *session.Object
		var st2 *sessionv2.Token
		tokVer := rapid.IntRange(1, 2).Draw(rt, "tokenVersion")
		if tokVer == 1 {
			st = vc24TokenV1(rt, owner, cl.c.nodeSessions[through].signer.Public())
		} else {
			st2 = vc24TokenV2(t, rt, owner, user.NewFromECDSAPublicKey(cl.c.nodeSessions[through].signer.ECDSAPrivateKey.PublicKey))
		}
		chunks := vc24Chunks(rt, stream)
		// transient storage failures: node i fails its k-th Put
		faults := 0
		defer cl.resetFaults()
		if rapid.IntRange(0, 2).Draw(rt, "withFaults") == 0 {
			for i := 0; i < cl.cnrNodes; i++ {
				if rapid.IntRange(0, 1).Draw(rt, fmt.Sprintf("faulty%d", i)) == 0 {
					continue
				}
				fa := map[int]bool{}
				for range rapid.IntRange(1, 2).Draw(rt, "nFail") {
					fa[rapid.IntRange(1, 6).Draw(rt, fmt.Sprintf("failAt%d", i))] = true
				}
				cl.faulty[i].failAt = fa
				faults += len(fa)
			}
		}
		rootID, err := vc24Stream(cl.c.nodeServices[through], &hdr, chunks, st, st2)
		stored := cl.stored()

		nChildren := (n + maxObjectSize - 1) / maxObjectSize
		role := "container-node"
		if through >= cl.cnrNodes {
			role = "outsider"
		}
		rec.Case(mut != "none" || nChildren >= 2, fmt.Sprintf("%s|%s|%d|%t|%d|v%d|%s", cl.name, mut, n, declared, len(chunks), tokVer, role),
			"cluster:"+cl.name, "mut:"+mut, fmt.Sprintf("children:%d", min(nChildren, 5)), "role:"+role, fmt.Sprintf("token:v%d", tokVer), fmt.Sprintf("faults:%t", faults > 0), fmt.Sprintf("ok:%t", err == nil))

		fail := func(format string, a ...any) {
			rt.Fatalf("C24 violation: "+format+fmt.Sprintf("\ncluster=%s len=%d declared=%t mut=%s through=%d token=v%d faults=%d", cl.name, n, declared, mut, through, tokVer, faults), a...)
		}
		if errors.Is(err, errVC24Panic) {
			fail("%v", err)
			return
		}
		// whatever happened, every stored piece must be a self-consistent authenticated object
		for i := range stored {
			if e := vc24CheckStored(&stored[i], cl.rules); e != nil {
				fail("node-sliced upload left an inconsistent object %s: %v", stored[i].GetID(), e)
				return
			}
		}
		if mut != "none" {
			if err == nil {
				fail("upload with %s succeeded", mut)
				return
			}
			if strings.HasPrefix(mut, "attr-") || mut == "ec-attrs" {
				if len(stored) != 0 {
					fail("header with %s rejected (%v) but %d objects stored", mut, err, len(stored))
				}
			}
			return
		}
		if err != nil {
			if faults > 0 {
				return // nothing is demanded from a failed upload beyond consistent pieces
			}
			rt.Fatalf("valid node-sliced upload rejected (%s, len=%d, via node %d, token v%d): %v", cl.name, n, through, tokVer, err)
		}
		got, root, nCh, rerr := vc24Reassemble(stored, cl.rules)
		switch {
		case rerr != nil:
			fail("stored pieces of a successful upload do not reassemble: %v", rerr)
		case !bytes.Equal(got, payload):
			fail("reassembled payload differs from the streamed one (got %d bytes, %d children)", len(got), nCh)
		case root.GetID() != rootID:
			fail("PUT returned ID %s, stored root header has %s", rootID, root.GetID())
		case root.PayloadSize() != uint64(n):
			fail("root header payload size %d, streamed %d", root.PayloadSize(), n)
		case !bytes.Equal(vc24ChecksumValue(root), vc24Sum(payload)):
			fail("root header checksum is not the checksum of the streamed payload")
		case vc24CheckHeaderAuth(root) != nil:
			fail("root header: %v", vc24CheckHeaderAuth(root))
		case root.Owner() != owner.UserID():
			fail("root owner is not the session issuer")
		}
	})
}

func vc24ChecksumValue(o *object.Object) []byte {
	cs, _ := o.PayloadChecksum()
	return cs.Value()
}

// ---------------------------------------------------------------------------
// EC part objects formed outside the node (client PUT / replication)

func TestVerifC24ECPart(t *testing.T) {
	rec := ev.New("C24", "ecpart")
	defer rec.Flush()
	clusters := []*vc24Cluster{
		vc24NewCluster(t, "ec2/1", []iec.Rule{{DataPartNum: 2, ParityPartNum: 1}}),
		vc24NewCluster(t, "ec3/1+1/1", []iec.Rule{{DataPartNum: 3, ParityPartNum: 1}, {DataPartNum: 1, ParityPartNum: 1}}),
	}
	mutNames := []string{"rule-idx-overflow", "part-idx-overflow", "part-idx-of-another-part", "payload-changed-refinalized", "payload-len-refinalized",
		"signed-part", "part-with-session-token", "parent-hashes-removed", "parent-signature-flip", "parent-id-flip", "id-flip", "checksum-flip-refinalized",
		"stream-longer", "stream-shorter", "stream-byte-changed", "parent-foreign-signer"}
	rapid.Check(t, func(rt *rapid.T) {
		cl := clusters[vc24Uniform(rt, "cluster", len(clusters))]
		defer cl.c.resetAllStoredObjects()
		s := vc24Subject_(t, rt, maxObjectSize, false, "", "plain")
		// parent: the signed object with the EC part hashes attribute
		par := s.obj
		attachECHashes(t, &par, cl.rules)
		vc24Sign(rt, &par, s.signer)
		ri := rapid.IntRange(0, len(cl.rules)-1).Draw(rt, "ruleIdx")
		rule := cl.rules[ri]
		total := int(rule.DataPartNum + rule.ParityPartNum)
		pi := rapid.IntRange(0, total-1).Draw(rt, "partIdx")
		parts, sums, err := iec.Encode(rule, bytes.Clone(s.payload))
		if err != nil {
			rt.Fatal(err)
		}
		mk := func(parent object.Object, payload []byte, ri, pi int) object.Object {
			o, err := iec.FormObjectForECPart(s.signer, *parent.CutPayload(), payload, iec.PartInfo{RuleIndex: ri, Index: pi})
			if err != nil {
				rt.Fatal(err)
			}
			return o
		}
		valid := mk(par, parts[pi], ri, pi)
		sent := valid
		stream := valid.Payload()

		mut := "none"
		if rapid.IntRange(0, 4).Draw(rt, "mutate") != 0 {
			mut = mutNames[vc24Uniform(rt, "mutation", len(mutNames))]
			switch mut {
			case "rule-idx-overflow":
				sent = mk(par, parts[pi], len(cl.rules)+rapid.IntRange(0, 2).Draw(rt, "over"), pi)
			case "part-idx-overflow":
				sent = mk(par, parts[pi], ri, total+rapid.IntRange(0, 2).Draw(rt, "over"))
			case "part-idx-of-another-part":
				other := (pi + 1 + rapid.IntRange(0, total-2).Draw(rt, "other")) % total
				if sums[other] == sums[pi] {
					mut = "none"
					break
				}
				sent = mk(par, parts[pi], ri, other)
			case "payload-changed-refinalized":
				if len(parts[pi]) == 0 {
					mut = "none"
					break
				}
				p := bytes.Clone(parts[pi])
				p[rapid.IntRange(0, len(p)-1).Draw(rt, "pos")] ^= 1
				sent = mk(par, p, ri, pi)
				stream = p
			case "payload-len-refinalized":
				p := append(bytes.Clone(parts[pi]), 0)
				if rapid.Bool().Draw(rt, "shorter") && len(parts[pi]) > 0 {
					p = bytes.Clone(parts[pi][:len(parts[pi])-1])
				}
				sent = mk(par, p, ri, pi)
				stream = p
			case "signed-part":
				if err := sent.Sign(s.signer); err != nil {
					rt.Fatal(err)
				}
			case "part-with-session-token":
				sent.SetSessionToken(vc24TokenV1(rt, s.owner, s.signer.Public()))
				if err := sent.CalculateAndSetID(); err != nil {
					rt.Fatal(err)
				}
			case "parent-hashes-removed":
				p2 := s.obj // without the hashes attribute
				vc24Sign(rt, &p2, s.signer)
				sent = mk(p2, parts[pi], ri, pi)
			case "parent-signature-flip":
				p2 := par
				sig := vc24FlipSig(p2.Signature(), rt)
				p2.SetSignature(&sig)
				sent = mk(p2, parts[pi], ri, pi)
			case "parent-id-flip":
				p2 := par
				vc24FlipID(&p2, rt)
				sent = mk(p2, parts[pi], ri, pi)
			case "parent-foreign-signer":
				p2 := par
				_ = p2.Sign(gensign.New(2, neofscrypto.ECDSA_DETERMINISTIC_SHA256))
				sent = mk(p2, parts[pi], ri, pi)
			case "id-flip":
				vc24FlipID(&sent, rt)
			case "checksum-flip-refinalized":
				cs, _ := sent.PayloadChecksum()
				v := bytes.Clone(cs.Value())
				v[0] ^= 1
				sent.SetPayloadChecksum(checksum.New(checksum.SHA256, v))
				if err := sent.CalculateAndSetID(); err != nil {
					rt.Fatal(err)
				}
			case "stream-longer":
				stream = append(bytes.Clone(stream), 7)
			case "stream-shorter":
				if len(stream) == 0 {
					stream = []byte{1}
				} else {
					stream = stream[:len(stream)-1]
				}
			case "stream-byte-changed":
				if len(stream) == 0 {
					stream = []byte{1}
				} else {
					c := bytes.Clone(stream)
					c[rapid.IntRange(0, len(c)-1).Draw(rt, "pos")] ^= 0x10
					stream = c
				}
			}
		}

		path := rapid.SampledFrom([]string{"stream", "stream", "replicate"}).Draw(rt, "path")
		through := rapid.IntRange(0, len(cl.c.nodeServices)-1).Draw(rt, "through")
		if path == "replicate" {
			through = rapid.IntRange(0, cl.cnrNodes-1).Draw(rt, "throughCnr")
		}
		svc := cl.c.nodeServices[through]
		if path == "stream" {
			_, err = vc24Stream(svc, sent.CutPayload(), vc24Chunks(rt, stream), nil, nil)
		} else {
			var cp object.Object
			sent.CopyTo(&cp)
			cp.SetPayload(stream)
			err = svc.ValidateAndStoreObjectLocally(context.Background(), cp)
		}
		rec.Case(mut != "none", fmt.Sprintf("%s|%s|%d/%d|%s|%s|%d", cl.name, mut, ri, pi, s.auth, path, len(s.payload)),
			"cluster:"+cl.name, "mut:"+mut, "path:"+path, "auth:"+s.auth)

		stored := cl.stored()
		if mut != "none" {
			if err == nil {
				rt.Fatalf("C24 violation: EC part with %s (%s rule %d part %d, %s via node %d) was accepted", mut, cl.name, ri, pi, path, through)
			}
			if len(stored) != 0 {
				rt.Fatalf("C24 violation: EC part with %s rejected (%v) but %d object(s) stored", mut, err, len(stored))
			}
			return
		}
		if err != nil {
			rt.Fatalf("valid EC part (%s rule %d part %d len=%d auth=%s, %s via node %d) rejected: %v", cl.name, ri, pi, len(s.payload), s.auth, path, through, err)
		}
		if len(stored) == 0 {
			rt.Fatalf("valid EC part accepted but nothing stored")
		}
		for i := range stored {
			if e := vc24CheckStored(&stored[i], cl.rules); e != nil {
				rt.Fatalf("C24 violation: stored EC part is not self-consistent: %v", e)
			}
			if !bytes.Equal(stored[i].Marshal(), valid.Marshal()) {
				rt.Fatalf("C24 violation: stored EC part differs from the uploaded one")
			}
		}
	})
}

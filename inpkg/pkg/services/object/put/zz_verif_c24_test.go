//go:build verif

package putsvc

// C24: a node never stores an object – from a client (Streamer), from another
// node (ValidateAndStoreObjectLocally = Replicate) or from its own slicer –
// unless ID matches header, payload matches declared length and checksum,
// format/attributes are valid and (non-EC) the signature authenticates the
// owner or session. Node-sliced uploads reassemble to the streamed bytes.
//
// Reach: the package's own testCluster (real Service + FormatValidator on every
// node, in-memory node storages that record what was stored).
//
// Generate: a valid object (owner-signed / V1-session / V2-session signed,
// optionally a split child carrying a parent header, or an EC part), then 0..1
// mutation; payload streamed in a random chunking.
//
// Oracle: mutated ⇒ error and nothing stored on any node. Not mutated ⇒ accepted
// and every stored object passes an independent validity predicate
// (vc24CheckStored) and equals the original; for node-sliced uploads the stored
// pieces reassemble (link order / EC decode) to exactly the streamed bytes.

import (
	"bytes"
	"context"
	"crypto/elliptic"
	"crypto/sha256"
	"encoding/hex"
	"errors"
	"fmt"
	"strconv"
	"strings"
	"testing"

	"github.com/nspcc-dev/neo-go/pkg/crypto/keys"
	iec "github.com/nspcc-dev/neofs-node/internal/ec"
	"github.com/nspcc-dev/neofs-node/pkg/services/object/common"
	objutil "github.com/nspcc-dev/neofs-node/pkg/services/object/util"
	"github.com/nspcc-dev/neofs-node/verifharness/ev"
	"github.com/nspcc-dev/neofs-node/verifharness/genobj"
	"github.com/nspcc-dev/neofs-node/verifharness/gensign"
	"github.com/nspcc-dev/neofs-sdk-go/checksum"
	"github.com/nspcc-dev/neofs-sdk-go/container"
	neofscrypto "github.com/nspcc-dev/neofs-sdk-go/crypto"
	"github.com/nspcc-dev/neofs-sdk-go/netmap"
	"github.com/nspcc-dev/neofs-sdk-go/object"
	oid "github.com/nspcc-dev/neofs-sdk-go/object/id"
	"github.com/nspcc-dev/neofs-sdk-go/session"
	sessionv2 "github.com/nspcc-dev/neofs-sdk-go/session/v2"
	"github.com/nspcc-dev/neofs-sdk-go/user"
	"github.com/nspcc-dev/neofs-sdk-go/version"
	"go.uber.org/zap"
	"pgregory.net/rapid"
)

// ---------------------------------------------------------------------------
// clusters

type vc24Cluster struct {
	name     string
	c        *testCluster
	rules    []iec.Rule
	cnrNodes int
}

func vc24ECContainer(rules []iec.Rule) container.Container {
	var cnr container.Container
	var policy netmap.PlacementPolicy
	ecRules := make([]netmap.ECRule, len(rules))
	for i := range rules {
		ecRules[i].SetDataPartNum(uint32(rules[i].DataPartNum))
		ecRules[i].SetParityPartNum(uint32(rules[i].ParityPartNum))
	}
	policy.SetECRules(ecRules)
	cnr.SetPlacementPolicy(policy)
	return cnr
}

func vc24NewCluster(t *testing.T, name string, rules []iec.Rule) *vc24Cluster {
	const reserve, out = 1, 1
	var c *testCluster
	var primary int
	if len(rules) == 0 {
		primary = 2
		c = newTestClusterForRepPolicy(t, uint(primary), reserve, out)
	} else {
		for _, r := range rules {
			primary = max(primary, int(r.DataPartNum+r.ParityPartNum))
		}
		c = newTestClusterForRepPolicyWithContainer(t, uint(primary), reserve, out, vc24ECContainer(rules))
		// "REP cluster to EC cluster magic" of Test_Slicing_EC
		for i := range c.nodeNetworks {
			c.nodeNetworks[i].cnrNodes.repCounts = nil
			for range len(rules) - 1 {
				c.nodeNetworks[i].cnrNodes.unsorted = append(c.nodeNetworks[i].cnrNodes.unsorted, c.nodeNetworks[i].cnrNodes.unsorted[0])
				c.nodeNetworks[i].cnrNodes.sorted = append(c.nodeNetworks[i].cnrNodes.sorted, c.nodeNetworks[i].cnrNodes.sorted[0])
			}
			c.nodeNetworks[i].cnrNodes.ecRules = rules
		}
	}
	for i := range c.nodeServices {
		c.nodeServices[i].log = zap.NewNop()
	}
	return &vc24Cluster{name: name, c: c, rules: rules, cnrNodes: primary + reserve}
}

func (x *vc24Cluster) stored() []object.Object {
	var res []object.Object
	for _, l := range x.c.allStoredObjects() {
		res = append(res, l...)
	}
	return res
}

// ---------------------------------------------------------------------------
// valid objects

var vc24Cnr = genobj.Container(1)

type vc24Subject struct {
	obj     object.Object // complete valid object incl. payload
	signer  gensign.Signer
	owner   gensign.Signer
	auth    string // owner | v1 | v2
	shape   string // plain | child | ecpart
	payload []byte
}

func vc24Attrs(t *rapid.T) []object.Attribute {
	n := rapid.IntRange(0, 3).Draw(t, "nAttr")
	var as []object.Attribute
	for i := 0; i < n; i++ {
		as = append(as, object.NewAttribute("key"+strconv.Itoa(i), rapid.SampledFrom([]string{"v", "value with spaces", "юникод", "0"}).Draw(t, "attrVal")))
	}
	if rapid.IntRange(0, 4).Draw(t, "withExp") == 0 {
		as = append(as, object.NewAttribute(object.AttributeExpirationEpoch, strconv.Itoa(currentEpoch+rapid.IntRange(0, 5).Draw(t, "expD"))))
	}
	return as
}

func vc24Blank(owner user.ID) object.Object {
	cur := version.Current()
	var o object.Object
	o.SetVersion(&cur)
	o.SetContainerID(vc24Cnr)
	o.SetOwner(owner)
	o.SetCreationEpoch(currentEpoch)
	o.SetType(object.TypeRegular)
	return o
}

func vc24TokenV1(t *rapid.T, owner gensign.Signer, authKey neofscrypto.PublicKey) *session.Object {
	var tok session.Object
	tok.SetID(genobjUUID24(rapid.Uint64().Draw(t, "tokID")))
	tok.SetExp(currentEpoch + 10)
	tok.SetNbf(1)
	tok.SetIat(1)
	tok.BindContainer(vc24Cnr)
	tok.ForVerb(session.VerbObjectPut)
	tok.SetAuthKey(authKey)
	if err := tok.Sign(owner); err != nil {
		t.Fatal(err)
	}
	return &tok
}

func genobjUUID24(seed uint64) [16]byte {
	var u [16]byte
	copy(u[:], genobj.Fill(seed|1, 16))
	u[6] = (u[6] & 0x0f) | 0x40
	u[8] = (u[8] & 0x3f) | 0x80
	return u
}

func vc24TokenV2(tt *testing.T, t *rapid.T, owner gensign.Signer, subject user.ID) *sessionv2.Token {
	tok := newSessionTokenV2(tt, vc24Cnr, owner, nil, []sessionv2.Verb{sessionv2.VerbObjectPut})
	if err := tok.SetSubjects([]sessionv2.Target{sessionv2.NewTargetUser(subject)}); err != nil {
		t.Fatal(err)
	}
	if err := tok.Sign(owner); err != nil {
		t.Fatal(err)
	}
	return tok
}

// vc24Sign (re)computes ID and signature of o for its current header.
func vc24Sign(t *rapid.T, o *object.Object, signer neofscrypto.Signer) {
	if err := o.SetIDWithSignature(signer); err != nil {
		t.Fatal(err)
	}
}

// vc24Uniform draws an index in [0,n) without rapid's bias to small values.
func vc24Uniform(t *rapid.T, label string, n int) int {
	x := uint64(rapid.IntRange(0, 1<<20).Draw(t, label))
	return int((x * 0x9e3779b97f4a7c15 >> 33) % uint64(n))
}

func vc24Subject_(tt *testing.T, t *rapid.T, maxLen int, allowChild bool, wantAuth, wantShape string) *vc24Subject {
	s := &vc24Subject{}
	s.owner = gensign.New(0, rapid.SampledFrom(gensign.Schemes).Draw(t, "ownerScheme"))
	s.signer = s.owner
	n := rapid.IntRange(0, maxLen).Draw(t, "len")
	if rapid.IntRange(0, 5).Draw(t, "edgeLen") == 0 {
		n = rapid.SampledFrom([]int{0, 1, maxLen - 1, maxLen}).Draw(t, "lenEdge")
	}
	s.payload = genobj.Fill(rapid.Uint64().Draw(t, "seed"), n)
	o := vc24Blank(s.owner.UserID())
	o.SetAttributes(vc24Attrs(t)...)
	s.auth = rapid.SampledFrom([]string{"owner", "owner", "v1", "v2"}).Draw(t, "auth")
	if wantAuth != "" {
		s.auth = wantAuth
	}
	switch s.auth {
	case "v1":
		s.signer = gensign.New(1, rapid.SampledFrom(gensign.Schemes).Draw(t, "sessScheme"))
		o.SetSessionToken(vc24TokenV1(t, s.owner, s.signer.Public()))
	case "v2":
		s.signer = gensign.New(1, rapid.SampledFrom(gensign.Schemes).Draw(t, "sessScheme"))
		o.SetSessionTokenV2(vc24TokenV2(tt, t, s.owner, s.signer.UserID()))
	}
	s.shape = "plain"
	if allowChild && wantShape != "plain" && (wantShape == "child" || rapid.IntRange(0, 3).Draw(t, "child") == 0) {
		// last child of a V2 split chain carrying the complete parent header
		s.shape = "child"
		par := vc24Blank(s.owner.UserID())
		par.SetAttributes(object.NewAttribute("parent-attr", "x"))
		par.SetPayloadSize(uint64(n) + 100)
		par.SetPayloadChecksum(checksum.NewSHA256(sha256.Sum256(genobj.Fill(7, 32))))
		vc24Sign(t, &par, s.owner)
		o.SetAttributes()
		o.SetFirstID(genobj.PoolID(1))
		o.SetPreviousID(genobj.PoolID(2))
		o.SetParentID(par.GetID())
		o.SetParent(&par)
	}
	o.SetPayload(s.payload)
	o.SetPayloadSize(uint64(n))
	o.CalculateAndSetPayloadChecksum()
	vc24Sign(t, &o, s.signer)
	s.obj = o
	return s
}

// ---------------------------------------------------------------------------
// mutations (each makes the object invalid by the property's criteria)

type vc24Mutation struct {
	name string
	// apply mutates the object to be sent and/or the streamed payload.
	apply func(t *rapid.T, s *vc24Subject, o *object.Object, stream *[]byte)
	// only lists the subjects the mutation applies to ("" = any)
	auth  string
	shape string
}

func vc24FlipID(o *object.Object, t *rapid.T) {
	id := o.GetID()
	id[rapid.IntRange(0, len(id)-1).Draw(t, "idByte")] ^= 1 << rapid.IntRange(0, 7).Draw(t, "idBit")
	o.SetID(id)
}

func vc24FlipSig(sig *neofscrypto.Signature, t *rapid.T) neofscrypto.Signature {
	v := bytes.Clone(sig.Value())
	v[rapid.IntRange(0, len(v)-1).Draw(t, "sigByte")] ^= 1 << rapid.IntRange(0, 7).Draw(t, "sigBit")
	return neofscrypto.NewSignatureFromRawKey(sig.Scheme(), sig.PublicKeyBytes(), v)
}

func vc24Mutations() []vc24Mutation {
	return []vc24Mutation{
		{name: "id-flip", apply: func(t *rapid.T, s *vc24Subject, o *object.Object, _ *[]byte) {
			vc24FlipID(o, t)
		}},
		{name: "id-flip-resigned", apply: func(t *rapid.T, s *vc24Subject, o *object.Object, _ *[]byte) {
			vc24FlipID(o, t)
			if err := o.Sign(s.signer); err != nil {
				t.Fatal(err)
			}
		}},
		{name: "checksum-flip-refinalized", apply: func(t *rapid.T, s *vc24Subject, o *object.Object, _ *[]byte) {
			cs, _ := o.PayloadChecksum()
			v := bytes.Clone(cs.Value())
			v[rapid.IntRange(0, len(v)-1).Draw(t, "csByte")] ^= 1
			o.SetPayloadChecksum(checksum.New(checksum.SHA256, v))
			vc24Sign(t, o, s.signer)
		}},
		{name: "declared-size-refinalized", apply: func(t *rapid.T, s *vc24Subject, o *object.Object, _ *[]byte) {
			d := rapid.IntRange(1, 3).Draw(t, "sizeD")
			sz := o.PayloadSize()
			if rapid.Bool().Draw(t, "smaller") && sz >= uint64(d) {
				o.SetPayloadSize(sz - uint64(d))
			} else {
				o.SetPayloadSize(sz + uint64(d))
			}
			vc24Sign(t, o, s.signer)
		}},
		{name: "stream-longer", apply: func(t *rapid.T, s *vc24Subject, o *object.Object, stream *[]byte) {
			*stream = append(bytes.Clone(*stream), genobj.Fill(3, rapid.IntRange(1, 3).Draw(t, "extra"))...)
		}},
		{name: "stream-shorter", apply: func(t *rapid.T, s *vc24Subject, o *object.Object, stream *[]byte) {
			if len(*stream) == 0 {
				*stream = []byte{1}
				return
			}
			*stream = (*stream)[:len(*stream)-rapid.IntRange(1, min(3, len(*stream))).Draw(t, "cut")]
		}},
		{name: "stream-byte-changed", apply: func(t *rapid.T, s *vc24Subject, o *object.Object, stream *[]byte) {
			if len(*stream) == 0 {
				*stream = []byte{1}
				return
			}
			c := bytes.Clone(*stream)
			c[rapid.IntRange(0, len(c)-1).Draw(t, "pos")] ^= 0x80
			*stream = c
		}},
		{name: "header-changed-not-refinalized", apply: func(t *rapid.T, s *vc24Subject, o *object.Object, _ *[]byte) {
			switch rapid.IntRange(0, 2).Draw(t, "field") {
			case 0:
				o.SetCreationEpoch(o.CreationEpoch() + 1)
			case 1:
				o.SetAttributes(append(o.Attributes(), object.NewAttribute("injected", "1"))...)
			default:
				o.SetOwner(gensign.UserID(3))
			}
		}},
		{name: "signature-flip", apply: func(t *rapid.T, s *vc24Subject, o *object.Object, _ *[]byte) {
			sig := vc24FlipSig(o.Signature(), t)
			o.SetSignature(&sig)
		}},
		{name: "foreign-signer", apply: func(t *rapid.T, s *vc24Subject, o *object.Object, _ *[]byte) {
			// correct ID, signed by a key that is neither the owner nor the session key
			if err := o.Sign(gensign.New(2, s.signer.Scheme())); err != nil {
				t.Fatal(err)
			}
		}},
		{name: "reowned-signed-by-old-owner", apply: func(t *rapid.T, s *vc24Subject, o *object.Object, _ *[]byte) {
			// another user's object re-owned: owner replaced, ID recomputed, signed by the old key
			o.SetOwner(gensign.UserID(3))
			vc24Sign(t, o, s.signer)
		}, auth: "owner"},
		{name: "token-signature-flip", auth: "v1", apply: func(t *rapid.T, s *vc24Subject, o *object.Object, _ *[]byte) {
			tok := *o.SessionToken()
			sig, _ := tok.Signature()
			tok.AttachSignature(vc24FlipSig(&sig, t))
			o.SetSessionToken(&tok)
			vc24Sign(t, o, s.signer)
		}},
		{name: "token-changed-after-signing", auth: "v1", apply: func(t *rapid.T, s *vc24Subject, o *object.Object, _ *[]byte) {
			tok := *o.SessionToken()
			tok.SetExp(tok.Exp() + 1000)
			o.SetSessionToken(&tok)
			vc24Sign(t, o, s.signer)
		}},
		{name: "token-foreign-issuer", auth: "v1", apply: func(t *rapid.T, s *vc24Subject, o *object.Object, _ *[]byte) {
			// well-formed token issued by somebody else than the object owner
			o.SetSessionToken(vc24TokenV1(t, gensign.New(3, neofscrypto.ECDSA_DETERMINISTIC_SHA256), s.signer.Public()))
			vc24Sign(t, o, s.signer)
		}},
		{name: "token-for-another-key", auth: "v1", apply: func(t *rapid.T, s *vc24Subject, o *object.Object, _ *[]byte) {
			o.SetSessionToken(vc24TokenV1(t, s.owner, gensign.New(4, neofscrypto.ECDSA_DETERMINISTIC_SHA256).Public()))
			vc24Sign(t, o, s.signer)
		}},
		{name: "tokenv2-signature-flip", auth: "v2", apply: func(t *rapid.T, s *vc24Subject, o *object.Object, _ *[]byte) {
			var tok sessionv2.Token
			o.SessionTokenV2().CopyTo(&tok)
			sig, _ := tok.Signature()
			tok.AttachSignature(vc24FlipSig(&sig, t))
			o.SetSessionTokenV2(&tok)
			vc24Sign(t, o, s.signer)
		}},
		{name: "tokenv2-for-another-subject", auth: "v2", apply: func(t *rapid.T, s *vc24Subject, o *object.Object, _ *[]byte) {
			var tok sessionv2.Token
			o.SessionTokenV2().CopyTo(&tok)
			if err := tok.SetSubjects([]sessionv2.Target{sessionv2.NewTargetUser(gensign.UserID(4))}); err != nil {
				t.Fatal(err)
			}
			if err := tok.Sign(s.owner); err != nil {
				t.Fatal(err)
			}
			o.SetSessionTokenV2(&tok)
			vc24Sign(t, o, s.signer)
		}},
		{name: "both-tokens", auth: "v2", apply: func(t *rapid.T, s *vc24Subject, o *object.Object, _ *[]byte) {
			o.SetSessionToken(vc24TokenV1(t, s.owner, s.signer.Public()))
			vc24Sign(t, o, s.signer)
		}},
		{name: "attr-zero-byte", apply: func(t *rapid.T, s *vc24Subject, o *object.Object, _ *[]byte) {
			k, v := "zk", "zv"
			if rapid.Bool().Draw(t, "inKey") {
				k = "z\x00k"
			} else {
				v = rapid.SampledFrom([]string{"\x00", "a\x00", "\x00b", "a\x00b"}).Draw(t, "zval")
			}
			as := o.Attributes()
			pos := rapid.IntRange(0, len(as)).Draw(t, "attrPos")
			as = append(as[:pos:pos], append([]object.Attribute{object.NewAttribute(k, v)}, as[pos:]...)...)
			o.SetAttributes(as...)
			vc24Sign(t, o, s.signer)
		}},
		{name: "attr-duplicate-key", apply: func(t *rapid.T, s *vc24Subject, o *object.Object, _ *[]byte) {
			as := append(o.Attributes(), object.NewAttribute("dup", "1"))
			as = append(as, object.NewAttribute("dup", rapid.SampledFrom([]string{"1", "2"}).Draw(t, "dupVal")))
			o.SetAttributes(as...)
			vc24Sign(t, o, s.signer)
		}},
		{name: "attr-empty-value", apply: func(t *rapid.T, s *vc24Subject, o *object.Object, _ *[]byte) {
			o.SetAttributes(append(o.Attributes(), object.NewAttribute("empty", ""))...)
			vc24Sign(t, o, s.signer)
		}},
		{name: "ec-attrs-in-plain-object", shape: "plain", apply: func(t *rapid.T, s *vc24Subject, o *object.Object, _ *[]byte) {
			// a signed regular object that claims to be an EC part (with or without other attributes)
			as := []object.Attribute{object.NewAttribute(iec.AttributeRuleIdx, "0"), object.NewAttribute(iec.AttributePartIdx, "0")}
			if rapid.Bool().Draw(t, "keepAttrs") {
				as = append(o.Attributes(), as...)
			}
			o.SetAttributes(as...)
			vc24Sign(t, o, s.signer)
		}},
		{name: "parent-id-flip", shape: "child", apply: func(t *rapid.T, s *vc24Subject, o *object.Object, _ *[]byte) {
			par := *o.Parent()
			vc24FlipID(&par, t)
			if rapid.Bool().Draw(t, "parResign") {
				_ = par.Sign(s.owner)
			}
			o.SetParentID(par.GetID())
			o.SetParent(&par)
			vc24Sign(t, o, s.signer)
		}},
		{name: "parent-signature-flip", shape: "child", apply: func(t *rapid.T, s *vc24Subject, o *object.Object, _ *[]byte) {
			par := *o.Parent()
			sig := vc24FlipSig(par.Signature(), t)
			par.SetSignature(&sig)
			o.SetParent(&par)
			vc24Sign(t, o, s.signer)
		}},
		{name: "parent-foreign-signer", shape: "child", apply: func(t *rapid.T, s *vc24Subject, o *object.Object, _ *[]byte) {
			par := *o.Parent()
			_ = par.Sign(gensign.New(2, neofscrypto.ECDSA_DETERMINISTIC_SHA256))
			o.SetParent(&par)
			vc24Sign(t, o, s.signer)
		}},
		{name: "parent-bad-attribute", shape: "child", apply: func(t *rapid.T, s *vc24Subject, o *object.Object, _ *[]byte) {
			par := *o.Parent()
			par.SetAttributes(object.NewAttribute("a", "1"), object.NewAttribute("a", "2"))
			vc24Sign(t, &par, s.owner)
			o.SetParentID(par.GetID())
			o.SetParent(&par)
			vc24Sign(t, o, s.signer)
		}},
		{name: "parent-header-changed", shape: "child", apply: func(t *rapid.T, s *vc24Subject, o *object.Object, _ *[]byte) {
			par := *o.Parent()
			par.SetPayloadSize(par.PayloadSize() + 1) // ID and signature left as they were
			o.SetParent(&par)
			vc24Sign(t, o, s.signer)
		}},
	}
}

func vc24Applicable(ms []vc24Mutation, s *vc24Subject) []vc24Mutation {
	var res []vc24Mutation
	for _, m := range ms {
		if (m.auth == "" || m.auth == s.auth) && (m.shape == "" || m.shape == s.shape) {
			res = append(res, m)
		}
	}
	return res
}

// ---------------------------------------------------------------------------
// independent validity predicate for stored objects

func vc24SignerUser(sig *neofscrypto.Signature) (user.ID, error) {
	pub, err := keys.NewPublicKeyFromBytes(sig.PublicKeyBytes(), elliptic.P256())
	if err != nil {
		return user.ID{}, fmt.Errorf("signer key: %w", err)
	}
	return user.NewFromScriptHash(pub.GetScriptHash()), nil
}

func vc24CheckAttrs(o *object.Object) error {
	seen := map[string]bool{}
	for _, a := range o.Attributes() {
		if seen[a.Key()] {
			return fmt.Errorf("duplicate attribute %q", a.Key())
		}
		seen[a.Key()] = true
		if a.Value() == "" || a.Key() == "" {
			return fmt.Errorf("empty attribute %q", a.Key())
		}
		if strings.ContainsRune(a.Key(), 0) || strings.ContainsRune(a.Value(), 0) {
			return fmt.Errorf("zero byte in attribute %q", a.Key())
		}
	}
	return nil
}

// vc24CheckHeaderAuth checks ID == hash(header) and that the signature
// authenticates the owner or the session.
func vc24CheckHeaderAuth(o *object.Object) error {
	id, err := o.CalculateID()
	if err != nil {
		return err
	}
	if id != o.GetID() {
		return errors.New("ID does not match the header")
	}
	sig := o.Signature()
	if sig == nil {
		return errors.New("no signature")
	}
	if !o.VerifySignature() {
		return errors.New("signature does not verify")
	}
	su, err := vc24SignerUser(sig)
	if err != nil {
		return err
	}
	switch {
	case o.SessionToken() != nil && o.SessionTokenV2() != nil:
		return errors.New("both session tokens")
	case o.SessionToken() != nil:
		tok := o.SessionToken()
		if !tok.VerifySignature() {
			return errors.New("V1 token signature does not verify")
		}
		if tok.Issuer() != o.Owner() {
			return errors.New("V1 token issuer is not the owner")
		}
		if !tok.AssertAuthKey(sig.PublicKey()) {
			return errors.New("V1 token is for another key")
		}
	case o.SessionTokenV2() != nil:
		tok := o.SessionTokenV2()
		if !tok.VerifySignature() {
			return errors.New("V2 token signature does not verify")
		}
		if tok.OriginalIssuer() != o.Owner() {
			return errors.New("V2 token issuer is not the owner")
		}
		ok := false
		for _, sb := range tok.Subjects() {
			ok = ok || sb.UserID() == su
		}
		if !ok {
			return errors.New("V2 token is for another subject")
		}
	default:
		if su != o.Owner() {
			return errors.New("signer is not the owner")
		}
	}
	return nil
}

func vc24ECInfo(o *object.Object) (ri, pi int, isPart bool) {
	ri, pi = -1, -1
	for _, a := range o.Attributes() {
		switch a.Key() {
		case iec.AttributeRuleIdx:
			ri, _ = strconv.Atoi(a.Value())
			isPart = true
		case iec.AttributePartIdx:
			pi, _ = strconv.Atoi(a.Value())
			isPart = true
		}
	}
	return
}

func vc24CheckStored(o *object.Object, rules []iec.Rule) error {
	if uint64(len(o.Payload())) != o.PayloadSize() {
		return fmt.Errorf("payload len %d != declared %d", len(o.Payload()), o.PayloadSize())
	}
	cs, ok := o.PayloadChecksum()
	if !ok {
		return errors.New("no checksum")
	}
	if h := sha256.Sum256(o.Payload()); cs.Type() != checksum.SHA256 || !bytes.Equal(h[:], cs.Value()) {
		return errors.New("payload checksum mismatch")
	}
	if err := vc24CheckAttrs(o); err != nil {
		return err
	}
	if o.Owner().IsZero() || o.GetContainerID().IsZero() {
		return errors.New("no owner/container")
	}
	ri, pi, isPart := vc24ECInfo(o)
	if !isPart {
		if err := vc24CheckHeaderAuth(o); err != nil {
			return err
		}
		if par := o.Parent(); par != nil && !par.GetID().IsZero() {
			if err := vc24CheckAttrs(par); err != nil {
				return fmt.Errorf("parent: %w", err)
			}
			if err := vc24CheckHeaderAuth(par); err != nil {
				return fmt.Errorf("parent: %w", err)
			}
			if o.GetParentID() != par.GetID() {
				return errors.New("parent ID field differs from the parent header")
			}
		}
		return nil
	}
	// EC part
	if len(rules) == 0 {
		return errors.New("EC part in a container without EC rules")
	}
	id, err := o.CalculateID()
	if err != nil || id != o.GetID() {
		return errors.New("EC part ID does not match the header")
	}
	if o.Signature() != nil {
		return errors.New("signed EC part")
	}
	if ri < 0 || ri >= len(rules) || pi < 0 || pi >= int(rules[ri].DataPartNum+rules[ri].ParityPartNum) {
		return fmt.Errorf("EC indexes %d/%d out of policy", ri, pi)
	}
	par := o.Parent()
	if par == nil {
		return errors.New("EC part without parent header")
	}
	if err := vc24CheckAttrs(par); err != nil {
		return fmt.Errorf("EC parent: %w", err)
	}
	if err := vc24CheckHeaderAuth(par); err != nil {
		return fmt.Errorf("EC parent: %w", err)
	}
	d := uint64(rules[ri].DataPartNum)
	if want := (par.PayloadSize() + d - 1) / d; want != o.PayloadSize() {
		return fmt.Errorf("EC part len %d, want %d", o.PayloadSize(), want)
	}
	var hashes string
	for _, a := range par.Attributes() {
		if a.Key() == iec.AttributePartsHashes {
			hashes = a.Value()
		}
	}
	all := strings.Split(hashes, ",")
	idx := pi
	for i := 0; i < ri; i++ {
		idx += int(rules[i].DataPartNum + rules[i].ParityPartNum)
	}
	if idx >= len(all) || all[idx] != hex.EncodeToString(cs.Value()) {
		return errors.New("EC part checksum is not the one promised by the parent header")
	}
	return nil
}

// ---------------------------------------------------------------------------
// streaming

func vc24Chunks(t *rapid.T, p []byte) [][]byte {
	var res [][]byte
	for len(p) > 0 {
		var n int
		switch rapid.IntRange(0, 5).Draw(t, "chunkKind") {
		case 0:
			n = 0
		case 1:
			n = 1
		case 2:
			n = len(p)
		default:
			n = rapid.IntRange(1, len(p)).Draw(t, "chunkLen")
		}
		res = append(res, p[:n])
		p = p[n:]
	}
	if rapid.IntRange(0, 3).Draw(t, "tailEmpty") == 0 {
		res = append(res, nil)
	}
	return res
}

func vc24Stream(svc *Service, hdr *object.Object, chunks [][]byte, st *session.Object, st2 *sessionv2.Token) (oid.ID, error) {
	stream, err := svc.Put(context.Background())
	if err != nil {
		return oid.ID{}, err
	}
	cp := objutil.CommonPrmFromRequest(2, nil, common.RequestTokens{Session: st2, SessionV1: st})
	if err = stream.Init(new(PutInitPrm).WithObject(hdr).WithCommonPrm(cp)); err != nil {
		return oid.ID{}, fmt.Errorf("init: %w", err)
	}
	for _, c := range chunks {
		if err = stream.SendChunk(new(PutChunkPrm).WithChunk(c)); err != nil {
			return oid.ID{}, fmt.Errorf("chunk: %w", err)
		}
	}
	id, err := stream.Close()
	if err != nil {
		return oid.ID{}, fmt.Errorf("close: %w", err)
	}
	return id, nil
}

// ---------------------------------------------------------------------------
// client-signed objects: Streamer and replication

func TestVerifC24Signed(t *testing.T) {
	rec := ev.New("C24", "signed")
	defer rec.Flush()
	cl := vc24NewCluster(t, "rep", nil)
	muts := vc24Mutations()
	rapid.Check(t, func(rt *rapid.T) {
		defer cl.c.resetAllStoredObjects()
		var m *vc24Mutation
		wantAuth, wantShape := "", ""
		if rapid.IntRange(0, 4).Draw(rt, "mutate") != 0 {
			m = &muts[vc24Uniform(rt, "mutation", len(muts))]
			wantAuth, wantShape = m.auth, m.shape
		}
		s := vc24Subject_(t, rt, maxObjectSize, true, wantAuth, wantShape)
		sent := s.obj
		stream := s.payload
		mut := "none"
		if m != nil {
			mut = m.name
			var cp object.Object
			s.obj.CopyTo(&cp)
			sent = cp
			m.apply(rt, s, &sent, &stream)
		}
		path := rapid.SampledFrom([]string{"stream", "stream", "replicate"}).Draw(rt, "path")
		through := rapid.IntRange(0, len(cl.c.nodeServices)-1).Draw(rt, "through")
		if path == "replicate" {
			through = rapid.IntRange(0, cl.cnrNodes-1).Draw(rt, "throughCnr")
		}
		svc := cl.c.nodeServices[through]

		var err error
		nChunks := 0
		if path == "stream" {
			chunks := vc24Chunks(rt, stream)
			nChunks = len(chunks)
			_, err = vc24Stream(svc, sent.CutPayload(), chunks, nil, nil)
		} else {
			var cp object.Object
			sent.CopyTo(&cp)
			cp.SetPayload(stream)
			err = svc.ValidateAndStoreObjectLocally(context.Background(), cp)
		}

		role := "container-node"
		if through >= cl.cnrNodes {
			role = "outsider"
		}
		rec.Case(mut != "none" || nChunks > 1, fmt.Sprintf("%s|%s|%s|%s|%d|%d|%s", mut, s.auth, s.shape, path, len(s.payload), nChunks, role),
			"mut:"+mut, "auth:"+s.auth, "shape:"+s.shape, "path:"+path, "role:"+role)
		if rec.WantSample() && mut != "none" {
			rec.Sample(map[string]any{"mutation": mut, "auth": s.auth, "shape": s.shape, "path": path, "len": len(s.payload), "through": through})
		}

		stored := cl.stored()
		if mut != "none" {
			if err == nil {
				rt.Fatalf("C24 violation: %s object (auth=%s shape=%s, %s via node %d) was accepted", mut, s.auth, s.shape, path, through)
			}
			if len(stored) != 0 {
				rt.Fatalf("C24 violation: %s object rejected (%v) but %d object(s) were stored", mut, err, len(stored))
			}
			return
		}
		if err != nil {
			rt.Fatalf("valid object (auth=%s shape=%s len=%d, %s via node %d) rejected: %v", s.auth, s.shape, len(s.payload), path, through, err)
		}
		if len(stored) == 0 {
			rt.Fatalf("valid object accepted but nothing stored")
		}
		want := s.obj.Marshal()
		for i := range stored {
			if e := vc24CheckStored(&stored[i], nil); e != nil {
				rt.Fatalf("C24 violation: stored object is not self-consistent: %v", e)
			}
			if !bytes.Equal(stored[i].Marshal(), want) {
				rt.Fatalf("C24 violation: stored object differs from the uploaded one")
			}
		}
	})
}

//go:build verif

package putsvc

// C22 (put side): every place of the put service that orders the nodes of an EC
// rule for one part must use the part's node sequence - the same order the GET
// service, the policer and the evacuation use, so that a part is placed where
// it is later looked up:
//
//   - ecNodesForPart            (post-placement replication of a client-sealed
//                                part and of parts of rules not applied initially)
//   - distributeECPart          (regular placement: order of the nodes tried)
//   - replicateRemainingECRules (node list handed to the post-placement replicator)
//
// Oracles, for generated (data, parity) rules, node lists shorter / equal /
// longer than the part count (CBF > 1) and every part index:
//  1. an independent reference of the documented sequence written from the doc
//     comment of iec.NodeSequenceForPart and the property statement (a sorted
//     order of all node indexes in which part i starts at node i; built by
//     sorting with a key, it does not call the function);
//  2. the expression GET / policer / evacuation use:
//     nodeList[i] for i in iec.NodeSequenceForPart(partIdx, total, len(nodeList)).

import (
	"bytes"
	"crypto/ecdsa"
	"crypto/elliptic"
	"encoding/binary"
	"errors"
	"fmt"
	"math/big"
	"slices"
	"sort"
	"sync"
	"testing"

	iec "github.com/nspcc-dev/neofs-node/internal/ec"
	"github.com/nspcc-dev/neofs-node/verifharness/ev"
	cid "github.com/nspcc-dev/neofs-sdk-go/container/id"
	neofscrypto "github.com/nspcc-dev/neofs-sdk-go/crypto"
	"github.com/nspcc-dev/neofs-sdk-go/netmap"
	"github.com/nspcc-dev/neofs-sdk-go/object"
	oid "github.com/nspcc-dev/neofs-sdk-go/object/id"
	"github.com/nspcc-dev/neofs-sdk-go/user"
	"github.com/nspcc-dev/neofs-sdk-go/version"
	"go.uber.org/zap"
	"pgregory.net/rapid"
)

// vc22RefSeq is the reference order of node indexes for part partIdx: nodes are
// grouped by the part they are "native" for (index mod total); the groups are
// visited starting with the part's own group, then the following parts'
// groups cyclically; inside a group by ascending index. Hence the sequence is
// partIdx, partIdx+total, partIdx+2*total, ..., then partIdx+1, partIdx+1+total, ...
func vc22RefSeq(partIdx, total, nodes int) []int {
	res := make([]int, nodes)
	for i := range res {
		res[i] = i
	}
	key := func(i int) [2]int {
		return [2]int{((i%total)-partIdx + total) % total, i / total}
	}
	sort.SliceStable(res, func(a, b int) bool {
		ka, kb := key(res[a]), key(res[b])
		if ka[0] != kb[0] {
			return ka[0] < kb[0]
		}
		return ka[1] < kb[1]
	})
	return res
}

func vc22Nodes(n int, tag byte) []netmap.NodeInfo {
	res := make([]netmap.NodeInfo, n)
	for i := range res {
		k := make([]byte, 33)
		k[0] = 2
		k[1] = tag
		binary.BigEndian.PutUint32(k[29:], uint32(i))
		res[i].SetPublicKey(k)
	}
	return res
}

// index of the node inside the list built by vc22Nodes (-1 if foreign).
func vc22Idx(n netmap.NodeInfo, tag byte) int {
	k := n.PublicKey()
	if len(k) != 33 || k[0] != 2 || k[1] != tag {
		return -1
	}
	return int(binary.BigEndian.Uint32(k[29:]))
}

func vc22Idxs(nn []netmap.NodeInfo, tag byte) []int {
	res := make([]int, len(nn))
	for i := range nn {
		res[i] = vc22Idx(nn[i], tag)
	}
	return res
}

type vc22Net struct{}

func (vc22Net) GetContainerNodes(cid.ID) (ContainerNodes, error) { return nil, errors.New("unused") }
func (vc22Net) IsLocalNodePublicKey([]byte) bool                   { return false }
func (vc22Net) GetEpochBlock(uint64) (uint32, error)               { return 0, errors.New("unused") }
func (vc22Net) GetEpochBlockByTime(uint32) (uint32, error)         { return 0, errors.New("unused") }

type vc22CnrNodes struct{ reps int }

func (x vc22CnrNodes) Unsorted() [][]netmap.NodeInfo                   { return nil }
func (x vc22CnrNodes) SortForObject(oid.ID) ([][]netmap.NodeInfo, error) { return nil, errors.New("unused") }
func (x vc22CnrNodes) PrimaryCounts() []uint                           { return make([]uint, x.reps) }
func (x vc22CnrNodes) ECRules() []iec.Rule                             { return nil }

type vc22Captured struct {
	ruleIdx, partIdx int
	nodes            []netmap.NodeInfo
}

type vc22Replicator struct {
	mu  sync.Mutex
	got []vc22Captured
	err string
}

func (r *vc22Replicator) HandlePostPlacement(obj *object.Object, nodes []netmap.NodeInfo) {
	r.mu.Lock()
	defer r.mu.Unlock()
	pi, err := iec.GetPartInfo(*obj)
	if err != nil {
		r.err = fmt.Sprintf("part info of a post-placement object: %v", err)
		return
	}
	r.got = append(r.got, vc22Captured{pi.RuleIndex, pi.Index, slices.Clone(nodes)})
}

func vc22Label(nodes, total int) []string {
	switch {
	case nodes < total:
		return []string{"nodes!=parts", "nodes<parts"}
	case nodes > total:
		l := []string{"nodes!=parts", "nodes>parts"}
		if nodes%total != 0 {
			l = append(l, "nodes>parts,ragged")
		}
		return l
	}
	return []string{"nodes==parts"}
}

type vc22Rule struct {
	d, p  int
	nodes int
}

func (r vc22Rule) total() int { return r.d + r.p }

func vc22RuleGen(t *rapid.T, lbl string) vc22Rule {
	r := vc22Rule{d: rapid.IntRange(1, 8).Draw(t, lbl+"d"), p: rapid.IntRange(0, 4).Draw(t, lbl+"p")}
	total := r.total()
	switch rapid.IntRange(0, 5).Draw(t, lbl+"nodesKind") {
	case 0: // fewer nodes than parts (reduced network map)
		r.nodes = rapid.IntRange(0, total-1).Draw(t, lbl+"fewer")
	case 1: // exactly one node per part
		r.nodes = total
	case 2: // CBF 2..4
		r.nodes = total * rapid.IntRange(2, 4).Draw(t, lbl+"cbf")
	case 3: // CBF > 1 but the network map ran short: ragged
		r.nodes = total*rapid.IntRange(1, 3).Draw(t, lbl+"cbfR") + rapid.IntRange(1, total).Draw(t, lbl+"extra")
	default:
		r.nodes = rapid.IntRange(0, 4*total+2).Draw(t, lbl+"any")
	}
	return r
}

// the order GET / policer / evacuation use
func vc22LookupOrder(partIdx, total, nodes int) []int {
	return slices.Collect(iec.NodeSequenceForPart(partIdx, total, nodes))
}

func TestVerifC22PutNodeOrder(t *testing.T) {
	rec := ev.New("C22", "put-node-order")
	defer rec.Flush()

	// fixed key (identity only, no randomness outside rapid)
	key := &ecdsa.PrivateKey{D: big.NewInt(0x5eedc22)}
	key.Curve = elliptic.P256()
	key.X, key.Y = key.Curve.ScalarBaseMult(key.D.Bytes())
	var signer neofscrypto.Signer = user.NewAutoIDSigner(*key)
	owner := user.NewFromECDSAPublicKey(key.PublicKey)

	rapid.Check(t, func(t *rapid.T) {
		r := vc22RuleGen(t, "")
		total, nodes := r.total(), r.nodes
		const tag = 0x11
		nodeList := vc22Nodes(nodes, tag)
		labels := vc22Label(nodes, total)
		fp := fmt.Sprintf("%d/%d over %d", r.d, r.p, nodes)
		defer func() { rec.Case(nodes != total && nodes >= 2 && total >= 2, fp, labels...) }()
		if rec.WantSample() && nodes > total && nodes%total != 0 && total >= 3 {
			rec.Sample(map[string]any{"rule": fmt.Sprintf("%d/%d", r.d, r.p), "nodes": nodes, "part": total - 1, "order": vc22RefSeq(total-1, total, nodes)})
		}

		for partIdx := range total {
			ref := vc22RefSeq(partIdx, total, nodes)
			if lookup := vc22LookupOrder(partIdx, total, nodes); !slices.Equal(lookup, ref) {
				t.Fatalf("rule %d/%d, %d nodes, part %d: GET/policer order %v differs from the reference sequence %v", r.d, r.p, nodes, partIdx, lookup, ref)
			}

			// 1. ecNodesForPart
			got := vc22Idxs(ecNodesForPart(nodeList, partIdx, total), tag)
			if !slices.Equal(got, ref) {
				t.Fatalf("rule %d/%d, %d nodes, part %d: ecNodesForPart (post-placement replication order) = %v, the part's node sequence used by GET/policer is %v",
					r.d, r.p, nodes, partIdx, got, ref)
			}
		}

		// 2. distributeECPart: order of the nodes tried when the first k fail
		if nodes > 0 {
			partIdx := rapid.IntRange(0, total-1).Draw(t, "partIdx")
			failFirst := rapid.IntRange(0, nodes).Draw(t, "failFirst")
			if rapid.Bool().Draw(t, "failAll") {
				failFirst = nodes
			}
			ref := vc22RefSeq(partIdx, total, nodes)
			fp += fmt.Sprintf("|part %d fail %d", partIdx, failFirst)
			var tried []int
			tgt := &distributedTarget{
				placementIterator: placementIterator{log: zap.NewNop(), neoFSNet: vc22Net{}},
				containerNodes:    vc22CnrNodes{reps: rapid.IntRange(0, 2).Draw(t, "repRules")},
				relay: func(n nodeDesc) error {
					tried = append(tried, vc22Idx(n.info, tag))
					if len(tried) <= failFirst {
						return errors.New("verif: node unavailable")
					}
					return nil
				},
			}
			var part object.Object
			err := tgt.distributeECPart(nil, part, encodedObject{}, rapid.IntRange(0, 2).Draw(t, "ruleIdx"), partIdx, total, nodeList)
			want := ref[:min(failFirst+1, nodes)]
			if !slices.Equal(tried, want) {
				t.Fatalf("rule %d/%d, %d nodes, part %d, first %d nodes failing: distributeECPart tried nodes %v, the part's node sequence is %v (expected attempts %v)",
					r.d, r.p, nodes, partIdx, failFirst, tried, ref, want)
			}
			if (failFirst >= nodes) != (err != nil) {
				t.Fatalf("rule %d/%d, %d nodes, part %d, first %d nodes failing: distributeECPart error = %v", r.d, r.p, nodes, partIdx, failFirst, err)
			}
			rec.Label("distributeECPart-driven")
		}

		// 3. replicateRemainingECRules: 1-3 rules with their own node lists, some already applied
		nRules := rapid.IntRange(1, 3).Draw(t, "nRules")
		rules := make([]vc22Rule, nRules)
		ecRules := make([]iec.Rule, nRules)
		lists := make([][]netmap.NodeInfo, nRules)
		applied := make([]bool, nRules)
		encoded := make([][][]byte, nRules)
		payload := []byte("verif C22 payload: the node order does not depend on it")
		for i := range rules {
			if i == 0 {
				rules[i] = r
			} else {
				rules[i] = vc22RuleGen(t, fmt.Sprintf("r%d.", i))
			}
			ecRules[i] = iec.Rule{DataPartNum: uint8(rules[i].d), ParityPartNum: uint8(rules[i].p)}
			lists[i] = vc22Nodes(rules[i].nodes, byte(0x20+i))
			applied[i] = i > 0 && rapid.IntRange(0, 3).Draw(t, "applied") == 0
			parts, _, err := iec.Encode(ecRules[i], bytes.Clone(payload))
			if err != nil {
				t.Fatalf("encode: %v", err)
			}
			encoded[i] = parts
			fp += fmt.Sprintf("|#%d %d/%d over %d applied=%v", i, rules[i].d, rules[i].p, rules[i].nodes, applied[i])
		}
		var parent object.Object
		ver := version.Current()
		parent.SetVersion(&ver)
		parent.SetContainerID(cid.ID{1})
		parent.SetOwner(owner)
		parent.SetPayloadSize(uint64(len(payload)))
		parent.SetID(oid.ID{2})
		repl := &vc22Replicator{}
		tgt := &distributedTarget{
			placementIterator:       placementIterator{log: zap.NewNop(), neoFSNet: vc22Net{}},
			sessionSigner:           signer,
			encodedECParts:          encoded,
			postPlacementReplicator: repl,
		}
		tgt.replicateRemainingECRules(parent, ecRules, lists, applied)
		if repl.err != "" {
			t.Fatalf("%s", repl.err)
		}
		seen := map[[2]int]bool{}
		for _, c := range repl.got {
			if c.ruleIdx < 0 || c.ruleIdx >= nRules || applied[c.ruleIdx] {
				t.Fatalf("post-placement replication of part %d of rule #%d which is out of range or already applied (applied %v)", c.partIdx, c.ruleIdx, applied)
			}
			rr := rules[c.ruleIdx]
			if c.partIdx < 0 || c.partIdx >= rr.total() || seen[[2]int{c.ruleIdx, c.partIdx}] {
				t.Fatalf("post-placement replication: unexpected or repeated part %d of rule #%d (%d/%d)", c.partIdx, c.ruleIdx, rr.d, rr.p)
			}
			seen[[2]int{c.ruleIdx, c.partIdx}] = true
			got := vc22Idxs(c.nodes, byte(0x20+c.ruleIdx))
			ref := vc22RefSeq(c.partIdx, rr.total(), rr.nodes)
			if !slices.Equal(got, ref) {
				t.Fatalf("rule #%d %d/%d over %d nodes, part %d: nodes handed to the post-placement replicator %v (-1 = node of another rule's list), the part's node sequence used by GET/policer is %v",
					c.ruleIdx, rr.d, rr.p, rr.nodes, c.partIdx, got, ref)
			}
		}
		for i, rr := range rules {
			if applied[i] || rr.nodes == 0 {
				continue
			}
			for partIdx := range rr.total() {
				if !seen[[2]int{i, partIdx}] {
					t.Fatalf("rule #%d %d/%d over %d nodes was not applied initially, but part %d was not handed to the post-placement replicator", i, rr.d, rr.p, rr.nodes, partIdx)
				}
			}
			rec.Label("post-placement-rule-driven")
			if rr.nodes != rr.total() {
				rec.Label("post-placement-rule-driven:nodes!=parts")
			}
		}
	})
}

//go:build verif

package meta

import "github.com/nspcc-dev/bbolt"

// VerifC15CopyFile writes a consistent copy of the committed state of the
// bbolt file to path (read transaction + Tx.CopyFile). This is what a process
// crash at this instant leaves behind: everything committed so far, nothing
// of a write transaction that may be in flight on another goroutine.
func (db *DB) VerifC15CopyFile(path string) error {
	return db.boltDB.View(func(tx *bbolt.Tx) error {
		return tx.CopyFile(path, 0o600)
	})
}

//go:build verif

package fstree

import (
	"fmt"
	"path/filepath"

	"github.com/nspcc-dev/neofs-node/pkg/local_object_storage/blobstor/common"
	"github.com/nspcc-dev/neofs-node/pkg/util"
	oid "github.com/nspcc-dev/neofs-sdk-go/object/id"
)

// This file only ADDS exported shims for the /verif checks C10, C12, C13
// (compiled with -tags verif through the build overlay, never part of /repo).

// VerifUseGenericWriter replaces the writer chosen by Init with the portable
// generic one (temp file "p#i" + rename), exactly as New() constructs it. On
// Linux Init always prefers the O_TMPFILE writer, so the generic writer is
// otherwise unreachable through the public API of an initialised tree.
func (t *FSTree) VerifUseGenericWriter() {
	t.writer = newGenericWriter(t.Permissions, t.noSync)
}

// VerifWriterKind reports which writer is installed: "linux" or "generic".
func (t *FSTree) VerifWriterKind() string {
	if _, ok := t.writer.(*genericWriter); ok {
		return "generic"
	}
	return "linux"
}

// VerifPutBatchOrdered is PutBatch with a caller-defined member order.
// PutBatch takes a map, so the layout of the combined file depends on Go's
// randomised map iteration; tests that aim members at buffer boundaries and
// crash/fault enumerations that need reproducible syscall sequences use this
// ordered twin. The body mirrors PutBatch statement by statement.
func (t *FSTree) VerifPutBatchOrdered(addrs []oid.Address, datas [][]byte) error {
	if t.readOnly {
		return common.ErrReadOnly
	}

	writeDataUnits := make([]writeDataUnit, 0, len(addrs))
	for i, addr := range addrs {
		data := datas[i]
		if len(data) == 0 {
			continue
		}
		p := t.treePath(addr)
		if err := util.MkdirAllX(filepath.Dir(p), t.Permissions); err != nil {
			return fmt.Errorf("mkdirall for %q: %w", p, err)
		}
		writeDataUnits = append(writeDataUnits, writeDataUnit{
			id:   addr.Object(),
			path: p,
			data: data,
		})
	}

	err := t.writer.writeBatch(writeDataUnits)
	if err != nil {
		return fmt.Errorf("cannot write batch: %w", err)
	}

	return nil
}

//go:build verif

package engine

import (
	"github.com/nspcc-dev/neofs-node/pkg/local_object_storage/shard"
)

// Exported shims for the /verif harness; they only ADD read access to the
// engine's shards so that GC passes / epoch events can be driven per shard.

// VerifShards returns the engine's shards keyed by their string ID.
func (e *StorageEngine) VerifShards() map[string]*shard.Shard {
	e.mtx.RLock()
	defer e.mtx.RUnlock()
	res := make(map[string]*shard.Shard, len(e.shards))
	for id, sh := range e.shards {
		res[id] = sh.Shard
	}
	return res
}

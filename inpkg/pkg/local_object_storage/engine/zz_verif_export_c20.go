//go:build verif

package engine

// VerifRemoveShards detaches the shards with the given string IDs at runtime
// and closes them – exactly what Reload does for shards that disappeared from
// the configuration (it calls the same unexported removeShards).
func (e *StorageEngine) VerifRemoveShards(ids ...string) { e.removeShards(ids...) }

//go:build verif

package shard

// VerifWrapExpiredCallback replaces the shard's expired-objects callback by
// wrap(original). The C07 engine unit uses it to run a step (e.g. a concurrent
// client's Put of a LOCK) exactly between the shard's collection of expired
// addresses and the engine's handling of that list – a window that exists in
// production between two statements of the GC goroutine. Additive shim.
func (s *Shard) VerifWrapExpiredCallback(wrap func(orig ExpiredObjectsCallback) ExpiredObjectsCallback) {
	s.expiredObjectsCallback = wrap(s.expiredObjectsCallback)
}

//go:build verif

package shard

import (
	meta "github.com/nspcc-dev/neofs-node/pkg/local_object_storage/metabase"
	oid "github.com/nspcc-dev/neofs-sdk-go/object/id"
)

// VerifGetGarbage exposes the metabase's GetGarbage (what a GC pass would
// fetch) for failure diagnostics of the C44 check.
func (s *Shard) VerifGetGarbage(limit int) ([]meta.TrashBin, error) { return s.metaBase.GetGarbage(limit) }

// VerifMetaStatus exposes the raw metabase ObjectStatus (diagnostics only).
func (s *Shard) VerifMetaStatus(a oid.Address) (meta.ObjectStatus, error) {
	return s.metaBase.ObjectStatus(a)
}

//go:build verif

package shard

// Exported shims for the /verif harness. They only ADD entry points around
// unexported functions so that GC passes and epoch events can be driven
// synchronously (no background timing involved). Nothing here changes
// behaviour of existing code.

// VerifGCPass runs exactly one garbage-collection pass (the body of the
// remover ticker) synchronously.
func (s *Shard) VerifGCPass() { s.removeGarbage() }

// VerifNewEpoch handles a new-epoch event synchronously, exactly as the event
// listener goroutine would after receiving EventNewEpoch(e).
func (s *Shard) VerifNewEpoch(e uint64) { s.setEpochEventHandler(EventNewEpoch(e)) }

// VerifGCEpochs returns (current, processed) epochs of the GC state.
func (s *Shard) VerifGCEpochs() (uint64, uint64) {
	return s.gc.currentEpoch.Load(), s.gc.processedEpoch.Load()
}

//go:build verif

package shard

import (
	meta "github.com/nspcc-dev/neofs-node/pkg/local_object_storage/metabase"
	"github.com/nspcc-dev/neofs-node/pkg/local_object_storage/writecache"
)

// Additive shims for the C09/C15 crash-snapshot rig (/verif/harness/c15/crashrig).

// VerifWrapWriteCache replaces the shard's write-cache by wrap(current) so
// that the harness can observe the component-step boundaries of Shard.Put /
// deleteObjs / MarkGarbage (the calls the shard itself makes into the cache).
// Must be called while no operation is running (right after Open/Init). No-op
// for a shard without write-cache.
func (s *Shard) VerifWrapWriteCache(wrap func(writecache.Cache) writecache.Cache) {
	if s.writeCache != nil {
		s.writeCache = wrap(s.writeCache)
	}
}

// VerifMetabase returns the shard's metabase (for a consistent copy of the
// bbolt file, see (*meta.DB).VerifC15CopyFile).
func (s *Shard) VerifMetabase() *meta.DB { return s.metaBase }

package zzrepro

import (
	"bytes"
	"io"
	"testing"

	"github.com/nspcc-dev/neofs-node/pkg/local_object_storage/blobstor/common"
	"github.com/nspcc-dev/neofs-node/pkg/local_object_storage/blobstor/fstree"
	"github.com/nspcc-dev/neofs-node/verifharness/fsobj"
	oid "github.com/nspcc-dev/neofs-sdk-go/object/id"
)

func tree(t *testing.T) *fstree.FSTree {
	tr := fstree.New(fstree.WithPath(t.TempDir()), fstree.WithDepth(1))
	if err := tr.Open(false); err != nil { t.Fatal(err) }
	if err := tr.Init(common.ID{}); err != nil { t.Fatal(err) }
	return tr
}

// A: combined member of exactly 20480 bytes followed by another member
func TestForeignTail(t *testing.T) {
	tr := tree(t)
	a := fsobj.Make(fsobj.Spec{Idx: 1, Seed: 1, Payload: 1})
	for p := 20000; len(a.Plain) != 20480; p += 20480 - len(a.Plain) {
		a = fsobj.Make(fsobj.Spec{Idx: 1, Seed: 1, Payload: p})
	}
	b := fsobj.Make(fsobj.Spec{Idx: 2, Seed: 1, Payload: 100})
	if err := tr.VerifPutBatchOrdered([]oid.Address{a.Addr, b.Addr}, [][]byte{a.Plain, b.Plain}); err != nil { t.Fatal(err) }
	_, rd, err := tr.GetStream(a.Addr)
	if err != nil { t.Fatal(err) }
	pl, err := io.ReadAll(rd)
	t.Logf("GetStream payload: got %d bytes (err %v), stored payload %d bytes, object %d bytes; extra tail = prefix+object b: %v",
		len(pl), err, len(a.Object.Payload()), len(a.Plain), bytes.HasSuffix(pl, b.Plain))
	buf := make([]byte, 40960)
	n, rd2, err := tr.ReadObject(a.Addr, buf)
	rest, _ := io.ReadAll(rd2)
	t.Logf("ReadObject: n=%d rest=%d err=%v (object is %d bytes)", n, len(rest), err, len(a.Plain))
}

// B: legacy compressed small file, big decompressed form
func TestEarlyEOF(t *testing.T) {
	tr := tree(t)
	a := fsobj.Make(fsobj.Spec{Idx: 1, Seed: 1, Payload: 100000, Repetitive: true, Compress: true})
	if err := tr.Put(a.Addr, a.Stored); err != nil { t.Fatal(err) }
	buf := make([]byte, 40960)
	n, rd, err := tr.ReadObject(a.Addr, buf)
	if err != nil { t.Fatal(err) }
	rest, err := io.ReadAll(rd)
	t.Logf("stored %d bytes (zstd), object %d bytes; ReadObject: buffered %d + streamed %d = %d, err=%v", len(a.Stored), len(a.Plain), n, len(rest), n+len(rest), err)
	n2, err := io.Copy(io.Discard, func() io.Reader { _, r, _ := tr.ReadObject(a.Addr, buf); return struct{ io.Reader }{r} }())
	t.Logf("io.Copy (32 KiB chunks) streamed %d, err=%v", n2, err)
	// incompressible object just below 20 KiB whose zstd frame is >= 20 KiB
	c := fsobj.Make(fsobj.Spec{Idx: 3, Seed: 1, Payload: 20340, Compress: true})
	if err := tr.Put(c.Addr, c.Stored); err != nil { t.Fatal(err) }
	_, rd3, err := tr.GetStream(c.Addr)
	if err != nil { t.Fatal(err) }
	pl, err := io.ReadAll(rd3)
	t.Logf("object %d bytes stored as %d zstd bytes: GetStream payload %d of %d bytes, err=%v", len(c.Plain), len(c.Stored), len(pl), len(c.Object.Payload()), err)
}

package c32

import (
	"testing"
	"time"
)

func TestTmpTiming(t *testing.T) {
	t0 := time.Now()
	f := newStorageFix(true)
	t.Logf("newStorageFix: %v", time.Since(t0))
	t0 = time.Now()
	for range 20 {
		f.engineState()
	}
	t.Logf("engineState x20: %v", time.Since(t0))
	t0 = time.Now()
	f.close()
	t.Logf("close: %v", time.Since(t0))
	t0 = time.Now()
	for range 5 {
		f = newStorageFix(true)
		f.close()
	}
	t.Logf("new+close x5: %v", time.Since(t0))
}

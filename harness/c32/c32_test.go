package c32

import (
	"bytes"
	"fmt"
	"strings"
	"testing"

	"github.com/nspcc-dev/neofs-node/verifharness/ev"
	neofsecdsa "github.com/nspcc-dev/neofs-sdk-go/crypto/ecdsa"
	"google.golang.org/grpc/codes"
	"google.golang.org/protobuf/proto"
	"google.golang.org/protobuf/reflect/protoreflect"
	"pgregory.net/rapid"
)

// ---------------------------------------------------------------- targets

// target is a control server under test together with everything observable
// about its dependencies.
type target interface {
	world
	server() any
	observe() string   // full observable state (engine, files, dependency call count)
	invalidate()       // the server is about to be called: forget cached observations
	effects() *callLog // calls received by the recording dependencies
	allowed() [][]byte // keys authorised by configuration
}

func (f *storageFix) server() any       { return f.srv }
func (f *storageFix) effects() *callLog { return &f.fakes.log }
func (f *storageFix) allowed() [][]byte { return storageAllowed() }
func (f *storageFix) observe() string {
	return fmt.Sprintf("%s\ncalls=%d", f.cachedEngineState(), f.fakes.log.n())
}
func (f *storageFix) invalidate() { f.cacheValid = false }
func (f *storageFix) cachedEngineState() string {
	if !f.cacheValid {
		f.cache, f.cacheValid = f.engineState(), true
	}
	return f.cache
}

// ---------------------------------------------------------------- tamper modes

type tamper int

const (
	mCorrect     tamper = iota // signed by a configured key with the service's SignMessage
	mNoSig                     // no signature field
	mEmptySig                  // signature field present but empty
	mWrongKey                  // properly signed by a key that is not configured
	mSpoofKey                  // signed by a stranger, key field names a configured key
	mBodyChanged               // signed by a configured key, then a body field changed
	mReplay                    // configured key, valid signature of OTHER bytes (e.g. captured from another request)
	mSigFlip                   // configured key, one bit of the signature flipped
	mSigLen                    // configured key, signature truncated / extended / emptied
	mKeyFlip                   // one bit of the key field flipped
	mOwnKey                    // signed by the server's own key (configured on IR by construction, not on our storage node)
	nModes
)

var modeNames = [...]string{"correct", "no-signature", "empty-signature", "wrong-key", "spoofed-key", "body-changed",
	"replayed-signature", "signature-bit-flip", "signature-length", "key-bit-flip", "server-own-key"}

func (m tamper) String() string { return modeNames[m] }

type tcase struct {
	Method string
	Mode   tamper
	Spec   bodySpec
	Signer int // which configured administrator signs
	Pick   int // selects the field / variant to tamper with
	Pos    int // selects the bit / byte to tamper with
}

func (c tcase) String() string {
	return fmt.Sprintf("%s mode=%s signer=%d pick=%d pos=%d body=%s", c.Method, c.Mode, c.Signer, c.Pick, c.Pos, c.Spec)
}

func genCase(svc *service) *rapid.Generator[tcase] {
	return rapid.Custom(func(t *rapid.T) tcase {
		mi := rapid.IntRange(0, len(svc.methods)-1).Draw(t, "method")
		m := &svc.methods[mi]
		_, bodyFd, _ := m.newRequest()
		return tcase{
			Method: m.name,
			Mode:   tamper(rapid.IntRange(0, int(nModes)-1).Draw(t, "mode")),
			Spec:   genBody(bodyFd).Draw(t, "body"),
			Signer: rapid.IntRange(0, 1).Draw(t, "signer"),
			Pick:   rapid.IntRange(0, 11).Draw(t, "pick"),
			Pos:    rapid.IntRange(0, 1023).Draw(t, "pos"),
		}
	})
}

func (s *service) method(name string) *method {
	for i := range s.methods {
		if s.methods[i].name == name {
			return &s.methods[i]
		}
	}
	ev.Inconclusive("C32: method %s vanished", name)
	return nil
}

// build makes the request of case c against target w with tamper mode.
func (s *service) build(w target, c tcase, mode tamper) (proto.Message, protoreflect.FieldDescriptor, string) {
	m := s.method(c.Method)
	req, bodyFd, sigFd := m.newRequest()
	materialise(w, req, bodyFd, c.Spec)
	admin := keyAdminA
	if c.Signer == 1 {
		admin = keyAdminB
	}
	note := ""
	mustSign := func(err error) {
		if err != nil {
			ev.Inconclusive("C32: SignMessage(%s): %v", c.Method, err)
		}
	}
	flip := func(b []byte, pos int) []byte {
		b = bytes.Clone(b)
		if len(b) == 0 {
			return []byte{0x01}
		}
		pos %= len(b) * 8
		b[pos/8] ^= 1 << (pos % 8)
		return b
	}
	replay := func() {
		data := signedData(req)
		var other []byte
		switch {
		case len(data) > 0 && c.Pick%3 == 0:
			other = nil // e.g. the signature of any empty-bodied request such as HealthCheck
			note = "replay:empty-data"
		case c.Pick%3 == 1 || len(data) == 0:
			other = append(bytes.Clone(data), 0x00)
			note = "replay:extended-data"
		default:
			other = flip(data, c.Pos)
			note = "replay:flipped-data"
		}
		k, sg := rawSign(admin, other)
		setSig(req, sigFd, k, sg)
	}
	switch mode {
	case mCorrect:
		mustSign(s.sign(&admin.PrivateKey, req))
	case mNoSig:
	case mEmptySig:
		req.ProtoReflect().Mutable(sigFd)
	case mWrongKey:
		mustSign(s.sign(&keyStranger.PrivateKey, req))
	case mSpoofKey:
		mustSign(s.sign(&keyStranger.PrivateKey, req))
		_, sg := getSig(req, sigFd)
		setSig(req, sigFd, pub(admin), sg)
	case mBodyChanged:
		mustSign(s.sign(&admin.PrivateKey, req))
		before := signedData(req)
		if !mutateBody(req, bodyFd, c.Pick) || bytes.Equal(before, signedData(req)) {
			// nothing in the body can change what is signed (empty body message):
			// present a signature of other bytes instead
			replay()
			note = "body-unchangeable," + note
		}
	case mReplay:
		replay()
	case mSigFlip:
		mustSign(s.sign(&admin.PrivateKey, req))
		k, sg := getSig(req, sigFd)
		setSig(req, sigFd, k, flip(sg, c.Pos))
	case mSigLen:
		mustSign(s.sign(&admin.PrivateKey, req))
		k, sg := getSig(req, sigFd)
		switch c.Pick % 3 {
		case 0:
			sg = sg[:len(sg)-1]
			note = "sig:truncated"
		case 1:
			sg = append(sg, byte(c.Pos))
			note = "sig:extended"
		default:
			sg = nil
			note = "sig:empty"
		}
		setSig(req, sigFd, k, sg)
	case mKeyFlip:
		mustSign(s.sign(&admin.PrivateKey, req))
		k, sg := getSig(req, sigFd)
		setSig(req, sigFd, flip(k, c.Pos), sg)
	case mOwnKey:
		mustSign(s.sign(&keyServer.PrivateKey, req))
	default:
		ev.Inconclusive("C32: unknown mode %d", mode)
	}
	return req, sigFd, note
}

// refAuthorised is the reference predicate of the property: the request, as the
// server receives it from the wire, carries a signature that (1) names one of
// the configured keys and (2) verifies over the signed body bytes.
func refAuthorised(req proto.Message, sigFd protoreflect.FieldDescriptor, allowed [][]byte) bool {
	wire, err := proto.Marshal(req)
	if err != nil {
		ev.Inconclusive("C32: marshal: %v", err)
	}
	rx := req.ProtoReflect().New().Interface()
	if err := proto.Unmarshal(wire, rx); err != nil {
		ev.Inconclusive("C32: unmarshal: %v", err)
	}
	if !rx.ProtoReflect().Has(sigFd) {
		return false
	}
	key, sg := getSig(rx, sigFd)
	ok := false
	for _, a := range allowed {
		ok = ok || bytes.Equal(a, key)
	}
	if !ok {
		return false
	}
	var pk neofsecdsa.PublicKey
	if pk.Decode(key) != nil {
		return false
	}
	return pk.Verify(signedData(rx), sg)
}

// ---------------------------------------------------------------- the oracle

// diffLines lists the lines present in only one of two state renderings.
func diffLines(before, after string) string {
	count := func(s string) map[string]int {
		m := map[string]int{}
		for _, l := range strings.Split(s, "\n") {
			m[l]++
		}
		return m
	}
	b, a := count(before), count(after)
	var sb strings.Builder
	for _, l := range strings.Split(before, "\n") {
		if a[l] < b[l] {
			sb.WriteString("- " + l + "\n")
			b[l]--
		}
	}
	for _, l := range strings.Split(after, "\n") {
		if b[l] < a[l] {
			sb.WriteString("+ " + l + "\n")
			a[l]--
		}
	}
	return sb.String()
}

type fataler interface {
	Fatalf(format string, args ...any)
}

type outcome struct {
	twinExecuted bool // the correctly signed twin was served (OK) or touched state/dependencies
	twinEffect   bool // ... and changed observable state
	twinCode     codes.Code
	note         string
	authorised   bool
	twinPanic    string
}

// runCase checks one generated case. pristine receives only requests that must
// be rejected, so its state never changes while the property holds; live
// receives the authorised ones. strict=false is used for the not-yet-ready
// server, where any rejection without effect is acceptable.
func runCase(t fataler, svc *service, pristine, live target, c tcase, strict bool) outcome {
	m := svc.method(c.Method)
	var out outcome

	req, sigFd, note := svc.build(pristine, c, c.Mode)
	out.note = note
	out.authorised = refAuthorised(req, sigFd, pristine.allowed())
	// self-check of the generator against the reference predicate
	ownConfigured := false
	for _, a := range pristine.allowed() {
		ownConfigured = ownConfigured || bytes.Equal(a, pub(keyServer))
	}
	wantAuth := c.Mode == mCorrect || c.Mode == mOwnKey && ownConfigured
	if out.authorised != wantAuth {
		ev.Inconclusive("C32 harness bug: case %v builds a request whose reference authorisation is %v", c, out.authorised)
	}

	if !out.authorised {
		before := pristine.observe()
		calls := pristine.effects().n()
		pristine.invalidate()
		res := m.invoke(pristine.server(), req)
		if res.panicked != nil {
			t.Fatalf("%s: unauthorised request made the handler panic\ncase: %v (%s)\nresult: %v", svc.name, c, note, res)
		}
		if res.err == nil {
			t.Fatalf("%s: unauthorised request was SERVED\ncase: %v (%s)\nresult: %v\ndependency calls: %s",
				svc.name, c, note, res, pristine.effects().since(calls))
		}
		if strict && res.code() != codes.PermissionDenied {
			t.Fatalf("%s: unauthorised request rejected with %v, want PermissionDenied\ncase: %v (%s)\nresult: %v",
				svc.name, res.code(), c, note, res)
		}
		if res.resp != nil || res.sent != 0 {
			t.Fatalf("%s: unauthorised request got data back\ncase: %v (%s)\nresult: %v", svc.name, c, note, res)
		}
		if n := pristine.effects().n(); n != calls {
			t.Fatalf("%s: unauthorised request reached dependencies: %s\ncase: %v (%s)\nresult: %v",
				svc.name, pristine.effects().since(calls), c, note, res)
		}
		if after := pristine.observe(); after != before {
			t.Fatalf("%s: unauthorised request changed state\ncase: %v (%s)\nresult: %v\nstate diff (- before, + after):\n%s",
				svc.name, c, note, res, diffLines(before, after))
		}
	}

	// The authorised side: the case itself when it is authorised, otherwise its
	// correctly signed twin (same body, same signer) – shows what the rejected
	// request would have done, and checks "valid signature => not PermissionDenied".
	mode := mCorrect
	if out.authorised {
		mode = c.Mode
	}
	treq, tsigFd, _ := svc.build(live, c, mode)
	if !refAuthorised(treq, tsigFd, live.allowed()) {
		ev.Inconclusive("C32 harness bug: twin of %v is not authorised by the reference predicate", c)
	}
	before := live.observe()
	live.invalidate()
	res := m.invoke(live.server(), treq)
	out.twinCode = res.code()
	if res.code() == codes.PermissionDenied {
		t.Fatalf("%s: correctly signed request by a configured key was denied\ncase: %v mode=%s\nresult: %v", svc.name, c, mode, res)
	}
	out.twinEffect = live.observe() != before
	out.twinExecuted = out.twinEffect || res.err == nil
	if res.panicked != nil {
		// Not a C32 matter (the request IS authorised), but worth knowing about.
		out.twinPanic = fmt.Sprintf("authorised-%s-panics:%v", c.Method, res.panicked)
	}
	return out
}

func (o outcome) labels(c tcase) []string {
	ls := []string{"method:" + c.Method, "mode:" + c.Mode.String(), "twin:" + o.twinCode.String()}
	if o.twinEffect {
		ls = append(ls, "twin-changed-state", "effect:"+c.Method)
	}
	if o.twinExecuted {
		ls = append(ls, "twin-executed")
	}
	if c.Spec.Absent {
		ls = append(ls, "body-absent")
	}
	if o.note != "" {
		ls = append(ls, "note:"+o.note)
	}
	if o.twinPanic != "" {
		ls = append(ls, o.twinPanic)
	}
	if o.authorised {
		ls = append(ls, "authorised")
	} else {
		ls = append(ls, "unauthorised")
	}
	return ls
}

// ---------------------------------------------------------------- storage node

// liveStorage holds a storage fixture and replaces it whenever its engine left
// the initial state. The live twin is replaced after every authorised request
// that changed something, so that "what would this body do" is always judged
// against the same initial state. The pristine one never needs it while the
// property holds; after a violation it makes the following (shrinking) cases
// independent of the damage.
type liveStorage struct {
	*storageFix
	rebuilt int
}

func (l *liveStorage) refresh() {
	if l.storageFix.cachedEngineState() == l.storageFix.pristine {
		return
	}
	l.storageFix.close()
	l.storageFix = newStorageFix(true)
	l.rebuilt++
}

func TestC32Storage(t *testing.T) {
	rec := ev.New("C32", "storage")
	defer rec.Flush()
	svc := storageService()
	rec.Set("storage_methods", len(svc.methods))
	pristine := &liveStorage{storageFix: newStorageFix(true)}
	defer func() { pristine.close() }()
	live := &liveStorage{storageFix: newStorageFix(true)}
	defer func() { live.close() }()
	gen := genCase(svc)
	rapid.Check(t, func(t *rapid.T) {
		c := gen.Draw(t, "case")
		var out outcome
		defer func() {
			rec.Case(out.twinExecuted, c.String(), out.labels(c)...)
			live.refresh()
			pristine.refresh()
		}()
		if rec.WantSample() {
			rec.Sample(c.String())
		}
		out = runCase(t, svc, pristine, live, c, true)
	})
	rec.Set("storage_live_rebuilds", live.rebuilt)
	rec.Set("storage_pristine_rebuilds", pristine.rebuilt)
}

// TestC32StorageNotReady: before MarkReady nothing but health checks is served;
// an unauthorised request must still be rejected (with whatever code) without
// touching a dependency, and a correctly signed one is never PermissionDenied.
func TestC32StorageNotReady(t *testing.T) {
	rec := ev.New("C32", "storage-notready")
	defer rec.Flush()
	svc := storageService()
	pristine := newStorageFix(false)
	live := newStorageFix(false)
	gen := genCase(svc)
	rapid.Check(t, func(t *rapid.T) {
		c := gen.Draw(t, "case")
		var out outcome
		defer func() { rec.Case(out.twinExecuted, c.String(), out.labels(c)...) }()
		out = runCase(t, svc, pristine, live, c, false)
	})
}

// ---------------------------------------------------------------- inner ring

func TestC32IR(t *testing.T) {
	rec := ev.New("C32", "ir")
	defer rec.Flush()
	svc := irService()
	rec.Set("ir_methods", len(svc.methods))
	pristine, live := newIRFix(), newIRFix()
	gen := genCase(svc)
	rapid.Check(t, func(t *rapid.T) {
		c := gen.Draw(t, "case")
		var out outcome
		defer func() { rec.Case(out.twinExecuted, c.String(), out.labels(c)...) }()
		if rec.WantSample() {
			rec.Sample(c.String())
		}
		out = runCase(t, svc, pristine, live, c, true)
	})
}

// ---------------------------------------------------------------- exhaustive method x mode matrix

// TestC32Matrix enumerates EVERY method of both services with EVERY tamper
// mode (a few generated bodies each), independently of the random search, so
// that each run provably covers the whole "all methods" quantifier.
func TestC32Matrix(t *testing.T) {
	rec := ev.New("C32", "matrix")
	defer rec.Flush()
	bodies := 3 * ev.Scale()
	k, n := ev.Shard() // methods are dealt round-robin to the shards of the run
	dealt := 0
	run := func(svc *service, pristine, live target, refresh func()) {
		for mi := range svc.methods {
			dealt++
			if dealt%n != k {
				continue
			}
			m := &svc.methods[mi]
			_, bodyFd, _ := m.newRequest()
			g := genBody(bodyFd)
			for mode := range nModes {
				for b := range bodies {
					seed := mi*1000 + int(mode)*50 + b + 1
					c := tcase{Method: m.name, Mode: mode, Spec: g.Example(seed), Signer: b % 2, Pick: b + int(mode), Pos: seed * 37 % 1024}
					out := runCase(t, svc, pristine, live, c, true)
					rec.Case(out.twinExecuted, c.String(), out.labels(c)...)
					refresh()
				}
			}
		}
	}
	ssvc := storageService()
	sp := &liveStorage{storageFix: newStorageFix(true)}
	defer func() { sp.close() }()
	sl := &liveStorage{storageFix: newStorageFix(true)}
	defer func() { sl.close() }()
	run(ssvc, sp, sl, func() { sl.refresh(); sp.refresh() })
	rec.Set("matrix_pristine_rebuilds", sp.rebuilt)
	isvc := irService()
	run(isvc, newIRFix(), newIRFix(), func() {})
	rec.Set("exhaustive", true)
	rec.Set("matrix_methods", len(ssvc.methods)+len(isvc.methods))
	rec.Set("matrix_modes", int(nModes))
}

package c32

import (
	"context"
	"crypto/ecdsa"
	"crypto/sha256"
	"encoding/binary"
	"errors"
	"fmt"
	"io/fs"
	"os"
	"path/filepath"
	"sort"
	"strings"
	"sync"
	"testing"
	"time"

	"github.com/nspcc-dev/neo-go/pkg/util"
	"github.com/nspcc-dev/neofs-node/pkg/local_object_storage/blobstor/fstree"
	"github.com/nspcc-dev/neofs-node/pkg/local_object_storage/engine"
	meta "github.com/nspcc-dev/neofs-node/pkg/local_object_storage/metabase"
	"github.com/nspcc-dev/neofs-node/pkg/local_object_storage/shard"
	"github.com/nspcc-dev/neofs-node/pkg/local_object_storage/shard/mode"
	"github.com/nspcc-dev/neofs-node/pkg/services/control"
	ctlsrv "github.com/nspcc-dev/neofs-node/pkg/services/control/server"
	"github.com/nspcc-dev/neofs-node/pkg/services/object/placement"
	"github.com/nspcc-dev/neofs-node/pkg/services/replicator"
	"github.com/nspcc-dev/neofs-node/verifharness/ev"
	"github.com/nspcc-dev/neofs-sdk-go/checksum"
	apistatus "github.com/nspcc-dev/neofs-sdk-go/client/status"
	"github.com/nspcc-dev/neofs-sdk-go/container"
	cid "github.com/nspcc-dev/neofs-sdk-go/container/id"
	"github.com/nspcc-dev/neofs-sdk-go/netmap"
	"github.com/nspcc-dev/neofs-sdk-go/object"
	oid "github.com/nspcc-dev/neofs-sdk-go/object/id"
	"github.com/nspcc-dev/neofs-sdk-go/user"
	"go.uber.org/zap"
	"google.golang.org/protobuf/proto"
)

func storageService() *service {
	return &service{
		name:    "storage",
		methods: enumerate("storage", &control.ControlService_ServiceDesc),
		sign: func(k *ecdsa.PrivateKey, m proto.Message) error {
			sm, ok := m.(ctlsrv.SignedMessage)
			if !ok {
				ev.Inconclusive("C32 storage: %T is not a SignedMessage", m)
			}
			return ctlsrv.SignMessage(k, sm)
		},
	}
}

// storageAllowed is the configured administrator key list of the storage
// control server under test. The server's own key is deliberately NOT in it
// (control/server.New takes the list verbatim).
func storageAllowed() [][]byte { return [][]byte{pub(keyAdminA), pub(keyAdminB)} }

// ---------------------------------------------------------------- recording dependencies

type storageFakes struct{ log callLog }

type healthFake struct{ f *storageFakes }

func (h healthFake) NetmapStatus() control.NetmapStatus {
	h.f.log.add("health.NetmapStatus")
	return control.NetmapStatus_ONLINE
}
func (h healthFake) HealthStatus() control.HealthStatus {
	h.f.log.add("health.HealthStatus")
	return control.HealthStatus_READY
}

type nodeStateFake struct{ f *storageFakes }

func (n nodeStateFake) SetNetmapStatus(st control.NetmapStatus) error {
	n.f.log.add("nodeState.SetNetmapStatus(%v)", st)
	return nil
}
func (n nodeStateFake) IsLocalNodePublicKey(k []byte) bool {
	n.f.log.add("nodeState.IsLocalNodePublicKey(%x)", k)
	return false
}

type containersFake struct{ f *storageFakes }

func (c containersFake) Get(id cid.ID) (container.Container, error) {
	c.f.log.add("containers.Get(%s)", id)
	return container.Container{}, apistatus.ErrContainerNotFound
}

type networkFake struct{ f *storageFakes }

func (n networkFake) GetNetMapByEpoch(e uint64) (*netmap.NetMap, error) {
	n.f.log.add("network.GetNetMapByEpoch(%d)", e)
	return new(netmap.NetMap), nil
}
func (n networkFake) Epoch() (uint64, error) {
	n.f.log.add("network.Epoch")
	return fixtureEpoch, nil
}
func (n networkFake) NetMap() (*netmap.NetMap, error) {
	n.f.log.add("network.NetMap")
	return new(netmap.NetMap), nil
}

const fixtureEpoch = 10

type epochState struct{}

func (epochState) CurrentEpoch() uint64 { return fixtureEpoch }

type paymentsStub struct{}

func (paymentsStub) UnpaidSince(cid.ID) (int64, error) { return -1, nil }
func (paymentsStub) PaymentsDisabled() bool            { return true }

// ---------------------------------------------------------------- deterministic objects

func detCID(i int) cid.ID {
	return cid.ID(sha256.Sum256([]byte(fmt.Sprintf("c32-container-%d", i))))
}

func detOID(tag string, i int) oid.ID {
	return oid.ID(sha256.Sum256([]byte(fmt.Sprintf("c32-object-%s-%d", tag, i))))
}

func detObject(tag string, i int) *object.Object {
	var sh util.Uint160
	copy(sh[:], "c32-owner-script-hash")
	obj := object.New(detCID(i%2), user.NewFromScriptHash(sh))
	obj.SetID(detOID(tag, i))
	obj.SetPayload([]byte(fmt.Sprintf("payload-%s-%d", tag, i)))
	obj.SetPayloadSize(uint64(len(obj.Payload())))
	obj.SetPayloadChecksum(checksum.NewSHA256(sha256.Sum256(obj.Payload())))
	return obj
}

// ---------------------------------------------------------------- fixture

// storageFix is a storage node control server over a REAL small engine:
// shard #0 read-write (live objects 0,1 and a tombstoned object), shard #1
// read-only (live objects 2,3 – evacuable / dumpable), shard #2 read-write
// (live objects 4,5); a valid dump file with two objects unknown to the engine.
type storageFix struct {
	dir      string
	eng      *engine.StorageEngine
	srv      *ctlsrv.Server
	fakes    *storageFakes
	shards   [][]byte
	live     []oid.Address
	tombed   oid.Address
	tomb     oid.Address
	inDump   []oid.Address
	tracked  []oid.Address
	pristine string // engine part of observe() right after construction

	cache      string // engineState() since the last invalidate()
	cacheValid bool
}

func mustNoErr(err error, what string) {
	if err != nil {
		ev.Inconclusive("C32 storage fixture: %s: %v", what, err)
	}
}

// openEngine opens (or creates) the three-shard engine rooted at dir. Shard IDs
// are generated on first use and persisted by the shard, so a copied directory
// tree opens with the same IDs.
func (f *storageFix) openEngine(dir string, shard1 mode.Mode) {
	nop := zap.NewNop()
	f.dir = dir
	f.shards = nil
	f.eng = engine.New(engine.WithLogger(nop))
	for i := range nShardSyms {
		m := mode.ReadWrite
		if i == 1 {
			m = shard1
		}
		id, err := f.eng.AddShard(
			shard.WithLogger(nop),
			shard.WithBlobstor(fstree.New(
				fstree.WithPath(filepath.Join(dir, fmt.Sprintf("shard%d", i), "fstree")),
				fstree.WithDepth(1),
				fstree.WithNoSync(true),
				fstree.WithLogger(nop))),
			shard.WithMetaBaseOptions(
				meta.WithPath(filepath.Join(dir, fmt.Sprintf("shard%d", i), "metabase")),
				meta.WithPermissions(0o700),
				meta.WithEpochState(epochState{}),
				meta.WithMaxBatchDelay(time.Microsecond),
				meta.WithLogger(nop)),
			shard.WithGCRemoverSleepInterval(24*time.Hour), // no wall-clock driven background work
			shard.WithContainerPayments(paymentsStub{}),
			shard.WithMode(m),
		)
		mustNoErr(err, "add shard")
		f.shards = append(f.shards, id.Bytes())
	}
	mustNoErr(f.eng.Init(), "engine init")
}

var (
	templateOnce sync.Once
	templateDir  string
)

// buildTemplate populates an engine once per process; fixtures are copies of
// its directory (re-opening a small engine is ~10x cheaper than populating it).
func buildTemplate() {
	dir, err := os.MkdirTemp("", "c32-template-")
	mustNoErr(err, "temp dir")
	templateDir = dir
	for _, d := range []string{"in", "out"} {
		mustNoErr(os.Mkdir(filepath.Join(dir, d), 0o755), "mkdir")
	}
	f := new(storageFix)
	f.openEngine(dir, mode.ReadWrite)
	ctx := context.Background()
	setModes := func(ms ...mode.Mode) {
		for i, m := range ms {
			mustNoErr(f.setMode(i, m), "set shard mode")
		}
	}
	// engine.Put skips read-only shards: this pins every object to a chosen shard
	// although shard IDs (and hence HRW order) are random.
	putTo := func(shardIdx int, objs ...*object.Object) {
		ms := []mode.Mode{mode.ReadOnly, mode.ReadOnly, mode.ReadOnly}
		ms[shardIdx] = mode.ReadWrite
		setModes(ms...)
		for _, obj := range objs {
			mustNoErr(f.eng.Put(ctx, obj, nil), "put object")
		}
	}
	victim := detObject("tombstoned", 0)
	putTo(0, detObject("live", 0), detObject("live", 1), victim)
	putTo(1, detObject("live", 2), detObject("live", 3))
	putTo(2, detObject("live", 4), detObject("live", 5))
	setModes(mode.ReadWrite, mode.ReadWrite, mode.ReadWrite)
	ts := detObject("tombstone", 0)
	ts.AssociateDeleted(victim.GetID())
	var exp object.Attribute
	exp.SetKey(object.AttributeExpirationEpoch)
	exp.SetValue(fmt.Sprint(fixtureEpoch + 1000))
	ts.SetAttributes(append(ts.Attributes(), exp)...)
	mustNoErr(f.eng.Put(ctx, ts, nil), "put tombstone")
	if _, err := f.eng.Get(ctx, victim.Address()); !errors.Is(err, apistatus.ErrObjectAlreadyRemoved) {
		ev.Inconclusive("C32 storage fixture: tombstoned object is not reported as removed: %v", err)
	}
	mustNoErr(f.eng.Close(), "close template engine")

	// a dump file in the format of shard.Dump with two objects unknown to the engine
	dump := []byte("NEOF")
	for i := range 2 {
		bin := detObject("dumped", i).Marshal()
		dump = binary.LittleEndian.AppendUint32(dump, uint32(len(bin)))
		dump = append(dump, bin...)
	}
	mustNoErr(os.WriteFile(f.path(pathDump), dump, 0o644), "write dump")
	mustNoErr(os.WriteFile(f.path(pathGarbage), []byte("this is not a dump"), 0o644), "write garbage")
}

// TestMain removes the template directory (per-fixture directories are removed
// by close()).
func TestMain(m *testing.M) {
	code := m.Run()
	if templateDir != "" {
		_ = os.RemoveAll(templateDir)
	}
	os.Exit(code)
}

func copyTree(src, dst string) error {
	return filepath.WalkDir(src, func(p string, d fs.DirEntry, err error) error {
		if err != nil {
			return err
		}
		rel, _ := filepath.Rel(src, p)
		to := filepath.Join(dst, rel)
		if d.IsDir() {
			return os.MkdirAll(to, 0o755)
		}
		b, err := os.ReadFile(p)
		if err != nil {
			return err
		}
		return os.WriteFile(to, b, 0o644)
	})
}

func newStorageFix(ready bool) *storageFix {
	f := &storageFix{fakes: new(storageFakes)}
	f.srv = ctlsrv.New(&keyServer.PrivateKey, storageAllowed(), healthFake{f.fakes}, zap.NewNop())
	if !ready {
		return f
	}
	templateOnce.Do(buildTemplate)
	dir, err := os.MkdirTemp("", "c32-storage-")
	mustNoErr(err, "temp dir")
	mustNoErr(copyTree(templateDir, dir), "copy template")
	f.openEngine(dir, mode.ReadOnly)

	for i := range nLiveAddrs {
		f.live = append(f.live, detObject("live", i).Address())
	}
	f.tombed = detObject("tombstoned", 0).Address()
	f.tomb = detObject("tombstone", 0).Address()
	f.inDump = []oid.Address{detObject("dumped", 0).Address(), detObject("dumped", 1).Address()}
	f.tracked = append(append(append([]oid.Address{}, f.live...), f.tombed, f.tomb), f.inDump...)

	nop := zap.NewNop()
	pl, err := placement.New(containersFake{f.fakes}, networkFake{f.fakes})
	mustNoErr(err, "placement service")
	repl := replicator.New(replicator.WithLogger(nop), replicator.WithLocalStorage(f.eng),
		replicator.WithLocalNodeKey(nodeStateFake{f.fakes}))
	f.srv.MarkReady(f.eng, pl, repl, nodeStateFake{f.fakes})

	f.pristine = f.engineState()
	f.selfCheck()
	return f
}

// selfCheck makes sure the fixture is what the generators assume: otherwise
// "no side effect" would be checked against a state where nothing can happen.
func (f *storageFix) selfCheck() {
	ctx := context.Background()
	want := [][]int{{0, 1}, {2, 3}, {4, 5}}
	for si, objs := range want {
		for _, oi := range objs {
			st, err := f.eng.ObjectStatus(ctx, f.live[oi])
			mustNoErr(err, "object status")
			for _, s := range st.Shards {
				has := len(s.Shard.Metabase.State) > 0
				mine := false
				for _, sh := range f.eng.DumpInfo().Shards {
					if sh.ID.String() == s.ID {
						mine = string(sh.ID.Bytes()) == string(f.shards[si])
					}
				}
				if has != mine {
					ev.Inconclusive("C32 storage fixture: live object %d placement is not as designed (shard %s has=%v)", oi, s.ID, has)
				}
			}
		}
	}
	for _, sh := range f.eng.DumpInfo().Shards {
		ro := string(sh.ID.Bytes()) == string(f.shards[1])
		if sh.Mode.ReadOnly() != ro {
			ev.Inconclusive("C32 storage fixture: shard %s mode %v is not as designed", sh.ID, sh.Mode)
		}
	}
	if _, err := f.eng.Get(ctx, f.tombed); !errors.Is(err, apistatus.ErrObjectAlreadyRemoved) {
		ev.Inconclusive("C32 storage fixture: tombstoned object is not reported as removed: %v", err)
	}
}

func (f *storageFix) setMode(idx int, m mode.Mode) error {
	for _, sh := range f.eng.DumpInfo().Shards {
		if string(sh.ID.Bytes()) == string(f.shards[idx]) {
			return f.eng.SetShardMode(sh.ID, m, false)
		}
	}
	return errors.New("shard not found")
}

func (f *storageFix) close() {
	if f.eng != nil {
		_ = f.eng.Close()
	}
	if f.dir != "" {
		_ = os.RemoveAll(f.dir)
	}
}

// world

func (f *storageFix) shardID(idx int) []byte {
	switch {
	case idx >= 0 && idx < len(f.shards):
		return f.shards[idx]
	case idx == shardBadLen:
		return []byte{1, 2, 3}
	default:
		return []byte("no-such-shard-id") // 16 bytes
	}
}

func (f *storageFix) address(idx int) string {
	switch {
	case idx >= 0 && idx < nLiveAddrs:
		return oid.NewAddress(detCID(idx%2), detOID("live", idx)).EncodeToString()
	case idx == addrTombstoned:
		return oid.NewAddress(detCID(0), detOID("tombstoned", 0)).EncodeToString()
	case idx == addrTombstone:
		return oid.NewAddress(detCID(0), detOID("tombstone", 0)).EncodeToString()
	case idx == addrInDump:
		return oid.NewAddress(detCID(0), detOID("dumped", 0)).EncodeToString()
	case idx == addrMalformed:
		return "not/an/address"
	default:
		return oid.NewAddress(detCID(1), detOID("absent", 0)).EncodeToString()
	}
}

func (f *storageFix) path(idx int) string {
	dir := f.dir
	if dir == "" {
		dir = filepath.Join(os.TempDir(), "c32-notready-nonexistent")
	}
	switch idx {
	case pathDump:
		return filepath.Join(dir, "in", "dump.bin")
	case pathGarbage:
		return filepath.Join(dir, "in", "garbage.bin")
	case pathNoDir:
		return filepath.Join(dir, "missing", "x.bin")
	default:
		return filepath.Join(dir, "out", "fresh.bin")
	}
}

// engineState renders everything observable about the engine and its
// directory: shard set, modes, error counters, per-shard status of every
// tracked object, the listing, and the file tree (names and sizes).
func (f *storageFix) engineState() string {
	if f.eng == nil {
		return ""
	}
	var sb strings.Builder
	ctx := context.Background()
	info := f.eng.DumpInfo()
	sort.Slice(info.Shards, func(i, j int) bool { return info.Shards[i].ID.String() < info.Shards[j].ID.String() })
	for _, sh := range info.Shards {
		fmt.Fprintf(&sb, "shard %s mode=%v errors=%d\n", sh.ID, sh.Mode, sh.ErrorCount)
	}
	for _, a := range f.tracked {
		st, err := f.eng.ObjectStatus(ctx, a)
		fmt.Fprintf(&sb, "obj %s err=%v", a, err)
		sort.Slice(st.Shards, func(i, j int) bool { return st.Shards[i].ID < st.Shards[j].ID })
		for _, s := range st.Shards {
			fmt.Fprintf(&sb, " [%s meta=%v blob=%s/%v errs=%v]", s.ID, s.Shard.Metabase.State, s.Shard.Blob.Type,
				s.Shard.Blob.Error, s.Shard.Errors)
		}
		sb.WriteByte('\n')
	}
	var cur *engine.Cursor
	var listed []string
	for {
		res, c, err := f.eng.ListWithCursor(ctx, 1000, cur)
		if err != nil {
			if !errors.Is(err, engine.ErrEndOfListing) {
				fmt.Fprintf(&sb, "list err=%v\n", err)
			}
			break
		}
		for _, r := range res {
			ids := append([]string(nil), r.ShardIDs...)
			sort.Strings(ids)
			listed = append(listed, r.Address.EncodeToString()+"@"+strings.Join(ids, ","))
		}
		cur = c
	}
	sort.Strings(listed)
	fmt.Fprintf(&sb, "list %v\n", listed)
	_ = filepath.WalkDir(f.dir, func(p string, d fs.DirEntry, err error) error {
		if err != nil {
			fmt.Fprintf(&sb, "walk %s err=%v\n", p, err)
			return nil
		}
		rel, _ := filepath.Rel(f.dir, p)
		if d.IsDir() {
			fmt.Fprintf(&sb, "dir %s\n", rel)
			return nil
		}
		if strings.Contains(rel, "metabase") {
			fmt.Fprintf(&sb, "file %s\n", rel) // bolt file: content/size is covered by the semantic part
			return nil
		}
		fi, err := d.Info()
		if err != nil {
			fmt.Fprintf(&sb, "file %s err=%v\n", rel, err)
			return nil
		}
		fmt.Fprintf(&sb, "file %s %d\n", rel, fi.Size())
		return nil
	})
	return sb.String()
}

// Package c32 decides property C32: every control service call of the storage
// node and of the inner ring is rejected with no side effect unless it carries
// a valid signature by one of the configured administrator keys over its body.
//
// Methods are enumerated by reflection over the generated ControlServiceServer
// interfaces and invoked through the generated grpc.ServiceDesc handlers (the
// same entry points a real gRPC server uses); requests are instantiated
// reflectively, their bodies filled through protoreflect with generated values
// and passed through a protobuf wire round trip, so every input is one a real
// client can produce.
package c32

import (
	"bytes"
	"context"
	"crypto/ecdsa"
	"fmt"
	"io"
	"reflect"
	"sort"
	"strings"

	"github.com/nspcc-dev/neo-go/pkg/crypto/keys"
	"github.com/nspcc-dev/neofs-node/verifharness/ev"
	neofscrypto "github.com/nspcc-dev/neofs-sdk-go/crypto"
	neofsecdsa "github.com/nspcc-dev/neofs-sdk-go/crypto/ecdsa"
	"google.golang.org/grpc"
	"google.golang.org/grpc/codes"
	"google.golang.org/grpc/metadata"
	"google.golang.org/grpc/status"
	"google.golang.org/protobuf/proto"
	"google.golang.org/protobuf/reflect/protoreflect"
)

// ---------------------------------------------------------------- keys

// detKey returns a deterministic P-256 private key.
func detKey(tag byte) *keys.PrivateKey {
	b := make([]byte, 32)
	for i := range b {
		b[i] = tag ^ byte(i*7+1)
	}
	b[0] = 0x01 // keep the scalar well below the group order and non-zero
	k, err := keys.NewPrivateKeyFromBytes(b)
	if err != nil {
		ev.Inconclusive("C32: deterministic key %d: %v", tag, err)
	}
	return k
}

var (
	keyServer   = detKey(0x11) // signs responses
	keyAdminA   = detKey(0x22) // configured administrator
	keyAdminB   = detKey(0x33) // configured administrator
	keyStranger = detKey(0x44) // valid key, not configured
)

func pub(k *keys.PrivateKey) []byte { return k.PublicKey().Bytes() }

// rawSign signs arbitrary data the way Control SignMessage helpers do.
func rawSign(k *keys.PrivateKey, data []byte) (key, sig []byte) {
	var s neofscrypto.Signature
	if err := s.Calculate(neofsecdsa.Signer(k.PrivateKey), data); err != nil {
		ev.Inconclusive("C32: signing failed: %v", err)
	}
	return s.PublicKeyBytes(), s.Value()
}

// ---------------------------------------------------------------- methods

type method struct {
	name      string
	reqType   reflect.Type // pointer to request struct
	streaming bool
	unary     func(srv any, ctx context.Context, dec func(any) error, interceptor grpc.UnaryServerInterceptor) (any, error)
	stream    grpc.StreamHandler
}

type signedMsg interface {
	ReadSignedData([]byte) ([]byte, error)
}

type service struct {
	name    string
	methods []method
	// sign signs msg with the service's own SignMessage helper (what neofs-cli uses).
	sign func(*ecdsa.PrivateKey, proto.Message) error
}

var (
	ctxType = reflect.TypeOf((*context.Context)(nil)).Elem()
	msgType = reflect.TypeOf((*proto.Message)(nil)).Elem()
	errType = reflect.TypeOf((*error)(nil)).Elem()
)

// enumerate lists every method of the server interface type behind
// desc.HandlerType and binds it to its generated handler. Anything that does
// not fit the known shapes makes the check inconclusive, so that new kinds of
// methods are noticed instead of silently skipped.
func enumerate(svcName string, desc *grpc.ServiceDesc) []method {
	ht := reflect.TypeOf(desc.HandlerType)
	if ht == nil || ht.Kind() != reflect.Pointer || ht.Elem().Kind() != reflect.Interface {
		ev.Inconclusive("C32 %s: ServiceDesc.HandlerType is %v, not a pointer to interface", svcName, ht)
	}
	it := ht.Elem()
	unary := map[string]grpc.MethodDesc{}
	for _, m := range desc.Methods {
		unary[m.MethodName] = m
	}
	streams := map[string]grpc.StreamDesc{}
	for _, s := range desc.Streams {
		streams[s.StreamName] = s
	}
	var res []method
	seen := map[string]bool{}
	for i := range it.NumMethod() {
		im := it.Method(i)
		if im.PkgPath != "" { // unexported marker such as mustEmbedUnimplemented...
			continue
		}
		ft := im.Type
		m := method{name: im.Name}
		switch {
		case ft.NumIn() == 2 && ft.NumOut() == 2 && ft.In(0) == ctxType && ft.In(1).Implements(msgType) &&
			ft.Out(0).Implements(msgType) && ft.Out(1) == errType:
			d, ok := unary[im.Name]
			if !ok {
				ev.Inconclusive("C32 %s: unary method %s has no handler in ServiceDesc.Methods", svcName, im.Name)
			}
			m.reqType, m.unary = ft.In(1), d.Handler
		case ft.NumIn() == 2 && ft.NumOut() == 1 && ft.In(0).Implements(msgType) && ft.In(1).Kind() == reflect.Interface &&
			ft.Out(0) == errType:
			d, ok := streams[im.Name]
			if !ok || !d.ServerStreams || d.ClientStreams {
				ev.Inconclusive("C32 %s: method %s looks server-streaming but ServiceDesc.Streams disagrees (%+v)", svcName, im.Name, d)
			}
			m.reqType, m.stream, m.streaming = ft.In(0), d.Handler, true
		default:
			ev.Inconclusive("C32 %s: method %s has unsupported signature %v; teach the harness about it", svcName, im.Name, ft)
		}
		if m.reqType.Kind() != reflect.Pointer || m.reqType.Elem().Kind() != reflect.Struct {
			ev.Inconclusive("C32 %s: method %s request type %v is not a pointer to struct", svcName, im.Name, m.reqType)
		}
		seen[im.Name] = true
		res = append(res, m)
	}
	for n := range unary {
		if !seen[n] {
			ev.Inconclusive("C32 %s: ServiceDesc method %s is not in the server interface", svcName, n)
		}
	}
	for n := range streams {
		if !seen[n] {
			ev.Inconclusive("C32 %s: ServiceDesc stream %s is not in the server interface", svcName, n)
		}
	}
	if len(res) == 0 {
		ev.Inconclusive("C32 %s: no methods found", svcName)
	}
	sort.Slice(res, func(i, j int) bool { return res[i].name < res[j].name })
	return res
}

// newRequest instantiates the request of m and returns it with the descriptors
// of its body and signature fields.
func (m *method) newRequest() (proto.Message, protoreflect.FieldDescriptor, protoreflect.FieldDescriptor) {
	v := reflect.New(m.reqType.Elem()).Interface()
	req, ok := v.(proto.Message)
	if !ok {
		ev.Inconclusive("C32: request of %s is not a proto.Message", m.name)
	}
	if _, ok := v.(signedMsg); !ok {
		ev.Inconclusive("C32: request of %s has no ReadSignedData", m.name)
	}
	fs := req.ProtoReflect().Descriptor().Fields()
	body, sig := fs.ByName("body"), fs.ByName("signature")
	if body == nil || body.Kind() != protoreflect.MessageKind || body.IsList() || body.IsMap() {
		ev.Inconclusive("C32: request of %s has no message field 'body'", m.name)
	}
	if sig == nil || sig.Kind() != protoreflect.MessageKind || sig.IsList() || sig.IsMap() {
		ev.Inconclusive("C32: request of %s has no message field 'signature'", m.name)
	}
	sfs := sig.Message().Fields()
	if k := sfs.ByName("key"); k == nil || k.Kind() != protoreflect.BytesKind {
		ev.Inconclusive("C32: signature of %s has no bytes field 'key'", m.name)
	}
	if s := sfs.ByName("sign"); s == nil || s.Kind() != protoreflect.BytesKind {
		ev.Inconclusive("C32: signature of %s has no bytes field 'sign'", m.name)
	}
	if fs.Len() != 2 {
		ev.Inconclusive("C32: request of %s has %d top-level fields, harness knows body+signature only", m.name, fs.Len())
	}
	return req, body, sig
}

func signedData(req proto.Message) []byte {
	b, err := req.(signedMsg).ReadSignedData(nil)
	if err != nil {
		ev.Inconclusive("C32: ReadSignedData: %v", err)
	}
	return b
}

func setSig(req proto.Message, sigFd protoreflect.FieldDescriptor, key, sign []byte) {
	sm := req.ProtoReflect().Mutable(sigFd).Message()
	fs := sigFd.Message().Fields()
	sm.Set(fs.ByName("key"), protoreflect.ValueOfBytes(key))
	sm.Set(fs.ByName("sign"), protoreflect.ValueOfBytes(sign))
}

func getSig(req proto.Message, sigFd protoreflect.FieldDescriptor) (key, sign []byte) {
	if !req.ProtoReflect().Has(sigFd) {
		return nil, nil
	}
	sm := req.ProtoReflect().Get(sigFd).Message()
	fs := sigFd.Message().Fields()
	return bytes.Clone(sm.Get(fs.ByName("key")).Bytes()), bytes.Clone(sm.Get(fs.ByName("sign")).Bytes())
}

// ---------------------------------------------------------------- invocation

type callResult struct {
	resp     any
	err      error
	sent     int // messages sent on the stream
	panicked any // the handler panicked with this value
}

func (r callResult) code() codes.Code { return status.Code(r.err) }

func (r callResult) String() string {
	if r.panicked != nil {
		return fmt.Sprintf("PANIC %v", r.panicked)
	}
	if r.err != nil {
		return fmt.Sprintf("error code=%s (%v)", r.code(), r.err)
	}
	return fmt.Sprintf("OK resp=%T sent=%d", r.resp, r.sent)
}

// fakeStream is the transport side of a server-streaming call.
type fakeStream struct {
	ctx  context.Context
	wire []byte
	typ  reflect.Type
	recv int
	sent int
}

func (s *fakeStream) SetHeader(metadata.MD) error  { return nil }
func (s *fakeStream) SendHeader(metadata.MD) error { return nil }
func (s *fakeStream) SetTrailer(metadata.MD)       {}
func (s *fakeStream) Context() context.Context     { return s.ctx }
func (s *fakeStream) SendMsg(any) error            { s.sent++; return nil }
func (s *fakeStream) RecvMsg(m any) error {
	s.recv++
	if s.recv > 1 {
		return io.EOF
	}
	if reflect.TypeOf(m) != s.typ {
		ev.Inconclusive("C32: stream handler decodes %T, interface says %v", m, s.typ)
	}
	return proto.Unmarshal(s.wire, m.(proto.Message))
}

// invoke sends req over the (simulated) wire to the generated handler of m.
func (m *method) invoke(srv any, req proto.Message) (res callResult) {
	defer func() {
		if p := recover(); p != nil {
			res.panicked = p
			res.err = status.Errorf(codes.Unknown, "handler panicked: %v", p)
		}
	}()
	wire, err := proto.Marshal(req)
	if err != nil {
		ev.Inconclusive("C32: marshal %s request: %v", m.name, err)
	}
	if m.streaming {
		st := &fakeStream{ctx: context.Background(), wire: wire, typ: m.reqType}
		res.err = m.stream(srv, st)
		res.sent = st.sent
		return res
	}
	dec := func(in any) error {
		if reflect.TypeOf(in) != m.reqType {
			ev.Inconclusive("C32: handler of %s decodes %T, interface says %v", m.name, in, m.reqType)
		}
		return proto.Unmarshal(wire, in.(proto.Message))
	}
	resp, err := m.unary(srv, context.Background(), dec, nil)
	if resp != nil && !reflect.ValueOf(resp).IsNil() {
		res.resp = resp
	}
	res.err = err
	return res
}

// ---------------------------------------------------------------- call log of fakes

type callLog struct{ calls []string }

func (l *callLog) add(format string, a ...any) { l.calls = append(l.calls, fmt.Sprintf(format, a...)) }
func (l *callLog) n() int                      { return len(l.calls) }
func (l *callLog) since(n int) string          { return strings.Join(l.calls[n:], "; ") }

package c32

import (
	"bytes"
	"fmt"
	"strings"

	"github.com/nspcc-dev/neofs-node/verifharness/ev"
	"google.golang.org/protobuf/proto"
	"google.golang.org/protobuf/reflect/protoreflect"
	"pgregory.net/rapid"
)

// ---------------------------------------------------------------- symbolic body values
//
// Bodies are generated symbolically ("shard #1", "address of live object #2",
// "existing dump file") and materialised against a concrete server fixture, so
// that the same generated body can be sent to the pristine server and to its
// live twin (whose shard IDs and directories differ).

type tok struct {
	Sym string // shard | addr | path | bytes | str | num | bool | msg
	Idx int
	Raw []byte
	Str string
	Num int64
	B   bool
	Sub []fieldSpec
}

func (v tok) String() string {
	switch v.Sym {
	case "shard", "addr", "path":
		return fmt.Sprintf("%s#%d", v.Sym, v.Idx)
	case "bytes":
		return fmt.Sprintf("x%x", v.Raw)
	case "str":
		return fmt.Sprintf("%q", v.Str)
	case "num":
		return fmt.Sprint(v.Num)
	case "bool":
		return fmt.Sprint(v.B)
	case "msg":
		return specString(v.Sub)
	}
	return "?"
}

type fieldSpec struct {
	Name string
	List bool
	Vals []tok
}

func specString(fs []fieldSpec) string {
	var sb strings.Builder
	sb.WriteByte('{')
	for i, f := range fs {
		if i > 0 {
			sb.WriteByte(' ')
		}
		sb.WriteString(f.Name)
		sb.WriteByte('=')
		if f.List {
			sb.WriteByte('[')
		}
		for j, v := range f.Vals {
			if j > 0 {
				sb.WriteByte(',')
			}
			sb.WriteString(v.String())
		}
		if f.List {
			sb.WriteByte(']')
		}
	}
	sb.WriteByte('}')
	return sb.String()
}

// bodySpec describes a request body; Absent means the body field is not set at all.
type bodySpec struct {
	Absent bool
	Fields []fieldSpec
}

func (b bodySpec) String() string {
	if b.Absent {
		return "<no body>"
	}
	return specString(b.Fields)
}

// world resolves symbolic values against a concrete fixture.
type world interface {
	shardID(idx int) []byte
	address(idx int) string
	path(idx int) string
}

// Symbolic indexes. Negative ones do not name anything existing.
const (
	shardBogus  = -1 // well-formed ID of no shard
	shardBadLen = -2 // malformed ID
	nShardSyms  = 3  // shards #0..#2 exist in the storage fixture

	addrTombstoned = 100 // object covered by a tombstone (revivable)
	addrTombstone  = 101 // the tombstone object itself
	addrInDump     = 102 // object present only in the dump file
	addrAbsent     = -1  // well-formed, unknown
	addrMalformed  = -2
	nLiveAddrs     = 6

	pathDump    = 0 // existing valid dump file
	pathFresh   = 1 // not existing file in an existing directory
	pathGarbage = 2 // existing file that is not a dump
	pathNoDir   = 3 // file in a missing directory
)

func lname(fd protoreflect.FieldDescriptor) string { return strings.ToLower(string(fd.Name())) }

func genScalar(t *rapid.T, fd protoreflect.FieldDescriptor, label string) tok {
	n := lname(fd)
	switch fd.Kind() {
	case protoreflect.BytesKind, protoreflect.StringKind:
		switch {
		case strings.Contains(n, "shard"):
			i := rapid.SampledFrom([]int{0, 1, 2, 0, 1, 2, shardBogus, shardBadLen}).Draw(t, label+".shard")
			return tok{Sym: "shard", Idx: i}
		case strings.Contains(n, "address"):
			i := rapid.SampledFrom([]int{0, 1, 2, 3, 4, 5, addrTombstoned, addrTombstoned, addrTombstoned, addrTombstone,
				addrInDump, addrAbsent, addrMalformed}).Draw(t, label+".addr")
			return tok{Sym: "addr", Idx: i}
		case strings.Contains(n, "path"):
			i := rapid.SampledFrom([]int{pathDump, pathDump, pathFresh, pathFresh, pathGarbage, pathNoDir}).Draw(t, label+".path")
			return tok{Sym: "path", Idx: i}
		case strings.Contains(n, "hash"):
			l := rapid.SampledFrom([]int{32, 32, 32, 0, 20, 33}).Draw(t, label+".hashlen")
			return tok{Sym: "bytes", Raw: rapid.SliceOfN(rapid.Byte(), l, l).Draw(t, label+".hash")}
		case fd.Kind() == protoreflect.StringKind:
			if strings.Contains(n, "method") {
				return tok{Sym: "str", Str: rapid.SampledFrom([]string{"newEpoch", "setConfig", "removeNode", "", "x"}).Draw(t, label+".method")}
			}
			return tok{Sym: "str", Str: rapid.StringN(0, 12, 24).Draw(t, label+".str")}
		default:
			return tok{Sym: "bytes", Raw: rapid.SliceOfN(rapid.Byte(), 0, 40).Draw(t, label+".bytes")}
		}
	case protoreflect.BoolKind:
		return tok{Sym: "bool", B: rapid.Bool().Draw(t, label+".bool")}
	case protoreflect.EnumKind:
		vals := fd.Enum().Values()
		nums := make([]int64, 0, vals.Len()+1)
		for i := range vals.Len() {
			nums = append(nums, int64(vals.Get(i).Number()))
		}
		nums = append(nums, 1000) // unknown enumerator (allowed on the wire by proto3)
		return tok{Sym: "num", Num: rapid.SampledFrom(nums).Draw(t, label+".enum")}
	case protoreflect.Int32Kind, protoreflect.Sint32Kind, protoreflect.Sfixed32Kind:
		return tok{Sym: "num", Num: int64(rapid.Int32().Draw(t, label+".i32"))}
	case protoreflect.Uint32Kind, protoreflect.Fixed32Kind:
		return tok{Sym: "num", Num: int64(rapid.Uint32().Draw(t, label+".u32"))}
	case protoreflect.Int64Kind, protoreflect.Sint64Kind, protoreflect.Sfixed64Kind:
		return tok{Sym: "num", Num: rapid.Int64().Draw(t, label+".i64")}
	case protoreflect.Uint64Kind, protoreflect.Fixed64Kind:
		return tok{Sym: "num", Num: int64(rapid.Uint64().Draw(t, label+".u64"))}
	case protoreflect.MessageKind:
		return tok{Sym: "msg", Sub: genFields(t, fd.Message(), label, 1)}
	}
	ev.Inconclusive("C32: field %s has kind %v the harness cannot generate", fd.FullName(), fd.Kind())
	return tok{}
}

func genFields(t *rapid.T, md protoreflect.MessageDescriptor, label string, depth int) []fieldSpec {
	if depth > 3 {
		return nil
	}
	fds := md.Fields()
	res := make([]fieldSpec, 0, fds.Len())
	for i := range fds.Len() {
		fd := fds.Get(i)
		if fd.IsMap() || fd.ContainingOneof() != nil && !fd.HasOptionalKeyword() {
			ev.Inconclusive("C32: field %s is a map/oneof; teach the harness about it", fd.FullName())
		}
		l := label + "." + string(fd.Name())
		fs := fieldSpec{Name: string(fd.Name()), List: fd.IsList()}
		if fd.IsList() {
			n := rapid.SampledFrom([]int{1, 1, 1, 1, 0, 2, 3}).Draw(t, l+".len")
			for j := range n {
				fs.Vals = append(fs.Vals, genScalar(t, fd, fmt.Sprintf("%s[%d]", l, j)))
			}
		} else {
			fs.Vals = []tok{genScalar(t, fd, l)}
		}
		res = append(res, fs)
	}
	return res
}

// genBody generates a body for the request whose body field is bodyFd.
func genBody(bodyFd protoreflect.FieldDescriptor) *rapid.Generator[bodySpec] {
	return rapid.Custom(func(t *rapid.T) bodySpec {
		if rapid.IntRange(0, 19).Draw(t, "bodyAbsent") == 0 {
			return bodySpec{Absent: true}
		}
		return bodySpec{Fields: genFields(t, bodyFd.Message(), "body", 0)}
	})
}

func scalarValue(w world, fd protoreflect.FieldDescriptor, v tok, m protoreflect.Message, list protoreflect.List) protoreflect.Value {
	var raw []byte
	switch v.Sym {
	case "shard":
		raw = w.shardID(v.Idx)
	case "addr":
		raw = []byte(w.address(v.Idx))
	case "path":
		raw = []byte(w.path(v.Idx))
	case "bytes":
		raw = v.Raw
	case "str":
		raw = []byte(v.Str)
	}
	switch fd.Kind() {
	case protoreflect.BytesKind:
		return protoreflect.ValueOfBytes(bytes.Clone(raw))
	case protoreflect.StringKind:
		return protoreflect.ValueOfString(strings.ToValidUTF8(string(raw), "?"))
	case protoreflect.BoolKind:
		return protoreflect.ValueOfBool(v.B)
	case protoreflect.EnumKind:
		return protoreflect.ValueOfEnum(protoreflect.EnumNumber(v.Num))
	case protoreflect.Int32Kind, protoreflect.Sint32Kind, protoreflect.Sfixed32Kind:
		return protoreflect.ValueOfInt32(int32(v.Num))
	case protoreflect.Uint32Kind, protoreflect.Fixed32Kind:
		return protoreflect.ValueOfUint32(uint32(v.Num))
	case protoreflect.Int64Kind, protoreflect.Sint64Kind, protoreflect.Sfixed64Kind:
		return protoreflect.ValueOfInt64(v.Num)
	case protoreflect.Uint64Kind, protoreflect.Fixed64Kind:
		return protoreflect.ValueOfUint64(uint64(v.Num))
	case protoreflect.MessageKind:
		var sub protoreflect.Message
		if list != nil {
			sub = list.NewElement().Message()
		} else {
			sub = m.NewField(fd).Message()
		}
		fill(w, sub, v.Sub)
		return protoreflect.ValueOfMessage(sub)
	}
	ev.Inconclusive("C32: cannot materialise field %s", fd.FullName())
	return protoreflect.Value{}
}

func fill(w world, m protoreflect.Message, fs []fieldSpec) {
	fds := m.Descriptor().Fields()
	for _, f := range fs {
		fd := fds.ByName(protoreflect.Name(f.Name))
		if fd == nil {
			ev.Inconclusive("C32: field %s vanished from %s", f.Name, m.Descriptor().FullName())
		}
		if f.List {
			l := m.Mutable(fd).List()
			for _, v := range f.Vals {
				l.Append(scalarValue(w, fd, v, m, l))
			}
			continue
		}
		m.Set(fd, scalarValue(w, fd, f.Vals[0], m, nil))
	}
}

// materialise writes spec into the body of req.
func materialise(w world, req proto.Message, bodyFd protoreflect.FieldDescriptor, spec bodySpec) {
	if spec.Absent {
		return
	}
	fill(w, req.ProtoReflect().Mutable(bodyFd).Message(), spec.Fields)
}

// mutateBody changes one generated field of the (already materialised) body so
// that the body a client would sign differs. pick selects the field and the
// kind of change. It reports false if the body has nothing to change.
func mutateBody(req proto.Message, bodyFd protoreflect.FieldDescriptor, pick int) bool {
	body := req.ProtoReflect().Mutable(bodyFd).Message()
	fds := body.Descriptor().Fields()
	if fds.Len() == 0 {
		return false
	}
	fd := fds.Get(pick % fds.Len())
	alt := (pick/fds.Len())%2 == 1
	bump := func(v protoreflect.Value) (protoreflect.Value, bool) {
		switch fd.Kind() {
		case protoreflect.BytesKind:
			b := bytes.Clone(v.Bytes())
			if len(b) == 0 || alt {
				b = append(b, 0x01)
			} else {
				b[len(b)/2] ^= 0x01
			}
			return protoreflect.ValueOfBytes(b), true
		case protoreflect.StringKind:
			return protoreflect.ValueOfString(v.String() + "x"), true
		case protoreflect.BoolKind:
			return protoreflect.ValueOfBool(!v.Bool()), true
		case protoreflect.EnumKind:
			return protoreflect.ValueOfEnum(v.Enum() + 1), true
		case protoreflect.Int32Kind, protoreflect.Sint32Kind, protoreflect.Sfixed32Kind:
			return protoreflect.ValueOfInt32(int32(v.Int()) + 1), true
		case protoreflect.Int64Kind, protoreflect.Sint64Kind, protoreflect.Sfixed64Kind:
			return protoreflect.ValueOfInt64(v.Int() + 1), true
		case protoreflect.Uint32Kind, protoreflect.Fixed32Kind:
			return protoreflect.ValueOfUint32(uint32(v.Uint()) + 1), true
		case protoreflect.Uint64Kind, protoreflect.Fixed64Kind:
			return protoreflect.ValueOfUint64(v.Uint() + 1), true
		}
		return v, false
	}
	if fd.IsList() {
		l := body.Mutable(fd).List()
		if l.Len() > 0 && alt {
			l.Truncate(l.Len() - 1)
			return true
		}
		if l.Len() > 0 && fd.Kind() != protoreflect.MessageKind {
			nv, ok := bump(l.Get(l.Len() - 1))
			if ok {
				l.Set(l.Len()-1, nv)
			}
			return ok
		}
		if fd.Kind() == protoreflect.MessageKind {
			l.Append(l.NewElement())
			return true
		}
		nv, ok := bump(l.NewElement())
		if ok {
			l.Append(nv)
		}
		return ok
	}
	if fd.Kind() == protoreflect.MessageKind {
		if body.Has(fd) {
			body.Clear(fd)
		} else {
			body.Set(fd, body.NewField(fd))
		}
		return true
	}
	nv, ok := bump(body.Get(fd))
	if ok {
		body.Set(fd, nv)
	}
	return ok
}

package c32

import (
	"crypto/ecdsa"
	"errors"
	"fmt"

	"github.com/nspcc-dev/neo-go/pkg/util"
	ircontrol "github.com/nspcc-dev/neofs-node/pkg/services/control/ir"
	irsrv "github.com/nspcc-dev/neofs-node/pkg/services/control/ir/server"
	"github.com/nspcc-dev/neofs-node/verifharness/ev"
	"google.golang.org/protobuf/proto"
)

func irService() *service {
	return &service{
		name:    "ir",
		methods: enumerate("ir", &ircontrol.ControlService_ServiceDesc),
		sign: func(k *ecdsa.PrivateKey, m proto.Message) error {
			sm, ok := m.(irsrv.SignedMessage)
			if !ok {
				ev.Inconclusive("C32 ir: %T is not a SignedMessage", m)
			}
			return irsrv.SignMessage(k, sm)
		},
	}
}

// irFix is the inner ring control server with recording dependencies.
type irFix struct {
	srv *irsrv.Server
	log callLog
}

type irHealth struct{ f *irFix }

func (h irHealth) HealthStatus() ircontrol.HealthStatus {
	h.f.log.add("health.HealthStatus")
	return ircontrol.HealthStatus_READY
}

type irNotary struct{ f *irFix }

func (n irNotary) ListNotaryRequests() ([]util.Uint256, error) {
	n.f.log.add("notary.ListNotaryRequests")
	return []util.Uint256{{1}, {2}}, nil
}

func (n irNotary) RequestNotary(method string, args ...[]byte) (util.Uint256, error) {
	n.f.log.add("notary.RequestNotary(%q,%x)", method, args)
	if method == "" {
		return util.Uint256{}, errors.New("empty method")
	}
	return util.Uint256{3}, nil
}

func (n irNotary) SignNotary(h util.Uint256) error {
	n.f.log.add("notary.SignNotary(%s)", h.StringLE())
	return nil
}

func newIRFix() *irFix {
	f := new(irFix)
	var p irsrv.Prm
	p.SetPrivateKey(*keyServer)
	p.SetHealthChecker(irHealth{f})
	p.SetNetworkManager(irNotary{f})
	f.srv = irsrv.New(p, irsrv.WithAllowedKeys([][]byte{pub(keyAdminA), pub(keyAdminB)}))
	return f
}

// target
func (f *irFix) server() any       { return f.srv }
func (f *irFix) observe() string   { return fmt.Sprint(f.log.n()) }
func (f *irFix) effects() *callLog { return &f.log }
func (f *irFix) invalidate()       {}

// allowed: the configured keys plus the server's own key (documented by irsrv.New).
func (f *irFix) allowed() [][]byte {
	return [][]byte{pub(keyAdminA), pub(keyAdminB), pub(keyServer)}
}

// world: IR bodies have no shard/address/path fields today; resolve generically.
func (f *irFix) shardID(int) []byte { return []byte("no-such-shard-id") }
func (f *irFix) address(int) string { return "not/an/address" }
func (f *irFix) path(int) string    { return "/nonexistent/c32" }

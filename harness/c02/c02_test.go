// Package c02 decides property C02: after any history the per-type object
// counters (PHY, ROOT, TS, LOCK, LINK) equal a recount, and the per-container
// object number / payload size equal number / total payload of the stored
// physical objects not marked for removal. Two oracles: (a) the recount of the
// reference model (package metamodel) and (b) the metabase's own forced recount
// (SyncCounters) applied to a COPY of the bbolt file, which must change nothing.
package c02

import (
	"fmt"
	"os"
	"path/filepath"
	"testing"

	meta "github.com/nspcc-dev/neofs-node/pkg/local_object_storage/metabase"
	"pgregory.net/rapid"

	"github.com/nspcc-dev/neofs-node/verifharness/ev"
	mm "github.com/nspcc-dev/neofs-node/verifharness/metamodel"
	"github.com/nspcc-dev/neofs-node/verifharness/metamodel/drv"
	"github.com/nspcc-dev/neofs-node/verifharness/snap"
	"github.com/nspcc-dev/neofs-node/verifharness/stor"
	"github.com/nspcc-dev/neofs-node/verifharness/uni"
)

// state is what the property talks about.
type state struct {
	C    meta.ObjectCounters
	Info [uni.NContainers]meta.ContainerInfo
}

func (s state) typed() [5]uint64 { return [5]uint64{s.C.Phy, s.C.Root, s.C.TS, s.C.Lock, s.C.Link} }

func (s state) String() string {
	r := fmt.Sprintf("phy=%d root=%d ts=%d lock=%d link=%d (gc=%d payload=%d)", s.C.Phy, s.C.Root, s.C.TS, s.C.Lock, s.C.Link, s.C.GC, s.C.Payload)
	for i, ci := range s.Info {
		r += fmt.Sprintf(" c%d{n=%d size=%d}", i, ci.ObjectsNumber, ci.StorageSize)
	}
	return r
}

func read(db *meta.DB) (state, error) {
	var (
		s   state
		err error
	)
	if s.C, err = db.ObjectCounters(); err != nil {
		return s, err
	}
	for i := range s.Info {
		if s.Info[i], err = db.GetContainerInfo(uni.Cnr(i)); err != nil {
			return s, err
		}
	}
	return s, nil
}

func modelState(m *mm.Model) state {
	var s state
	c := m.Counters()
	s.C.Phy, s.C.Root, s.C.TS, s.C.Lock, s.C.Link = c.Phy, c.Root, c.TS, c.Lock, c.Link
	for i := range s.Info {
		s.Info[i].ObjectsNumber, s.Info[i].StorageSize = m.ContainerInfo(i)
	}
	return s
}

// resync copies the bbolt file (no transaction is open: the test is single
// threaded and every metabase call has returned), opens the copy and returns
// its state before and after a forced SyncCounters.
func resync(metaPath, scratch string) (before, after state, err error) {
	_ = os.RemoveAll(scratch)
	if err = os.MkdirAll(scratch, 0o700); err != nil {
		return
	}
	cp := filepath.Join(scratch, "meta")
	if err = snap.Copy(metaPath, cp); err != nil {
		return
	}
	// read-only first: a read-write Init recounts by itself when a counter key is missing
	ro := meta.New(stor.MetaOpts(cp, &stor.Epoch{})...)
	if err = ro.Open(true); err != nil {
		return
	}
	before, err = read(ro)
	_ = ro.Close()
	if err != nil {
		return
	}
	db, err := stor.OpenMeta(cp, &stor.Epoch{})
	if err != nil {
		return
	}
	defer func() { _ = db.Close() }()
	if err = db.SyncCounters(); err != nil {
		return
	}
	after, err = read(db)
	return
}

// resyncRO reads the state of a read-only opened copy of the bbolt file.
func resyncRO(metaPath, scratch string) (before, after state, err error) {
	_ = os.RemoveAll(scratch)
	if err = os.MkdirAll(scratch, 0o700); err != nil {
		return
	}
	cp := filepath.Join(scratch, "meta")
	if err = snap.Copy(metaPath, cp); err != nil {
		return
	}
	ro := meta.New(stor.MetaOpts(cp, &stor.Epoch{})...)
	if err = ro.Open(true); err != nil {
		return
	}
	before, err = read(ro)
	_ = ro.Close()
	return before, before, err
}

type caseCtx struct {
	rec     *ev.Recorder
	w       *drv.World
	bound   uint64
	maxSeen [5]uint64
}

func (c *caseCtx) compare(t *rapid.T, live state, metaPath, scratch string, doSync bool) {
	w := c.w
	want := modelState(w.M)
	for ci := 0; ci < w.Cat.NC; ci++ {
		// recorded finding 1 followed: a mark on an absent ID is counted in the GC counter
		// while it exists (number = max(0, phy-gc)); it must vanish with the mark
		if n := uint64(w.Phantoms(ci)); n > 0 && !has(w.M.RemovedContainers(), ci) {
			if want.Info[ci].ObjectsNumber > n {
				want.Info[ci].ObjectsNumber -= n
			} else {
				want.Info[ci].ObjectsNumber = 0
			}
		}
	}
	fail := func(f string, a ...any) {
		t.Fatalf("%s\n  metabase: %s\n  recount : %s\nepoch %d, history:\n  %s", fmt.Sprintf(f, a...), live, want, w.Epoch, w.History())
	}
	names := [5]string{"PHY", "ROOT", "TS", "LOCK", "LINK"}
	lt, wt := live.typed(), want.typed()
	for i := range lt {
		// (d) no wrap-around: never more than the number of distinct IDs of the universe
		if lt[i] > c.bound || live.C.GC > c.bound || live.C.Payload > c.bound*200 {
			fail("counter %s=%d (gc=%d payload=%d) exceeds the universe bound %d: wrap-around or multiple counting", names[i], lt[i], live.C.GC, live.C.Payload, c.bound)
		}
		if lt[i] != wt[i] {
			fail("(a) %s counter = %d, recount of the model = %d", names[i], lt[i], wt[i])
		}
	}
	for ci := 0; ci < w.Cat.NC; ci++ {
		if live.Info[ci] != want.Info[ci] {
			fail("(c) GetContainerInfo(c%d) = {number %d, size %d}, stored physical objects not marked for removal: {number %d, size %d}",
				ci, live.Info[ci].ObjectsNumber, live.Info[ci].StorageSize, want.Info[ci].ObjectsNumber, want.Info[ci].StorageSize)
		}
	}
	if !doSync {
		return
	}
	before, after, err := resync(metaPath, scratch)
	if err != nil {
		ev.Inconclusive("resync on a copy: %v", err)
	}
	if before.typed() != live.typed() || before.Info != live.Info {
		ev.Inconclusive("copy of the metabase differs from the live one before SyncCounters:\n  live %s\n  copy %s", live, before)
	}
	if after.typed() != before.typed() {
		fail("(b) SyncCounters on a copy changes the typed counters: before %s, after %s", before, after)
	}
	for ci := 0; ci < w.Cat.NC; ci++ {
		if after.Info[ci] != before.Info[ci] {
			fail("(b) SyncCounters on a copy changes GetContainerInfo(c%d): before {number %d, size %d}, after {number %d, size %d}",
				ci, before.Info[ci].ObjectsNumber, before.Info[ci].StorageSize, after.Info[ci].ObjectsNumber, after.Info[ci].StorageSize)
		}
	}
}

func has(s []int, x int) bool {
	for _, v := range s {
		if v == x {
			return true
		}
	}
	return false
}

func nontrivial(w *drv.World) bool {
	for _, k := range []string{"dup-put", "re-mark", "redundant-then-default", "revive", "ts-on-absent", "ts-on-child", "parent-dropped-with-last-child"} {
		if w.Seen[k] {
			return true
		}
	}
	return false
}

func finish(rec *ev.Recorder, w *drv.World) {
	reportKnown(rec, w)
	nt := nontrivial(w)
	labels := w.Labels()
	if nt {
		labels = append(labels, "nontrivial")
	}
	rec.Case(nt, w.Fingerprint(), labels...)
	if nt && rec.WantSample() {
		rec.Sample(map[string]any{"ops": w.Ops})
	}
}

func TestC02Metabase(t *testing.T) {
	rec := ev.New("C02", "metabase")
	defer rec.Flush()
	rapid.Check(t, func(t *rapid.T) {
		cat := mm.CatalogGen(mm.CatalogOpts{}).Draw(t, "catalog")
		dir, cleanup := drv.TempDir("c02-")
		defer cleanup()
		ep := &stor.Epoch{}
		b, err := drv.OpenMetaBackend(filepath.Join(dir, "db"), ep)
		if err != nil {
			ev.Inconclusive("open metabase: %v", err)
		}
		defer func() { _ = b.Close() }()
		w := drv.NewWorld(cat, b, ep)
		applyKnown(w)
		cc := &caseCtx{rec: rec, w: w, bound: uint64(cat.NC*uni.NObjects + 1)}
		defer finish(rec, w)
		acts := w.Actions()
		step := 0
		acts[""] = func(t *rapid.T) {
			step++
			live, err := read(b.DB)
			if err != nil {
				t.Fatalf("read counters: %v", err)
			}
			cc.compare(t, live, b.Path, filepath.Join(dir, "copy"), ev.Thorough() || step%3 == 0)
		}
		t.Repeat(acts)
	})
}

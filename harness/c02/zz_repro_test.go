package c02

import (
	"testing"

	meta "github.com/nspcc-dev/neofs-node/pkg/local_object_storage/metabase"
	oid "github.com/nspcc-dev/neofs-sdk-go/object/id"

	"github.com/nspcc-dev/neofs-node/verifharness/stor"
	"github.com/nspcc-dev/neofs-node/verifharness/uni"
)

func sp(kind string, id int) uni.Spec {
	return uni.Spec{Kind: kind, ID: id, Exp: -1, Parent: -1, ParentExp: -1, First: -1}
}

func show(t *testing.T, db *meta.DB, what string) {
	c, _ := db.ObjectCounters()
	i, _ := db.GetContainerInfo(uni.Cnr(0))
	t.Logf("%-45s phy=%d root=%d ts=%d lock=%d link=%d gc=%d payload=%d | number=%d size=%d", what, c.Phy, c.Root, c.TS, c.Lock, c.Link, c.GC, c.Payload, i.ObjectsNumber, i.StorageSize)
}

func open(t *testing.T) (*meta.DB, string) {
	p := t.TempDir() + "/m"
	db, err := stor.OpenMeta(p, &stor.Epoch{})
	if err != nil {
		t.Fatal(err)
	}
	return db, p
}

func TestReproF7(t *testing.T) { // tombstone on a split parent: link payload stays counted forever
	db, _ := open(t)
	defer db.Close()
	last := sp(uni.ChildV2, 1)
	last.First, last.Parent, last.ParentLen, last.PayloadLen = 3, 0, 100, 32
	link := sp(uni.Link, 2)
	link.First, link.Parent, link.ParentLen, link.PayloadLen = 3, 0, 100, 8
	first := sp(uni.ChildV2, 3)
	first.PayloadLen = 64
	ts := sp(uni.Tombstone, 4)
	ts.Target = 0
	for _, s := range []uni.Spec{first, last, link} {
		if err := db.Put(uni.Build(s)); err != nil {
			t.Fatal(err)
		}
	}
	show(t, db, "first+last+link stored")
	t.Log(db.Put(uni.Build(ts)))
	show(t, db, "tombstone on the parent")
	_, _, err := db.Delete(uni.Cnr(0), []oid.ID{uni.OID(1), uni.OID(2), uni.OID(3)})
	show(t, db, "GC deleted the parts"+func() string { if err != nil { return err.Error() }; return "" }())
}

func TestReproF2(t *testing.T) { // restart changes ObjectsNumber
	db, p := open(t)
	ts := sp(uni.Tombstone, 4)
	ts.Target = 0
	t.Log(db.Put(uni.Build(ts)))
	show(t, db, "tombstone for an object not stored here")
	db.Close()
	db, _ = stor.OpenMeta(p, &stor.Epoch{})
	defer db.Close()
	show(t, db, "after close + open")
}

func TestReproF6(t *testing.T) { // two tombstones for one object
	db, _ := open(t)
	defer db.Close()
	x, y := sp(uni.Regular, 0), sp(uni.Regular, 1)
	x.PayloadLen, y.PayloadLen = 32, 7
	t1, t2 := sp(uni.Tombstone, 4), sp(uni.Tombstone, 5)
	t.Log(db.Put(uni.Build(x)), db.Put(uni.Build(y)))
	show(t, db, "X(32) Y(7)")
	t.Log(db.Put(uni.Build(t1)))
	show(t, db, "T1->X")
	t.Log(db.Put(uni.Build(t2)))
	show(t, db, "T2->X")
}

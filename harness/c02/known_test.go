package c02

import (
	"github.com/nspcc-dev/neofs-node/verifharness/ev"
	"github.com/nspcc-dev/neofs-node/verifharness/metamodel/drv"
)

// Fingerprints of suspected / recorded findings and the history class that is
// excluded by construction while the finding is open.
var findings = []struct{ fp, avoid string }{
	{"C02:gc-counter-counts-marks-of-absent-or-virtual-objects", "mark-nonphysical"},
	{"C02:put-over-garbage-mark-counts-object-twice", "reput-over-mark"},
	{"C02:revive-adds-phy-root-payload-again", "revive"},
	{"C02:tombstone-on-marked-target-subtracts-payload-twice", "ts-on-marked"},
	{"C02:resync-counts-payload-of-redundant-marked-objects", "mark-redundant"},
	{"C02:resync-gc-counts-marks-of-absent-objects", "ts-nonphysical"},
	{"C02:tombstone-keeps-payload-of-link-objects", "ts-link"},
	{"C02:mark-of-physical-parent-keeps-its-payload", "mark-phy-parent"},
	{"C02:tombstone-on-redundant-marked-target-counts-garbage-twice", "ts-on-redundant"},
}

// applyKnown excludes, by construction, the history classes of findings that
// are recorded as open (see known_findings.json).
func applyKnown(w *drv.World) {
	for _, f := range findings {
		if ev.IsOpen("C02", f.fp) {
			w.Avoid[f.avoid] = true
			if f.avoid == "mark-nonphysical" {
				// narrowed: marks on absent IDs are generated and the defective counting is followed
				w.FollowAbsentMarks = true
			}
		}
	}
}

// reportKnown records which recorded findings the generator actually ran into.
func reportKnown(rec *ev.Recorder, w *drv.World) {
	for _, f := range findings {
		if n := w.Excluded[f.avoid]; n > 0 {
			rec.Known(f.fp)
			rec.Excluded(int64(n))
		}
	}
}

package c02

import (
	"fmt"
	"path/filepath"
	"testing"

	"github.com/nspcc-dev/neofs-node/pkg/local_object_storage/blobstor/fstree"
	meta "github.com/nspcc-dev/neofs-node/pkg/local_object_storage/metabase"
	"github.com/nspcc-dev/neofs-node/pkg/local_object_storage/shard"
	cid "github.com/nspcc-dev/neofs-sdk-go/container/id"
	"github.com/nspcc-dev/neofs-sdk-go/object"
	oid "github.com/nspcc-dev/neofs-sdk-go/object/id"
	"pgregory.net/rapid"

	"github.com/nspcc-dev/neofs-node/verifharness/ev"
	mm "github.com/nspcc-dev/neofs-node/verifharness/metamodel"
	"github.com/nspcc-dev/neofs-node/verifharness/metamodel/drv"
	"github.com/nspcc-dev/neofs-node/verifharness/stor"
	"github.com/nspcc-dev/neofs-node/verifharness/uni"
)

const (
	fpMetrics       = "C02:shard-metrics-not-updated-by-inhume-container-and-revive"
	fpMetricsParent = "C02:put-counters-diff-omits-implicit-parent"
)

// metrics records what the shard reports through its MetricsWriter.
type metrics struct {
	obj     map[string]int64
	cnr     map[string]int64
	payload int64
}

func newMetrics() *metrics { return &metrics{obj: map[string]int64{}, cnr: map[string]int64{}} }

func (m *metrics) SetObjectCounter(t string, v uint64)  { m.obj[t] = int64(v) }
func (m *metrics) AddToObjectCounter(t string, d int)   { m.obj[t] += int64(d) }
func (m *metrics) AddToContainerSize(c string, v int64) { m.cnr[c] += v }
func (m *metrics) AddToPayloadSize(v int64)             { m.payload += v }
func (m *metrics) IncObjectCounter(t string)            { m.obj[t]++ }
func (m *metrics) DecObjectCounter(t string)            { m.obj[t]-- }
func (m *metrics) SetShardID(string)                    {}
func (m *metrics) SetReadonly(bool)                     {}
func (m *metrics) typed() [5]int64 {
	return [5]int64{m.obj["phy"], m.obj["root"], m.obj["ts"], m.obj["lock"], m.obj["link"]}
}

// shardBackend applies the history through a real shard (FSTree + metabase, no write-cache).
type shardBackend struct {
	cfg stor.ShardCfg
	s   *shard.Shard
	mw  *metrics
}

func openShardBackend(dir string, ep *stor.Epoch) (*shardBackend, error) {
	b := &shardBackend{cfg: stor.ShardCfg{Dir: dir, Epoch: ep,
		// one object per file: universe OIDs repeat across containers (see HARNESS.md pitfall)
		FSTOpts: []fstree.Option{fstree.WithCombinedCountLimit(1)}}}
	return b, b.open()
}

func (b *shardBackend) open() error {
	b.mw = newMetrics()
	cfg := b.cfg
	cfg.Extra = []shard.Option{shard.WithMetricsWriter(b.mw)}
	s, err := stor.OpenShard(cfg)
	b.s = s
	return err
}

func (b *shardBackend) Put(o *object.Object) error { return b.s.Put(o, nil) }
func (b *shardBackend) MarkGarbage(c cid.ID, ids []oid.ID, mark meta.GarbageMark) error {
	return b.s.MarkGarbage(c, ids, mark)
}
func (b *shardBackend) Delete(c cid.ID, ids []oid.ID) error { return b.s.Delete(c, ids) }
func (b *shardBackend) InhumeContainer(c cid.ID) error      { return b.s.InhumeContainer(c) }
func (b *shardBackend) DeleteContainer(cid.ID) error {
	return fmt.Errorf("not driven through the shard")
}
func (b *shardBackend) Revive(a oid.Address) (meta.ReviveStatus, error) { return b.s.ReviveObject(a) }
func (b *shardBackend) Reopen() error {
	if err := b.s.Close(); err != nil {
		return err
	}
	return b.open()
}
func (b *shardBackend) Close() error { return b.s.Close() }

// TestC02Shard: the same history through shard.Put / MarkGarbage / Delete /
// InhumeContainer / ReviveObject with a recording MetricsWriter.
func TestC02Shard(t *testing.T) {
	rec := ev.New("C02", "shard")
	defer rec.Flush()
	rapid.Check(t, func(t *rapid.T) {
		cat := mm.CatalogGen(mm.CatalogOpts{}).Draw(t, "catalog")
		dir, cleanup := drv.TempDir("c02s-")
		defer cleanup()
		ep := &stor.Epoch{}
		b, err := openShardBackend(filepath.Join(dir, "shard"), ep)
		if err != nil {
			ev.Inconclusive("open shard: %v", err)
		}
		defer func() { _ = b.Close() }()
		w := drv.NewWorld(cat, b, ep)
		w.NoDeleteContainer = true
		applyKnown(w)
		metricsKnown, parentKnown := ev.IsOpen("C02", fpMetrics), ev.IsOpen("C02", fpMetricsParent)
		cc := &caseCtx{rec: rec, w: w, bound: uint64(cat.NC*uni.NObjects + 1)}
		defer finish(rec, w)
		acts := w.Actions()
		step := 0
		acts[""] = func(t *rapid.T) {
			step++
			if !(ev.Thorough() || step%2 == 0) {
				return
			}
			metaPath := stor.MetaPath(b.cfg.Dir)
			before, _, err := resyncRO(metaPath, filepath.Join(dir, "ro"))
			if err != nil {
				ev.Inconclusive("read copy of the shard's metabase: %v", err)
			}
			for ci := 0; ci < cat.NC; ci++ {
				info, err := b.s.ContainerInfo(uni.Cnr(ci))
				if err != nil {
					t.Fatalf("Shard.ContainerInfo: %v", err)
				}
				if info != before.Info[ci] {
					ev.Inconclusive("Shard.ContainerInfo(c%d)=%+v differs from the copy %+v", ci, info, before.Info[ci])
				}
			}
			cc.compare(t, before, metaPath, filepath.Join(dir, "copy"), true)
			// (e) metrics
			if metricsKnown && (w.Seen["container-removed"] || w.Seen["revive"]) {
				rec.Known(fpMetrics)
				rec.Excluded(1)
				return
			}
			mt, ct := b.mw.typed(), before.typed()
			names := [5]string{"phy", "root", "ts", "lock", "link"}
			for i := range mt {
				if names[i] == "root" && parentKnown && w.Seen["child"] {
					rec.Known(fpMetricsParent)
					rec.Excluded(1)
					continue
				}
				if mt[i] != int64(ct[i]) {
					t.Fatalf("(e) shard metric %q = %d, metabase counter = %d\n  metabase: %s\nhistory:\n  %s", names[i], mt[i], ct[i], before, w.History())
				}
			}
			for ci := 0; ci < cat.NC; ci++ {
				if got := b.mw.cnr[uni.Cnr(ci).EncodeToString()]; got != int64(before.Info[ci].StorageSize) {
					t.Fatalf("(e) shard container size metric of c%d = %d, GetContainerInfo size = %d\n  metabase: %s\nhistory:\n  %s", ci, got, before.Info[ci].StorageSize, before, w.History())
				}
			}
		}
		t.Repeat(acts)
	})
}

// Package c17 decides property C17: the write-cache eventually flushes
// everything to the main storage (even after transient flush failures) and the
// size it accounts equals the size of the objects it actually holds.
//
// Reach: writecache.Cache through its public constructor/API over a
// faultstore-wrapped real FSTree, every case inside a testing/synctest bubble
// (scheduler tick, 10 s error back-off run on fake time; production constants
// are untouched).
//
// Oracle A (liveness as a fixed point): after the last step the storage is
// healed, the clock advanced in 1 s steps until the cache directory listing is
// unchanged for 15 fake seconds; then the directory must hold no object and
// every put-and-not-deleted object must be in the main storage, byte-identical.
//
// Oracle B (accounting through admission): the unit of "size" is
// len(serialized object) (put.go) == file size in the cache dir (state.go
// initCounters); with WithMaxCacheSize(M) and C bytes of objects in the cache
// directory a put of s bytes at a quiescent point is admitted iff C+s <= M.
// Checked on every sequential put and by exact probes (M-C admitted, M-C+1
// rejected with ErrOutOfSpace), also right after reopen.
package c17

import (
	"bytes"
	"errors"
	"fmt"
	"os"
	"path/filepath"
	"sort"
	"strings"
	"sync"
	"testing"
	"testing/synctest"
	"time"

	"github.com/nspcc-dev/neofs-node/pkg/local_object_storage/blobstor/fstree"
	"github.com/nspcc-dev/neofs-node/pkg/local_object_storage/shard/mode"
	"github.com/nspcc-dev/neofs-node/pkg/local_object_storage/writecache"
	"github.com/nspcc-dev/neofs-node/verifharness/bubble"
	"github.com/nspcc-dev/neofs-node/verifharness/ev"
	"github.com/nspcc-dev/neofs-node/verifharness/faultstore"
	"github.com/nspcc-dev/neofs-node/verifharness/stor"
	"github.com/nspcc-dev/neofs-node/verifharness/uni"
	"github.com/nspcc-dev/neofs-node/verifharness/wcobj"
	oid "github.com/nspcc-dev/neofs-sdk-go/object/id"
	"go.uber.org/zap"
	"pgregory.net/rapid"
)

const (
	nWork = 6 // workload addresses: container 0, object 0..5

	// Fingerprints of the three defect classes this check found (all fixed in
	// /repo: c32fca5, 315089e, b6c8119; see known_findings.json). A recurrence
	// is classified in the failure message by the same names.
	fpReput = "C17:reput-double-count"
	fpLeak  = "C17:flushobjs-leak-on-error"
	fpWin   = "C17:batch-window-off-by-one"
)

type step struct {
	Op string // put cput del adv outage pout failon failoff block release probe reopen ro rw flush
	A  []int
	N  int
	B  bool
}

func (s step) String() string {
	switch s.Op {
	case "put", "del":
		return fmt.Sprintf("%s(%d)", s.Op, s.A[0])
	case "cput":
		return fmt.Sprintf("cput%v", s.A)
	case "adv", "outage":
		return fmt.Sprintf("%s(%ds)", s.Op, s.N)
	case "pout":
		return fmt.Sprintf("pout(%v,%ds)", s.A, s.N)
	case "probe":
		return fmt.Sprintf("probe(keep=%v)", s.B)
	}
	return s.Op
}

type cfg struct {
	Thr, BatchCount, BatchSize, Workers, M int
	Sizes                                  [nWork]int
}

func (c cfg) String() string {
	return fmt.Sprintf("thr=%d bcount=%d bsize=%d workers=%d M=%d sizes=%v", c.Thr, c.BatchCount, c.BatchSize, c.Workers, c.M, c.Sizes)
}

var (
	minObjSize    = wcobj.MinObjSize
	objOfSize     = wcobj.ObjOfSize
	sizeReachable = wcobj.SizeReachable
	reach         = wcobj.Reach
	listCache     = wcobj.ListCache
)

func genCfg(t *rapid.T) cfg {
	var c cfg
	c.Thr = rapid.SampledFrom([]int{300, 600}).Draw(t, "thr")
	c.BatchCount = rapid.SampledFrom([]int{2, 3, 128}).Draw(t, "bcount")
	c.BatchSize = rapid.SampledFrom([]int{0, 2*c.Thr + 100}).Draw(t, "bsize")

	c.Workers = rapid.SampledFrom([]int{1, 2, 20}).Draw(t, "workers")
	c.M = rapid.IntRange(1200, 9000).Draw(t, "M")
	for i := range c.Sizes {
		k := rapid.IntRange(0, 1).Draw(t, "k")
		if k == 0 { // small: <= thr (batched)
			c.Sizes[i] = rapid.OneOf(rapid.IntRange(minObjSize, c.Thr), rapid.Just(c.Thr), rapid.Just(c.Thr-1)).Draw(t, "size")
			c.Sizes[i] = reach(c.Sizes[i])
			if c.Sizes[i] > c.Thr {
				c.Sizes[i] = c.Thr
			}
		} else { // big: > thr (flushed singly)
			c.Sizes[i] = rapid.OneOf(rapid.Just(c.Thr+1), rapid.IntRange(c.Thr+1, 3*c.Thr)).Draw(t, "size")
		}
	}
	return c
}

func genSteps(t *rapid.T, faulty bool) []step {
	n := rapid.IntRange(4, 22).Draw(t, "nsteps")
	ops := []string{"put", "put", "put", "put", "cput", "del", "adv", "adv", "adv", "block", "release", "probe", "probe", "reopen", "ro", "rw", "flush"}
	if faulty {
		ops = append(ops, "outage", "outage", "pout", "pout", "failon", "failoff")
	}
	var res []step
	pick := func(lbl string) int { return rapid.IntRange(0, nWork-1).Draw(t, lbl) }
	for len(res) < n {
		s := step{Op: rapid.SampledFrom(ops).Draw(t, "op")}
		switch s.Op {
		case "put":
			s.A = []int{pick("i")}
		case "del":
			s.A = []int{rapid.IntRange(0, nWork-1).Draw(t, "i")}
		case "cput":
			k := rapid.IntRange(2, 4).Draw(t, "k")
			for j := 0; j < k; j++ {
				s.A = append(s.A, pick("i")) // duplicates on purpose
			}
		case "adv":
			s.N = rapid.OneOf(rapid.IntRange(1, 3), rapid.IntRange(1, 12), rapid.Just(25)).Draw(t, "n")
		case "pout": // puts immediately followed by an outage: failures hit a multi-address round
			k := rapid.IntRange(2, 3).Draw(t, "k")
			for j := 0; j < k; j++ {
				s.A = append(s.A, pick("i"))
			}
			s.N = rapid.IntRange(11, 60).Draw(t, "n")
		case "outage":
			s.N = rapid.OneOf(rapid.IntRange(1, 12), rapid.IntRange(13, 60), rapid.Just(90)).Draw(t, "n")
		case "probe":
			s.B = rapid.Bool().Draw(t, "keep")
		}
		res = append(res, s)
	}
	return res
}

// faults is the state shared with the faultstore hooks (called from flush
// workers).
type faults struct {
	mu      sync.Mutex
	failing bool
	gate    chan struct{} // non-nil: Put/PutBatch block until it is closed
	blocked int
	// observations for non-triviality / classification
	cacheN     int  // objects in the cache dir at the last measurement
	cacheMixed bool // cache held both a batched (<=thr) and a single (>thr) object
	failN      int  // injected failures
	failMulti  bool // a failure was injected while the cache held >= 2 objects
	failMixed  bool // ... while it held a mixed small/big content
	multiBatch bool // a tick happened while the content needed >= 2 hand-overs in one scheduler round
}

type obj struct {
	addr oid.Address
	bin  []byte
}

type env struct {
	t      *rapid.T
	rec    *ev.Recorder
	c      cfg
	dir    string
	wcDir  string
	main   *fstree.FSTree
	fs     *faultstore.Store
	wc     writecache.Cache
	ro     bool
	f      *faults
	objs   [nWork]obj
	live   map[oid.Address][]byte // put returned nil, no later successful Delete: must end up in main
	labels map[string]bool
	probes int
	// since the current cache instance was created:
	reput bool // some address was put again (sequentially while cached, or concurrently)
	anyRe bool // over the whole case
	trace []string
}

func (e *env) label(l string) { e.labels[l] = true }

func (e *env) logf(format string, a ...any) {
	e.trace = append(e.trace, fmt.Sprintf("%s  %s", time.Now().Format("04:05.000"), fmt.Sprintf(format, a...)))
}

func (e *env) fatalf(format string, a ...any) {
	e.t.Fatalf("%s\nconfig: %s\ntrace:\n  %s", fmt.Sprintf(format, a...), e.c, strings.Join(e.trace, "\n  "))
}

func (e *env) newCache() {
	opts := []writecache.Option{
		writecache.WithLogger(zap.NewNop()),
		writecache.WithPath(e.wcDir),
		writecache.WithStorage(e.fs),
		writecache.WithMaxCacheSize(uint64(e.c.M)),
		writecache.WithFlushWorkersCount(e.c.Workers),
		writecache.WithMaxFlushBatchThreshold(uint64(e.c.Thr)),
		writecache.WithMaxFlushBatchCount(e.c.BatchCount),
	}
	if e.c.BatchSize > 0 {
		opts = append(opts, writecache.WithMaxFlushBatchSize(uint64(e.c.BatchSize)))
	}
	sleepToPhase(0) // scheduler ticks on whole fake seconds
	e.wc = writecache.New(opts...)
	if err := e.wc.Open(false); err != nil {
		e.fatalf("cache Open: %v", err)
	}
	if err := e.wc.Init(e.main.ShardID()); err != nil {
		e.fatalf("cache Init: %v", err)
	}
	e.ro = false
	e.reput = false
	sleepToPhase(500) // the harness observes half-way between ticks
	synctest.Wait()
}

// sleepToPhase sleeps (fake time) until the millisecond part of the clock is ms.
func sleepToPhase(ms int) {
	now := time.Now()
	target := now.Truncate(time.Second).Add(time.Duration(ms) * time.Millisecond)
	if target.Before(now) {
		target = target.Add(time.Second)
	}
	if d := target.Sub(now); d > 0 {
		time.Sleep(d)
	}
}

func listing(m map[string]int64) string {
	ks := make([]string, 0, len(m))
	for k, v := range m {
		var a oid.Address
		_ = a.DecodeString(k)
		ks = append(ks, fmt.Sprintf("%s:%d", short(a), v))
	}
	sort.Strings(ks)
	return strings.Join(ks, ",")
}

// measure returns the cache content and refreshes the shared observations.
func (e *env) measure() (map[string]int64, int) {
	m, err := listCache(e.wcDir)
	if err != nil {
		ev.Inconclusive("C17: cannot list cache dir: %v", err)
	}
	var sum int64
	small, big := false, false
	for _, sz := range m {
		sum += sz
		if int(sz) > e.c.Thr {
			big = true
		} else {
			small = true
		}
	}
	e.f.mu.Lock()
	e.f.cacheN = len(m)
	e.f.cacheMixed = small && big
	e.f.mu.Unlock()
	return m, int(sum)
}

// needsSecondHandover reports whether one scheduler round over content m has
// to hand over a batch and then continue with further addresses (documented
// batching rules: objects above the threshold go alone, a batch closes at
// maxFlushBatchCount objects or above maxFlushBatchSize bytes).
func (e *env) needsSecondHandover(m map[string]int64) bool {
	sizes := make([]int, 0, len(m))
	for _, sz := range m {
		sizes = append(sizes, int(sz))
	}
	sort.Ints(sizes)
	bsize := e.c.BatchSize
	if bsize == 0 {
		bsize = 8 << 20
	}
	cnt, sum := 0, 0
	for j, sz := range sizes {
		last := j == len(sizes)-1
		if sz > e.c.Thr {
			if !last {
				return true
			}
			continue
		}
		cnt++
		sum += sz
		if cnt >= e.c.BatchCount || sum > bsize {
			if !last {
				return true
			}
			cnt, sum = 0, 0
		}
	}
	return false
}

// tick advances the fake clock by one second (one scheduler tick).
func (e *env) tick() map[string]int64 {
	m, _ := e.measure()
	if e.needsSecondHandover(m) {
		e.f.mu.Lock()
		e.f.multiBatch = true
		e.f.mu.Unlock()
	}
	time.Sleep(time.Second)
	synctest.Wait()
	m, _ = e.measure()
	return m
}

func (e *env) installHooks() {
	f := e.f
	e.fs.SetFail(func(m string, _ []oid.Address) error {
		if m != "Put" && m != "PutBatch" {
			return nil
		}
		f.mu.Lock()
		defer f.mu.Unlock()
		if !f.failing {
			return nil
		}
		f.failN++
		if f.cacheN >= 2 {
			f.failMulti = true
		}
		if f.cacheMixed {
			f.failMixed = true
		}
		return faultstore.ErrInjected
	})
	e.fs.SetBefore(func(m string, _ []oid.Address) {
		if m != "Put" && m != "PutBatch" {
			return
		}
		f.mu.Lock()
		g := f.gate
		if g != nil {
			f.blocked++
		}
		f.mu.Unlock()
		if g != nil {
			<-g
		}
	})
}

func (e *env) setFailing(v bool) {
	e.f.mu.Lock()
	e.f.failing = v
	e.f.mu.Unlock()
}

func (e *env) block() {
	e.f.mu.Lock()
	if e.f.gate == nil {
		e.f.gate = make(chan struct{})
	}
	e.f.mu.Unlock()
}

// release opens the gate and lets the released flushes finish. (The main
// FSTree is opened without combined writes, so storage calls take no fake
// time and synctest.Wait is enough.)
func (e *env) release() {
	e.f.mu.Lock()
	g := e.f.gate
	e.f.gate = nil
	n := e.f.blocked
	e.f.blocked = 0
	e.f.mu.Unlock()
	if g != nil {
		close(g)
		if n > 0 {
			e.label("released-blocked-flush")
		}
	}
	synctest.Wait()
}

func (e *env) gated() bool {
	e.f.mu.Lock()
	defer e.f.mu.Unlock()
	return e.f.gate != nil
}

func (e *env) isFailing() bool {
	e.f.mu.Lock()
	defer e.f.mu.Unlock()
	return e.f.failing
}

func (e *env) advance(sec int) {
	for i := 0; i < sec; i++ {
		e.tick()
	}
}

// violationB reports an accounting violation, classified as the known
// double-count class when the precondition of that class holds.
// It returns true if the case must stop (known finding).
func (e *env) violationB(over bool, format string, a ...any) bool {
	if over && e.reput {
		e.fatalf("[%s] %s (an address was put again while this cache instance was alive: counters.Add adds the size again)", fpReput, fmt.Sprintf(format, a...))
	}
	e.fatalf(format, a...)
	return true
}

// seqPut is a put at a quiescent point with the admission oracle.
func (e *env) seqPut(what string, o obj) (admitted, stop bool) {
	m, c := e.measure()
	_, cached := m[o.addr.EncodeToString()]
	err := e.wc.Put(o.addr, nil, o.bin)
	e.logf("%s %s size=%d content=%d -> %v", what, short(o.addr), len(o.bin), c, err)
	switch {
	case e.ro:
		if !errors.Is(err, writecache.ErrReadOnly) {
			e.fatalf("%s in read-only mode returned %v, want ErrReadOnly", what, err)
		}
		return false, false
	case c+len(o.bin) > e.c.M:
		if err == nil {
			return true, e.violationB(false, "%s of %d bytes ADMITTED although the cache dir holds %d bytes and max size is %d (accounting below real content)", what, len(o.bin), c, e.c.M)
		}
		if !errors.Is(err, writecache.ErrOutOfSpace) {
			e.fatalf("%s: unexpected error %v (want ErrOutOfSpace)", what, err)
		}
		return false, false
	default:
		if errors.Is(err, writecache.ErrOutOfSpace) {
			return false, e.violationB(true, "%s of %d bytes REJECTED with ErrOutOfSpace although the cache dir holds only %d bytes and max size is %d (accounting above real content)", what, len(o.bin), c, e.c.M)
		}
		if err != nil {
			e.fatalf("%s: unexpected error %v", what, err)
		}
		if cached {
			e.reput, e.anyRe = true, true
			e.label("reput-while-cached")
		}
		return true, false
	}
}

func short(a oid.Address) string {
	c, i := uni.Index(a)
	if i < 0 {
		id := a.Object()
		return fmt.Sprintf("c%d/x%d", c, int(id[30])<<8|int(id[31]))
	}
	return fmt.Sprintf("c%d/o%d", c, i)
}

// probe checks the exact admission boundary at a quiescent point.
func (e *env) probe(keep bool) (stop bool) {
	if e.ro {
		e.label("probe-skipped-ro")
		return false
	}
	// probe objects: container 2, object IDs outside the universe (never
	// shared with a workload address), a fresh one per probe
	pc, pi := 2, 100+e.probes
	e.probes++
	_, c := e.measure()
	rem := e.c.M - c
	e.label("probe")
	// one byte too many (or the smallest object when even that does not fit)
	over := rem + 1
	if over < minObjSize {
		over = minObjSize
	}
	over = reach(over)
	a, _, b := objOfSize(pc, pi, over)
	if adm, stop := e.seqPut("probe-over", obj{a, b}); stop || adm {
		return true
	}
	if rem < minObjSize {
		e.label("probe-full")
		return false
	}
	if !sizeReachable(rem) {
		e.label("probe-gap")
		return false
	}
	a, _, b = objOfSize(pc, pi, rem)
	adm, stop := e.seqPut("probe-exact", obj{a, b})
	if stop {
		return true
	}
	if !adm {
		e.fatalf("probe-exact not admitted")
	}
	e.label("probe-exact")
	if c > 0 {
		e.label("probe-exact-nonempty")
	}
	if keep {
		e.live[a] = b
		return false
	}
	if err := e.wc.Delete(a); err != nil {
		e.fatalf("Delete of the probe object just put: %v", err)
	}
	e.logf("probe deleted")
	return false
}

func (e *env) reopen() {
	e.release()
	if err := e.wc.Close(); err != nil {
		e.fatalf("cache Close: %v", err)
	}
	synctest.Wait()
	e.newCache()
	e.logf("reopened")
}

func (e *env) setMode(m mode.Mode) {
	e.release()
	if err := e.wc.SetMode(m); err != nil {
		e.fatalf("SetMode(%v): %v", m, err)
	}
	e.ro = m.ReadOnly()
	e.logf("mode %v", m)
}

func (e *env) run(s step) (stop bool) {
	switch s.Op {
	case "put", "pout":
		for _, i := range s.A {
			o := e.objs[i]
			adm, stop := e.seqPut("put", o)
			if stop {
				return true
			}
			if adm {
				if _, was := e.live[o.addr]; was {
					e.label("reput")
				}
				e.live[o.addr] = o.bin
			}
		}
		if s.Op == "pout" {
			e.setFailing(true)
			e.advance(s.N)
			e.setFailing(false)
			e.logf("outage %ds over", s.N)
		}
	case "cput":
		errs := make([]error, len(s.A))
		var wg sync.WaitGroup
		for k, i := range s.A {
			wg.Add(1)
			go func() {
				defer wg.Done()
				errs[k] = e.wc.Put(e.objs[i].addr, nil, e.objs[i].bin)
			}()
		}
		wg.Wait()
		seen := map[int]bool{}
		for k, i := range s.A {
			e.logf("cput %s size=%d -> %v", short(e.objs[i].addr), len(e.objs[i].bin), errs[k])
			switch {
			case errs[k] == nil:
				if seen[i] {
					e.reput, e.anyRe = true, true
					e.label("reput-concurrent")
				}
				if _, was := e.live[e.objs[i].addr]; was {
					e.reput, e.anyRe = true, true // possibly still cached: conservatively in the class
					e.label("reput")
				}
				seen[i] = true
				e.live[e.objs[i].addr] = e.objs[i].bin
			case errors.Is(errs[k], writecache.ErrOutOfSpace), errors.Is(errs[k], writecache.ErrReadOnly) && e.ro:
			default:
				e.fatalf("concurrent put: unexpected error %v", errs[k])
			}
		}
	case "del":
		o := e.objs[s.A[0]]
		err := e.wc.Delete(o.addr)
		e.logf("del %s -> %v", short(o.addr), err)
		if err == nil {
			delete(e.live, o.addr)
		}
	case "adv":
		e.advance(s.N)
	case "outage":
		e.setFailing(true)
		e.advance(s.N)
		e.setFailing(false)
		e.logf("outage %ds over", s.N)
	case "failon":
		e.setFailing(true)
	case "failoff":
		e.setFailing(false)
	case "block":
		e.block()
	case "release":
		e.release()
	case "probe":
		return e.probe(s.B)
	case "reopen":
		e.reopen()
		e.label("reopen")
	case "ro":
		e.setMode(mode.ReadOnly)
	case "rw":
		e.setMode(mode.ReadWrite)
	case "flush":
		if e.gated() || e.ro {
			e.label("flush-skipped")
			return false
		}
		err := e.wc.Flush(false)
		synctest.Wait()
		e.logf("flush -> %v", err)
		if err != nil && !e.isFailing() {
			e.fatalf("explicit Flush with healthy storage: %v", err)
		}
	}
	e.measure()
	return false
}

// drain heals everything and advances the clock to the fixed point; it returns
// the cache listing at quiescence.
func (e *env) drain() map[string]int64 {
	e.setFailing(false)
	e.release()
	if e.ro {
		e.setMode(mode.ReadWrite)
	}
	var (
		last   string
		stable int
		m      map[string]int64
	)
	m, _ = e.measure()
	last = listing(m)
	for sec := 0; sec < 240; sec++ {
		m = e.tick()
		if l := listing(m); l == last {
			stable++
		} else {
			last, stable = l, 0
		}
		if stable >= 15 {
			e.logf("quiescent after %d s: [%s]", sec+1, last)
			return m
		}
	}
	e.fatalf("no fixed point within 240 fake seconds of healthy storage: cache listing keeps changing (%s)", last)
	return nil
}

// checkDrained is oracle A. It returns true if the case must stop.
func (e *env) checkDrained(m map[string]int64) (stop bool) {
	if len(m) > 0 {
		allBig := true
		for _, sz := range m {
			if int(sz) <= e.c.Thr {
				allBig = false
			}
		}
		e.f.mu.Lock()
		failMixed, multiBatch := e.f.failMixed, e.f.multiBatch
		e.f.mu.Unlock()
		msg := fmt.Sprintf("objects never flushed: the cache dir still holds [%s] after the storage was healthy and the listing was unchanged for 15 s (> error back-off 10 s + tick 1 s)", listing(m))
		if multiBatch || allBig && failMixed {
			// Preconditions of the two known "address stuck in the in-flight
			// set" classes: (win) a scheduler round had to hand over a batch and
			// continue with further addresses; (leak) a flush failed while the
			// cache held a batch of small objects followed by a big one.
			// Confirm: a NEW cache instance (empty in-flight set) drains the rest.
			fp, why := fpWin, "precondition of this class held: some scheduler round needed a second hand-over (batch window restart)"
			if !multiBatch {
				fp, why = fpLeak, "precondition of this class held: a flush error arrived while a small batch was followed by a big object (error path of the scheduler)"
			}
			e.label("stuck-hit:" + fp)
			e.reopen()
			if m2 := e.drain(); len(m2) > 0 {
				e.fatalf("%s; and a fresh cache instance does not flush them either: [%s]", msg, listing(m2))
			}
			e.fatalf("[%s] %s; a fresh cache instance over the same directory flushes them, so the address was stuck in the in-flight set (flushObjs) of the old instance; %s", fp, msg, why)
		}
		e.fatalf("%s", msg)
	}
	for a, b := range e.live {
		got, err := e.main.GetBytes(a)
		if err != nil {
			e.fatalf("object %s was put successfully, not deleted, the cache is drained, but the main storage returns: %v", short(a), err)
		}
		if !bytes.Equal(got, b) {
			e.fatalf("object %s differs in the main storage after flush (%d vs %d bytes)", short(a), len(got), len(b))
		}
	}
	return false
}

func TestC17(t *testing.T) {
	rec := ev.New("C17", "writecache")
	defer rec.Flush()
	// All draws happen OUTSIDE the synctest bubble (plain rapid.Check), only the
	// execution runs inside bubble.Run: rapid's internal "invalid data" panics of
	// shrink candidates then keep their own tracebacks and can never be taken
	// for the (re-raised) failure of the case.
	tt := t
	rapid.Check(t, func(t *rapid.T) {
		faulty := rapid.IntRange(0, 2).Draw(t, "faulty") > 0
		c := genCfg(t)
		steps := genSteps(t, faulty)
		zsize := reach(minObjSize + rapid.IntRange(0, 300-minObjSize).Draw(t, "zsize"))
		bubble.Run(tt, func() { runCase(t, rec, c, steps, zsize) })
	})
}

func runCase(t *rapid.T, rec *ev.Recorder, c cfg, steps []step, zsize int) {
	{

		dir, err := os.MkdirTemp("", "c17")
		if err != nil {
			ev.Inconclusive("C17: mkdtemp: %v", err)
		}
		defer os.RemoveAll(dir)
		main, err := stor.OpenFSTree(filepath.Join(dir, "blob"), fstree.WithCombinedCountLimit(1))
		if err != nil {
			ev.Inconclusive("C17: open main FSTree: %v", err)
		}
		defer main.Close()

		e := &env{t: t, rec: rec, c: c, dir: dir, wcDir: filepath.Join(dir, "wc"), main: main, fs: faultstore.New(main),
			f: &faults{}, live: map[oid.Address][]byte{}, labels: map[string]bool{}}
		for i := range e.objs {
			a, _, b := objOfSize(0, i, c.Sizes[i])
			e.objs[i] = obj{a, b}
		}
		e.installHooks()

		names := make([]string, len(steps))
		for i, s := range steps {
			names[i] = s.String()
		}
		fp := c.String() + " | " + strings.Join(names, " ")
		defer func() {
			e.f.mu.Lock()
			nontrivial := e.anyRe || e.f.failMulti
			if e.f.failMulti {
				e.label("fail-with-2+cached")
			}
			if e.f.failMixed {
				e.label("fail-with-mixed-sizes")
			}
			if e.f.multiBatch {
				e.label("round-with-2+handovers")
			}
			if e.f.failN > 0 {
				e.label("flush-failure-injected")
			}
			e.f.mu.Unlock()
			ls := make([]string, 0, len(e.labels))
			for l := range e.labels {
				ls = append(ls, l)
			}
			sort.Strings(ls)
			rec.Case(nontrivial, fp, ls...)
			if rec.WantSample() {
				rec.Sample(map[string]any{"config": c.String(), "steps": names, "labels": ls})
			}
		}()

		e.newCache()
		closed := false
		defer func() {
			if !closed {
				e.f.mu.Lock()
				g := e.f.gate
				e.f.gate = nil
				e.f.mu.Unlock()
				if g != nil {
					close(g)
				}
				_ = e.wc.Close()
			}
		}()

		for _, s := range steps {
			e.logf("-- %s", s)
			if e.run(s) {
				return
			}
		}

		// Oracle A at the fixed point.
		m := e.drain()
		if e.checkDrained(m) {
			return
		}
		// Oracle B on the drained cache: exactly M bytes fit.
		if e.probe(false) {
			return
		}
		// Oracle B after a restart with content: one fresh object stays in the
		// cache (no tick between put and close), the new instance recounts.
		{
			z, _, zb := objOfSize(0, 99, zsize)
			if len(zb) <= e.c.M {
				adm, stop := e.seqPut("put-before-restart", obj{z, zb})
				if stop {
					return
				}
				if adm {
					e.live[z] = zb
				}
			}
			e.reopen()
			if _, c := e.measure(); c > 0 {
				e.label("restart-with-content")
			}
			if e.probe(false) {
				return
			}
			m = e.drain()
			if e.checkDrained(m) {
				return
			}
		}
		if err := e.wc.Close(); err != nil {
			e.fatalf("final Close: %v", err)
		}
		closed = true
	}
}

package c17

// Directed minimal reproductions of the three defects found by TestC17 (fixed
// in /repo by c32fca5, b6c8119, 315089e), kept as regression tests of the unit:
//
//	/verif/vgo test -run TestC17Regress -count=1 -v ./c17/
//
// Each prints what it observed and fails when the defect is (again) present.

import (
	"errors"
	"os"
	"path/filepath"
	"testing"
	"testing/synctest"
	"time"

	"github.com/nspcc-dev/neofs-node/pkg/local_object_storage/blobstor/fstree"
	"github.com/nspcc-dev/neofs-node/pkg/local_object_storage/writecache"
	"github.com/nspcc-dev/neofs-node/verifharness/ev"
	"github.com/nspcc-dev/neofs-node/verifharness/faultstore"
	"github.com/nspcc-dev/neofs-node/verifharness/stor"
	oid "github.com/nspcc-dev/neofs-sdk-go/object/id"
	"go.uber.org/zap"
)

// regress records the directed case in the evidence.
func regress(name string) func() {
	rec := ev.New("C17", "regress-"+name)
	rec.Case(true, name, "regression")
	return rec.Flush
}

func reproCache(t *testing.T, opts ...writecache.Option) (writecache.Cache, *faultstore.Store, string) {
	dir, err := os.MkdirTemp("", "c17repro")
	if err != nil {
		t.Fatal(err)
	}
	t.Cleanup(func() { os.RemoveAll(dir) })
	main, err := stor.OpenFSTree(filepath.Join(dir, "blob"), fstree.WithCombinedCountLimit(1))
	if err != nil {
		t.Fatal(err)
	}
	fs := faultstore.New(main)
	wc := writecache.New(append([]writecache.Option{
		writecache.WithLogger(zap.NewNop()),
		writecache.WithPath(filepath.Join(dir, "wc")),
		writecache.WithStorage(fs),
	}, opts...)...)
	if err := wc.Open(false); err != nil {
		t.Fatal(err)
	}
	if err := wc.Init(main.ShardID()); err != nil {
		t.Fatal(err)
	}
	return wc, fs, filepath.Join(dir, "wc")
}

// put X; put X again while it is still cached; let it flush: the cache is empty
// but still accounts len(X) bytes, so an object of exactly max-size is refused.
func TestC17RegressReputDoubleCount(t *testing.T) {
	defer regress("reput-double-count")()
	synctest.Test(t, func(t *testing.T) {
		const M = 2000
		wc, _, dir := reproCache(t, writecache.WithMaxCacheSize(M))
		defer wc.Close()
		a, _, b := objOfSize(0, 0, 300)
		for i := 0; i < 2; i++ {
			if err := wc.Put(a, nil, b); err != nil {
				t.Fatal(err)
			}
		}
		time.Sleep(5 * time.Second)
		synctest.Wait()
		m, _ := listCache(dir)
		pa, _, pb := objOfSize(2, 100, M)
		err := wc.Put(pa, nil, pb)
		t.Logf("cache dir after flush: %v; put of exactly max size (%d bytes) -> %v", m, M, err)
		if len(m) != 0 {
			t.Fatalf("cache not drained")
		}
		if errors.Is(err, writecache.ErrOutOfSpace) {
			t.Fatalf("empty cache refuses an object of exactly WithMaxCacheSize bytes: %v", err)
		}
	})
}

// two objects above the batch threshold put within one scheduler tick: the
// second one is never handed to a worker (the first is handed over twice) and
// stays in the in-flight set for the life time of the cache instance.
func TestC17RegressTwoBigObjects(t *testing.T) {
	defer regress("two-big-objects-one-tick")()
	synctest.Test(t, func(t *testing.T) {
		wc, fs, dir := reproCache(t, writecache.WithMaxFlushBatchThreshold(300))
		defer wc.Close()
		fs.Record = true
		for i := 0; i < 2; i++ {
			a, _, b := objOfSize(0, i, 301+i)
			if err := wc.Put(a, nil, b); err != nil {
				t.Fatal(err)
			}
		}
		time.Sleep(120 * time.Second)
		synctest.Wait()
		m, _ := listCache(dir)
		for _, c := range fs.Calls() {
			t.Logf("storage call %s %v -> %v", c.Method, c.Addrs, c.Err)
		}
		if len(m) != 0 {
			t.Fatalf("after 120 s of healthy storage the cache still holds %v", m)
		}
	})
}

// same with the default threshold: maxFlushBatchCount+1 small objects.
func TestC17RegressBatchCountPlusOne(t *testing.T) {
	defer regress("batch-count-plus-one")()
	synctest.Test(t, func(t *testing.T) {
		wc, _, dir := reproCache(t, writecache.WithMaxFlushBatchCount(3))
		defer wc.Close()
		for i := 0; i < 4; i++ {
			a, _, b := objOfSize(0, i, 200+i)
			if err := wc.Put(a, nil, b); err != nil {
				t.Fatal(err)
			}
		}
		time.Sleep(120 * time.Second)
		synctest.Wait()
		m, _ := listCache(dir)
		if len(m) != 0 {
			t.Fatalf("after 120 s of healthy storage the cache still holds %v", m)
		}
	})
}

// one small and one big object cached while the main storage fails for a few
// back-off periods; after it is healthy again the big object is never flushed.
// (Depends on Go's random select choice inside the scheduler: ~25 % per
// back-off round, hence the long outage.)
func TestC17RegressLeakOnError(t *testing.T) {
	defer regress("leak-on-error")()
	synctest.Test(t, func(t *testing.T) {
		wc, fs, dir := reproCache(t, writecache.WithMaxFlushBatchThreshold(300))
		defer wc.Close()
		fs.SetFail(func(m string, _ []oid.Address) error {
			if (m == "Put" || m == "PutBatch") && time.Since(time.Date(2000, 1, 1, 0, 0, 0, 0, time.UTC)) < 400*time.Second {
				return faultstore.ErrInjected
			}
			return nil
		})
		for i, sz := range []int{200, 400} {
			a, _, b := objOfSize(0, i, sz)
			if err := wc.Put(a, nil, b); err != nil {
				t.Fatal(err)
			}
		}
		time.Sleep(600 * time.Second) // healthy from t=400 s on
		synctest.Wait()
		m, _ := listCache(dir)
		if len(m) != 0 {
			t.Fatalf("200 s after the storage became healthy the cache still holds %v", m)
		}
	})
}

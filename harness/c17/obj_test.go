package c17

import (
	"fmt"
	"strings"

	"github.com/nspcc-dev/neofs-node/verifharness/uni"
	"github.com/nspcc-dev/neofs-sdk-go/object"
	oid "github.com/nspcc-dev/neofs-sdk-go/object/id"
)

// minObjSize is the encoded size of a universe object with an empty payload
// (computed once; it is the same for every (container, id) pair because all
// header fields have fixed widths).
var minObjSize = len(uni.Build(spec(0, 0, 0, "")).Marshal())

func spec(c, i, plen int, pad string) uni.Spec {
	s := uni.Spec{Kind: uni.Regular, Cnr: c, ID: i, Exp: -1, Parent: -1, ParentExp: -1, First: -1, PayloadLen: plen}
	if pad != "" {
		s.Attrs = [][2]string{{"p", pad}}
	}
	return s
}

// sizeReachable reports whether objOfSize can build an object of n bytes: the
// empty-payload object, or anything from minObjSize+5 up (a non-empty payload
// or a padding attribute costs at least 3 bytes; 148..151 are not reachable).
func sizeReachable(n int) bool { return n == minObjSize || n >= minObjSize+5 }

// objOfSize builds a valid regular object of container c / object index i whose
// canonical binary encoding is EXACTLY n bytes long (n >= minObjSize). The
// write-cache counts len(data) of the encoded object (writecache/put.go:
// objSz := uint64(len(data))) and on reopen the file size, which is the same
// number because the cache's FSTree stores objects uncompressed and uncombined.
func objOfSize(c, i, n int) (oid.Address, *object.Object, []byte) {
	if !sizeReachable(n) {
		panic(fmt.Sprintf("objOfSize: %d not reachable (min %d)", n, minObjSize))
	}
	// protobuf length prefixes make a few exact sizes unreachable by payload
	// length alone; a padding attribute shifts the reachable set.
	for pad := 0; pad < 6; pad++ {
		p := ""
		if pad > 0 {
			p = strings.Repeat("x", pad)
		}
		plen := n - minObjSize
		for try := 0; try < 8 && plen >= 0; try++ {
			o := uni.Build(spec(c, i, plen, p))
			if i >= uni.NObjects {
				o.SetID(extraID(i))
			}
			b := o.Marshal()
			if len(b) == n {
				return o.Address(), o, b
			}
			d := n - len(b)
			if d > 0 && try > 2 {
				break // oscillating around a varint boundary
			}
			plen += d
		}
	}
	panic(fmt.Sprintf("objOfSize: cannot build object of %d bytes", n))
}

// extraID returns object ID number i >= uni.NObjects outside the shared
// universe. Every object ID is used with ONE container only: real object IDs
// are hashes covering the container ID, and FSTree's combined (batch) file
// format finds entries by object ID alone.
func extraID(i int) oid.ID {
	var id oid.ID
	id[0], id[1], id[30], id[31] = 0xee, byte(i>>8), byte(i>>8), byte(i)
	return id
}

package c13

import (
	"fmt"
	"testing"

	"github.com/nspcc-dev/neofs-node/verifharness/fshelper"
	"github.com/nspcc-dev/neofs-node/verifharness/fsobj"
	"github.com/nspcc-dev/neofs-node/verifharness/sysinject"
)

func TestDebugDoubleSync(t *testing.T) {
	w := &workload{kind: "sequential"}
	s := &w.spec
	s.Depth, s.CntLim, s.Thr, s.SizeLim, s.NoSync, s.IntervalUs, s.WatchdogMs, s.OpMarks = 1, 8, 4096, 100, false, 300, 4000, true
	for i := 0; i < 5; i++ {
		s.Objects = append(s.Objects, fsobj.Spec{Idx: i, Seed: 7, Payload: 100})
	}
	s.Probes = []int{3, 4}
	s.Phases = []fshelper.Phase{{Workers: [][]fshelper.Op{{{Kind: fshelper.OpPut, Objs: []int{0}}, {Kind: fshelper.OpPut, Objs: []int{1}}}}}}
	objs := w.spec.Universe()
	o, hang, note := evaluateOnce(w, objs, fault{inj: []sysinject.Inject{{Syscall: "linkat", Errno: "ENOSPC", When: "1"}}})
	fmt.Printf("hang=%v note=%s\nknown=%q labels=%v\nviol=%s\nincon=%s\n", hang, note, o.known, o.labels, o.viol, o.incon)
}

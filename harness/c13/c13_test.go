// Package c13 decides property C13: when a file-system call used by a blob
// write fails, the affected writes report an error, the process keeps running,
// unaffected writes still succeed and no write reports success for an object
// that cannot be read back.
//
// Technique: syscall error injection with strace (sysinject) into a helper
// process that runs a generated FSTree workload (fshelper). Two generators:
//
//   - sequential: one worker on the locked main thread, so `when=<base+k>`
//     addresses the k-th call of the workload deterministically; every
//     instance of every injectable syscall of the workload is failed once
//     (single faults), plus sampled double faults and short-write (retval)
//     injections; batch limits are tiny so that faults coincide with a batch
//     reaching its count/size limit, and lone small puts exercise the
//     background sync timer (fdatasync/close on another thread);
//   - concurrent: 8-32 goroutines issue 1-300 combined writes while one or two
//     inject expressions fire (per-thread counters => the number and place of
//     faults is measured from the trace, not assumed).
//
// Which calls were really tampered with is read from the trace ("(INJECTED)").
package c13

import (
	"fmt"
	"os"
	"runtime"
	"sort"
	"strings"
	"sync"
	"testing"
	"time"

	"github.com/nspcc-dev/neofs-node/verifharness/ev"
	"github.com/nspcc-dev/neofs-node/verifharness/fshelper"
	"github.com/nspcc-dev/neofs-node/verifharness/fsobj"
	"github.com/nspcc-dev/neofs-node/verifharness/sysinject"
	"pgregory.net/rapid"
)

func TestMain(m *testing.M) {
	if sysinject.IsHelper() {
		fshelper.Main()
	}
	os.Exit(m.Run())
}

const (
	runTimeout      = 90 * time.Second
	watchdogMs      = 4000  // first attempt: no operation finishes for 4 s (normal operations take milliseconds)
	retryWatchdogMs = 12000 // attempts 2 and 3 at the same injection point
)

// Two defects found by this check are fixed in /repo (1dcbd3a: second intSync after a failed link when the batch
// reached its size limit => panic "close of closed channel"; ad24da7: batchLock left locked when opening a new batch
// file fails => every later combined write blocks). Both outcomes (process death, reproduced hang) are asserted.

type workload struct {
	spec fshelper.Spec
	pre  []int
	kind string
}

func (w *workload) String() string {
	var ph []string
	for _, p := range w.spec.Phases {
		var ws []string
		for _, wk := range p.Workers {
			var ops []string
			for _, o := range wk {
				ops = append(ops, o.String())
			}
			ws = append(ws, strings.Join(ops, " "))
		}
		if len(ws) == 1 {
			ph = append(ph, ws[0])
		} else {
			ph = append(ph, fmt.Sprintf("{%d workers: %s}", len(ws), strings.Join(ws, " | ")))
		}
	}
	var sz []string
	for i, o := range w.spec.Objects {
		sz = append(sz, fmt.Sprintf("#%d:%d", i, o.Payload))
	}
	s := fmt.Sprintf("%s pre=%v probes=%v ops=%s payloads=[%s]", w.spec.String(), w.pre, w.spec.Probes, strings.Join(ph, " ; "), strings.Join(sz, " "))
	if len(s) > 6000 {
		s = s[:6000] + "…"
	}
	return s
}

func seq(n int) []int {
	r := make([]int, n)
	for i := range r {
		r[i] = i
	}
	return r
}

func genObjects(t *rapid.T, s *fshelper.Spec, n int, small bool) {
	seed := rapid.Uint64().Draw(t, "seed")
	for i := 0; i < n; i++ {
		o := fsobj.Spec{Idx: i, Seed: seed, Cnr: i % 2}
		c := rapid.IntRange(0, 9).Draw(t, "sizeClass")
		switch {
		case small || c < 6:
			o.Payload = rapid.IntRange(0, 200).Draw(t, "payload")
		case c < 8:
			o.Payload = max(1, s.Thr-150+rapid.IntRange(-40, 40).Draw(t, "payloadAroundThr"))
		default:
			o.Payload = rapid.IntRange(s.Thr, s.Thr+3000).Draw(t, "payloadBig")
		}
		s.Objects = append(s.Objects, o)
	}
}

// genSequential: 3-9 operations on the main thread, last objects reserved as probes.
func genSequential(t *rapid.T, first bool) *workload {
	w := &workload{kind: "sequential"}
	s := &w.spec
	const n = 14
	s.Depth = rapid.IntRange(0, 2).Draw(t, "depth")
	s.Generic = rapid.IntRange(0, 3).Draw(t, "writer") == 0
	if first {
		// first workload of a shard: writer by shard number (both writers are covered even when the time budget
		// cuts a run down to one workload per shard)
		k, _ := ev.Shard()
		s.Generic = k%2 == 1
	}
	s.CntLim = rapid.SampledFrom([]int{2, 3, 4, 8}).Draw(t, "cntLim")
	s.Thr = rapid.SampledFrom([]int{1024, 4096}).Draw(t, "thr")
	// a few hundred bytes: most combined writes cross the size limit (members are 150-400 bytes)
	s.SizeLim = rapid.SampledFrom([]int{100, 200, 300, 300, 500, 900, 1 << 20}).Draw(t, "sizeLim")
	s.NoSync = rapid.IntRange(0, 4).Draw(t, "noSync") == 0
	s.IntervalUs = 300
	s.WatchdogMs = watchdogMs
	s.OpMarks = true
	s.Pad = 48
	genObjects(t, s, n, false)
	s.Probes = []int{n - 3, n - 2, n - 1}
	for _, p := range s.Probes {
		s.Objects[p].Payload = 50 + p // small: probes go through the combined writer (unless generic)
	}
	w.pre = rapid.SliceOfNDistinct(rapid.IntRange(0, n-4), 0, 2, rapid.ID[int]).Draw(t, "pre")
	sort.Ints(w.pre)
	nops := rapid.IntRange(3, 9).Draw(t, "nops")
	var ops []fshelper.Op
	for k := 0; k < nops; k++ {
		switch rapid.SampledFrom([]string{"put", "put", "put", "batch", "batch", "batchmap"}).Draw(t, "kind") {
		case "put":
			ops = append(ops, fshelper.Op{Kind: fshelper.OpPut, Objs: []int{rapid.IntRange(0, n-4).Draw(t, "i")}})
		case "batch":
			m := rapid.IntRange(1, 5).Draw(t, "n")
			ops = append(ops, fshelper.Op{Kind: fshelper.OpBatch, Objs: rapid.Permutation(seq(n-3)).Draw(t, "members")[:m]})
		default:
			m := rapid.IntRange(1, 5).Draw(t, "n")
			mm := append([]int(nil), rapid.Permutation(seq(n-3)).Draw(t, "members")[:m]...)
			sort.Ints(mm)
			ops = append(ops, fshelper.Op{Kind: fshelper.OpBatchMap, Objs: mm})
		}
	}
	s.Phases = []fshelper.Phase{{Workers: [][]fshelper.Op{ops}}}
	return w
}

// genConcurrent: 1-300 combined writes from 8-32 goroutines (plus sometimes a second phase), tiny batch limits.
func genConcurrent(t *rapid.T) *workload {
	w := &workload{kind: "concurrent"}
	s := &w.spec
	s.Depth = rapid.IntRange(0, 1).Draw(t, "depth")
	s.CntLim = rapid.IntRange(2, 8).Draw(t, "cntLim")
	s.Thr = 2048
	s.SizeLim = rapid.SampledFrom([]int{200, 400, 800, 1600, 1 << 20}).Draw(t, "sizeLim")
	s.NoSync = rapid.IntRange(0, 4).Draw(t, "noSync") == 0
	s.IntervalUs = rapid.SampledFrom([]int{100, 1000, 5000}).Draw(t, "intervalUs")
	s.WatchdogMs = watchdogMs
	total := rapid.OneOf(rapid.IntRange(1, 40), rapid.IntRange(41, 300)).Draw(t, "writes")
	nw := rapid.IntRange(8, 32).Draw(t, "goroutines")
	s.LockWorker = rapid.Bool().Draw(t, "lockWorkerThreads")
	genObjects(t, s, total+3, true)
	s.Probes = []int{total, total + 1, total + 2}
	workers := make([][]fshelper.Op, nw)
	for i := 0; i < total; i++ {
		k := rapid.IntRange(0, nw-1).Draw(t, "worker")
		workers[k] = append(workers[k], fshelper.Op{Kind: fshelper.OpPut, Objs: []int{i}})
	}
	var ws [][]fshelper.Op
	for _, wk := range workers {
		if len(wk) > 0 {
			ws = append(ws, wk)
		}
	}
	if len(ws) == 1 { // keep it concurrent-shaped: a lone worker still runs as goroutine next to an idle one
		ws = append(ws, []fshelper.Op{})
	}
	s.Phases = []fshelper.Phase{{Workers: ws}}
	return w
}

func workers() int {
	n := runtime.NumCPU()
	if n > 8 {
		n = 8
	}
	if n < 2 {
		n = 2
	}
	return n
}

var errnos = []string{"ENOSPC", "EIO", "EDQUOT"}

// faultSyscalls are the calls a blob write performs (Linux and generic writers, directory creation included).
var faultSyscalls = []string{"openat", "write", "writev", "linkat", "fdatasync", "fsync", "close", "renameat", "renameat2", "mkdirat"}

func isFaultSyscall(n string) bool {
	for _, s := range faultSyscalls {
		if s == n {
			return true
		}
	}
	return false
}

// batchInfo describes the combined batch an injected call belongs to, reconstructed from the trace.
type batchInfo struct {
	isBatch bool
	members int   // successful writev calls on that temp file up to the fault
	bytes   int64 // bytes written to it up to the fault
}

// batchOf reconstructs, for the injected event at index at, whether it addresses an O_TMPFILE batch file
// (a temp file written with writev) and how full the batch was.
func batchOf(r *sysinject.Result, at int) batchInfo {
	e := r.Events[at]
	path := e.FdPath()
	if e.Name == "linkat" {
		// linkat(AT_FDCWD, "/proc/self/fd/N", ...): map N to the temp file it named at that time
		ps := e.Paths()
		if len(ps) > 0 && strings.HasPrefix(ps[0], "/proc/self/fd/") {
			fd := strings.TrimPrefix(ps[0], "/proc/self/fd/")
			for i := at - 1; i >= 0; i-- {
				o := r.Events[i]
				if o.Name == "openat" && strings.HasPrefix(o.Ret, fd+"<") {
					path = strings.TrimSuffix(strings.TrimPrefix(o.Ret, fd+"<"), ">")
					if k := strings.Index(path, ">"); k >= 0 {
						path = path[:k]
					}
					break
				}
			}
		}
	}
	if path == "" || !strings.Contains(path, "/#") {
		return batchInfo{}
	}
	var bi batchInfo
	for i := 0; i <= at; i++ {
		o := r.Events[i]
		if o.Name == "writev" && o.FdPath() == path {
			bi.isBatch = true
			if n, ok := o.RetInt(); ok && !o.Injected {
				bi.members++
				bi.bytes += n
			}
		}
	}
	if e.Name == "writev" {
		bi.isBatch = true
	}
	return bi
}

type fault struct {
	inj []sysinject.Inject
	tag string
}

func (f fault) String() string {
	var s []string
	for _, i := range f.inj {
		s = append(s, i.String())
	}
	return strings.Join(s, " + ")
}

type outcome struct {
	f        fault
	viol     string // property violation
	incon    string // inconclusive (harness) reason
	labels   []string
	nontriv  bool
	injected int
	discard  bool
}

// evaluate runs one fault case (retrying hangs) and applies the oracle.
func evaluate(w *workload, objs []*fsobj.Obj, f fault) (o outcome) {
	o.f = f
	hangs := 0
	var lastHang string
	const tries = 3
	for attempt := 0; attempt < tries; attempt++ {
		wa := *w
		if attempt > 0 {
			wa.spec.WatchdogMs = retryWatchdogMs // rule out a merely slow machine before calling it a hang
		}
		o2, hang, hangNote := evaluateOnce(&wa, objs, f)
		if !hang {
			if hangs > 0 {
				// a hang that did not reproduce at the same injection point is not a verdict
				// the verdict is the one of the completed retry at the same injection point (all oracles applied);
				// the stall is only counted – on a loaded machine a 4 s stall of a ptrace-stopped helper happens
				o2.labels = append(o2.labels, "hang-not-reproduced")
				_ = lastHang
			}
			return o2
		}
		hangs++
		lastHang = hangNote
		o = o2
	}
	// reproduced `tries` times at the same injection point
	o.labels = append(o.labels, "hang-reproduced-3x")
	{
		o.viol = fmt.Sprintf("the storage hangs (no operation finishes for %d ms, then twice for %d ms: reproduced %d times at the same injection point): %s", watchdogMs, retryWatchdogMs, tries, lastHang)
	}
	return o
}

func evaluateOnce(w *workload, objs []*fsobj.Obj, f fault) (o outcome, hang bool, hangNote string) {
	o.f = f
	run, err := fshelper.Execute(w.spec, w.pre, f.inj, runTimeout)
	if err != nil {
		o.incon = err.Error()
		return
	}
	defer run.Cleanup()
	res, rr := run.Trace, run.Results
	start := res.Mark("start")
	inj := res.Injected()
	if start < 0 {
		o.discard = true
		o.labels = []string{"discarded-foreign-injection"}
		return
	}
	var inWork []int
	for _, i := range inj {
		if i > start {
			inWork = append(inWork, i)
		}
	}
	// ---- what was really hit?
	foreign := false
	var injDesc []string
	sizeCross, multi, timerThread := false, false, false
	for _, i := range inj {
		e := res.Events[i]
		injDesc = append(injDesc, fmt.Sprintf("%s(%s) = %s [tid %d]", e.Name, short(e.Args, 160), e.Ret, e.Tid))
		if i < start {
			// the per-thread counter of the main thread fired during start-up. A failed close there only leaks a
			// descriptor (Go ignores it); anything else may break the helper itself => not a case of the domain
			if e.Name != "close" && !strings.HasPrefix(e.Args, "-1") { // "-1": the helper's padding calls
				foreign = true
			}
			continue
		}
		if !run.UnderRoot(e) {
			foreign = true
			continue
		}
		o.labels = append(o.labels, "fault-on-"+e.Name)
		if e.Tid != res.MainTid && w.kind == "sequential" {
			timerThread = true
		}
		bi := batchOf(res, i)
		if bi.isBatch {
			o.labels = append(o.labels, "fault-on-combined-batch")
			if bi.members >= 2 {
				multi = true
			}
			if bi.members >= w.spec.CntLim || bi.bytes >= int64(w.spec.SizeLim) {
				sizeCross = true
			}
		}
	}
	if foreign {
		// the per-thread counter fired on a call that is not part of a blob write (runtime eventfd, stderr,
		// start-up files): not a fault sequence of the property's domain
		o.discard = true
		o.labels = []string{"discarded-foreign-injection"}
		return
	}
	inj = inWork
	o.injected = len(inj)
	switch {
	case len(inj) == 0:
		o.labels = append(o.labels, "faults-0")
	case len(inj) == 1:
		o.labels = append(o.labels, "faults-1")
	case len(inj) == 2:
		o.labels = append(o.labels, "faults-2")
	default:
		o.labels = append(o.labels, "faults-3+")
	}
	if multi {
		o.labels = append(o.labels, "fault-in-batch-with-2+-members")
	}
	if sizeCross {
		o.labels = append(o.labels, "fault-at-batch-limit")
	}
	if timerThread {
		o.labels = append(o.labels, "fault-on-sync-timer-thread")
	}
	o.nontriv = multi || sizeCross
	ctx := func() string {
		return fmt.Sprintf("\ninjection: %s\ninjected calls (from the trace): %s\nworkload: %s\nhelper stderr (tail):\n%s",
			f, strings.Join(injDesc, "; "), w, tail(res.Stderr, 2500))
	}

	// ---- (4) hang
	if res.ExitCode == fshelper.ExitWatchdog || res.TimedOut {
		hang = true
		hangNote = fmt.Sprintf("exit=%d timedOut=%v%s", res.ExitCode, res.TimedOut, ctx())
		return
	}
	// ---- (1) process keeps running
	if res.ExitCode != 0 || res.Signal != "" || res.Crashed() || !rr.Finished {
		if res.ExitCode == fshelper.ExitHarness {
			o.incon = "helper could not start: " + string(res.Stderr)
			return
		}
		o.viol = fmt.Sprintf("the process does not survive the failing call: exit=%d signal=%q finished=%v%s", res.ExitCode, res.Signal, rr.Finished, ctx())
		return
	}
	// ---- (2) success => readable, and nothing readable is wrong
	flat := w.spec.FlatOps()
	mh := map[int]string{}
	for _, i := range w.pre {
		mh[i] = "it was stored before the workload started"
	}
	for k, op := range flat {
		if rr.Ops[k].State == fshelper.StOK {
			for _, i := range op.Objs {
				mh[i] = fmt.Sprintf("operation %d %s reported success", k, op)
			}
		}
	}
	if verr := fshelper.Verify(run.Spec, objs, fshelper.VerifyOpts{MustHave: mh}); verr != nil {
		if _, isViol := verr.(*fshelper.Violation); !isViol {
			o.incon = verr.Error()
			return
		}
		o.viol = verr.Error() + ctx()
		return
	}
	// ---- (3) unaffected writes succeed
	nWork := len(flat) - len(w.spec.Probes)
	if w.spec.OpMarks {
		for k := range flat {
			b, e := res.Mark(fmt.Sprintf("op-%d-begin", k)), res.Mark(fmt.Sprintf("op-%d-end", k))
			if b < 0 || e < 0 {
				o.incon = fmt.Sprintf("markers of operation %d missing in the trace", k)
				return
			}
			affected := false
			for _, i := range inj {
				if i > b && i < e {
					affected = true
				}
			}
			if !affected && rr.Ops[k].State != fshelper.StOK {
				o.viol = fmt.Sprintf("operation %d %s fails with %q although no failing call happened during it%s", k, flat[k], rr.Ops[k].Err, ctx())
				return
			}
			if affected && rr.Ops[k].State == fshelper.StOK {
				// "the affected writes report an error": with one sequential writer every failing call between the
				// operation's markers belongs to that operation (its directories, its temp file, its batch file
				// including the sync/close the writer waits for), so success means the failure was swallowed
				o.viol = fmt.Sprintf("operation %d %s reports success although a file-system call it made failed%s", k, flat[k], ctx())
				return
			}
		}
	} else {
		// concurrent workloads: the probe puts issued after the workload must work unless a (late, per-thread) fault hit them
		cleanProbe := false
		for k := range w.spec.Probes {
			b := res.Mark(fmt.Sprintf("probe-%d", k))
			e := res.Mark(fmt.Sprintf("probe-%d", k+1))
			if k == len(w.spec.Probes)-1 {
				e = res.Mark("probes-done")
			}
			if b < 0 || e < 0 {
				o.incon = "probe markers missing in the trace"
				return
			}
			affected := false
			for _, i := range inj {
				if i > b && i < e {
					affected = true
				}
			}
			if affected {
				continue
			}
			cleanProbe = true
			if r := rr.Ops[nWork+k]; r.State != fshelper.StOK {
				o.viol = fmt.Sprintf("probe put %d issued after the faulty workload fails with %q although no failing call happened during it%s", k, r.Err, ctx())
				return
			}
		}
		if !cleanProbe {
			o.labels = append(o.labels, "all-probes-hit-by-late-faults")
		}
		failed := 0
		for k := 0; k < nWork; k++ {
			if rr.Ops[k].State != fshelper.StOK {
				failed++
			}
		}
		if len(inj) == 0 && failed > 0 {
			o.viol = fmt.Sprintf("%d writes fail although no call was made to fail%s", failed, ctx())
			return
		}
		if failed > 0 {
			o.labels = append(o.labels, "some-writes-failed")
		}
	}
	if rr.CloseErr != "" && len(inj) == 0 {
		o.viol = "Close fails without any fault: " + rr.CloseErr + ctx()
	}
	return
}

func short(s string, n int) string {
	if len(s) > n {
		return s[:n] + "…"
	}
	return s
}

func tail(b []byte, n int) string {
	if len(b) > n {
		b = b[len(b)-n:]
	}
	return string(b)
}

// dryRun executes the workload without faults and checks it is healthy; returns the trace.
func dryRun(t *rapid.T, w *workload, objs []*fsobj.Obj) *sysinject.Result {
	run, err := fshelper.Execute(w.spec, w.pre, nil, runTimeout)
	if err != nil {
		ev.Inconclusive("dry run: %v", err)
	}
	defer run.Cleanup()
	res, rr := run.Trace, run.Results
	if res.ExitCode == fshelper.ExitHarness {
		ev.Inconclusive("helper cannot start: %s", res.Stderr)
	}
	if res.ExitCode != 0 || res.Signal != "" || !rr.Finished || rr.CloseErr != "" {
		t.Fatalf("workload fails without any injection: exit=%d signal=%q finished=%v close=%q stderr:\n%s\nworkload: %s",
			res.ExitCode, res.Signal, rr.Finished, rr.CloseErr, tail(res.Stderr, 3000), w)
	}
	mh := map[int]string{}
	for k, op := range w.spec.FlatOps() {
		if rr.Ops[k].State != fshelper.StOK {
			t.Fatalf("operation %d %s fails without any injection: %q\nworkload: %s", k, op, rr.Ops[k].Err, w)
		}
		for _, i := range op.Objs {
			mh[i] = "it was written without any fault"
		}
	}
	if verr := fshelper.Verify(run.Spec, objs, fshelper.VerifyOpts{MustHave: mh}); verr != nil {
		t.Fatalf("tree wrong after a fault-free run: %v\nworkload: %s", verr, w)
	}
	if res.Mark("start") < 0 || res.Mark("closed") < 0 {
		ev.Inconclusive("dry run trace lacks markers (parse errors %d)", res.ParseErrs)
	}
	return res
}

type threadCounts struct {
	pre, total map[string]int // main thread: before "start", up to "closed"
	other      map[string]int // all other threads together, between "start" and "closed"
}

func countCalls(dry *sysinject.Result) threadCounts {
	tc := threadCounts{pre: map[string]int{}, total: map[string]int{}, other: map[string]int{}}
	a, b := dry.Mark("start"), dry.Mark("closed")
	for i := 0; i < b; i++ {
		e := dry.Events[i]
		if !isFaultSyscall(e.Name) {
			continue
		}
		if e.Tid == dry.MainTid {
			tc.total[e.Name]++
			if i < a {
				tc.pre[e.Name]++
			}
		} else if i > a {
			tc.other[e.Name]++
		}
	}
	return tc
}

// report folds outcomes into the recorder and returns the first violation.
func report(rec *ev.Recorder, w *workload, desc string, outs []outcome) (viol *outcome, incon string, nIncon int) {
	for n := range outs {
		o := &outs[n]
		if o.incon != "" {
			// environment trouble in a single run is not a verdict: the case counts as not evaluated
			nIncon++
			incon = o.incon
			rec.Label("run-harness-error")
			continue
		}
		if o.discard {
			rec.Label("discarded-foreign-injection")
			continue
		}
		labels := append([]string{"workload-" + w.kind}, o.labels...)
		if w.spec.Generic {
			labels = append(labels, "writer-generic")
		} else {
			labels = append(labels, "writer-linux")
		}
		rec.Case(o.nontriv, desc+"|"+o.f.String(), labels...)
		if rec.WantSample() && o.nontriv {
			rec.Sample(map[string]any{"workload": short(desc, 700), "injection": o.f.String(), "labels": o.labels})
		}
		if o.viol != "" && viol == nil {
			viol = o
		}
	}
	return
}

// runAll evaluates the fault cases in a deterministic pseudo-random order (so that a time-budget cut leaves a
// spread-out sample) with bounded parallelism; skipped = cases not run because the wall-clock budget was used up.
func runAll(w *workload, objs []*fsobj.Obj, faults []fault, order uint64, budget *fshelper.Budget) (outs []outcome, skipped int) {
	faults = append([]fault(nil), faults...)
	x := order | 1
	for i := len(faults) - 1; i > 0; i-- {
		x ^= x << 13
		x ^= x >> 7
		x ^= x << 17
		j := int(x % uint64(i+1))
		faults[i], faults[j] = faults[j], faults[i]
	}
	// faults on the batch file itself first (they are the ones that can coincide with a batch limit): when the time
	// budget cuts the list, the cut hits directory/open faults rather than these
	prio := func(f fault) int {
		for _, i := range f.inj {
			switch i.Syscall {
			case "linkat", "fdatasync", "close", "writev":
				return 0
			}
		}
		return 1
	}
	sort.SliceStable(faults, func(a, b int) bool { return prio(faults[a]) < prio(faults[b]) })
	nw := workers()
	for at := 0; at < len(faults); at += nw {
		if at >= 2*nw && budget.Exceeded() {
			skipped = len(faults) - at
			break
		}
		chunk := faults[at:min(at+nw, len(faults))]
		res := make([]outcome, len(chunk))
		var wg sync.WaitGroup
		for n := range chunk {
			wg.Add(1)
			go func() {
				defer wg.Done()
				res[n] = evaluate(w, objs, chunk[n])
			}()
		}
		wg.Wait()
		outs = append(outs, res...)
	}
	return outs, skipped
}

func finish(t *rapid.T, rec *ev.Recorder, w *workload, desc string, outs []outcome, skipped int) {
	if skipped > 0 {
		rec.LabelN("fault-cases-skipped-time-budget", int64(skipped))
	}
	viol, incon, nIncon := report(rec, w, desc, outs)
	if viol != nil {
		t.Fatalf("C13 violated: %s", viol.viol)
	}
	if nIncon*4 > len(outs) {
		ev.Inconclusive("%d of %d injected runs hit harness/environment errors, last: %s", nIncon, len(outs), incon)
	}
}

func TestC13Sequential(t *testing.T) {
	rec := ev.New("C13", "sequential")
	defer rec.Flush()
	if err := sysinject.Available(); err != nil {
		ev.Inconclusive("C13 needs strace with ptrace permission: %v", err)
	}
	budget := fshelper.NewBudget(50*time.Second, 0.6)
	cases := 0
	rapid.Check(t, func(t *rapid.T) {
		w := genSequential(t, cases == 0)
		order := rapid.Uint64().Draw(t, "caseOrder")
		if cases > 0 && budget.Exceeded() {
			rec.Label("workload-skipped-time-budget") // reported, never a verdict
			return
		}
		cases++
		objs := w.spec.Universe()
		desc := w.String()
		dry := dryRun(t, w, objs)
		tc := countCalls(dry)
		rot := rapid.IntRange(0, 2).Draw(t, "errnoRotation")
		var faults []fault
		var singles []sysinject.Inject
		for _, sc := range faultSyscalls {
			ks := map[int]bool{}
			for k := tc.pre[sc] + 1; k <= tc.total[sc]; k++ {
				ks[k] = true
			}
			for k := 1; k <= tc.other[sc]; k++ { // sync timer thread(s)
				ks[k] = true
			}
			var kk []int
			for k := range ks {
				kk = append(kk, k)
			}
			sort.Ints(kk)
			for _, k := range kk {
				if sc == "openat" && k <= tc.pre[sc] {
					continue
				}
				in := sysinject.Inject{Syscall: sc, Errno: errnos[(k+rot)%len(errnos)], When: fmt.Sprint(k)}
				singles = append(singles, in)
				faults = append(faults, fault{inj: []sysinject.Inject{in}, tag: "single"})
			}
		}
		// short writes: the call "succeeds" with fewer bytes than requested
		// (strace's retval= does not execute the call, so nothing at all is written. That is a faithful short write
		// only for callers that treat a short count as an error, as the Linux writer's unix.Write/unix.Writev do;
		// os.File.Write of the generic writer loops and would append the REST after bytes that were never written –
		// an artefact of the injection technique, therefore not generated for the generic writer.)
		if !w.spec.Generic {
			rv := int64(rapid.IntRange(1, 37).Draw(t, "shortWriteLen"))
			// every write() of the workload (single-file writer, objects above the threshold) and one sampled writev()
			for k := tc.pre["write"] + 1; k <= tc.total["write"]; k++ {
				faults = append(faults, fault{inj: []sysinject.Inject{{Syscall: "write", Retval: &rv, When: fmt.Sprint(k)}}, tag: "short-write"})
			}
			if n := tc.total["writev"] - tc.pre["writev"]; n > 0 {
				k := tc.pre["writev"] + 1 + rapid.IntRange(0, n-1).Draw(t, "shortWriteAt")
				faults = append(faults, fault{inj: []sysinject.Inject{{Syscall: "writev", Retval: &rv, When: fmt.Sprint(k)}}, tag: "short-write"})
			}
		}
		// double faults: two different syscalls
		if len(singles) >= 2 {
			nd := rapid.IntRange(4, 10).Draw(t, "doubleFaults")
			for d := 0; d < nd; d++ {
				a := rapid.IntRange(0, len(singles)-1).Draw(t, "dfA")
				b := rapid.IntRange(0, len(singles)-1).Draw(t, "dfB")
				if singles[a].Syscall == singles[b].Syscall {
					continue
				}
				faults = append(faults, fault{inj: []sysinject.Inject{singles[a], singles[b]}, tag: "double"})
			}
		}
		outs, skipped := runAll(w, objs, faults, order, budget)
		finish(t, rec, w, desc, outs, skipped)
	})
}

func TestC13Concurrent(t *testing.T) {
	rec := ev.New("C13", "concurrent")
	defer rec.Flush()
	if err := sysinject.Available(); err != nil {
		ev.Inconclusive("C13 needs strace with ptrace permission: %v", err)
	}
	budget := fshelper.NewBudget(50*time.Second, 0.4)
	cases := 0
	rapid.Check(t, func(t *rapid.T) {
		w := genConcurrent(t)
		order := rapid.Uint64().Draw(t, "caseOrder")
		if cases > 0 && budget.Exceeded() {
			rec.Label("workload-skipped-time-budget") // reported, never a verdict
			return
		}
		cases++
		objs := w.spec.Universe()
		desc := w.String()
		_ = dryRun(t, w, objs)
		nf := rapid.IntRange(6, 12).Draw(t, "faultCases")
		var faults []fault
		scs := []string{"writev", "writev", "linkat", "linkat", "linkat", "fdatasync", "close", "openat", "mkdirat"}
		// per-thread counters: a thread rarely makes more than a few calls of one kind, so small ordinals are the
		// ones that fire (measured via the faults-N labels)
		nWrites := w.spec.NumOps() - len(w.spec.Probes)
		maxWhen := max(3, 2*nWrites/len(w.spec.Phases[0].Workers)+1)
		for i := 0; i < nf; i++ {
			mk := func(tag string) sysinject.Inject {
				sc := rapid.SampledFrom(scs).Draw(t, "syscall"+tag)
				k := rapid.IntRange(1, maxWhen).Draw(t, "when"+tag)
				when := fmt.Sprint(k)
				if rapid.IntRange(0, 3).Draw(t, "repeat"+tag) == 0 {
					when = fmt.Sprintf("%d+%d", k, rapid.IntRange(2, 9).Draw(t, "step"+tag))
				}
				return sysinject.Inject{Syscall: sc, Errno: rapid.SampledFrom(errnos).Draw(t, "errno"+tag), When: when}
			}
			f := fault{inj: []sysinject.Inject{mk("A")}, tag: "single-expr"}
			if rapid.Bool().Draw(t, "second") {
				b := mk("B")
				if b.Syscall != f.inj[0].Syscall {
					f.inj = append(f.inj, b)
					f.tag = "double-expr"
				}
			}
			faults = append(faults, f)
		}
		outs, skipped := runAll(w, objs, faults, order, budget)
		finish(t, rec, w, desc, outs, skipped)
	})
}

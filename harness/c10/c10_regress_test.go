package c10

import (
	"bytes"
	"fmt"
	"io"
	"os"
	"testing"

	"github.com/nspcc-dev/neofs-node/pkg/local_object_storage/blobstor/common"
	"github.com/nspcc-dev/neofs-node/pkg/local_object_storage/blobstor/fstree"
	"github.com/nspcc-dev/neofs-node/verifharness/ev"
	"github.com/nspcc-dev/neofs-node/verifharness/fsobj"
	oid "github.com/nspcc-dev/neofs-sdk-go/object/id"
)

// TestC10RegressionLateMember is the minimised history of the thorough-tier finding fixed in /repo f0c9260
// (replay C10-model-1004): one combined file with members of 20405, 20441 and 30000 bytes. The first member leaves
// 37 prefix bytes at the end of the first 20 KiB read, after the refill the third member's data starts at buffer
// offset 20517 and reading its first 20 KiB used to slice the 40 KiB buffer out of range (panic in Head/GetStream/
// ReadHeader/ReadObject). All window positions 1..37 are enumerated with lengths around the remaining room.
func TestC10RegressionLateMember(t *testing.T) {
	if k, _ := ev.Shard(); k != 0 {
		return // deterministic enumeration: one shard is enough
	}
	rec := ev.New("C10", "regression-late-member")
	defer rec.Flush()
	dir, err := os.MkdirTemp("", "c10r-")
	if err != nil {
		ev.Inconclusive("mkdtemp: %v", err)
	}
	defer os.RemoveAll(dir)
	tr := fstree.New(fstree.WithPath(dir), fstree.WithDepth(1), fstree.WithNoSync(true))
	if err := tr.Open(false); err != nil {
		t.Fatal(err)
	}
	if err := tr.Init(common.ID{}); err != nil {
		t.Fatal(err)
	}
	defer tr.Close()
	buf := make([]byte, 2*fsobj.HeaderBufferLen)
	idx := 0
	for r := 1; r < fsobj.CombinedHdrLen; r++ {
		for _, off := range []int{fsobj.HeaderBufferLen + 1, fsobj.HeaderBufferLen + r} {
			room := 2*fsobj.HeaderBufferLen - off
			for _, l2 := range []int{room, room + 1, 30000} {
				lens := []int{fsobj.HeaderBufferLen - r - fsobj.CombinedHdrLen, off - 2*fsobj.CombinedHdrLen, l2}
				var objs []*fsobj.Obj
				var addrs []oid.Address
				var datas [][]byte
				for _, l := range lens {
					o := fit(fsobj.Spec{Idx: idx, Seed: 77, Payload: 1}, l)
					idx++
					objs = append(objs, o)
					addrs = append(addrs, o.Addr)
					datas = append(datas, o.Stored)
				}
				rec.Case(true, fmt.Sprint(lens), "regression-triple")
				if err := tr.VerifPutBatchOrdered(addrs, datas); err != nil {
					t.Fatalf("PutBatch(%v): %v", lens, err)
				}
				for k, o := range objs {
					h, err := tr.Head(o.Addr)
					if err != nil || !bytes.Equal(h.Marshal(), o.Header) {
						t.Fatalf("Head of member %d of combined file with member lengths %v: %v", k, lens, err)
					}
					_, rd, err := tr.GetStream(o.Addr)
					if err != nil {
						t.Fatalf("GetStream of member %d (lengths %v): %v", k, lens, err)
					}
					pl, err := io.ReadAll(rd)
					_ = rd.Close()
					if err != nil || !bytes.Equal(pl, o.Object.Payload()) {
						t.Fatalf("GetStream payload of member %d (lengths %v): %d bytes, err %v", k, lens, len(pl), err)
					}
					n, rd2, err := tr.ReadObject(o.Addr, buf)
					if err != nil {
						t.Fatalf("ReadObject of member %d (lengths %v): %v", k, lens, err)
					}
					rest, err := io.ReadAll(rd2)
					_ = rd2.Close()
					if err != nil || !bytes.Equal(append(append([]byte(nil), buf[:n]...), rest...), o.Plain) {
						t.Fatalf("ReadObject of member %d (lengths %v) differs, err %v", k, lens, err)
					}
				}
			}
		}
	}
}

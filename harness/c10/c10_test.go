// Package c10 decides property C10: FSTree behaves as a map address → bytes.
//
// A rapid state machine drives a real fstree.FSTree on a temp dir (generated
// depth, combined count/size limits, threshold, Linux O_TMPFILE writer or the
// generic rename writer) with single puts, batched puts (map-ordered and
// caller-ordered), concurrent puts, deletes and reopenings, and compares every
// read API (Exists, GetBytes, Get, Head, GetStream, ReadObject, ReadHeader,
// Iterate, IterateAddresses) with a plain set-of-present-addresses model whose
// values are the generated object binaries.
package c10

import (
	"bytes"
	"errors"
	"fmt"
	"io"
	"os"
	"sort"
	"strings"
	"sync"
	"testing"
	"time"

	"github.com/nspcc-dev/neofs-node/pkg/local_object_storage/blobstor/common"
	"github.com/nspcc-dev/neofs-node/pkg/local_object_storage/blobstor/fstree"
	"github.com/nspcc-dev/neofs-node/verifharness/ev"
	"github.com/nspcc-dev/neofs-node/verifharness/fsobj"
	apistatus "github.com/nspcc-dev/neofs-sdk-go/client/status"
	oid "github.com/nspcc-dev/neofs-sdk-go/object/id"
	"pgregory.net/rapid"
)

const universe = 20

type config struct {
	depth    int
	cntLim   int
	sizeLim  int
	thr      int
	generic  bool
	interval time.Duration
}

func (c config) String() string {
	w := "linux"
	if c.generic {
		w = "generic"
	}
	return fmt.Sprintf("depth=%d cnt=%d size=%d thr=%d writer=%s", c.depth, c.cntLim, c.sizeLim, c.thr, w)
}

func genConfig(t *rapid.T) config {
	var c config
	c.depth = rapid.IntRange(0, 4).Draw(t, "depth")
	c.cntLim = rapid.OneOf(rapid.SampledFrom([]int{1, 2, 3, 4, 8, 128}), rapid.IntRange(1, 128)).Draw(t, "cntLim")
	c.thr = rapid.OneOf(
		rapid.SampledFrom([]int{256, 1024, 4096, 20 << 10, 40 << 10, 128 << 10}),
		rapid.IntRange(64, 160<<10)).Draw(t, "thr")
	c.sizeLim = rapid.OneOf(
		rapid.SampledFrom([]int{1, 300, 4096, 64 << 10, 8 << 20}),
		rapid.IntRange(1, 1<<20)).Draw(t, "sizeLim")
	c.generic = rapid.IntRange(0, 3).Draw(t, "writer") == 0
	c.interval = 200 * time.Microsecond
	return c
}

// fit rebuilds the object so that the length of its canonical binary is as close to total as the format allows.
func fit(s fsobj.Spec, total int) *fsobj.Obj {
	o := fsobj.Make(s)
	for i := 0; i < 4 && len(o.Plain) != total; i++ {
		p := s.Payload + total - len(o.Plain)
		if p < 1 {
			break
		}
		s.Payload = p
		o = fsobj.Make(s)
	}
	return o
}

func genObject(t *rapid.T, seed uint64, idx int, c config) (*fsobj.Obj, string) {
	s := fsobj.Spec{Idx: idx, Seed: seed, Cnr: rapid.IntRange(0, 1).Draw(t, "cnr")}
	switch rapid.IntRange(0, 9).Draw(t, "attrClass") {
	case 0, 1:
		s.AttrLen = rapid.IntRange(1, 200).Draw(t, "attrLen")
	case 2:
		s.AttrLen = rapid.IntRange(4000, 15000).Draw(t, "attrLen")
	case 3:
		s.AttrLen = rapid.SampledFrom([]int{15000, 15900, 16000}).Draw(t, "attrLen")
	}
	s.Compress = rapid.IntRange(0, 4).Draw(t, "compress") == 0
	s.Repetitive = rapid.IntRange(0, 9).Draw(t, "repetitive") < 4
	class := rapid.SampledFrom([]string{"nopayload", "tiny", "tiny", "tiny", "thr", "thr", "buf", "buf", "exact", "medium", "medium", "large"}).Draw(t, "sizeClass")
	switch class {
	case "nopayload":
		s.Payload = 0
		return fsobj.Make(s), class
	case "tiny":
		s.Payload = rapid.IntRange(1, 300).Draw(t, "payload")
		return fsobj.Make(s), class
	case "thr":
		// total stored length right at the combined threshold (<= thr goes to a combined file, > thr to its own file)
		total := c.thr + rapid.IntRange(-2, 2).Draw(t, "thrDelta")
		s.Payload = 1
		return fit(s, max(total, 1)), class
	case "exact":
		// stored length exactly one (rarely two) header buffers: the boundary between "fully buffered" and "streamed"
		s.Payload = 1
		return fit(s, rapid.SampledFrom([]int{1, 1, 1, 2}).Draw(t, "exactK")*fsobj.HeaderBufferLen), class
	case "buf":
		// member length such that prefix+data ends near a multiple of the 20 KiB header buffer
		k := rapid.IntRange(1, 3).Draw(t, "bufK")
		d := rapid.IntRange(-fsobj.CombinedHdrLen-2, fsobj.CombinedHdrLen+2).Draw(t, "bufDelta")
		sub := rapid.SampledFrom([]int{0, fsobj.CombinedHdrLen, 2 * fsobj.CombinedHdrLen}).Draw(t, "bufSub")
		total := k*fsobj.HeaderBufferLen - sub + d
		s.Payload = 1
		return fit(s, total), class
	case "medium":
		s.Payload = rapid.IntRange(301, 20000).Draw(t, "payload")
		return fsobj.Make(s), class
	default:
		s.Payload = rapid.IntRange(20001, 256<<10).Draw(t, "payload")
		return fsobj.Make(s), class
	}
}

type machine struct {
	cfg   config
	dir   string
	tree  *fstree.FSTree
	ro    bool
	objs  []*fsobj.Obj
	byAdr map[oid.Address]int
	in    map[int]bool // the model: which addresses are stored (value = objs[i].Plain)

	ops  []string
	step int

	// bookkeeping for labels / the non-triviality rule only
	single, batched   map[int]bool
	siblingOfDeleted  map[int]bool // present members of a combined file that lost a member
	readAfterSibling  bool
	bothWays          bool
	straddle          bool
	sawCombined       bool
	sawCompressedRead bool
	reopened          bool
	hdrBuf            []byte
	cls               map[string]bool
	aimed             bool
	heldDone          bool
}

func (m *machine) open(t *rapid.T, ro bool, withDepth bool) {
	opts := []fstree.Option{
		fstree.WithPath(m.dir),
		fstree.WithCombinedCountLimit(m.cfg.cntLim),
		fstree.WithCombinedSizeLimit(m.cfg.sizeLim),
		fstree.WithCombinedSizeThreshold(m.cfg.thr),
		fstree.WithCombinedWriteInterval(m.cfg.interval),
		fstree.WithNoSync(true),
	}
	if withDepth {
		opts = append(opts, fstree.WithDepth(uint64(m.cfg.depth)))
	}
	tr := fstree.New(opts...)
	if err := tr.Open(ro); err != nil {
		t.Fatalf("Open(ro=%v): %v", ro, err)
	}
	if err := tr.Init(common.ID{}); err != nil {
		t.Fatalf("Init(ro=%v): %v", ro, err)
	}
	if m.cfg.generic && !ro {
		tr.VerifUseGenericWriter()
	}
	m.tree, m.ro = tr, ro
}

func (m *machine) path(i int) string { return fsobj.TreePath(m.dir, m.cfg.depth, m.objs[i].Addr) }

func notFound(err error) bool { return errors.Is(err, apistatus.ErrObjectNotFound) }

func (m *machine) log(format string, a ...any) { m.ops = append(m.ops, fmt.Sprintf(format, a...)) }

func (m *machine) fail(t *rapid.T, format string, a ...any) {
	var u []string
	for i, o := range m.objs {
		u = append(u, fmt.Sprintf("#%d:%d/%d%s", i, len(o.Plain), len(o.Stored), zmark(o)))
	}
	t.Fatalf("%s\nconfig: %s\nobjects (plain/stored bytes): %s\nhistory:\n  %s", fmt.Sprintf(format, a...), m.cfg, strings.Join(u, " "), strings.Join(m.ops, "\n  "))
}

const (
	apiExists = 1 << iota
	apiGetBytes
	apiGet
	apiHead
	apiStream
	apiReadObject
	apiReadHeader
	apiAll = apiExists | apiGetBytes | apiGet | apiHead | apiStream | apiReadObject | apiReadHeader
)

// checkAddr compares the selected read APIs for address i with the model.
func (m *machine) checkAddr(t *rapid.T, i int, apis int) {
	o := m.objs[i]
	want := m.in[i]
	if apis&apiExists != 0 {
		ok, err := m.tree.Exists(o.Addr)
		if err != nil || ok != want {
			m.fail(t, "Exists(#%d) = %v, %v; model says stored=%v", i, ok, err, want)
		}
	}
	if apis&apiGetBytes != 0 {
		b, err := m.tree.GetBytes(o.Addr)
		if want {
			if err != nil {
				m.fail(t, "GetBytes(#%d): %v; model has %d bytes", i, err, len(o.Plain))
			}
			if !bytes.Equal(b, o.Plain) {
				m.fail(t, "GetBytes(#%d) returned %d bytes differing from the %d stored bytes (first diff at %d)", i, len(b), len(o.Plain), firstDiff(b, o.Plain))
			}
		} else if !notFound(err) {
			m.fail(t, "GetBytes(#%d) of an absent address: err=%v, %d bytes", i, err, len(b))
		}
	}
	if apis&apiGet != 0 {
		got, err := m.tree.Get(o.Addr)
		if want {
			if err != nil {
				m.fail(t, "Get(#%d): %v", i, err)
			}
			if b := got.Marshal(); !bytes.Equal(b, o.Plain) {
				m.fail(t, "Get(#%d) decoded object differs from the stored one (first diff at %d)", i, firstDiff(b, o.Plain))
			}
		} else if !notFound(err) {
			m.fail(t, "Get(#%d) of an absent address: err=%v", i, err)
		}
	}
	if apis&apiHead != 0 {
		h, err := m.tree.Head(o.Addr)
		if want {
			if err != nil {
				m.fail(t, "Head(#%d): %v", i, err)
			}
			if len(h.Payload()) != 0 {
				m.fail(t, "Head(#%d) returned a payload", i)
			}
			if b := h.Marshal(); !bytes.Equal(b, o.Header) {
				m.fail(t, "Head(#%d) header differs from the stored header (first diff at %d)", i, firstDiff(b, o.Header))
			}
		} else if !notFound(err) {
			m.fail(t, "Head(#%d) of an absent address: err=%v", i, err)
		}
	}
	if apis&apiStream != 0 {
		if want {
			m.classLabels(i)
		}
		h, rd, err := m.tree.GetStream(o.Addr)
		if want {
			if err != nil {
				m.fail(t, "GetStream(#%d): %v", i, err)
			}
			if rd == nil {
				m.fail(t, "GetStream(#%d): nil reader without error", i)
			}
			pl, rerr := io.ReadAll(rd)
			_ = rd.Close()
			if rerr != nil {
				m.fail(t, "GetStream(#%d): reading payload: %v", i, rerr)
			}
			if b := h.Marshal(); !bytes.Equal(b, o.Header) {
				m.fail(t, "GetStream(#%d) header differs (first diff at %d)", i, firstDiff(b, o.Header))
			}
			if !bytes.Equal(pl, o.Object.Payload()) {
				m.fail(t, "GetStream(#%d) payload: %d bytes, stored %d (first diff at %d)", i, len(pl), len(o.Object.Payload()), firstDiff(pl, o.Object.Payload()))
			}
		} else {
			if rd != nil {
				_ = rd.Close()
			}
			if !notFound(err) {
				m.fail(t, "GetStream(#%d) of an absent address: err=%v", i, err)
			}
		}
	}
	if apis&apiReadObject != 0 {
		n, rd, err := m.tree.ReadObject(o.Addr, m.hdrBuf)
		if want {
			if err != nil {
				m.fail(t, "ReadObject(#%d): %v", i, err)
			}
			rest, rerr := io.ReadAll(rd)
			_ = rd.Close()
			if rerr != nil {
				m.fail(t, "ReadObject(#%d): reading rest: %v", i, rerr)
			}
			all := append(append([]byte(nil), m.hdrBuf[:n]...), rest...)
			if !bytes.Equal(all, o.Plain) {
				m.fail(t, "ReadObject(#%d): buffered %d + streamed %d bytes differ from the %d stored bytes (first diff at %d)", i, n, len(rest), len(o.Plain), firstDiff(all, o.Plain))
			}
			if n < o.HdrEnd {
				m.fail(t, "ReadObject(#%d): buffered part (%d bytes) does not contain the full header (%d bytes)", i, n, o.HdrEnd)
			}
		} else {
			if rd != nil {
				_ = rd.Close()
			}
			if !notFound(err) {
				m.fail(t, "ReadObject(#%d) of an absent address: err=%v", i, err)
			}
		}
	}
	if apis&apiReadHeader != 0 {
		n, err := m.tree.ReadHeader(o.Addr, m.hdrBuf)
		if want {
			if err != nil {
				m.fail(t, "ReadHeader(#%d): %v", i, err)
			}
			if n > len(o.Plain) || !bytes.Equal(m.hdrBuf[:n], o.Plain[:n]) {
				m.fail(t, "ReadHeader(#%d): %d bytes that are not a prefix of the stored object", i, n)
			}
			if n < o.HdrEnd {
				m.fail(t, "ReadHeader(#%d): %d bytes do not contain the full header (%d bytes)", i, n, o.HdrEnd)
			}
		} else if !notFound(err) {
			m.fail(t, "ReadHeader(#%d) of an absent address: err=%v", i, err)
		}
	}
	if want {
		if apis&^apiExists != 0 {
			if m.siblingOfDeleted[i] {
				m.readAfterSibling = true
			}
			if o.Spec.Compress {
				m.sawCompressedRead = true
			}
		}
	}
}

// Input classes behind the two defects this check found (fixed in /repo 5c07b66 and 04d469c, see
// known_findings.json): they are labelled so that the evidence shows the generator keeps reaching them.
//   - streamed read (GetStream/ReadObject) of a combined-file member of exactly 20480 stored bytes: the rest
//     stream used to run on into the following members (foreign bytes);
//   - legacy zstd file < 20 KiB whose object is > 40 KiB (ReadObject tail over nopReadCloser) and zstd file
//     >= 20 KiB whose object is <= 20 KiB (GetStream payload prefix over an exhausted decoder): the stream
//     used to end after the first read chunk.
func (m *machine) classLabels(i int) {
	o := m.objs[i]
	if len(o.Stored) == fsobj.HeaderBufferLen {
		if _, nl, ok := fsobj.Inode(m.path(i)); ok && nl > 1 {
			m.cls["stream-read-of-combined-member-of-exactly-20KiB"] = true
		}
	}
	if o.Spec.Compress && len(o.Stored) < fsobj.HeaderBufferLen && len(o.Plain) > len(m.hdrBuf) {
		m.cls["stream-read-zstd-file-lt-20KiB-object-gt-40KiB"] = true
	}
	if o.Spec.Compress && len(o.Stored) >= fsobj.HeaderBufferLen && len(o.Plain) <= fsobj.HeaderBufferLen {
		m.cls["stream-read-zstd-file-ge-20KiB-object-le-20KiB"] = true
	}
}

func firstDiff(a, b []byte) int {
	n := min(len(a), len(b))
	for i := 0; i < n; i++ {
		if a[i] != b[i] {
			return i
		}
	}
	return n
}

func (m *machine) checkIterate(t *rapid.T) {
	seen := map[int]int{}
	err := m.tree.Iterate(func(a oid.Address, data []byte) error {
		i, ok := m.byAdr[a]
		if !ok {
			m.fail(t, "Iterate yielded unknown address %s", a)
		}
		seen[i]++
		if !m.in[i] {
			m.fail(t, "Iterate yielded #%d which is not stored", i)
		}
		if !bytes.Equal(data, m.objs[i].Plain) {
			m.fail(t, "Iterate yielded #%d with %d bytes differing from the %d stored (first diff at %d)", i, len(data), len(m.objs[i].Plain), firstDiff(data, m.objs[i].Plain))
		}
		return nil
	}, nil)
	if err != nil {
		m.fail(t, "Iterate: %v", err)
	}
	for i := range m.in {
		if m.in[i] && seen[i] != 1 {
			m.fail(t, "Iterate yielded stored #%d %d times", i, seen[i])
		}
	}
	seenA := map[int]int{}
	err = m.tree.IterateAddresses(func(a oid.Address) error {
		i, ok := m.byAdr[a]
		if !ok {
			m.fail(t, "IterateAddresses yielded unknown address %s", a)
		}
		seenA[i]++
		return nil
	}, false)
	if err != nil {
		m.fail(t, "IterateAddresses: %v", err)
	}
	for i := 0; i < universe; i++ {
		w := 0
		if m.in[i] {
			w = 1
		}
		if seenA[i] != w {
			m.fail(t, "IterateAddresses yielded #%d %d times, model says %d", i, seenA[i], w)
		}
	}
}

// afterWrite refreshes label bookkeeping for the given addresses (inode grouping, layout classes).
func (m *machine) afterWrite(idx []int) {
	for _, i := range idx {
		p := m.path(i)
		ents, size, combined, ok := fsobj.Layout(p)
		if !combined || !ok {
			continue
		}
		m.sawCombined = true
		id := m.objs[i].Addr.Object()
		for k := range ents {
			if ents[k].ID == id {
				split, extend, _ := fsobj.ScanClass(ents, size, k, int64(m.objs[i].HdrEnd))
				if split || extend {
					m.straddle = true
				}
				break
			}
		}
	}
}

func (m *machine) put(t *rapid.T) {
	if m.ro {
		t.Skip("read-only")
	}
	i := rapid.IntRange(0, universe-1).Draw(t, "i")
	m.log("Put(#%d len=%d%s)", i, len(m.objs[i].Stored), zmark(m.objs[i]))
	if err := m.tree.Put(m.objs[i].Addr, m.objs[i].Stored); err != nil {
		m.fail(t, "Put(#%d): %v", i, err)
	}
	m.in[i] = true
	m.single[i] = true
	if m.batched[i] {
		m.bothWays = true
	}
	delete(m.siblingOfDeleted, i)
	m.afterWrite([]int{i})
	m.checkAddr(t, i, apiAll)
}

func zmark(o *fsobj.Obj) string {
	if o.Spec.Compress {
		return " zstd"
	}
	return ""
}

func (m *machine) putBatch(t *rapid.T) {
	if m.ro {
		t.Skip("read-only")
	}
	n := rapid.IntRange(1, universe).Draw(t, "n")
	perm := rapid.Permutation(seq(universe)).Draw(t, "members")[:n]
	ordered := rapid.Bool().Draw(t, "ordered")
	var err error
	if ordered {
		addrs := make([]oid.Address, n)
		datas := make([][]byte, n)
		for k, i := range perm {
			addrs[k], datas[k] = m.objs[i].Addr, m.objs[i].Stored
		}
		m.log("PutBatchOrdered(%v)", perm)
		err = m.tree.VerifPutBatchOrdered(addrs, datas)
	} else {
		mp := make(map[oid.Address][]byte, n)
		for _, i := range perm {
			mp[m.objs[i].Addr] = m.objs[i].Stored
		}
		srt := append([]int(nil), perm...)
		sort.Ints(srt)
		m.log("PutBatch(%v)", srt)
		err = m.tree.PutBatch(mp)
	}
	if err != nil {
		m.fail(t, "PutBatch: %v", err)
	}
	for _, i := range perm {
		m.in[i] = true
		m.batched[i] = true
		if m.single[i] {
			m.bothWays = true
		}
		delete(m.siblingOfDeleted, i)
	}
	m.afterWrite(perm)
	for _, i := range perm {
		m.checkAddr(t, i, apiAll)
	}
}

// aimedBatch writes the aimed triple #0,#1,#2 (see TestC10Model) in this order at the start of one combined file,
// optionally followed by more members.
func (m *machine) aimedBatch(t *rapid.T) {
	if m.ro || !m.aimed || m.cfg.generic {
		t.Skip("not applicable")
	}
	extra := rapid.IntRange(0, 3).Draw(t, "extra")
	perm := append([]int{0, 1, 2}, rapid.Permutation(seq(universe-3)).Draw(t, "members")[:extra]...)
	for k := 3; k < len(perm); k++ {
		perm[k] += 3
	}
	// the layout is only the aimed one when none of the three is linked already (EEXIST keeps the old file)
	for _, i := range perm[:3] {
		if m.in[i] {
			if err := m.tree.Delete(m.objs[i].Addr); err != nil {
				m.fail(t, "Delete(#%d) of a stored object: %v", i, err)
			}
			m.in[i] = false
			m.log("Delete(#%d) (before aimed batch)", i)
		}
	}
	addrs := make([]oid.Address, len(perm))
	datas := make([][]byte, len(perm))
	for k, i := range perm {
		addrs[k], datas[k] = m.objs[i].Addr, m.objs[i].Stored
	}
	m.log("PutBatchOrdered(%v) aimed lengths %d,%d,%d", perm, len(m.objs[0].Stored), len(m.objs[1].Stored), len(m.objs[2].Stored))
	if err := m.tree.VerifPutBatchOrdered(addrs, datas); err != nil {
		m.fail(t, "PutBatch: %v", err)
	}
	for _, i := range perm {
		m.in[i] = true
		m.batched[i] = true
		if m.single[i] {
			m.bothWays = true
		}
		delete(m.siblingOfDeleted, i)
	}
	m.cls["aimed-triple-written"] = true
	m.afterWrite(perm)
	for _, i := range perm {
		m.checkAddr(t, i, apiAll)
	}
}

func seq(n int) []int {
	r := make([]int, n)
	for i := range r {
		r[i] = i
	}
	return r
}

func (m *machine) concurrentPuts(t *rapid.T) {
	if m.ro {
		t.Skip("read-only")
	}
	n := rapid.IntRange(2, 8).Draw(t, "n")
	perm := rapid.Permutation(seq(universe)).Draw(t, "members")[:n]
	m.log("ConcurrentPut(%v)", perm)
	errs := make([]error, n)
	var wg sync.WaitGroup
	for k, i := range perm {
		wg.Add(1)
		go func() {
			defer wg.Done()
			errs[k] = m.tree.Put(m.objs[i].Addr, m.objs[i].Stored)
		}()
	}
	wg.Wait()
	for k, i := range perm {
		if errs[k] != nil {
			m.fail(t, "concurrent Put(#%d): %v", i, errs[k])
		}
		m.in[i] = true
		m.single[i] = true
		if m.batched[i] {
			m.bothWays = true
		}
		delete(m.siblingOfDeleted, i)
	}
	m.afterWrite(perm)
	for _, i := range perm {
		m.checkAddr(t, i, apiAll)
	}
}

func (m *machine) del(t *rapid.T) {
	if m.ro {
		t.Skip("read-only")
	}
	i := rapid.IntRange(0, universe-1).Draw(t, "i")
	// label bookkeeping: who shares the physical file?
	var sib []int
	if ino, nl, ok := fsobj.Inode(m.path(i)); ok && nl > 1 {
		for j := 0; j < universe; j++ {
			if j != i && m.in[j] {
				if ino2, _, ok2 := fsobj.Inode(m.path(j)); ok2 && ino2 == ino {
					sib = append(sib, j)
				}
			}
		}
	}
	m.log("Delete(#%d stored=%v siblings=%v)", i, m.in[i], sib)
	err := m.tree.Delete(m.objs[i].Addr)
	if m.in[i] {
		if err != nil {
			m.fail(t, "Delete(#%d) of a stored object: %v", i, err)
		}
	} else if !notFound(err) {
		m.fail(t, "Delete(#%d) of an absent object: err=%v, want object-not-found", i, err)
	}
	m.in[i] = false
	delete(m.siblingOfDeleted, i)
	for _, j := range sib {
		m.siblingOfDeleted[j] = true
	}
	m.checkAddr(t, i, apiAll)
	for _, j := range sib {
		m.checkAddr(t, j, apiAll)
	}
}

func (m *machine) reopen(t *rapid.T) {
	ro := rapid.Bool().Draw(t, "ro")
	withDepth := rapid.IntRange(0, 3).Draw(t, "depthFromDescriptor") != 0
	m.log("Reopen(ro=%v explicitDepth=%v)", ro, withDepth)
	if err := m.tree.Close(); err != nil {
		m.fail(t, "Close: %v", err)
	}
	m.open(t, ro, withDepth)
	m.reopened = true
	m.sweep(t, apiAll)
	m.checkIterate(t)
}

// quickRead performs one complete read of address i through the given API and compares it with the model.
// It touches no machine state besides reading m.in/m.objs, so it may run in goroutines (own buffers).
func (m *machine) quickRead(i int, kind string) error {
	o := m.objs[i]
	want := m.in[i]
	bad := func(err error) error {
		if want {
			return fmt.Errorf("%s(#%d): %v", kind, i, err)
		}
		if !notFound(err) {
			return fmt.Errorf("%s(#%d) of an absent address: %v", kind, i, err)
		}
		return nil
	}
	switch kind {
	case "Head":
		h, err := m.tree.Head(o.Addr)
		if err != nil || !want {
			return bad(err)
		}
		if !bytes.Equal(h.Marshal(), o.Header) {
			return fmt.Errorf("Head(#%d) returns a different header", i)
		}
	case "GetStream":
		h, rd, err := m.tree.GetStream(o.Addr)
		if err != nil || !want {
			if rd != nil {
				_ = rd.Close()
			}
			return bad(err)
		}
		pl, rerr := io.ReadAll(rd)
		_ = rd.Close()
		if rerr != nil || !bytes.Equal(pl, o.Object.Payload()) || !bytes.Equal(h.Marshal(), o.Header) {
			return fmt.Errorf("GetStream(#%d): header/payload differ from the stored object (payload %d of %d bytes, first diff at %d, err %v)", i, len(pl), len(o.Object.Payload()), firstDiff(pl, o.Object.Payload()), rerr)
		}
	case "ReadHeader":
		buf := make([]byte, 2*fsobj.HeaderBufferLen)
		n, err := m.tree.ReadHeader(o.Addr, buf)
		if err != nil || !want {
			return bad(err)
		}
		if n > len(o.Plain) || n < o.HdrEnd || !bytes.Equal(buf[:n], o.Plain[:n]) {
			return fmt.Errorf("ReadHeader(#%d): %d bytes that are not a header-covering prefix of the stored object", i, n)
		}
	case "Get":
		g, err := m.tree.Get(o.Addr)
		if err != nil || !want {
			return bad(err)
		}
		if !bytes.Equal(g.Marshal(), o.Plain) {
			return fmt.Errorf("Get(#%d) differs from the stored object", i)
		}
	}
	return nil
}

// held is a payload/object stream that was opened but not yet consumed.
type held struct {
	i      int
	api    string
	rd     io.ReadCloser
	prefix []byte // bytes already delivered through the caller's buffer (ReadObject*), copied at open time
	want   []byte // what prefix+stream must deliver
}

// heldStreams opens streams for 1-3 stored addresses, performs other complete reads (of other and of the same
// addresses, sequentially and from concurrent goroutines) while they are open and unread, and only then drains
// them: a stream must deliver its object's bytes no matter what other reads happened in between.
func (m *machine) heldStreams(t *rapid.T) {
	var stored, big []int
	for i := 0; i < universe; i++ {
		if m.in[i] {
			stored = append(stored, i)
			if len(m.objs[i].Stored) >= fsobj.HeaderBufferLen {
				big = append(big, i)
			}
		}
	}
	if len(stored) == 0 {
		t.Skip("nothing stored")
	}
	nh := rapid.IntRange(1, 3).Draw(t, "held")
	var hs []*held
	for k := 0; k < nh; k++ {
		pool := stored
		if len(big) > 0 && rapid.IntRange(0, 3).Draw(t, "preferBig") != 0 {
			pool = big // streams with a buffered prefix AND a file remainder exist only from 20 KiB on
		}
		i := rapid.SampledFrom(pool).Draw(t, "i")
		api := rapid.SampledFrom([]string{"GetStream", "GetStream", "ReadObject", "ReadObjectParts"}).Draw(t, "api")
		o := m.objs[i]
		h := &held{i: i, api: api}
		switch api {
		case "GetStream":
			hdr, rd, err := m.tree.GetStream(o.Addr)
			if err != nil {
				m.fail(t, "GetStream(#%d): %v", i, err)
			}
			if !bytes.Equal(hdr.Marshal(), o.Header) {
				m.fail(t, "GetStream(#%d) header differs", i)
			}
			h.rd, h.want = rd, o.Object.Payload()
		default:
			buf := make([]byte, 2*fsobj.HeaderBufferLen) // the caller's own buffer: not shared with other reads
			var n int
			var rd io.ReadCloser
			var err error
			if api == "ReadObject" {
				n, rd, err = m.tree.ReadObject(o.Addr, buf)
			} else {
				n, rd, err = m.tree.ReadObjectParts(buf, o.Addr, common.PayloadRange{}, nil)
			}
			if err != nil {
				m.fail(t, "%s(#%d): %v", api, i, err)
			}
			h.rd, h.prefix, h.want = rd, append([]byte(nil), buf[:n]...), o.Plain
		}
		hs = append(hs, h)
		m.log("Hold%s(#%d len=%d%s)", api, i, len(o.Stored), zmark(o))
	}
	closeAll := func() {
		for _, h := range hs {
			_ = h.rd.Close()
		}
	}
	kinds := []string{"Head", "Head", "GetStream", "GetStream", "ReadHeader", "Get"}
	nr := rapid.IntRange(1, 8).Draw(t, "otherReads")
	for k := 0; k < nr; k++ {
		if rapid.IntRange(0, 3).Draw(t, "concurrent") == 0 {
			ng := rapid.IntRange(2, 4).Draw(t, "goroutines")
			is := make([]int, ng)
			ks := make([]string, ng)
			for g := 0; g < ng; g++ {
				is[g] = rapid.IntRange(0, universe-1).Draw(t, "ci")
				ks[g] = rapid.SampledFrom(kinds).Draw(t, "ckind")
			}
			m.log("  concurrently while held: %v %v", ks, is)
			errs := make([]error, ng)
			var wg sync.WaitGroup
			for g := 0; g < ng; g++ {
				wg.Add(1)
				go func() {
					defer wg.Done()
					errs[g] = m.quickRead(is[g], ks[g])
				}()
			}
			wg.Wait()
			for _, err := range errs {
				if err != nil {
					closeAll()
					m.fail(t, "%v", err)
				}
			}
			continue
		}
		i := rapid.IntRange(0, universe-1).Draw(t, "ri")
		if rapid.IntRange(0, 2).Draw(t, "sameAddress") == 0 {
			i = hs[rapid.IntRange(0, len(hs)-1).Draw(t, "which")].i
		}
		kind := rapid.SampledFrom(kinds).Draw(t, "rkind")
		m.log("  while held: %s(#%d)", kind, i)
		if err := m.quickRead(i, kind); err != nil {
			closeAll()
			m.fail(t, "%v", err)
		}
	}
	for _, h := range hs {
		rest, err := io.ReadAll(h.rd)
		_ = h.rd.Close()
		got := append(append([]byte(nil), h.prefix...), rest...)
		if err != nil || !bytes.Equal(got, h.want) {
			closeAll()
			m.fail(t, "%s(#%d) stream drained after other reads delivers %d bytes that differ from the stored %d bytes (first diff at %d, err %v)",
				h.api, h.i, len(got), len(h.want), firstDiff(got, h.want), err)
		}
	}
	m.heldDone = true
	m.log("  held streams drained OK")
}

func (m *machine) readOne(t *rapid.T) {
	i := rapid.IntRange(0, universe-1).Draw(t, "i")
	m.log("ReadAll(#%d)", i)
	m.checkAddr(t, i, apiAll)
}

func (m *machine) iterate(t *rapid.T) {
	m.log("Iterate")
	m.checkIterate(t)
}

func (m *machine) sweep(t *rapid.T, apis int) {
	for i := 0; i < universe; i++ {
		m.checkAddr(t, i, apis)
	}
}

var rotation = []int{apiGetBytes, apiHead, apiStream, apiReadObject, apiGet, apiReadHeader}

// invariant runs after every step: every address is compared through Exists and one more API
// (rotating so that each (address, API) pair is exercised every few steps).
func (m *machine) invariant(t *rapid.T) {
	m.step++
	for i := 0; i < universe; i++ {
		m.checkAddr(t, i, apiExists|rotation[(m.step+i)%len(rotation)])
	}
	if m.step%5 == 0 {
		m.checkIterate(t)
	}
}

func TestC10Model(t *testing.T) {
	rec := ev.New("C10", "model")
	defer rec.Flush()
	rapid.Check(t, func(t *rapid.T) {
		cfg := genConfig(t)
		seed := rapid.Uint64().Draw(t, "seed")
		m := &machine{cfg: cfg, in: map[int]bool{}, byAdr: map[oid.Address]int{},
			single: map[int]bool{}, batched: map[int]bool{}, siblingOfDeleted: map[int]bool{},
			hdrBuf: make([]byte, 2*fsobj.HeaderBufferLen), cls: map[string]bool{}}
		classes := map[string]int{}
		// (This class found the third defect of this check: readHeader sliced its 40 KiB buffer out of range when the
		// wanted member's data started beyond buffer offset 20480 after a refill – panic; fixed in /repo f0c9260.)
		// In a third of the cases objects #0,#1,#2 form a triple aimed at the header-buffer arithmetic of combined
		// files when written in this order at the start of one file: #0 ends r (1..37) bytes before the end of the
		// first 20 KiB read (the next prefix is cut by the refill), #1 ends so that the data of #2 starts at buffer
		// offset off in (20480, 20480+r], and #2 is as long as the remaining room +-1 (or much longer).
		aimed := rapid.IntRange(0, 2).Draw(t, "aimedTriple") == 0
		var aim [3]int
		if aimed {
			r := rapid.IntRange(1, fsobj.CombinedHdrLen-1).Draw(t, "aimLeftover")
			off := fsobj.HeaderBufferLen + rapid.IntRange(1, r).Draw(t, "aimOffset")
			aim[0] = fsobj.HeaderBufferLen - r - fsobj.CombinedHdrLen
			aim[1] = off - 2*fsobj.CombinedHdrLen
			room := 2*fsobj.HeaderBufferLen - off
			aim[2] = rapid.SampledFrom([]int{room - 1, room, room + 1, room + 1, 30000}).Draw(t, "aimLen")
		}
		m.aimed = aimed
		for i := 0; i < universe; i++ {
			if aimed && i < 3 {
				o := fit(fsobj.Spec{Idx: i, Seed: seed, Payload: 1}, aim[i])
				classes["aimed"]++
				m.objs = append(m.objs, o)
				m.byAdr[o.Addr] = i
				continue
			}
			o, class := genObject(t, seed, i, cfg)
			classes[class]++
			m.objs = append(m.objs, o)
			m.byAdr[o.Addr] = i
		}
		dir, err := os.MkdirTemp("", "c10-")
		if err != nil {
			ev.Inconclusive("mkdtemp: %v", err)
		}
		m.dir = dir
		defer os.RemoveAll(dir)
		m.open(t, false, true)
		defer func() { _ = m.tree.Close() }()
		m.log("Open(%s)", cfg)

		defer func() {
			nontrivial := m.readAfterSibling || m.bothWays || m.straddle
			labels := []string{"writer-linux"}
			if cfg.generic {
				labels[0] = "writer-generic"
			}
			labels = append(labels, fmt.Sprintf("depth-%d", cfg.depth))
			for k, v := range map[string]bool{
				"read-sibling-after-combined-member-delete": m.readAfterSibling,
				"same-address-single-and-batch":             m.bothWays,
				"header-straddles-buffer-refill":            m.straddle,
				"has-combined-file":                         m.sawCombined,
				"has-compressed-read":                       m.sawCompressedRead,
				"has-reopen":                                m.reopened,
				"has-held-streams":                          m.heldDone,
				"cnt-limit-1":                               cfg.cntLim == 1,
			} {
				if v {
					labels = append(labels, k)
				}
			}
			for k := range m.cls {
				labels = append(labels, k)
			}
			rec.Case(nontrivial, cfg.String()+"|"+strings.Join(m.ops, ";"), labels...)
			if rec.WantSample() && nontrivial {
				rec.Sample(map[string]any{"config": cfg.String(), "ops": m.ops})
			}
		}()

		t.Repeat(map[string]func(*rapid.T){
			"put":            m.put,
			"put2":           m.put,
			"putBatch":       m.putBatch,
			"putBatch2":      m.putBatch,
			"concurrentPuts": m.concurrentPuts,
			"aimedBatch":     m.aimedBatch,
			"heldStreams":    m.heldStreams,
			"heldStreams2":   m.heldStreams,
			"delete":         m.del,
			"delete2":        m.del,
			"reopen":         m.reopen,
			"read":           m.readOne,
			"iterate":        m.iterate,
			"":               m.invariant,
		})
		// final full comparison through every API, as a freshly started node would see the tree
		m.log("FinalReopen")
		if err := m.tree.Close(); err != nil {
			m.fail(t, "Close: %v", err)
		}
		m.open(t, true, false)
		m.sweep(t, apiAll)
		m.checkIterate(t)
	})
}

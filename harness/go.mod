// Marker of the module root only. Real builds always pass -modfile=<generated> (see /verif/check, ensure_gomod):
// the requirement list is regenerated from the repository's go.mod on every run. Use /verif/vgo to run go by hand.
module github.com/nspcc-dev/neofs-node/verifharness

go 1.25.0

// Package c20 decides property C20: engine reads (Get / GetBytes / Head)
// return an object exactly when it is stored on some readable shard and was
// not removed – whatever the HRW order of shards, their modes, injected blob
// read / write / exists errors, automatic moves to degraded mode by the error
// threshold, and shards added mid-history.
//
// Model (built from the history and from physical probes of the blob
// directories, never from engine reads):
//   - holders(a): shards whose blob storage physically holds a;
//   - indexed(s,a): a reached shard s by an engine Put while s had its metabase
//     (objects written in DEGRADED read-write mode are blob-only until a resync;
//     nothing is demanded for them while their shard uses the metabase);
//   - attempted(a): some removal (Delete mark, Drop, tombstone Put) was ever
//     attempted for a – afterwards shards may disagree ("divergent"), so
//     completeness is no longer demanded for a;
//   - gone(a): a removal was acknowledged (nil) while every shard was
//     read-write, healthy and every holder indexed: a must never be read again
//     (until a new acknowledged Put, impossible after a tombstone). Not
//     asserted while a shard that still holds the blob runs WITHOUT metabase
//     (it cannot know about the removal; collection is pending).
//
// Soundness: every successful read returns the stored bytes and a is not gone.
// Completeness: not attempted(a) and some holder is readable (no injected read
// error; degraded or indexed) ⇒ the read succeeds.
package c20

import (
	"bytes"
	"context"
	"fmt"
	"os"
	"sort"
	"strings"
	"testing"

	"github.com/nspcc-dev/neofs-node/pkg/local_object_storage/engine"
	meta "github.com/nspcc-dev/neofs-node/pkg/local_object_storage/metabase"
	"github.com/nspcc-dev/neofs-node/pkg/local_object_storage/shard/mode"
	"github.com/nspcc-dev/neofs-node/verifharness/engx"
	"github.com/nspcc-dev/neofs-node/verifharness/ev"
	"github.com/nspcc-dev/neofs-node/verifharness/uni"
	"github.com/nspcc-dev/neofs-sdk-go/object"
	oid "github.com/nspcc-dev/neofs-sdk-go/object/id"
	"pgregory.net/rapid"
)

// fpMarked: an object removed with Delete (default garbage mark, not yet
// collected) is served again by the "ignore metadata" fallback of engine.get
// as soon as ANY other shard runs in a degraded (no metabase) mode.
const fpMarked = "C20:marked-object-served-by-degraded-fallback"

const (
	cnr      = 0
	nIDs     = 12
	idECp    = 8 // virtual EC parent of parts 6, 7
	idT0     = 9
	idT1     = 10
	maxShard = 4
)

var dataIDs = []int{0, 1, 2, 3, 4, 5, 6, 7, 11}

type op struct {
	K     string `json:"k"` // put delete drop tomb mode failput failread failexists addshard gc
	ID    int    `json:"id,omitempty"`
	Shard int    `json:"sh,omitempty"`
	Mode  string `json:"m,omitempty"`
	On    bool   `json:"on,omitempty"`
	Mark  string `json:"mark,omitempty"`
	// Rank addresses a shard by its position in the HRW order of object ID
	// (loseblob, rmode): resolved when the op runs.
	Rank int `json:"rank,omitempty"`
}

func (o op) String() string {
	switch o.K {
	case "put", "drop", "tomb":
		return fmt.Sprintf("%s(o%d)", o.K, o.ID)
	case "delete":
		return fmt.Sprintf("delete(o%d,%s)", o.ID, o.Mark)
	case "mode":
		return fmt.Sprintf("mode(s%d,%s)", o.Shard, o.Mode)
	case "failput", "failread", "failexists":
		return fmt.Sprintf("%s(s%d,%v)", o.K, o.Shard, o.On)
	case "gc":
		return fmt.Sprintf("gc(s%d)", o.Shard)
	case "detach":
		return fmt.Sprintf("detach(s%d)", o.Shard)
	case "rdetach":
		return fmt.Sprintf("detach(HRW shard #%d of o%d)", o.Rank, o.ID)
	case "reattach":
		return "reattach(oldest detached shard)"
	case "loseblob":
		return fmt.Sprintf("loseblob(o%d on its HRW shard #%d)", o.ID, o.Rank)
	case "rmode":
		return fmt.Sprintf("mode(HRW shard #%d of o%d,%s)", o.Rank, o.ID, o.Mode)
	}
	return o.K
}

type kase struct {
	N0        int        `json:"n0"`
	Hashes    []uint64   `json:"hashes"`
	AddOrder  []int      `json:"add_order"`
	Threshold uint32     `json:"error_threshold"`
	Objs      []uni.Spec `json:"objs"`
	Ops       []op       `json:"ops"`
}

func (k kase) String() string {
	var sb strings.Builder
	fmt.Fprintf(&sb, "shards=%d hashes=%x addOrder=%v errorThreshold=%d tomb o%d->o%d o%d->o%d\n", k.N0, k.Hashes, k.AddOrder, k.Threshold,
		idT0, k.Objs[idT0].Target, idT1, k.Objs[idT1].Target)
	for i, o := range k.Ops {
		fmt.Fprintf(&sb, "  %2d %s\n", i, o)
	}
	return sb.String()
}

var modes = map[string]mode.Mode{"rw": mode.ReadWrite, "ro": mode.ReadOnly, "deg": mode.Degraded, "degro": mode.DegradedReadOnly}

func gen(t *rapid.T) kase {
	var k kase
	k.N0 = rapid.IntRange(1, maxShard).Draw(t, "nshards")
	for len(k.Hashes) < maxShard {
		v := rapid.Uint64().Draw(t, "shardhash")
		dup := false
		for _, x := range k.Hashes {
			dup = dup || x == v
		}
		if !dup {
			k.Hashes = append(k.Hashes, v)
		}
	}
	idx := make([]int, k.N0)
	for i := range idx {
		idx[i] = i
	}
	k.AddOrder = rapid.Permutation(idx).Draw(t, "addorder")
	k.Threshold = uint32(rapid.SampledFrom([]int{0, 0, 1, 2, 3}).Draw(t, "threshold"))
	for i := 0; i < nIDs; i++ {
		s := uni.Spec{Kind: uni.Regular, Cnr: cnr, ID: i, Exp: -1, Parent: -1, ParentExp: -1, First: -1, PayloadLen: []int{0, 1, 7, 32, 64}[i%5]}
		switch i {
		case 6, 7:
			s.Kind, s.Parent, s.ParentLen, s.PartIdx = uni.ECPart, idECp, 100, i-6
		case idT0, idT1:
			s.Kind, s.PayloadLen = uni.Tombstone, 0
			s.Target = rapid.IntRange(0, 5).Draw(t, "tombtarget")
		}
		k.Objs = append(k.Objs, s)
	}
	n := k.N0
	nops := rapid.IntRange(4, 24).Draw(t, "nops")
	kinds := []string{"put", "put", "put", "put", "delete", "drop", "tomb", "mode", "mode", "mode", "failput", "failread", "failread", "failexists", "addshard", "gc", "loseblob", "detach", "reattach", "reattach"}
	var put []int
	for len(k.Ops) < nops {
		o := op{K: rapid.SampledFrom(kinds).Draw(t, "op")}
		pickPut := func(lbl string) int {
			if len(put) > 0 && rapid.IntRange(0, 9).Draw(t, lbl+"-pref") < 8 {
				return rapid.SampledFrom(put).Draw(t, lbl)
			}
			return rapid.SampledFrom(dataIDs).Draw(t, lbl)
		}
		switch o.K {
		case "put":
			o.ID = rapid.SampledFrom(dataIDs).Draw(t, "obj")
			put = append(put, o.ID)
		case "delete":
			o.ID = pickPut("del")
			o.Mark = rapid.SampledFrom([]string{"default", "default", "redundant"}).Draw(t, "mark")
		case "drop":
			o.ID = pickPut("drop")
		case "tomb":
			o.ID = rapid.SampledFrom([]int{idT0, idT1}).Draw(t, "tomb")
		case "mode":
			o.Shard = rapid.IntRange(0, n-1).Draw(t, "shard")
			o.Mode = rapid.SampledFrom([]string{"rw", "rw", "ro", "deg", "degro", "degro"}).Draw(t, "mode")
		case "failput", "failread", "failexists":
			o.Shard = rapid.IntRange(0, n-1).Draw(t, "shard")
			o.On = rapid.IntRange(0, 2).Draw(t, "on") != 0
		case "gc", "detach":
			o.Shard = rapid.IntRange(0, n-1).Draw(t, "shard")
		case "loseblob":
			o.ID = pickPut("lose")
			o.Rank = rapid.IntRange(0, 1).Draw(t, "rank")
		case "addshard":
			if n >= maxShard {
				continue
			}
			n++
		}
		k.Ops = append(k.Ops, o)
	}
	// Some histories get the "disk taken out and put back" story merged in: an
	// object is stored, its first HRW shard is detached from the running engine,
	// life goes on, the shard (still holding the object) is attached again.
	merge := func(story []op, lbl string) {
		pos := make([]int, len(story))
		for i := range pos {
			pos[i] = rapid.IntRange(0, len(k.Ops)).Draw(t, lbl)
		}
		sort.Ints(pos)
		var merged []op
		si := 0
		for i := 0; i <= len(k.Ops); i++ {
			for si < len(story) && pos[si] == i {
				merged = append(merged, story[si])
				si++
			}
			if i < len(k.Ops) {
				merged = append(merged, k.Ops[i])
			}
		}
		k.Ops = merged
	}
	if rapid.IntRange(0, 9).Draw(t, "reattach-story") < 3 {
		id := rapid.SampledFrom(dataIDs).Draw(t, "rstory-obj")
		merge([]op{{K: "put", ID: id}, {K: "rdetach", ID: id, Rank: 0}, {K: "put", ID: rapid.SampledFrom(dataIDs).Draw(t, "rstory-obj2")}, {K: "reattach"}}, "rstory-pos")
	}
	// Some histories get the "binary lost, re-uploaded elsewhere" story merged in
	// (order preserving): the object is stored on its first HRW shard, the blob
	// file under that shard is lost (metadata stays), the shard is taken out of
	// write service, a new upload lands on the next shard, the first shard comes
	// back, and the shard with the good copy goes degraded.
	if rapid.IntRange(0, 9).Draw(t, "lostblob-story") < 3 {
		id := rapid.SampledFrom(dataIDs).Draw(t, "story-obj")
		story := []op{
			{K: "put", ID: id},
			{K: "loseblob", ID: id, Rank: 0},
			{K: "rmode", ID: id, Rank: 0, Mode: rapid.SampledFrom([]string{"degro", "deg", "ro"}).Draw(t, "story-out")},
			{K: "put", ID: id},
			{K: "rmode", ID: id, Rank: 0, Mode: "rw"},
			{K: "rmode", ID: id, Rank: 1, Mode: rapid.SampledFrom([]string{"degro", "degro", "deg"}).Draw(t, "story-deg")},
		}
		pos := make([]int, len(story))
		for i := range pos {
			pos[i] = rapid.IntRange(0, len(k.Ops)).Draw(t, "story-pos")
		}
		sort.Ints(pos)
		var merged []op
		si := 0
		for i := 0; i <= len(k.Ops); i++ {
			for si < len(story) && pos[si] == i {
				merged = append(merged, story[si])
				si++
			}
			if i < len(k.Ops) {
				merged = append(merged, k.Ops[i])
			}
		}
		k.Ops = merged
	}
	return k
}

type state struct {
	k    kase
	e    *engx.Eng
	objs []*object.Object
	// indexed[s][id]
	indexed   []map[int]bool
	attempted map[int]bool
	gone      map[int]string
	// acked[id]: a Delete(default mark) / Drop of id returned nil and no new
	// upload was stored since: with every shard on its metabase and no injected
	// read fault the object must not be read (whatever the modes were when the
	// removal was acknowledged – a removal that cannot be applied must fail)
	acked map[int]string
	// lost[id]: the blob of id was removed under some shard that keeps its
	// metadata (then Put may answer nil "exists" although no blob is left)
	lost map[int]bool
	// detachedQ: detached slots in detach order (re-attached first in, first out)
	detachedQ []int
	// marked[id]: gone because of a Delete(default) mark (not a tombstone, not a drop)
	labels map[string]bool
	trace  []string
	known  func(string) bool
	excl   int
	nontrv bool
}

func (s *state) addr(i int) oid.Address { return uni.Addr(cnr, i) }

// attached returns the slots currently attached to the engine.
func (s *state) attached() []int {
	var r []int
	for k, sh := range s.e.Sh {
		if !sh.Detached {
			r = append(r, k)
		}
	}
	return r
}

func (s *state) healthy() bool {
	for k, sh := range s.e.Sh {
		if sh.Detached {
			continue
		}
		if s.e.Mode(k) != mode.ReadWrite || sh.FailPut || sh.FailRead || sh.FailExists {
			return false
		}
	}
	return true
}

func (s *state) allHoldersIndexed(id int) bool {
	for _, h := range s.e.Holders(s.addr(id)) {
		if !s.indexed[h][id] {
			return false
		}
	}
	return true
}

func (s *state) modesStr() string {
	var p []string
	for k, sh := range s.e.Sh {
		if sh.Detached {
			p = append(p, fmt.Sprintf("s%d=detached", k))
			continue
		}
		m := engx.ModeName(s.e.Mode(k))
		if sh.FailPut {
			m += "+failput"
		}
		if sh.FailRead {
			m += "+failread"
		}
		if sh.FailExists {
			m += "+failexists"
		}
		p = append(p, fmt.Sprintf("s%d=%s", k, m))
	}
	return strings.Join(p, " ")
}

func short(err error) string {
	if err == nil {
		return "nil"
	}
	m := err.Error()
	if len(m) > 100 {
		m = m[:100] + "…"
	}
	return m
}

func (s *state) exec(t *rapid.T, i int, o op) {
	ctx := context.Background()
	step := fmt.Sprintf("op %d %s", i, o)
	switch o.K {
	case "mode", "failput", "failread", "failexists", "gc":
		if s.e.Sh[o.Shard].Detached {
			s.trace = append(s.trace, step+" -> skipped, shard detached")
			return
		}
	}
	switch o.K {
	case "put":
		a := s.addr(o.ID)
		before := s.e.Holders(a)
		modesBefore := make([]mode.Mode, len(s.e.Sh))
		for k := range s.e.Sh {
			modesBefore[k] = s.e.Mode(k)
		}
		s.e.TakeCalls()
		err := s.e.E.Put(ctx, s.objs[o.ID], nil)
		after := s.e.Holders(a)
		// shards whose blob storage accepted a write of this object during the Put
		// (also an overwrite of a blob-only copy, which gets indexed thereby)
		storedAnew := false
		for _, c := range s.e.TakeCalls() {
			if c.Method == "Put" && c.Addr == a && c.Err == nil && s.e.Phys(c.Shard, a) {
				storedAnew = true
				s.indexed[c.Shard][o.ID] = !modesBefore[c.Shard].NoMetabase()
				if modesBefore[c.Shard].NoMetabase() {
					s.labels["stored-blob-only-on-degraded-shard"] = true
				}
			}
		}
		s.trace = append(s.trace, fmt.Sprintf("%s [%s] -> %s; holders %v -> %v", step, s.modesStr(), short(err), before, after))
		if err == nil {
			if len(after) == 0 && !s.lost[o.ID] {
				s.failf(t, "%s: Put returned nil but no shard holds the object", step)
			}
			if storedAnew {
				delete(s.acked, o.ID)
			}
			if g := s.gone[o.ID]; g != "" && storedAnew {
				// a new upload was acknowledged AND stored: the object is "stored" again
				// (whether a Put after a tombstone may be accepted – here only when the
				// shards knowing the tombstone have no metabase – is not C20's subject)
				if g == "tomb" {
					s.labels["put-stored-after-tombstone(tombstone-knowers-degraded)"] = true
				}
				delete(s.gone, o.ID)
			}
		}
	case "delete", "drop", "tomb":
		id := o.ID
		if o.K == "tomb" {
			id = s.k.Objs[o.ID].Target
		}
		clean := s.healthy() && s.allHoldersIndexed(id)
		held := len(s.e.Holders(s.addr(id))) > 0
		var err error
		switch o.K {
		case "delete":
			m := meta.GarbageMarkDefault
			if o.Mark == "redundant" {
				m = meta.GarbageMarkRedundant
			}
			err = s.e.E.Delete(ctx, s.addr(id), m)
		case "drop":
			err = s.e.E.Drop(ctx, s.addr(id))
		case "tomb":
			// remember which shards took the tombstone WITH their metabase
			mb := make([]mode.Mode, len(s.e.Sh))
			for k := range s.e.Sh {
				if !s.e.Sh[k].Detached {
					mb[k] = s.e.Mode(k)
				}
			}
			s.e.TakeCalls()
			err = s.e.E.Put(ctx, s.objs[o.ID], nil)
			for _, c := range s.e.TakeCalls() {
				if c.Method == "Put" && c.Addr == s.addr(o.ID) && c.Err == nil && s.e.Phys(c.Shard, c.Addr) {
					s.indexed[c.Shard][o.ID] = !mb[c.Shard].NoMetabase()
				}
			}
		}
		s.attempted[id] = true
		existsFault := false
		for _, sh := range s.e.Sh {
			existsFault = existsFault || (sh.FailExists && !sh.Detached)
		}
		if existsFault {
			// (a shard whose existence check fails with an I/O error is skipped by
			// Delete/Drop, which still return nil – reported as an observation, not asserted)
			s.labels["removal-with-failing-exists(not-asserted)"] = true
		}
		if err == nil && !existsFault && (o.K == "drop" || (o.K == "delete" && o.Mark != "redundant")) {
			// acknowledged forced removal: must be effective (see checkReads)
			s.acked[id] = o.String()
		}
		s.trace = append(s.trace, fmt.Sprintf("%s [%s] -> %s", step, s.modesStr(), short(err)))
		// a tombstone Put also returns nil when the tombstone merely exists already
		// somewhere: it counts only when every shard physically holds it now; a Drop
		// of a garbage-marked object is a no-op returning nil: it counts only when
		// no shard holds the object any more
		switch o.K {
		case "tomb":
			for _, k := range s.attached() {
				// (a tombstone written while the shard had no metabase is a bare blob)
				clean = clean && s.e.Phys(k, s.addr(o.ID)) && s.indexed[k][o.ID]
			}
		case "drop":
			clean = clean && len(s.e.Holders(s.addr(id))) == 0
		}
		if err == nil && clean && !(o.K == "delete" && o.Mark == "redundant") {
			switch {
			case o.K == "tomb":
				s.gone[id] = "tomb"
			case s.gone[id] != "":
				// already removed: keep the first cause (e.g. Drop of a garbage-marked
				// object is a no-op that returns nil and leaves the marked blob)
			case o.K == "drop":
				s.gone[id] = "drop"
			default:
				s.gone[id] = "mark"
			}
			if held {
				s.labels["removal-acknowledged-clean"] = true
			}
		}
	case "mode":
		err := s.e.SetMode(o.Shard, modes[o.Mode])
		s.trace = append(s.trace, fmt.Sprintf("%s -> %s", step, short(err)))
	case "failput":
		s.e.Sh[o.Shard].FailPut = o.On
		s.trace = append(s.trace, step)
	case "failread":
		s.e.Sh[o.Shard].FailRead = o.On
		s.trace = append(s.trace, step)
	case "failexists":
		s.e.Sh[o.Shard].FailExists = o.On
		s.trace = append(s.trace, step)
	case "gc":
		s.e.GC(o.Shard)
		s.trace = append(s.trace, step)
	case "loseblob", "rmode":
		order := s.e.HRW(s.addr(o.ID).Object())
		if o.Rank >= len(order) {
			s.trace = append(s.trace, step+" -> skipped, no such shard")
			break
		}
		sh := order[o.Rank]
		if o.K == "rmode" {
			err := s.e.SetMode(sh, modes[o.Mode])
			s.trace = append(s.trace, fmt.Sprintf("%s = mode(s%d,%s) -> %s", step, sh, o.Mode, short(err)))
			break
		}
		// the file disappears under the shard (media loss / operator mistake);
		// only a shard that indexed the object is interesting
		if !s.e.Phys(sh, s.addr(o.ID)) || !s.indexed[sh][o.ID] {
			s.trace = append(s.trace, fmt.Sprintf("%s = s%d -> skipped, no indexed copy there", step, sh))
			break
		}
		if err := s.e.Sh[sh].FS.Storage.Delete(s.addr(o.ID)); err != nil {
			s.trace = append(s.trace, fmt.Sprintf("%s = s%d -> blob delete failed: %v", step, sh, err))
			break
		}
		s.lost[o.ID] = true
		s.labels["blob-lost-under-metadata"] = true
		s.trace = append(s.trace, fmt.Sprintf("%s = s%d: blob file removed, metadata kept", step, sh))
	case "detach", "rdetach":
		k := o.Shard
		if o.K == "rdetach" {
			order := s.e.HRW(s.addr(o.ID).Object())
			if o.Rank >= len(order) {
				s.trace = append(s.trace, step+" -> skipped, no such shard")
				break
			}
			k = order[o.Rank]
		}
		if s.e.Sh[k].Detached || len(s.attached()) < 2 {
			s.trace = append(s.trace, step+" -> skipped")
			break
		}
		s.e.Detach(k)
		s.detachedQ = append(s.detachedQ, k)
		s.labels["shard-detached-at-runtime"] = true
		s.trace = append(s.trace, fmt.Sprintf("%s = s%d detached (removed from the engine and closed)", step, k))
	case "reattach":
		if len(s.detachedQ) == 0 {
			s.trace = append(s.trace, step+" -> skipped, nothing detached")
			break
		}
		k := s.detachedQ[0]
		s.detachedQ = s.detachedQ[1:]
		if err := s.e.Reattach(k); err != nil {
			ev.Inconclusive("C20 re-attach: %v", err)
		}
		// removals acknowledged while the shard was away did not reach it: whatever
		// it holds is "stored on an attached shard" again
		held := 0
		for _, id := range dataIDs {
			if s.e.Phys(k, s.addr(id)) {
				held++
				delete(s.acked, id)
				delete(s.gone, id)
			}
		}
		s.labels["shard-added-after-first-op"] = true
		if held > 0 {
			s.labels["pre-populated-shard-attached"] = true
		}
		s.trace = append(s.trace, fmt.Sprintf("%s = s%d attached again (holds %d data objects)", step, k, held))
	case "addshard":
		n := len(s.e.Sh)
		if _, err := s.e.AddShard(fmt.Sprintf("%s/s%d", s.e.Sh[0].Dir+"-more", n), engx.MkID(n, s.k.Hashes[n])); err != nil {
			ev.Inconclusive("C20 AddShard: %v", err)
		}
		s.indexed = append(s.indexed, map[int]bool{})
		s.labels["addshard"] = true
		s.labels["shard-added-after-first-op"] = true
		s.trace = append(s.trace, step)
	}
	s.checkReads(t, step)
}

func (s *state) failf(t *rapid.T, format string, a ...any) {
	t.Fatalf("C20 violated: %s\ncase:\n%strace:\n  %s", fmt.Sprintf(format, a...), s.k, strings.Join(s.trace, "\n  "))
}

type readRes struct {
	name string
	cls  string
	err  error
	ok   bool // content matches when cls == OK
}

func (s *state) reads(id int) []readRes {
	ctx := context.Background()
	a := s.addr(id)
	want := s.objs[id]
	var res []readRes
	o, err := s.e.E.Get(ctx, a)
	res = append(res, readRes{"Get", engx.Class(err), err, err != nil || engx.SameObject(o, want)})
	b, err := s.e.E.GetBytes(ctx, a)
	res = append(res, readRes{"GetBytes", engx.Class(err), err, err != nil || bytes.Equal(b, want.Marshal())})
	h, err := s.e.E.Head(ctx, a, false)
	res = append(res, readRes{"Head", engx.Class(err), err, err != nil || engx.SameHeader(h, want)})
	return res
}

func (s *state) checkReads(t *rapid.T, step string) {
	for _, id := range dataIDs {
		a := s.addr(id)
		// model, evaluated before the reads (reads may move shards to degraded
		// mode through the error threshold, which only makes more readable)
		holders := s.e.Holders(a)
		var readable, unindexedOnly bool
		othersBad := false
		for k, sh := range s.e.Sh {
			if sh.Detached {
				continue
			}
			isHolder := false
			for _, h := range holders {
				isHolder = isHolder || h == k
			}
			if !isHolder {
				othersBad = othersBad || sh.FailRead || s.e.Mode(k).NoMetabase()
				continue
			}
			if sh.FailRead {
				continue
			}
			if s.e.Mode(k).NoMetabase() || s.indexed[k][id] {
				readable = true
			} else {
				unindexedOnly = true
			}
		}
		modesBefore := s.modesStr()
		plain := func() bool {
			for k, sh := range s.e.Sh {
				if sh.Detached {
					continue
				}
				if sh.FailRead || s.e.Mode(k).NoMetabase() {
					return false
				}
			}
			return true
		}
		plainBefore := plain()
		s.e.TakeCalls()
		rr := s.reads(id)
		if s.acked[id] != "" && s.lost[id] {
			// a shard keeps metadata of a lost blob: engine.get then falls back to
			// reading every shard ignoring metadata (same mechanism as fpMarked)
			s.labels["acknowledged-removal-with-lost-blob-elsewhere(not-asserted)"] = true
		}
		if ack := s.acked[id]; ack != "" && !s.lost[id] && plainBefore && plain() {
			s.labels["acknowledged-removal-effectiveness-checked"] = true
			for _, r := range rr {
				if r.cls == engx.OK {
					s.failf(t, "%s was acknowledged (nil) but is not effective: after %s: %s(o%d) returns the object; physical holders %v, shards: %s",
						ack, step, r.name, id, holders, modesBefore)
				}
			}
		}
		fallback := false
		perShard := map[int]int{}
		for _, c := range s.e.TakeCalls() {
			if c.Method == "Get" {
				perShard[c.Shard]++
				fallback = fallback || perShard[c.Shard] >= 2
			}
		}
		if fallback {
			s.labels["fallback-ignoring-metadata-taken"] = true
		}
		for _, r := range rr {
			desc := fmt.Sprintf("after %s: %s(o%d) = %s (%s); physical holders %v, shards before the read: %s, removal attempted=%v, gone=%q",
				step, r.name, id, r.cls, short(r.err), holders, modesBefore, s.attempted[id], s.gone[id])
			if r.cls == engx.OK {
				if !r.ok {
					s.failf(t, "read returned wrong bytes: %s", desc)
				}
				holderNoMeta := false
				for _, h := range holders {
					holderNoMeta = holderNoMeta || s.e.Mode(h).NoMetabase()
				}
				if g := s.gone[id]; g != "" && holderNoMeta {
					// the shard still holding the blob runs without its metabase and
					// cannot know about the removal (operator-level emergency mode)
					s.labels["removed-object-read-from-degraded-holder(not-asserted)"] = true
				} else if g != "" {
					fp := ""
					// the recorded class, narrowly: force-removed with a DEFAULT mark (no
					// tombstone), blob not collected yet, holder has its metabase, some
					// OTHER shard runs without metabase, read through Get / GetBytes
					otherNoMeta := false
					for k := range s.e.Sh {
						if s.e.Sh[k].Detached {
							continue
						}
						isHolder := false
						for _, h := range holders {
							isHolder = isHolder || h == k
						}
						otherNoMeta = otherNoMeta || (!isHolder && s.e.Mode(k).NoMetabase())
					}
					// (the same fallback is also entered when another shard kept the
					// metadata of a blob that was lost under it)
					if g == "mark" && len(holders) > 0 && (otherNoMeta || s.lost[id]) && r.name != "Head" {
						fp = fpMarked
					}
					if fp != "" && s.known(fp) {
						s.excl++
						s.labels["known:"+fp] = true
					} else {
						s.failf(t, "[class %s] a removed object is served again: %s", fp, desc)
					}
				}
				if othersBad || fallback {
					s.nontrv = true
					s.labels["read-ok-while-other-shard-failing-or-degraded"] = true
				}
			}
			switch {
			case s.attempted[id]:
				s.labels["divergent-or-removed-address(no-completeness)"] = true
			case readable:
				s.labels["completeness-checked"] = true
				if r.cls != engx.OK {
					s.failf(t, "a stored, not removed object on a readable shard is not returned: %s", desc)
				}
			case unindexedOnly:
				s.labels["only-unindexed-holders(not-asserted)"] = true
			}
		}
	}
	for k := range s.e.Sh {
		if !s.e.Sh[k].Detached && s.e.Mode(k) == mode.DegradedReadOnly && s.k.Threshold > 0 {
			s.labels["some-shard-degraded-ro"] = true
		}
	}
}

func run(t *rapid.T, rec *ev.Recorder, k kase) ([]string, bool) {
	root, err := os.MkdirTemp("", "c20-")
	if err != nil {
		ev.Inconclusive("C20 tempdir: %v", err)
	}
	defer os.RemoveAll(root)
	sp := engx.Spec{Root: root + "/e", AddOrder: k.AddOrder, EOpts: []engine.Option{engine.WithErrorThreshold(k.Threshold)}}
	for s := 0; s < k.N0; s++ {
		sp.Dirs = append(sp.Dirs, fmt.Sprintf("s%d", s))
		sp.IDs = append(sp.IDs, engx.MkID(s, k.Hashes[s]))
	}
	e, err := engx.Open(sp)
	if err != nil {
		ev.Inconclusive("C20 engine setup: %v", err)
	}
	defer e.Close()
	e.LogCalls = true
	st := &state{k: k, e: e, attempted: map[int]bool{}, gone: map[int]string{}, acked: map[int]string{}, lost: map[int]bool{}, labels: map[string]bool{}, known: rec.Known}
	for range e.Sh {
		st.indexed = append(st.indexed, map[int]bool{})
	}
	for _, s := range k.Objs {
		st.objs = append(st.objs, uni.Build(s))
	}
	defer func() { rec.Excluded(int64(st.excl)) }()
	for i, o := range k.Ops {
		st.exec(t, i, o)
	}
	var ls []string
	for l := range st.labels {
		ls = append(ls, l)
	}
	sort.Strings(ls)
	return ls, st.nontrv
}

func TestC20Reads(t *testing.T) {
	rec := ev.New("C20", "reads")
	defer rec.Flush()
	rapid.Check(t, func(t *rapid.T) {
		k := gen(t)
		var (
			labels []string
			nt     bool
		)
		defer func() {
			rec.Case(nt, k.String(), labels...)
			if nt && rec.WantSample() {
				rec.Sample(k)
			}
		}()
		labels, nt = run(t, rec, k)
	})
}

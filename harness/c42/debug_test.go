package c42

import (
	"fmt"
	"os"
	"path/filepath"
	"sort"
	"testing"
	"time"

	meta "github.com/nspcc-dev/neofs-node/pkg/local_object_storage/metabase"
	"github.com/nspcc-dev/neofs-node/verifharness/stor"
	"github.com/nspcc-dev/neofs-node/verifharness/uni"
	oid "github.com/nspcc-dev/neofs-sdk-go/object/id"
)

func TestDebugView(t *testing.T) {
	dir, _ := os.MkdirTemp("", "c42d-")
	defer os.RemoveAll(dir)
	ep := &stor.Epoch{}
	db, err := stor.OpenMeta(filepath.Join(dir, "m"), ep, meta.WithContainers(&countingContainers{}))
	if err != nil {
		t.Fatal(err)
	}
	sp := func(k string, id, tg int) uni.Spec {
		return uni.Spec{Kind: k, Cnr: 0, ID: id, Target: tg, Exp: -1, Parent: -1, ParentExp: -1, First: -1, PayloadLen: 3}
	}
	s1, s2, s3, s4 := sp(uni.Regular, 1, 0), sp(uni.Regular, 2, 0), sp(uni.Tombstone, 3, 1), sp(uni.Lock, 4, 2)
	ops := []op{{Kind: "put", Spec: &s1}, {Kind: "put", Spec: &s2}, {Kind: "put", Spec: &s3}, {Kind: "put", Spec: &s4}}
	t0 := time.Now()
	applyHistory(db, ep, ops, bulk{N: [2]int{1000, 3}})
	fmt.Println("apply", time.Since(t0))
	var addrs []oid.Address
	for i := 0; i < 6; i++ {
		addrs = append(addrs, uni.Addr(0, i))
	}
	t0 = time.Now()
	v := takeView(db, addrs, []oid.ID{uni.OID(1), uni.OID(2)}, 0)
	fmt.Println("view", time.Since(t0))
	var ks []string
	for k := range v {
		ks = append(ks, k)
	}
	sort.Strings(ks)
	for _, k := range ks {
		s := v[k]
		if len(s) > 300 {
			s = s[:300] + "..."
		}
		fmt.Println(k, "=>", s)
	}
	db.Close()
}

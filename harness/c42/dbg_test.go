package c42

import (
	"fmt"
	"os"
	"path/filepath"
	"testing"

	meta "github.com/nspcc-dev/neofs-node/pkg/local_object_storage/metabase"
	"github.com/nspcc-dev/neofs-node/verifharness/stor"
	"github.com/nspcc-dev/neofs-node/verifharness/uni"
	oid "github.com/nspcc-dev/neofs-sdk-go/object/id"
)

func TestDbgCycle(t *testing.T) {
	dir, _ := os.MkdirTemp("", "c42d-")
	defer os.RemoveAll(dir)
	ep := &stor.Epoch{}
	db, _ := stor.OpenMeta(filepath.Join(dir, "m"), ep, meta.WithContainers(&countingContainers{}))
	defer db.Close()
	s := uni.Spec{Kind: uni.ChildV2, Cnr: 0, ID: 1, Parent: 2, First: 2, Exp: -1, ParentExp: -1, PayloadLen: 1, ParentLen: 10}
	fmt.Println("put child:", db.Put(uni.Build(s)))
	_, err := db.MarkGarbage(uni.Cnr(0), []oid.ID{uni.OID(2)}, meta.GarbageMarkDefault)
	fmt.Println("mark garbage parent:", err)
	ts := uni.Spec{Kind: uni.Tombstone, Cnr: 0, ID: 5, Target: 2, Exp: -1, Parent: -1, ParentExp: -1, First: -1}
	fmt.Println("put tombstone for parent:", db.Put(uni.Build(ts)))
}

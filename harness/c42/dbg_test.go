package c42

import (
	"fmt"
	"os"
	"path/filepath"
	"testing"

	meta "github.com/nspcc-dev/neofs-node/pkg/local_object_storage/metabase"
	"github.com/nspcc-dev/neofs-node/verifharness/stor"
)

func TestDbg(t *testing.T) {
	dir, _ := os.MkdirTemp("", "c42d-")
	defer os.RemoveAll(dir)
	f := filepath.Join(dir, "m")
	ep := &stor.Epoch{}
	db, _ := stor.OpenMeta(f, ep, meta.WithContainers(&countingContainers{}))
	applyHistory(db, ep, nil, bulk{N: [2]int{1001, 3}})
	db.Close()
	st, err := To10(f, DownOpts{})
	fmt.Println(st, err)
	err, calls := upgrade(f, ep, 0)
	fmt.Println("upgrade", err, calls)
	fmt.Println(Legacy(f))
}

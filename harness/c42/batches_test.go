package c42

import (
	"errors"
	"fmt"
	"os"
	"path/filepath"
	"testing"

	meta "github.com/nspcc-dev/neofs-node/pkg/local_object_storage/metabase"
	"github.com/nspcc-dev/neofs-node/verifharness/ev"
	"github.com/nspcc-dev/neofs-node/verifharness/stor"
	"github.com/nspcc-dev/neofs-node/verifharness/uni"
	oid "github.com/nspcc-dev/neofs-sdk-go/object/id"
)

// TestC42Batches enumerates, for databases laid out around the 1000-key
// migration batch size, EVERY interruption point of the upgrade (cancel at the
// k-th Containers.Exists call for k = 0..T, and before Init), resumes, and
// compares all views and the raw legacy-key scan with the original.
func TestC42Batches(t *testing.T) {
	rec := ev.New("C42", "batches")
	defer rec.Flush()
	k, n := ev.Shard()
	// a long tail after the first batch matters: the successor of the resume key must be an unmigrated entry
	layouts := [][2]int{{1001, 3}, {600, 900}, {1500, 2}}
	if ev.Thorough() {
		layouts = append(layouts, [2]int{999, 3}, [2]int{1000, 3}, [2]int{3, 1000}, [2]int{2005, 10}, [2]int{1000, 1000}, [2]int{2000, 1})
	}
	idx := 0
	for _, l := range layouts {
		for _, homo := range []int{0, 1} {
			for _, from := range []int{10, 9} {
				idx++
				if idx%n != k {
					continue
				}
				batchCase(t, rec, l, homo, from)
			}
		}
	}
}

func batchCase(t *testing.T, rec *ev.Recorder, l [2]int, homo, from int) {
	dir, err := os.MkdirTemp("", "c42b-")
	if err != nil {
		fatalEnv("mkdtemp: %v", err)
	}
	defer os.RemoveAll(dir)
	f11 := filepath.Join(dir, "v11")
	ep := &stor.Epoch{}
	db, err := stor.OpenMeta(f11, ep, meta.WithContainers(&countingContainers{}))
	if err != nil {
		fatalEnv("open: %v", err)
	}
	// a few universe objects with associations next to the bulk
	sp := func(kind string, c, id, tg int) *uni.Spec {
		return &uni.Spec{Kind: kind, Cnr: c, ID: id, Target: tg, Exp: -1, Parent: -1, ParentExp: -1, First: -1, PayloadLen: 7}
	}
	ops := []op{{Kind: "put", Spec: sp(uni.Regular, 0, 1, 0)}, {Kind: "put", Spec: sp(uni.Regular, 0, 2, 0)},
		{Kind: "put", Spec: sp(uni.Tombstone, 0, 3, 1)}, {Kind: "put", Spec: sp(uni.Lock, 0, 4, 2)},
		{Kind: "put", Spec: sp(uni.Regular, 2, 5, 0)}, {Kind: "put", Spec: sp(uni.Lock, 2, 6, 5)}}
	b := bulk{N: l}
	applyHistory(db, ep, ops, b)
	_ = db.Close()

	var addrs []oid.Address
	var targets []oid.ID
	for c := 0; c < uni.NContainers; c++ {
		for i := 0; i < 8; i++ {
			addrs = append(addrs, uni.Addr(c, i))
		}
	}
	for i := 0; i < 8; i++ {
		targets = append(targets, uni.OID(i))
	}
	for c, n := range l {
		for j := 0; j < n; j += 1 + n/40 {
			addrs = append(addrs, oid.NewAddress(uni.Cnr(c), bulkOID(c, j)), oid.NewAddress(uni.Cnr(c), bulkTarget(c, j)))
			targets = append(targets, bulkTarget(c, j))
		}
	}
	orig, msg := openView(f11, ep, addrs, targets, false)
	if msg != "" {
		fatalEnv("reopen: %s", msg)
	}
	src := filepath.Join(dir, "old")
	copyFile(src, f11)
	do := DownOpts{HomoEvery: homo, PerturbCounters: 3, LegacyCounter: 99}
	if _, err := To10(src, do); err != nil {
		fatalEnv("to10: %v", err)
	}
	if from == 9 {
		if _, err := To9(src, do); err != nil {
			fatalEnv("to9: %v", err)
		}
	}
	desc := fmt.Sprintf("bulk layout %v, homomorphic entries every %d, from version %d", l, homo, from)
	check := func(name, path string) {
		if left, err := Legacy(path); err != nil {
			fatalEnv("scan: %v", err)
		} else if left != "" {
			t.Fatalf("%s (%s): %s", name, desc, left)
		}
		got, msg := openView(path, ep, addrs, targets, false)
		if msg != "" {
			t.Fatalf("%s (%s): upgraded database does not open: %s", name, desc, msg)
		}
		if d := diffViews(orig, got); d != "" {
			t.Fatalf("%s (%s): views differ from the original:\n%s", name, desc, d)
		}
	}
	p := filepath.Join(dir, "up")
	copyFile(p, src)
	err, calls := upgrade(p, ep, 0)
	if err != nil {
		t.Fatalf("upgrade (%s) failed: %v", desc, err)
	}
	check("uninterrupted upgrade", p)
	rec.Case(true, desc+"|uninterrupted", fmt.Sprintf("exists-calls-%d", calls))
	for at := -1; at <= calls; at++ {
		if at == 0 {
			continue
		}
		p := filepath.Join(dir, fmt.Sprintf("int%d", at))
		copyFile(p, src)
		err, _ := upgrade(p, ep, at)
		eff := err != nil
		if err != nil && !errors.Is(err, errInterrupt) {
			t.Fatalf("upgrade (%s) interrupted at Containers.Exists call %d of %d failed with an unrelated error: %v", desc, at, calls, err)
		}
		if err != nil {
			if err, _ := upgrade(p, ep, 0); err != nil {
				t.Fatalf("resumed upgrade (%s) after interruption at call %d of %d failed: %v", desc, at, calls, err)
			}
		}
		lbl := "interruption-too-late"
		if eff {
			lbl = "interruption-effective"
		}
		rec.Case(eff, fmt.Sprintf("%s|int@%d", desc, at), lbl)
		check(fmt.Sprintf("upgrade interrupted at Containers.Exists call %d of %d and resumed", at, calls), p)
		_ = os.Remove(p)
	}
	rec.Set("interruption_points_exhaustive_for_listed_layouts", true)
}

// Package c42 decides property C42: opening a metabase written in an older
// supported format (versions 10 and 9) upgrades it to the current version and
// every view of every object (existence/status, header, search results,
// counters, container info) stays what it was, with and without interruption
// of the upgrade.
//
// The old formats are produced by this package's own down-converter, written
// from VERSION.md and the repository's TestMigrate9To10/TestMigrate10To11
// fixtures, operating on the bbolt file directly. It does not call into the
// metabase package.
package c42

import (
	"bytes"
	"crypto/sha256"
	"encoding/binary"
	"fmt"

	"github.com/nspcc-dev/bbolt"
	oid "github.com/nspcc-dev/neofs-sdk-go/object/id"
)

const (
	attrAssociate = "__NEOFS__ASSOCIATE"
	attrHomoHash  = "$Object:homomorphicHash"

	bucketInfo   = 5   // auxiliary bucket
	bucketVolume = 3   // container volume bucket, deleted in version 10
	bucketMeta   = 255 // + container ID

	keyOID       = 0 // 0 + OID
	keyAttrPlain = 2 // 2 + attr + 0 + value + 0 + OID
	keyIDAttr    = 3 // 3 + OID + attr + 0 + value
	keyCntFirst  = 6 // 6..12: per-container counters (since version 10)
	keyCntLast   = 12
)

func le64(v uint64) []byte {
	b := make([]byte, 8)
	binary.LittleEndian.PutUint64(b, v)
	return b
}

// homoHash is the synthetic 64-byte homomorphic hash value of an object (arbitrary bytes, zeros included).
func homoHash(id []byte) []byte {
	a := sha256.Sum256(append([]byte("tz-left"), id...))
	b := sha256.Sum256(append([]byte("tz-right"), id...))
	v := append(a[:], b[:]...)
	v[3], v[40] = 0, 0
	return v
}

type kv struct{ k, v []byte }

// DownOpts tunes the down-conversion.
type DownOpts struct {
	// HomoEvery adds homomorphic hash index entries to every n-th object (0: none, 1: all).
	HomoEvery int
	// PerturbCounters adds this value to every per-container counter (version 10 databases
	// could hold counters skewed by double counted GC marks; version 11 resyncs them).
	PerturbCounters uint64
	// LegacyCounter is the value stored in the legacy global/volume counters of version 9.
	LegacyCounter uint64
}

// DownStats reports what the converter touched (for labels and diagnostics).
type DownStats struct {
	AssocPairs, HomoPairs, CounterKeys, Buckets int
}

func metaBuckets(tx *bbolt.Tx) [][]byte {
	var names [][]byte
	_ = tx.ForEach(func(name []byte, _ *bbolt.Bucket) error {
		if len(name) == 33 && name[0] == bucketMeta {
			names = append(names, bytes.Clone(name))
		}
		return nil
	})
	return names
}

// To10 rewrites a version 11 file into the version 10 format:
// __NEOFS__ASSOCIATE values become base58 strings in both index directions,
// homomorphic hash index entries exist, version = 10.
func To10(path string, o DownOpts) (DownStats, error) {
	var st DownStats
	db, err := bbolt.Open(path, 0o600, nil)
	if err != nil {
		return st, err
	}
	defer db.Close()
	err = db.Update(func(tx *bbolt.Tx) error {
		info := tx.Bucket([]byte{bucketInfo})
		if info == nil {
			return fmt.Errorf("no info bucket")
		}
		if v := info.Get([]byte("version")); len(v) != 8 || binary.LittleEndian.Uint64(v) != 11 {
			return fmt.Errorf("unexpected source version %x", v)
		}
		pref2 := append(append([]byte{keyAttrPlain}, attrAssociate...), 0)
		for _, name := range metaBuckets(tx) {
			st.Buckets++
			b := tx.Bucket(name)
			var del [][]byte
			var put []kv
			var ids [][]byte
			c := b.Cursor()
			for k, v := c.First(); k != nil; k, v = c.Next() {
				switch {
				case k[0] == keyOID && len(k) == 33:
					ids = append(ids, bytes.Clone(k[1:]))
				case bytes.HasPrefix(k, pref2):
					rest := k[len(pref2):]
					if len(rest) != 32+1+32 || rest[32] != 0 {
						return fmt.Errorf("unexpected associate attr->id key %x", k)
					}
					s := oid.ID(rest[:32]).EncodeToString()
					nk := append(append(bytes.Clone(pref2), s...), 0)
					nk = append(nk, rest[33:]...)
					del = append(del, bytes.Clone(k))
					put = append(put, kv{nk, bytes.Clone(v)})
					st.AssocPairs++
				case k[0] == keyIDAttr && len(k) > 33 && bytes.HasPrefix(k[33:], pref2[1:]):
					val := k[33+len(pref2)-1:]
					if len(val) != 32 {
						return fmt.Errorf("unexpected associate id->attr key %x", k)
					}
					nk := append(bytes.Clone(k[:33+len(pref2)-1]), oid.ID(val).EncodeToString()...)
					del = append(del, bytes.Clone(k))
					put = append(put, kv{nk, bytes.Clone(v)})
				case len(k) == 1 && k[0] >= keyCntFirst && k[0] <= keyCntLast && o.PerturbCounters != 0 && len(v) == 8:
					put = append(put, kv{bytes.Clone(k), le64(binary.LittleEndian.Uint64(v) + o.PerturbCounters)})
				}
			}
			if o.HomoEvery > 0 {
				for i, id := range ids {
					if i%o.HomoEvery != 0 {
						continue
					}
					h := homoHash(id)
					k2 := append(append([]byte{keyAttrPlain}, attrHomoHash...), 0)
					k2 = append(append(append(k2, h...), 0), id...)
					k3 := append(append([]byte{keyIDAttr}, id...), attrHomoHash...)
					k3 = append(append(k3, 0), h...)
					put = append(put, kv{k2, nil}, kv{k3, nil})
					st.HomoPairs++
				}
			}
			for _, k := range del {
				if err := b.Delete(k); err != nil {
					return err
				}
			}
			for _, e := range put {
				if err := b.Put(e.k, e.v); err != nil {
					return err
				}
			}
		}
		return info.Put([]byte("version"), le64(10))
	})
	return st, err
}

// To9 rewrites a version 10 file into the version 9 format: no per-container
// counters in the metadata buckets; legacy phy_counter/logic_counter keys in
// the info bucket; container volume bucket (3) with one sub-bucket per
// container holding size (key 0) and objects number (key 1); version = 9.
func To9(path string, o DownOpts) (DownStats, error) {
	var st DownStats
	db, err := bbolt.Open(path, 0o600, nil)
	if err != nil {
		return st, err
	}
	defer db.Close()
	err = db.Update(func(tx *bbolt.Tx) error {
		info := tx.Bucket([]byte{bucketInfo})
		if info == nil {
			return fmt.Errorf("no info bucket")
		}
		if v := info.Get([]byte("version")); len(v) != 8 || binary.LittleEndian.Uint64(v) != 10 {
			return fmt.Errorf("unexpected source version %x", v)
		}
		vol, err := tx.CreateBucketIfNotExists([]byte{bucketVolume})
		if err != nil {
			return err
		}
		for _, name := range metaBuckets(tx) {
			st.Buckets++
			b := tx.Bucket(name)
			for k := byte(keyCntFirst); k <= keyCntLast; k++ {
				if b.Get([]byte{k}) != nil {
					st.CounterKeys++
				}
				if err := b.Delete([]byte{k}); err != nil {
					return err
				}
			}
			cb, err := vol.CreateBucketIfNotExists(name[1:])
			if err != nil {
				return err
			}
			if err := cb.Put([]byte{0}, le64(o.LegacyCounter)); err != nil {
				return err
			}
			if err := cb.Put([]byte{1}, le64(o.LegacyCounter+1)); err != nil {
				return err
			}
		}
		if err := info.Put([]byte("phy_counter"), le64(o.LegacyCounter+2)); err != nil {
			return err
		}
		if err := info.Put([]byte("logic_counter"), le64(o.LegacyCounter+3)); err != nil {
			return err
		}
		return info.Put([]byte("version"), le64(9))
	})
	return st, err
}

// Legacy scans an upgraded file for anything that must be gone in version 11
// and returns a description of the first leftover ("" if clean).
func Legacy(path string) (string, error) {
	db, err := bbolt.Open(path, 0o600, &bbolt.Options{ReadOnly: true})
	if err != nil {
		return "", err
	}
	defer db.Close()
	var res string
	err = db.View(func(tx *bbolt.Tx) error {
		info := tx.Bucket([]byte{bucketInfo})
		if info == nil {
			res = "no info bucket"
			return nil
		}
		if v := info.Get([]byte("version")); len(v) != 8 || binary.LittleEndian.Uint64(v) != 11 {
			res = fmt.Sprintf("version key = %x, want 11", v)
			return nil
		}
		for _, k := range []string{"phy_counter", "logic_counter"} {
			if info.Get([]byte(k)) != nil {
				res = "legacy key " + k + " remains in the info bucket"
				return nil
			}
		}
		if tx.Bucket([]byte{bucketVolume}) != nil {
			res = "legacy container volume bucket (3) remains"
			return nil
		}
		pref2 := append(append([]byte{keyAttrPlain}, attrAssociate...), 0)
		h2 := append([]byte{keyAttrPlain}, attrHomoHash...)
		for _, name := range metaBuckets(tx) {
			c := tx.Bucket(name).Cursor()
			for k, _ := c.First(); k != nil; k, _ = c.Next() {
				switch {
				case bytes.HasPrefix(k, h2):
					res = fmt.Sprintf("homomorphic hash attr->id entry remains: %x", k)
				case k[0] == keyIDAttr && len(k) > 33 && bytes.HasPrefix(k[33:], h2[1:]):
					res = fmt.Sprintf("homomorphic hash id->attr entry remains: %x", k)
				case bytes.HasPrefix(k, pref2) && len(k) != len(pref2)+32+1+32:
					res = fmt.Sprintf("associate attr->id entry with a non-raw value remains: %x", k)
				case k[0] == keyIDAttr && len(k) > 33 && bytes.HasPrefix(k[33:], pref2[1:]) && len(k) != 33+len(pref2)-1+32:
					res = fmt.Sprintf("associate id->attr entry with a non-raw value remains: %x", k)
				}
				if res != "" {
					return nil
				}
			}
		}
		return nil
	})
	return res, err
}

// DumpKeys returns all (bucket, key, value) triples of the metadata buckets, for diagnostics.
func DumpKeys(path string) (map[string]string, error) {
	db, err := bbolt.Open(path, 0o600, &bbolt.Options{ReadOnly: true})
	if err != nil {
		return nil, err
	}
	defer db.Close()
	res := map[string]string{}
	err = db.View(func(tx *bbolt.Tx) error {
		for _, name := range metaBuckets(tx) {
			c := tx.Bucket(name).Cursor()
			for k, v := c.First(); k != nil; k, v = c.Next() {
				res[fmt.Sprintf("%x/%x", name[1:5], k)] = fmt.Sprintf("%x", v)
			}
		}
		return nil
	})
	return res, err
}

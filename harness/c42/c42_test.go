package c42

import (
	"context"
	"crypto/sha256"
	"encoding/base64"
	"errors"
	"fmt"
	"io"
	"os"
	"path/filepath"
	"sort"
	"strings"
	"testing"

	objectcore "github.com/nspcc-dev/neofs-node/pkg/core/object"
	"github.com/nspcc-dev/neofs-node/pkg/local_object_storage/blobstor/common"
	meta "github.com/nspcc-dev/neofs-node/pkg/local_object_storage/metabase"
	"github.com/nspcc-dev/neofs-node/verifharness/ev"
	"github.com/nspcc-dev/neofs-node/verifharness/stor"
	"github.com/nspcc-dev/neofs-node/verifharness/uni"
	apistatus "github.com/nspcc-dev/neofs-sdk-go/client/status"
	cid "github.com/nspcc-dev/neofs-sdk-go/container/id"
	"github.com/nspcc-dev/neofs-sdk-go/object"
	oid "github.com/nspcc-dev/neofs-sdk-go/object/id"
	"pgregory.net/rapid"
)

func fatalEnv(format string, a ...any) { ev.Inconclusive("C42 harness: "+format, a...) }

// ---------- history ----------

type op struct {
	Kind  string    `json:"op"` // put, epoch, garbage, delete, inhume-container
	Spec  *uni.Spec `json:"spec,omitempty"`
	Cnr   int       `json:"cnr,omitempty"`
	ID    int       `json:"id,omitempty"`
	Epoch uint64    `json:"epoch,omitempty"`
}

func (o op) String() string {
	switch o.Kind {
	case "put":
		return "put(" + o.Spec.String() + ")"
	case "epoch":
		return fmt.Sprintf("epoch(%d)", o.Epoch)
	case "inhume-container":
		return fmt.Sprintf("inhume-container(c%d)", o.Cnr)
	}
	return fmt.Sprintf("%s(c%d/o%d)", o.Kind, o.Cnr, o.ID)
}

var attrPool = [][2]string{{"a", "x"}, {"a", "xy"}, {"n", "5"}, {"n", "-5"}, {"n", "1e3"}, {"b", ""}}

func genHistory(t *rapid.T) []op {
	specGen := uni.SpecGen(uni.GenOpts{
		Kinds:    []string{uni.Regular, uni.Regular, uni.Regular, uni.Tombstone, uni.Tombstone, uni.Lock, uni.Lock, uni.ChildV1, uni.ChildV2, uni.Link},
		AttrPool: attrPool,
	})
	n := rapid.IntRange(0, 25).Draw(t, "nops")
	var ops []op
	for i := 0; i < n; i++ {
		switch rapid.IntRange(0, 11).Draw(t, "opk") {
		case 0:
			ops = append(ops, op{Kind: "epoch", Epoch: uint64(rapid.IntRange(0, uni.MaxEpoch).Draw(t, "epoch"))})
		case 1:
			ops = append(ops, op{Kind: "garbage", Cnr: rapid.IntRange(0, 2).Draw(t, "c"), ID: rapid.IntRange(0, 11).Draw(t, "i")})
		case 2:
			ops = append(ops, op{Kind: "delete", Cnr: rapid.IntRange(0, 2).Draw(t, "c"), ID: rapid.IntRange(0, 11).Draw(t, "i")})
		case 3:
			if rapid.IntRange(0, 5).Draw(t, "inh") == 0 {
				ops = append(ops, op{Kind: "inhume-container", Cnr: rapid.IntRange(0, 2).Draw(t, "c")})
			}
		default:
			s := acyclic(specGen.Draw(t, "spec"))
			ops = append(ops, op{Kind: "put", Spec: &s})
		}
	}
	return ops
}

// acyclic normalises the relations of a drawn spec so that they can exist between real objects: an object ID is
// the hash of its header, which contains the parent / first-part IDs, so relation cycles (A child of B and B child
// of A) cannot be produced by any client; they make metabase.collectChildren recurse for ever. The object gets the
// smallest index of {ID, Parent, First}, so relations always point to larger indexes. First == Parent (which a
// client CAN produce and which also makes collectChildren recurse for ever: reported separately) is excluded too.
func acyclic(s uni.Spec) uni.Spec {
	if s.Parent < 0 {
		return s
	}
	if s.First == s.Parent {
		s.First = -1
	}
	if s.Parent < s.ID {
		s.ID, s.Parent = s.Parent, s.ID
	}
	if s.First >= 0 && s.First < s.ID {
		s.ID, s.First = s.First, s.ID
	}
	return s
}

// bulk describes many lock/tombstone objects with their own IDs (to cross the 1000-key migration batches).
type bulk struct {
	N [2]int `json:"n"` // objects in container 0 and 1
}

func bulkOID(c, j int) oid.ID {
	return oid.ID(sha256.Sum256([]byte(fmt.Sprintf("bulk-%d-%d", c, j))))
}

// bulkTarget: every 7th association targets a stored regular bulk object, the rest absent IDs; targets are
// never shared, so every bulk object is accepted (a lock and a tombstone of one target refuse each other).
func bulkTarget(c, j int) oid.ID {
	if j%7 == 0 {
		return bulkRegOID(c, j/7)
	}
	return oid.ID(sha256.Sum256([]byte(fmt.Sprintf("bulk-target-%d-%d", c, j))))
}

func bulkRegOID(c, j int) oid.ID {
	return oid.ID(sha256.Sum256([]byte(fmt.Sprintf("bulk-regular-%d-%d", c, j))))
}

func bulkRegular(c, j int) *object.Object {
	o := uni.Build(uni.Spec{Kind: uni.Regular, Cnr: c, ID: 0, Exp: -1, Parent: -1, ParentExp: -1, First: -1, PayloadLen: j % 5})
	o.SetID(bulkRegOID(c, j))
	return o
}

func bulkObject(c, j int) *object.Object {
	o := uni.Build(uni.Spec{Kind: uni.Regular, Cnr: c, ID: 0, Exp: -1, Parent: -1, ParentExp: -1, First: -1})
	o.SetID(bulkOID(c, j))
	if j%3 == 0 {
		o.AssociateDeleted(bulkTarget(c, j))
	} else {
		o.AssociateLocked(bulkTarget(c, j))
	}
	return o
}

func applyHistory(db *meta.DB, ep *stor.Epoch, ops []op, b bulk) (applied int) {
	for _, o := range ops {
		var err error
		switch o.Kind {
		case "put":
			err = db.Put(uni.Build(*o.Spec))
		case "epoch":
			ep.Set(o.Epoch)
		case "garbage":
			_, err = db.MarkGarbage(uni.Cnr(o.Cnr), []oid.ID{uni.OID(o.ID)}, meta.GarbageMarkDefault)
		case "delete":
			_, _, err = db.Delete(uni.Cnr(o.Cnr), []oid.ID{uni.OID(o.ID)})
		case "inhume-container":
			_, err = db.InhumeContainer(uni.Cnr(o.Cnr))
		}
		if err == nil {
			applied++
		}
	}
	for c, n := range b.N {
		var objs []*object.Object
		for j := 0; j*7 < n; j++ {
			objs = append(objs, bulkRegular(c, j))
		}
		for j := 0; j < n; j++ {
			objs = append(objs, bulkObject(c, j))
		}
		if err := db.PutBatch(objs); err != nil {
			fatalEnv("bulk put: %v", err)
		}
	}
	return
}

// ---------- views ----------

func errClass(err error) string {
	var si *object.SplitInfoError
	switch {
	case err == nil:
		return ""
	case errors.As(err, &si):
		return fmt.Sprintf("split-info:%x", si.SplitInfo().Marshal())
	case errors.Is(err, apistatus.ErrObjectAlreadyRemoved):
		return "already-removed"
	case errors.Is(err, meta.ErrObjectIsExpired):
		return "expired"
	case errors.Is(err, apistatus.ErrObjectNotFound):
		return "not-found"
	}
	return "error: " + err.Error()
}

func hdrString(o *object.Object) string {
	var as []string
	for _, a := range o.Attributes() {
		as = append(as, a.Key()+"="+a.Value())
	}
	return fmt.Sprintf("ok:%x type=%s attrs=%v", sha256.Sum256(o.Marshal()), o.Type(), as)
}

type query struct {
	name  string
	fs    object.SearchFilters
	attrs []string
}

func queries(targets []oid.ID) []query {
	mk := func(f func(*object.SearchFilters)) object.SearchFilters {
		var fs object.SearchFilters
		f(&fs)
		return fs
	}
	qs := []query{
		{"all", nil, nil},
		{"type=TOMBSTONE", mk(func(fs *object.SearchFilters) { fs.AddFilter(object.FilterType, "TOMBSTONE", object.MatchStringEqual) }), []string{object.FilterType, attrAssociate}},
		{"type=LOCK", mk(func(fs *object.SearchFilters) { fs.AddFilter(object.FilterType, "LOCK", object.MatchStringEqual) }), []string{object.FilterType, attrAssociate}},
		{"root", mk(func(fs *object.SearchFilters) { fs.AddRootFilter() }), nil},
		{"phy", mk(func(fs *object.SearchFilters) { fs.AddPhyFilter() }), nil},
		{"assoc!=x", mk(func(fs *object.SearchFilters) {
			fs.AddFilter(attrAssociate, uni.OID(3).EncodeToString(), object.MatchStringNotEqual)
		}), []string{attrAssociate}},
		{"assoc-absent", mk(func(fs *object.SearchFilters) { fs.AddFilter(attrAssociate, "", object.MatchNotPresent) }), nil},
		{"a=x", mk(func(fs *object.SearchFilters) { fs.AddFilter("a", "x", object.MatchStringEqual) }), []string{"a"}},
		{"n>0", mk(func(fs *object.SearchFilters) { fs.AddFilter("n", "0", object.MatchNumGT) }), []string{"n"}},
		{"size>=0,type", mk(func(fs *object.SearchFilters) {
			fs.AddFilter(object.FilterPayloadSize, "0", object.MatchNumGE)
			fs.AddFilter(attrAssociate, uni.OID(0).EncodeToString(), object.MatchStringNotEqual)
		}), []string{object.FilterPayloadSize, attrAssociate}},
	}
	for i, tg := range targets {
		tg := tg
		qs = append(qs, query{fmt.Sprintf("assoc=t%d", i), mk(func(fs *object.SearchFilters) {
			fs.AddFilter(attrAssociate, tg.EncodeToString(), object.MatchStringEqual)
		}), []string{attrAssociate, object.FilterType}})
	}
	return qs
}

func searchAll(db *meta.DB, cnr cid.ID, q query) string {
	var out []string
	cursor := ""
	for page := 0; page < 10000; page++ {
		ofs, c, err := objectcore.PreprocessSearchQuery(q.fs, q.attrs, cursor)
		if err != nil {
			return "preprocess error: " + err.Error()
		}
		res, next, err := db.Search(cnr, ofs, q.attrs, c, 400)
		if err != nil {
			return strings.Join(out, ";") + " search error: " + err.Error()
		}
		for _, it := range res {
			out = append(out, it.ID.EncodeToString()[:8]+"|"+strings.Join(it.Attributes, "|"))
		}
		if len(next) == 0 {
			break
		}
		cursor = base64.StdEncoding.EncodeToString(next)
	}
	return fmt.Sprintf("%d:%s", len(out), strings.Join(out, ";"))
}

// View is the comparable observation of a metabase.
type View map[string]string

func takeView(db *meta.DB, addrs []oid.Address, targets []oid.ID, epoch uint64) View {
	v := View{}
	for _, a := range addrs {
		k := a.Container().EncodeToString()[:6] + "/" + a.Object().EncodeToString()[:8]
		ex, err := db.Exists(a, false)
		v["exists:"+k] = fmt.Sprintf("%v %s", ex, errClass(err))
		ex, err = db.Exists(a, true)
		v["exists-ignexp:"+k] = fmt.Sprintf("%v %s", ex, errClass(err))
		for _, raw := range []bool{false, true} {
			h, err := db.Get(a, raw)
			s := errClass(err)
			if err == nil {
				s = hdrString(h)
			}
			v[fmt.Sprintf("get(raw=%v):%s", raw, k)] = s
		}
		l, err := db.IsLocked(a)
		v["locked:"+k] = fmt.Sprintf("%v %s", l, errClass(err))
	}
	qs := queries(targets)
	for c := 0; c < uni.NContainers; c++ {
		for _, q := range qs {
			v[fmt.Sprintf("search[c%d,%s]", c, q.name)] = searchAll(db, uni.Cnr(c), q)
		}
		info, err := db.GetContainerInfo(uni.Cnr(c))
		v[fmt.Sprintf("container-info[c%d]", c)] = fmt.Sprintf("%+v %s", info, errClass(err))
		var garbage []string
		err = db.IterateOverGarbage(func(id oid.ID) error {
			garbage = append(garbage, id.EncodeToString()[:8])
			return nil
		}, uni.Cnr(c), oid.ID{})
		v[fmt.Sprintf("garbage[c%d]", c)] = fmt.Sprintf("%v %s", garbage, errClass(err))
	}
	cnt, err := db.ObjectCounters()
	v["counters"] = fmt.Sprintf("%+v %s", cnt, errClass(err))
	cs, err := db.Containers()
	var cl []string
	for _, c := range cs {
		cl = append(cl, c.EncodeToString()[:6])
	}
	sort.Strings(cl)
	v["containers"] = fmt.Sprintf("%v %s", cl, errClass(err))
	var expired []string
	err = db.IterateExpired(epoch, func(a oid.Address, typ object.Type) error {
		expired = append(expired, a.Object().EncodeToString()[:8]+":"+typ.String())
		return nil
	})
	sort.Strings(expired)
	v["expired"] = fmt.Sprintf("%v %s", expired, errClass(err))
	var listed []string
	var cur *meta.Cursor
	for {
		res, next, err := db.ListWithCursor(500, cur, attrAssociate)
		for _, r := range res {
			listed = append(listed, r.Address.Object().EncodeToString()[:8]+":"+r.Type.String()+":"+strings.Join(r.Attributes, ","))
		}
		if err != nil || next == nil || len(res) == 0 {
			break
		}
		cur = next
	}
	v["list"] = fmt.Sprintf("%d %v", len(listed), listed)
	return v
}

func diffViews(a, b View) string {
	var keys []string
	for k := range a {
		keys = append(keys, k)
	}
	for k := range b {
		if _, ok := a[k]; !ok {
			keys = append(keys, k)
		}
	}
	sort.Strings(keys)
	var out []string
	for _, k := range keys {
		if a[k] != b[k] {
			x, y := a[k], b[k]
			if len(x) > 600 {
				x = x[:600] + "…"
			}
			if len(y) > 600 {
				y = y[:600] + "…"
			}
			out = append(out, fmt.Sprintf("  %s\n    original: %s\n    upgraded: %s", k, x, y))
			if len(out) >= 4 {
				out = append(out, "  …")
				break
			}
		}
	}
	return strings.Join(out, "\n")
}

// ---------- upgrade ----------

var errInterrupt = errors.New("verif: upgrade interrupted")

type countingContainers struct {
	n        int
	cancelAt int // cancel the init context on this call (0: never)
	cancel   context.CancelCauseFunc
}

func (c *countingContainers) Exists(cid.ID) (bool, error) {
	c.n++
	if c.cancelAt > 0 && c.n == c.cancelAt && c.cancel != nil {
		c.cancel(errInterrupt)
	}
	return true, nil
}

// upgrade opens the file with the current code (Open+Init) and closes it again. cancelAt: see
// countingContainers; cancelAt = -1 cancels before Init starts. Returns the Init error and the number of Exists calls.
func upgrade(path string, ep *stor.Epoch, cancelAt int) (error, int) {
	ctx, cancel := context.WithCancelCause(context.Background())
	defer cancel(nil)
	cc := &countingContainers{cancelAt: cancelAt, cancel: cancel}
	if cancelAt < 0 {
		cancel(errInterrupt)
	}
	db := meta.New(stor.MetaOpts(path, ep, meta.WithContainers(cc), meta.WithInitContext(ctx))...)
	if err := db.Open(false); err != nil {
		fatalEnv("open: %v", err)
	}
	err := db.Init(common.ID{})
	if cerr := db.Close(); cerr != nil {
		fatalEnv("close: %v", cerr)
	}
	return err, cc.n
}

func copyFile(dst, src string) {
	in, err := os.Open(src)
	if err != nil {
		fatalEnv("copy: %v", err)
	}
	defer in.Close()
	out, err := os.Create(dst)
	if err != nil {
		fatalEnv("copy: %v", err)
	}
	if _, err := io.Copy(out, in); err != nil {
		fatalEnv("copy: %v", err)
	}
	if err := out.Close(); err != nil {
		fatalEnv("copy: %v", err)
	}
}

func openView(path string, ep *stor.Epoch, addrs []oid.Address, targets []oid.ID, sync bool) (View, string) {
	db, err := stor.OpenMeta(path, ep, meta.WithContainers(&countingContainers{}))
	if err != nil {
		return nil, err.Error()
	}
	defer db.Close()
	v := takeView(db, addrs, targets, ep.CurrentEpoch())
	if sync {
		if err := db.SyncCounters(); err != nil {
			fatalEnv("sync counters: %v", err)
		}
		cnt, err := db.ObjectCounters()
		v["counters-after-resync"] = fmt.Sprintf("%+v %s", cnt, errClass(err))
		for c := 0; c < uni.NContainers; c++ {
			info, err := db.GetContainerInfo(uni.Cnr(c))
			v[fmt.Sprintf("container-info-after-resync[c%d]", c)] = fmt.Sprintf("%+v %s", info, errClass(err))
		}
	}
	return v, ""
}

// ---------- the property ----------

var bulkLayouts = [][2]int{{1000, 3}, {999, 3}, {1001, 3}, {600, 900}, {3, 1000}, {1500, 2}}
var bulkLayoutsThorough = [][2]int{{2005, 10}, {1000, 1000}, {1500, 700}}

func TestC42Upgrade(t *testing.T) {
	rec := ev.New("C42", "upgrade")
	defer rec.Flush()
	rapid.Check(t, func(t *rapid.T) {
		ops := genHistory(t)
		var b bulk
		if rapid.IntRange(0, 7).Draw(t, "bulk") == 0 {
			ls := bulkLayouts
			if ev.Thorough() {
				ls = append(ls, bulkLayoutsThorough...)
			}
			b.N = rapid.SampledFrom(ls).Draw(t, "bulk-layout")
		}
		viewEpoch := uint64(rapid.IntRange(0, uni.MaxEpoch).Draw(t, "viewEpoch"))
		do := DownOpts{
			HomoEvery:       rapid.SampledFrom([]int{0, 1, 1, 2, 3}).Draw(t, "homoEvery"),
			PerturbCounters: uint64(rapid.SampledFrom([]int{0, 0, 1, 7}).Draw(t, "perturb")),
			LegacyCounter:   uint64(rapid.IntRange(0, 1000).Draw(t, "legacy")),
		}
		nInterrupt := rapid.IntRange(1, 3).Draw(t, "ninterrupt")
		fracs := make([]int, nInterrupt)
		for i := range fracs {
			fracs[i] = rapid.IntRange(-1, 100).Draw(t, "interrupt-at-percent")
		}

		dir, err := os.MkdirTemp("", "c42-")
		if err != nil {
			fatalEnv("mkdtemp: %v", err)
		}
		defer os.RemoveAll(dir)

		// --- original version 11 database
		f11 := filepath.Join(dir, "v11")
		ep := &stor.Epoch{}
		db, err := stor.OpenMeta(f11, ep, meta.WithContainers(&countingContainers{}))
		if err != nil {
			fatalEnv("open meta: %v", err)
		}
		applied := applyHistory(db, ep, ops, b)
		if err := db.Close(); err != nil {
			fatalEnv("close: %v", err)
		}

		var addrs []oid.Address
		for c := 0; c < uni.NContainers; c++ {
			for i := 0; i < uni.NObjects; i++ {
				addrs = append(addrs, uni.Addr(c, i))
			}
		}
		var targets []oid.ID
		for i := 0; i < uni.NObjects; i++ {
			targets = append(targets, uni.OID(i))
		}
		for c, n := range b.N {
			for _, j := range []int{0, 1, 2, 3, n / 2, n - 2, n - 1} {
				if j >= 0 && j < n {
					addrs = append(addrs, oid.NewAddress(uni.Cnr(c), bulkOID(c, j)), oid.NewAddress(uni.Cnr(c), bulkTarget(c, j)))
					targets = append(targets, bulkTarget(c, j))
				}
			}
		}

		// --- old formats
		f10, f9 := filepath.Join(dir, "v10"), filepath.Join(dir, "v9")
		copyFile(f10, f11)
		st10, err := To10(f10, do)
		if err != nil {
			fatalEnv("down-convert to 10: %v", err)
		}
		copyFile(f9, f10)
		st9, err := To9(f9, do)
		if err != nil {
			fatalEnv("down-convert to 9: %v", err)
		}

		vep := &stor.Epoch{}
		vep.Set(viewEpoch)
		orig, msg := openView(f11, vep, addrs, targets, true)
		if msg != "" {
			fatalEnv("reopen original: %s", msg)
		}
		origStale := orig["counters"] != orig["counters-after-resync"]
		expect := View{}
		for k, v := range orig {
			if strings.Contains(k, "after-resync") {
				continue
			}
			expect[k] = v
		}
		if origStale {
			// not this property's business (C02): the incremental counters of the original differ
			// from a recount; the upgrade resyncs, so compare with the recount instead
			rec.Label("original-counters-differ-from-recount")
			expect["counters"] = orig["counters-after-resync"]
			for c := 0; c < uni.NContainers; c++ {
				expect[fmt.Sprintf("container-info[c%d]", c)] = orig[fmt.Sprintf("container-info-after-resync[c%d]", c)]
			}
		}

		histString := func() string {
			var s []string
			for _, o := range ops {
				s = append(s, o.String())
			}
			return fmt.Sprintf("history: %v\n  bulk: %v, view epoch %d, down-conversion: %+v (v10: %+v, v9: %+v)", s, b.N, viewEpoch, do, st10, st9)
		}

		totalCalls := map[int]int{}
		check := func(name, path string) {
			if left, err := Legacy(path); err != nil {
				fatalEnv("scan: %v", err)
			} else if left != "" {
				t.Fatalf("%s: %s\n  %s", name, left, histString())
			}
			got, msg := openView(path, vep, addrs, targets, false)
			if msg != "" {
				t.Fatalf("%s: upgraded database does not open: %s\n  %s", name, msg, histString())
			}
			if d := diffViews(expect, got); d != "" {
				t.Fatalf("%s: views differ from the original version 11 database:\n%s\n  %s", name, d, histString())
			}
		}
		for _, from := range []int{10, 9} {
			src := map[int]string{10: f10, 9: f9}[from]
			// uninterrupted
			p := filepath.Join(dir, fmt.Sprintf("up%d", from))
			copyFile(p, src)
			err, calls := upgrade(p, vep, 0)
			if err != nil {
				t.Fatalf("upgrade from version %d failed: %v\n  %s", from, err, histString())
			}
			totalCalls[from] = calls
			check(fmt.Sprintf("upgrade from version %d", from), p)

			// interrupted, then resumed (possibly interrupted again)
			p = filepath.Join(dir, fmt.Sprintf("int%d", from))
			copyFile(p, src)
			interrupted := 0
			var at []int
			for _, f := range fracs {
				k := -1
				if f >= 0 {
					k = 1 + f*calls/101
				}
				at = append(at, k)
				err, _ := upgrade(p, vep, k)
				if err == nil {
					break // the cancellation came after the last interruption point
				}
				if !errors.Is(err, errInterrupt) {
					t.Fatalf("interrupted upgrade from version %d (cancel at Containers.Exists call %d of %d) failed with an unrelated error: %v\n  %s",
						from, k, calls, err, histString())
				}
				interrupted++
			}
			if err, _ := upgrade(p, vep, 0); err != nil {
				t.Fatalf("resumed upgrade from version %d failed after %d interruption(s) at calls %v of %d: %v\n  %s", from, interrupted, at, calls, err, histString())
			}
			rec.LabelN(fmt.Sprintf("interruptions-effective-from%d", from), int64(interrupted))
			check(fmt.Sprintf("upgrade from version %d interrupted at Containers.Exists calls %v of %d (%d effective) and resumed", from, at, calls, interrupted), p)
		}

		lbls := []string{}
		if b.N != [2]int{} {
			lbls = append(lbls, "bulk", fmt.Sprintf("bulk-%d-%d", b.N[0], b.N[1]))
		}
		if st10.AssocPairs > 0 {
			lbls = append(lbls, "has-associate")
		}
		if st10.HomoPairs > 0 {
			lbls = append(lbls, "has-homo-hash")
		}
		if do.PerturbCounters > 0 {
			lbls = append(lbls, "counters-perturbed")
		}
		if strings.Contains(fmt.Sprint(orig), "already-removed") {
			lbls = append(lbls, "has-removed")
		}
		for k, v := range orig {
			if strings.HasPrefix(k, "exists:") && strings.HasSuffix(v, " expired") {
				lbls = append(lbls, "has-expired-view")
				break
			}
		}
		if strings.Contains(fmt.Sprint(orig), "split-info") {
			lbls = append(lbls, "has-split-parent")
		}
		for k, v := range orig {
			if strings.HasPrefix(k, "locked:") && strings.HasPrefix(v, "true") {
				lbls = append(lbls, "has-locked")
				break
			}
		}
		if totalCalls[10] > 2*st10.Buckets {
			lbls = append(lbls, "multi-batch")
		}
		_ = applied
		nontrivial := st10.AssocPairs > 0
		var opss []string
		for _, o := range ops {
			opss = append(opss, o.String())
		}
		rec.Case(nontrivial, fmt.Sprintf("%v|%v|%+v|%d|%v", opss, b, do, viewEpoch, fracs), lbls...)
		if rec.WantSample() {
			var s []string
			for _, o := range ops {
				s = append(s, o.String())
			}
			rec.Sample(map[string]any{"history": s, "bulk": b.N, "down": do, "interrupt_percent": fracs, "view_epoch": viewEpoch})
		}
	})
}

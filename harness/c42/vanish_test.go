package c42

import (
	"context"
	"fmt"
	"os"
	"path/filepath"
	"strings"
	"testing"

	"github.com/nspcc-dev/neofs-node/pkg/local_object_storage/blobstor/common"
	meta "github.com/nspcc-dev/neofs-node/pkg/local_object_storage/metabase"
	"github.com/nspcc-dev/neofs-node/verifharness/ev"
	"github.com/nspcc-dev/neofs-node/verifharness/stor"
	"github.com/nspcc-dev/neofs-node/verifharness/uni"
	cid "github.com/nspcc-dev/neofs-sdk-go/container/id"
	oid "github.com/nspcc-dev/neofs-sdk-go/object/id"
)

// vanishingContainers reports container `gone` as existing for the first `after` calls about it only.
type vanishingContainers struct {
	gone  cid.ID
	after int
	seen  int
}

func (c *vanishingContainers) Exists(id cid.ID) (bool, error) {
	if id == c.gone {
		c.seen++
		return c.seen <= c.after, nil
	}
	return true, nil
}

// TestC42ContainerVanishes (finding C42:resume-key-leaks-into-next-container, fixed in /repo 9f4b150): a container is removed from the network while the
// upgrade is between two 1000-key batches of that container. The migration skips
// removed containers by design; every OTHER container must still be upgraded
// completely (same views as in the original database).
func TestC42ContainerVanishes(t *testing.T) {
	rec := ev.New("C42", "vanish")
	defer rec.Flush()
	k, n := ev.Shard()
	layouts := [][2]int{{1500, 10}, {1001, 40}, {2005, 3}, {1000, 5}}
	for li, l := range layouts {
		for after := 0; after <= 3; after++ {
			if (li*4+after)%n != k {
				continue
			}
			func() {
				dir, err := os.MkdirTemp("", "c42v-")
				if err != nil {
					fatalEnv("mkdtemp: %v", err)
				}
				defer os.RemoveAll(dir)
				f11 := filepath.Join(dir, "v11")
				ep := &stor.Epoch{}
				db, err := stor.OpenMeta(f11, ep, meta.WithContainers(&countingContainers{}))
				if err != nil {
					fatalEnv("open: %v", err)
				}
				b := bulk{N: l}
				applyHistory(db, ep, nil, b)
				_ = db.Close()

				// observe container 1 only
				var addrs []oid.Address
				var targets []oid.ID
				for j := 0; j < l[1]; j++ {
					addrs = append(addrs, oid.NewAddress(uni.Cnr(1), bulkOID(1, j)), oid.NewAddress(uni.Cnr(1), bulkTarget(1, j)))
					targets = append(targets, bulkTarget(1, j))
				}
				only1 := func(v View) View {
					r := View{}
					for key, val := range v {
						c1 := uni.Cnr(1).EncodeToString()[:6]
						if strings.Contains(key, "[c1") || strings.Contains(key, ":"+c1+"/") {
							r[key] = val
						}
					}
					return r
				}
				orig, msg := openView(f11, ep, addrs, targets, false)
				if msg != "" {
					fatalEnv("reopen: %s", msg)
				}
				f10 := filepath.Join(dir, "v10")
				copyFile(f10, f11)
				if _, err := To10(f10, DownOpts{HomoEvery: 0}); err != nil {
					fatalEnv("down-convert: %v", err)
				}
				cc := &vanishingContainers{gone: uni.Cnr(0), after: after}
				mdb := meta.New(stor.MetaOpts(f10, ep, meta.WithContainers(cc), meta.WithInitContext(context.Background()))...)
				if err := mdb.Open(false); err != nil {
					fatalEnv("open: %v", err)
				}
				err = mdb.Init(common.ID{})
				_ = mdb.Close()
				if err != nil {
					t.Fatalf("upgrade failed: %v", err)
				}
				got, msg := openView(f10, ep, addrs, targets, false)
				if msg != "" {
					t.Fatalf("upgraded database does not open: %s", msg)
				}
				vanishedMidway := cc.seen > after && after > 0
				rec.Case(vanishedMidway, fmt.Sprintf("%v|%d", l, after), fmt.Sprintf("vanish-after-%d-calls", after))
				if d := diffViews(only1(orig), only1(got)); d != "" {
					t.Fatalf("container c0 (%d associations) reported missing after %d Containers.Exists calls during the upgrade from version 10:\n"+
						"views of the OTHER container c1 (%d associations) differ from the original:\n%s", l[0], after, l[1], d)
				}
			}()
		}
	}
}

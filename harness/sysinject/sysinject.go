// Package sysinject runs a helper process under
//
//	strace -f -qq -y -o <trace> -e trace=<file syscalls> -e inject=<syscall>:error=<E>|signal=SIGKILL|retval=<n>:when=<expr>
//
// and parses the trace, so that crash points (SIGKILL delivered before the
// syscall executes) and failing file-system calls can be injected at the
// syscall boundary of unmodified neofs-node code (C12, C13).
//
// The helper is the test binary itself: a test package calls
//
//	func TestMain(m *testing.M) { if sysinject.IsHelper() { helperMain(); os.Exit(0) }; os.Exit(m.Run()) }
//
// and Exec re-executes os.Executable() with EnvHelper set. No second build is
// needed and helper and verifier are guaranteed to be built from the same tree.
//
// strace's inject counters are PER THREAD. Nothing here assumes which call is
// hit: the trace says which syscall instance(s) were really tampered with
// ("(INJECTED)" / "= ?" before "+++ killed"), on which fd/path (strace -y),
// and helper-side Mark()s (a faccessat on a magic path) delimit the phases.
// A helper that calls LockMainThread from an init function keeps its main
// goroutine on one thread, which makes `when=<base+k>` deterministic for
// sequential workloads; callers still verify the hit from the trace.
package sysinject

import (
	"bytes"
	"context"
	"errors"
	"fmt"
	"os"
	"os/exec"
	"path/filepath"
	"regexp"
	"runtime"
	"strconv"
	"strings"
	"sync"
	"syscall"
	"time"
)

const (
	// EnvHelper switches a test binary into helper mode (value = free-form mode string).
	EnvHelper = "VERIF_SYSINJECT_HELPER"
	// EnvSpec carries the path of the helper's input file.
	EnvSpec = "VERIF_SYSINJECT_SPEC"
	// MarkDir is the (non-existent) directory used for marker syscalls.
	MarkDir = "/verif-mark/"
	// FileSyscalls is the default traced set: everything the fstree writers, Delete and the
	// markers use on linux/amd64 and arm64 (pwrite64 is deliberately absent: helpers use it
	// for their acknowledgement file so that acks never shift the inject counters).
	FileSyscalls = "openat,write,writev,linkat,renameat,renameat2,fsync,fdatasync,close,unlinkat,mkdirat,faccessat,faccessat2"
)

// IsHelper reports whether this process was started by Exec as a helper.
func IsHelper() bool { return os.Getenv(EnvHelper) != "" }

// HelperMode returns the mode string passed by Exec.
func HelperMode() string { return os.Getenv(EnvHelper) }

// SpecPath returns the path passed by Exec.
func SpecPath() string { return os.Getenv(EnvSpec) }

// LockMainThread pins the calling goroutine to its thread when running as helper. Call it from an
// init() function: then main.main / TestMain run on the process' main thread (tid == pid).
func LockMainThread() {
	if IsHelper() {
		runtime.LockOSThread()
	}
}

// Mark emits a marker visible in the trace: faccessat(AT_FDCWD, "/verif-mark/<name>") = -1 ENOENT.
func Mark(name string) {
	_ = syscall.Access(MarkDir+name, 0)
}

// Available checks that strace exists and ptrace injection works; returns a reason when not.
func Available() error {
	p, err := exec.LookPath("strace")
	if err != nil {
		return fmt.Errorf("strace not found: %w", err)
	}
	out, err := exec.Command(p, "-f", "-qq", "-e", "trace=none", "-e", "inject=getpid:error=ENOSYS:when=999", "/bin/true").CombinedOutput()
	if err != nil {
		return fmt.Errorf("strace probe failed: %v: %s", err, out)
	}
	return nil
}

// Inject is one -e inject= expression.
type Inject struct {
	Syscall string `json:"syscall"`
	Errno   string `json:"errno,omitempty"`  // e.g. "ENOSPC"
	Signal  string `json:"signal,omitempty"` // e.g. "SIGKILL"
	Retval  *int64 `json:"retval,omitempty"` // fake success value (syscall is not executed)
	When    string `json:"when"`             // strace when= expression: "3", "3+", "3+2", "3..5"
}

func (i Inject) String() string {
	s := "inject=" + i.Syscall
	switch {
	case i.Errno != "":
		s += ":error=" + i.Errno
	case i.Signal != "":
		s += ":signal=" + i.Signal
	case i.Retval != nil:
		s += ":retval=" + strconv.FormatInt(*i.Retval, 10)
	}
	if i.When != "" {
		s += ":when=" + i.When
	}
	return s
}

// Cmd describes one helper run.
type Cmd struct {
	Mode     string        // value of EnvHelper
	SpecPath string        // value of EnvSpec
	Env      []string      // extra environment
	Injects  []Inject      // zero or more (zero = dry run)
	Trace    string        // traced syscall set (default FileSyscalls)
	Timeout  time.Duration // hard wall-clock limit for the whole run (default 30 s)
	WorkDir  string        // directory for the trace file (default: os.MkdirTemp, removed afterwards)
	KeepPath string        // when set the raw trace is also copied there
}

// Event is one parsed syscall of the trace (entry order).
type Event struct {
	Seq        int    // position in the trace
	Tid        int    // thread id
	Name       string // syscall name
	Args       string // raw argument text (with strace -y fd annotations)
	Ret        string // raw return text: "0", "-1 ENOSPC (No space left on device)", "?" (never returned)
	Injected   bool   // strace tampered with this call ("(INJECTED)")
	Unfinished bool   // entered but never resumed (process died meanwhile)
}

// Failed reports whether the syscall returned an error.
func (e Event) Failed() bool { return strings.HasPrefix(e.Ret, "-1 ") }

// IsMark returns the marker name when the event is a Mark() call.
func (e Event) IsMark() (string, bool) {
	if e.Name != "faccessat" && e.Name != "faccessat2" && e.Name != "access" {
		return "", false
	}
	i := strings.Index(e.Args, `"`+MarkDir)
	if i < 0 {
		return "", false
	}
	rest := e.Args[i+1+len(MarkDir):]
	j := strings.IndexByte(rest, '"')
	if j < 0 {
		return "", false
	}
	return rest[:j], true
}

// regular expressions are compiled lazily: the helper side of this package must start fast
var fdAnn = sync.OnceValue(func() *regexp.Regexp { return regexp.MustCompile(`^(\d+)<([^>]*)>`) })

// FdPath returns the path strace -y printed for the first (fd) argument, if any.
func (e Event) FdPath() string {
	m := fdAnn().FindStringSubmatch(e.Args)
	if m == nil {
		return ""
	}
	return m[2]
}

var quoted = sync.OnceValue(func() *regexp.Regexp { return regexp.MustCompile(`"((?:[^"\\]|\\.)*)"`) })

// Paths returns the quoted string arguments (paths) of the call.
func (e Event) Paths() []string {
	var r []string
	for _, m := range quoted().FindAllStringSubmatch(e.Args, -1) {
		r = append(r, m[1])
	}
	return r
}

// RetInt returns the numeric return value (ok=false for "?" and errors).
func (e Event) RetInt() (int64, bool) {
	f := strings.Fields(e.Ret)
	if len(f) == 0 {
		return 0, false
	}
	s := f[0]
	if k := strings.IndexByte(s, '<'); k > 0 { // "5</path>"
		s = s[:k]
	}
	v, err := strconv.ParseInt(s, 10, 64)
	if err != nil || v < 0 {
		return 0, false
	}
	return v, true
}

// Result of one helper run.
type Result struct {
	Cmd       Cmd
	Events    []Event
	MainTid   int    // first tid seen in the trace (the helper's main thread)
	ExitCode  int    // helper exit code (-1 when signalled)
	Signal    string // "SIGKILL", ... when the helper was terminated by a signal
	TimedOut  bool   // the hard timeout fired and the process group was killed
	Stdout    []byte
	Stderr    []byte
	Wall      time.Duration
	RawTrace  []byte
	ParseErrs int
}

// Mark returns the index in Events of the marker, or -1.
func (r *Result) Mark(name string) int {
	for i := range r.Events {
		if n, ok := r.Events[i].IsMark(); ok && n == name {
			return i
		}
	}
	return -1
}

// Injected returns the indexes of all tampered events (errors/retvals injected, or the call a signal was attached to).
func (r *Result) Injected() []int {
	var out []int
	for i := range r.Events {
		if r.Events[i].Injected {
			out = append(out, i)
		}
	}
	return out
}

// KillPoint returns the index of the syscall the injected signal was attached to: a call of the named
// syscall that never returned ("= ?" or unfinished). -1 when there is none.
func (r *Result) KillPoint(syscallName string) int {
	for i := len(r.Events) - 1; i >= 0; i-- {
		e := r.Events[i]
		if (e.Ret == "?" || e.Unfinished) && (syscallName == "" || e.Name == syscallName) {
			return i
		}
	}
	return -1
}

// Crashed reports whether the helper's stderr shows a Go panic / fatal error.
func (r *Result) Crashed() bool {
	return bytes.Contains(r.Stderr, []byte("\npanic: ")) || bytes.HasPrefix(r.Stderr, []byte("panic: ")) ||
		bytes.Contains(r.Stderr, []byte("fatal error: ")) || bytes.Contains(r.Stderr, []byte("[signal SIG"))
}

type regs struct{ line, resumed, entry, killed, exited *regexp.Regexp }

var rx = sync.OnceValue(func() *regs {
	return &regs{
		line:    regexp.MustCompile(`^(\d+)\s+(.*)$`),
		resumed: regexp.MustCompile(`^<\.\.\. (\w+) resumed>\s?(.*)$`),
		entry:   regexp.MustCompile(`^(\w+)\((.*)$`),
		killed:  regexp.MustCompile(`^\+\+\+ killed by (\w+)`),
		exited:  regexp.MustCompile(`^\+\+\+ exited with (\d+) \+\+\+`),
	}
})

// splitRet splits "args)   = ret" at the last " = " that follows a closing parenthesis (strace pads short lines).
func splitRet(s string) (args, ret string, ok bool) {
	for end := len(s); ; {
		i := strings.LastIndex(s[:end], " = ")
		if i < 0 {
			return s, "", false
		}
		a := strings.TrimRight(s[:i], " ")
		if strings.HasSuffix(a, ")") {
			return a[:len(a)-1], strings.TrimSpace(s[i+3:]), true
		}
		end = i
	}
}

// Parse parses a strace -f -o trace.
func Parse(raw []byte) (events []Event, mainTid int, perr int) {
	pending := map[int]int{} // tid -> index of unfinished event
	for _, ln := range strings.Split(string(raw), "\n") {
		if ln == "" {
			continue
		}
		m := rx().line.FindStringSubmatch(ln)
		if m == nil {
			perr++
			continue
		}
		tid, _ := strconv.Atoi(m[1])
		if mainTid == 0 {
			mainTid = tid
		}
		body := m[2]
		switch {
		case strings.HasPrefix(body, "+++"), strings.HasPrefix(body, "---"):
			continue
		}
		if rm := rx().resumed.FindStringSubmatch(body); rm != nil {
			idx, ok := pending[tid]
			if !ok {
				perr++
				continue
			}
			delete(pending, tid)
			a, ret, ok2 := splitRet(rm[2])
			if !ok2 {
				perr++
				continue
			}
			ev := &events[idx]
			ev.Args += a
			ev.Unfinished = false
			ev.Ret = ret
			if strings.Contains(ret, "(INJECTED)") {
				ev.Injected = true
			}
			continue
		}
		em := rx().entry.FindStringSubmatch(body)
		if em == nil {
			perr++
			continue
		}
		ev := Event{Seq: len(events), Tid: tid, Name: em[1]}
		rest := em[2]
		if strings.HasSuffix(rest, "<unfinished ...>") {
			ev.Args = strings.TrimSpace(strings.TrimSuffix(rest, "<unfinished ...>"))
			ev.Unfinished = true
			pending[tid] = len(events)
		} else {
			a, ret, ok := splitRet(rest)
			if !ok {
				perr++
				continue
			}
			ev.Args, ev.Ret = a, ret
			if strings.Contains(ret, "(INJECTED)") {
				ev.Injected = true
			}
		}
		events = append(events, ev)
	}
	return events, mainTid, perr
}

// ErrUnavailable is wrapped by Exec when strace cannot be started at all.
var ErrUnavailable = errors.New("sysinject: strace unavailable")

// Exec runs the helper under strace and returns the parsed result. The returned error is non-nil only
// for harness problems (cannot start strace, cannot read the trace) – never for helper failures.
func Exec(c Cmd) (*Result, error) {
	exe, err := os.Executable()
	if err != nil {
		return nil, err
	}
	straceBin, err := exec.LookPath("strace")
	if err != nil {
		return nil, fmt.Errorf("%w: %v", ErrUnavailable, err)
	}
	wd := c.WorkDir
	if wd == "" {
		wd, err = os.MkdirTemp("", "sysinject-")
		if err != nil {
			return nil, err
		}
		defer os.RemoveAll(wd)
	}
	tracePath := filepath.Join(wd, "trace")
	_ = os.Remove(tracePath)
	set := c.Trace
	if set == "" {
		set = FileSyscalls
	}
	args := []string{"-f", "-qq", "-y", "-s", "0", "-o", tracePath, "-e", "trace=" + set}
	errorOnly := len(c.Injects) > 0
	for _, in := range c.Injects {
		args = append(args, "-e", in.String())
		if in.Signal != "" {
			errorOnly = false
		}
	}
	if errorOnly || len(c.Injects) == 0 {
		// seccomp-bpf lets untraced syscalls run at full speed. Signal injection does not work with it
		// (measured with strace 6.1: the signal is silently not delivered), so it is used for dry runs
		// and error/retval injection only.
		args = append(args, "--seccomp-bpf")
	}
	args = append(args, exe)
	timeout := c.Timeout
	if timeout <= 0 {
		timeout = 30 * time.Second
	}
	ctx, cancel := context.WithTimeout(context.Background(), timeout)
	defer cancel()
	cmd := exec.Command(straceBin, args...)
	cmd.Env = append(os.Environ(), EnvHelper+"="+c.Mode, EnvSpec+"="+c.SpecPath, "VERIF_EV_DIR=")
	cmd.Env = append(cmd.Env, c.Env...)
	cmd.SysProcAttr = &syscall.SysProcAttr{Setpgid: true}
	var so, se bytes.Buffer
	cmd.Stdout, cmd.Stderr = &so, &se
	t0 := time.Now()
	if err := cmd.Start(); err != nil {
		return nil, fmt.Errorf("%w: %v", ErrUnavailable, err)
	}
	done := make(chan error, 1)
	go func() { done <- cmd.Wait() }()
	res := &Result{Cmd: c, ExitCode: -1}
	var werr error
	select {
	case werr = <-done:
	case <-ctx.Done():
		res.TimedOut = true
		_ = syscall.Kill(-cmd.Process.Pid, syscall.SIGKILL)
		werr = <-done
	}
	res.Wall = time.Since(t0)
	// make sure nothing of the group survives (a tracee can outlive a killed strace)
	_ = syscall.Kill(-cmd.Process.Pid, syscall.SIGKILL)
	res.Stdout, res.Stderr = so.Bytes(), se.Bytes()
	raw, rerr := os.ReadFile(tracePath)
	if rerr != nil {
		return nil, fmt.Errorf("sysinject: trace not readable (%v); strace said: %s (wait: %v)", rerr, se.String(), werr)
	}
	res.RawTrace = raw
	if c.KeepPath != "" {
		_ = os.WriteFile(c.KeepPath, raw, 0o644)
	}
	res.Events, res.MainTid, res.ParseErrs = Parse(raw)
	// strace mirrors the tracee's fate: exits with its code or kills itself with the same signal.
	// The authoritative record is the trace's "+++" line of the main thread.
	for _, ln := range strings.Split(string(raw), "\n") {
		m := rx().line.FindStringSubmatch(ln)
		if m == nil {
			continue
		}
		tid, _ := strconv.Atoi(m[1])
		if tid != res.MainTid {
			continue
		}
		if k := rx().killed.FindStringSubmatch(m[2]); k != nil {
			res.Signal = k[1]
			res.ExitCode = -1
		} else if x := rx().exited.FindStringSubmatch(m[2]); x != nil {
			res.ExitCode, _ = strconv.Atoi(x[1])
		}
	}
	if res.Signal == "" && res.ExitCode == -1 && !res.TimedOut {
		// no +++ line for the main thread: fall back to strace's own status
		var ee *exec.ExitError
		if errors.As(werr, &ee) {
			if ws, ok := ee.Sys().(syscall.WaitStatus); ok && ws.Signaled() {
				res.Signal = ws.Signal().String()
			} else {
				res.ExitCode = ee.ExitCode()
			}
		} else if werr == nil {
			res.ExitCode = 0
		}
	}
	return res, nil
}

package c31

// History variant of C31: ONE Server instance serves a generated sequence of
// replication requests while the FS chain evolves (epoch +1 / +2, nodes joining
// and leaving the containers). The oracle per request is unchanged and
// memoryless: the storage is reached <=> all conditions hold NOW (signature
// valid, container known, local node in the container in the current epoch,
// sender in the container in the current or the previous epoch). Whatever the
// server remembered from earlier requests must not change a verdict.

import (
	"context"
	"fmt"
	"slices"
	"strings"
	"testing"

	"github.com/nspcc-dev/neofs-node/verifharness/ev"
	"github.com/nspcc-dev/neofs-sdk-go/container"
	cid "github.com/nspcc-dev/neofs-sdk-go/container/id"
	"pgregory.net/rapid"
)

// histState mirrors what the fake FS chain answers: member node indices per
// container for the current and the previous epoch.
type histState struct {
	fs        *fakeFSChain
	cur, prev [2][]int
	log       []string
}

func (h *histState) sync() {
	for c := range cnrs {
		id := cnrs[c]
		h.fs.cur[id], h.fs.prev[id] = nil, nil
		for _, i := range h.cur[c] {
			h.fs.cur[id] = append(h.fs.cur[id], nodes[i].pub)
		}
		for _, i := range h.prev[c] {
			h.fs.prev[id] = append(h.fs.prev[id], nodes[i].pub)
		}
	}
}

// genMembers draws a member set; the local node (0) is in with probability ~0.8.
func genMembers(t *rapid.T, label string, base []int) []int {
	var r []int
	for i := 0; i < nNodes; i++ {
		in := slices.Contains(base, i)
		p := rapid.IntRange(0, 9).Draw(t, fmt.Sprint(label, i))
		switch {
		case base == nil: // fresh set
			in = p < 6 || (i == 0 && p < 8)
		case i == 0:
			if p == 0 {
				in = !in
			}
		default:
			if p < 3 { // joins / leaves
				in = !in
			}
		}
		if in {
			r = append(r, i)
		}
	}
	return r
}

func TestC31ReplicateHistory(t *testing.T) {
	rec := ev.New("C31", "replicate-history")
	defer rec.Flush()
	rapid.Check(t, func(t *rapid.T) {
		h := &histState{fs: &fakeFSChain{known: map[cid.ID]container.Container{}, cur: map[cid.ID][][]byte{}, prev: map[cid.ID][][]byte{}, epoch: 10}}
		for c := range cnrs {
			h.fs.known[cnrs[c]] = testContainer()
			h.prev[c] = genMembers(t, fmt.Sprint("prev", c, "-"), nil)
			h.cur[c] = genMembers(t, fmt.Sprint("cur", c, "-"), h.prev[c])
		}
		h.sync()
		eff := new(effect)
		srv := newServer(h.fs, &scriptedStorage{eff: eff})

		type key struct{ cnr, sender int }
		acceptedAt := map[key]uint64{} // last epoch at which (container, sender) was accepted
		flags := map[string]bool{}
		defer func() {
			var ls []string
			for f := range flags {
				ls = append(ls, "hist/"+f)
			}
			rec.Case(flags["resend-after-epoch-change"], strings.Join(h.log, ";"), ls...)
			if flags["denied-after-accepted"] && rec.WantSample() {
				rec.Sample(h.log)
			}
		}()

		steps := rapid.IntRange(2, 8).Draw(t, "steps")
		requests := 0
		for step := 0; step < steps; step++ {
			op := rapid.SampledFrom([]string{"replicate", "replicate", "replicate", "epoch"}).Draw(t, "op")
			if step == steps-1 && requests < 2 {
				op = "replicate"
			}
			if op == "epoch" {
				d := rapid.SampledFrom([]uint64{1, 1, 1, 2}).Draw(t, "epochDelta")
				for c := range cnrs {
					if d == 1 {
						h.prev[c] = h.cur[c]
					} else {
						h.prev[c] = genMembers(t, fmt.Sprint("mid", c, "-"), h.cur[c]) // the skipped epoch
					}
					h.cur[c] = genMembers(t, fmt.Sprint("next", c, "-"), h.prev[c])
				}
				h.fs.epoch += d
				h.sync()
				h.log = append(h.log, fmt.Sprintf("epoch -> %d cur=%v prev=%v", h.fs.epoch, h.cur, h.prev))
				flags["epoch-change"] = true
				continue
			}
			requests++
			c := repCase{
				Cnr:        rapid.IntRange(0, 1).Draw(t, "cnr"),
				CnrKnown:   true,
				Sender:     rapid.IntRange(1, nNodes-1).Draw(t, "sender"),
				Scheme:     rapid.SampledFrom(schemes).Draw(t, "scheme"),
				SigDefect:  rapid.SampledFrom([]string{"none", "none", "none", "none", "none", "none", "none", "wrong-key", "sig-flip", "other-id", "scheme-tag"}).Draw(t, "sigDefect"),
				PayloadLen: rapid.IntRange(0, 8).Draw(t, "payloadLen"),
			}
			// prefer a sender seen before: re-sending after changes is the point
			if len(acceptedAt) > 0 && rapid.IntRange(0, 9).Draw(t, "resend") < 6 {
				ks := make([]key, 0, len(acceptedAt))
				for k := range acceptedAt {
					ks = append(ks, k)
				}
				slices.SortFunc(ks, func(a, b key) int { return (a.cnr*nNodes + a.sender) - (b.cnr*nNodes + b.sender) })
				k := rapid.SampledFrom(ks).Draw(t, "resendKey")
				c.Cnr, c.Sender = k.cnr, k.sender
			}
			c.SenderCur, c.SenderPrev = slices.Contains(h.cur[c.Cnr], c.Sender), slices.Contains(h.prev[c.Cnr], c.Sender)
			c.LocalCur, c.LocalPrev = slices.Contains(h.cur[c.Cnr], 0), slices.Contains(h.prev[c.Cnr], 0)
			obj := c.validObject(t)
			m := obj.ProtoMessage()
			req, sigOK := c.buildRequest(t, m)
			want := sigOK && c.authorised()
			k := key{c.Cnr, c.Sender}
			if at, ok := acceptedAt[k]; ok && at != h.fs.epoch {
				flags["resend-after-epoch-change"] = true
				if !c.senderMember() && sigOK && c.LocalCur {
					flags["denied-after-accepted"] = true
				}
			}
			h.log = append(h.log, fmt.Sprintf("replicate cnr=%d sender=%d sig=%s at epoch %d (sender cur=%v prev=%v, local cur=%v) want stored=%v",
				c.Cnr, c.Sender, c.SigDefect, h.fs.epoch, c.SenderCur, c.SenderPrev, c.LocalCur, want))

			before := len(eff.calls)
			resp, err := srv.Replicate(context.Background(), req)
			if err != nil || resp == nil {
				t.Fatalf("Replicate returned transport error %v\nhistory:\n%s", err, strings.Join(h.log, "\n"))
			}
			got := len(eff.calls) - before
			if (got == 1) != want || got > 1 {
				t.Fatalf("step %d: storage called %d times, reference says called=%v; status %d %q\nhistory:\n%s",
					step, got, want, statusCode(resp), resp.GetStatus().GetMessage(), strings.Join(h.log, "\n"))
			}
			if ok := statusCode(resp) == 0; ok != want {
				t.Fatalf("step %d: status %d %q, reference success=%v\nhistory:\n%s", step, statusCode(resp), resp.GetStatus().GetMessage(), want, strings.Join(h.log, "\n"))
			}
			if want {
				acceptedAt[k] = h.fs.epoch
				flags["stored"] = true
			}
		}
	})
}

package c31

// Outcomes of the local validate+store step and the test that, for FULLY
// AUTHORISED replication requests, the response says OK exactly when the
// object was stored (C31: "the object must pass full validation; otherwise
// nothing is stored and an error status is returned").

import (
	"bytes"
	"context"
	"errors"
	"fmt"
	"io"
	"testing"

	objectsvc "github.com/nspcc-dev/neofs-node/pkg/services/object"
	putsvc "github.com/nspcc-dev/neofs-node/pkg/services/object/put"
	"github.com/nspcc-dev/neofs-node/verifharness/ev"
	apistatus "github.com/nspcc-dev/neofs-sdk-go/client/status"
	"github.com/nspcc-dev/neofs-sdk-go/object"
	oid "github.com/nspcc-dev/neofs-sdk-go/object/id"
	"go.uber.org/zap"
	"pgregory.net/rapid"
)

// storeOutcomes: name -> error returned by the storage step ("ok" -> nil).
// Every non-nil entry is a refusal: nothing was stored.
var storeOutcomes = []struct {
	name string
	err  error
}{
	{"ok", nil},
	{"removed", apistatus.ErrObjectAlreadyRemoved},
	{"removed-ptr", new(apistatus.ObjectAlreadyRemoved)},
	{"removed-wrapped", fmt.Errorf("validate object format: %w", apistatus.ErrObjectAlreadyRemoved)},
	{"removed-wrapped-twice", fmt.Errorf("could not put object to local storage: %w", fmt.Errorf("shard 1: %w", apistatus.ErrObjectAlreadyRemoved))},
	{"removed-joined", errors.Join(errors.New("verif: shard 2 failed"), apistatus.ErrObjectAlreadyRemoved)},
	{"locked", apistatus.ErrObjectLocked},
	{"locked-wrapped", fmt.Errorf("validate payload content: %w", apistatus.ErrObjectLocked)},
	{"lock-non-regular", apistatus.ErrLockNonRegularObject},
	{"not-found", apistatus.ErrObjectNotFound},
	{"access-denied", apistatus.ErrObjectAccessDenied},
	{"out-of-range", apistatus.ErrObjectOutOfRange},
	{"quota", apistatus.ErrQuotaExceeded},
	{"container-not-found", fmt.Errorf("read container: %w", apistatus.ErrContainerNotFound)},
	{"session-expired", fmt.Errorf("authenticate: %w", apistatus.ErrSessionTokenExpired)},
	{"maintenance", apistatus.ErrNodeUnderMaintenance},
	{"internal", apistatus.ErrServerInternal},
	{"signature-verification", apistatus.ErrSignatureVerification},
	{"busy", apistatus.ErrBusy},
	{"busy-wrapped", fmt.Errorf("could not put object to local storage: %w", apistatus.ErrBusy)},
	{"validation", errors.New("validate object format: could not validate header fields: invalid identifier: incorrect object identifier")},
	{"wrong-payload-size", putsvc.ErrWrongPayloadSize},
	{"exceeding-max-size", putsvc.ErrExceedingMaxSize},
	{"ctx-canceled", context.Canceled},
	{"deadline", fmt.Errorf("put: %w", context.DeadlineExceeded)},
	{"io", io.ErrUnexpectedEOF},
}

func outcomeNames() []string {
	r := make([]string, len(storeOutcomes))
	for i, o := range storeOutcomes {
		r[i] = o.name
	}
	return r
}

func outcomeErr(name string) error {
	for _, o := range storeOutcomes {
		if o.name == name {
			return o.err
		}
	}
	panic("unknown store outcome " + name)
}

// genOutcome: half "ok", the refusal classes uniformly.
func genOutcome(t *rapid.T) string {
	if rapid.IntRange(0, 2).Draw(t, "storeOK") == 0 {
		return "ok"
	}
	return rapid.SampledFrom(outcomeNames()[1:]).Draw(t, "storeOutcome")
}

// failStore is the put service's object store: records an object only when it
// is really stored, otherwise returns the scripted engine error.
type failStore struct {
	eff      *effect
	err      error
	attempts int
}

func (s *failStore) Put(_ context.Context, o *object.Object, _ []byte) error {
	s.attempts++
	if s.err != nil {
		return s.err
	}
	s.eff.add(*o)
	return nil
}
func (s *failStore) IsLocked(context.Context, oid.Address) (bool, error) { return false, nil }

// authorisedCase draws a request for which every access condition holds.
func authorisedCase(t *rapid.T) repCase {
	c := genCase(t, false)
	c.CnrKnown, c.LocalCur, c.Twin, c.SigDefect = true, true, false, "none"
	if !c.SenderCur && !c.SenderPrev {
		if rapid.Bool().Draw(t, "senderWhere") {
			c.SenderCur = true
		} else {
			c.SenderPrev = true
		}
	}
	return c
}

func TestC31ReplicateStoreOutcome(t *testing.T) {
	rec := ev.New("C31", "replicate-store-outcome")
	defer rec.Flush()
	rapid.Check(t, func(t *rapid.T) {
		c := authorisedCase(t)
		c.StoreVerdict = genOutcome(t)
		layer := rapid.SampledFrom([]string{"storage", "engine"}).Draw(t, "layer")
		serr := outcomeErr(c.StoreVerdict)
		obj := c.validObject(t)
		m := obj.ProtoMessage()
		req, sigOK := c.buildRequest(t, m)
		if !sigOK || !c.authorised() {
			t.Fatalf("harness: case is not authorised: %+v", c)
		}
		wantStored := serr == nil
		class := "outcome:" + c.StoreVerdict
		rec.Case(true, fmt.Sprintf("%s|%s|%+v", layer, c.StoreVerdict, c), class, "layer:"+layer, map[bool]string{true: "outcome-class:stored", false: "outcome-class:refused"}[wantStored])
		if rec.WantSample() {
			rec.Sample(map[string]any{"case": fmt.Sprintf("%+v", c), "layer": layer, "outcome": c.StoreVerdict, "want_ok": wantStored})
		}

		fs := c.fsChain()
		eff := new(effect)
		var st objectsvc.Storage
		var reached func() int
		switch layer {
		case "storage":
			// VerifyAndStoreObjectLocally itself reports the outcome
			called := new(effect)
			ss := &outcomeStorage{scriptedStorage: scriptedStorage{eff: called, err: serr}, stored: eff}
			st, reached = ss, func() int { return len(called.calls) }
		default:
			// the real put service validates the (valid) object, the engine below it reports the outcome
			fst := &failStore{eff: eff, err: serr}
			ps := putsvc.NewService(nil, fakeNeoFSNet{}, nil, nil, nil,
				putsvc.WithMaxSizeSource(maxSize(maxPayload)),
				putsvc.WithObjectStorage(fst),
				putsvc.WithContainerSource(fs),
				putsvc.WithNetworkState(fs),
				putsvc.WithLogger(zap.NewNop()),
			)
			st, reached = &realStorage{ps: ps}, func() int { return fst.attempts }
		}
		resp, err := newServer(fs, st).Replicate(context.Background(), req)
		if err != nil || resp == nil {
			t.Fatalf("Replicate returned transport error %v (resp %v) for %+v", err, resp, c)
		}
		if reached() != 1 {
			t.Fatalf("authorised request reached the %s step %d times (status %d %q)\ncase %+v", layer, reached(), statusCode(resp), resp.GetStatus().GetMessage(), c)
		}
		stored := len(eff.calls) == 1
		if stored != wantStored {
			t.Fatalf("harness: stored=%v for outcome %s", stored, c.StoreVerdict)
		}
		if ok := statusCode(resp) == 0; ok != stored {
			t.Fatalf("status %d %q but object stored=%v (local validate+store outcome %q at the %s layer: %v)\ncase %+v",
				statusCode(resp), resp.GetStatus().GetMessage(), stored, c.StoreVerdict, layer, serr, c)
		}
		if !stored && len(resp.GetObjectSignature()) != 0 {
			t.Fatalf("refused object (%s) but the response carries a meta signature\ncase %+v", c.StoreVerdict, c)
		}
		if stored && !bytes.Equal(eff.calls[0].Marshal(), stableObj(req.Object)) {
			t.Fatalf("stored object differs from the one the request carried\ncase %+v", c)
		}
	})
}

// outcomeStorage records a stored object only when the scripted verdict is nil.
type outcomeStorage struct {
	scriptedStorage
	stored *effect
}

func (s *outcomeStorage) VerifyAndStoreObjectLocally(ctx context.Context, o object.Object) error {
	err := s.scriptedStorage.VerifyAndStoreObjectLocally(ctx, o)
	if err == nil {
		s.stored.add(o)
	}
	return err
}

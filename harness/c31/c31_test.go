// Package c31 decides property C31: Server.Replicate stores an object only if
// the request is signed by a node that belongs to the object's container in the
// current or the previous epoch, the local node belongs to the container, and
// the object passes validation; otherwise nothing is stored and an error status
// is returned.
//
// Reach: the real objectsvc.Server.Replicate with a fake FSChain (membership
// sets of the current and the previous epoch, own key, known containers) and
//   - a recording Storage whose verdict is scripted (TestC31Replicate), or
//   - the real putsvc.Service.ValidateAndStoreObjectLocally (real
//     FormatValidator) over a recording object store (TestC31ReplicateRealValidator).
//
// Oracle: storage reached (resp. object stored) <=> request well-formed AND
// signature valid for the claimed object ID AND container known AND local node
// in the container now AND sender in the container now or one epoch ago (AND
// object valid); status OK <=> stored.
package c31

import (
	"bytes"
	"context"
	"crypto/ecdsa"
	"crypto/elliptic"
	"crypto/sha256"
	"errors"
	"fmt"
	"math/big"
	"slices"
	"sync"
	"testing"

	"github.com/nspcc-dev/neo-go/pkg/core/block"
	"github.com/nspcc-dev/neo-go/pkg/core/transaction"
	"github.com/nspcc-dev/neo-go/pkg/neorpc/result"
	"github.com/nspcc-dev/neo-go/pkg/smartcontract/trigger"
	iec "github.com/nspcc-dev/neofs-node/internal/ec"
	objectcore "github.com/nspcc-dev/neofs-node/pkg/core/object"
	objectsvc "github.com/nspcc-dev/neofs-node/pkg/services/object"
	putsvc "github.com/nspcc-dev/neofs-node/pkg/services/object/put"
	"github.com/nspcc-dev/neofs-node/verifharness/ev"
	"github.com/nspcc-dev/neofs-sdk-go/client"
	apistatus "github.com/nspcc-dev/neofs-sdk-go/client/status"
	"github.com/nspcc-dev/neofs-sdk-go/container"
	cid "github.com/nspcc-dev/neofs-sdk-go/container/id"
	neofscrypto "github.com/nspcc-dev/neofs-sdk-go/crypto"
	neofsecdsa "github.com/nspcc-dev/neofs-sdk-go/crypto/ecdsa"
	"github.com/nspcc-dev/neofs-sdk-go/netmap"
	"github.com/nspcc-dev/neofs-sdk-go/object"
	oid "github.com/nspcc-dev/neofs-sdk-go/object/id"
	protoobject "github.com/nspcc-dev/neofs-sdk-go/proto/object"
	"github.com/nspcc-dev/neofs-sdk-go/proto/refs"
	sessionv2 "github.com/nspcc-dev/neofs-sdk-go/session/v2"
	"github.com/nspcc-dev/neofs-sdk-go/stat"
	"github.com/nspcc-dev/neofs-sdk-go/user"
	"github.com/nspcc-dev/neofs-sdk-go/version"
	"go.uber.org/zap"
	"google.golang.org/protobuf/proto"
	"pgregory.net/rapid"

	"time"
)

// ---- deterministic universe -------------------------------------------------

const nNodes = 5 // node 0 is the local node

type node struct {
	priv ecdsa.PrivateKey
	pub  []byte
	id   user.ID
}

var (
	nodes [nNodes]node
	owner node // object owner (a user, not a node)
	cnrs  [2]cid.ID
)

func detKey(label string) ecdsa.PrivateKey {
	h := sha256.Sum256([]byte("verif-c31-key-" + label))
	c := elliptic.P256()
	d := new(big.Int).SetBytes(h[:])
	d.Mod(d, new(big.Int).Sub(c.Params().N, big.NewInt(1)))
	d.Add(d, big.NewInt(1))
	var k ecdsa.PrivateKey
	k.Curve, k.D = c, d
	k.X, k.Y = c.ScalarBaseMult(d.Bytes())
	return k
}

func mkNode(label string) node {
	k := detKey(label)
	return node{priv: k, pub: neofscrypto.PublicKeyBytes((*neofsecdsa.PublicKey)(&k.PublicKey)), id: user.NewFromECDSAPublicKey(k.PublicKey)}
}

func init() {
	for i := range nodes {
		nodes[i] = mkNode(fmt.Sprint("node", i))
	}
	owner = mkNode("owner")
	for i := range cnrs {
		cnrs[i] = cid.ID(sha256.Sum256([]byte(fmt.Sprint("verif-c31-cnr-", i))))
	}
}

var schemes = []neofscrypto.Scheme{neofscrypto.ECDSA_SHA512, neofscrypto.ECDSA_DETERMINISTIC_SHA256, neofscrypto.ECDSA_WALLETCONNECT}

func signerFor(k ecdsa.PrivateKey, s neofscrypto.Scheme) neofscrypto.Signer {
	switch s {
	case neofscrypto.ECDSA_SHA512:
		return neofsecdsa.Signer(k)
	case neofscrypto.ECDSA_DETERMINISTIC_SHA256:
		return neofsecdsa.SignerRFC6979(k)
	default:
		return neofsecdsa.SignerWalletConnect(k)
	}
}

var schemeTag = map[neofscrypto.Scheme]refs.SignatureScheme{
	neofscrypto.ECDSA_SHA512:               refs.SignatureScheme_ECDSA_SHA512,
	neofscrypto.ECDSA_DETERMINISTIC_SHA256: refs.SignatureScheme_ECDSA_RFC6979_SHA256,
	neofscrypto.ECDSA_WALLETCONNECT:        refs.SignatureScheme_ECDSA_RFC6979_SHA256_WALLET_CONNECT,
}

// ---- fakes ------------------------------------------------------------------

type fakeFSChain struct {
	known     map[cid.ID]container.Container
	cur, prev map[cid.ID][][]byte
	epoch     uint64
	log       []string
}

func (x *fakeFSChain) Get(id cid.ID) (container.Container, error) {
	c, ok := x.known[id]
	if !ok {
		return container.Container{}, apistatus.ErrContainerNotFound
	}
	return c, nil
}
func (x *fakeFSChain) CurrentEpoch() uint64         { return x.epoch }
func (x *fakeFSChain) CurrentBlock() uint32         { return 100 }
func (x *fakeFSChain) CurrentEpochDuration() uint64 { return 240 }
func (x *fakeFSChain) InvokeContainedScript(*transaction.Transaction, *block.Header, *trigger.Type, *bool) (*result.Invoke, error) {
	return nil, errors.New("verif: N3 witnesses are not modelled")
}
func (x *fakeFSChain) ForEachContainerNodePublicKey(id cid.ID, f func([]byte) bool) error {
	if _, ok := x.known[id]; !ok {
		return apistatus.ErrContainerNotFound
	}
	for _, k := range x.cur[id] {
		if !f(k) {
			return nil
		}
	}
	return nil
}
func (x *fakeFSChain) ForEachContainerNodePublicKeyInLastTwoEpochs(id cid.ID, f func([]byte) bool) error {
	if _, ok := x.known[id]; !ok {
		return apistatus.ErrContainerNotFound
	}
	for _, k := range slices.Concat(x.cur[id], x.prev[id]) {
		if !f(k) {
			return nil
		}
	}
	return nil
}
func (x *fakeFSChain) SelectContainerNodes(cid.ID) ([][]netmap.NodeInfo, []uint, []iec.Rule, error) {
	return nil, nil, nil, errors.New("verif: unexpected SelectContainerNodes")
}
func (x *fakeFSChain) IsOwnPublicKey(k []byte) bool    { return bytes.Equal(k, nodes[0].pub) }
func (x *fakeFSChain) LocalNodeUnderMaintenance() bool { return false }

type effect struct {
	mu    sync.Mutex
	calls []object.Object
}

func (e *effect) add(o object.Object) {
	e.mu.Lock()
	e.calls = append(e.calls, o)
	e.mu.Unlock()
}

// scriptedStorage records VerifyAndStoreObjectLocally calls and returns a scripted verdict.
type scriptedStorage struct {
	eff *effect
	err error
}

func (s *scriptedStorage) VerifyAndStoreObjectLocally(_ context.Context, o object.Object) error {
	s.eff.add(o)
	return s.err
}
func (s *scriptedStorage) GetSessionPrivateKey(user.ID) (ecdsa.PrivateKey, error) {
	return ecdsa.PrivateKey{}, apistatus.ErrSessionTokenNotFound
}
func (s *scriptedStorage) GetSessionV2PrivateKey([]sessionv2.Target) (ecdsa.PrivateKey, error) {
	return ecdsa.PrivateKey{}, apistatus.ErrSessionTokenNotFound
}
func (s *scriptedStorage) SearchObjects(context.Context, cid.ID, []objectcore.SearchFilter, []string, *objectcore.SearchCursor, uint16) ([]client.SearchResultItem, []byte, error) {
	return nil, nil, errors.New("verif: unexpected SearchObjects")
}

// realStorage runs the node's real validation+store path.
type realStorage struct {
	scriptedStorage
	ps *putsvc.Service
}

func (s *realStorage) VerifyAndStoreObjectLocally(ctx context.Context, o object.Object) error {
	return s.ps.ValidateAndStoreObjectLocally(ctx, o)
}

type recStore struct{ eff *effect }

func (s recStore) Put(_ context.Context, o *object.Object, _ []byte) error {
	s.eff.add(*o)
	return nil
}
func (s recStore) IsLocked(context.Context, oid.Address) (bool, error) { return false, nil }

type fakeNeoFSNet struct{}

func (fakeNeoFSNet) GetContainerNodes(cid.ID) (putsvc.ContainerNodes, error) {
	return nil, errors.New("verif: unexpected GetContainerNodes")
}
func (fakeNeoFSNet) IsLocalNodePublicKey(k []byte) bool { return bytes.Equal(k, nodes[0].pub) }
func (fakeNeoFSNet) GetEpochBlock(uint64) (uint32, error) {
	return 0, errors.New("verif: N3 witnesses are not modelled")
}
func (fakeNeoFSNet) GetEpochBlockByTime(uint32) (uint32, error) {
	return 0, errors.New("verif: N3 witnesses are not modelled")
}

type maxSize uint64

func (m maxSize) MaxObjectSize() uint64 { return uint64(m) }

type nopMetrics struct{}

func (nopMetrics) HandleOpExecResult(stat.Method, bool, time.Duration) {}
func (nopMetrics) AddPutPayload(int)                                   {}
func (nopMetrics) AddGetPayload(int)                                   {}

const maxPayload = 64

func newServer(fs *fakeFSChain, st objectsvc.Storage) *objectsvc.Server {
	// handlers, ACL checker, request info extractor and client constructor are
	// nil: Replicate must not touch them (a nil dereference would fail the case).
	return objectsvc.New(nil, fs, st, nil, nodes[0].priv, nopMetrics{}, nil, nil, nil, zap.NewNop())
}

func testContainer() container.Container {
	var c container.Container
	c.Init()
	c.SetOwner(owner.id)
	var pp netmap.PlacementPolicy
	if err := pp.DecodeString("REP 2"); err != nil {
		panic(err)
	}
	c.SetPlacementPolicy(pp)
	return c
}

// ---- case -------------------------------------------------------------------

type repCase struct {
	Cnr      int
	CnrKnown bool
	Sender   int // node index 1..4
	// Twin: the request is sent (and correctly signed) by the holder of the
	// NEGATED private key of node Sender: a different key pair whose compressed
	// public key differs from the member's only in the parity byte. It is not a
	// container member.
	Twin         bool
	SenderCur    bool
	SenderPrev   bool
	LocalCur     bool
	LocalPrev    bool
	OthersCur    []int
	OthersPrev   []int
	Scheme       neofscrypto.Scheme
	SigDefect    string
	ObjDefect    string // real-validator variant
	StoreVerdict string // scripted variant: one of storeOutcomes
	PayloadLen   int
	Attrs        int
}

var sigDefects = []string{"none", "none", "none", "none", "none", "none", "none", "none",
	"wrong-key", "sig-flip", "sig-trunc", "other-id", "scheme-tag", "scheme-n3", "scheme-unknown",
	"no-signature", "no-key", "no-sign", "bad-key", "no-object", "no-id", "empty-id", "no-header", "no-container", "bad-container"}

func genCase(t *rapid.T, real bool) repCase {
	c := repCase{
		Cnr:        rapid.IntRange(0, 1).Draw(t, "cnr"),
		CnrKnown:   rapid.IntRange(0, 9).Draw(t, "cnrKnown") > 0,
		Sender:     rapid.IntRange(1, nNodes-1).Draw(t, "sender"),
		Scheme:     rapid.SampledFrom(schemes).Draw(t, "scheme"),
		SigDefect:  rapid.SampledFrom(sigDefects).Draw(t, "sigDefect"),
		PayloadLen: rapid.IntRange(0, 40).Draw(t, "payloadLen"),
		Attrs:      rapid.IntRange(0, 3).Draw(t, "attrs"),
	}
	c.Twin = rapid.IntRange(0, 11).Draw(t, "twin") == 0
	switch rapid.IntRange(0, 9).Draw(t, "senderMembership") {
	case 0, 1, 2, 3:
		c.SenderCur = true
	case 4, 5, 6:
		c.SenderPrev = true
	case 7:
		c.SenderCur, c.SenderPrev = true, true
	}
	switch rapid.IntRange(0, 9).Draw(t, "localMembership") {
	case 0:
	case 1:
		c.LocalPrev = true
	case 2:
		c.LocalCur, c.LocalPrev = true, true
	default:
		c.LocalCur = true
	}
	others := func(label string) []int {
		var r []int
		for _, i := range rapid.SliceOfNDistinct(rapid.IntRange(1, nNodes-1), 0, 3, rapid.ID[int]).Draw(t, label) {
			if i != c.Sender {
				r = append(r, i)
			}
		}
		return r
	}
	c.OthersCur, c.OthersPrev = others("othersCur"), others("othersPrev")
	if real {
		c.ObjDefect = rapid.SampledFrom([]string{"none", "none", "none", "none", "none", "none",
			"id-mismatch", "header-changed", "payload-flip", "payload-size", "no-checksum", "bad-checksum", "no-signature", "foreign-signature", "sig-flip", "too-big", "no-owner"}).Draw(t, "objDefect")
	} else {
		c.StoreVerdict = genOutcome(t)
	}
	return c
}

func (c repCase) fsChain() *fakeFSChain {
	fs := &fakeFSChain{known: map[cid.ID]container.Container{}, cur: map[cid.ID][][]byte{}, prev: map[cid.ID][][]byte{}, epoch: 10}
	// the other container exists and has everybody: membership must be looked up per container
	other := cnrs[1-c.Cnr]
	fs.known[other] = testContainer()
	for i := range nodes {
		fs.cur[other] = append(fs.cur[other], nodes[i].pub)
	}
	id := cnrs[c.Cnr]
	if c.CnrKnown {
		fs.known[id] = testContainer()
	}
	for _, i := range c.OthersCur {
		fs.cur[id] = append(fs.cur[id], nodes[i].pub)
	}
	for _, i := range c.OthersPrev {
		fs.prev[id] = append(fs.prev[id], nodes[i].pub)
	}
	if c.SenderCur {
		fs.cur[id] = append(fs.cur[id], nodes[c.Sender].pub)
	}
	if c.SenderPrev {
		fs.prev[id] = append(fs.prev[id], nodes[c.Sender].pub)
	}
	if c.LocalCur {
		fs.cur[id] = append([][]byte{nodes[0].pub}, fs.cur[id]...)
	}
	if c.LocalPrev {
		fs.prev[id] = append(fs.prev[id], nodes[0].pub)
	}
	return fs
}

// validObject builds a complete REGULAR object signed by its owner.
func (c repCase) validObject(t *rapid.T) object.Object {
	payload := rapid.SliceOfN(rapid.Byte(), c.PayloadLen, c.PayloadLen).Draw(t, "payload")
	obj := object.New(cnrs[c.Cnr], owner.id)
	ver := version.Current()
	obj.SetVersion(&ver)
	obj.SetCreationEpoch(uint64(rapid.IntRange(0, 10).Draw(t, "creationEpoch")))
	obj.SetType(object.TypeRegular)
	var attrs []object.Attribute
	for i := 0; i < c.Attrs; i++ {
		attrs = append(attrs, object.NewAttribute(fmt.Sprintf("k%d", i), rapid.StringMatching(`[a-z0-9]{1,6}`).Draw(t, "attr")))
	}
	if len(attrs) > 0 {
		obj.SetAttributes(attrs...)
	}
	obj.SetPayload(payload)
	obj.SetPayloadSize(uint64(len(payload)))
	obj.CalculateAndSetPayloadChecksum()
	if err := obj.SetVerificationFields(user.NewAutoIDSignerRFC6979(owner.priv)); err != nil {
		t.Fatalf("finalize object: %v", err)
	}
	return *obj
}

// applyObjDefect corrupts the object message; returns the claimed ID the sender signs.
func applyObjDefect(t *rapid.T, kind string, obj object.Object, m *protoobject.Object) {
	switch kind {
	case "none":
	case "id-mismatch":
		b := bytes.Clone(m.ObjectId.Value)
		b[rapid.IntRange(0, 31).Draw(t, "idPos")] ^= 1 << rapid.IntRange(0, 7).Draw(t, "idBit")
		m.ObjectId = &refs.ObjectID{Value: b}
	case "header-changed":
		switch rapid.IntRange(0, 2).Draw(t, "hdrField") {
		case 0:
			m.Header.CreationEpoch++
		case 1:
			m.Header.Attributes = append(m.Header.Attributes, &protoobject.Header_Attribute{Key: "extra", Value: "1"})
		default:
			m.Header.OwnerId = nodes[1].id.ProtoMessage()
		}
	case "payload-flip":
		if len(m.Payload) == 0 {
			m.Payload = []byte{1}
			break
		}
		m.Payload = bytes.Clone(m.Payload)
		m.Payload[rapid.IntRange(0, len(m.Payload)-1).Draw(t, "plPos")] ^= 1 << rapid.IntRange(0, 7).Draw(t, "plBit")
	case "payload-size":
		m.Payload = append(bytes.Clone(m.Payload), 0)
	case "no-checksum":
		m.Header.PayloadHash = nil
		refinalize(t, m)
	case "bad-checksum":
		m.Header.PayloadHash = proto.Clone(m.Header.PayloadHash).(*refs.Checksum)
		m.Header.PayloadHash.Sum = bytes.Clone(m.Header.PayloadHash.Sum)
		m.Header.PayloadHash.Sum[rapid.IntRange(0, 31).Draw(t, "csPos")] ^= 1 << rapid.IntRange(0, 7).Draw(t, "csBit")
		refinalize(t, m)
	case "no-signature":
		m.Signature = nil
	case "foreign-signature":
		// correctly signed, but not by the owner
		sig, err := obj.GetID().CalculateIDSignature(neofsecdsa.SignerRFC6979(nodes[2].priv))
		if err != nil {
			t.Fatalf("sign: %v", err)
		}
		m.Signature = sig.ProtoMessage()
	case "sig-flip":
		m.Signature = proto.Clone(m.Signature).(*refs.Signature)
		m.Signature.Sign = bytes.Clone(m.Signature.Sign)
		m.Signature.Sign[rapid.IntRange(0, len(m.Signature.Sign)-1).Draw(t, "osPos")] ^= 1 << rapid.IntRange(0, 7).Draw(t, "osBit")
	case "too-big":
		p := rapid.SliceOfN(rapid.Byte(), maxPayload+1, maxPayload+9).Draw(t, "bigPayload")
		h := sha256.Sum256(p)
		m.Payload, m.Header.PayloadLength = p, uint64(len(p))
		m.Header.PayloadHash = &refs.Checksum{Type: refs.ChecksumType_SHA256, Sum: h[:]}
		refinalize(t, m)
	case "no-owner":
		m.Header.OwnerId = nil
		refinalize(t, m)
	}
}

// refinalize recomputes the object ID and the owner's signature after a header
// change, so that only the targeted rule is broken.
func refinalize(t *rapid.T, m *protoobject.Object) {
	hb := make([]byte, m.Header.MarshaledSize())
	m.Header.MarshalStable(hb)
	id := oid.ID(sha256.Sum256(hb))
	sig, err := id.CalculateIDSignature(neofsecdsa.SignerRFC6979(owner.priv))
	if err != nil {
		t.Fatalf("sign object: %v", err)
	}
	m.ObjectId, m.Signature = id.ProtoMessage(), sig.ProtoMessage()
}

// buildRequest signs the replication request as the sender node would, then applies the signature defect.
// wellFormed/sigValid describe the result for the oracle.
func (c repCase) buildRequest(t *rapid.T, m *protoobject.Object) (req *protoobject.ReplicateRequest, sigOK bool) {
	sender := nodes[c.Sender]
	if c.Twin {
		sender = twin(sender)
	}
	signer := signerFor(sender.priv, c.Scheme)
	sig, err := signer.Sign(m.ObjectId.GetValue())
	if err != nil {
		t.Fatalf("sign request: %v", err)
	}
	req = &protoobject.ReplicateRequest{Object: m, Signature: &refs.Signature{Key: bytes.Clone(sender.pub), Sign: sig, Scheme: schemeTag[c.Scheme]}}
	sigOK = true
	switch c.SigDefect {
	case "none":
	case "wrong-key":
		// another node's signature presented with the sender's key
		other := nodes[1+(c.Sender%(nNodes-1))]
		s, err := signerFor(other.priv, c.Scheme).Sign(m.ObjectId.GetValue())
		if err != nil {
			t.Fatalf("sign: %v", err)
		}
		req.Signature.Sign, sigOK = s, false
	case "sig-flip":
		req.Signature.Sign = bytes.Clone(sig)
		req.Signature.Sign[rapid.IntRange(0, len(sig)-1).Draw(t, "sigPos")] ^= 1 << rapid.IntRange(0, 7).Draw(t, "sigBit")
		sigOK = false
	case "sig-trunc":
		req.Signature.Sign, sigOK = sig[:len(sig)-1], false
	case "other-id":
		// valid signature of a different object ID
		id := bytes.Clone(m.ObjectId.GetValue())
		id[0] ^= 0xff
		s, err := signer.Sign(id)
		if err != nil {
			t.Fatalf("sign: %v", err)
		}
		req.Signature.Sign, sigOK = s, false
	case "scheme-tag":
		req.Signature.Scheme = refs.SignatureScheme((int32(req.Signature.Scheme) + int32(rapid.IntRange(1, 2).Draw(t, "schemeShift"))) % 3)
		sigOK = false
	case "scheme-n3":
		req.Signature.Scheme, sigOK = refs.SignatureScheme_N3, false
	case "scheme-unknown":
		req.Signature.Scheme, sigOK = refs.SignatureScheme(rapid.SampledFrom([]int32{4, 7, 1 << 20, -1}).Draw(t, "badScheme")), false
	case "no-signature":
		req.Signature, sigOK = nil, false
	case "no-key":
		req.Signature.Key, sigOK = nil, false
	case "no-sign":
		req.Signature.Sign, sigOK = nil, false
	case "bad-key":
		req.Signature.Key = bytes.Clone(sender.pub)
		req.Signature.Key[1+rapid.IntRange(0, 31).Draw(t, "keyPos")] ^= 1 << rapid.IntRange(0, 7).Draw(t, "keyBit")
		sigOK = false
	case "no-object":
		req.Object, sigOK = nil, false
	case "no-id":
		m.ObjectId, sigOK = nil, false
	case "empty-id":
		m.ObjectId, sigOK = &refs.ObjectID{}, false
	case "no-header":
		m.Header, sigOK = nil, false
	case "no-container":
		m.Header.ContainerId, sigOK = nil, false
	case "bad-container":
		m.Header.ContainerId, sigOK = &refs.ContainerID{Value: []byte{1, 2, 3}}, false
	}
	return req, sigOK
}

func (c repCase) senderMember() bool { return (c.SenderCur || c.SenderPrev) && !c.Twin }

func (c repCase) authorised() bool {
	return c.CnrKnown && c.LocalCur && c.senderMember()
}

func twin(n node) node {
	var k ecdsa.PrivateKey
	k.Curve = n.priv.Curve
	k.D = new(big.Int).Sub(n.priv.Params().N, n.priv.D)
	k.X, k.Y = k.Curve.ScalarBaseMult(k.D.Bytes())
	return node{priv: k, pub: neofscrypto.PublicKeyBytes((*neofsecdsa.PublicKey)(&k.PublicKey)), id: user.NewFromECDSAPublicKey(k.PublicKey)}
}

func (c repCase) labels(sigOK bool) []string {
	ls := []string{"sig:" + c.SigDefect}
	if c.Twin {
		ls = append(ls, "sender:twin-key-of-member")
	}
	switch {
	case c.SenderCur && c.SenderPrev:
		ls = append(ls, "sender:both")
	case c.SenderCur:
		ls = append(ls, "sender:current")
	case c.SenderPrev:
		ls = append(ls, "sender:previous-only")
	default:
		ls = append(ls, "sender:neither")
	}
	switch {
	case c.LocalCur:
		ls = append(ls, "local:current")
	case c.LocalPrev:
		ls = append(ls, "local:previous-only")
	default:
		ls = append(ls, "local:out")
	}
	if !c.CnrKnown {
		ls = append(ls, "container:unknown")
	}
	return ls
}

// failing counts violated conditions: a case is non-trivial when everything
// holds or exactly one condition fails.
func (c repCase) failing(sigOK, objOK bool) int {
	n := 0
	for _, b := range []bool{sigOK, c.CnrKnown, c.LocalCur, c.senderMember(), objOK} {
		if !b {
			n++
		}
	}
	return n
}

func statusCode(resp *protoobject.ReplicateResponse) uint32 { return resp.GetStatus().GetCode() }

// ---- properties -------------------------------------------------------------

func TestC31Replicate(t *testing.T) {
	rec := ev.New("C31", "replicate-scripted-storage")
	defer rec.Flush()
	rapid.Check(t, func(t *rapid.T) {
		c := genCase(t, false)
		obj := c.validObject(t)
		m := obj.ProtoMessage()
		req, sigOK := c.buildRequest(t, m)
		want := sigOK && c.authorised()
		storeErr := outcomeErr(c.StoreVerdict)
		ls := append(c.labels(sigOK), "store:"+c.StoreVerdict)
		n := c.failing(sigOK, storeErr == nil)
		ls = append(ls, fmt.Sprintf("failing:%d", min(n, 3)))
		if want && storeErr == nil {
			ls = append(ls, "stored")
		}
		rec.Case(n <= 1, fmt.Sprintf("%+v", c), ls...)
		if rec.WantSample() {
			rec.Sample(map[string]any{"case": fmt.Sprintf("%+v", c), "want_storage_called": want})
		}

		eff := new(effect)
		st := &scriptedStorage{eff: eff, err: storeErr}
		var wantMsg []byte
		if req.Object != nil {
			wantMsg = stableObj(req.Object)
		}
		resp, err := newServer(c.fsChain(), st).Replicate(context.Background(), req)
		if err != nil || resp == nil {
			t.Fatalf("Replicate returned transport error %v (resp %v) for %+v", err, resp, c)
		}
		if got := len(eff.calls); (got == 1) != want || got > 1 {
			t.Fatalf("storage called %d times, reference says called=%v (signature ok=%v, container known=%v, local in container=%v, sender current=%v previous=%v twin=%v)\ncase %+v\nstatus %d %q",
				got, want, sigOK, c.CnrKnown, c.LocalCur, c.SenderCur, c.SenderPrev, c.Twin, c, statusCode(resp), resp.GetStatus().GetMessage())
		}
		ok := statusCode(resp) == 0
		if ok != (want && storeErr == nil) {
			t.Fatalf("status %d %q, reference success=%v\ncase %+v", statusCode(resp), resp.GetStatus().GetMessage(), want && storeErr == nil, c)
		}
		if want {
			if got := eff.calls[0].Marshal(); !bytes.Equal(got, wantMsg) {
				t.Fatalf("storage received a different object than the request carried\ncase %+v", c)
			}
		}
	})
}

func stableObj(m *protoobject.Object) []byte {
	b := make([]byte, m.MarshaledSize())
	m.MarshalStable(b)
	return b
}

func TestC31ReplicateRealValidator(t *testing.T) {
	rec := ev.New("C31", "replicate-real-validator")
	defer rec.Flush()
	rapid.Check(t, func(t *rapid.T) {
		c := genCase(t, true)
		obj := c.validObject(t)
		m := obj.ProtoMessage()
		applyObjDefect(t, c.ObjDefect, obj, m)
		objOK := c.ObjDefect == "none"
		req, sigOK := c.buildRequest(t, m)
		want := sigOK && c.authorised() && objOK
		ls := append(c.labels(sigOK), "obj:"+c.ObjDefect)
		n := c.failing(sigOK, objOK)
		ls = append(ls, fmt.Sprintf("failing:%d", min(n, 3)))
		if want {
			ls = append(ls, "stored")
		}
		rec.Case(n <= 1, fmt.Sprintf("%+v", c), ls...)
		if rec.WantSample() {
			rec.Sample(map[string]any{"case": fmt.Sprintf("%+v", c), "want_stored": want})
		}

		fs := c.fsChain()
		eff := new(effect)
		ps := putsvc.NewService(nil, fakeNeoFSNet{}, nil, nil, nil,
			putsvc.WithMaxSizeSource(maxSize(maxPayload)),
			putsvc.WithObjectStorage(recStore{eff}),
			putsvc.WithContainerSource(fs),
			putsvc.WithNetworkState(fs),
			putsvc.WithLogger(zap.NewNop()),
		)
		st := &realStorage{ps: ps}
		var wantMsg []byte
		if req.Object != nil {
			wantMsg = stableObj(req.Object)
		}
		resp, err := newServer(fs, st).Replicate(context.Background(), req)
		if err != nil || resp == nil {
			t.Fatalf("Replicate returned transport error %v (resp %v) for %+v", err, resp, c)
		}
		if got := len(eff.calls); (got == 1) != want || got > 1 {
			t.Fatalf("object stored %d times, reference says stored=%v (signature ok=%v, container known=%v, local in container=%v, sender current=%v previous=%v, object defect=%s)\ncase %+v\nstatus %d %q",
				got, want, sigOK, c.CnrKnown, c.LocalCur, c.SenderCur, c.SenderPrev, c.ObjDefect, c, statusCode(resp), resp.GetStatus().GetMessage())
		}
		if ok := statusCode(resp) == 0; ok != want {
			t.Fatalf("status %d %q, reference success=%v\ncase %+v", statusCode(resp), resp.GetStatus().GetMessage(), want, c)
		}
		if want {
			if got := eff.calls[0].Marshal(); !bytes.Equal(got, wantMsg) {
				t.Fatalf("stored object differs from the one the request carried\ncase %+v", c)
			}
		}
	})
}

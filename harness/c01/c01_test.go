// Package c01 decides property C01: after any history of puts and removal
// actions every metabase view (Exists, Get, Search, ResolveECPart, IsLocked,
// ListWithCursor, IterateExpired, GetGarbage) reports for each address of the
// dense universe the status defined by the reference rules (package metamodel).
package c01

import (
	"encoding/base64"
	"errors"
	"fmt"
	"sort"
	"testing"

	iec "github.com/nspcc-dev/neofs-node/internal/ec"
	objectcore "github.com/nspcc-dev/neofs-node/pkg/core/object"
	meta "github.com/nspcc-dev/neofs-node/pkg/local_object_storage/metabase"
	cid "github.com/nspcc-dev/neofs-sdk-go/container/id"
	"github.com/nspcc-dev/neofs-sdk-go/object"
	oid "github.com/nspcc-dev/neofs-sdk-go/object/id"
	"pgregory.net/rapid"

	"github.com/nspcc-dev/neofs-node/verifharness/ev"
	mm "github.com/nspcc-dev/neofs-node/verifharness/metamodel"
	"github.com/nspcc-dev/neofs-node/verifharness/metamodel/drv"
	"github.com/nspcc-dev/neofs-node/verifharness/stor"
	"github.com/nspcc-dev/neofs-node/verifharness/uni"
)

type checker struct {
	t   *rapid.T
	w   *drv.World
	db  *meta.DB
	rec *ev.Recorder
	// per-case observations
	nonAvailSeen, multiReason, lockOverride, inherit bool
}

func (c *checker) fail(f string, a ...any) {
	c.t.Fatalf("%s\nepoch %d, history:\n  %s", fmt.Sprintf(f, a...), c.w.Epoch, c.w.History())
}

func idsOf(as []oid.Address, cnr int) []int {
	var r []int
	for _, a := range as {
		x, ok := mm.AddrOf(a)
		if !ok || x.C != cnr {
			return []int{-999}
		}
		r = append(r, x.I)
	}
	sort.Ints(r)
	return r
}

func equal(a, b []int) bool {
	if len(a) != len(b) {
		return false
	}
	for i := range a {
		if a[i] != b[i] {
			return false
		}
	}
	return true
}

// lockAmbiguous: lock liveness of a or its ancestors differs between "at epoch"
// and "expiration ignored" – the ignore-expiration view is then unspecified.
func (c *checker) lockAmbiguous(a mm.Addr) bool {
	m := c.w.M
	x := a
	for l := 0; l <= mm.MaxNesting; l++ {
		if m.Locked(x, c.w.Epoch, true) != m.Locked(x, c.w.Epoch, false) {
			return true
		}
		p := m.ParentOf(x)
		if p < 0 {
			break
		}
		x = mm.Addr{C: a.C, I: p}
	}
	return false
}

// unspecified: a live lock and a tombstone apply together (reachable only by
// marking and reviving the LOCK object itself): the statement lets a lock
// override expiry and garbage marks only, the ResolveECPart comment says it
// also ignores tombstones. Views of such an address are not compared.
func (c *checker) unspecified(a mm.Addr) bool { return c.unspecifiedAt(a, false) }

func (c *checker) unspecifiedAt(a mm.Addr, ignoreExp bool) bool {
	m, e := c.w.M, c.w.Epoch
	q := m.Quirks
	strict := m.Reasons(a, e, ignoreExp)
	m.Quirks.LockOverridesTombstone = !q.LockOverridesTombstone
	other := m.Reasons(a, e, ignoreExp)
	m.Quirks = q
	return strict != other
}

func (c *checker) checkAddr(a mm.Addr) {
	m, e := c.w.M, c.w.Epoch
	v := m.Status(a, e)
	if c.unspecified(a) {
		c.rec.Label("skip-lock-vs-tombstone-unspecified")
		if lk, err := c.db.IsLocked(a.OID()); err != nil || lk != v.Locked {
			c.fail("IsLocked(%s) = %v/%v, model: live lock = %v", a, lk, err, v.Locked)
		}
		return
	}
	addr := a.OID()
	if v.Reasons != 0 {
		c.nonAvailSeen = true
		if v.Reasons&(v.Reasons-1) != 0 {
			c.multiReason = true
		}
	}
	if v.Locked && v.Stored && v.Reasons == 0 && (m.Mark(a) == mm.MarkDefault || (v.Obj.Exp >= 0 && e > v.Obj.Exp)) {
		c.lockOverride = true
	}
	if p := m.ParentOf(a); p >= 0 && v.Reasons != 0 && m.Reasons(mm.Addr{C: a.C, I: p}, e, false) != 0 {
		c.inherit = true
	}

	expectClass := func(view string, r mm.Reasons, parentKind string, stored bool, absentCls mm.Class, got mm.Class) {
		switch {
		case r != 0:
			if !r.Admits(got) {
				c.fail("%s(%s) reports %s, applicable reasons: %s (stored=%v)", view, a, got, r, stored)
			}
		case parentKind == "split":
			if got != mm.SplitInfo {
				c.fail("%s(%s) reports %s, expected split info (available parent of stored split children)", view, a, got)
			}
		case parentKind == "ec":
			if got != mm.ECParts {
				c.fail("%s(%s) reports %s, expected EC parts (available parent of stored EC parts)", view, a, got)
			}
		case stored:
			if got != mm.OK {
				c.fail("%s(%s) reports %s, the object is stored and available", view, a, got)
			}
		default:
			if got != absentCls {
				c.fail("%s(%s) reports %s, the object is absent (expected %s)", view, a, got, absentCls)
			}
		}
	}

	// Exists with expiration
	ex, err := c.db.Exists(addr, false)
	cls := mm.Classify(err)
	expectClass("Exists", v.Reasons, v.ParentKind, v.Stored, mm.OK, cls)
	if cls == mm.OK && ex != v.Stored {
		c.fail("Exists(%s) = %v, stored = %v", a, ex, v.Stored)
	}
	// Exists ignoring expiration
	if !c.lockAmbiguous(a) && !c.unspecifiedAt(a, true) {
		r2 := m.Reasons(a, e, true)
		ex, err = c.db.Exists(addr, true)
		cls = mm.Classify(err)
		expectClass("Exists[ignoreExpiration]", r2, v.ParentKind, v.Stored, mm.OK, cls)
		if cls == mm.OK && ex != v.Stored {
			c.fail("Exists[ignoreExpiration](%s) = %v, stored = %v", a, ex, v.Stored)
		}
	} else {
		c.rec.Label("skip-ignoreexp-lock-ambiguous")
	}
	// Get, not raw: header of stored objects, virtual parents included
	h, err := c.db.Get(addr, false)
	cls = mm.Classify(err)
	expectClass("Get", v.Reasons, "", v.Stored, mm.NotFound, cls)
	if cls == mm.OK {
		if h.GetID() != addr.Object() || h.Type().String() != v.Obj.Type || int(h.PayloadSize()) != v.Obj.Size {
			c.fail("Get(%s) header: id %s type %s size %d, model %+v", a, h.GetID(), h.Type(), h.PayloadSize(), *v.Obj)
		}
	}
	// Get raw
	_, err = c.db.Get(addr, true)
	expectClass("Get[raw]", v.Reasons, v.ParentKind, v.Stored, mm.NotFound, mm.Classify(err))
	// IsLocked
	lk, err := c.db.IsLocked(addr)
	if err != nil {
		c.fail("IsLocked(%s): %v", a, err)
	}
	if lk != v.Locked {
		c.fail("IsLocked(%s) = %v, model: live lock = %v", a, lk, v.Locked)
	}
	// ResolveECPart
	for rule := 0; rule < 2; rule++ {
		for part := -1; part < 3; part++ {
			if v.ParentKind != "ec" && (rule > 0 || part > 0) {
				continue // full grid only for EC parents
			}
			id, err := c.db.ResolveECPart(uni.Cnr(a.C), addr.Object(), iec.PartInfo{RuleIndex: rule, Index: part})
			cls := mm.Classify(err)
			parts := m.ECParts(a, rule, part)
			switch {
			case v.Reasons != 0:
				if !v.Reasons.Admits(cls) {
					c.fail("ResolveECPart(%s,%d,%d) reports %s, applicable reasons of the parent: %s", a, rule, part, cls, v.Reasons)
				}
			case len(parts) > 0:
				x, ok := mm.AddrOf(oid.NewAddress(uni.Cnr(a.C), id))
				if cls != mm.OK || !ok || !has(parts, x.I) {
					c.fail("ResolveECPart(%s,%d,%d) = %v/%s, model parts %v", a, rule, part, id, cls, parts)
				}
				if part < 0 { // lowest stored part index
					for _, p := range parts {
						if m.Get(mm.Addr{C: a.C, I: p}).Part < m.Get(x).Part {
							c.fail("ResolveECPart(%s,%d,-1) = o%d, a lower part index is stored: o%d", a, rule, x.I, p)
						}
					}
				}
			case v.ParentKind == "" && v.Stored && v.Obj.Type != mm.TRegular:
				if cls != mm.OK || id != addr.Object() {
					c.fail("ResolveECPart(%s) of a stored %s = %v/%s, expected the ID itself", a, v.Obj.Type, id, cls)
				}
			default:
				if cls == mm.OK {
					c.fail("ResolveECPart(%s,%d,%d) = %v, but no such part is stored", a, rule, part, id)
				}
			}
		}
	}
}

// search is DB.Select with a small page (Select asks for 65535 items per call,
// which allocates megabytes) – it also exercises the paging cursor.
func search(db *meta.DB, cnr cid.ID, fs object.SearchFilters) ([]oid.Address, error) {
	var (
		res    []oid.Address
		attrs  []string
		cursor string
	)
	if len(fs) > 0 {
		attrs = append(attrs, fs[0].Header())
	}
	for n := 0; n < 100; n++ {
		ofs, cur, err := objectcore.PreprocessSearchQuery(fs, attrs, cursor)
		if err != nil {
			return nil, err
		}
		items, next, err := db.Search(cnr, ofs, attrs, cur, 5)
		if err != nil {
			return nil, err
		}
		for i := range items {
			res = append(res, oid.NewAddress(cnr, items[i].ID))
		}
		if len(next) == 0 {
			return res, nil
		}
		cursor = base64.StdEncoding.EncodeToString(next)
	}
	return nil, errors.New("search paging does not terminate")
}

func has(s []int, x int) bool {
	for _, v := range s {
		if v == x {
			return true
		}
	}
	return false
}

func (c *checker) checkContainer(ci int) {
	m, e := c.w.M, c.w.Epoch
	cnr := uni.Cnr(ci)
	avail := m.AvailableIn(ci, e)
	sel := func(name string, fs object.SearchFilters, keep func(*mm.Obj) bool) {
		res, err := search(c.db, cnr, fs)
		if err != nil {
			c.fail("Search[%s](c%d): %v", name, ci, err)
		}
		var want []int
		for _, id := range avail {
			if keep(m.Get(mm.Addr{C: ci, I: id})) && !c.unspecified(mm.Addr{C: ci, I: id}) {
				want = append(want, id)
			}
		}
		var got []int
		for _, id := range idsOf(res, ci) {
			if id < 0 || !c.unspecified(mm.Addr{C: ci, I: id}) {
				got = append(got, id)
			}
		}
		if !equal(got, want) {
			c.fail("Search[%s](c%d) = %v, model available set %v", name, ci, got, want)
		}
	}
	sel("all", nil, func(*mm.Obj) bool { return true })
	var fr, fp object.SearchFilters
	fr.AddRootFilter()
	sel("root", fr, func(o *mm.Obj) bool { return o.Root })
	fp.AddPhyFilter()
	sel("phy", fp, func(o *mm.Obj) bool { return o.Phy })
}

func (c *checker) checkGlobal() {
	m, e := c.w.M, c.w.Epoch
	// listing
	must, may := m.Listed()
	key := func(a mm.Addr) int { return a.C*100 + a.I }
	for _, page := range []int{1, 3, 64} {
		seen := map[int]bool{}
		var cur *meta.Cursor
		for n := 0; ; n++ {
			res, next, err := c.db.ListWithCursor(page, cur)
			if errors.Is(err, meta.ErrEndOfListing) {
				break
			}
			if err != nil {
				c.fail("ListWithCursor(%d): %v", page, err)
			}
			if len(res) > page || n > 200 {
				c.fail("ListWithCursor(%d) returned %d items (call %d)", page, len(res), n)
			}
			for _, r := range res {
				a, ok := mm.AddrOf(r.Address)
				if !ok {
					c.fail("ListWithCursor returned foreign address %s", r.Address)
				}
				if seen[key(a)] {
					c.fail("ListWithCursor(%d) returned %s twice", page, a)
				}
				seen[key(a)] = true
				if o := m.Get(a); o != nil && r.Type.String() != o.Type {
					c.fail("ListWithCursor: %s has type %s, model %s", a, r.Type, o.Type)
				}
			}
			cur = next
		}
		allowed := map[int]bool{}
		for _, a := range must {
			allowed[key(a)] = true
			if !seen[key(a)] {
				c.fail("ListWithCursor(page %d) omits %s which is physically stored and not marked for removal (listed: %v)", page, a, keys(seen))
			}
		}
		for _, a := range may {
			allowed[key(a)] = true
		}
		for k := range seen {
			if !allowed[k] {
				c.fail("ListWithCursor(page %d) lists c%d/o%d which is absent, not physical or marked for removal", page, k/100, k%100)
			}
		}
	}
	// expired iteration
	for _, ep := range []int{e, e + 1, e + 3} {
		want := map[int]string{}
		for _, a := range m.ExpiredAt(ep) {
			want[key(a)] = m.Get(a).Type
		}
		got := map[int]bool{}
		err := c.db.IterateExpired(uint64(ep), func(addr oid.Address, typ object.Type) error {
			a, ok := mm.AddrOf(addr)
			if !ok {
				c.fail("IterateExpired yields foreign %s", addr)
			}
			if got[key(a)] {
				c.fail("IterateExpired(%d) yields %s twice", ep, a)
			}
			got[key(a)] = true
			t, ok := want[key(a)]
			if !ok {
				c.fail("IterateExpired(%d) yields %s: model says not (expired ∧ unlocked ∧ live container); stored=%v", ep, a, m.Stored(a))
			}
			if t != typ.String() {
				c.fail("IterateExpired(%d) yields %s with type %s, model %s", ep, a, typ, t)
			}
			return nil
		})
		if err != nil {
			c.fail("IterateExpired(%d): %v", ep, err)
		}
		for k := range want {
			if !got[k] {
				c.fail("IterateExpired(%d) misses c%d/o%d (expired, unlocked, live container)", ep, k/100, k%100)
			}
		}
	}
	// garbage
	bins, err := c.db.GetGarbage(1000)
	if err != nil {
		c.fail("GetGarbage: %v", err)
	}
	inBin := map[int]bool{}
	binCnr := map[int]bool{}
	for _, b := range bins {
		ci := -1
		for k := 0; k < uni.NContainers; k++ {
			if uni.Cnr(k) == b.Container {
				ci = k
			}
		}
		if ci < 0 {
			c.fail("GetGarbage: foreign container %s", b.Container)
		}
		binCnr[ci] = true
		for _, id := range b.Objects {
			a, _ := mm.AddrOf(oid.NewAddress(b.Container, id))
			inBin[key(a)] = true
		}
	}
	for _, a := range m.GarbageMarked() {
		if !inBin[key(a)] {
			c.fail("GetGarbage misses marked %s", a)
		}
	}
	for _, ci := range m.RemovedContainers() {
		if !binCnr[ci] {
			c.fail("GetGarbage misses removed container c%d", ci)
		}
		for _, id := range m.StoredIn(ci) {
			if !inBin[ci*100+id] {
				c.fail("GetGarbage misses c%d/o%d of a removed container", ci, id)
			}
		}
	}
	for k := range inBin {
		a := mm.Addr{C: k / 100, I: k % 100}
		if m.Mark(a) == mm.MarkNone && !(has(m.RemovedContainers(), a.C) && m.Stored(a)) {
			c.fail("GetGarbage lists %s which carries no garbage mark", a)
		}
	}
}

func keys(m map[int]bool) []int {
	var r []int
	for k := range m {
		r = append(r, k)
	}
	sort.Ints(r)
	return r
}

func TestC01Views(t *testing.T) {
	rec := ev.New("C01", "views")
	defer rec.Flush()
	rapid.Check(t, func(t *rapid.T) {
		cat := mm.CatalogGen(mm.CatalogOpts{}).Draw(t, "catalog")
		dir, cleanup := drv.TempDir("c01-")
		defer cleanup()
		ep := &stor.Epoch{}
		b, err := drv.OpenMetaBackend(dir, ep)
		if err != nil {
			ev.Inconclusive("open metabase: %v", err)
		}
		defer func() { _ = b.Close() }()
		w := drv.NewWorld(cat, b, ep)
		ck := &checker{t: t, w: w, rec: rec}
		defer func() {
			nontrivial := (w.Seen["mark"] || w.Seen["tombstone"] || w.Seen["container-removed"] || w.Seen["delete"]) &&
				(w.Seen["lock"] || w.Seen["child"] || ck.multiReason || (w.Seen["epoch-advance"] && ck.nonAvailSeen)) && ck.nonAvailSeen
			labels := w.Labels()
			if ck.multiReason {
				labels = append(labels, "multi-reason-address")
			}
			if ck.lockOverride {
				labels = append(labels, "lock-overrides-expiry-or-mark")
			}
			if ck.inherit {
				labels = append(labels, "child-inherits-parent-status")
			}
			if nontrivial {
				labels = append(labels, "nontrivial")
			}
			rec.Case(nontrivial, w.Fingerprint(), labels...)
			if nontrivial && rec.WantSample() {
				rec.Sample(map[string]any{"ops": w.Ops})
			}
		}()
		acts := w.Actions()
		acts[""] = func(t *rapid.T) {
			ck.t, ck.db = t, b.DB
			for ci := 0; ci < cat.NC; ci++ {
				for i := 0; i < uni.NObjects; i++ {
					ck.checkAddr(mm.Addr{C: ci, I: i})
				}
				ck.checkContainer(ci)
			}
			ck.checkGlobal()
		}
		t.Repeat(acts)
	})
}

// Package ev is the evidence/side-channel helper shared by all /verif property
// tests. It depends on the standard library only, so that it can be imported
// both from external harness packages and from test files overlaid into
// neofs-node packages.
//
// A property test creates one Recorder per test function, calls Case for every
// generated case (with a fingerprint and whether the case is non-trivial by
// the property's stated rule), optionally Sample/Label, and defers Flush.
// The driver (/verif/check) merges the JSON side-files of all shards into
// /verif/evidence/<ID>.json.
package ev

import (
	"encoding/json"
	"fmt"
	"hash/fnv"
	"os"
	"path/filepath"
	"strconv"
	"sync"
)

const (
	maxHashes  = 300000
	maxSamples = 6
)

// Recorder collects coverage counters of one property test.
type Recorder struct {
	mu       sync.Mutex
	prop     string
	name     string
	evals    int64
	nontriv  int64
	hashes   map[uint64]struct{}
	dropped  int64
	labels   map[string]int64
	samples  []any
	known    map[string]string // fingerprint -> what (seen during this run)
	excluded int64
	extra    map[string]any
}

// New returns a Recorder for property prop (e.g. "C05") and test name.
func New(prop, name string) *Recorder {
	return &Recorder{prop: prop, name: name, hashes: map[uint64]struct{}{}, labels: map[string]int64{},
		known: map[string]string{}, extra: map[string]any{}}
}

// Case records one generated/enumerated case. fingerprint identifies the
// normalised case for distinct counting; nontrivial says whether it satisfies
// the property's non-triviality rule.
func (r *Recorder) Case(nontrivial bool, fingerprint string, labels ...string) {
	r.mu.Lock()
	defer r.mu.Unlock()
	r.evals++
	for _, l := range labels {
		r.labels[l]++
	}
	if !nontrivial {
		return
	}
	r.nontriv++
	h := fnv.New64a()
	h.Write([]byte(fingerprint))
	k := h.Sum64()
	if _, ok := r.hashes[k]; ok {
		return
	}
	if len(r.hashes) >= maxHashes {
		r.dropped++
		return
	}
	r.hashes[k] = struct{}{}
}

// CaseN is Case for bulk enumeration: adds n evaluations without fingerprints.
func (r *Recorder) CaseN(n int64, labels ...string) {
	r.mu.Lock()
	defer r.mu.Unlock()
	r.evals += n
	for _, l := range labels {
		r.labels[l] += n
	}
}

// Label increments a label counter without counting a case.
func (r *Recorder) Label(l string) { r.LabelN(l, 1) }

// LabelN adds n to a label counter.
func (r *Recorder) LabelN(l string, n int64) {
	r.mu.Lock()
	r.labels[l] += n
	r.mu.Unlock()
}

// Sample stores up to maxSamples example cases (anything JSON-marshalable).
func (r *Recorder) Sample(v any) {
	r.mu.Lock()
	defer r.mu.Unlock()
	if len(r.samples) < maxSamples {
		r.samples = append(r.samples, v)
	}
}

// WantSample reports whether more samples are wanted (to avoid formatting cost).
func (r *Recorder) WantSample() bool {
	r.mu.Lock()
	defer r.mu.Unlock()
	return len(r.samples) < maxSamples
}

// Set stores an extra key in the coverage object (e.g. "exhaustive": true).
func (r *Recorder) Set(key string, v any) {
	r.mu.Lock()
	r.extra[key] = v
	r.mu.Unlock()
}

// Excluded counts cases that were excluded by construction because they would
// hit a known finding.
func (r *Recorder) Excluded(n int64) {
	r.mu.Lock()
	r.excluded += n
	r.mu.Unlock()
}

type finding struct {
	Property    string `json:"property"`
	Fingerprint string `json:"fingerprint"`
	Status      string `json:"status"` // "open" or "fixed"
	What        string `json:"what"`
}

var (
	knownOnce sync.Once
	knownList []finding
)

func loadKnown() {
	p := os.Getenv("VERIF_KNOWN")
	if p == "" {
		p = "/verif/known_findings.json"
	}
	b, err := os.ReadFile(p)
	if err != nil {
		return
	}
	var f struct {
		Findings []finding `json:"findings"`
	}
	if json.Unmarshal(b, &f) == nil {
		knownList = f.Findings
	}
}

// Known reports whether (prop, fingerprint) is listed as an OPEN known finding
// in /verif/known_findings.json. When it is, the occurrence is remembered and
// the driver prints one "KNOWN-FINDING:" line for it. The file is never written.
func (r *Recorder) Known(fingerprint string) bool {
	knownOnce.Do(loadKnown)
	for _, f := range knownList {
		if f.Property == r.prop && f.Fingerprint == fingerprint && f.Status == "open" {
			r.mu.Lock()
			r.known[fingerprint] = f.What
			r.mu.Unlock()
			return true
		}
	}
	return false
}

// IsOpen reports whether a finding is listed as open, without recording an
// occurrence (used by generators to exclude a class by construction).
func IsOpen(prop, fingerprint string) bool {
	knownOnce.Do(loadKnown)
	for _, f := range knownList {
		if f.Property == prop && f.Fingerprint == fingerprint && f.Status == "open" {
			return true
		}
	}
	return false
}

type out struct {
	Property   string            `json:"property"`
	Name       string            `json:"name"`
	Evals      int64             `json:"evaluations"`
	Nontrivial int64             `json:"nontrivial_total"`
	Hashes     []string          `json:"hashes"`
	Dropped    int64             `json:"hashes_dropped"`
	Labels     map[string]int64  `json:"labels"`
	Samples    []any             `json:"samples"`
	Known      map[string]string `json:"known"`
	Excluded   int64             `json:"excluded"`
	Extra      map[string]any    `json:"extra"`
}

// Flush writes the side-file into $VERIF_EV_DIR (no-op when unset). It is safe
// to call several times; the last call wins.
func (r *Recorder) Flush() {
	dir := os.Getenv("VERIF_EV_DIR")
	if dir == "" {
		return
	}
	r.mu.Lock()
	defer r.mu.Unlock()
	o := out{Property: r.prop, Name: r.name, Evals: r.evals, Nontrivial: r.nontriv, Dropped: r.dropped,
		Labels: r.labels, Samples: r.samples, Known: r.known, Excluded: r.excluded, Extra: r.extra}
	o.Hashes = make([]string, 0, len(r.hashes))
	for h := range r.hashes {
		o.Hashes = append(o.Hashes, strconv.FormatUint(h, 36))
	}
	b, err := json.Marshal(o)
	if err != nil {
		// samples not marshalable: drop them rather than lose the counters
		o.Samples = []any{fmt.Sprintf("unmarshalable samples: %v", err)}
		b, _ = json.Marshal(o)
	}
	_ = os.MkdirAll(dir, 0o755)
	fn := filepath.Join(dir, fmt.Sprintf("%s.%s.%d.json", r.prop, r.name, os.Getpid()))
	tmp := fn + ".tmp"
	if os.WriteFile(tmp, b, 0o644) == nil {
		_ = os.Rename(tmp, fn)
	}
}

// Tier returns "quick" or "thorough" (env VERIF_TIER, default quick).
func Tier() string {
	if os.Getenv("VERIF_TIER") == "thorough" {
		return "thorough"
	}
	return "quick"
}

// Thorough reports whether the thorough tier is running.
func Thorough() bool { return Tier() == "thorough" }

// Shard returns (k, n): this process is shard k of n (env VERIF_SHARD,
// VERIF_NSHARDS; default 0 of 1). Enumerating tests partition their space by it.
func Shard() (int, int) {
	k, _ := strconv.Atoi(os.Getenv("VERIF_SHARD"))
	n, _ := strconv.Atoi(os.Getenv("VERIF_NSHARDS"))
	if n <= 0 {
		n = 1
	}
	if k < 0 || k >= n {
		k = 0
	}
	return k, n
}

// Seed returns the per-shard seed derived by the driver (env VERIF_SHARD_SEED,
// default 1). Only for non-rapid enumerations that need a deterministic order.
func Seed() int64 {
	s, err := strconv.ParseInt(os.Getenv("VERIF_SHARD_SEED"), 10, 64)
	if err != nil || s == 0 {
		return 1
	}
	return s
}

// Scale returns the integer scale factor the driver passes (env VERIF_SCALE,
// default 1). Non-rapid tests multiply their sizes/counts by it in thorough.
func Scale() int {
	s, _ := strconv.Atoi(os.Getenv("VERIF_SCALE"))
	if s <= 0 {
		return 1
	}
	return s
}

// Inconclusive aborts the test binary with the driver's "inconclusive" exit
// code: a harness / environment problem, never a property violation.
func Inconclusive(format string, a ...any) {
	fmt.Printf("VERIF-INCONCLUSIVE: "+format+"\n", a...)
	os.Exit(3)
}

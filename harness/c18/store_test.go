package c18

import (
	"fmt"
	"io"

	"github.com/nspcc-dev/neofs-node/pkg/local_object_storage/blobstor/common"
	apistatus "github.com/nspcc-dev/neofs-sdk-go/client/status"
	"github.com/nspcc-dev/neofs-sdk-go/object"
	oid "github.com/nspcc-dev/neofs-sdk-go/object/id"
)

// blob is one stored object of the fake blob storage.
type blob struct {
	addr oid.Address
	data []byte
}

// orderedStore is a common.Storage whose Iterate yields its blobs in exactly
// the order of the slice. DB.ResyncFromBlobstor uses ShardID and Iterate only
// (metabase/control.go); every other method fails loudly if it is ever called.
type orderedStore struct {
	blobs []blob
	id    common.ID
	// inner, when set, is a real storage the bytes are read from at iteration
	// time (shard-level variant): the order is ours, the bytes are the real ones.
	inner common.Storage
}

var _ common.Storage = (*orderedStore)(nil)

func (s *orderedStore) unused(m string) error {
	panic("c18: resync called common.Storage." + m + ", the fake blob storage does not implement it")
}

func (s *orderedStore) Open(bool) error      { return nil }
func (s *orderedStore) Init(common.ID) error { return nil }
func (s *orderedStore) Close() error         { return nil }
func (s *orderedStore) Type() string         { return "c18-ordered" }
func (s *orderedStore) Path() string         { return "" }
func (s *orderedStore) ShardID() common.ID   { return s.id }

func (s *orderedStore) Iterate(h func(oid.Address, []byte) error, eh func(oid.Address, error) error) error {
	for _, b := range s.blobs {
		data := b.data
		if s.inner != nil {
			var err error
			data, err = s.inner.GetBytes(b.addr)
			if err != nil {
				if eh != nil {
					if err = eh(b.addr, err); err != nil {
						return err
					}
					continue
				}
				return fmt.Errorf("read %s: %w", b.addr, err)
			}
		}
		if err := h(b.addr, data); err != nil {
			return err
		}
	}
	return nil
}

func (s *orderedStore) IterateAddresses(func(oid.Address) error, bool) error {
	return s.unused("IterateAddresses")
}
func (s *orderedStore) GetBytes(oid.Address) ([]byte, error) { return nil, s.unused("GetBytes") }
func (s *orderedStore) Get(oid.Address) (*object.Object, error) {
	return nil, s.unused("Get")
}
func (s *orderedStore) GetRangeStream(oid.Address, common.PayloadRange, bool) (*object.Object, uint64, io.ReadCloser, error) {
	return nil, 0, nil, s.unused("GetRangeStream")
}
func (s *orderedStore) GetStream(oid.Address) (*object.Object, io.ReadCloser, error) {
	return nil, nil, s.unused("GetStream")
}
func (s *orderedStore) Head(oid.Address) (*object.Object, error) { return nil, s.unused("Head") }
func (s *orderedStore) ReadHeader(oid.Address, []byte) (int, error) {
	return 0, s.unused("ReadHeader")
}
func (s *orderedStore) ReadObject(oid.Address, []byte) (int, io.ReadCloser, error) {
	return 0, nil, s.unused("ReadObject")
}
func (s *orderedStore) ReadPayloadRange(oid.Address, uint64, uint64, []byte, func([]byte) error) (io.ReadCloser, error) {
	return nil, s.unused("ReadPayloadRange")
}
func (s *orderedStore) ReadObjectParts([]byte, oid.Address, common.PayloadRange, func([]byte) error) (int, io.ReadCloser, error) {
	return 0, nil, s.unused("ReadObjectParts")
}
func (s *orderedStore) Exists(oid.Address) (bool, error)      { return false, s.unused("Exists") }
func (s *orderedStore) Put(oid.Address, []byte) error         { return s.unused("Put") }
func (s *orderedStore) PutBatch(map[oid.Address][]byte) error { return s.unused("PutBatch") }
func (s *orderedStore) Delete(oid.Address) error              { return apistatus.ErrObjectNotFound }

// Package c18 decides property C18: rebuilding a shard's metadata from its
// blob storage (meta.DB.ResyncFromBlobstor) gives every object the same status
// whatever order the blobs are read in, the status follows from the stored
// objects, and afterwards GC can reclaim the payload of every removed object.
package c18

import (
	"encoding/json"
	"fmt"
	"sort"

	"github.com/nspcc-dev/neofs-node/verifharness/uni"
	"github.com/nspcc-dev/neofs-sdk-go/object"
	oid "github.com/nspcc-dev/neofs-sdk-go/object/id"
	"pgregory.net/rapid"
)

// Roles of the members of a family.
const (
	rPlain  = "plain"    // a regular object without relations (the family root itself)
	rFirst  = "v2-first" // first child of a v2 split chain (no parent info)
	rMid    = "v2-mid"   // middle child: first ID only
	rLast   = "v2-last"  // last child: first ID + parent header
	rLink   = "v2-link"  // link object: first ID + parent header
	rV1Mid  = "v1-mid"   // v1 child: split ID only
	rV1Last = "v1-last"  // v1 last child: split ID + parent header
	rEC     = "ec"       // EC part: parent header
	rTomb   = "tomb"
	rLock   = "lock"
)

// Member is one stored object.
type Member struct {
	Spec uni.Spec `json:"spec"`
	Fam  int      `json:"fam"`
	Role string   `json:"role"`
}

// Family is a root address (a plain object or the parent of a split/EC object)
// with the stored objects related to it.
type Family struct {
	Cnr     int    `json:"cnr"`
	Root    int    `json:"root"`
	Form    string `json:"form"` // plain | v2 | v1 | ec
	RootExp int    `json:"root_exp"`
}

// Set is a generated case: the stored objects and the epochs.
type Set struct {
	Members  []Member `json:"members"`
	Families []Family `json:"families"`
	// Er is the epoch during the rebuild (0: what neofs-lancet uses), Eq the
	// epoch at which statuses are read afterwards (Eq >= Er).
	Er int `json:"resync_epoch"`
	Eq int `json:"query_epoch"`
	// excluded counts draws re-targeted because they would hit an open known finding.
	excluded int
}

func (s Set) String() string {
	b, _ := json.Marshal(s)
	return string(b)
}

// Short renders the set compactly for failure messages.
func (s Set) Short() string {
	r := fmt.Sprintf("resync@%d read@%d:", s.Er, s.Eq)
	for i, m := range s.Members {
		r += fmt.Sprintf("\n  [%d] fam%d %-8s %s", i, m.Fam, m.Role, m.Spec.String())
	}
	return r
}

func (m Member) addr() oid.Address { return uni.Addr(m.Spec.Cnr, m.Spec.ID) }

func (m Member) build() *object.Object { return uni.Build(m.Spec) }

// carriesParent reports whether the member carries the header of the family root.
func (m Member) carriesParent() bool {
	return m.Spec.Parent >= 0 && !m.Spec.NoParentHeader
}

func expiredAt(exp, epoch int) bool { return exp >= 0 && epoch > exp }

type genCfg struct {
	// allowLT: families may have both a LOCK and a TOMBSTONE (order-dependent by semantics).
	allowLT bool
	minN    int
	maxN    int
	cnrs    int
	// noExpiredParent: known finding fpExpParent is open, do not generate its class.
	noExpiredParent bool
	// forceTomb: the first family has a stored member and at least one tombstone.
	forceTomb bool
}

func blank(kind string, c, id int) uni.Spec {
	return uni.Spec{Kind: kind, Cnr: c, ID: id, Exp: -1, Parent: -1, ParentExp: -1, First: -1}
}

// genSet draws a set.
func genSet(t *rapid.T, cfg genCfg) Set {
	var s Set
	s.Eq = rapid.IntRange(0, uni.MaxEpoch).Draw(t, "read-epoch")
	if rapid.Bool().Draw(t, "resync-at-epoch-0") {
		s.Er = 0
	} else {
		s.Er = s.Eq
	}
	target := rapid.IntRange(cfg.minN, cfg.maxN).Draw(t, "n")

	perms := make([][]int, cfg.cnrs)
	next := make([]int, cfg.cnrs)
	usedSplit := make([]int, cfg.cnrs)
	for c := range perms {
		perms[c] = rapid.Permutation([]int{0, 1, 2, 3, 4, 5, 6, 7, 8, 9, 10, 11}).Draw(t, fmt.Sprintf("ids%d", c))
	}
	alloc := func(c int) int {
		if next[c] >= len(perms[c]) {
			return -1
		}
		next[c]++
		return perms[c][next[c]-1]
	}
	room := func(c, k int) bool { return next[c]+k <= len(perms[c]) }
	exp := func(label string) int {
		if rapid.IntRange(0, 1).Draw(t, label+"-has") == 0 {
			return -1
		}
		return rapid.IntRange(0, uni.MaxEpoch).Draw(t, label)
	}
	add := func(fam int, role string, sp uni.Spec) {
		sp.PayloadLen = rapid.SampledFrom([]int{0, 1, 16}).Draw(t, "len")
		if sp.Kind == uni.Tombstone || sp.Kind == uni.Lock {
			sp.PayloadLen = 0
		}
		if sp.Parent >= 0 {
			sp.ParentLen = 32
		}
		s.Members = append(s.Members, Member{Spec: sp, Fam: fam, Role: role})
	}

	for fi := 0; len(s.Members) < target && fi < 6; fi++ {
		c := rapid.IntRange(0, cfg.cnrs-1).Draw(t, "cnr")
		if !room(c, 6) {
			break
		}
		form := rapid.SampledFrom([]string{"plain", "plain", "v2", "v2", "v1", "ec"}).Draw(t, "form")
		if form == "v1" && usedSplit[c] >= 3 {
			form = "v2" // split IDs are unique per split object; the universe has three
		}
		f := Family{Cnr: c, Root: alloc(c), Form: form, RootExp: exp("root-exp")}
		fam := len(s.Families)
		s.Families = append(s.Families, f)
		var targets []int     // IDs a tombstone may target (root first)
		var lockTargets []int // IDs a lock may target (regular-typed only)
		targets = append(targets, f.Root)
		lockTargets = append(lockTargets, f.Root)
		child := func(role string, sp uni.Spec, lockable bool) {
			add(fam, role, sp)
			targets = append(targets, sp.ID)
			if lockable {
				lockTargets = append(lockTargets, sp.ID)
			}
		}
		withParent := func(sp uni.Spec) uni.Spec {
			sp.Parent, sp.ParentExp = f.Root, f.RootExp
			return sp
		}
		switch form {
		case "plain":
			if rapid.IntRange(0, 5).Draw(t, "stored") > 0 || cfg.forceTomb && fi == 0 {
				sp := blank(uni.Regular, c, f.Root)
				sp.Exp = f.RootExp
				add(fam, rPlain, sp)
			}
		case "v2":
			first := alloc(c)
			pick := rapid.IntRange(1, 15).Draw(t, "v2-parts") // bit set of first/mid/last/link
			if pick&0b1100 == 0 && (cfg.forceTomb && fi == 0 || rapid.IntRange(0, 5).Draw(t, "force-carrier") > 0) {
				pick |= 0b0100
			}
			if pick&1 != 0 {
				child(rFirst, blank(uni.ChildV2, c, first), true)
			}
			if pick&2 != 0 {
				sp := blank(uni.ChildV2, c, alloc(c))
				sp.First = first
				child(rMid, sp, true)
			}
			if pick&4 != 0 {
				sp := withParent(blank(uni.ChildV2, c, alloc(c)))
				sp.First, sp.Last = first, true
				child(rLast, sp, true)
			}
			if pick&8 != 0 {
				sp := withParent(blank(uni.Link, c, alloc(c)))
				sp.First = first
				child(rLink, sp, false)
			}
		case "v1":
			pick := rapid.IntRange(1, 3).Draw(t, "v1-parts")
			if cfg.forceTomb && fi == 0 {
				pick |= 2
			}
			split := usedSplit[c]
			usedSplit[c]++
			if pick&1 != 0 {
				sp := blank(uni.ChildV1, c, alloc(c))
				sp.Split = split
				child(rV1Mid, sp, true)
			}
			if pick&2 != 0 {
				sp := withParent(blank(uni.ChildV1, c, alloc(c)))
				sp.Split, sp.Last = split, true
				child(rV1Last, sp, true)
			}
		case "ec":
			n := rapid.IntRange(1, 3).Draw(t, "ec-parts")
			for i := 0; i < n; i++ {
				sp := withParent(blank(uni.ECPart, c, alloc(c)))
				sp.PartIdx = i
				child(rEC, sp, true)
			}
		}
		if cfg.noExpiredParent && len(s.expiredParentFamilies()) > 0 {
			// excluded by construction: the parent header does not expire
			s.excluded++
			s.Families[fam].RootExp = -1
			f.RootExp = -1
			for i := range s.Members {
				if s.Members[i].Fam == fam && s.Members[i].Spec.Parent >= 0 {
					s.Members[i].Spec.ParentExp = -1
				}
			}
		}
		// some children carry their own expiration
		for i := range s.Members {
			if s.Members[i].Fam == fam && s.Members[i].Role != rPlain && rapid.IntRange(0, 4).Draw(t, "child-own-exp") == 0 {
				s.Members[i].Spec.Exp = rapid.IntRange(0, uni.MaxEpoch).Draw(t, "child-exp")
			}
		}

		nT := rapid.SampledFrom([]int{0, 0, 0, 1, 1, 1, 1, 2}).Draw(t, "ntomb")
		nL := rapid.SampledFrom([]int{0, 0, 0, 0, 1, 1, 1, 2}).Draw(t, "nlock")
		if cfg.forceTomb && fi == 0 {
			nT = max(nT, 1)
			if !cfg.allowLT {
				nL = 0
			}
		}
		if nT > 0 && nL > 0 && !cfg.allowLT {
			if rapid.Bool().Draw(t, "keep-tomb") {
				nL = 0
			} else {
				nT = 0
			}
		}
		// Tombstones and locks target the family root only (the plain object or the
		// split/EC parent): that is what DELETE / LOCK of a user object produce.
		// Parts targeted individually are left to C01.
		_ = targets
		_ = lockTargets
		for i := 0; i < nT && room(c, 1); i++ {
			sp := blank(uni.Tombstone, c, alloc(c))
			sp.Target = f.Root
			// A tombstone may already be over (exp < epoch) while GC has collected
			// neither it nor its target: it is still a stored tombstone, the metabase
			// indexes and applies it (its own expiration is never consulted for the
			// target's status) and GC reclaims the target.
			switch rapid.IntRange(0, 3).Draw(t, "tomb-exp-kind") {
			case 0:
			case 1:
				sp.Exp = rapid.IntRange(s.Eq, uni.MaxEpoch).Draw(t, "tomb-exp") // live when statuses are read
			default:
				sp.Exp = rapid.IntRange(0, uni.MaxEpoch).Draw(t, "tomb-exp-any")
			}
			add(fam, rTomb, sp)
		}
		for i := 0; i < nL && room(c, 1); i++ {
			sp := blank(uni.Lock, c, alloc(c))
			sp.Target = f.Root
			sp.Exp = exp("lock-exp")
			add(fam, rLock, sp)
		}
	}
	return s
}

// ---- structural facts about a set (no metabase involved) ----

type facts struct {
	tombOn map[oid.Address]bool  // address targeted by a stored tombstone
	lockOn map[oid.Address][]int // address -> expirations of the stored locks targeting it
	famT   map[int]bool          // family has a tombstone
	famL   map[int]bool          // family has a lock
	stored map[oid.Address]Member
}

func (s Set) facts() facts {
	f := facts{tombOn: map[oid.Address]bool{}, lockOn: map[oid.Address][]int{}, famT: map[int]bool{}, famL: map[int]bool{},
		stored: map[oid.Address]Member{}}
	for _, m := range s.Members {
		f.stored[m.addr()] = m
		switch m.Role {
		case rTomb:
			f.tombOn[uni.Addr(m.Spec.Cnr, m.Spec.Target)] = true
			f.famT[m.Fam] = true
		case rLock:
			a := uni.Addr(m.Spec.Cnr, m.Spec.Target)
			f.lockOn[a] = append(f.lockOn[a], m.Spec.Exp)
			f.famL[m.Fam] = true
		}
	}
	return f
}

// isLT reports whether some family has both a lock and a tombstone.
func (s Set) isLT() bool {
	f := s.facts()
	for fam := range f.famT {
		if f.famL[fam] {
			return true
		}
	}
	return false
}

// interest returns every address whose status is observed: stored objects,
// family roots and association targets; ascending.
func (s Set) interest() []oid.Address {
	seen := map[oid.Address]bool{}
	var res []oid.Address
	add := func(a oid.Address) {
		if !seen[a] {
			seen[a] = true
			res = append(res, a)
		}
	}
	for _, f := range s.Families {
		add(uni.Addr(f.Cnr, f.Root))
	}
	for _, m := range s.Members {
		add(m.addr())
		if m.Role == rTomb || m.Role == rLock {
			add(uni.Addr(m.Spec.Cnr, m.Spec.Target))
		}
		if m.Spec.First >= 0 {
			add(uni.Addr(m.Spec.Cnr, m.Spec.First))
		}
	}
	sort.Slice(res, func(i, j int) bool { return res[i].Compare(res[j]) < 0 })
	return res
}

// relatedPair reports whether the set has a tombstone or lock together with a
// stored object it acts on: the target itself, or a stored object carrying the
// header of the targeted parent (rule of non-triviality).
func (s Set) relatedPair() bool {
	f := s.facts()
	for _, m := range s.Members {
		if m.Role != rTomb && m.Role != rLock {
			continue
		}
		ta := uni.Addr(m.Spec.Cnr, m.Spec.Target)
		if _, ok := f.stored[ta]; ok {
			return true
		}
		for _, o := range s.Members {
			if o.Spec.Cnr == m.Spec.Cnr && o.Spec.Parent == m.Spec.Target && o.Role != rTomb && o.Role != rLock {
				return true
			}
		}
	}
	return false
}

// Known-finding fingerprints (root-cause classes), see /verif/known_findings.json.
const (
	// History: "C18:resync-tombstone-before-children-of-removed-parent" (fixed in
	// /repo 775d780: resync puts tombstones after all other objects) – a tombstone
	// of a split/EC parent read before a part carrying the parent header made
	// PutBatch skip the part (never indexed, no garbage mark). No guard remains:
	// the class is generated and asserted.
	// Rebuild with a live epoch source: the header of an already expired parent
	// is indexed with the first part that carries it, every later part carrying
	// it is refused ("object is expired") and skipped: never indexed, no garbage
	// mark, which part survives depends on the blob order.
	fpExpParent = "C18:resync-live-epoch-expired-parent-skips-later-parts"
)

// expiredParentFamilies returns the families with a parent header that is
// expired at the rebuild epoch and carried by at least two stored parts.
func (s Set) expiredParentFamilies() map[int]bool {
	res := map[int]bool{}
	for i, f := range s.Families {
		if f.Form == "plain" || !expiredAt(f.RootExp, s.Er) {
			continue
		}
		n := 0
		for _, m := range s.Members {
			if m.Fam == i && m.carriesParent() {
				n++
			}
		}
		if n >= 2 {
			res[i] = true
		}
	}
	return res
}

// famOf maps every address of interest to its family (-1: none).
func (s Set) famOf(a oid.Address) int {
	for _, m := range s.Members {
		if m.addr() == a {
			return m.Fam
		}
	}
	for i, f := range s.Families {
		if uni.Addr(f.Cnr, f.Root) == a {
			return i
		}
	}
	for _, m := range s.Members {
		if m.Spec.First >= 0 && uni.Addr(m.Spec.Cnr, m.Spec.First) == a {
			return m.Fam
		}
	}
	return -1
}

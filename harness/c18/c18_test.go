package c18

import (
	"errors"
	"fmt"
	"os"
	"path/filepath"
	"slices"
	"sort"
	"strings"
	"testing"
	"time"

	"github.com/nspcc-dev/bbolt"
	iec "github.com/nspcc-dev/neofs-node/internal/ec"
	ierrors "github.com/nspcc-dev/neofs-node/internal/errors"
	"github.com/nspcc-dev/neofs-node/pkg/local_object_storage/blobstor/fstree"
	meta "github.com/nspcc-dev/neofs-node/pkg/local_object_storage/metabase"
	"github.com/nspcc-dev/neofs-node/verifharness/ev"
	"github.com/nspcc-dev/neofs-node/verifharness/stor"
	"github.com/nspcc-dev/neofs-node/verifharness/uni"
	apistatus "github.com/nspcc-dev/neofs-sdk-go/client/status"
	"github.com/nspcc-dev/neofs-sdk-go/object"
	oid "github.com/nspcc-dev/neofs-sdk-go/object/id"
	"pgregory.net/rapid"
)

// fastBolt: no fsync on tmpfs, no re-mapping while the file grows (munmap is
// expensive on a busy many-core machine). Does not change what is stored.
func fastBolt() meta.Option {
	return meta.WithBoltDBOptions(&bbolt.Options{Timeout: time.Second, InitialMmapSize: 4 << 20, NoSync: true, NoGrowSync: true})
}

// ---- observation ----

// Status classes of one address.
const (
	stAvailable = "available"
	stAbsent    = "absent" // nothing known under the address
	stRemoved   = "removed"
	stExpired   = "expired"
	stGarbage   = "gc-marked"
	stParent    = "parent"
)

func fmtID(id oid.ID) string {
	if id.IsZero() {
		return "-"
	}
	for i := 0; i < uni.NObjects; i++ {
		if uni.OID(i) == id {
			return fmt.Sprintf("o%d", i)
		}
	}
	return id.String()
}

func fmtAddr(a oid.Address) string {
	c, i := uni.Index(a)
	return fmt.Sprintf("c%d/o%d", c, i)
}

// classify turns the result of DB.Exists into a status class.
func classify(ok bool, err error) string {
	switch {
	case err == nil && ok:
		return stAvailable
	case err == nil:
		return stAbsent
	case errors.Is(err, apistatus.ErrObjectAlreadyRemoved):
		return stRemoved
	case errors.Is(err, meta.ErrObjectIsExpired):
		return stExpired
	case errors.Is(err, apistatus.ErrObjectNotFound):
		return stGarbage
	case errors.Is(err, ierrors.ErrParentObject):
		var si *object.SplitInfoError
		if errors.As(err, &si) {
			i := si.SplitInfo()
			sid := "-"
			if s := i.SplitID(); s != nil {
				sid = s.String()[:4]
			}
			return fmt.Sprintf("%s(split first=%s last=%s link=%s sid=%s)", stParent, fmtID(i.GetFirstPart()), fmtID(i.GetLastPart()), fmtID(i.GetLink()), sid)
		}
		var parts iec.ErrParts
		if errors.As(err, &parts) {
			var ids []string
			for _, p := range parts {
				ids = append(ids, fmtID(p))
			}
			sort.Strings(ids)
			return fmt.Sprintf("%s(ec %s)", stParent, strings.Join(ids, ","))
		}
		return stParent + "(?)"
	}
	return "error: " + err.Error()
}

// Obs is what is observed about one address after a rebuild.
type Obs struct {
	Class   string
	Locked  bool
	Garbage bool // GetGarbage lists it: GC will delete its payload
}

func (o Obs) String() string {
	r := o.Class
	if o.Locked {
		r += "+locked"
	}
	if o.Garbage {
		r += "+in-garbage-list"
	}
	return r
}

func observe(db *meta.DB, addrs []oid.Address) ([]Obs, error) {
	bins, err := db.GetGarbage(100000)
	if err != nil {
		return nil, fmt.Errorf("GetGarbage: %w", err)
	}
	garbage := map[oid.Address]bool{}
	for _, b := range bins {
		for _, id := range b.Objects {
			garbage[oid.NewAddress(b.Container, id)] = true
		}
	}
	res := make([]Obs, len(addrs))
	for i, a := range addrs {
		ok, err := db.Exists(a, false)
		res[i].Class = classify(ok, err)
		res[i].Locked, err = db.IsLocked(a)
		if err != nil {
			return nil, fmt.Errorf("IsLocked(%s): %w", fmtAddr(a), err)
		}
		res[i].Garbage = garbage[a]
	}
	return res, nil
}

// stBoth is the class of an object that is BOTH expired at the read epoch and
// targeted by a tombstone: "removed" and "expired" both follow from the stored
// objects, which of the two refusals the metabase reports is not asserted.
const stBoth = "removed-or-expired"

// normalise folds removed/expired of such objects into stBoth.
func normalise(s Set, f facts, addrs []oid.Address, v []Obs) {
	for i, a := range addrs {
		if v[i].Class != stRemoved && v[i].Class != stExpired {
			continue
		}
		m, ok := f.stored[a]
		if !ok {
			continue
		}
		fam := s.Families[m.Fam]
		root := uni.Addr(fam.Cnr, fam.Root)
		direct := m.Spec.Parent == fam.Root && fam.Form != "plain"
		removed := f.tombOn[a] || direct && f.tombOn[root]
		expired := expiredAt(m.Spec.Exp, s.Eq) || direct && expiredAt(fam.RootExp, s.Eq)
		if removed && expired {
			v[i].Class = stBoth
		}
	}
}

func fmtVec(addrs []oid.Address, v []Obs) string {
	var b strings.Builder
	for i := range addrs {
		fmt.Fprintf(&b, "\n    %s: %v", fmtAddr(addrs[i]), v[i])
	}
	return b.String()
}

// ---- orders ----

func allPerms(n int) [][]int {
	var res [][]int
	p := make([]int, n)
	for i := range p {
		p[i] = i
	}
	var rec func(k int)
	rec = func(k int) {
		if k == n {
			res = append(res, slices.Clone(p))
			return
		}
		for i := k; i < n; i++ {
			p[k], p[i] = p[i], p[k]
			rec(k + 1)
			p[k], p[i] = p[i], p[k]
		}
	}
	rec(0)
	return res
}

// sampledPerms returns identity, reverse and k-2 permutations derived from seed
// (a rapid draw) with splitmix64: deterministic and replayable.
func sampledPerms(n, k int, seed uint64) [][]int {
	id := make([]int, n)
	for i := range id {
		id[i] = i
	}
	rev := slices.Clone(id)
	slices.Reverse(rev)
	res := [][]int{id, rev}
	x := seed
	next := func() uint64 {
		x += 0x9e3779b97f4a7c15
		z := x
		z = (z ^ (z >> 30)) * 0xbf58476d1ce4e5b9
		z = (z ^ (z >> 27)) * 0x94d049bb133111eb
		return z ^ (z >> 31)
	}
	for len(res) < k {
		p := slices.Clone(id)
		for i := n - 1; i > 0; i-- {
			j := int(next() % uint64(i+1))
			p[i], p[j] = p[j], p[i]
		}
		res = append(res, p)
	}
	return res
}

func blobsOf(s Set) []blob {
	res := make([]blob, len(s.Members))
	for i, m := range s.Members {
		res[i] = blob{addr: m.addr(), data: m.build().Marshal()}
	}
	return res
}

func permuted(blobs []blob, p []int) []blob {
	res := make([]blob, len(p))
	for i, k := range p {
		res[i] = blobs[k]
	}
	return res
}

func strictErr(a oid.Address, err error) error {
	return fmt.Errorf("blob %s: %w", fmtAddr(a), err)
}

// ---- expectation that "follows from the stored objects" (oracle 2) ----

// expected returns the allowed status classes of a stored object and whether
// IsLocked is determined (and its value); ok=false when the model does not
// claim anything (relations it deliberately leaves to C01).
func expected(s Set, f facts, m Member) (classes []string, locked, ok bool) {
	if f.famT[m.Fam] && f.famL[m.Fam] {
		return nil, false, false // lock and tombstone in one family: order-dependent by semantics
	}
	fam := s.Families[m.Fam]
	root := uni.Addr(fam.Cnr, fam.Root)
	switch m.Role {
	case rTomb:
		if expiredAt(m.Spec.Exp, s.Eq) {
			return []string{stExpired}, false, true
		}
		return []string{stAvailable}, false, true
	case rLock:
		if expiredAt(m.Spec.Exp, s.Eq) {
			return []string{stExpired}, false, true
		}
		return []string{stAvailable}, false, true
	}
	direct := m.Spec.Parent == fam.Root || m.Role == rPlain // tied to the root by its own header
	if !direct && fam.Form != "plain" {
		// first/middle children are tied to the parent only through other stored
		// parts: their inherited status is not claimed here
		if f.tombOn[root] || expiredAt(fam.RootExp, s.Eq) || len(f.lockOn[root]) > 0 {
			return nil, false, false
		}
	}
	removed := f.tombOn[m.addr()] || (direct && m.Role != rPlain && f.tombOn[root])
	expired := expiredAt(m.Spec.Exp, s.Eq) || (direct && m.Role != rPlain && expiredAt(fam.RootExp, s.Eq))
	for _, e := range f.lockOn[m.addr()] {
		if !expiredAt(e, s.Eq) {
			locked = true
		}
	}
	switch {
	case removed && expired:
		return []string{stBoth}, false, true
	case removed:
		return []string{stRemoved}, false, true
	case expired:
		if f.famL[m.Fam] {
			return nil, false, false // a lock somewhere in the family may keep it
		}
		return []string{stExpired}, false, true
	}
	return []string{stAvailable}, locked, true
}

// ---- the metabase-level check ----

func labelsOf(s Set) []string {
	l := []string{fmt.Sprintf("n-%d", len(s.Members))}
	if s.Er == 0 {
		l = append(l, "resync-epoch-0")
	} else {
		l = append(l, "resync-epoch-live")
	}
	f := s.facts()
	if len(f.famT) > 0 {
		l = append(l, "has-tombstone")
	}
	for _, m := range s.Members {
		if m.Role == rTomb && s.Er > 0 && expiredAt(m.Spec.Exp, s.Er) {
			l = append(l, "tombstone-expired-at-rebuild-epoch")
		} else if m.Role == rTomb && expiredAt(m.Spec.Exp, s.Eq) {
			l = append(l, "tombstone-expired-at-read-epoch-only")
		}
	}
	if len(f.famL) > 0 {
		l = append(l, "has-lock")
	}
	if s.isLT() {
		l = append(l, "class-lock-and-tombstone")
	}
	for _, fam := range s.Families {
		l = append(l, "form-"+fam.Form)
	}
	slices.Sort(l)
	return slices.Compact(l)
}

func checkSet(t *rapid.T, rec *ev.Recorder, s Set, db, db2 *meta.DB, ep *stor.Epoch, perms [][]int) {
	blobs := blobsOf(s)
	addrs := s.interest()
	lt := s.isLT()
	f := s.facts()
	var base []Obs
	resurrected := false
	for pi, p := range perms {
		ep.Set(uint64(s.Er))
		if err := db.ResyncFromBlobstor(&orderedStore{blobs: permuted(blobs, p)}, strictErr); err != nil {
			t.Fatalf("resync failed in blob order %v: %v\n%s", p, err, s.Short())
		}
		ep.Set(uint64(s.Eq))
		v, err := observe(db, addrs)
		if err != nil {
			t.Fatalf("observe after blob order %v: %v\n%s", p, err, s.Short())
		}
		normalise(s, f, addrs, v)
		if lt && !resurrected {
			// report only: a stored object whose tombstone is live and whose locks are
			// all expired at the read epoch is nevertheless available after the rebuild
			for i, a := range addrs {
				m, stored := f.stored[a]
				if !stored || m.Role != rPlain || !f.tombOn[a] || v[i].Class != stAvailable {
					continue
				}
				live := false
				for _, e := range f.lockOn[a] {
					live = live || !expiredAt(e, s.Eq)
				}
				if !live {
					resurrected = true
					rec.Label("lock-and-tombstone:TOMBSTONED-OBJECT-AVAILABLE-AFTER-ALL-LOCKS-EXPIRED")
				}
			}
		}
		if pi == 0 {
			base = v
			continue
		}
		if !slices.Equal(base, v) {
			var diff []string
			xp, onlyXP := s.expiredParentFamilies(), true
			for i := range addrs {
				if base[i] != v[i] {
					diff = append(diff, fmt.Sprintf("%s: %v (order %v) vs %v (order %v)", fmtAddr(addrs[i]), base[i], perms[0], v[i], p))
					if !xp[s.famOf(addrs[i])] {
						onlyXP = false
					}
				}
			}
			if onlyXP && rec.Known(fpExpParent) {
				rec.Label("known:" + fpExpParent)
				return
			}
			t.Fatalf("statuses depend on the blob order:\n  %s\n%s", strings.Join(diff, "\n  "), s.Short())
		}
	}
	rec.LabelN("resyncs", int64(len(perms)))
	if lt {
		// Order independence (1) is asserted for this class like for any other
		// (since /repo 775d780 tombstones are put last, so a lock indexed by the
		// rebuild always precedes the tombstone of its target). WHICH status follows
		// from a LOCK and a TOMBSTONE of one target stays unasserted (ambiguous, see
		// checks.d/C18.json): oracles (2) and (3) are skipped.
		rec.Label("lock-and-tombstone:order-independent")
		return
	}

	// (2) the vector follows from the stored objects
	idx := map[oid.Address]int{}
	for i, a := range addrs {
		idx[a] = i
	}
	for _, m := range s.Members {
		classes, locked, ok := expected(s, f, m)
		if !ok {
			rec.Label("model-silent-member")
			continue
		}
		got := base[idx[m.addr()]]
		if !slices.Contains(classes, got.Class) {
			t.Fatalf("%s (%s %s): status after rebuild is %q, the stored objects imply %q\nall statuses:%s\n%s",
				fmtAddr(m.addr()), m.Role, m.Spec.String(), got, classes, fmtVec(addrs, base), s.Short())
		}
		if m.Role != rTomb && m.Role != rLock && (classes[0] == stRemoved || classes[0] == stBoth) && !got.Garbage {
			t.Fatalf("%s (%s): removed by a stored tombstone but not in the garbage list after rebuild: GC cannot reclaim it\nall statuses:%s\n%s",
				fmtAddr(m.addr()), m.Role, fmtVec(addrs, base), s.Short())
		}
		if len(classes) == 1 && classes[0] == stAvailable && got.Locked != locked {
			t.Fatalf("%s (%s): IsLocked=%v after rebuild, the stored objects imply %v\nall statuses:%s\n%s",
				fmtAddr(m.addr()), m.Role, got.Locked, locked, fmtVec(addrs, base), s.Short())
		}
	}

	// (3) incremental construction by Put in any order that succeeds entirely
	incr := perms
	if len(incr) > 6 {
		incr = append(slices.Clone(perms[:2]), perms[len(perms)-4:]...)
	}
	for _, p := range incr {
		if err := db2.Reset(); err != nil {
			t.Fatalf("setup: reset: %v", err)
		}
		ep.Set(uint64(s.Er))
		complete := true
		for _, k := range p {
			if err := db2.Put(s.Members[k].build()); err != nil {
				complete = false
				break
			}
		}
		if !complete {
			rec.Label("incremental-order-rejected-something")
			continue
		}
		rec.Label("incremental-order-complete")
		ep.Set(uint64(s.Eq))
		v, err := observe(db2, addrs)
		if err != nil {
			t.Fatalf("observe after incremental puts %v: %v", p, err)
		}
		normalise(s, f, addrs, v)
		// Status and lock state are compared; whether the address is in the garbage
		// list is not: a part tied to its parent only by the first/split ID that is
		// put AFTER the parent's tombstone is accepted and inherits "removed" but
		// gets no garbage mark (incremental puts are order-dependent there, which
		// is C44's subject); reclaimability after a rebuild is checked by TestC18ShardGC.
		same := true
		for i := range addrs {
			if base[i].Class != v[i].Class || base[i].Locked != v[i].Locked {
				same = false
			}
		}
		if !same {
			var diff []string
			for i := range addrs {
				if base[i] != v[i] {
					diff = append(diff, fmt.Sprintf("%s: rebuilt %v, incremental %v", fmtAddr(addrs[i]), base[i], v[i]))
				}
			}
			t.Fatalf("rebuild differs from incremental puts in order %v (all accepted):\n  %s\n%s", p, strings.Join(diff, "\n  "), s.Short())
		}
	}
}

func openTwo(t *rapid.T, ep *stor.Epoch) (dir string, db, db2 *meta.DB) {
	dir, err := os.MkdirTemp("", "c18")
	if err != nil {
		ev.Inconclusive("mkdtemp: %v", err)
	}
	db, err = stor.OpenMeta(filepath.Join(dir, "meta"), ep, fastBolt())
	if err != nil {
		os.RemoveAll(dir)
		t.Fatalf("setup: open metabase: %v", err)
	}
	db2, err = stor.OpenMeta(filepath.Join(dir, "meta2"), ep, fastBolt())
	if err != nil {
		db.Close()
		os.RemoveAll(dir)
		t.Fatalf("setup: open metabase: %v", err)
	}
	return dir, db, db2
}

// TestC18Resync: fake blob storage, every permutation for n <= 6, 200 sampled above.
func TestC18Resync(t *testing.T) {
	rec := ev.New("C18", "resync")
	defer rec.Flush()
	rapid.Check(t, func(t *rapid.T) {
		s := genSet(t, genCfg{allowLT: rapid.IntRange(0, 3).Draw(t, "lt-class") == 0, minN: 2, maxN: 8, cnrs: 2,
			noExpiredParent: ev.IsOpen("C18", fpExpParent)})
		rec.Excluded(int64(s.excluded))
		n := len(s.Members)
		if n < 2 {
			rec.Case(false, s.String(), "too-small")
			return
		}
		var perms [][]int
		if n <= 6 {
			perms = allPerms(n)
		} else {
			perms = sampledPerms(n, 200, rapid.Uint64().Draw(t, "perm-seed"))
		}
		rec.Case(s.relatedPair(), s.String(), labelsOf(s)...)
		if s.relatedPair() && rec.WantSample() {
			rec.Sample(s)
		}
		ep := &stor.Epoch{}
		dir, db, db2 := openTwo(t, ep)
		defer os.RemoveAll(dir)
		defer db.Close()
		defer db2.Close()
		checkSet(t, rec, s, db, db2, ep, perms)
	})
}

// ---- shard level: after the rebuild GC reclaims the payload of removed objects ----

// noCombined: the sets reuse object IDs across the two containers; FSTree
// "combined" files index members by object ID only (HARNESS.md pitfall).
var noCombined = []fstree.Option{fstree.WithCombinedCountLimit(1)}

// mustReclaim lists the stored objects whose payload GC has to delete after the
// rebuild: objects targeted by a stored live tombstone directly, and parts that
// carry the header of a tombstoned parent. Families with a lock are skipped.
func mustReclaim(s Set, f facts) []Member {
	var res []Member
	for _, m := range s.Members {
		if m.Role == rTomb || m.Role == rLock || f.famL[m.Fam] {
			continue
		}
		fam := s.Families[m.Fam]
		root := uni.Addr(fam.Cnr, fam.Root)
		if f.tombOn[m.addr()] || (m.Spec.Parent == fam.Root && fam.Form != "plain" && f.tombOn[root]) {
			res = append(res, m)
		}
	}
	return res
}

func TestC18ShardGC(t *testing.T) {
	rec := ev.New("C18", "shardgc")
	defer rec.Flush()
	rapid.Check(t, func(t *rapid.T) {
		s := genSet(t, genCfg{minN: 2, maxN: 7, cnrs: 2,
			noExpiredParent: ev.IsOpen("C18", fpExpParent)})
		rec.Excluded(int64(s.excluded))
		f := s.facts()
		want := mustReclaim(s, f)
		n := len(s.Members)
		rec.Case(len(want) > 0, s.String(), append(labelsOf(s), fmt.Sprintf("must-reclaim-%d", min(len(want), 3)))...)
		if len(want) == 0 || n < 2 {
			return // nothing this variant can observe
		}
		if rec.WantSample() {
			rec.Sample(s)
		}
		perms := sampledPerms(n, 4, rapid.Uint64().Draw(t, "perm-seed"))
		for _, p := range perms {
			gcAfterRebuild(t, rec, s, f, want, p)
		}
	})
}

func gcAfterRebuild(t *rapid.T, rec *ev.Recorder, s Set, f facts, want []Member, p []int) {
	dir, err := os.MkdirTemp("", "c18s")
	if err != nil {
		ev.Inconclusive("mkdtemp: %v", err)
	}
	defer os.RemoveAll(dir)
	ep := &stor.Epoch{}

	// 1. the blob storage of the shard holds the objects
	fst, err := stor.OpenFSTree(stor.BlobDir(dir), noCombined...)
	if err != nil {
		t.Fatalf("setup: open fstree: %v", err)
	}
	var order []blob
	for _, k := range p {
		m := s.Members[k]
		if err := fst.Put(m.addr(), m.build().Marshal()); err != nil {
			fst.Close()
			t.Fatalf("setup: fstree put: %v", err)
		}
		order = append(order, blob{addr: m.addr()})
	}
	// 2. offline rebuild of the shard's metabase from it (what `neofs-lancet meta resync` does), blobs read in order p
	db, err := stor.OpenMeta(stor.MetaPath(dir), ep, fastBolt())
	if err != nil {
		fst.Close()
		t.Fatalf("setup: open metabase: %v", err)
	}
	ep.Set(uint64(s.Er))
	err = db.ResyncFromBlobstor(&orderedStore{blobs: order, inner: fst, id: fst.ShardID()}, strictErr)
	db.Close()
	fst.Close()
	if err != nil {
		t.Fatalf("resync failed in blob order %v: %v\n%s", p, err, s.Short())
	}
	// 3. the shard starts on these directories; epoch Eq arrives; GC runs
	ep.Set(uint64(s.Eq))
	sh, err := stor.OpenShard(stor.ShardCfg{Dir: dir, Epoch: ep, FSTOpts: noCombined, MetaOpts: []meta.Option{fastBolt()}})
	if err != nil {
		t.Fatalf("setup: open shard after rebuild: %v\n%s", err, s.Short())
	}
	sh.VerifNewEpoch(uint64(s.Eq))
	for i := 0; i < 3; i++ {
		sh.VerifGCPass()
	}
	if err := sh.Close(); err != nil {
		t.Fatalf("setup: close shard: %v", err)
	}
	rec.Label("gc-runs")
	// 4. payload of every removed object is gone from the blob storage
	fst, err = stor.OpenFSTree(stor.BlobDir(dir), noCombined...)
	if err != nil {
		t.Fatalf("setup: reopen fstree: %v", err)
	}
	defer fst.Close()
	for _, m := range want {
		ok, err := fst.Exists(m.addr())
		if err != nil {
			t.Fatalf("setup: fstree exists: %v", err)
		}
		if ok {
			t.Fatalf("%s (%s) is removed by a stored tombstone but its payload is still in the blob storage after rebuild (blob order %v) + 3 GC passes at epoch %d\n%s",
				fmtAddr(m.addr()), m.Role, p, s.Eq, s.Short())
		}
	}
}

// ---- batch boundary (thorough tier): related objects fall into different PutBatch transactions ----

var fillerBlobs []blob

// fillers returns n regular objects of container 2 with synthetic IDs; none of
// them is related to anything.
func fillers(n int) []blob {
	for i := len(fillerBlobs); i < n; i++ {
		o := uni.Build(blank(uni.Regular, 2, 0))
		var id oid.ID
		id[0], id[1], id[2], id[31] = 0x55, byte(i>>8), byte(i), 1
		o.SetID(id)
		fillerBlobs = append(fillerBlobs, blob{addr: oid.NewAddress(uni.Cnr(2), id), data: o.Marshal()})
	}
	return fillerBlobs[:n]
}

func TestC18BatchBoundary(t *testing.T) {
	rec := ev.New("C18", "batch-boundary")
	defer rec.Flush()
	if !ev.Thorough() {
		rec.Set("skipped", "thorough tier only")
		return
	}
	rapid.Check(t, func(t *rapid.T) {
		s := genSet(t, genCfg{allowLT: rapid.IntRange(0, 3).Draw(t, "lt-class") == 0, minN: 2, maxN: 4, cnrs: 1,
			noExpiredParent: ev.IsOpen("C18", fpExpParent)})
		rec.Excluded(int64(s.excluded))
		n := len(s.Members)
		if n < 2 {
			rec.Case(false, s.String(), "too-small")
			return
		}
		nf := rapid.SampledFrom([]int{999, 1000, 1001, 1700}).Draw(t, "fillers")
		rec.Case(s.relatedPair(), s.String(), append(labelsOf(s), fmt.Sprintf("fillers-%d", nf))...)
		fill := fillers(nf)
		blobs := blobsOf(s)
		addrs := s.interest()
		f := s.facts()
		perms := sampledPerms(n, 3, rapid.Uint64().Draw(t, "perm-seed"))
		splits := []int{rapid.IntRange(1, n-1).Draw(t, "split"), rapid.IntRange(0, n).Draw(t, "split2")}

		ep := &stor.Epoch{}
		dir, db, db2 := openTwo(t, ep)
		defer os.RemoveAll(dir)
		defer db.Close()
		defer db2.Close()

		var base []Obs
		var baseDesc string
		for _, p := range perms {
			for _, k := range splits { // k objects of the set before the fillers, n-k after
				pb := permuted(blobs, p)
				order := slices.Concat(pb[:k], fill, pb[k:])
				ep.Set(uint64(s.Er))
				if err := db.ResyncFromBlobstor(&orderedStore{blobs: order}, strictErr); err != nil {
					t.Fatalf("resync failed in blob order %v split at %d with %d fillers: %v\n%s", p, k, nf, err, s.Short())
				}
				ep.Set(uint64(s.Eq))
				v, err := observe(db, addrs)
				if err != nil {
					t.Fatalf("observe: %v", err)
				}
				normalise(s, f, addrs, v)
				desc := fmt.Sprintf("order %v, %d fillers after the first %d", p, nf, k)
				rec.Label("resyncs")
				if base == nil {
					base, baseDesc = v, desc
					continue
				}
				if slices.Equal(base, v) {
					continue
				}
				var diff []string
				xp, onlyXP := s.expiredParentFamilies(), true
				for i := range addrs {
					if base[i] != v[i] {
						diff = append(diff, fmt.Sprintf("%s: %v (%s) vs %v (%s)", fmtAddr(addrs[i]), base[i], baseDesc, v[i], desc))
						onlyXP = onlyXP && xp[s.famOf(addrs[i])]
					}
				}
				if onlyXP && rec.Known(fpExpParent) {
					rec.Label("known:" + fpExpParent)
					return
				}
				t.Fatalf("statuses depend on the blob order / batch boundaries:\n  %s\n%s", strings.Join(diff, "\n  "), s.Short())
			}
		}
	})
}

// ---- many tombstones: the deferred tombstone pass spans more than one PutBatch ----

var tombFillerBlobs []blob

// tombFillers returns n unrelated TOMBSTONE objects of container 2 (synthetic
// IDs, each targeting its own absent synthetic object).
func tombFillers(n int) []blob {
	for i := len(tombFillerBlobs); i < n; i++ {
		o := uni.Build(blank(uni.Regular, 2, 0))
		var id, target oid.ID
		id[0], id[1], id[2], id[31] = 0x77, byte(i>>8), byte(i), 1
		target[0], target[1], target[2], target[31] = 0x78, byte(i>>8), byte(i), 1
		o.SetID(id)
		o.AssociateDeleted(target)
		tombFillerBlobs = append(tombFillerBlobs, blob{addr: oid.NewAddress(uni.Cnr(2), id), data: o.Marshal()})
	}
	return tombFillerBlobs[:n]
}

// manyTombsDone counts completed heavy cases of this process: every case costs
// several rebuilds of 1000+ objects, the driver passes one -rapid.checks per unit.
var manyTombsDone int

// TestC18ManyTombstones: the blob storage holds >= 1000 (thorough: also 2000+)
// tombstones besides a small related set, so the tombstones cannot be applied
// in one transaction. Blob orders put the set's own tombstones among the first
// thousand tombstones and the objects they act on AFTER the 1000th tombstone
// (and the other way round, and at generated positions, optionally with 1000+
// regular fillers so that the regular batch is flushed in between as well).
// Oracle: as TestC18Resync – identical vectors for all orders, equal (class and
// lock state) to incremental construction "objects first, tombstones last" when
// it is accepted entirely, removed objects garbage-listed.
func TestC18ManyTombstones(t *testing.T) {
	rec := ev.New("C18", "many-tombstones")
	defer rec.Flush()
	limit := 3
	if ev.Thorough() {
		limit = 20
	}
	rapid.Check(t, func(t *rapid.T) {
		if manyTombsDone >= limit {
			return
		}
		s := genSet(t, genCfg{allowLT: rapid.IntRange(0, 5).Draw(t, "lt-class") == 0, minN: 2, maxN: 5, cnrs: 1,
			noExpiredParent: ev.IsOpen("C18", fpExpParent), forceTomb: true})
		rec.Excluded(int64(s.excluded))
		sizes := []int{1000, 1001, 1050, 1100}
		if ev.Thorough() {
			sizes = append(sizes, 1999, 2000, 2100)
		}
		nt := rapid.SampledFrom(sizes).Draw(t, "tombstone-fillers")
		nr := rapid.SampledFrom([]int{0, 0, 3, 1000, 1001}).Draw(t, "regular-fillers")
		pos := rapid.IntRange(0, nt).Draw(t, "position")

		var own, rest []blob // the set's tombstones / everything else of the set
		for i, b := range blobsOf(s) {
			if s.Members[i].Role == rTomb {
				own = append(own, b)
			} else {
				rest = append(rest, b)
			}
		}
		tf, rf := tombFillers(nt), fillers(nr)
		type order struct {
			name  string
			blobs []blob
		}
		orders := []order{
			{"set objects, regular fillers, own tombstones, filler tombstones", slices.Concat(rest, rf, own, tf)},
			{"own tombstones, 1000+ filler tombstones, regular fillers, set objects (after the 1000th tombstone)", slices.Concat(own, tf, rf, rest)},
			{"regular fillers, own tombstones, filler tombstones, set objects", slices.Concat(rf, own, tf, rest)},
			{fmt.Sprintf("%d filler tombstones, own tombstones, rest of filler tombstones, regular fillers, set objects", pos), slices.Concat(tf[:pos], own, tf[pos:], rf, rest)},
			{fmt.Sprintf("%d filler tombstones, set objects, own tombstones, regular fillers, rest of filler tombstones", pos), slices.Concat(tf[:pos], rest, own, rf, tf[pos:])},
		}
		rec.Case(true, s.String()+fmt.Sprint(nt, nr, pos), append(labelsOf(s), fmt.Sprintf("tombstone-fillers-%d", nt), fmt.Sprintf("regular-fillers-%d", nr))...)
		if rec.WantSample() {
			rec.Sample(map[string]any{"set": s, "tombstone_fillers": nt, "regular_fillers": nr, "position": pos})
		}

		addrs := s.interest()
		f := s.facts()
		ep := &stor.Epoch{}
		dir, db, db2 := openTwo(t, ep)
		defer os.RemoveAll(dir)
		defer db.Close()
		defer db2.Close()

		var base []Obs
		for i, o := range orders {
			ep.Set(uint64(s.Er))
			if err := db.ResyncFromBlobstor(&orderedStore{blobs: o.blobs}, strictErr); err != nil {
				t.Fatalf("resync failed (%s): %v\n%s", o.name, err, s.Short())
			}
			ep.Set(uint64(s.Eq))
			v, err := observe(db, addrs)
			if err != nil {
				t.Fatalf("observe: %v", err)
			}
			normalise(s, f, addrs, v)
			rec.Label("resyncs")
			if i == 0 {
				base = v
				continue
			}
			if slices.Equal(base, v) {
				continue
			}
			var diff []string
			xp, onlyXP := s.expiredParentFamilies(), true
			for k := range addrs {
				if base[k] != v[k] {
					diff = append(diff, fmt.Sprintf("%s: %v [%s] vs %v [%s]", fmtAddr(addrs[k]), base[k], orders[0].name, v[k], o.name))
					onlyXP = onlyXP && xp[s.famOf(addrs[k])]
				}
			}
			if onlyXP && rec.Known(fpExpParent) {
				rec.Label("known:" + fpExpParent)
				manyTombsDone++
				return
			}
			t.Fatalf("statuses depend on the blob order with %d+%d tombstones and %d regular fillers:\n  %s\n%s", nt, len(own), nr, strings.Join(diff, "\n  "), s.Short())
		}
		if !s.isLT() {
			// removed objects are garbage-listed (GC can reclaim them)
			idx := map[oid.Address]int{}
			for i, a := range addrs {
				idx[a] = i
			}
			for _, m := range mustReclaim(s, f) {
				if got := base[idx[m.addr()]]; !got.Garbage {
					t.Fatalf("%s (%s) is removed by a stored tombstone but not in the garbage list after rebuild (%d tombstones stored): %v\n%s",
						fmtAddr(m.addr()), m.Role, nt+len(own), got, s.Short())
				}
			}
			// incremental construction: objects first, tombstones last
			if err := db2.Reset(); err != nil {
				t.Fatalf("setup: reset: %v", err)
			}
			ep.Set(uint64(s.Er))
			complete := true
			for _, b := range slices.Concat(rest, own) {
				o := new(object.Object)
				if err := o.Unmarshal(b.data); err != nil {
					t.Fatalf("setup: unmarshal: %v", err)
				}
				if err := db2.Put(o); err != nil {
					complete = false
					break
				}
			}
			if complete {
				rec.Label("incremental-order-complete")
				ep.Set(uint64(s.Eq))
				v, err := observe(db2, addrs)
				if err != nil {
					t.Fatalf("observe: %v", err)
				}
				normalise(s, f, addrs, v)
				for k := range addrs {
					if base[k].Class != v[k].Class || base[k].Locked != v[k].Locked {
						t.Fatalf("%s: rebuilt %v, incremental (objects first, tombstones last, all accepted) %v\n%s", fmtAddr(addrs[k]), base[k], v[k], s.Short())
					}
				}
			}
		}
		manyTombsDone++
	})
}

package objsrv

import (
	"fmt"
	"strings"
	"sync"
)

// Event kinds, see the package comment.
const (
	KindCheck   = "check"
	KindEffect  = "effect"
	KindACLRead = "aclread"
	KindNeutral = "neutral"
)

// Event is one observed step.
type Event struct {
	Kind   string `json:"kind"`
	What   string `json:"what"`
	Detail string `json:"detail,omitempty"`
}

func (e Event) String() string {
	if e.Detail == "" {
		return e.Kind + ":" + e.What
	}
	return e.Kind + ":" + e.What + "(" + e.Detail + ")"
}

// Log is the ordered, goroutine-safe event log shared by all fakes.
type Log struct {
	mu     sync.Mutex
	events []Event
	inACL  int // >0 while an ACL checker call is running (engine reads are then aclread)
}

// Add appends an event.
func (l *Log) Add(kind, what string, detail ...any) {
	d := ""
	if len(detail) > 0 {
		d = fmt.Sprint(detail...)
	}
	l.mu.Lock()
	l.events = append(l.events, Event{Kind: kind, What: what, Detail: d})
	l.mu.Unlock()
}

// Reset clears the log.
func (l *Log) Reset() {
	l.mu.Lock()
	l.events = nil
	l.inACL = 0
	l.mu.Unlock()
}

// Events returns a copy of all events.
func (l *Log) Events() []Event {
	l.mu.Lock()
	defer l.mu.Unlock()
	return append([]Event(nil), l.events...)
}

func (l *Log) enterACL() {
	l.mu.Lock()
	l.inACL++
	l.mu.Unlock()
}

func (l *Log) leaveACL() {
	l.mu.Lock()
	l.inACL--
	l.mu.Unlock()
}

func (l *Log) storeKind() string {
	l.mu.Lock()
	defer l.mu.Unlock()
	if l.inACL > 0 {
		return KindACLRead
	}
	return KindEffect
}

// OfKind filters events by kind.
func OfKind(evs []Event, kinds ...string) []Event {
	var res []Event
	for _, e := range evs {
		for _, k := range kinds {
			if e.Kind == k {
				res = append(res, e)
				break
			}
		}
	}
	return res
}

// HasWhat reports whether an event with the given What prefix exists.
func HasWhat(evs []Event, prefix string) bool {
	for _, e := range evs {
		if strings.HasPrefix(e.What, prefix) {
			return true
		}
	}
	return false
}

// FirstIndex returns the index of the first event of one of the kinds, or -1.
func FirstIndex(evs []Event, kinds ...string) int {
	for i, e := range evs {
		for _, k := range kinds {
			if e.Kind == k {
				return i
			}
		}
	}
	return -1
}

// LastIndex returns the index of the last event of one of the kinds, or -1.
func LastIndex(evs []Event, kinds ...string) int {
	for i := len(evs) - 1; i >= 0; i-- {
		for _, k := range kinds {
			if evs[i].Kind == k {
				return i
			}
		}
	}
	return -1
}

// Format renders events on one line each.
func Format(evs []Event) string {
	if len(evs) == 0 {
		return "  (none)"
	}
	var b strings.Builder
	for i, e := range evs {
		fmt.Fprintf(&b, "  %2d %s\n", i, e)
	}
	return strings.TrimRight(b.String(), "\n")
}

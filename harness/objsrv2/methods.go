package objsrv

import (
	"context"
	"reflect"
	"sort"

	objectsvc "github.com/nspcc-dev/neofs-node/pkg/services/object"
	protoobject "github.com/nspcc-dev/neofs-sdk-go/proto/object"
	grpccodes "google.golang.org/grpc/codes"
	grpcstatus "google.golang.org/grpc/status"
)

// MethodClass says how a method of the service is exercised.
type MethodClass int

// Method classes.
const (
	ClassClientOp  MethodClass = iota // client operation with a request builder (Spec.Op)
	ClassStub                         // deprecated / replaced stub: must be unimplemented (or panic) without any effect
	ClassReplicate                    // node-to-node replication
	ClassInternal                     // exported helper that is not an RPC (absent from the gRPC service descriptor)
)

// MethodInfo describes one known method.
type MethodInfo struct {
	Name  string
	Class MethodClass
	Op    Op     // for ClassClientOp
	RPC   string // RPC name it serves in the gRPC service descriptor ("" for ClassInternal)
}

// known is the table of methods the harness can drive. cmd/neofs-node
// registers protoobject.ObjectService_ServiceDesc with the unary handlers of
// "Head" and "SearchV2" replaced by HeadBuffered / SearchV2Buffered.
var known = map[string]MethodInfo{
	"Get":              {Class: ClassClientOp, Op: OpGet, RPC: "Get"},
	"HeadBuffered":     {Class: ClassClientOp, Op: OpHead, RPC: "Head"},
	"GetRange":         {Class: ClassClientOp, Op: OpRange, RPC: "GetRange"},
	"Delete":           {Class: ClassClientOp, Op: OpDelete, RPC: "Delete"},
	"SearchV2Buffered": {Class: ClassClientOp, Op: OpSearch, RPC: "SearchV2"},
	"Put":              {Class: ClassClientOp, Op: OpPut, RPC: "Put"},
	"Head":             {Class: ClassStub, RPC: "Head"},
	"SearchV2":         {Class: ClassStub, RPC: "SearchV2"},
	"Search":           {Class: ClassStub, RPC: "Search"},
	"GetRangeHash":     {Class: ClassStub, RPC: "GetRangeHash"},
	"Replicate":        {Class: ClassReplicate, RPC: "Replicate"},
	"ProcessSearch":    {Class: ClassInternal},
}

// Methods enumerates, by reflection, the methods of the gRPC service interface
// protoobject.ObjectServiceServer and the exported methods of *object.Server.
// It returns the known ones and the list of problems: a method without an
// entry in the table, an RPC of the service descriptor nobody serves, or an
// "internal" helper that is reachable as an RPC. Any problem must make the
// checks inconclusive: the harness does not cover the current service.
func Methods() (infos []MethodInfo, problems []string) {
	names := map[string]bool{}
	iface := reflect.TypeOf((*protoobject.ObjectServiceServer)(nil)).Elem()
	rpcs := map[string]bool{}
	for i := range iface.NumMethod() {
		m := iface.Method(i)
		if m.PkgPath != "" { // unexported embedding guard
			continue
		}
		names[m.Name] = true
		rpcs[m.Name] = true
	}
	srv := reflect.TypeOf(&objectsvc.Server{})
	for i := range srv.NumMethod() {
		names[srv.Method(i).Name] = true
	}
	desc := map[string]bool{}
	for _, m := range protoobject.ObjectService_ServiceDesc.Methods {
		desc[m.MethodName] = true
	}
	for _, s := range protoobject.ObjectService_ServiceDesc.Streams {
		desc[s.StreamName] = true
	}
	for n := range desc {
		if !rpcs[n] {
			problems = append(problems, "RPC "+n+" of the service descriptor is not a method of ObjectServiceServer")
		}
	}
	served := map[string]int{}
	for n := range names {
		k, ok := known[n]
		if !ok {
			problems = append(problems, "method "+n+" has no request builder in objsrv")
			continue
		}
		k.Name = n
		infos = append(infos, k)
		switch k.Class {
		case ClassInternal:
			if desc[n] || rpcs[n] {
				problems = append(problems, "internal method "+n+" is reachable as an RPC")
			}
		case ClassClientOp, ClassReplicate:
			served[k.RPC]++
		}
	}
	for n := range rpcs {
		if !desc[n] {
			problems = append(problems, "method "+n+" of ObjectServiceServer is missing in the service descriptor")
		}
		if k, ok := known[n]; ok && k.Class == ClassStub && (n == "Head" || n == "SearchV2") && served[n] != 1 {
			problems = append(problems, "RPC "+n+" has no buffered replacement")
		}
	}
	for n, k := range known {
		if !names[n] {
			problems = append(problems, "known method "+n+" no longer exists")
		}
		_ = k
	}
	sort.Slice(infos, func(i, j int) bool { return infos[i].Name < infos[j].Name })
	sort.Strings(problems)
	return infos, problems
}

type noSendStream struct {
	baseStream
	log *Log
}

func (s noSendStream) SendMsg(any) error {
	s.log.Add(KindEffect, "stream.message")
	return nil
}
func (s noSendStream) Send(*protoobject.SearchResponse) error {
	s.log.Add(KindEffect, "stream.message")
	return nil
}

// InvokeStub calls a ClassStub method with the given (possibly signed and
// otherwise valid) requests and reports the outcome. unimplemented is true if
// the method returned gRPC Unimplemented.
func (e *Env) InvokeStub(name string, head *protoobject.HeadRequest, search *protoobject.SearchV2Request) (res Result, unimplemented bool) {
	e.Log.Reset()
	ctx := context.Background()
	e.run(&res, func() {
		switch name {
		case "Head":
			_, res.Err = e.Server.Head(ctx, head)
		case "SearchV2":
			_, res.Err = e.Server.SearchV2(ctx, search)
		case "Search":
			req := &protoobject.SearchRequest{Body: &protoobject.SearchRequest_Body{ContainerId: search.GetBody().GetContainerId(), Version: 1},
				MetaHeader: search.GetMetaHeader(), VerifyHeader: search.GetVerifyHeader()}
			res.Err = e.Server.Search(req, noSendStream{baseStream{ctx}, e.Log})
		case "GetRangeHash":
			req := &protoobject.GetRangeHashRequest{Body: &protoobject.GetRangeHashRequest_Body{Address: head.GetBody().GetAddress(),
				Ranges: []*protoobject.Range{{Offset: 0, Length: 1}}}, MetaHeader: head.GetMetaHeader(), VerifyHeader: head.GetVerifyHeader()}
			_, res.Err = e.Server.GetRangeHash(ctx, req)
		default:
			panic("harness: unknown stub " + name)
		}
	})
	return res, grpcstatus.Code(res.Err) == grpccodes.Unimplemented
}

package c08

import (
	"context"
	"fmt"
	"os"
	"path/filepath"
	"testing"
	"time"

	"github.com/nspcc-dev/neofs-node/pkg/local_object_storage/shard/mode"
	"github.com/nspcc-dev/neofs-node/verifharness/stor"
	"github.com/nspcc-dev/neofs-node/verifharness/uni"
)

func TestProbeC08(t *testing.T) {
	ctx := context.Background()
	for rep := 0; rep < 12; rep++ {
		t0 := time.Now()
		dir, _ := os.MkdirTemp("", "c08probe")
		ep := &stor.Epoch{}
		e, err := stor.OpenEngine([]stor.ShardCfg{{Dir: filepath.Join(dir, "a"), Epoch: ep}, {Dir: filepath.Join(dir, "b"), Epoch: ep}})
		if err != nil {
			t.Fatal(err)
		}
		topen := time.Since(t0)
		x := uni.Build(uni.Spec{Kind: uni.Regular, Cnr: 0, ID: 1, Exp: -1, PayloadLen: 7})
		if err := e.E.Put(ctx, x, nil); err != nil {
			t.Fatal(err)
		}
		// who holds x?
		holder := -1
		shs := e.E.VerifShards()
		for i, id := range e.IDs {
			if ok, _ := shs[id.String()].Exists(x.Address(), false); ok {
				holder = i
			}
		}
		if err := e.E.SetShardMode(e.IDs[holder], mode.ReadOnly, false); err != nil {
			t.Fatal(err)
		}
		l := uni.Build(uni.Spec{Kind: uni.Lock, Cnr: 0, ID: 2, Exp: -1, Target: 1})
		errL := e.E.Put(ctx, l, nil)
		if err := e.E.SetShardMode(e.IDs[holder], mode.ReadWrite, false); err != nil {
			t.Fatal(err)
		}
		locked, errIL := e.E.IsLocked(ctx, x.Address())
		if os.Getenv("PROBE_DEG") != "" {
			m := mode.DegradedReadOnly
			if os.Getenv("PROBE_DEG") == "rw" {
				m = mode.Degraded
			}
			if err := e.E.SetShardMode(e.IDs[1-holder], m, false); err != nil {
				t.Fatal(err)
			}
		}
		ts := uni.Build(uni.Spec{Kind: uni.Tombstone, Cnr: 0, ID: 3, Exp: -1, Target: 1})
		errT := e.E.Put(ctx, ts, nil)
		_, errG := e.E.Get(ctx, x.Address())
		for _, sh := range shs {
			sh.VerifGCPass()
		}
		_, errG2 := e.E.Get(ctx, x.Address())
		fmt.Printf("rep %d holder=%d open=%v lockErr=%v locked=%v/%v tombErr=%v get=%v getAfterGC=%v\n", rep, holder, topen, errL, locked, errIL, errT, errG, errG2)
		e.E.Close()
		os.RemoveAll(dir)
	}
}

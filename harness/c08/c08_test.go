// Package c08 decides property C08: an object locked through the storage
// engine stays retrievable until the lock expires – under later tombstone
// attempts (also failing, rolled back ones), GC passes, epoch advances, shard
// mode flips, injected per-shard put failures and evacuations, whatever order
// the engine visits its shards in.
//
// Shard visiting order. HRW-sorted paths (Put of regular objects, Get, Head,
// existsPhysical, Delete) depend on shard IDs and the object ID only; shard
// IDs are generated (engx.MkID), so all HRW orders are reachable and every
// case is reproducible. Broadcast paths (LOCK/TOMBSTONE put, IsLocked) iterate
// the engine's shard map: for the ≤8 entry maps Go iterates a random ROTATION
// of the insertion order. Therefore the AddShard order is generated too and
// every history is replayed R times on fresh engines; the visiting order
// really taken by each broadcast is read from the global blob call log and
// reported in the evidence.
package c08

import (
	"context"
	"errors"
	"fmt"
	"os"
	"sort"
	"strings"
	"testing"

	"github.com/nspcc-dev/neofs-node/pkg/local_object_storage/blobstor/common"
	"github.com/nspcc-dev/neofs-node/pkg/local_object_storage/shard/mode"
	"github.com/nspcc-dev/neofs-node/verifharness/engx"
	"github.com/nspcc-dev/neofs-node/verifharness/ev"
	"github.com/nspcc-dev/neofs-node/verifharness/uni"
	apistatus "github.com/nspcc-dev/neofs-sdk-go/client/status"
	"github.com/nspcc-dev/neofs-sdk-go/object"
	oid "github.com/nspcc-dev/neofs-sdk-go/object/id"
	"pgregory.net/rapid"
)

// Concurrency of a race op is owned by the test: both engine.Put calls run in
// their own goroutines but only one of them runs at a time, from one blob
// write (faultstore Before hook) to the next; the generated schedule string
// says whose turn it is. The engine code between two pauses of an actor (the
// metabase update of the shard just written, the next shard's existence check,
// the tombstone pre-check, the rollback) is thus interleaved with the other
// actor's steps in every generated way, deterministically.
type actor struct {
	run               func()
	started, finished bool
	req, grant, done  chan struct{}
}

func newActor(run func()) *actor {
	return &actor{run: run, req: make(chan struct{}), grant: make(chan struct{}), done: make(chan struct{})}
}

// pause is called from the actor's goroutine (inside a blob Put hook).
func (a *actor) pause() { a.req <- struct{}{}; <-a.grant }

// step lets the actor run until its next pause or its end.
func (a *actor) step() {
	if a.finished {
		return
	}
	if !a.started {
		a.started = true
		go func() { defer close(a.done); a.run() }()
	} else {
		a.grant <- struct{}{}
	}
	select {
	case <-a.req:
	case <-a.done:
		a.finished = true
	}
}

const (
	// fpExpired: the locked object's OWN expiration passes while the shard
	// holding it does not know the lock (lock was accepted by other shards only).
	fpExpired = "C08:expired-locked-object-hidden-without-local-lock"
	// fpRace: lock and tombstone broadcasts for one target interleave; the lock
	// is accepted but the object is lost (at once or at the next GC pass).
	fpRace = "C08:concurrent-lock-tombstone-not-atomic"
	// fpEvacDeg is a finding of C19 that C08's evacuate+detach op runs into.
	fpEvacDeg = "C19:evacuate-degraded-shard-reports-success-moves-nothing"

	nObj   = 4 // regular object ids 0..3
	nLock  = 4 // lock ids 4..7
	nTomb  = 4 // tombstone ids 8..11
	maxEp  = 9
	cnrIdx = 0
)

type op struct {
	K     string `json:"k"`           // put lock tomb race mode failput gc epoch evac
	ID    int    `json:"id,omitempty"` // object / lock / tombstone index
	ID2   int    `json:"id2,omitempty"`
	Shard int    `json:"sh,omitempty"`
	Mode  string `json:"m,omitempty"`
	On    bool   `json:"on,omitempty"`
	// Sched is the interleaving of a race op: 'T' lets the tombstone put run up
	// to its next blob write, 'L' the lock put.
	Sched string `json:"sched,omitempty"`
}

func (o op) String() string {
	switch o.K {
	case "put":
		return fmt.Sprintf("put(o%d)", o.ID)
	case "lock":
		return fmt.Sprintf("lock(o%d)", o.ID)
	case "tomb":
		return fmt.Sprintf("tomb(o%d)", o.ID)
	case "race":
		return fmt.Sprintf("race(lock o%d || tomb o%d, schedule %s)", o.ID, o.ID2, o.Sched)
	case "mode":
		return fmt.Sprintf("mode(s%d,%s)", o.Shard, o.Mode)
	case "failput":
		return fmt.Sprintf("failput(s%d,%v)", o.Shard, o.On)
	case "gc":
		return fmt.Sprintf("gc(s%d)", o.Shard)
	case "epoch":
		return "epoch+1"
	case "evac":
		return fmt.Sprintf("evacuate(s%d)", o.Shard)
	case "detach":
		return fmt.Sprintf("evacuate+detach(s%d)", o.Shard)
	}
	return o.K
}

type hist struct {
	N        int        `json:"n"`
	Hashes   []uint64   `json:"hashes"`
	AddOrder []int      `json:"add_order"`
	Objs     []uni.Spec `json:"objs"` // indexes 0..11 of container 0
	Ops      []op       `json:"ops"`
}

func (h hist) String() string {
	var sb strings.Builder
	fmt.Fprintf(&sb, "shards=%d hashes=%x addOrder=%v\n", h.N, h.Hashes, h.AddOrder)
	for i, s := range h.Objs {
		if s.Kind != uni.Regular || s.Exp >= 0 {
			fmt.Fprintf(&sb, "  o%d: %s\n", i, s)
		}
	}
	for i, o := range h.Ops {
		fmt.Fprintf(&sb, "  %2d %s\n", i, o)
	}
	return sb.String()
}

var modes = map[string]mode.Mode{"rw": mode.ReadWrite, "ro": mode.ReadOnly, "degro": mode.DegradedReadOnly}

func genHist(t *rapid.T, withObjExp, withRace bool) hist {
	var h hist
	h.N = rapid.SampledFrom([]int{2, 3, 3}).Draw(t, "nshards")
	for len(h.Hashes) < h.N {
		v := rapid.Uint64().Draw(t, "shardhash")
		dup := false
		for _, x := range h.Hashes {
			dup = dup || x == v
		}
		if !dup {
			h.Hashes = append(h.Hashes, v)
		}
	}
	h.AddOrder = rapid.Permutation(seq(h.N)).Draw(t, "addorder")
	for i := 0; i < nObj+nLock+nTomb; i++ {
		s := uni.Spec{Kind: uni.Regular, Cnr: cnrIdx, ID: i, Exp: -1, Parent: -1, ParentExp: -1, First: -1}
		switch {
		case i < nObj:
			s.PayloadLen = []int{0, 1, 7, 32}[i%4]
			if withObjExp && rapid.IntRange(0, 3).Draw(t, "objhasexp") == 0 {
				s.Exp = rapid.IntRange(0, 4).Draw(t, "objexp")
			}
		case i < nObj+nLock:
			s.Kind = uni.Lock
		default:
			s.Kind = uni.Tombstone
			s.Exp = rapid.IntRange(3, maxEp+3).Draw(t, "tombexp")
		}
		h.Objs = append(h.Objs, s)
	}
	// Ops are drawn with a little abstract state so that locks aim at objects
	// that were put and tombstones aim at locked objects most of the time; IDs
	// of locks/tombstones are allocated on first use (later uses re-put them).
	var (
		put, locked []int
		nl, nt      int
	)
	pick := func(pref []int, lbl string) int {
		if len(pref) > 0 && rapid.IntRange(0, 9).Draw(t, lbl+"-pref") < 8 {
			return rapid.SampledFrom(pref).Draw(t, lbl)
		}
		return rapid.IntRange(0, nObj-1).Draw(t, lbl)
	}
	newLock := func() int {
		if nl < nLock && (nl == 0 || rapid.IntRange(0, 9).Draw(t, "newlock") < 8) {
			i := nObj + nl
			nl++
			h.Objs[i].Target = pick(put, "locktarget")
			if rapid.IntRange(0, 2).Draw(t, "lockhasexp") != 0 {
				h.Objs[i].Exp = rapid.IntRange(1, 7).Draw(t, "lockexp")
			}
			locked = append(locked, h.Objs[i].Target)
			return i
		}
		return nObj + rapid.IntRange(0, nl-1).Draw(t, "oldlock")
	}
	newTomb := func(pref []int) int {
		if nt < nTomb && (nt == 0 || rapid.IntRange(0, 9).Draw(t, "newtomb") < 8) {
			i := nObj + nLock + nt
			nt++
			h.Objs[i].Target = pick(pref, "tombtarget")
			return i
		}
		return nObj + nLock + rapid.IntRange(0, nt-1).Draw(t, "oldtomb")
	}
	nops := rapid.IntRange(2, 14).Draw(t, "nops")
	kinds := []string{"put", "put", "lock", "lock", "lock", "tomb", "tomb", "tomb", "mode", "mode", "mode", "failput", "gc", "gc", "epoch", "evac", "detach"}
	if withRace {
		kinds = append(kinds, "race", "race", "race")
	}
	for len(h.Ops) < nops {
		o := op{K: rapid.SampledFrom(kinds).Draw(t, "op")}
		if len(put) == 0 && rapid.IntRange(0, 9).Draw(t, "putfirst") < 8 {
			o.K = "put"
		}
		switch o.K {
		case "put":
			o.ID = rapid.IntRange(0, nObj-1).Draw(t, "obj")
			put = append(put, o.ID)
		case "lock":
			o.ID = newLock()
		case "tomb":
			o.ID = newTomb(locked)
		case "race":
			o.ID = newLock()
			// a tombstone aimed at the same target
			o.ID2 = -1
			for k := 0; k < nt; k++ {
				if h.Objs[nObj+nLock+k].Target == h.Objs[o.ID].Target {
					o.ID2 = nObj + nLock + k
					break
				}
			}
			if o.ID2 < 0 {
				o.ID2 = newTomb([]int{h.Objs[o.ID].Target})
			}
			o.Sched = rapid.StringOfN(rapid.SampledFrom([]rune{'T', 'L'}), 8, 8, -1).Draw(t, "schedule")
		case "mode":
			o.Shard = rapid.IntRange(0, h.N-1).Draw(t, "shard")
			o.Mode = rapid.SampledFrom([]string{"rw", "rw", "ro", "ro", "degro"}).Draw(t, "mode")
		case "failput":
			o.Shard = rapid.IntRange(0, h.N-1).Draw(t, "shard")
			o.On = rapid.Bool().Draw(t, "on")
		case "gc", "evac", "detach":
			o.Shard = rapid.IntRange(0, h.N-1).Draw(t, "shard")
		}
		h.Ops = append(h.Ops, o)
	}
	// Most histories also get the chain the property is about, merged into the
	// random ops at random (order preserving) positions: a holder or another
	// shard is made non-writable, a lock is put, (shards are restored), a
	// tombstone for the same object is attempted, GC runs.
	if rapid.IntRange(0, 9).Draw(t, "chain") < 7 {
		tgt := rapid.IntRange(0, nObj-1).Draw(t, "chain-obj")
		var chain []op
		chain = append(chain, op{K: "put", ID: tgt})
		sh := rapid.IntRange(0, h.N-1).Draw(t, "chain-shard")
		// variant "only": ONLY shard sh is writable when the lock arrives (so it is
		// the single shard knowing the lock) and it is evacuated and detached
		// (engine rebuilt over the remaining shards) before the tombstone
		only := rapid.IntRange(0, 9).Draw(t, "chain-only") < 3
		viaFail := rapid.Bool().Draw(t, "chain-viafail")
		roMode := rapid.SampledFrom([]string{"ro", "ro", "degro"}).Draw(t, "chain-mode")
		for k := 0; k < h.N; k++ {
			if (k == sh) == only {
				continue
			}
			if viaFail {
				chain = append(chain, op{K: "failput", Shard: k, On: true})
			} else {
				chain = append(chain, op{K: "mode", Shard: k, Mode: roMode})
			}
		}
		var li int
		if nl < nLock {
			li = nObj + nl
			nl++
			h.Objs[li].Target = tgt
			if rapid.IntRange(0, 2).Draw(t, "lockhasexp") != 0 {
				h.Objs[li].Exp = rapid.IntRange(1, 7).Draw(t, "lockexp")
			}
		} else {
			li = nObj + rapid.IntRange(0, nLock-1).Draw(t, "oldlock")
			tgt = h.Objs[li].Target
			chain[0].ID = tgt
		}
		chain = append(chain, op{K: "lock", ID: li})
		if only || rapid.IntRange(0, 3).Draw(t, "chain-restore") != 0 {
			for k := 0; k < h.N; k++ {
				if (k == sh) != only {
					chain = append(chain, op{K: "failput", Shard: k, On: false}, op{K: "mode", Shard: k, Mode: "rw"})
				}
			}
		}
		if only {
			chain = append(chain, op{K: "detach", Shard: sh})
		}
		// often another shard runs without metabase while the tombstone arrives
		// (the lock is then known to a shard WITH metabase, the holder may lack it,
		// and an unrelated shard cannot answer lock queries)
		if h.N == 3 && !only && rapid.IntRange(0, 9).Draw(t, "chain-thirddeg") < 6 {
			other := rapid.IntRange(0, h.N-2).Draw(t, "chain-third")
			if other >= sh {
				other++
			}
			chain = append(chain, op{K: "mode", Shard: other, Mode: "degro"})
		}
		ti := -1
		for k := 0; k < nt; k++ {
			if h.Objs[nObj+nLock+k].Target == tgt {
				ti = nObj + nLock + k
			}
		}
		if ti < 0 && nt < nTomb {
			ti = nObj + nLock + nt
			nt++
			h.Objs[ti].Target = tgt
		}
		if ti >= 0 {
			chain = append(chain, op{K: "tomb", ID: ti})
		}
		for k := 0; k < h.N; k++ {
			chain = append(chain, op{K: "gc", Shard: k})
		}
		// sometimes let epochs pass (object / lock expirations) and collect again
		if ne := rapid.IntRange(0, 3).Draw(t, "chain-epochs"); ne > 0 {
			for k := 0; k < ne; k++ {
				chain = append(chain, op{K: "epoch"})
			}
			chain = append(chain, op{K: "gc", Shard: rapid.IntRange(0, h.N-1).Draw(t, "chain-gc2")})
		}
		pos := make([]int, len(chain))
		for i := range pos {
			pos[i] = rapid.IntRange(0, len(h.Ops)).Draw(t, "chain-pos")
		}
		sort.Ints(pos)
		var merged []op
		ci := 0
		for i := 0; i <= len(h.Ops); i++ {
			for ci < len(chain) && pos[ci] == i {
				merged = append(merged, chain[ci])
				ci++
			}
			if i < len(h.Ops) {
				merged = append(merged, h.Ops[i])
			}
		}
		h.Ops = merged
	}
	return h
}

func seq(n int) []int {
	r := make([]int, n)
	for i := range r {
		r[i] = i
	}
	return r
}

// violation is a property violation found in one replay.
type violation struct {
	fp  string // known-finding class ("" = none)
	msg string
}

type lockRec struct {
	exp     int // -1 none
	partial bool
}

// replay state and result
type run struct {
	h     hist
	e     *engx.Eng
	epoch uint64
	objs  []*object.Object
	// tracked[o] = locks accepted by the engine for stored object o
	tracked  map[int][]lockRec
	poisoned map[int]string
	trace    []string
	orders   map[int]string // op index -> observed broadcast order
	labels   map[string]bool
	// progress of the non-triviality rule per object: 1 = partial lock accepted,
	// 2 = +tombstone attempt while live, 3 = +GC pass
	stage map[int]int
	// raced[o]: o was the common target of interleaved lock/tombstone puts
	raced   map[int]bool
	lastOp  string
	// slot maps the history's shard numbers to positions in r.e.Sh (-1: the
	// shard was evacuated and detached); root is the case directory
	slot []int
	root string
	// known reports (and records) open known-finding classes; excluded counts
	// objects dropped from the assertion because of them.
	known    func(string) bool
	excluded int
	raceLog string
	races   map[int]string // op index -> blob write sequence of the race
	viol    *violation
}

func (r *run) addr(i int) oid.Address { return uni.Addr(cnrIdx, i) }

func (r *run) live(o int) bool {
	for _, l := range r.tracked[o] {
		if l.exp < 0 || r.epoch <= uint64(l.exp) {
			return true
		}
	}
	return false
}

func (r *run) noMeta(k int) bool { return r.e.Mode(k).NoMetabase() }

func (r *run) anyNoMeta() bool {
	for k := range r.e.Sh {
		if r.noMeta(k) {
			return true
		}
	}
	return false
}

// knowers returns the shards whose metabase reports o as locked right now.
func (r *run) knowers(o int) []int {
	var res []int
	for k, s := range r.e.Sh {
		if l, err := s.S.IsLocked(r.addr(o)); err == nil && l {
			res = append(res, k)
		}
	}
	return res
}

// fail records a violation concerning object o. When it belongs to a class
// listed as an open known finding, the object is no longer asserted in this
// replay (counted as excluded) and the replay goes on.
func (r *run) fail(o int, fp, format string, a ...any) {
	if fp != "" && r.known != nil && r.known(fp) {
		r.poisoned[o] = "known finding " + fp
		r.excluded++
		r.labels["known:"+fp] = true
		return
	}
	if r.viol == nil {
		r.viol = &violation{fp: fp, msg: fmt.Sprintf(format, a...)}
	}
}

// hiddenByExpiry reports the narrow class fpExpired: the locked object has its
// own expiration which has passed, a shard holding it does not know the lock
// (other shards do), and the engine read says "not found".
func (r *run) hiddenByExpiry(o int, cls string, holders []int) bool {
	if !r.objExpired(o) || cls != engx.NotFound {
		return false
	}
	kn := r.knowers(o)
	if len(kn) == 0 {
		return false
	}
	for _, h := range holders {
		known := false
		for _, k := range kn {
			known = known || k == h
		}
		if !known && !r.noMeta(h) {
			return true
		}
	}
	return false
}

// class returns the known-finding class a violation on object o belongs to.
func (r *run) class(o int) string {
	switch {
	case r.raced[o] && (r.lastOp == "gc" || r.lastOp == "detach"):
		// exactly the recorded class: a tombstone interleaved with the lock was
		// accepted by a shard before the lock reached that shard and was rolled
		// back (stale garbage mark), the lock was accepted, the object stayed
		// readable – and a GC pass collected it.
		return fpRace
	}
	return ""
}

func (r *run) objExpired(o int) bool {
	e := r.h.Objs[o].Exp
	return e >= 0 && r.epoch > uint64(e)
}

// checkAll asserts the property for every object with a live accepted lock.
func (r *run) checkAll(step string) {
	for o := 0; o < nObj; o++ {
		if !r.live(o) || r.poisoned[o] != "" || r.viol != nil {
			continue
		}
		fp := r.class(o)
		a := r.addr(o)
		if r.objExpired(o) && r.anyNoMeta() && len(r.knowers(o)) == 0 {
			// the object's own expiration has passed and every shard that knows the
			// lock runs without metabase: the engine cannot see the lock (and GC
			// "removes without full locking check") – nothing can be demanded any more
			r.labels["expired-object-lock-knowers-degraded(not-asserted)"] = true
			r.poisoned[o] = "expired while every shard knowing the lock had no metabase"
			continue
		}
		holders := r.e.Holders(a)
		allDeg := len(holders) > 0
		for _, k := range holders {
			allDeg = allDeg && r.noMeta(k)
		}
		if allDeg {
			r.labels["skip-read-all-holders-degraded"] = true
		} else {
			cls, got, err := r.e.Get(a)
			switch {
			case cls != engx.OK:
				if r.hiddenByExpiry(o, cls, holders) {
					fp = fpExpired
				}
				r.fail(o, fp, "after %s: locked object o%d is not retrievable: Get = %v (class %s); physical holders %v, lock known on shards %v, modes %s",
					step, o, err, cls, holders, r.knowers(o), r.modesStr())
			case !engx.SameObject(got, r.objs[o]):
				r.fail(o, fp, "after %s: locked object o%d read with different bytes", step, o)
			}
		}
		if r.viol != nil {
			return
		}
		if r.poisoned[o] != "" {
			continue
		}
		if r.anyNoMeta() {
			r.labels["skip-islocked-some-shard-degraded"] = true
			continue
		}
		l, err := r.e.E.IsLocked(context.Background(), a)
		if err != nil || !l {
			r.fail(o, fp, "after %s: IsLocked(o%d) = %v, %v while an accepted lock is live (epoch %d); lock known on shards %v",
				step, o, l, err, r.epoch, r.knowers(o))
		}
	}
}

func (r *run) modesStr() string {
	var p []string
	for k, s := range r.e.Sh {
		m := engx.ModeName(r.e.Mode(k))
		if s.FailPut {
			m += "+failput"
		}
		p = append(p, fmt.Sprintf("s%d=%s", k, m))
	}
	return strings.Join(p, " ")
}

func (r *run) allWritable() bool {
	for k, s := range r.e.Sh {
		if r.e.Mode(k) != mode.ReadWrite || s.FailPut {
			return false
		}
	}
	return true
}

func errStr(err error) string {
	switch {
	case err == nil:
		return "nil"
	case errors.Is(err, apistatus.ErrObjectLocked):
		return "ObjectLocked"
	case errors.Is(err, apistatus.ErrObjectAlreadyRemoved):
		return "AlreadyRemoved"
	case errors.Is(err, apistatus.ErrLockNonRegularObject):
		return "LockNonRegular"
	}
	s := err.Error()
	if len(s) > 90 {
		s = s[:90] + "…"
	}
	return s
}

// noteOrder records the order in which shards saw the blob Put of address a.
func (r *run) noteOrder(i int, a ...oid.Address) {
	var p []string
	r.raceLog = ""
	for _, c := range r.e.TakeCalls() {
		if c.Method != "Put" {
			continue
		}
		for j, x := range a {
			if c.Addr == x {
				p = append(p, fmt.Sprintf("%d", c.Shard))
				if len(a) == 2 {
					r.raceLog += fmt.Sprintf("%c@%d ", "LT"[j], c.Shard)
				}
			}
		}
	}
	if len(p) > 1 {
		r.orders[i] = strings.Join(p, ">")
	}
}

func (r *run) acceptLock(i int, lockIdx int, partial bool) {
	s := r.h.Objs[lockIdx]
	o := s.Target
	if s.Exp >= 0 && r.epoch > uint64(s.Exp) {
		return
	}
	cls, got, _ := r.e.Get(r.addr(o))
	if cls != engx.OK || !engx.SameObject(got, r.objs[o]) {
		r.labels["lock-accepted-target-not-stored"] = true
		return
	}
	for _, h := range r.e.Holders(r.addr(o)) {
		if r.noMeta(h) {
			// a holder without metabase serves the blob whatever its status is
			// (e.g. already tombstoned): "the engine stores it" is not established
			r.labels["lock-accepted-while-holder-degraded(not-tracked)"] = true
			return
		}
	}
	if len(r.knowers(o)) == 0 {
		// accepted by shards without metabase only: nothing can enforce it
		r.labels["lock-accepted-unknown-to-any-metabase"] = true
		return
	}
	if r.objExpired(o) {
		return
	}
	r.tracked[o] = append(r.tracked[o], lockRec{exp: s.Exp, partial: partial})
	r.labels["lock-tracked"] = true
	if partial {
		r.labels["lock-tracked-partial"] = true
		if r.stage[o] < 1 {
			r.stage[o] = 1
		}
	}
}

func (r *run) exec(i int, o op) {
	ctx := context.Background()
	step := fmt.Sprintf("op %d %s", i, o)
	switch o.K {
	case "mode", "failput", "gc", "evac", "detach":
		k := r.slot[o.Shard]
		if k < 0 {
			r.trace = append(r.trace, step+" -> skipped, shard detached")
			return
		}
		if k != o.Shard {
			step += fmt.Sprintf(" [now engine shard %d]", k)
		}
		o.Shard = k
	}
	switch o.K {
	case "put":
		err := r.e.E.Put(ctx, r.objs[o.ID], nil)
		r.trace = append(r.trace, fmt.Sprintf("%s -> %s", step, errStr(err)))
	case "lock":
		partial := !r.allWritable()
		r.e.TakeCalls()
		err := r.e.E.Put(ctx, r.objs[o.ID], nil)
		r.noteOrder(i, r.addr(o.ID))
		r.trace = append(r.trace, fmt.Sprintf("%s [%s] -> %s order %s", step, r.modesStr(), errStr(err), r.orders[i]))
		if err == nil {
			r.acceptLock(i, o.ID, partial)
		}
	case "tomb":
		tgt := r.h.Objs[o.ID].Target
		protected := r.live(tgt) && r.poisoned[tgt] == ""
		var kn []int
		if protected {
			kn = r.knowers(tgt)
		}
		r.e.TakeCalls()
		hadT := len(r.e.Holders(r.addr(o.ID)))
		err := r.e.E.Put(ctx, r.objs[o.ID], nil)
		r.noteOrder(i, r.addr(o.ID))
		r.trace = append(r.trace, fmt.Sprintf("%s [%s] -> %s order %s", step, r.modesStr(), errStr(err), r.orders[i]))
		if err == nil && len(r.e.Holders(r.addr(o.ID))) <= hadT {
			// re-put of a tombstone that is stored already: a no-op, nothing was accepted
			r.labels["tomb-reput-noop"] = true
			protected = false
		}
		if protected {
			r.labels["tomb-attempt-on-live-lock"] = true
			if r.stage[tgt] == 1 {
				r.stage[tgt] = 2
			}
			switch {
			case len(kn) == 0:
				// every shard knowing the lock runs without metabase: the engine cannot see the lock
				r.labels["tomb-while-lock-knowers-degraded"] = true
				r.poisoned[tgt] = "tombstone put while every shard knowing the lock had no metabase"
			case err == nil:
				r.fail(tgt, r.class(tgt), "%s: tombstone for locked object o%d was accepted (Put = nil); lock known on shards %v, modes %s", step, tgt, kn, r.modesStr())
			}
		}
	case "race":
		lockIdx, tombIdx := o.ID, o.ID2
		tgt := r.h.Objs[lockIdx].Target
		same := r.h.Objs[tombIdx].Target == tgt
		pre, _, _ := r.e.Get(r.addr(tgt))
		wasLive := r.live(tgt) && r.poisoned[tgt] == ""
		var knBefore []int
		if wasLive {
			knBefore = r.knowers(tgt)
		}
		partial := !r.allWritable()
		hadT := len(r.e.Holders(r.addr(tombIdx)))
		var errL, errT error
		aL := newActor(func() { errL = r.e.E.Put(ctx, r.objs[lockIdx], nil) })
		aT := newActor(func() { errT = r.e.E.Put(ctx, r.objs[tombIdx], nil) })
		byAddr := map[oid.Address]*actor{r.addr(lockIdx): aL, r.addr(tombIdx): aT}
		for _, sh := range r.e.Sh {
			sh.FS.SetBefore(func(m string, addrs []oid.Address) {
				if m == "Put" && len(addrs) == 1 {
					if a := byAddr[addrs[0]]; a != nil {
						a.pause()
					}
				}
			})
		}
		r.e.TakeCalls()
		for _, c := range o.Sched {
			if c == 'T' {
				aT.step()
			} else {
				aL.step()
			}
		}
		for !aT.finished {
			aT.step()
		}
		for !aL.finished {
			aL.step()
		}
		for _, sh := range r.e.Sh {
			sh.FS.SetBefore(nil)
		}
		r.noteOrder(i, r.addr(lockIdx), r.addr(tombIdx))
		post, _, _ := r.e.Get(r.addr(tgt))
		r.trace = append(r.trace, fmt.Sprintf("%s [%s] -> lock %s, tomb %s; blob writes (L=lock,T=tomb @shard) %s; target before %s after %s",
			step, r.modesStr(), errStr(errL), errStr(errT), r.raceLog, pre, post))
		r.labels["race"] = true
		r.races[i] = strings.TrimSpace(r.raceLog)
		if same {
			// (the target may also be absent during the race and uploaded afterwards:
			// the stale garbage key of the rolled-back tombstone waits for it)
			if errL == nil && errT != nil && pre == post && (pre == engx.OK || pre == engx.NotFound) && tombBeforeLock(r.races[i]) {
				r.raced[tgt] = true
				r.labels["race-tomb-rolled-back-after-partial-accept"] = true
			}
			if pre == engx.OK && !wasLive {
				r.labels["race-same-target-available"] = true
				switch {
				case errL == nil && errT == nil:
					r.labels["race-both-accepted"] = true
				case errL != nil && errT != nil:
					r.labels["race-both-refused"] = true
					if post != engx.OK {
						r.labels["race-both-refused-target-unreadable"] = true
					}
				case errL == nil:
					r.labels["race-lock-won"] = true
				default:
					r.labels["race-tomb-won"] = true
				}
			}
			if wasLive && len(knBefore) > 0 && errT == nil && len(r.e.Holders(r.addr(tombIdx))) > hadT {
				r.fail(tgt, "", "%s: tombstone for locked object o%d was accepted (Put = nil)", step, tgt)
			}
		}
		if errL == nil {
			r.acceptLock(i, lockIdx, partial)
		}
	case "mode":
		err := r.e.SetMode(o.Shard, modes[o.Mode])
		r.trace = append(r.trace, fmt.Sprintf("%s -> %s", step, errStr(err)))
	case "failput":
		r.e.Sh[o.Shard].FailPut = o.On
		r.trace = append(r.trace, step)
	case "gc":
		r.e.GC(o.Shard)
		r.trace = append(r.trace, step)
		for t, st := range r.stage {
			if st == 2 && r.live(t) {
				r.stage[t] = 3
			}
		}
	case "epoch":
		r.epoch++
		r.e.SetEpoch(r.epoch)
		r.trace = append(r.trace, fmt.Sprintf("%s -> epoch %d", step, r.epoch))
	case "evac":
		m := r.e.Mode(o.Shard)
		if !m.ReadOnly() {
			_ = r.e.SetMode(o.Shard, m|mode.ReadOnly)
		}
		n, err := r.e.E.Evacuate(ctx, []common.ID{r.e.Sh[o.Shard].ID}, false, nil)
		r.trace = append(r.trace, fmt.Sprintf("%s -> %d, %s", step, n, errStr(err)))
		r.labels["evacuate"] = true
	case "detach":
		if len(r.e.Sh) < 2 {
			r.trace = append(r.trace, step+" -> skipped, last shard")
			return
		}
		m := r.e.Mode(o.Shard)
		if !m.ReadOnly() {
			_ = r.e.SetMode(o.Shard, m|mode.ReadOnly)
		}
		n, err := r.e.E.Evacuate(ctx, []common.ID{r.e.Sh[o.Shard].ID}, false, nil)
		r.labels["evacuate"] = true
		if err != nil {
			r.trace = append(r.trace, fmt.Sprintf("%s -> evacuate %d, %s; not detached", step, n, errStr(err)))
			break
		}
		if r.noMeta(o.Shard) && ev.IsOpen("C19", fpEvacDeg) {
			// OPEN finding of C19: Evacuate of a shard without metabase lists
			// nothing, moves nothing and returns (0, nil). Whatever lived only on
			// this shard (objects, lock objects) is gone with it: the protected
			// objects concerned are no longer asserted.
			for t := 0; t < nObj; t++ {
				if !r.live(t) || r.poisoned[t] != "" {
					continue
				}
				lost := onlyOn(r.e.Holders(r.addr(t)), o.Shard)
				for li := nObj; li < nObj+nLock; li++ {
					if r.h.Objs[li].Target == t {
						lost = lost || onlyOn(r.e.Holders(r.addr(li)), o.Shard)
					}
				}
				if lost {
					r.poisoned[t] = "known finding " + fpEvacDeg
					r.excluded++
					r.labels["known(C19):"+fpEvacDeg] = true
				}
			}
		}
		if err := r.detach(o.Shard); err != nil {
			ev.Inconclusive("C08 engine rebuild: %v", err)
		}
		r.labels["evacuate+detach"] = true
		r.trace = append(r.trace, fmt.Sprintf("%s -> evacuated %d objects; engine restarted over history shards %v (engine shard numbers below are positions in this list)", step, n, r.aliveList()))
	}
	r.lastOp = o.K
	r.checkAll(step)
}

// onlyOn reports whether holders is exactly {k}.
func onlyOn(holders []int, k int) bool { return len(holders) == 1 && holders[0] == k }

func (r *run) aliveList() []int {
	var l []int
	for h, k := range r.slot {
		if k >= 0 {
			l = append(l, h)
		}
	}
	return l
}

// detach closes the engine and opens a new one over the directories of all
// shards but engine shard k (as after removing an evacuated disk); modes and
// injected put failures of the remaining shards are carried over.
func (r *run) detach(k int) error {
	type keep struct {
		m  mode.Mode
		fp bool
	}
	var (
		kept []keep
		sp   = engx.Spec{Root: r.root, Epoch: r.e.Ep}
	)
	for h, cur := range r.slot {
		switch {
		case cur == k:
			r.slot[h] = -1
		case cur >= 0:
			r.slot[h] = len(kept)
			kept = append(kept, keep{r.e.Mode(cur), r.e.Sh[cur].FailPut})
			sp.Dirs = append(sp.Dirs, fmt.Sprintf("s%d", h))
		}
	}
	if err := r.e.Close(); err != nil {
		return err
	}
	e, err := engx.Open(sp)
	if err != nil {
		return err
	}
	e.LogCalls = true
	r.e = e
	for i, kp := range kept {
		if kp.m != mode.ReadWrite {
			if err := e.SetMode(i, kp.m); err != nil {
				return err
			}
		}
		e.Sh[i].FailPut = kp.fp
	}
	e.SetEpoch(r.epoch)
	return nil
}

func (r *run) allHoldersNoMeta(o int) bool {
	h := r.e.Holders(r.addr(o))
	if len(h) == 0 {
		return false
	}
	for _, k := range h {
		if !r.noMeta(k) {
			return false
		}
	}
	return true
}

func replay(h hist, known func(string) bool) (*run, error) {
	dir, err := os.MkdirTemp("", "c08-")
	if err != nil {
		return nil, err
	}
	defer os.RemoveAll(dir)
	sp := engx.Spec{Root: dir, AddOrder: h.AddOrder}
	for k := 0; k < h.N; k++ {
		sp.Dirs = append(sp.Dirs, fmt.Sprintf("s%d", k))
		sp.IDs = append(sp.IDs, engx.MkID(k, h.Hashes[k]))
	}
	e, err := engx.Open(sp)
	if err != nil {
		return nil, err
	}
	e.LogCalls = true
	r := &run{h: h, e: e, root: dir, slot: seq(h.N), tracked: map[int][]lockRec{}, poisoned: map[int]string{}, orders: map[int]string{},
		labels: map[string]bool{}, stage: map[int]int{}, raced: map[int]bool{}, races: map[int]string{}, known: known}
	defer func() { _ = r.e.Close() }()
	for _, s := range h.Objs {
		r.objs = append(r.objs, uni.Build(s))
	}
	for i, o := range h.Ops {
		r.exec(i, o)
		if r.viol != nil {
			break
		}
	}
	return r, nil
}

func replays() int {
	if ev.Thorough() {
		return 12
	}
	return 5
}

func check(t *rapid.T, rec *ev.Recorder, h hist) {
	R := replays()
	var (
		labels  = map[string]bool{}
		orders  = map[int]map[string]bool{}
		nontriv bool
	)
	defer func() {
		ls := make([]string, 0, len(labels))
		for l := range labels {
			ls = append(ls, l)
		}
		sort.Strings(ls)
		rec.Case(nontriv, h.String(), ls...)
		if nontriv && rec.WantSample() {
			rec.Sample(h)
		}
	}()
	staged := false
	for rep := 0; rep < R; rep++ {
		r, err := replay(h, rec.Known)
		if err != nil {
			ev.Inconclusive("C08 engine setup: %v", err)
		}
		rec.Excluded(int64(r.excluded))
		for l := range r.labels {
			labels[l] = true
		}
		for i, o := range r.orders {
			if orders[i] == nil {
				orders[i] = map[string]bool{}
			}
			orders[i][o] = true
		}
		for _, st := range r.stage {
			staged = staged || st == 3
		}
		if r.viol != nil {
			if r.viol.fp != "" {
				r.viol.msg = "[class " + r.viol.fp + "] " + r.viol.msg
			}
			t.Fatalf("C08 violated in replay %d/%d: %s\nhistory:\n%strace of the failing replay:\n  %s",
				rep+1, R, r.viol.msg, h, strings.Join(r.trace, "\n  "))
		}
	}
	multi := false
	for _, s := range orders {
		multi = multi || len(s) >= 2
	}
	if multi {
		labels["broadcast-orders>=2"] = true
	}
	if staged {
		labels["partial-lock>tomb>gc"] = true
	}
	nontriv = staged && multi
}

func TestC08Histories(t *testing.T) {
	rec := ev.New("C08", "histories")
	defer rec.Flush()
	rapid.Check(t, func(t *rapid.T) {
		h := genHist(t, true, false)
		check(t, rec, h)
	})
}

// TestC08Race adds concurrent lock ∥ tombstone broadcasts for the same target.
func TestC08Race(t *testing.T) {
	rec := ev.New("C08", "race")
	defer rec.Flush()
	rapid.Check(t, func(t *rapid.T) {
		h := genHist(t, true, true)
		check(t, rec, h)
	})
}

// tombBeforeLock reports whether, in a race write log like "T@0 L@1 T@1 L@0",
// the tombstone was written to some shard before the lock was written there.
func tombBeforeLock(log string) bool {
	seenT := map[string]bool{}
	for _, w := range strings.Fields(log) {
		sh := w[2:]
		if w[0] == 'T' {
			seenT[sh] = true
		} else if seenT[sh] {
			return true
		}
	}
	return false
}

// schedules returns all interleavings of nT 'T' steps and nL 'L' steps.
func schedules(nT, nL int) []string {
	if nT == 0 && nL == 0 {
		return []string{""}
	}
	var res []string
	if nT > 0 {
		for _, s := range schedules(nT-1, nL) {
			res = append(res, "T"+s)
		}
	}
	if nL > 0 {
		for _, s := range schedules(nT, nL-1) {
			res = append(res, "L"+s)
		}
	}
	return res
}

// TestC08RaceWindow enumerates ALL interleavings (at blob-write granularity)
// of one lock broadcast and one tombstone broadcast for the same stored
// object on 2 shards (thorough: also 3), for every placement of the object and
// every AddShard order; the shard visiting orders of the two broadcasts come
// from Go's map iteration, so every combination is re-run until both orders
// of each broadcast relative to the other were observed (or a cap is hit).
// Afterwards GC runs on every shard. Oracle: as everywhere in C08 – if the
// lock was accepted, the object stays retrievable and locked.
func TestC08RaceWindow(t *testing.T) {
	rec := ev.New("C08", "racewindow")
	defer rec.Flush()
	k, n := ev.Shard()
	type combo struct {
		n      int
		sched  string
		holder int
		add    []int
	}
	var combos []combo
	for _, ns := range []int{2, 3} {
		if ns == 3 && !ev.Thorough() {
			continue
		}
		perms := [][]int{{0, 1}, {1, 0}}
		if ns == 3 {
			perms = [][]int{{0, 1, 2}, {0, 2, 1}, {1, 0, 2}, {1, 2, 0}, {2, 0, 1}, {2, 1, 0}}
		}
		for _, sc := range schedules(ns+1, ns+1) {
			for h := 0; h < ns; h++ {
				for _, p := range perms {
					combos = append(combos, combo{ns, sc, h, p})
				}
			}
		}
	}
	maxTries := 40
	if ev.Thorough() {
		maxTries = 120
	}
	covered := map[string]bool{}
	for ci, c := range combos {
		if ci%n != k {
			continue
		}
		h := hist{N: c.n, AddOrder: c.add}
		// shard hashes: the object (o0, id bytes 00…) lands on the shard whose hash is closest in HRW terms;
		// choose hashes and verify the placement after the first replay.
		for s := 0; s < c.n; s++ {
			h.Hashes = append(h.Hashes, uint64(s+1)*0x1111111111111111)
		}
		for i := 0; i < nObj+nLock+nTomb; i++ {
			sp := uni.Spec{Kind: uni.Regular, Cnr: cnrIdx, ID: i, Exp: -1, Parent: -1, ParentExp: -1, First: -1, PayloadLen: 7}
			if i >= nObj && i < nObj+nLock {
				sp.Kind, sp.PayloadLen = uni.Lock, 0
			} else if i >= nObj+nLock {
				sp.Kind, sp.PayloadLen, sp.Exp = uni.Tombstone, 0, 9
			}
			h.Objs = append(h.Objs, sp)
		}
		// the holder is selected by making every other shard fail puts during the object's put
		for s := 0; s < c.n; s++ {
			if s != c.holder {
				h.Ops = append(h.Ops, op{K: "failput", Shard: s, On: true})
			}
		}
		h.Ops = append(h.Ops, op{K: "put", ID: 0})
		for s := 0; s < c.n; s++ {
			if s != c.holder {
				h.Ops = append(h.Ops, op{K: "failput", Shard: s, On: false})
			}
		}
		raceAt := len(h.Ops)
		h.Ops = append(h.Ops, op{K: "race", ID: nObj, ID2: nObj + nLock, Sched: c.sched})
		for s := 0; s < c.n; s++ {
			h.Ops = append(h.Ops, op{K: "gc", Shard: s})
		}
		seen := map[string]bool{}
		labels := map[string]bool{}
		for try := 0; try < maxTries; try++ {
			r, err := replay(h, rec.Known)
			if err != nil {
				ev.Inconclusive("C08 engine setup: %v", err)
			}
			rec.Excluded(int64(r.excluded))
			for l := range r.labels {
				labels[l] = true
			}
			seen[r.races[raceAt]] = true
			covered[fmt.Sprintf("%d|%s|%d|%v|%s", c.n, c.sched, c.holder, c.add, r.races[raceAt])] = true
			if r.viol != nil {
				t.Fatalf("C08 violated [class %s]: %s\nhistory:\n%strace of the failing replay:\n  %s",
					r.viol.fp, r.viol.msg, h, strings.Join(r.trace, "\n  "))
			}
			if len(seen) >= 4 && try >= 8 {
				break
			}
		}
		ls := []string{fmt.Sprintf("distinct-write-sequences=%d", min(len(seen), 6))}
		for l := range labels {
			if strings.HasPrefix(l, "race") || strings.HasPrefix(l, "known") {
				ls = append(ls, l)
			}
		}
		sort.Strings(ls)
		fpr := fmt.Sprintf("%d %s holder=%d add=%v", c.n, c.sched, c.holder, c.add)
		rec.Case(len(seen) >= 2, fpr, ls...)
		if rec.WantSample() {
			rec.Sample(map[string]any{"combo": fpr, "write_sequences": keys(seen)})
		}
	}
	rec.LabelN("racewindow-distinct-(schedule,placement,write-sequence)-combinations", int64(len(covered)))
	rec.Set("exhaustive_schedules", true)
}

func keys(m map[string]bool) []string {
	r := make([]string, 0, len(m))
	for k := range m {
		r = append(r, k)
	}
	sort.Strings(r)
	return r
}

// Package c08 decides property C08: an object locked through the storage
// engine stays retrievable until the lock expires – under later tombstone
// attempts (also failing, rolled back ones), GC passes, epoch advances, shard
// mode flips, injected per-shard put failures and evacuations, whatever order
// the engine visits its shards in.
//
// Shard visiting order. HRW-sorted paths (Put of regular objects, Get, Head,
// existsPhysical, Delete) depend on shard IDs and the object ID only; shard
// IDs are generated (engx.MkID), so all HRW orders are reachable and every
// case is reproducible. Broadcast paths (LOCK/TOMBSTONE put, IsLocked) iterate
// the engine's shard map: for the ≤8 entry maps Go iterates a random ROTATION
// of the insertion order. Therefore the AddShard order is generated too and
// every history is replayed R times on fresh engines; the visiting order
// really taken by each broadcast is read from the global blob call log and
// reported in the evidence.
package c08

import (
	"context"
	"errors"
	"fmt"
	"os"
	"sort"
	"strings"
	"sync"
	"testing"

	"github.com/nspcc-dev/neofs-node/pkg/local_object_storage/blobstor/common"
	"github.com/nspcc-dev/neofs-node/pkg/local_object_storage/shard/mode"
	"github.com/nspcc-dev/neofs-node/verifharness/engx"
	"github.com/nspcc-dev/neofs-node/verifharness/ev"
	"github.com/nspcc-dev/neofs-node/verifharness/uni"
	apistatus "github.com/nspcc-dev/neofs-sdk-go/client/status"
	"github.com/nspcc-dev/neofs-sdk-go/object"
	oid "github.com/nspcc-dev/neofs-sdk-go/object/id"
	"pgregory.net/rapid"
)

const (
	// fpExpired: the locked object's OWN expiration passes while the shard
	// holding it does not know the lock (lock was accepted by other shards only).
	fpExpired = "C08:expired-locked-object-hidden-without-local-lock"
	// fpRace: concurrent lock and tombstone broadcast, lock accepted, object gone.
	fpRace = "C08:race-lock-accepted-object-removed"

	nObj   = 4 // regular object ids 0..3
	nLock  = 4 // lock ids 4..7
	nTomb  = 4 // tombstone ids 8..11
	maxEp  = 9
	cnrIdx = 0
)

type op struct {
	K     string `json:"k"`           // put lock tomb race mode failput gc epoch evac
	ID    int    `json:"id,omitempty"` // object / lock / tombstone index
	ID2   int    `json:"id2,omitempty"`
	Shard int    `json:"sh,omitempty"`
	Mode  string `json:"m,omitempty"`
	On    bool   `json:"on,omitempty"`
}

func (o op) String() string {
	switch o.K {
	case "put":
		return fmt.Sprintf("put(o%d)", o.ID)
	case "lock":
		return fmt.Sprintf("lock(o%d)", o.ID)
	case "tomb":
		return fmt.Sprintf("tomb(o%d)", o.ID)
	case "race":
		return fmt.Sprintf("race(lock o%d || tomb o%d)", o.ID, o.ID2)
	case "mode":
		return fmt.Sprintf("mode(s%d,%s)", o.Shard, o.Mode)
	case "failput":
		return fmt.Sprintf("failput(s%d,%v)", o.Shard, o.On)
	case "gc":
		return fmt.Sprintf("gc(s%d)", o.Shard)
	case "epoch":
		return "epoch+1"
	case "evac":
		return fmt.Sprintf("evacuate(s%d)", o.Shard)
	}
	return o.K
}

type hist struct {
	N        int        `json:"n"`
	Hashes   []uint64   `json:"hashes"`
	AddOrder []int      `json:"add_order"`
	Objs     []uni.Spec `json:"objs"` // indexes 0..11 of container 0
	Ops      []op       `json:"ops"`
}

func (h hist) String() string {
	var sb strings.Builder
	fmt.Fprintf(&sb, "shards=%d hashes=%x addOrder=%v\n", h.N, h.Hashes, h.AddOrder)
	for i, s := range h.Objs {
		if s.Kind != uni.Regular || s.Exp >= 0 {
			fmt.Fprintf(&sb, "  o%d: %s\n", i, s)
		}
	}
	for i, o := range h.Ops {
		fmt.Fprintf(&sb, "  %2d %s\n", i, o)
	}
	return sb.String()
}

var modes = map[string]mode.Mode{"rw": mode.ReadWrite, "ro": mode.ReadOnly, "degro": mode.DegradedReadOnly}

func genHist(t *rapid.T, withObjExp, withRace bool) hist {
	var h hist
	h.N = rapid.IntRange(2, 3).Draw(t, "nshards")
	for len(h.Hashes) < h.N {
		v := rapid.Uint64().Draw(t, "shardhash")
		dup := false
		for _, x := range h.Hashes {
			dup = dup || x == v
		}
		if !dup {
			h.Hashes = append(h.Hashes, v)
		}
	}
	h.AddOrder = rapid.Permutation(seq(h.N)).Draw(t, "addorder")
	for i := 0; i < nObj+nLock+nTomb; i++ {
		s := uni.Spec{Kind: uni.Regular, Cnr: cnrIdx, ID: i, Exp: -1, Parent: -1, ParentExp: -1, First: -1}
		switch {
		case i < nObj:
			s.PayloadLen = []int{0, 1, 7, 32}[i%4]
			if withObjExp && rapid.IntRange(0, 3).Draw(t, "objhasexp") == 0 {
				s.Exp = rapid.IntRange(0, 5).Draw(t, "objexp")
			}
		case i < nObj+nLock:
			s.Kind = uni.Lock
			s.Target = rapid.IntRange(0, nObj-1).Draw(t, "locktarget")
			if rapid.IntRange(0, 2).Draw(t, "lockhasexp") != 0 {
				s.Exp = rapid.IntRange(1, 7).Draw(t, "lockexp")
			}
		default:
			s.Kind = uni.Tombstone
			s.Target = rapid.IntRange(0, nObj-1).Draw(t, "tombtarget")
			s.Exp = rapid.IntRange(3, maxEp+3).Draw(t, "tombexp")
		}
		h.Objs = append(h.Objs, s)
	}
	nops := rapid.IntRange(4, 18).Draw(t, "nops")
	kinds := []string{"put", "put", "lock", "lock", "lock", "tomb", "tomb", "tomb", "mode", "mode", "mode", "failput", "gc", "gc", "epoch", "evac"}
	if withRace {
		kinds = append(kinds, "race")
	}
	for len(h.Ops) < nops {
		o := op{K: rapid.SampledFrom(kinds).Draw(t, "op")}
		switch o.K {
		case "put":
			o.ID = rapid.IntRange(0, nObj-1).Draw(t, "obj")
		case "lock":
			o.ID = nObj + rapid.IntRange(0, nLock-1).Draw(t, "lockid")
		case "tomb":
			o.ID = nObj + nLock + rapid.IntRange(0, nTomb-1).Draw(t, "tombid")
		case "race":
			o.ID = nObj + rapid.IntRange(0, nLock-1).Draw(t, "lockid")
			// a tombstone aimed at the same target, if there is one
			o.ID2 = nObj + nLock + rapid.IntRange(0, nTomb-1).Draw(t, "tombid")
			for k := 0; k < nTomb; k++ {
				if h.Objs[nObj+nLock+k].Target == h.Objs[o.ID].Target {
					o.ID2 = nObj + nLock + k
					break
				}
			}
		case "mode":
			o.Shard = rapid.IntRange(0, h.N-1).Draw(t, "shard")
			o.Mode = rapid.SampledFrom([]string{"rw", "rw", "ro", "ro", "degro"}).Draw(t, "mode")
		case "failput":
			o.Shard = rapid.IntRange(0, h.N-1).Draw(t, "shard")
			o.On = rapid.Bool().Draw(t, "on")
		case "gc", "evac":
			o.Shard = rapid.IntRange(0, h.N-1).Draw(t, "shard")
		}
		h.Ops = append(h.Ops, o)
	}
	return h
}

func seq(n int) []int {
	r := make([]int, n)
	for i := range r {
		r[i] = i
	}
	return r
}

// violation is a property violation found in one replay.
type violation struct {
	fp  string // known-finding class ("" = none)
	msg string
}

type lockRec struct {
	exp     int // -1 none
	partial bool
}

// replay state and result
type run struct {
	h     hist
	e     *engx.Eng
	epoch uint64
	objs  []*object.Object
	// tracked[o] = locks accepted by the engine for stored object o
	tracked  map[int][]lockRec
	poisoned map[int]string
	trace    []string
	orders   map[int]string // op index -> observed broadcast order
	labels   map[string]bool
	// progress of the non-triviality rule per object: 1 = partial lock accepted,
	// 2 = +tombstone attempt while live, 3 = +GC pass
	stage map[int]int
	viol  *violation
}

func (r *run) addr(i int) oid.Address { return uni.Addr(cnrIdx, i) }

func (r *run) live(o int) bool {
	for _, l := range r.tracked[o] {
		if l.exp < 0 || r.epoch <= uint64(l.exp) {
			return true
		}
	}
	return false
}

func (r *run) noMeta(k int) bool { return r.e.Mode(k).NoMetabase() }

func (r *run) anyNoMeta() bool {
	for k := range r.e.Sh {
		if r.noMeta(k) {
			return true
		}
	}
	return false
}

// knowers returns the shards whose metabase reports o as locked right now.
func (r *run) knowers(o int) []int {
	var res []int
	for k, s := range r.e.Sh {
		if l, err := s.S.IsLocked(r.addr(o)); err == nil && l {
			res = append(res, k)
		}
	}
	return res
}

func (r *run) fail(fp, format string, a ...any) {
	if r.viol == nil {
		r.viol = &violation{fp: fp, msg: fmt.Sprintf(format, a...)}
	}
}

func (r *run) objExpired(o int) bool {
	e := r.h.Objs[o].Exp
	return e >= 0 && r.epoch > uint64(e)
}

// checkAll asserts the property for every object with a live accepted lock.
func (r *run) checkAll(step string) {
	for o := 0; o < nObj; o++ {
		if !r.live(o) || r.poisoned[o] != "" || r.viol != nil {
			continue
		}
		fp := ""
		if r.objExpired(o) {
			fp = fpExpired
		}
		a := r.addr(o)
		holders := r.e.Holders(a)
		allDeg := len(holders) > 0
		for _, k := range holders {
			allDeg = allDeg && r.noMeta(k)
		}
		if allDeg {
			r.labels["skip-read-all-holders-degraded"] = true
		} else {
			cls, got, err := r.e.Get(a)
			switch {
			case cls != engx.OK:
				r.fail(fp, "after %s: locked object o%d is not retrievable: Get = %v (class %s); physical holders %v, lock known on shards %v, modes %s",
					step, o, err, cls, holders, r.knowers(o), r.modesStr())
			case !engx.SameObject(got, r.objs[o]):
				r.fail(fp, "after %s: locked object o%d read with different bytes", step, o)
			}
		}
		if r.viol != nil {
			return
		}
		if r.anyNoMeta() {
			r.labels["skip-islocked-some-shard-degraded"] = true
			continue
		}
		l, err := r.e.E.IsLocked(context.Background(), a)
		if err != nil || !l {
			r.fail(fp, "after %s: IsLocked(o%d) = %v, %v while an accepted lock is live (epoch %d); lock known on shards %v",
				step, o, l, err, r.epoch, r.knowers(o))
		}
	}
}

func (r *run) modesStr() string {
	var p []string
	for k, s := range r.e.Sh {
		m := engx.ModeName(r.e.Mode(k))
		if s.FailPut {
			m += "+failput"
		}
		p = append(p, fmt.Sprintf("s%d=%s", k, m))
	}
	return strings.Join(p, " ")
}

func (r *run) allWritable() bool {
	for k, s := range r.e.Sh {
		if r.e.Mode(k) != mode.ReadWrite || s.FailPut {
			return false
		}
	}
	return true
}

func errStr(err error) string {
	switch {
	case err == nil:
		return "nil"
	case errors.Is(err, apistatus.ErrObjectLocked):
		return "ObjectLocked"
	case errors.Is(err, apistatus.ErrObjectAlreadyRemoved):
		return "AlreadyRemoved"
	case errors.Is(err, apistatus.ErrLockNonRegularObject):
		return "LockNonRegular"
	}
	s := err.Error()
	if len(s) > 90 {
		s = s[:90] + "…"
	}
	return s
}

// noteOrder records the order in which shards saw the blob Put of address a.
func (r *run) noteOrder(i int, a ...oid.Address) {
	var p []string
	for _, c := range r.e.TakeCalls() {
		if c.Method != "Put" {
			continue
		}
		for _, x := range a {
			if c.Addr == x {
				p = append(p, fmt.Sprintf("%d", c.Shard))
			}
		}
	}
	if len(p) > 1 {
		r.orders[i] = strings.Join(p, ">")
	}
}

func (r *run) acceptLock(i int, lockIdx int, partial bool) {
	s := r.h.Objs[lockIdx]
	o := s.Target
	if s.Exp >= 0 && r.epoch > uint64(s.Exp) {
		return
	}
	cls, got, _ := r.e.Get(r.addr(o))
	if cls != engx.OK || !engx.SameObject(got, r.objs[o]) {
		r.labels["lock-accepted-target-not-stored"] = true
		return
	}
	if len(r.knowers(o)) == 0 {
		// accepted by shards without metabase only: nothing can enforce it
		r.labels["lock-accepted-unknown-to-any-metabase"] = true
		return
	}
	if r.objExpired(o) {
		return
	}
	r.tracked[o] = append(r.tracked[o], lockRec{exp: s.Exp, partial: partial})
	r.labels["lock-tracked"] = true
	if partial {
		r.labels["lock-tracked-partial"] = true
		if r.stage[o] < 1 {
			r.stage[o] = 1
		}
	}
}

func (r *run) exec(i int, o op) {
	ctx := context.Background()
	step := fmt.Sprintf("op %d %s", i, o)
	switch o.K {
	case "put":
		err := r.e.E.Put(ctx, r.objs[o.ID], nil)
		r.trace = append(r.trace, fmt.Sprintf("%s -> %s", step, errStr(err)))
	case "lock":
		partial := !r.allWritable()
		r.e.TakeCalls()
		err := r.e.E.Put(ctx, r.objs[o.ID], nil)
		r.noteOrder(i, r.addr(o.ID))
		r.trace = append(r.trace, fmt.Sprintf("%s [%s] -> %s order %s", step, r.modesStr(), errStr(err), r.orders[i]))
		if err == nil {
			r.acceptLock(i, o.ID, partial)
		}
	case "tomb":
		tgt := r.h.Objs[o.ID].Target
		protected := r.live(tgt) && r.poisoned[tgt] == ""
		var kn []int
		if protected {
			kn = r.knowers(tgt)
		}
		r.e.TakeCalls()
		err := r.e.E.Put(ctx, r.objs[o.ID], nil)
		r.noteOrder(i, r.addr(o.ID))
		r.trace = append(r.trace, fmt.Sprintf("%s [%s] -> %s order %s", step, r.modesStr(), errStr(err), r.orders[i]))
		if protected {
			r.labels["tomb-attempt-on-live-lock"] = true
			if r.stage[tgt] == 1 {
				r.stage[tgt] = 2
			}
			switch {
			case len(kn) == 0:
				// every shard knowing the lock runs without metabase: the engine cannot see the lock
				r.labels["tomb-while-lock-knowers-degraded"] = true
				r.poisoned[tgt] = "tombstone put while every shard knowing the lock had no metabase"
			case err == nil:
				fp := ""
				if r.objExpired(tgt) {
					fp = fpExpired
				}
				r.fail(fp, "%s: tombstone for locked object o%d was accepted (Put = nil); lock known on shards %v, modes %s", step, tgt, kn, r.modesStr())
			}
		}
	case "race":
		lockIdx, tombIdx := o.ID, o.ID2
		tgt := r.h.Objs[lockIdx].Target
		same := r.h.Objs[tombIdx].Target == tgt
		pre, _, _ := r.e.Get(r.addr(tgt))
		wasLive := r.live(tgt)
		partial := !r.allWritable()
		var (
			wg         sync.WaitGroup
			errL, errT error
		)
		r.e.TakeCalls()
		wg.Add(2)
		go func() { defer wg.Done(); errL = r.e.E.Put(ctx, r.objs[lockIdx], nil) }()
		go func() { defer wg.Done(); errT = r.e.E.Put(ctx, r.objs[tombIdx], nil) }()
		wg.Wait()
		r.noteOrder(i, r.addr(lockIdx), r.addr(tombIdx))
		post, _, _ := r.e.Get(r.addr(tgt))
		r.trace = append(r.trace, fmt.Sprintf("%s [%s] -> lock %s, tomb %s; target before %s after %s", step, r.modesStr(), errStr(errL), errStr(errT), pre, post))
		r.labels["race"] = true
		if same && pre == engx.OK && !wasLive && r.poisoned[tgt] == "" && !r.objExpired(tgt) {
			r.labels["race-same-target-available"] = true
			switch {
			case errL == nil && errT == nil:
				r.labels["race-both-accepted"] = true
			case errL != nil && errT != nil:
				r.labels["race-both-refused"] = true
				if post != engx.OK {
					r.labels["race-both-refused-target-unreadable"] = true
				}
			}
			if errL == nil && len(r.knowers(tgt)) > 0 && post != engx.OK && !r.allHoldersNoMeta(tgt) {
				r.fail(fpRace, "%s: lock accepted (Put = nil) concurrently with a tombstone, but the locked object o%d is %s afterwards (tomb Put = %s)", step, tgt, post, errStr(errT))
				if r.viol != nil && r.viol.fp == fpRace {
					r.poisoned[tgt] = "race"
				}
			}
		}
		if same && wasLive && r.poisoned[tgt] == "" && errT == nil && len(r.knowers(tgt)) > 0 {
			// tombstone raced with a second lock while an earlier accepted lock was live
			r.fail("", "%s: tombstone for locked object o%d was accepted (Put = nil)", step, tgt)
		}
		if errL == nil {
			r.acceptLock(i, lockIdx, partial)
		}
	case "mode":
		err := r.e.SetMode(o.Shard, modes[o.Mode])
		r.trace = append(r.trace, fmt.Sprintf("%s -> %s", step, errStr(err)))
	case "failput":
		r.e.Sh[o.Shard].FailPut = o.On
		r.trace = append(r.trace, step)
	case "gc":
		r.e.GC(o.Shard)
		r.trace = append(r.trace, step)
		for t, st := range r.stage {
			if st == 2 && r.live(t) {
				r.stage[t] = 3
			}
		}
	case "epoch":
		r.epoch++
		r.e.SetEpoch(r.epoch)
		r.trace = append(r.trace, fmt.Sprintf("%s -> epoch %d", step, r.epoch))
	case "evac":
		m := r.e.Mode(o.Shard)
		if !m.ReadOnly() {
			_ = r.e.SetMode(o.Shard, m|mode.ReadOnly)
		}
		n, err := r.e.E.Evacuate(ctx, []common.ID{r.e.Sh[o.Shard].ID}, false, nil)
		r.trace = append(r.trace, fmt.Sprintf("%s -> %d, %s", step, n, errStr(err)))
		r.labels["evacuate"] = true
	}
	r.checkAll(step)
}

func (r *run) allHoldersNoMeta(o int) bool {
	h := r.e.Holders(r.addr(o))
	if len(h) == 0 {
		return false
	}
	for _, k := range h {
		if !r.noMeta(k) {
			return false
		}
	}
	return true
}

func replay(h hist) (*run, error) {
	dir, err := os.MkdirTemp("", "c08-")
	if err != nil {
		return nil, err
	}
	defer os.RemoveAll(dir)
	sp := engx.Spec{Root: dir, AddOrder: h.AddOrder}
	for k := 0; k < h.N; k++ {
		sp.Dirs = append(sp.Dirs, fmt.Sprintf("s%d", k))
		sp.IDs = append(sp.IDs, engx.MkID(k, h.Hashes[k]))
	}
	e, err := engx.Open(sp)
	if err != nil {
		return nil, err
	}
	defer e.Close()
	e.LogCalls = true
	r := &run{h: h, e: e, tracked: map[int][]lockRec{}, poisoned: map[int]string{}, orders: map[int]string{},
		labels: map[string]bool{}, stage: map[int]int{}}
	for _, s := range h.Objs {
		r.objs = append(r.objs, uni.Build(s))
	}
	for i, o := range h.Ops {
		r.exec(i, o)
		if r.viol != nil {
			break
		}
	}
	return r, nil
}

func replays() int {
	if ev.Thorough() {
		return 12
	}
	return 5
}

func check(t *rapid.T, rec *ev.Recorder, h hist) {
	R := replays()
	var (
		labels  = map[string]bool{}
		orders  = map[int]map[string]bool{}
		nontriv bool
	)
	defer func() {
		ls := make([]string, 0, len(labels))
		for l := range labels {
			ls = append(ls, l)
		}
		sort.Strings(ls)
		rec.Case(nontriv, h.String(), ls...)
		if nontriv && rec.WantSample() {
			rec.Sample(h)
		}
	}()
	staged := false
	for rep := 0; rep < R; rep++ {
		r, err := replay(h)
		if err != nil {
			ev.Inconclusive("C08 engine setup: %v", err)
		}
		for l := range r.labels {
			labels[l] = true
		}
		for i, o := range r.orders {
			if orders[i] == nil {
				orders[i] = map[string]bool{}
			}
			orders[i][o] = true
		}
		for _, st := range r.stage {
			staged = staged || st == 3
		}
		if r.viol != nil {
			if r.viol.fp != "" && rec.Known(r.viol.fp) {
				rec.Excluded(1)
				labels["known:"+r.viol.fp] = true
				continue
			}
			t.Fatalf("C08 violated in replay %d/%d: %s\nhistory:\n%strace of the failing replay:\n  %s",
				rep+1, R, r.viol.msg, h, strings.Join(r.trace, "\n  "))
		}
	}
	multi := false
	for _, s := range orders {
		multi = multi || len(s) >= 2
	}
	if multi {
		labels["broadcast-orders>=2"] = true
	}
	if staged {
		labels["partial-lock>tomb>gc"] = true
	}
	nontriv = staged && multi
}

func TestC08Histories(t *testing.T) {
	rec := ev.New("C08", "histories")
	defer rec.Flush()
	withObjExp := !ev.IsOpen("C08", fpExpired)
	rapid.Check(t, func(t *rapid.T) {
		if !withObjExp {
			rec.Excluded(0)
		}
		h := genHist(t, withObjExp, false)
		check(t, rec, h)
	})
}

// TestC08Race adds concurrent lock ∥ tombstone broadcasts for the same target.
func TestC08Race(t *testing.T) {
	rec := ev.New("C08", "race")
	defer rec.Flush()
	withObjExp := !ev.IsOpen("C08", fpExpired)
	rapid.Check(t, func(t *rapid.T) {
		h := genHist(t, withObjExp, true)
		check(t, rec, h)
	})
}

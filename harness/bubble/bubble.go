// Package bubble composes rapid with testing/synctest: each generated case
// runs inside its own synctest bubble so tickers, sleeps and back-off timers
// of the code under test run on fake time. Failures (t.Fatalf → panic inside
// rapid) are recovered inside the bubble and re-raised outside so rapid can
// shrink them.
//
// rapid's shrinker decides "same failure" by comparing stack tracebacks taken
// at recover time. A re-raised panic would always have the same traceback
// (this package), which would make rapid accept *invalid* shrink candidates
// (its internal invalidData panics). Therefore the panic is re-raised from a
// recursion whose depth is a hash of the panic's type and original call stack:
// different origins ⇒ different tracebacks.
//
// Inside the bubble use time.Sleep(d) to advance fake time and
// synctest.Wait() to let background goroutines settle. All goroutines started
// by the case must have exited (components closed) before the case returns,
// otherwise synctest reports a deadlock/leak – close shards/caches in a defer.
package bubble

import (
	"fmt"
	"hash/fnv"
	"runtime"
	"strings"
	"testing"
	"testing/synctest"

	"pgregory.net/rapid"
)

// Check is rapid.Check with every case wrapped in a synctest bubble.
func Check(t *testing.T, prop func(t *rapid.T)) {
	rapid.Check(t, func(rt *rapid.T) {
		Run(t, func() { prop(rt) })
	})
}

// Run runs f in a fresh synctest bubble and re-panics outside of it whatever
// f panicked with (rapid implements Fatalf/Skip/invalid-draw via panics).
func Run(t *testing.T, f func()) {
	var (
		p     any
		depth int
	)
	synctest.Test(t, func(*testing.T) {
		defer func() {
			p = recover()
			if p != nil {
				depth = origin(p)
			}
		}()
		f()
	})
	if p != nil {
		if strings.HasSuffix(fmt.Sprintf("%T", p), "invalidData") {
			// rapid's "this byte stream is not a valid case" signal must never look like a
			// real failure to the shrinker: re-raise it from a function of its own.
			rethrowInvalid(p)
		}
		rethrow(p, depth)
	}
}

//go:noinline
func rethrowInvalid(p any) {
	panic(p)
}

// origin hashes the panic type and the stack at recover time (which still
// contains the frames of the panic site) into 1..20.
func origin(p any) int {
	h := fnv.New32a()
	fmt.Fprintf(h, "%T|", p)
	pcs := make([]uintptr, 40)
	pcs = pcs[:runtime.Callers(2, pcs)]
	frames := runtime.CallersFrames(pcs)
	for {
		fr, more := frames.Next()
		if strings.HasSuffix(fr.Function, "bubble.Run") || strings.Contains(fr.Function, "synctest") {
			break
		}
		if !strings.HasPrefix(fr.Function, "runtime.") {
			fmt.Fprintf(h, "%s:%d|", fr.Function, fr.Line)
		}
		if !more {
			break
		}
	}
	return 1 + int(h.Sum32()%20)
}

//go:noinline
func rethrow(p any, depth int) int {
	if depth <= 0 {
		panic(p)
	}
	return rethrow(p, depth-1) + 1
}

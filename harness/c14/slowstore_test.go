package c14

import (
	"sync"

	"github.com/nspcc-dev/neofs-node/pkg/local_object_storage/blobstor/common"
	"github.com/nspcc-dev/neofs-node/pkg/local_object_storage/blobstor/fstree"
	oid "github.com/nspcc-dev/neofs-sdk-go/object/id"
)

// slowStore models a blob storage on a slow disk: a write that has passed the
// storage's own mode check at its entry (FSTree.Put checks t.readOnly first and
// then creates directories, writes, syncs and links the file) takes time before
// the bytes land. While the gate is armed, Put/PutBatch calls of BACKGROUND
// jobs check the mode, park on the gate (a channel made inside the synctest
// bubble, so the parked goroutine is durably blocked) and, once released, let
// the bytes land through raw – a second FSTree handle on the same directory
// that is never switched, i.e. "the part of the write that is already below the
// mode check". Calls made after switching() (SetMode's own synchronous flush)
// and everything else go straight to the real storage.
//
// Nothing here decides anything randomly; the test arms / releases the gate.
type slowStore struct {
	common.Storage                // the shard's real blobstor (mode-switched by the shard)
	raw            *fstree.FSTree // same directory, always writable

	mu     sync.Mutex
	ro     bool
	gate   chan struct{}
	bypass bool
	parked int
}

func (s *slowStore) Open(ro bool) error {
	err := s.Storage.Open(ro)
	if err == nil {
		s.mu.Lock()
		s.ro = ro
		s.mu.Unlock()
	}
	return err
}

// arm makes background writes park from now on.
func (s *slowStore) arm() {
	s.mu.Lock()
	s.gate, s.bypass, s.parked = make(chan struct{}), false, 0
	s.mu.Unlock()
}

// switching lets every write that starts from now on pass (already parked ones stay parked).
func (s *slowStore) switching() { s.mu.Lock(); s.bypass = true; s.mu.Unlock() }

// release lets the parked writes land and disarms the gate.
func (s *slowStore) release() {
	s.mu.Lock()
	g := s.gate
	s.gate = nil
	s.mu.Unlock()
	if g != nil {
		close(g)
	}
}

func (s *slowStore) parkedWrites() int { s.mu.Lock(); defer s.mu.Unlock(); return s.parked }

// enter returns the gate to wait on (nil: plain call) or the mode error.
func (s *slowStore) enter() (chan struct{}, error) {
	s.mu.Lock()
	defer s.mu.Unlock()
	if s.gate == nil || s.bypass {
		return nil, nil
	}
	if s.ro {
		return nil, common.ErrReadOnly
	}
	s.parked++
	return s.gate, nil
}

func (s *slowStore) Put(a oid.Address, b []byte) error {
	g, err := s.enter()
	if err != nil {
		return err
	}
	if g == nil {
		return s.Storage.Put(a, b)
	}
	<-g
	return s.raw.Put(a, b)
}

func (s *slowStore) PutBatch(m map[oid.Address][]byte) error {
	g, err := s.enter()
	if err != nil {
		return err
	}
	if g == nil {
		return s.Storage.PutBatch(m)
	}
	<-g
	return s.raw.PutBatch(m)
}

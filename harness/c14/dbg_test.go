package c14

import (
	"fmt"
	"os"
	"testing"
	"testing/synctest"
	"time"

	"github.com/nspcc-dev/neofs-node/pkg/local_object_storage/shard/mode"
	"github.com/nspcc-dev/neofs-node/verifharness/bubble"
	"github.com/nspcc-dev/neofs-node/verifharness/stor"
	"github.com/nspcc-dev/neofs-node/verifharness/uni"
)

func TestDbg(t *testing.T) {
	bubble.Run(t, func() {
		dir, _ := os.MkdirTemp("", "x")
		defer os.RemoveAll(dir)
		sh, err := stor.OpenShard(stor.ShardCfg{Dir: dir, WriteCache: true, GCInterval: time.Second})
		if err != nil {
			t.Fatal(err)
		}
		defer sh.Close()
		s := uni.Spec{Kind: uni.Regular, Cnr: 0, ID: 0, Exp: 2, PayloadLen: 7, Parent: -1, ParentExp: -1, First: -1}
		fmt.Println(sh.Put(uni.Build(s), nil))
		time.Sleep(time.Second)
		synctest.Wait()
		fmt.Println(sh.Put(uni.Build(s), nil))
		a, err := sh.Get(uni.Addr(0, 0), false)
		fmt.Println(err)
		fmt.Println(sh.SetMode(mode.DegradedReadOnly))
		b, err := sh.Get(uni.Addr(0, 0), false)
		fmt.Println(err)
		fmt.Printf("%x\n%x\n", a.Marshal(), b.Marshal())
		fmt.Printf("%x\n", uni.Build(s).Marshal())
	})
}

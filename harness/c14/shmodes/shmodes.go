// Package shmodes is shared by the shard-mode checks C14 and C43: the
// classification of *shard.Shard's exported method set (checked by reflection
// so that a NEW exported method cannot silently stay outside the checks), the
// "mode error" predicate, result classification of reads and a dump-stream
// builder for Shard.Restore.
//
// Nothing here draws random values.
package shmodes

import (
	"bytes"
	"crypto/sha256"
	"encoding/binary"
	"encoding/hex"
	"errors"
	"fmt"
	"reflect"
	"sort"
	"strings"

	ierrors "github.com/nspcc-dev/neofs-node/internal/errors"
	"github.com/nspcc-dev/neofs-node/pkg/local_object_storage/blobstor/common"
	meta "github.com/nspcc-dev/neofs-node/pkg/local_object_storage/metabase"
	"github.com/nspcc-dev/neofs-node/pkg/local_object_storage/shard"
	"github.com/nspcc-dev/neofs-node/pkg/local_object_storage/writecache"
	apistatus "github.com/nspcc-dev/neofs-sdk-go/client/status"
	"github.com/nspcc-dev/neofs-sdk-go/object"
	oid "github.com/nspcc-dev/neofs-sdk-go/object/id"
)

// Classes of exported *shard.Shard methods.
const (
	Modify    = "modify"    // changes stored objects / metadata / write-cache contents on request
	Read      = "read"      // only reads persisted state
	ModeCh    = "mode"      // changes the mode of the shard (SetMode, Reload)
	Lifecycle = "lifecycle" // Open / Init / Close
	Event     = "event"     // event delivery (epoch notifications)
	Shim      = "shim"      // /verif export shims (-tags verif)
)

// Class maps every exported method of *shard.Shard (this revision) to its class.
var Class = map[string]string{
	"Put":             Modify,
	"Delete":          Modify,
	"MarkGarbage":     Modify,
	"InhumeContainer": Modify,
	"DeleteContainer": Modify,
	"Restore":         Modify,
	"ReviveObject":    Modify,
	"FlushWriteCache": Modify,

	"SetMode": ModeCh,
	"Reload":  ModeCh,

	"Open":  Lifecycle,
	"Init":  Lifecycle,
	"Close": Lifecycle,

	"NotificationChannel": Event,

	"VerifGCPass":   Shim,
	"VerifNewEpoch": Shim,
	"VerifGCEpochs": Shim,

	"ContainerInfo":                    Read,
	"Dump":                             Read,
	"ReadECPart":                       Read,
	"GetECPart":                        Read,
	"ReadECPartRange":                  Read,
	"GetECPartRange":                   Read,
	"ReadECPartHeader":                 Read,
	"HeadECPart":                       Read,
	"Exists":                           Read,
	"Get":                              Read,
	"GetBytes":                         Read,
	"GetBytesWithMetadataLookup":       Read,
	"GetStream":                        Read,
	"ReadObject":                       Read,
	"ReadPayloadRange":                 Read,
	"Head":                             Read,
	"ReadHeader":                       Read,
	"DumpInfo":                         Read,
	"List":                             Read,
	"ListContainers":                   Read,
	"ListWithCursor":                   Read,
	"IsLocked":                         Read,
	"GetMode":                          Read,
	"GetRangeStream":                   Read,
	"ReadRange":                        Read,
	"GetRangeStreamWithMetadataLookup": Read,
	"Select":                           Read,
	"Search":                           Read,
	"CollectRawWithAttribute":          Read,
	"ID":                               Read,
	"ObjectStatus":                     Read,
}

// Unclassified returns the exported methods of *shard.Shard missing from Class
// and the Class entries that no longer exist (both sorted).
func Unclassified() (missing, stale []string) {
	t := reflect.TypeOf((*shard.Shard)(nil))
	have := map[string]bool{}
	for i := 0; i < t.NumMethod(); i++ {
		n := t.Method(i).Name
		have[n] = true
		if strings.HasPrefix(n, "Verif") {
			continue // /verif export shims (overlay files of any check, -tags verif)
		}
		if _, ok := Class[n]; !ok {
			missing = append(missing, n)
		}
	}
	for n, c := range Class {
		if !have[n] && c != Shim {
			stale = append(stale, n)
		}
	}
	sort.Strings(missing)
	sort.Strings(stale)
	return
}

// ModifyMethods returns the sorted names of the Modify class.
func ModifyMethods() []string {
	var r []string
	for n, c := range Class {
		if c == Modify {
			r = append(r, n)
		}
	}
	sort.Strings(r)
	return r
}

// IsShardModeErr reports whether err is one of the shard-level mode errors
// (the only ones the engine recognises as "not a shard failure", see
// engine/inhume.go and engine/put.go).
func IsShardModeErr(err error) bool {
	return errors.Is(err, shard.ErrReadOnlyMode) || errors.Is(err, shard.ErrDegradedMode)
}

// IsComponentModeErr reports whether err is a component-level equivalent of a
// mode error (metabase / write-cache / blob storage read-only or degraded).
func IsComponentModeErr(err error) bool {
	return errors.Is(err, meta.ErrReadOnlyMode) || errors.Is(err, meta.ErrDegradedMode) ||
		errors.Is(err, writecache.ErrReadOnly) || errors.Is(err, common.ErrReadOnly)
}

// ReadClass maps the error of a read to a stable class string.
func ReadClass(err error) string {
	var si *object.SplitInfoError
	switch {
	case err == nil:
		return "ok"
	case errors.Is(err, ierrors.ErrParentObject):
		return "parent"
	case errors.As(err, &si):
		return "splitinfo"
	case errors.Is(err, apistatus.ErrObjectAlreadyRemoved):
		return "removed"
	case errors.Is(err, meta.ErrObjectIsExpired):
		return "expired"
	case errors.Is(err, apistatus.ErrObjectNotFound):
		if errors.Is(err, shard.ErrMetaWithNoObject) {
			return "meta-without-object"
		}
		return "notfound"
	case IsShardModeErr(err) || IsComponentModeErr(err):
		return "mode"
	default:
		return "other:" + err.Error()
	}
}

// Sum is a short content hash.
func Sum(b []byte) string {
	h := sha256.Sum256(b)
	return hex.EncodeToString(h[:8])
}

// DumpStream builds a stream in the format of Shard.Dump / Shard.Restore.
func DumpStream(objs ...*object.Object) []byte {
	var b bytes.Buffer
	b.WriteString("NEOF")
	for _, o := range objs {
		d := o.Marshal()
		var sz [4]byte
		binary.LittleEndian.PutUint32(sz[:], uint32(len(d)))
		b.Write(sz[:])
		b.Write(d)
	}
	return b.Bytes()
}

// Reads is the observable read view of a shard over a set of addresses.
type Reads map[string]string

// Observe queries Get / Head / Exists / GetBytes for every address and returns
// "class[:hash]" strings keyed by "<op> <addr index>". skipMeta is passed to Get.
func Observe(sh *shard.Shard, addrs []oid.Address) Reads {
	r := Reads{}
	for i, a := range addrs {
		o, err := sh.Get(a, false)
		v := ReadClass(err)
		if err == nil && o == nil {
			v += ":nil-object"
		} else if err == nil {
			v += ":" + Sum(o.Marshal())
		}
		r[fmt.Sprintf("get %d", i)] = v
		h, err := sh.Head(a, false)
		v = ReadClass(err)
		if err == nil && h == nil {
			v += ":nil-header" // Head(parent) whose found child carries no parent header
		} else if err == nil {
			v += ":" + Sum(h.CutPayload().Marshal())
		}
		r[fmt.Sprintf("head %d", i)] = v
		ex, err := sh.Exists(a, false)
		r[fmt.Sprintf("exists %d", i)] = fmt.Sprintf("%v/%s", ex, ReadClass(err))
		b, err := sh.GetBytes(a)
		v = ReadClass(err)
		if err == nil {
			v += ":" + Sum(b)
		}
		r[fmt.Sprintf("getbytes %d", i)] = v
	}
	return r
}

// DiffReads lists the keys whose values differ (sorted, "key: a -> b").
func DiffReads(a, b Reads) []string {
	var d []string
	for k, v := range a {
		if b[k] != v {
			d = append(d, fmt.Sprintf("%s: %s -> %s", k, v, b[k]))
		}
	}
	for k, v := range b {
		if _, ok := a[k]; !ok {
			d = append(d, fmt.Sprintf("%s: <none> -> %s", k, v))
		}
	}
	sort.Strings(d)
	return d
}

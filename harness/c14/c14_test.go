// Package c14 decides property C14: while a shard is read-only or degraded
// read-only, no operation or background job changes its stored objects,
// metadata or write-cache contents; every modifying request fails with a mode
// error; reads keep working as docs/shard-modes.md specifies.
//
// Each generated case runs a REAL shard (FSTree blobstor, bbolt metabase, with
// or without write-cache) inside a testing/synctest bubble with a 1 s GC
// remover interval, so the GC ticker, the epoch event listener and the
// write-cache flush scheduler/workers really run (on fake time) during the
// read-only phase.
//
//	phase 1 (read-write): random history of puts (regular / tombstone / lock /
//	    split children / EC parts, with expirations), garbage marks, deletes,
//	    epoch events, GC passes and sleeps; it ends with puts that are still in
//	    the write-cache and garbage marks nobody collected yet.
//	phase 2: SetMode(READ_ONLY | DEGRADED_READ_ONLY); baseline = content hashes of
//	    the whole shard directory (blob/, meta, wc/) taken right AFTER the switch
//	    (half of the write-cache cases switch while a background flush is parked
//	    inside a slow blob write, see slowStore: if SetMode returns before that
//	    write finished, the baseline is what is on disk at that moment);
//	    then random modifying requests through every exported modifying method of
//	    *shard.Shard (enumerated by reflection, package shmodes), epoch events
//	    (through the real notification channel and synchronously), explicit GC
//	    passes, unpaid-container marks, reads and >= 60 s of fake time.
//
// Oracle: (1) every modifying request returns a non-nil error that is a
// shard-level mode error (shard.ErrReadOnlyMode / shard.ErrDegradedMode – what
// the engine recognises, engine/inhume.go, engine/put.go); (2) the directory
// snapshot after every step equals the baseline (paths, sizes, sha256; times
// ignored); (3) reads: READ_ONLY answers exactly as before the switch,
// DEGRADED_READ_ONLY returns every object that was readable before the switch
// byte-identically from the blob level, and the read view at the end of phase 2
// equals the one right after the switch.
package c14

import (
	"bytes"
	"context"
	"crypto/sha256"
	"encoding/hex"
	"fmt"
	"io"
	"io/fs"
	"os"
	"path/filepath"
	"runtime"
	"runtime/debug"
	"sort"
	"strings"
	"sync"
	"sync/atomic"
	"syscall"
	"testing"
	"testing/synctest"
	"time"

	"github.com/nspcc-dev/bbolt"
	"github.com/nspcc-dev/neofs-node/pkg/local_object_storage/blobstor/common"
	"github.com/nspcc-dev/neofs-node/pkg/local_object_storage/blobstor/fstree"
	meta "github.com/nspcc-dev/neofs-node/pkg/local_object_storage/metabase"
	"github.com/nspcc-dev/neofs-node/pkg/local_object_storage/shard"
	"github.com/nspcc-dev/neofs-node/pkg/local_object_storage/shard/mode"
	"github.com/nspcc-dev/neofs-node/pkg/local_object_storage/writecache"
	"github.com/nspcc-dev/neofs-node/verifharness/bubble"
	"github.com/nspcc-dev/neofs-node/verifharness/c14/shmodes"
	"github.com/nspcc-dev/neofs-node/verifharness/ev"
	"github.com/nspcc-dev/neofs-node/verifharness/snap"
	"github.com/nspcc-dev/neofs-node/verifharness/stor"
	"github.com/nspcc-dev/neofs-node/verifharness/uni"
	cid "github.com/nspcc-dev/neofs-sdk-go/container/id"
	"github.com/nspcc-dev/neofs-sdk-go/object"
	oid "github.com/nspcc-dev/neofs-sdk-go/object/id"
	"pgregory.net/rapid"
)

// exercised lists the Modify-class methods the phase-2 generator calls. It must
// equal shmodes.ModifyMethods(); otherwise the check is out of date.
var exercised = []string{"Delete", "DeleteContainer", "FlushWriteCache", "InhumeContainer", "MarkGarbage", "Put", "Restore", "ReviveObject"}

func checkMethodSet() {
	missing, stale := shmodes.Unclassified()
	if len(missing) > 0 || len(stale) > 0 {
		ev.Inconclusive("C14: method set of *shard.Shard changed: unclassified exported methods %v, vanished %v – classify them in harness/c14/shmodes and extend the generators", missing, stale)
	}
	if got := strings.Join(shmodes.ModifyMethods(), ","); got != strings.Join(exercised, ",") {
		ev.Inconclusive("C14: modifying methods %s are not all exercised (%v)", got, exercised)
	}
}

var allAddrs = func() []oid.Address {
	var r []oid.Address
	for c := 0; c < uni.NContainers; c++ {
		for i := 0; i < uni.NObjects; i++ {
			r = append(r, uni.Addr(c, i))
		}
	}
	return r
}()

func modeName(m mode.Mode) string {
	if m == mode.ReadOnly {
		return "RO"
	}
	return "DRO"
}

// wcObjects counts object files in the write-cache directory.
func wcObjects(dir string) int {
	es, _ := snap.Tree(stor.WCDir(dir))
	n := 0
	for _, e := range es {
		if e.Mode.IsRegular() && !strings.HasPrefix(e.Path, ".") {
			n++
		}
	}
	return n
}

// noSyncBolt returns fresh bbolt options without fsync (speed only; the
// metabase mutates the struct on every reopen, so one per shard).
func noSyncBolt() *bbolt.Options {
	o := *bbolt.DefaultOptions
	o.NoSync = true
	// File-lock timeout: without one bbolt.Open retries flock forever (50 ms
	// sleeps) when a handle of the same file leaked, which would hang the case
	// instead of failing SetMode. Any value <= 50 ms makes the first contended
	// attempt return ErrTimeout without sleeping (no dependence on fake time,
	// which cannot advance while e.g. the GC goroutine waits for the shard mutex
	// held by SetMode). Inside one process the lock is never contended unless a
	// handle leaked, so the value cannot cause a false alarm.
	o.Timeout = time.Millisecond
	return &o
}

// tree is snap.Tree with whole-file reads (the files are small).
func tree(root string) ([]snap.Entry, error) {
	var res []snap.Entry
	err := filepath.WalkDir(root, func(p string, d fs.DirEntry, err error) error {
		if err != nil {
			return err
		}
		if p == root {
			return nil
		}
		info, err := d.Info()
		if err != nil {
			return err
		}
		rel, _ := filepath.Rel(root, p)
		e := snap.Entry{Path: rel, Mode: info.Mode() & (fs.ModeType | fs.ModePerm)}
		if info.Mode().IsRegular() {
			b, err := os.ReadFile(p)
			if err != nil {
				return err
			}
			h := sha256.Sum256(b)
			e.Size, e.Sum = int64(len(b)), hex.EncodeToString(h[:])
		}
		res = append(res, e)
		return nil
	})
	return res, err
}

// Object IDs of the universe are partitioned between the containers (FSTree
// combined files – also written by the write-cache batch flush – index their
// members by object ID only, HARNESS.md pitfall), and inside a container the
// IDs used for children and for parents are disjoint: real object IDs are
// hashes over headers that embed the parent header, so neither "same ID in two
// containers" nor "A child of B and B child of A" can be produced by real
// callers (the metabase recurses over cyclic relations without bound).
var (
	kidIDs = [uni.NContainers][]int{{0, 3, 6}, {1, 4, 7}, {2, 5}}
	parIDs = [uni.NContainers][]int{{9}, {10}, {8, 11}}
	ownIDs = [uni.NContainers][]int{{0, 3, 6, 9}, {1, 4, 7, 10}, {2, 5, 8, 11}}
)

func normalize(s uni.Spec) uni.Spec {
	c := s.Cnr
	if s.Parent >= 0 {
		s.ID = kidIDs[c][s.ID%len(kidIDs[c])]
		s.Parent = parIDs[c][s.Parent%len(parIDs[c])]
		if s.First >= 0 {
			s.First = kidIDs[c][s.First%len(kidIDs[c])]
		}
		return s
	}
	s.ID = ownIDs[c][s.ID%len(ownIDs[c])]
	if s.Kind == uni.Tombstone || s.Kind == uni.Lock {
		s.Target = ownIDs[c][s.Target%len(ownIDs[c])]
		if s.Target == s.ID {
			for _, i := range ownIDs[c] {
				if i != s.ID {
					s.Target = i
					break
				}
			}
		}
	}
	return s
}

func idList(is []int) []oid.ID {
	r := make([]oid.ID, len(is))
	for k, i := range is {
		r[k] = uni.OID(i)
	}
	return r
}

// settle lets background jobs that wait for a (fake-time) timer in the middle of
// an operation - e.g. a GC pass inside a bbolt batch (MaxBatchDelay) while
// holding the shard's read lock - run to completion. synctest.Wait alone returns
// while such a job is parked on its timer, and a following SetMode would block on
// the mutex forever: a goroutine waiting for a mutex is not "durably blocked", so
// fake time could never advance. Three rounds: a job started by a ticker firing
// at the very end of one round finishes in the next.
func settle() {
	for i := 0; i < 3; i++ {
		time.Sleep(7 * time.Millisecond)
		synctest.Wait()
	}
}

func TestC14ReadOnlyNoChange(t *testing.T) {
	rec := ev.New("C14", "ro-nochange")
	defer rec.Flush()
	checkMethodSet()
	bubble.Check(t, func(t *rapid.T) { runCase(t, rec) })
}

func runCase(t *rapid.T, rec *ev.Recorder) {
	withWC := rapid.Bool().Draw(t, "write-cache")
	target := rapid.SampledFrom([]mode.Mode{mode.ReadOnly, mode.DegradedReadOnly}).Draw(t, "target")
	specGen := uni.SpecGen(uni.GenOpts{MaxLen: 64})
	regGen := uni.SpecGen(uni.GenOpts{Kinds: []string{uni.Regular}, MaxLen: 64})
	idsGen := rapid.SliceOfNDistinct(rapid.IntRange(0, uni.NObjects-1), 1, 3, rapid.ID[int])
	cnrGen := rapid.IntRange(0, uni.NContainers-1)

	var (
		hist       []string
		labels     = []string{"mode:" + modeName(target)}
		nontrivial bool
	)
	if withWC {
		labels = append(labels, "write-cache")
	} else {
		labels = append(labels, "no-write-cache")
	}
	logf := func(f string, a ...any) { hist = append(hist, fmt.Sprintf(f, a...)) }
	defer func() {
		rec.Case(nontrivial, strings.Join(hist, ";"), labels...)
		if nontrivial && rec.WantSample() {
			rec.Sample(map[string]any{"write_cache": withWC, "mode": target.String(), "history": hist})
		}
	}()
	fail := func(f string, a ...any) {
		t.Fatalf("C14 violation: %s\nmode=%s write-cache=%v\nhistory:\n  %s", fmt.Sprintf(f, a...), target, withWC, strings.Join(hist, "\n  "))
	}

	// a runtime panic inside the shard is reported with its stack (rapid's own
	// panics pass through untouched)
	defer func() {
		if p := recover(); p != nil {
			if re, ok := p.(runtime.Error); ok {
				fail("panic: %v\n%s", re, debug.Stack())
			}
			panic(p)
		}
	}()

	dir, err := os.MkdirTemp("", "c14")
	if err != nil {
		ev.Inconclusive("mkdtemp: %v", err)
	}
	defer os.RemoveAll(dir)

	ep := &stor.Epoch{}
	pay := &stor.Payments{Disabled: true, Since: map[cid.ID]int64{}}
	var (
		sh        *shard.Shard
		phase2    atomic.Bool
		cbMu      sync.Mutex
		cbAccepts []string
	)
	// the engine's expired-objects callback: delete every unlocked expired object
	expiredCb := func(addrs []oid.Address) {
		for _, a := range addrs {
			if l, err := sh.IsLocked(a); err == nil && l {
				continue
			}
			err := sh.Delete(a.Container(), []oid.ID{a.Object()})
			if phase2.Load() && err == nil {
				cbMu.Lock()
				cbAccepts = append(cbAccepts, a.String())
				cbMu.Unlock()
			}
		}
	}
	// CombinedCountLimit(1): uni reuses object IDs across containers and combined
	// files index members by object ID only (HARNESS.md pitfall); it also keeps
	// blob writes free of batching timers, which cannot fire while the case
	// goroutine waits on a mutex (synctest).
	fstOpts := []fstree.Option{fstree.WithCombinedCountLimit(1), fstree.WithNoSync(true)}
	// with a write-cache the blobstor is wrapped so that a background flush can be
	// parked inside its blob write at the moment of the switch (see slowStore)
	var slow *slowStore
	var blob common.Storage
	if withWC {
		slow = &slowStore{Storage: stor.FSTree(stor.BlobDir(dir), fstOpts...), raw: stor.FSTree(stor.BlobDir(dir), fstOpts...)}
		blob = slow
	}
	sh, err = stor.OpenShard(stor.ShardCfg{Dir: dir, Epoch: ep, WriteCache: withWC, Payments: pay, Blob: blob,
		FSTOpts:    fstOpts,
		WCOpts:     []writecache.Option{writecache.WithNoSync(true), writecache.WithFlushWorkersCount(4)},
		MetaOpts:   []meta.Option{meta.WithBoltDBOptions(noSyncBolt())},
		GCInterval: time.Second, Extra: []shard.Option{shard.WithExpiredObjectsCallback(expiredCb)}})
	if err != nil {
		ev.Inconclusive("open shard: %v", err)
	}
	defer sh.Close()
	if slow != nil {
		if err := slow.raw.Open(false); err != nil {
			ev.Inconclusive("open raw blob handle: %v", err)
		}
		if err := slow.raw.Init(common.ID{}); err != nil {
			ev.Inconclusive("init raw blob handle: %v", err)
		}
		defer slow.raw.Close()
		defer slow.release()
	}

	epoch := uint64(0)
	newEpoch := func(viaChan bool) {
		epoch++
		ep.Set(epoch)
		if viaChan {
			sh.NotificationChannel() <- shard.EventNewEpoch(epoch)
			synctest.Wait()
		} else {
			sh.VerifNewEpoch(epoch)
		}
	}
	// Object IDs are content hashes and the engine checks existence before
	// Shard.Put, so one address never carries two different objects: a repeated
	// address re-puts the identical object (as replication does).
	first := map[[2]int]uni.Spec{}
	canon := func(s uni.Spec) uni.Spec {
		s = normalize(s)
		k := [2]int{s.Cnr, s.ID}
		if old, ok := first[k]; ok {
			return old
		}
		first[k] = s
		return s
	}
	put := func(s uni.Spec, withBin bool) error {
		o := uni.Build(s)
		var bin []byte
		if withBin {
			bin = o.Marshal()
		}
		return sh.Put(o, bin)
	}

	// ---------- phase 1: read-write history ----------
	n1 := rapid.IntRange(4, 16).Draw(t, "n1")
	for i := 0; i < n1; i++ {
		switch k := rapid.IntRange(0, 19).Draw(t, "p1"); {
		case k < 11:
			s := canon(specGen.Draw(t, "spec"))
			err := put(s, k%2 == 0)
			logf("rw put %s -> %v", s, err != nil)
		case k < 13:
			c, ids := cnrGen.Draw(t, "c"), idsGen.Draw(t, "ids")
			err := sh.MarkGarbage(uni.Cnr(c), idList(ids), meta.GarbageMark(rapid.IntRange(0, 1).Draw(t, "mark")))
			logf("rw mark c%d %v -> %v", c, ids, err != nil)
		case k < 14:
			c, ids := cnrGen.Draw(t, "c"), idsGen.Draw(t, "ids")
			err := sh.Delete(uni.Cnr(c), idList(ids))
			logf("rw delete c%d %v -> %v", c, ids, err != nil)
		case k < 16:
			d := rapid.IntRange(1, 3).Draw(t, "sleep")
			time.Sleep(time.Duration(d) * time.Second)
			synctest.Wait()
			logf("rw sleep %ds", d)
		case k < 18:
			newEpoch(false)
			logf("rw epoch %d", epoch)
		default:
			sh.VerifGCPass()
			logf("rw gc")
		}
	}
	// tail: objects that are still in the cache and marks nobody collected
	nTail := rapid.IntRange(0, 4).Draw(t, "tail-puts")
	for i := 0; i < nTail; i++ {
		s := canon(regGen.Draw(t, "tail"))
		err := put(s, false)
		logf("rw put %s -> %v", s, err != nil)
	}
	nMarks := rapid.IntRange(0, 2).Draw(t, "tail-marks")
	for i := 0; i < nMarks; i++ {
		c, ids := cnrGen.Draw(t, "c"), idsGen.Draw(t, "ids")
		err := sh.MarkGarbage(uni.Cnr(c), idList(ids), meta.GarbageMarkDefault)
		logf("rw mark c%d %v -> %v", c, ids, err != nil)
	}
	if nMarks > 0 {
		labels = append(labels, "marks-before-switch")
	}
	settle()

	// ---------- the switch ----------
	// Half of the write-cache cases switch while a background flush is parked
	// inside its (slow) blob write.
	parked := 0
	if withWC && rapid.Bool().Draw(t, "flush-in-flight") {
		labels = append(labels, "gated")
		if wcObjects(dir) == 0 {
			s := canon(regGen.Draw(t, "gate-put"))
			err := put(s, false)
			logf("rw put %s -> %v", s, err != nil)
		}
		slow.arm()
		time.Sleep(1100 * time.Millisecond) // flush scheduler tick: workers take the objects and park in Put/PutBatch
		settle()
		if parked = slow.parkedWrites(); parked == 0 {
			slow.release()
		}
		logf("gate armed: %d background blob write(s) in flight", parked)
	}
	r0 := shmodes.Observe(sh, allAddrs)
	cacheAtSwitch := wcObjects(dir)
	var baseline []snap.Entry
	snapshot := func() []snap.Entry {
		es, err := tree(dir)
		if err != nil {
			ev.Inconclusive("snapshot: %v", err)
		}
		return es
	}
	if parked == 0 {
		if err := sh.SetMode(target); err != nil {
			fail("SetMode(%s) on a healthy shard failed: %v", target, err)
		}
		baseline = snapshot()
	} else {
		labels = append(labels, "flush-in-flight-at-switch")
		slow.switching()
		done := make(chan error, 1)
		go func() { done <- sh.SetMode(target) }()
		// The write-cache lets a mode change wait for in-flight flushes, so on the
		// unchanged tree SetMode cannot return before the gate is released. It is
		// given real time (not fake time: the SetMode goroutine waits on a mutex,
		// which is not a durable block, so the fake clock cannot advance and
		// synctest.Wait would never return) to return nevertheless. The bound only
		// limits how often a premature return is observed, never what is accepted.
		returned := false
		var serr error
		for i := 0; i < 100 && !returned; i++ {
			select {
			case serr = <-done:
				returned = true
			default:
				ts := syscall.Timespec{Nsec: 500_000}
				_ = syscall.Nanosleep(&ts, nil)
			}
		}
		if returned {
			// read-only is reported while a background flush is still inside its
			// blob write: what is on disk NOW must stay
			labels = append(labels, "setmode-returned-with-flush-in-flight")
			logf("SetMode returned while %d background blob write(s) were still in flight", parked)
			baseline = snapshot()
			slow.release()
			settle()
			if d := snap.Diff(baseline, snapshot()); d != "" {
				fail("persisted state changed after %s mode was reported (a background flush that was in flight at the switch completed afterwards):\n%s", target, d)
			}
		} else {
			slow.release()
			serr = <-done
			baseline = snapshot()
		}
		if serr != nil {
			fail("SetMode(%s) on a healthy shard failed: %v", target, serr)
		}
	}
	phase2.Store(true)
	logf("SETMODE %s (cache objects at switch: %d)", target, cacheAtSwitch)
	if cacheAtSwitch > 0 {
		labels = append(labels, "cache-nonempty-at-switch")
	}
	e0 := epoch
	r1 := shmodes.Observe(sh, allAddrs)
	if target == mode.ReadOnly && parked == 0 {
		// (with a flush in flight r0 was observed in the middle of it: an object
		// the GC removed meanwhile is legitimately re-written by that flush)
		if d := shmodes.DiffReads(r0, r1); len(d) > 0 {
			fail("reads changed by the switch to READ_ONLY: %v", d)
		}
	} else if target != mode.ReadOnly {
		for i := range allAddrs {
			k := fmt.Sprintf("get %d", i)
			if strings.HasPrefix(r0[k], "ok:") && r1[k] != r0[k] {
				fail("object %s readable before the switch is not readable from the blob level in DEGRADED_READ_ONLY: %s -> %s", allAddrs[i], r0[k], r1[k])
			}
		}
	}
	dumpCount := func() (int, error) { return sh.Dump(io.Discard, false) }
	dump0, dumpErr0 := dumpCount()

	same := func(step string) {
		synctest.Wait()
		cur, err := tree(dir)
		if err != nil {
			ev.Inconclusive("snapshot: %v", err)
		}
		if d := snap.Diff(baseline, cur); d != "" {
			fail("persisted state changed in %s mode after %q:\n%s", target, step, d)
		}
		cbMu.Lock()
		acc := append([]string(nil), cbAccepts...)
		cbMu.Unlock()
		if len(acc) > 0 {
			fail("GC ran in %s mode and Shard.Delete (expired-objects callback) succeeded for %v", target, acc)
		}
	}
	used := map[string]bool{}
	mustReject := func(method, desc string, err error) {
		used[method] = true
		logf("%s -> %v", desc, err)
		switch {
		case err == nil:
			fail("%s accepted (nil error) in %s mode", desc, target)
		case method == "FlushWriteCache" && !withWC:
			// no cache configured: nothing to flush, any error is fine
		case !shmodes.IsShardModeErr(err):
			if shmodes.IsComponentModeErr(err) {
				fail("%s in %s mode failed with a component-level error instead of shard.ErrReadOnlyMode/ErrDegradedMode (the engine counts it as a shard failure): %v", desc, target, err)
			}
			fail("%s in %s mode failed with a non-mode error: %v", desc, target, err)
		}
	}

	// ---------- phase 2: requests, events, time ----------
	var slept int
	bgEvent := false
	n2 := rapid.IntRange(12, 32).Draw(t, "n2")
	for i := 0; i < n2; i++ {
		var step string
		switch k := rapid.IntRange(0, 27).Draw(t, "p2"); {
		case k < 5:
			s := specGen.Draw(t, "spec")
			step = "Put " + s.String()
			mustReject("Put", step, put(s, k%2 == 0))
		case k < 7:
			c, ids := cnrGen.Draw(t, "c"), idsGen.Draw(t, "ids")
			if k == 6 && rapid.Bool().Draw(t, "empty") {
				ids = nil
			}
			step = fmt.Sprintf("Delete c%d %v", c, ids)
			mustReject("Delete", step, sh.Delete(uni.Cnr(c), idList(ids)))
		case k < 9:
			c, ids := cnrGen.Draw(t, "c"), idsGen.Draw(t, "ids")
			m := meta.GarbageMark(rapid.IntRange(0, 1).Draw(t, "mark"))
			step = fmt.Sprintf("MarkGarbage c%d %v mark=%d", c, ids, m)
			mustReject("MarkGarbage", step, sh.MarkGarbage(uni.Cnr(c), idList(ids), m))
		case k < 11:
			c := cnrGen.Draw(t, "c")
			step = fmt.Sprintf("InhumeContainer c%d", c)
			mustReject("InhumeContainer", step, sh.InhumeContainer(uni.Cnr(c)))
		case k < 13:
			c := cnrGen.Draw(t, "c")
			step = fmt.Sprintf("DeleteContainer c%d", c)
			mustReject("DeleteContainer", step, sh.DeleteContainer(context.Background(), uni.Cnr(c)))
		case k < 15:
			var stream []byte
			if rapid.IntRange(0, 3).Draw(t, "garbage-dump") == 0 {
				stream = []byte("NOPE\x01\x02\x03")
				step = "Restore <invalid magic>"
			} else {
				ss := rapid.SliceOfN(specGen, 0, 2).Draw(t, "dump")
				var objs []*object.Object
				for _, s := range ss {
					objs = append(objs, uni.Build(s))
				}
				stream = shmodes.DumpStream(objs...)
				step = fmt.Sprintf("Restore <%d objects>", len(objs))
			}
			_, _, err := sh.Restore(bytes.NewReader(stream), rapid.Bool().Draw(t, "ignore-errors"))
			mustReject("Restore", step, err)
		case k < 17:
			c, i := cnrGen.Draw(t, "c"), rapid.IntRange(0, uni.NObjects-1).Draw(t, "id")
			step = fmt.Sprintf("ReviveObject c%d/o%d", c, i)
			_, err := sh.ReviveObject(uni.Addr(c, i))
			mustReject("ReviveObject", step, err)
		case k < 19:
			ign := rapid.Bool().Draw(t, "ignore-errors")
			step = fmt.Sprintf("FlushWriteCache %v", ign)
			mustReject("FlushWriteCache", step, sh.FlushWriteCache(ign))
		case k < 21:
			// unpaid container + epoch event through the real channel
			if rapid.Bool().Draw(t, "unpaid") {
				pay.Disabled = false
				pay.Since[uni.Cnr(cnrGen.Draw(t, "c"))] = 0
			}
			newEpoch(true)
			bgEvent = true
			step = fmt.Sprintf("epoch %d (channel)", epoch)
			logf("%s", step)
		case k < 22:
			newEpoch(false)
			bgEvent = true
			step = fmt.Sprintf("epoch %d (sync)", epoch)
			logf("%s", step)
		case k < 24:
			sh.VerifGCPass()
			bgEvent = true
			step = "gc pass"
			logf("%s", step)
		case k < 26:
			d := rapid.IntRange(1, 20).Draw(t, "sleep")
			time.Sleep(time.Duration(d) * time.Second)
			slept += d
			step = fmt.Sprintf("sleep %ds", d)
			logf("%s", step)
		default:
			// reads in between (at the epoch of the switch, see below)
			step = "reads"
			logf("%s", step)
			synctest.Wait()
			cur := epoch
			ep.Set(e0)
			r := shmodes.Observe(sh, allAddrs)
			ep.Set(cur)
			if d := shmodes.DiffReads(r1, r); len(d) > 0 {
				fail("reads changed during %s mode: %v", target, d)
			}
		}
		same(step)
	}
	if slept < 60 {
		time.Sleep(time.Duration(60-slept) * time.Second)
		logf("sleep %ds", 60-slept)
		same("final sleep")
	}
	sh.VerifGCPass()
	same("final gc pass")

	// reads at the end: the expiration view depends on the current epoch, so it
	// is compared at the epoch of the switch
	ep.Set(e0)
	rEnd := shmodes.Observe(sh, allAddrs)
	if d := shmodes.DiffReads(r1, rEnd); len(d) > 0 {
		fail("reads changed during %s mode: %v", target, d)
	}
	if dump1, dumpErr1 := dumpCount(); dump1 != dump0 || (dumpErr0 == nil) != (dumpErr1 == nil) {
		fail("Dump changed during %s mode: %d objects (%v) -> %d objects (%v)", target, dump0, dumpErr0, dump1, dumpErr1)
	}
	same("final reads")

	var kinds []string
	for m := range used {
		kinds = append(kinds, m)
	}
	sort.Strings(kinds)
	labels = append(labels, fmt.Sprintf("modifying-methods:%d", len(kinds)))
	if bgEvent {
		labels = append(labels, "has-gc-or-epoch")
	}
	nontrivial = len(kinds) >= 5 && bgEvent && (!withWC || cacheAtSwitch > 0)
}

// Package c05 decides property C05 for internal/signed256: the numeric index
// encoding is lossless, order preserving and parsing follows one grammar.
// Oracle: math/big (genint.RefParse / RefEncode).
package c05

import (
	"bytes"
	"math/big"
	"testing"

	"github.com/nspcc-dev/neofs-node/internal/signed256"
	"github.com/nspcc-dev/neofs-node/verifharness/ev"
	"github.com/nspcc-dev/neofs-node/verifharness/genint"
	"pgregory.net/rapid"
)

func sign(i int) int {
	switch {
	case i < 0:
		return -1
	case i > 0:
		return 1
	}
	return 0
}

// toBig converts through the byte encoding, independently of String().
func toBig(t *rapid.T, z signed256.Int) *big.Int {
	enc := z.EncodeBytes()
	raw := append([]byte(nil), enc[1:]...)
	switch enc[0] {
	case 0:
		for i := range raw {
			raw[i] = ^raw[i]
		}
		x := new(big.Int).SetBytes(raw)
		return x.Neg(x)
	case 1:
		return new(big.Int).SetBytes(raw)
	default:
		t.Fatalf("sign byte %d", enc[0])
		return nil
	}
}

func TestC05RoundTrip(t *testing.T) {
	rec := ev.New("C05", "roundtrip")
	defer rec.Flush()
	rapid.Check(t, func(t *rapid.T) {
		x := genint.Boundary(true).Draw(t, "x")
		s := x.String()
		in := genint.InRange(x)
		rec.Case(true, s, map[bool]string{true: "in-range", false: "out-of-range"}[in])
		if rec.WantSample() {
			rec.Sample(s)
		}
		z, err := signed256.ParseDecimal(s)
		if !in {
			if err == nil {
				t.Fatalf("out-of-range %s accepted as %s", s, z.String())
			}
			return
		}
		if err != nil {
			t.Fatalf("in-range %s rejected: %v", s, err)
		}
		if got := z.String(); got != s {
			t.Fatalf("String(ParseDecimal(%s)) = %s", s, got)
		}
		enc := z.EncodeBytes()
		if len(enc) != signed256.EncodedLen || signed256.EncodedLen != 33 {
			t.Fatalf("encoded len %d", len(enc))
		}
		if ref := genint.RefEncode(x); enc != ref {
			t.Fatalf("encoding of %s = %x, reference %x", s, enc, ref)
		}
		if b := toBig(t, z); b.Cmp(x) != 0 {
			t.Fatalf("bytes of %s decode (reference) to %s", s, b)
		}
		d, err := signed256.DecodeBytes(enc[:])
		if err != nil {
			t.Fatalf("DecodeBytes(EncodeBytes(%s)): %v", s, err)
		}
		if d.Cmp(&z) != 0 || d.String() != s || d != z {
			t.Fatalf("DecodeBytes(EncodeBytes(%s)) = %s", s, d.String())
		}
		// FillBytes into a larger buffer writes the same 33 bytes
		buf := make([]byte, 40)
		z.FillBytes(buf)
		if !bytes.Equal(buf[:33], enc[:]) {
			t.Fatalf("FillBytes differs from EncodeBytes for %s", s)
		}
		// int64 / uint64 constructors agree when representable
		if x.IsInt64() {
			n := signed256.NewInt(x.Int64())
			if n.Cmp(&z) != 0 || n.String() != s {
				t.Fatalf("NewInt(%s) = %s", s, n.String())
			}
		}
		if x.IsUint64() {
			n := signed256.NewUint64(x.Uint64())
			if n.Cmp(&z) != 0 || n.String() != s {
				t.Fatalf("NewUint64(%s) = %s", s, n.String())
			}
		}
	})
}

func TestC05Order(t *testing.T) {
	rec := ev.New("C05", "order")
	defer rec.Flush()
	rapid.Check(t, func(t *rapid.T) {
		p := genint.Pair().Draw(t, "pair")
		a, b := p[0], p[1]
		straddle := a.Sign() != b.Sign() || a.BitLen()/64 != b.BitLen()/64 || new(big.Int).Sub(a, b).BitLen() <= 2
		rec.Case(straddle, a.String()+"|"+b.String())
		if rec.WantSample() {
			rec.Sample([]string{a.String(), b.String()})
		}
		za, err := signed256.ParseDecimal(a.String())
		if err != nil {
			t.Fatal(err)
		}
		zb, err := signed256.ParseDecimal(b.String())
		if err != nil {
			t.Fatal(err)
		}
		want := a.Cmp(b)
		ea, eb := za.EncodeBytes(), zb.EncodeBytes()
		if got := sign(bytes.Compare(ea[:], eb[:])); got != want {
			t.Fatalf("bytes.Compare(enc(%s), enc(%s)) = %d, numeric %d", a, b, got, want)
		}
		if got := za.Cmp(&zb); got != want {
			t.Fatalf("Cmp(%s, %s) = %d, want %d", a, b, got, want)
		}
		if got := zb.Cmp(&za); got != -want {
			t.Fatalf("Cmp(%s, %s) = %d, want %d", b, a, got, -want)
		}
		mx, mn := signed256.Max(), signed256.Min()
		if za.Cmp(&mx) > 0 || za.Cmp(&mn) < 0 {
			t.Fatalf("%s outside [Min,Max]", a)
		}
		// Add agrees with big or reports out of range
		var sum signed256.Int
		err = sum.Add(&za, &zb)
		ref := new(big.Int).Add(a, b)
		if genint.InRange(ref) {
			if err != nil || sum.String() != ref.String() {
				t.Fatalf("%s + %s = %s (err %v), want %s", a, b, sum.String(), err, ref)
			}
		} else if err == nil {
			t.Fatalf("%s + %s overflow not reported: %s", a, b, sum.String())
		}
	})
}

func TestC05Grammar(t *testing.T) {
	rec := ev.New("C05", "grammar")
	defer rec.Flush()
	rapid.Check(t, func(t *rapid.T) {
		s := genint.DecimalLike().Draw(t, "s")
		ref, ok := genint.RefParse(s)
		lbl := "ref-reject"
		if ok {
			lbl = "ref-accept"
		}
		rec.Case(genint.NearMiss(s), s, lbl)
		if rec.WantSample() {
			rec.Sample(s)
		}
		z, err := signed256.ParseDecimal(s)
		if ok != (err == nil) {
			t.Fatalf("ParseDecimal(%q): err=%v, reference accept=%v (grammar ^[+-]?[0-9]+$ within ±(2^256-1))", s, err, ok)
		}
		var z2 signed256.Int
		err2 := z2.SetFromDecimal(s)
		if (err2 == nil) != (err == nil) {
			t.Fatalf("SetFromDecimal and ParseDecimal disagree on %q", s)
		}
		if !ok {
			return
		}
		if z.String() != ref.String() || z2.String() != ref.String() {
			t.Fatalf("ParseDecimal(%q) = %s, reference %s", s, z.String(), ref)
		}
		if enc := z.EncodeBytes(); enc != genint.RefEncode(ref) {
			t.Fatalf("ParseDecimal(%q) encodes to %x", s, enc)
		}
		// printing round-trips with parsing
		back, err := signed256.ParseDecimal(z.String())
		if err != nil || back != z {
			t.Fatalf("reparse of %s failed", z.String())
		}
	})
}

func TestC05DecodeArbitrary(t *testing.T) {
	rec := ev.New("C05", "decode-arbitrary")
	defer rec.Flush()
	rapid.Check(t, func(t *rapid.T) {
		n := rapid.SampledFrom([]int{0, 1, 32, 33, 33, 33, 33, 34, 64}).Draw(t, "n")
		b := rapid.SliceOfN(rapid.Byte(), n, n).Draw(t, "b")
		if n == 33 && rapid.Bool().Draw(t, "fixsign") {
			b[0] &= 1
		}
		rec.Case(n == 33, string(b))
		z, err := signed256.DecodeBytes(b)
		wantOK := n == 33 && b[0] <= 1
		if wantOK != (err == nil) {
			t.Fatalf("DecodeBytes(%x): err=%v want ok=%v", b, err, wantOK)
		}
		if !wantOK {
			return
		}
		// decoded value re-encodes to the same key unless it is the non-canonical negative zero
		x := toBig(t, z)
		enc := z.EncodeBytes()
		if x.Sign() != 0 && !bytes.Equal(enc[:], b) {
			t.Fatalf("DecodeBytes(%x) re-encodes to %x", b, enc)
		}
		if z.String() != x.String() {
			t.Fatalf("String %s vs bytes %s", z.String(), x)
		}
	})
}

package c29b

import (
	"fmt"
	"testing"

	objsrv "github.com/nspcc-dev/neofs-node/verifharness/objsrv2"
)

func TestDbg(t *testing.T) {
	env := newEnv(t)
	for _, op := range []objsrv.Op{objsrv.OpGet, objsrv.OpHead, objsrv.OpRange} {
		for _, d := range []objsrv.Defect{objsrv.DefNone, objsrv.DefEACLHeaderRemote} {
			for _, po := range []bool{false, true} {
				s := objsrv.Normalize(objsrv.Spec{Op: op, Cnr: objsrv.CnrEACL, Obj: objsrv.ObjRemotePlain, Requester: objsrv.IDOther, Version: 3, TTL: 2, Defect: d, PayloadOnly: po, RangeLen: 100, RangeOff: 5})
				res := env.Invoke(env.U.Build(s))
				fmt.Println("=====", s)
				fmt.Println(res)
			}
		}
	}
}

package metamodel

import (
	"github.com/nspcc-dev/neofs-node/verifharness/uni"
	"pgregory.net/rapid"
)

// Catalog is a per-case consistent assignment "object ID -> the one object with
// that ID" (IDs are content hashes in the real system, so an ID never denotes
// two different objects; parent headers carried by children equal the parent
// stored whole; all parts of one split chain share the first ID / split ID).
// Specs[c][i] describes object i of container c; containers >= NC are unused.
type Catalog struct {
	NC    int                                     `json:"nc"`
	Specs [uni.NContainers][uni.NObjects]uni.Spec `json:"specs"`
	Roles [uni.NContainers][uni.NObjects]string   `json:"roles"`
	Nest  [uni.NContainers][uni.NObjects]int      `json:"-"` // >=0: ID that must be stored before this (nested EC parent)
}

// CatalogOpts tunes CatalogGen.
type CatalogOpts struct {
	// Containers: number of containers used (default: drawn from 1..3, mostly 2).
	Containers int
	// MaxExp: expirations are drawn from -1 (none, 1/3) or 0..MaxExp (default 6).
	MaxExp int
	// MaxLen of payloads (default 64).
	MaxLen int
	// NoFamilies: only loose regular / tombstone / lock objects.
	NoFamilies bool
}

// CatalogGen draws a catalog. Per container the 12 IDs are shuffled and filled
// with: optionally a split-v2 family (parent P, first F, middle M, last L with
// the parent header, link K), optionally a split-v1 family (parent, child
// without and child with the parent header), optionally an EC family (parent –
// a fresh object or, nested, a member of a split family – and 2..3 parts), and
// loose REGULAR / TOMBSTONE / LOCK objects drawn with uni.SpecGen whose targets
// are any other ID of the container (absent objects, parents, children, locks,
// tombstones). Nesting never exceeds 2.
func CatalogGen(o CatalogOpts) *rapid.Generator[Catalog] {
	maxExp := o.MaxExp
	if maxExp <= 0 {
		maxExp = 6
	}
	maxLen := o.MaxLen
	if maxLen <= 0 {
		maxLen = 64
	}
	return rapid.Custom(func(t *rapid.T) Catalog {
		var cat Catalog
		cat.NC = o.Containers
		if cat.NC <= 0 || cat.NC > uni.NContainers {
			cat.NC = rapid.SampledFrom([]int{1, 2, 2, 2, 3}).Draw(t, "ncnr")
		}
		exp := func(lbl string) int {
			if rapid.IntRange(0, 2).Draw(t, lbl+"-has") == 0 {
				return -1
			}
			return rapid.IntRange(0, maxExp).Draw(t, lbl)
		}
		cexp := func(pexp int) int { // children carry the parent's expiration or none
			if rapid.Bool().Draw(t, "cexp") {
				return pexp
			}
			return -1
		}
		plen := func(lbl string) int {
			return rapid.SampledFrom([]int{0, 1, 7, 32, maxLen}).Draw(t, lbl)
		}
		for c := 0; c < cat.NC; c++ {
			for i := range cat.Nest[c] {
				cat.Nest[c][i] = -1
			}
			ids := make([]int, uni.NObjects)
			for i := range ids {
				ids[i] = i
			}
			ids = rapid.Permutation(ids).Draw(t, "perm")
			next := 0
			take := func() int { v := ids[next]; next++; return v }
			left := func() int { return len(ids) - next }
			owner := rapid.IntRange(0, uni.NOwners-1).Draw(t, "owner")
			blank := func(kind string, id int) uni.Spec {
				return uni.Spec{Kind: kind, Cnr: c, ID: id, Owner: owner, Exp: -1, Parent: -1, ParentExp: -1, First: -1}
			}
			set := func(s uni.Spec, role string) {
				cat.Specs[c][s.ID] = s
				cat.Roles[c][s.ID] = role
			}
			var nestable []int // split children that may be EC parents
			parentOfNest := map[int]bool{}
			if !o.NoFamilies && rapid.IntRange(0, 2).Draw(t, "v2") > 0 && left() >= 5 {
				P, F, M, L, K := take(), take(), take(), take(), take()
				p := blank(uni.Regular, P)
				p.Exp, p.PayloadLen = exp("v2pexp"), 100
				set(p, "v2-parent")
				f := blank(uni.ChildV2, F)
				f.PayloadLen, f.Exp = plen("len"), cexp(p.Exp)
				set(f, "v2-first")
				m := blank(uni.ChildV2, M)
				m.First, m.PayloadLen, m.Exp = F, plen("len"), cexp(p.Exp)
				set(m, "v2-middle")
				l := blank(uni.ChildV2, L)
				l.First, l.Parent, l.ParentExp, l.ParentLen, l.PayloadLen, l.Last, l.Exp = F, P, p.Exp, p.PayloadLen, plen("len"), true, cexp(p.Exp)
				l.NoParentHeader = rapid.IntRange(0, 5).Draw(t, "noph") == 0
				set(l, "v2-last")
				k := blank(uni.Link, K)
				k.First, k.Parent, k.ParentExp, k.ParentLen, k.PayloadLen, k.Exp = F, P, p.Exp, p.PayloadLen, 8, cexp(p.Exp)
				set(k, "v2-link")
				nestable = append(nestable, L, M)
			}
			if !o.NoFamilies && rapid.IntRange(0, 2).Draw(t, "v1") == 0 && left() >= 3 {
				P, A, B := take(), take(), take()
				split := rapid.IntRange(0, 2).Draw(t, "split")
				p := blank(uni.Regular, P)
				p.Exp, p.PayloadLen = exp("v1pexp"), 100
				set(p, "v1-parent")
				a := blank(uni.ChildV1, A)
				a.Split, a.PayloadLen, a.Exp = split, plen("len"), cexp(p.Exp)
				set(a, "v1-child")
				b := blank(uni.ChildV1, B)
				b.Split, b.Parent, b.ParentExp, b.ParentLen, b.PayloadLen, b.Last, b.Exp = split, P, p.Exp, p.PayloadLen, plen("len"), true, cexp(p.Exp)
				set(b, "v1-last")
				nestable = append(nestable, B)
			}
			if !o.NoFamilies && rapid.IntRange(0, 2).Draw(t, "ec") > 0 && left() >= 3 {
				var p uni.Spec
				nested := len(nestable) > 0 && rapid.IntRange(0, 2).Draw(t, "nested") == 0
				if nested {
					p = cat.Specs[c][rapid.SampledFrom(nestable).Draw(t, "ecparent")]
					parentOfNest[p.ID] = true
				} else {
					p = blank(uni.Regular, take())
					p.Exp, p.PayloadLen = exp("ecpexp"), 100
					set(p, "ec-parent")
				}
				n := 2
				if left() >= 5 {
					n = rapid.IntRange(2, 3).Draw(t, "nparts")
				}
				for k := 0; k < n; k++ {
					e := blank(uni.ECPart, take())
					e.Parent, e.ParentExp, e.ParentLen, e.Exp = p.ID, p.Exp, p.PayloadLen, cexp(p.Exp)
					e.RuleIdx, e.PartIdx, e.PayloadLen = rapid.IntRange(0, 1).Draw(t, "rule"), k, plen("len")
					role := "ec-part"
					if nested {
						role = "ec-part-nested"
						cat.Nest[c][e.ID] = p.ID
					}
					set(e, role)
				}
			}
			loose := uni.SpecGen(uni.GenOpts{Kinds: []string{uni.Regular, uni.Regular, uni.Tombstone, uni.Tombstone, uni.Lock, uni.Lock}, MaxLen: maxLen})
			for left() > 0 {
				id := take()
				s := loose.Draw(t, "loose")
				s.Cnr, s.ID, s.Owner = c, id, owner
				if s.Exp > maxExp {
					s.Exp = s.Exp % (maxExp + 1)
				}
				if s.Kind == uni.Tombstone || s.Kind == uni.Lock {
					// bias: the target of a lock / tombstone drawn earlier (lock vs tombstone
					// conflicts, several locks on one object), else an object that can be
					// stored as REGULAR (incl. parents and children), else any other ID
					var shared, regular []int
					for i := 0; i < uni.NObjects; i++ {
						o := cat.Specs[c][i]
						if i == id || o.Kind == "" {
							continue
						}
						switch o.Kind {
						case uni.Tombstone, uni.Lock:
							if o.Target != id {
								shared = append(shared, o.Target)
							}
						case uni.Link:
						default:
							regular = append(regular, i)
						}
					}
					mode := rapid.IntRange(0, 9).Draw(t, "tmode")
					switch {
					case mode < 4 && len(shared) > 0:
						s.Target = rapid.SampledFrom(shared).Draw(t, "target")
					case mode < 8 && len(regular) > 0:
						s.Target = rapid.SampledFrom(regular).Draw(t, "target")
					default:
						v := rapid.IntRange(0, uni.NObjects-2).Draw(t, "target")
						if v >= id {
							v++
						}
						s.Target = v
					}
				}
				set(s, "loose-"+s.Kind)
			}
		}
		return cat
	})
}

// Spec returns the catalog entry of a.
func (c *Catalog) Spec(a Addr) uni.Spec { return c.Specs[a.C][a.I] }

// Requires returns the ID that must be stored before a may be put (-1 none):
// parts of a nested EC parent carry a parent header without the parent's own
// split header (uni cannot build it), so the parent must exist already.
func (c *Catalog) Requires(a Addr) int { return c.Nest[a.C][a.I] }

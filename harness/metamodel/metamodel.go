// Package metamodel is the pure-Go REFERENCE MODEL of the neofs-node metabase
// (pkg/local_object_storage/metabase) used by the storage checks: "which
// objects are available / removed / not found / expired / locked / listed /
// counted" after a history of puts and removal actions.
//
// It is written from the property statements C01/C02, the metabase VERSION.md
// and the doc comments of the public metabase API. It never calls into the
// metabase; it works over uni.Spec descriptions (what uni.Build would build)
// and integer indexes of the dense universe (container index, object index).
//
// # Rules (C01)
//
// For an address the model computes the SET of applicable removal reasons
// (Reasons): Tombstoned (a stored TOMBSTONE object targets it), Garbage (a
// DEFAULT garbage mark; a REDUNDANT mark keeps the object readable),
// ContainerRemoved (container GC mark), Expired (expiration epoch < current
// epoch). A live lock (stored LOCK object targeting the address, not expired,
// not itself marked as garbage) cancels Expired and Garbage – not Tombstoned.
// A child (parent ID in its header, or resolvable through stored members of
// the same split chain: first-ID / split-ID) additionally inherits every reason
// of its parent, up to 2 levels. The set is empty <=> the object is available.
// Which single error a view reports when several reasons apply is NOT fixed by
// the statement: use Reasons.Admits(class). Only Put admission needs one
// deterministic choice; Primary() documents the order used for that.
//
// # API summary
//
//	m := metamodel.New()
//	cls := m.Put(spec, epoch)                 // admission class: OK, AlreadyRemoved, Expired, Locked, LockNonRegular, LockRemoval, TSOnTS
//	cls := m.PutWith(spec, epoch, hint)       // same; hint = observed class, used ONLY where admission is unspecified
//	                                          // (LOCK on a target that merely inherits a tombstone from its parent)
//	m.MarkGarbage(c, ids, redundant)          // default / redundant garbage marks (children of a parent are marked too)
//	m.InhumeContainer(c); m.DeleteContainer(c)
//	removed := m.Delete(c, ids)               // physical deletion of metadata (GC), parent dropped with its last child
//	cls = m.Revive(c, id, tsHint)             // OK, NotRemoved, ContainerRemovedCls
//	st := m.Status(addr, epoch)               // Stored, Reasons, Locked, ParentKind ("", "split", "ec"), Obj
//	m.Reasons(addr, epoch, ignoreExp)         // reason set only; r.Admits(class) tells whether a view may report class
//	m.Primary(addr, epoch)                    // the single status Put admission uses (own expiry > own tombstone > worst of mark/parent)
//	m.Locked(addr, epoch, ignoreExp)          // live lock? (any stored, unexpired, unremoved LOCK)
//	m.Available(epoch) / m.AvailableIn(c, e)  // stored objects (incl. virtual parents) with empty reason set  == unfiltered search
//	must, may := m.Listed()                   // physical listing: must ⊆ ListWithCursor ⊆ must ∪ may
//	m.ExpiredAt(epoch)                        // == IterateExpired(epoch)
//	m.GarbageMarked(); m.RemovedContainers()  // ⊆ GetGarbage
//	m.Counters() / m.CountersIn(c)            // recount {Phy, Root, TS, Lock, Link} (C02)
//	m.ContainerInfo(c)                        // (objects number, payload size) of physical objects not marked for removal
//	m.MarkedForRemoval(a), m.Mark(a), m.Tombstones(a), m.Children(a), m.ParentOf(a), m.ECParts(a, rule, part)
//	m.Stored(a), m.Get(a), m.StoredIn(c), m.MaxDepth(), m.Clone()
//	metamodel.Describe(spec), metamodel.ParentHeader(spec)   // what uni.Build(spec) means for the model
//	metamodel.Classify(err)                   // real error -> Class (classify.go; imports neofs error types only)
//	metamodel.CatalogGen(opts)                // consistent per-case universe of Specs (catalog.go): use it instead of
//	                                          // raw uni.SpecGen so that one ID always denotes one object
//	metamodel/drv                             // World{Cat, M, B Backend, …}.Actions(): the shared rapid state machine
//	                                          // (real metabase or shard + model), Avoid/Excluded for recorded findings
//
// Model.Quirks switches single rules to alternative readings; the checks use
// LockOverridesTombstone only to DETECT states where a live lock and a
// tombstone coexist (unspecified, see c01), FirstLockOnly is the pre-fix
// behaviour of objectLocked (kept for sensitivity experiments).
//
// All slices returned are sorted by (container, object) index, so they can be
// compared directly.
package metamodel

import (
	"bytes"
	"fmt"
	"sort"

	"github.com/nspcc-dev/neofs-node/verifharness/uni"
)

// Class is an error class of an operation or view.
type Class string

// Error / result classes.
const (
	OK                  Class = "ok"
	NotFound            Class = "not-found"             // apistatus.ObjectNotFound
	AlreadyRemoved      Class = "already-removed"       // apistatus.ObjectAlreadyRemoved
	Expired             Class = "expired"               // meta.ErrObjectIsExpired
	Locked              Class = "locked"                // apistatus.ObjectLocked
	LockNonRegular      Class = "lock-non-regular"      // apistatus.LockNonRegularObject
	LockRemoval         Class = "lock-removal"          // meta.ErrLockObjectRemoval
	TSOnTS              Class = "ts-on-ts"              // plain error "TS's target is another TS"
	NotRemoved          Class = "not-removed"           // meta.ErrObjectWasNotRemoved
	ContainerRemovedCls Class = "revive-from-container" // meta.ErrReviveFromContainerGarbage
	SplitInfo           Class = "split-info"            // *object.SplitInfoError (parent of size-split children)
	ECParts             Class = "ec-parts"              // iec.ErrParts (parent of EC parts)
	Other               Class = "other"
)

// Reasons is a set of applicable removal reasons.
type Reasons uint8

// Removal reasons.
const (
	Tombstoned Reasons = 1 << iota
	Garbage
	ContainerRemoved
	ExpiredReason
)

// Has reports whether r contains x.
func (r Reasons) Has(x Reasons) bool { return r&x != 0 }

// Admits reports whether error class c is an admissible report for a
// non-empty reason set r.
func (r Reasons) Admits(c Class) bool {
	switch c {
	case AlreadyRemoved:
		return r.Has(Tombstoned)
	case NotFound:
		return r.Has(Garbage) || r.Has(ContainerRemoved)
	case Expired:
		return r.Has(ExpiredReason)
	}
	return false
}

func (r Reasons) String() string {
	if r == 0 {
		return "available"
	}
	s := ""
	for _, x := range []struct {
		r Reasons
		n string
	}{{Tombstoned, "tombstoned"}, {Garbage, "garbage"}, {ContainerRemoved, "container-removed"}, {ExpiredReason, "expired"}} {
		if r.Has(x.r) {
			if s != "" {
				s += "+"
			}
			s += x.n
		}
	}
	return s
}

// Mark is a garbage mark of an object ID.
type Mark uint8

// Garbage marks.
const (
	MarkNone Mark = iota
	MarkDefault
	MarkRedundant
)

// Object types as the model sees them.
const (
	TRegular   = "REGULAR"
	TTombstone = "TOMBSTONE"
	TLock      = "LOCK"
	TLink      = "LINK"
)

// Obj is the model's record of one stored object (what the metabase indexes).
type Obj struct {
	ID   int
	Type string
	// Phy: stored physically (put directly). Root: REGULAR without split header.
	Phy, Root bool
	Exp       int // expiration epoch, -1 none
	Size      int
	Parent    int // parent ID in the header, -1 none
	First     int // first-part ID (split v2), -1 none
	Split     int // split ID variant (split v1), -1 none
	EC        bool
	Rule      int
	Part      int
	Target    int // associated object of TOMBSTONE/LOCK, -1 none
	// Implicit: created only from a child's parent header.
	Implicit bool
	Spec     uni.Spec
}

// Addr is (container index, object index) of the universe.
type Addr struct{ C, I int }

func (a Addr) String() string { return fmt.Sprintf("c%d/o%d", a.C, a.I) }

// Describe returns the model's view of the object uni.Build(s) builds, as if
// put directly (Phy=true).
func Describe(s uni.Spec) Obj {
	o := Obj{ID: s.ID, Type: TRegular, Phy: true, Exp: s.Exp, Size: s.PayloadLen, Parent: -1, First: -1, Split: -1, Target: -1, Spec: s}
	switch s.Kind {
	case uni.Tombstone:
		o.Type, o.Target, o.Size = TTombstone, s.Target%uni.NObjects, 0
	case uni.Lock:
		o.Type, o.Target, o.Size = TLock, s.Target%uni.NObjects, 0
	case uni.Link:
		o.Type = TLink
		if s.First >= 0 {
			o.First = s.First % uni.NObjects
		}
		if s.Parent >= 0 {
			o.Parent = s.Parent % uni.NObjects
		}
	case uni.ChildV1:
		o.Split = s.Split % 3
		if s.Parent >= 0 {
			o.Parent = s.Parent % uni.NObjects
		}
	case uni.ChildV2:
		if s.First >= 0 {
			o.First = s.First % uni.NObjects
		}
		if s.Parent >= 0 {
			o.Parent = s.Parent % uni.NObjects
		}
	case uni.ECPart:
		o.Parent = ((s.Parent % uni.NObjects) + uni.NObjects) % uni.NObjects
		o.EC, o.Rule, o.Part = true, s.RuleIdx, s.PartIdx
	default:
		o.Root = true
	}
	if s.Kind == uni.ChildV2 && o.First < 0 && o.Parent < 0 {
		o.Root = true // no split header at all: a plain object
	}
	return o
}

// ParentHeader returns the model's view of the parent header carried by the
// object uni.Build(s) builds (ok=false if it carries none).
func ParentHeader(s uni.Spec) (Obj, bool) {
	has := false
	switch s.Kind {
	case uni.Link:
		has = s.Parent >= 0
	case uni.ChildV1, uni.ChildV2:
		has = s.Parent >= 0 && !s.NoParentHeader
	case uni.ECPart:
		has = true
	}
	if !has {
		return Obj{}, false
	}
	p := ((s.Parent % uni.NObjects) + uni.NObjects) % uni.NObjects
	return Obj{ID: p, Type: TRegular, Root: true, Exp: s.ParentExp, Size: s.ParentLen, Parent: -1, First: -1, Split: -1, Target: -1,
		Implicit: true, Spec: uni.Spec{Kind: uni.Regular, Cnr: s.Cnr, ID: p, Owner: s.Owner, Exp: s.ParentExp, PayloadLen: s.ParentLen, Parent: -1, ParentExp: -1, First: -1}}, true
}

// Cnr is the model state of one container.
type Cnr struct {
	// Exists: the container has a metadata bucket. Removed: container GC mark.
	Exists, Removed bool
	Objs            map[int]*Obj
	Marks           map[int]Mark
}

// Quirks switch the model to follow implementation behaviour that deviates
// from the stated rules (used only to keep searching past a recorded finding).
type Quirks struct {
	// LockOverridesTombstone: a LOCK is admitted on a target that is
	// tombstoned AND expired, and a live lock then hides the tombstone.
	LockOverridesTombstone bool
	// FirstLockOnly: only the first (DB order) non-expired LOCK targeting an
	// object is examined; if it is removed (default garbage mark) the object
	// counts as unlocked even when another live lock exists.
	FirstLockOnly bool
}

// Model is the reference model of one metabase.
type Model struct {
	C      [uni.NContainers]*Cnr
	Quirks Quirks
}

// New returns an empty model.
func New() *Model {
	m := &Model{}
	for i := range m.C {
		m.C[i] = &Cnr{Objs: map[int]*Obj{}, Marks: map[int]Mark{}}
	}
	return m
}

// Clone returns a deep copy.
func (m *Model) Clone() *Model {
	n := &Model{Quirks: m.Quirks}
	for i, c := range m.C {
		nc := &Cnr{Exists: c.Exists, Removed: c.Removed, Objs: map[int]*Obj{}, Marks: map[int]Mark{}}
		for k, v := range c.Objs {
			cp := *v
			nc.Objs[k] = &cp
		}
		for k, v := range c.Marks {
			nc.Marks[k] = v
		}
		n.C[i] = nc
	}
	return n
}

// lessID orders object indexes by the raw bytes of their IDs (database order).
func lessID(a, b int) bool {
	x, y := uni.OID(a), uni.OID(b)
	return bytes.Compare(x[:], y[:]) < 0
}

func (c *Cnr) sortedIDs() []int {
	ids := make([]int, 0, len(c.Objs))
	for id := range c.Objs {
		ids = append(ids, id)
	}
	sort.Slice(ids, func(i, j int) bool { return lessID(ids[i], ids[j]) })
	return ids
}

// tombstones returns the stored TOMBSTONE objects targeting id, in DB order.
func (c *Cnr) tombstones(id int) []int {
	var r []int
	for _, x := range c.sortedIDs() {
		if o := c.Objs[x]; o.Type == TTombstone && o.Target == id {
			r = append(r, x)
		}
	}
	return r
}

func expired(exp, epoch int) bool { return exp >= 0 && epoch > exp }

// locked: some stored LOCK targets id, is not expired at epoch (never, if
// ignoreExp) and is not itself removed by a tombstone or default garbage mark.
func (c *Cnr) locked(id, epoch int, ignoreExp bool, q Quirks) bool {
	for _, x := range c.sortedIDs() {
		o := c.Objs[x]
		if o.Type != TLock || o.Target != id {
			continue
		}
		if !ignoreExp && expired(o.Exp, epoch) {
			continue
		}
		if len(c.tombstones(x)) > 0 || c.Marks[x] == MarkDefault {
			if q.FirstLockOnly {
				return false
			}
			continue
		}
		return true
	}
	return false
}

// parentOf resolves the parent of a STORED object: the parent ID of its
// header, else the parent ID known to a stored member of the same split chain.
func (c *Cnr) parentOf(id int) int {
	o := c.Objs[id]
	if o == nil {
		return -1
	}
	if o.Parent >= 0 {
		return o.Parent
	}
	if o.First >= 0 {
		for _, x := range c.sortedIDs() {
			if s := c.Objs[x]; s.First == o.First && s.Parent >= 0 {
				return s.Parent
			}
		}
		return -1
	}
	if o.Split >= 0 {
		for _, x := range c.sortedIDs() {
			if s := c.Objs[x]; s.Split == o.Split && s.Parent >= 0 {
				return s.Parent
			}
		}
	}
	return -1
}

// MaxNesting is the documented nesting limit of parent relations.
const MaxNesting = 2

func (c *Cnr) direct(id, epoch int, ignoreExp bool, q Quirks) Reasons {
	var r Reasons
	if o := c.Objs[id]; o != nil && !ignoreExp && expired(o.Exp, epoch) {
		r |= ExpiredReason
	}
	if len(c.tombstones(id)) > 0 {
		r |= Tombstoned
	}
	if c.Marks[id] == MarkDefault {
		r |= Garbage
	}
	if r != 0 && c.locked(id, epoch, ignoreExp, q) {
		r &= Tombstoned
		if q.LockOverridesTombstone {
			r = 0
		}
	}
	return r
}

func (c *Cnr) reasons(id, epoch int, ignoreExp bool, q Quirks, level int) Reasons {
	r := c.direct(id, epoch, ignoreExp, q)
	if level < MaxNesting {
		if p := c.parentOf(id); p >= 0 {
			r |= c.reasons(p, epoch, ignoreExp, q, level+1)
		}
	}
	return r
}

// Reasons returns the set of applicable removal reasons of a (empty =
// available or simply absent). ignoreExp: expiration of objects and of locks
// is ignored.
func (m *Model) Reasons(a Addr, epoch int, ignoreExp bool) Reasons {
	c := m.C[a.C]
	if !c.Exists {
		return 0
	}
	if c.Removed {
		return ContainerRemoved
	}
	return c.reasons(a.I, epoch, ignoreExp, m.Quirks, 0)
}

// Primary picks ONE status out of the reason set the way Put admission needs
// it: an object's own expiry first, then its own tombstone; otherwise the worst
// of (own garbage mark, parent's primary) in the order Expired > Tombstoned >
// Garbage. It returns 0 when available.
func (m *Model) Primary(a Addr, epoch int) Reasons {
	c := m.C[a.C]
	if !c.Exists {
		return 0
	}
	if c.Removed {
		return ContainerRemoved
	}
	return c.primary(a.I, epoch, m.Quirks, 0)
}

func rank(r Reasons) int {
	switch r {
	case ExpiredReason:
		return 3
	case Tombstoned:
		return 2
	case Garbage:
		return 1
	}
	return 0
}

func (c *Cnr) primary(id, epoch int, q Quirks, level int) Reasons {
	d := c.direct(id, epoch, false, q)
	if d.Has(ExpiredReason) {
		return ExpiredReason
	}
	if d.Has(Tombstoned) {
		return Tombstoned
	}
	st := d & Garbage
	if level < MaxNesting {
		if p := c.parentOf(id); p >= 0 {
			if ps := c.primary(p, epoch, q, level+1); rank(ps) > rank(st) {
				st = ps
			}
		}
	}
	return st
}

// Locked reports whether a live lock protects a.
func (m *Model) Locked(a Addr, epoch int, ignoreExp bool) bool {
	c := m.C[a.C]
	if !c.Exists || c.Removed {
		return false
	}
	return c.locked(a.I, epoch, ignoreExp, m.Quirks)
}

// View is the status of one address.
type View struct {
	Stored  bool
	Reasons Reasons
	Locked  bool
	// ParentKind: "" (no stored object names it as parent), "split" or "ec".
	ParentKind string
	Obj        *Obj
}

// Status returns the view of address a at epoch.
func (m *Model) Status(a Addr, epoch int) View {
	c := m.C[a.C]
	v := View{Reasons: m.Reasons(a, epoch, false), Locked: m.Locked(a, epoch, false)}
	if c.Exists {
		v.Obj = c.Objs[a.I]
		v.Stored = v.Obj != nil
		v.ParentKind = c.parentKind(a.I)
	}
	return v
}

func (c *Cnr) kids(p int) []int {
	var r []int
	for _, x := range c.sortedIDs() {
		if c.Objs[x].Parent == p {
			r = append(r, x)
		}
	}
	return r
}

func (c *Cnr) parentKind(p int) string {
	ks := c.kids(p)
	if len(ks) == 0 {
		return ""
	}
	for _, k := range ks {
		if c.Objs[k].EC {
			return "ec"
		}
	}
	return "split"
}

// ECParts returns the stored EC parts of parent p matching (rule, part);
// part < 0 matches any part index of the rule.
func (m *Model) ECParts(a Addr, rule, part int) []int {
	c := m.C[a.C]
	var r []int
	for _, k := range c.kids(a.I) {
		o := c.Objs[k]
		if o.EC && o.Rule == rule && (part < 0 || o.Part == part) {
			r = append(r, k)
		}
	}
	return r
}

// children returns the stored (and, for the first part, possibly absent)
// objects that are removed together with parent p: EC parts if any, else the
// members of the split chain known through the children naming p, recursively.
func (c *Cnr) children(p int, level int) []int {
	ks := c.kids(p)
	if len(ks) == 0 || level > 3 {
		return nil
	}
	var res []int
	if c.parentKind(p) == "ec" {
		for _, k := range ks {
			if c.Objs[k].EC {
				res = append(res, k)
			}
		}
		return res
	}
	first, split := -1, -1
	var link, last []int
	for _, k := range ks {
		o := c.Objs[k]
		if o.First >= 0 {
			first = o.First
		}
		if o.Split >= 0 {
			split = o.Split
		}
		isV1, isEmpty, isLink := o.Split >= 0, o.Size == 0, o.Type == TLink
		if isLink || (isV1 && isEmpty) {
			link = []int{k}
		}
		if (isV1 && !isEmpty) || (!isV1 && !isLink) {
			last = []int{k}
		}
	}
	switch {
	case first >= 0:
		res = append(res, first)
		for _, x := range c.sortedIDs() {
			if c.Objs[x].First == first {
				res = append(res, x)
			}
		}
	case split >= 0:
		for _, x := range c.sortedIDs() {
			if c.Objs[x].Split == split {
				res = append(res, x)
			}
		}
	default:
		res = append(res, link...)
		res = append(res, last...)
	}
	n := len(res)
	for i := 0; i < n; i++ {
		res = append(res, c.children(res[i], level+1)...)
	}
	return res
}

func (c *Cnr) store(o Obj) {
	if old := c.Objs[o.ID]; old != nil {
		// re-put over an object hidden by a garbage mark: indexes are merged
		o.Phy = o.Phy || old.Phy
		o.Root = o.Root || old.Root
		if o.Parent < 0 {
			o.Parent = old.Parent
		}
		if o.First < 0 {
			o.First = old.First
		}
		if o.Split < 0 {
			o.Split = old.Split
		}
		o.Implicit = old.Implicit && o.Implicit
	}
	c.Objs[o.ID] = &o
}

// Put applies the admission rules documented for DB.Put and, if admitted,
// stores the object (and its parent header as a non-physical ROOT object).
func (m *Model) Put(s uni.Spec, epoch int) Class { return m.PutWith(s, epoch, "") }

// PutWith is Put with a hint for the one admission case the documentation
// leaves open: a LOCK whose target has no tombstone of its own but INHERITS
// one from its parent. Without a hint the lock is rejected iff the tombstone is
// the target's primary status (see Primary); with hint OK / AlreadyRemoved the
// hint decides. Everywhere else the hint is ignored.
func (m *Model) PutWith(s uni.Spec, epoch int, hint Class) Class {
	c := m.C[s.Cnr%uni.NContainers]
	if c.Exists && c.Removed {
		return AlreadyRemoved
	}
	o := Describe(s)
	a := Addr{s.Cnr % uni.NContainers, o.ID}
	switch m.Primary(a, epoch) {
	case Tombstoned:
		return AlreadyRemoved
	case ExpiredReason:
		return Expired
	case 0:
		if c.Exists && c.Objs[o.ID] != nil {
			return OK // already stored: no-op
		}
	}
	ph, hasPH := ParentHeader(s)
	storePH := false
	if hasPH {
		switch m.Primary(Addr{a.C, ph.ID}, epoch) {
		case Tombstoned:
			return AlreadyRemoved
		case ExpiredReason:
			return Expired
		case 0:
			storePH = !c.Exists || c.Objs[ph.ID] == nil
		default:
			storePH = true
		}
	}
	var marks []int
	switch o.Type {
	case TLock:
		if t := c.Objs[o.Target]; t != nil && t.Type != TRegular {
			return LockNonRegular
		}
		if c.Exists {
			switch {
			case len(c.tombstones(o.Target)) > 0 && !m.Quirks.LockOverridesTombstone:
				return AlreadyRemoved // documented: a tombstone is associated with the target
			case c.reasons(o.Target, epoch, false, m.Quirks, 0).Has(Tombstoned):
				rej := c.primary(o.Target, epoch, m.Quirks, 0) == Tombstoned
				if hint == OK || hint == AlreadyRemoved {
					rej = hint == AlreadyRemoved
				}
				if rej {
					return AlreadyRemoved
				}
			}
		}
	case TTombstone:
		if t := c.Objs[o.Target]; t != nil {
			if t.Type == TTombstone {
				return TSOnTS
			}
			if t.Type == TLock {
				return LockRemoval
			}
		}
		if c.Exists && c.locked(o.Target, epoch, false, m.Quirks) {
			return Locked
		}
		marks = append(c.children(o.Target, 0), o.Target)
	}
	c.Exists = true
	if storePH {
		c.store(ph)
	}
	for _, x := range marks {
		c.Marks[x] = MarkDefault
	}
	c.store(o)
	return OK
}

// MarkGarbage marks ids (and the children of those that are parents) in
// container ci with a default or redundant garbage mark. A redundant mark
// never downgrades a default one; a default mark upgrades a redundant one.
func (m *Model) MarkGarbage(ci int, ids []int, redundant bool) {
	c := m.C[ci]
	if !c.Exists || c.Removed {
		return
	}
	var all []int
	for _, id := range ids {
		all = append(all, id)
		all = append(all, c.children(id, 0)...)
	}
	for _, x := range all {
		switch {
		case c.Marks[x] == MarkNone && redundant:
			c.Marks[x] = MarkRedundant
		case !redundant:
			c.Marks[x] = MarkDefault
		}
	}
}

// InhumeContainer sets the container GC mark.
func (m *Model) InhumeContainer(ci int) {
	m.C[ci].Exists, m.C[ci].Removed = true, true
}

// DeleteContainer drops everything known about the container.
func (m *Model) DeleteContainer(ci int) {
	m.C[ci] = &Cnr{Objs: map[int]*Obj{}, Marks: map[int]Mark{}}
}

func (c *Cnr) deleteOne(x int, asParent bool, removed *[]int) {
	o := c.Objs[x]
	if o != nil {
		if !asParent && !o.Phy {
			return
		}
		delete(c.Objs, x)
		*removed = append(*removed, x)
	}
	delete(c.Marks, x)
	if o == nil {
		return
	}
	if o.Parent >= 0 && len(c.kids(o.Parent)) == 0 {
		c.deleteOne(o.Parent, true, removed)
	}
}

// Delete removes the metadata of physically stored ids (what GC does after
// removing the blobs); EC parts of a listed parent go too, and a parent goes
// with its last child. Non-physical objects are not deleted directly. Garbage
// marks of the deleted (or absent) ids are dropped. Returns the dropped IDs.
func (m *Model) Delete(ci int, ids []int) []int {
	c := m.C[ci]
	if !c.Exists {
		return nil
	}
	list := append([]int(nil), ids...)
	for _, id := range ids {
		for _, k := range c.kids(id) {
			if c.Objs[k].EC && !contains(ids, k) {
				list = append(list, k)
			}
		}
	}
	var removed []int
	for _, x := range list {
		c.deleteOne(x, false, &removed)
	}
	sort.Ints(removed)
	return removed
}

func contains(s []int, x int) bool {
	for _, v := range s {
		if v == x {
			return true
		}
	}
	return false
}

// Tombstones returns the stored tombstones targeting a (DB order).
func (m *Model) Tombstones(a Addr) []int { return m.C[a.C].tombstones(a.I) }

// Revive undoes a tombstone (drops ONE tombstone object targeting the address:
// tsHint if it is one of them, else the first in DB order) or a default garbage
// mark of the address itself.
func (m *Model) Revive(ci, id, tsHint int) Class {
	c := m.C[ci]
	if !c.Exists {
		return NotRemoved
	}
	if c.Removed {
		return ContainerRemovedCls
	}
	ts := c.tombstones(id)
	switch {
	case len(ts) > 0:
		t := ts[0]
		if contains(ts, tsHint) {
			t = tsHint
		}
		var rm []int
		c.deleteOne(t, false, &rm)
	case c.Marks[id] == MarkDefault:
	default:
		return NotRemoved
	}
	delete(c.Marks, id)
	return OK
}

func (m *Model) each(f func(ci int, c *Cnr, id int, o *Obj)) {
	for ci, c := range m.C {
		if !c.Exists {
			continue
		}
		ids := make([]int, 0, len(c.Objs))
		for id := range c.Objs {
			ids = append(ids, id)
		}
		sort.Ints(ids)
		for _, id := range ids {
			f(ci, c, id, c.Objs[id])
		}
	}
}

// AvailableIn returns the stored objects of container ci whose reason set is
// empty at epoch (what an unfiltered search returns), sorted by index.
func (m *Model) AvailableIn(ci, epoch int) []int {
	var r []int
	m.each(func(c2 int, c *Cnr, id int, _ *Obj) {
		if c2 == ci && m.Reasons(Addr{ci, id}, epoch, false) == 0 {
			r = append(r, id)
		}
	})
	return r
}

// Available returns all available stored objects at epoch.
func (m *Model) Available(epoch int) []Addr {
	var r []Addr
	for ci := range m.C {
		for _, id := range m.AvailableIn(ci, epoch) {
			r = append(r, Addr{ci, id})
		}
	}
	return r
}

// Listed returns the physical listing: must ⊆ listing ⊆ must ∪ may. An object
// is omitted exactly if it is marked for removal (tombstone association or
// default garbage mark; a redundant mark keeps it listed) or its container is
// removed. Physical objects that only INHERIT a removal mark from a parent are
// in may (the statement does not say).
func (m *Model) Listed() (must, may []Addr) {
	m.each(func(ci int, c *Cnr, id int, o *Obj) {
		if c.Removed || !o.Phy {
			return
		}
		if len(c.tombstones(id)) > 0 || c.Marks[id] == MarkDefault {
			return
		}
		inh := false
		for p, l := c.parentOf(id), 0; p >= 0 && l < MaxNesting; p, l = c.parentOf(p), l+1 {
			if len(c.tombstones(p)) > 0 || c.Marks[p] == MarkDefault {
				inh = true
			}
		}
		if inh {
			may = append(may, Addr{ci, id})
		} else {
			must = append(must, Addr{ci, id})
		}
	})
	return
}

// ExpiredAt returns the stored objects with expiration epoch < epoch that are
// not protected by a lock live at that epoch, in containers not removed.
func (m *Model) ExpiredAt(epoch int) []Addr {
	var r []Addr
	m.each(func(ci int, c *Cnr, id int, o *Obj) {
		if c.Removed || !expired(o.Exp, epoch) || c.locked(id, epoch, false, m.Quirks) {
			return
		}
		r = append(r, Addr{ci, id})
	})
	return r
}

// GarbageMarked returns every ID carrying a garbage mark (default or
// redundant, stored or not) in containers not removed, plus whether it is stored.
func (m *Model) GarbageMarked() []Addr {
	var r []Addr
	for ci, c := range m.C {
		if !c.Exists || c.Removed {
			continue
		}
		ids := make([]int, 0, len(c.Marks))
		for id := range c.Marks {
			ids = append(ids, id)
		}
		sort.Ints(ids)
		for _, id := range ids {
			r = append(r, Addr{ci, id})
		}
	}
	return r
}

// RemovedContainers returns the containers carrying the GC mark.
func (m *Model) RemovedContainers() []int {
	var r []int
	for ci, c := range m.C {
		if c.Exists && c.Removed {
			r = append(r, ci)
		}
	}
	return r
}

// StoredIn returns all stored object indexes of container ci (sorted).
func (m *Model) StoredIn(ci int) []int {
	var r []int
	m.each(func(c2 int, _ *Cnr, id int, _ *Obj) {
		if c2 == ci {
			r = append(r, id)
		}
	})
	return r
}

// Counters is the recount of the per-type object counters.
type Counters struct{ Phy, Root, TS, Lock, Link uint64 }

// CountersIn recounts container ci (all zero for a removed container).
func (m *Model) CountersIn(ci int) Counters {
	var r Counters
	c := m.C[ci]
	if !c.Exists || c.Removed {
		return r
	}
	for _, o := range c.Objs {
		if o.Phy {
			r.Phy++
		}
		if o.Root {
			r.Root++
		}
		switch o.Type {
		case TTombstone:
			r.TS++
		case TLock:
			r.Lock++
		case TLink:
			r.Link++
		}
	}
	return r
}

// Counters recounts all containers.
func (m *Model) Counters() Counters {
	var r Counters
	for ci := range m.C {
		x := m.CountersIn(ci)
		r.Phy += x.Phy
		r.Root += x.Root
		r.TS += x.TS
		r.Lock += x.Lock
		r.Link += x.Link
	}
	return r
}

// MarkedForRemoval: the ID carries any garbage mark or a tombstone targets it.
func (m *Model) MarkedForRemoval(a Addr) bool {
	c := m.C[a.C]
	return c.Marks[a.I] != MarkNone || len(c.tombstones(a.I)) > 0
}

// ContainerInfo returns the number and total payload of stored physical
// objects of ci that are not marked for removal (0,0 for a removed container).
func (m *Model) ContainerInfo(ci int) (number, size uint64) {
	c := m.C[ci]
	if !c.Exists || c.Removed {
		return 0, 0
	}
	for id, o := range c.Objs {
		if o.Phy && !m.MarkedForRemoval(Addr{ci, id}) {
			number++
			size += uint64(o.Size)
		}
	}
	return
}

// MaxDepth returns the longest child→parent chain among stored objects.
func (m *Model) MaxDepth() int {
	mx := 0
	m.each(func(_ int, c *Cnr, id int, _ *Obj) {
		d := 0
		for p := c.parentOf(id); p >= 0 && d < 6; p = c.parentOf(p) {
			d++
		}
		if d > mx {
			mx = d
		}
	})
	return mx
}

// Mark returns the garbage mark of a.
func (m *Model) Mark(a Addr) Mark { return m.C[a.C].Marks[a.I] }

// Children returns the IDs removed together with parent a (see Put of a tombstone / MarkGarbage).
func (m *Model) Children(a Addr) []int { return m.C[a.C].children(a.I, 0) }

// ParentOf returns the resolved parent of a stored object (-1 none).
func (m *Model) ParentOf(a Addr) int {
	if !m.C[a.C].Exists {
		return -1
	}
	return m.C[a.C].parentOf(a.I)
}

// Stored reports whether a is stored (indexed), physically or as a parent header.
func (m *Model) Stored(a Addr) bool { return m.C[a.C].Exists && m.C[a.C].Objs[a.I] != nil }

// Get returns the stored record of a (nil if none).
func (m *Model) Get(a Addr) *Obj {
	if !m.C[a.C].Exists {
		return nil
	}
	return m.C[a.C].Objs[a.I]
}

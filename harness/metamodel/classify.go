package metamodel

import (
	"errors"
	"strings"

	iec "github.com/nspcc-dev/neofs-node/internal/ec"
	meta "github.com/nspcc-dev/neofs-node/pkg/local_object_storage/metabase"
	apistatus "github.com/nspcc-dev/neofs-sdk-go/client/status"
	"github.com/nspcc-dev/neofs-sdk-go/object"
	oid "github.com/nspcc-dev/neofs-sdk-go/object/id"

	"github.com/nspcc-dev/neofs-node/verifharness/uni"
)

// Classify maps an error returned by the real metabase / shard to a Class.
// Only error TYPES are inspected (never messages, except for the one untyped
// admission error "TS's target is another TS").
func Classify(err error) Class {
	var (
		si *object.SplitInfoError
		ep iec.ErrParts
	)
	switch {
	case err == nil:
		return OK
	case errors.As(err, &si):
		return SplitInfo
	case errors.As(err, &ep):
		return ECParts
	case errors.Is(err, meta.ErrObjectIsExpired):
		return Expired
	case errors.Is(err, apistatus.ErrObjectAlreadyRemoved):
		return AlreadyRemoved
	case errors.Is(err, apistatus.ErrObjectNotFound):
		return NotFound
	case errors.Is(err, apistatus.ErrObjectLocked):
		return Locked
	case errors.Is(err, apistatus.ErrLockNonRegularObject):
		return LockNonRegular
	case errors.Is(err, meta.ErrLockObjectRemoval):
		return LockRemoval
	case errors.Is(err, meta.ErrObjectWasNotRemoved):
		return NotRemoved
	case errors.Is(err, meta.ErrReviveFromContainerGarbage):
		return ContainerRemovedCls
	case strings.Contains(err.Error(), "target is another TS"):
		return TSOnTS
	}
	return Other
}

// OID returns the real address of a.
func (a Addr) OID() oid.Address { return uni.Addr(a.C, a.I) }

// AddrOf converts a real address of the universe to an Addr (ok=false if outside).
func AddrOf(a oid.Address) (Addr, bool) {
	c, i := uni.Index(a)
	return Addr{c, i}, c >= 0 && i >= 0
}

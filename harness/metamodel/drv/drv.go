// Package drv drives a REAL metabase (directly or through a shard) and the
// metamodel reference model with the same generated history. It is the state
// machine shared by the C01 (views) and C02 (counters) checks: World.Actions
// returns the rapid action map for t.Repeat; the caller adds the "" invariant.
//
// Admission results (error classes of Put / Revive) are compared here because
// they decide all later states.
package drv

import (
	"fmt"
	"os"
	"path/filepath"
	"sort"
	"strings"
	"time"

	"github.com/nspcc-dev/bbolt"

	meta "github.com/nspcc-dev/neofs-node/pkg/local_object_storage/metabase"
	cid "github.com/nspcc-dev/neofs-sdk-go/container/id"
	"github.com/nspcc-dev/neofs-sdk-go/object"
	oid "github.com/nspcc-dev/neofs-sdk-go/object/id"
	"pgregory.net/rapid"

	mm "github.com/nspcc-dev/neofs-node/verifharness/metamodel"
	"github.com/nspcc-dev/neofs-node/verifharness/stor"
	"github.com/nspcc-dev/neofs-node/verifharness/uni"
)

// Backend is what the history is applied to (metabase or shard).
type Backend interface {
	Put(o *object.Object) error
	MarkGarbage(c cid.ID, ids []oid.ID, mark meta.GarbageMark) error
	Delete(c cid.ID, ids []oid.ID) error
	InhumeContainer(c cid.ID) error
	DeleteContainer(c cid.ID) error
	Revive(a oid.Address) (meta.ReviveStatus, error)
	Reopen() error
	Close() error
}

// MetaBackend applies the history to a metabase directly.
type MetaBackend struct {
	Path string
	Ep   *stor.Epoch
	DB   *meta.DB
}

// OpenMetaBackend opens a fresh metabase at dir/meta.
func OpenMetaBackend(dir string, ep *stor.Epoch) (*MetaBackend, error) {
	b := &MetaBackend{Path: filepath.Join(dir, "meta"), Ep: ep}
	db, err := stor.OpenMeta(b.Path, ep, boltOpts())
	b.DB = db
	return b, err
}

// boltOpts: no fsync (the files live on tmpfs and are never crash-tested here).
func boltOpts() meta.Option {
	return meta.WithBoltDBOptions(&bbolt.Options{NoSync: true, NoFreelistSync: true, Timeout: time.Second})
}

func (b *MetaBackend) Put(o *object.Object) error { return b.DB.Put(o) }
func (b *MetaBackend) MarkGarbage(c cid.ID, ids []oid.ID, mark meta.GarbageMark) error {
	_, err := b.DB.MarkGarbage(c, ids, mark)
	return err
}
func (b *MetaBackend) Delete(c cid.ID, ids []oid.ID) error {
	_, _, err := b.DB.Delete(c, ids)
	return err
}
func (b *MetaBackend) InhumeContainer(c cid.ID) error {
	_, err := b.DB.InhumeContainer(c)
	return err
}
func (b *MetaBackend) DeleteContainer(c cid.ID) error { return b.DB.DeleteContainer(c) }
func (b *MetaBackend) Revive(a oid.Address) (meta.ReviveStatus, error) {
	return b.DB.ReviveObject(a)
}
func (b *MetaBackend) Reopen() error {
	if err := b.DB.Close(); err != nil {
		return err
	}
	db, err := stor.OpenMeta(b.Path, b.Ep, boltOpts())
	b.DB = db
	return err
}
func (b *MetaBackend) Close() error { return b.DB.Close() }

// World is one case: catalog, model, backend, epoch and the operation log.
type World struct {
	Cat   mm.Catalog
	M     *mm.Model
	B     Backend
	Ep    *stor.Epoch
	Epoch int
	Ops   []string
	// Seen collects history-class labels (for evidence and non-triviality rules).
	Seen map[string]bool
	// Opts
	NoReopen, NoDeleteContainer bool
	// Avoid lists history classes excluded by construction (recorded findings):
	//   "mark-nonphysical"  garbage marks only on stored physical objects that are not parents
	//   "reput-over-mark"   no put of an ID that carries a garbage mark
	//   "revive"            no revival that would succeed (tombstoned or default-marked address)
	//   "mark-phy-parent"   no garbage mark that hits a PHYSICAL object which is also the parent of stored parts
	//   "ts-on-marked"      no tombstone whose target (or a child of it) already carries a garbage mark
	//   "mark-redundant"    no redundant marks
	//   "reopen"            no close/open
	//   "ts-nonphysical"    no tombstone whose target is absent, non-physical or a parent
	//   "ts-on-redundant"   no tombstone that removes a stored object carrying a redundant mark
	//   "ts-link"           no tombstone that removes a stored non-REGULAR object with payload (link)
	Avoid map[string]bool
	// FollowAbsentMarks narrows the "mark-nonphysical" exclusion: garbage marks on
	// ABSENT IDs without children are still generated; the recorded defect (the
	// mark is counted in the GC counter) is followed by Phantom, so that the
	// number reported for the container is expected to be lower by exactly the
	// phantom marks still present – and must come back once Delete drops them.
	FollowAbsentMarks bool
	// Phantom: garbage marks created on absent IDs (counted by the implementation).
	Phantom map[mm.Addr]bool
	// Excluded counts, per Avoid class, the actions redirected or dropped.
	Excluded map[string]int
	// OnAdmission, if set, is consulted when model and code disagree on the
	// admission of a Put: return true if the disagreement is a recorded finding
	// and the model was switched to follow the code (the put is then replayed).
	OnAdmission func(w *World, s uni.Spec, model, real mm.Class) bool
}

// NewWorld creates a world over backend b.
func NewWorld(cat mm.Catalog, b Backend, ep *stor.Epoch) *World {
	return &World{Cat: cat, M: mm.New(), B: b, Ep: ep, Seen: map[string]bool{}, Avoid: map[string]bool{}, Excluded: map[string]int{}, Phantom: map[mm.Addr]bool{}}
}

func (w *World) log(f string, a ...any) { w.Ops = append(w.Ops, fmt.Sprintf(f, a...)) }

// History renders the operation log.
func (w *World) History() string { return strings.Join(w.Ops, "\n  ") }

// Fingerprint identifies the normalised case.
func (w *World) Fingerprint() string { return strings.Join(w.Ops, ";") }

// Labels returns the sorted history-class labels.
func (w *World) Labels() []string {
	var r []string
	for k := range w.Seen {
		r = append(r, k)
	}
	sort.Strings(r)
	return r
}

func oids(ids []int) []oid.ID {
	r := make([]oid.ID, len(ids))
	for i, v := range ids {
		r[i] = uni.OID(v)
	}
	return r
}

func (w *World) drawAddr(t *rapid.T) mm.Addr {
	return mm.Addr{C: rapid.IntRange(0, w.Cat.NC-1).Draw(t, "c"), I: rapid.IntRange(0, uni.NObjects-1).Draw(t, "i")}
}

// DoPut puts catalog object a into backend and model and compares admission.
func (w *World) DoPut(t *rapid.T, a mm.Addr) {
	s := w.Cat.Spec(a)
	if r := w.Cat.Requires(a); r >= 0 && !w.M.Stored(mm.Addr{C: a.C, I: r}) {
		// realistic order only: the nested EC parent must be known first
		a = mm.Addr{C: a.C, I: r}
		s = w.Cat.Spec(a)
	}
	if cl := w.avoidPut(a, s); cl != "" {
		w.Excluded[cl]++
		w.log("skip put %s (excluded class %s)", s, cl)
		return
	}
	before := w.M.Clone()
	wasStored := w.M.Stored(a)
	wasMarked := w.M.MarkedForRemoval(a)
	own, tgt := w.M.Reasons(a, w.Epoch, false), mm.Reasons(0)
	if ph, ok := mm.ParentHeader(s); ok {
		own |= w.M.Reasons(mm.Addr{C: a.C, I: ph.ID}, w.Epoch, false)
	}
	if s.Kind == uni.Lock || s.Kind == uni.Tombstone {
		tgt = w.M.Reasons(mm.Addr{C: a.C, I: s.Target}, w.Epoch, false)
	}
	want := w.M.Put(s, w.Epoch)
	err := w.B.Put(uni.Build(s))
	got := mm.Classify(err)
	w.log("put %s [%s] -> %s", s, w.Cat.Roles[a.C][a.I], got)
	switch {
	case wasStored && got == mm.OK:
		w.Seen["dup-put"] = true
		if wasMarked {
			w.Seen["re-put-over-mark"] = true
		}
	case got != mm.OK:
		w.Seen["put-rejected-"+string(got)] = true
	}
	switch s.Kind {
	case uni.Lock:
		if got == mm.OK {
			w.Seen["lock"] = true
		}
	case uni.Tombstone:
		if got == mm.OK {
			w.Seen["tombstone"] = true
			ta := mm.Addr{C: a.C, I: s.Target}
			if !before.Stored(ta) {
				w.Seen["ts-on-absent"] = true
			} else if before.ParentOf(ta) >= 0 {
				w.Seen["ts-on-child"] = true
			}
			if before.Status(ta, w.Epoch).ParentKind != "" {
				w.Seen["ts-on-parent"] = true
			}
		}
	case uni.ChildV1, uni.ChildV2, uni.ECPart, uni.Link:
		if got == mm.OK {
			w.Seen["child"] = true
		}
	}
	if want == got {
		return
	}
	rej := func(c mm.Class) bool { return c == mm.AlreadyRemoved || c == mm.Expired }
	if rej(want) && rej(got) && ((own | tgt).Admits(got)) {
		return // both reject; which of several applicable reasons is reported is not fixed
	}
	w.M = before.Clone()
	if s.Kind == uni.Lock && w.M.PutWith(s, w.Epoch, got) == got {
		w.Seen["lock-on-inherited-tombstone"] = true
		return // admission of a LOCK on a target that only inherits a tombstone is not specified
	}
	// a live lock on a tombstoned object (reachable only through a forced mark +
	// revival of the LOCK itself): whether the lock hides the tombstone is not specified
	w.M = before.Clone()
	q := w.M.Quirks
	involved := []mm.Addr{a}
	if ph, ok := mm.ParentHeader(s); ok {
		involved = append(involved, mm.Addr{C: a.C, I: ph.ID})
	}
	if s.Kind == uni.Lock || s.Kind == uni.Tombstone {
		involved = append(involved, mm.Addr{C: a.C, I: s.Target})
	}
	ambiguous := false
	for _, x := range involved {
		r1 := w.M.Reasons(x, w.Epoch, false)
		w.M.Quirks.LockOverridesTombstone = !q.LockOverridesTombstone
		r2 := w.M.Reasons(x, w.Epoch, false)
		w.M.Quirks = q
		ambiguous = ambiguous || r1 != r2
	}
	if ambiguous {
		w.M.Quirks.LockOverridesTombstone = !q.LockOverridesTombstone
		res := w.M.PutWith(s, w.Epoch, got)
		w.M.Quirks = q
		if res == got {
			w.Seen["lock-vs-tombstone-unspecified"] = true
			return
		}
	}
	w.M = before
	if w.OnAdmission != nil && w.OnAdmission(w, s, want, got) {
		if again := w.M.Put(s, w.Epoch); again == got {
			return
		}
	}
	t.Fatalf("Put admission differs: %s at epoch %d: model %s, metabase %s (%v)\nown/parent reasons %s, target reasons %s\nhistory:\n  %s",
		s, w.Epoch, want, got, err, own, tgt, w.History())
}

func (w *World) plainPhysical(a mm.Addr) bool {
	o := w.M.Get(a)
	return o != nil && o.Phy && w.M.Status(a, w.Epoch).ParentKind == ""
}

// allPhysical: a and everything removed together with it are stored physical objects.
func (w *World) allPhysical(a mm.Addr) bool {
	for _, k := range append(w.M.Children(a), a.I) {
		if o := w.M.Get(mm.Addr{C: a.C, I: k}); o == nil || !o.Phy {
			return false
		}
	}
	return true
}

// Phantoms drops phantom entries whose mark is gone (deleted, container
// deleted) and returns how many remain in container ci.
func (w *World) Phantoms(ci int) int {
	n := 0
	for a := range w.Phantom {
		if w.M.Mark(a) == mm.MarkNone || w.M.Stored(a) {
			delete(w.Phantom, a)
			continue
		}
		if a.C == ci {
			n++
		}
	}
	return n
}

// avoidPut returns the Avoid class that forbids putting s now ("" if none).
func (w *World) avoidPut(a mm.Addr, s uni.Spec) string {
	if w.Avoid["mark-nonphysical"] {
		// storing an ID that carries a phantom mark belongs to the same recorded class
		if w.Phantom[a] && w.M.Mark(a) != mm.MarkNone {
			return "mark-nonphysical"
		}
		if ph, ok := mm.ParentHeader(s); ok {
			if pa := (mm.Addr{C: a.C, I: ph.ID}); w.Phantom[pa] && w.M.Mark(pa) != mm.MarkNone {
				return "mark-nonphysical"
			}
		}
	}
	if w.Avoid["reput-over-mark"] {
		// a stored object hidden by a (possibly inherited) default garbage mark is indexed again
		if w.M.Stored(a) && w.M.Primary(a, w.Epoch) == mm.Garbage {
			return "reput-over-mark"
		}
		if ph, ok := mm.ParentHeader(s); ok {
			if pa := (mm.Addr{C: a.C, I: ph.ID}); w.M.Stored(pa) && w.M.Primary(pa, w.Epoch) == mm.Garbage {
				return "reput-over-mark"
			}
		}
	}
	if s.Kind == uni.Tombstone {
		ta := mm.Addr{C: a.C, I: s.Target}
		if w.Avoid["ts-nonphysical"] && !w.plainPhysical(ta) {
			return "ts-nonphysical"
		}
		if w.Avoid["ts-link"] {
			for _, k := range append(w.M.Children(ta), ta.I) {
				if o := w.M.Get(mm.Addr{C: a.C, I: k}); o != nil && o.Type != mm.TRegular && o.Size > 0 {
					return "ts-link"
				}
			}
		}
		if w.Avoid["ts-on-redundant"] {
			for _, k := range append(w.M.Children(ta), ta.I) {
				x := mm.Addr{C: a.C, I: k}
				if w.M.Stored(x) && w.M.Mark(x) == mm.MarkRedundant {
					return "ts-on-redundant"
				}
			}
		}
		if w.Avoid["ts-on-marked"] {
			for _, k := range append(w.M.Children(ta), ta.I) {
				x := mm.Addr{C: a.C, I: k}
				if o := w.M.Get(x); o != nil && o.Size > 0 && w.M.MarkedForRemoval(x) {
					return "ts-on-marked"
				}
			}
		}
	}
	return ""
}

// Actions returns the action map for t.Repeat (without the "" invariant).
func (w *World) Actions() map[string]func(*rapid.T) {
	put := func(t *rapid.T) { w.DoPut(t, w.drawAddr(t)) }
	putRel := func(t *rapid.T) {
		// bias: put something related to what is stored (target of a stored TS/LOCK, sibling, or a TS/LOCK of a stored object)
		c := rapid.IntRange(0, w.Cat.NC-1).Draw(t, "c")
		var cand []int
		for i := 0; i < uni.NObjects; i++ {
			s := w.Cat.Specs[c][i]
			a := mm.Addr{C: c, I: i}
			switch {
			case (s.Kind == uni.Tombstone || s.Kind == uni.Lock) && w.M.Stored(mm.Addr{C: c, I: s.Target}) && !w.M.Stored(a):
				cand = append(cand, i)
			case w.M.Stored(a):
				cand = append(cand, i) // duplicate put
			case s.Parent >= 0 && w.M.Stored(mm.Addr{C: c, I: s.Parent}):
				cand = append(cand, i)
			}
		}
		if len(cand) == 0 {
			w.DoPut(t, w.drawAddr(t))
			return
		}
		w.DoPut(t, mm.Addr{C: c, I: rapid.SampledFrom(cand).Draw(t, "rel")})
	}
	mark := func(t *rapid.T) {
		c := rapid.IntRange(0, w.Cat.NC-1).Draw(t, "c")
		ids := rapid.SliceOfNDistinct(rapid.IntRange(0, uni.NObjects-1), 1, 3, rapid.ID[int]).Draw(t, "ids")
		if st := w.M.StoredIn(c); len(st) > 0 && rapid.IntRange(0, 3).Draw(t, "stored") > 0 {
			ids[0] = rapid.SampledFrom(st).Draw(t, "sid")
			ids = dedup(ids)
		}
		red := rapid.IntRange(0, 2).Draw(t, "redundant") == 0
		if w.Avoid["mark-nonphysical"] {
			var keep []int
			for _, id := range ids {
				x := mm.Addr{C: c, I: id}
				switch {
				case w.allPhysical(x):
					keep = append(keep, id)
				case w.FollowAbsentMarks && !w.M.Stored(x) && len(w.M.Children(x)) == 0:
					keep = append(keep, id)
					if w.M.Mark(x) == mm.MarkNone {
						w.Phantom[x] = true
						w.Seen["phantom-mark-on-absent"] = true
						w.Excluded["mark-nonphysical"]++ // occurrence of the recorded defect (followed, not dropped)
					}
				}
			}
			if len(keep) != len(ids) {
				w.Excluded["mark-nonphysical"]++
			}
			if ids = keep; len(ids) == 0 {
				w.log("skip mark (excluded class mark-nonphysical)")
				return
			}
		}
		if w.Avoid["mark-phy-parent"] {
			var keep []int
			for _, id := range ids {
				bad := false
				for _, k := range append(w.M.Children(mm.Addr{C: c, I: id}), id) {
					x := mm.Addr{C: c, I: k}
					if o := w.M.Get(x); o != nil && o.Phy && w.M.Status(x, w.Epoch).ParentKind != "" {
						bad = true
					}
				}
				if !bad {
					keep = append(keep, id)
				}
			}
			if len(keep) != len(ids) {
				w.Excluded["mark-phy-parent"]++
			}
			if ids = keep; len(ids) == 0 {
				w.log("skip mark (excluded class mark-phy-parent)")
				return
			}
		}
		if red && w.Avoid["mark-redundant"] {
			for _, id := range ids {
				for _, k := range append(w.M.Children(mm.Addr{C: c, I: id}), id) {
					if o := w.M.Get(mm.Addr{C: c, I: k}); o != nil && o.Size > 0 {
						red = false
					}
				}
			}
			if !red {
				w.Excluded["mark-redundant"]++
			}
		}
		mk := meta.GarbageMarkDefault
		if red {
			mk = meta.GarbageMarkRedundant
		}
		for _, id := range ids {
			a := mm.Addr{C: c, I: id}
			switch {
			case w.M.Mark(a) == mm.MarkRedundant && !red:
				w.Seen["redundant-then-default"] = true
			case w.M.Mark(a) != mm.MarkNone:
				w.Seen["re-mark"] = true
			}
			if !w.M.Stored(a) {
				w.Seen["mark-absent"] = true
			} else if !w.M.Get(a).Phy {
				w.Seen["mark-virtual"] = true
			}
		}
		w.M.MarkGarbage(c, ids, red)
		err := w.B.MarkGarbage(uni.Cnr(c), oids(ids), mk)
		w.log("mark c%d %v redundant=%v -> %v", c, ids, red, err)
		w.Seen["mark"] = true
		if red {
			w.Seen["mark-redundant"] = true
		}
		if err != nil {
			t.Fatalf("MarkGarbage: %v\nhistory:\n  %s", err, w.History())
		}
	}
	del := func(t *rapid.T) {
		c := rapid.IntRange(0, w.Cat.NC-1).Draw(t, "c")
		ids := rapid.SliceOfNDistinct(rapid.IntRange(0, uni.NObjects-1), 1, 2, rapid.ID[int]).Draw(t, "ids")
		if st := w.M.StoredIn(c); len(st) > 0 && rapid.IntRange(0, 4).Draw(t, "stored") > 0 {
			ids[0] = rapid.SampledFrom(st).Draw(t, "sid")
			ids = dedup(ids)
		}
		nPar := 0
		for _, id := range w.M.StoredIn(c) {
			if o := w.M.Get(mm.Addr{C: c, I: id}); !o.Phy {
				nPar++
			}
		}
		rm := w.M.Delete(c, ids)
		nPar2 := 0
		for _, id := range w.M.StoredIn(c) {
			if o := w.M.Get(mm.Addr{C: c, I: id}); !o.Phy {
				nPar2++
			}
		}
		err := w.B.Delete(uni.Cnr(c), oids(ids))
		w.log("delete c%d %v (model dropped %v) -> %v", c, ids, rm, err)
		if len(rm) > 0 {
			w.Seen["delete"] = true
		}
		if len(rm) > len(ids) || nPar2 < nPar {
			w.Seen["parent-dropped-with-last-child"] = true
		}
		if err != nil {
			t.Fatalf("Delete: %v\nhistory:\n  %s", err, w.History())
		}
	}
	revive := func(t *rapid.T) {
		a := w.drawAddr(t)
		var cand []int
		for i := 0; i < uni.NObjects; i++ {
			if w.M.MarkedForRemoval(mm.Addr{C: a.C, I: i}) {
				cand = append(cand, i)
			}
		}
		if len(cand) > 0 && rapid.IntRange(0, 4).Draw(t, "marked") > 0 {
			a.I = rapid.SampledFrom(cand).Draw(t, "rid")
		}
		if w.Avoid["revive"] && (len(w.M.Tombstones(a)) > 0 || w.M.Mark(a) == mm.MarkDefault) {
			w.Excluded["revive"]++
			w.log("skip revive %s (excluded class revive)", a)
			return
		}
		tss := w.M.Tombstones(a)
		res, err := w.B.Revive(a.OID())
		got := mm.Classify(err)
		hint := -1
		if got == mm.OK && res.StatusType() == meta.ReviveStatusGraveyard {
			if ta, ok := mm.AddrOf(res.TombstoneAddress()); ok {
				hint = ta.I
			}
			if !contains(tss, hint) {
				t.Fatalf("Revive %s reports tombstone o%d, model knows tombstones %v\nhistory:\n  %s", a, hint, tss, w.History())
			}
		}
		want := w.M.Revive(a.C, a.I, hint)
		w.log("revive %s -> %s", a, got)
		if got == mm.OK {
			w.Seen["revive"] = true
			if len(tss) > 0 {
				w.Seen["revive-after-tombstone"] = true
			}
		}
		if want != got {
			t.Fatalf("Revive %s: model %s, metabase %s (%v)\nhistory:\n  %s", a, want, got, err, w.History())
		}
	}
	inhumeCnr := func(t *rapid.T) {
		c := rapid.IntRange(0, w.Cat.NC-1).Draw(t, "c")
		w.M.InhumeContainer(c)
		err := w.B.InhumeContainer(uni.Cnr(c))
		w.log("inhume-container c%d -> %v", c, err)
		w.Seen["container-removed"] = true
		if err != nil {
			t.Fatalf("InhumeContainer: %v", err)
		}
	}
	deleteCnr := func(t *rapid.T) {
		c := rapid.IntRange(0, w.Cat.NC-1).Draw(t, "c")
		if rm := w.M.RemovedContainers(); len(rm) > 0 && rapid.IntRange(0, 3).Draw(t, "removed") > 0 {
			c = rapid.SampledFrom(rm).Draw(t, "rc")
		}
		w.M.DeleteContainer(c)
		err := w.B.DeleteContainer(uni.Cnr(c))
		w.log("delete-container c%d -> %v", c, err)
		w.Seen["container-deleted"] = true
		if err != nil {
			t.Fatalf("DeleteContainer: %v", err)
		}
	}
	epoch := func(t *rapid.T) {
		d := rapid.SampledFrom([]int{1, 1, 1, 2, 3}).Draw(t, "d")
		if w.Epoch+d > uni.MaxEpoch {
			d = 0
		}
		w.Epoch += d
		w.Ep.Set(uint64(w.Epoch))
		w.log("epoch -> %d", w.Epoch)
		if d > 0 {
			w.Seen["epoch-advance"] = true
		}
	}
	reopen := func(t *rapid.T) {
		err := w.B.Reopen()
		w.log("reopen -> %v", err)
		w.Seen["reopen"] = true
		if err != nil {
			t.Fatalf("reopen: %v", err)
		}
	}
	acts := map[string]func(*rapid.T){
		"put1": put, "put2": put, "put3": put, "put4": putRel, "put5": putRel, "put6": putRel,
		"mark1": mark, "mark2": mark,
		"delete": del, "revive": revive,
		"epoch1": epoch, "epoch2": epoch,
		"inhumeContainer": func(t *rapid.T) {
			if rapid.IntRange(0, 4).Draw(t, "really") == 0 {
				inhumeCnr(t)
			} else {
				put(t)
			}
		},
	}
	if !w.NoDeleteContainer {
		acts["deleteContainer"] = func(t *rapid.T) {
			// mostly what GC does: delete a container that carries the GC mark
			rm := w.M.RemovedContainers()
			if n := rapid.IntRange(0, 9).Draw(t, "really"); (len(rm) > 0 && n < 4) || n == 0 {
				deleteCnr(t)
			} else {
				mark(t)
			}
		}
	}
	if !w.NoReopen && !w.Avoid["reopen"] {
		acts["reopen"] = func(t *rapid.T) {
			if rapid.IntRange(0, 1).Draw(t, "really") == 0 {
				reopen(t)
			} else {
				putRel(t)
			}
		}
	}
	return acts
}

func dedup(s []int) []int {
	var r []int
	for _, v := range s {
		if !contains(r, v) {
			r = append(r, v)
		}
	}
	return r
}

func contains(s []int, x int) bool {
	for _, v := range s {
		if v == x {
			return true
		}
	}
	return false
}

// TempDir creates a per-case directory; call the returned func to remove it.
func TempDir(prefix string) (string, func()) {
	d, err := os.MkdirTemp("", prefix)
	if err != nil {
		fmt.Printf("VERIF-INCONCLUSIVE: mkdtemp: %v\n", err)
		os.Exit(3)
	}
	return d, func() { _ = os.RemoveAll(d) }
}

package metamodel

import (
	"strconv"
	"strings"
	"testing"

	iec "github.com/nspcc-dev/neofs-node/internal/ec"
	"github.com/nspcc-dev/neofs-node/verifharness/uni"
	"github.com/nspcc-dev/neofs-sdk-go/object"
	"pgregory.net/rapid"
)

func idx(t *rapid.T, id interface{ IsZero() bool }, get func() int) int {
	if id.IsZero() {
		return -1
	}
	return get()
}

// checkDescribe compares Describe/ParentHeader with the object uni.Build builds.
func checkDescribe(t *rapid.T, s uni.Spec) {
	o := uni.Build(s)
	d := Describe(s)
	if o.Type().String() != d.Type {
		t.Fatalf("%v: type %s vs %s", s, o.Type(), d.Type)
	}
	wantRoot := !o.HasParent() && o.Type() == object.TypeRegular
	if wantRoot != d.Root {
		t.Fatalf("%v: root %v vs %v", s, wantRoot, d.Root)
	}
	pi := -1
	if p := o.GetParentID(); !p.IsZero() {
		_, pi = uni.Index(uni.Addr(0, 0))
		for k := 0; k < uni.NObjects; k++ {
			if uni.OID(k) == p {
				pi = k
			}
		}
	}
	if pi != d.Parent {
		t.Fatalf("%v: parent %d vs %d", s, pi, d.Parent)
	}
	fi := -1
	if f := o.GetFirstID(); !f.IsZero() {
		for k := 0; k < uni.NObjects; k++ {
			if uni.OID(k) == f {
				fi = k
			}
		}
	}
	if fi != d.First {
		t.Fatalf("%v: first %d vs %d", s, fi, d.First)
	}
	if (o.SplitID() != nil) != (d.Split >= 0) {
		t.Fatalf("%v: split %v vs %d", s, o.SplitID(), d.Split)
	}
	if int(o.PayloadSize()) != d.Size {
		t.Fatalf("%v: size %d vs %d", s, o.PayloadSize(), d.Size)
	}
	exp, ec := -1, false
	for _, a := range o.Attributes() {
		if a.Key() == object.AttributeExpirationEpoch {
			exp, _ = strconv.Atoi(a.Value())
		}
		if strings.HasPrefix(a.Key(), iec.AttributePrefix) {
			ec = true
		}
	}
	if exp != d.Exp || ec != d.EC {
		t.Fatalf("%v: exp %d vs %d, ec %v vs %v", s, exp, d.Exp, ec, d.EC)
	}
	ti := -1
	if tg := o.AssociatedObject(); !tg.IsZero() {
		for k := 0; k < uni.NObjects; k++ {
			if uni.OID(k) == tg {
				ti = k
			}
		}
	}
	if ti != d.Target {
		t.Fatalf("%v: target %d vs %d", s, ti, d.Target)
	}
	ph, has := ParentHeader(s)
	par := o.Parent()
	if has != (par != nil && !par.GetID().IsZero()) {
		t.Fatalf("%v: parent header %v vs %v", s, has, par != nil)
	}
	if has {
		if par.GetID() != uni.OID(ph.ID) || int(par.PayloadSize()) != ph.Size || par.HasParent() {
			t.Fatalf("%v: parent header mismatch", s)
		}
		pe := -1
		for _, a := range par.Attributes() {
			if a.Key() == object.AttributeExpirationEpoch {
				pe, _ = strconv.Atoi(a.Value())
			}
		}
		if pe != ph.Exp {
			t.Fatalf("%v: parent exp %d vs %d", s, pe, ph.Exp)
		}
	}
}

func TestDescribeMatchesBuild(t *testing.T) {
	rapid.Check(t, func(t *rapid.T) {
		checkDescribe(t, uni.SpecGen(uni.GenOpts{}).Draw(t, "spec"))
	})
}

func TestCatalogConsistent(t *testing.T) {
	rapid.Check(t, func(t *rapid.T) {
		cat := CatalogGen(CatalogOpts{}).Draw(t, "cat")
		m := New()
		for c := 0; c < cat.NC; c++ {
			for i := 0; i < uni.NObjects; i++ {
				s := cat.Specs[c][i]
				if s.Cnr != c || s.ID != i || s.Kind == "" {
					t.Fatalf("slot c%d/o%d: %+v", c, i, s)
				}
				checkDescribe(t, s)
				if ph, ok := ParentHeader(s); ok {
					p := cat.Specs[c][ph.ID]
					if p.Exp != ph.Exp || p.PayloadLen != ph.Size {
						t.Fatalf("parent header of %v differs from parent %v", s, p)
					}
				}
			}
			// store everything in an order that respects Requires; depth must stay <= 2
			for pass := 0; pass < 2; pass++ {
				for i := 0; i < uni.NObjects; i++ {
					if (cat.Nest[c][i] >= 0) == (pass == 1) {
						m.Put(cat.Specs[c][i], 0)
					}
				}
			}
		}
		if d := m.MaxDepth(); d > MaxNesting {
			t.Fatalf("depth %d", d)
		}
	})
}

package gensign_test

import (
	"bytes"
	"testing"

	"github.com/nspcc-dev/neofs-node/verifharness/gensign"
	neofscrypto "github.com/nspcc-dev/neofs-sdk-go/crypto"
	neofsecdsa "github.com/nspcc-dev/neofs-sdk-go/crypto/ecdsa"
)

// The deterministic signers must be accepted by the unchanged SDK verifiers,
// be repeatable, and SDK-made signatures must verify under the same keys.
func TestSignersAgreeWithSDK(t *testing.T) {
	for k := 0; k < gensign.NKeys; k++ {
		for _, sc := range gensign.Schemes {
			s := gensign.New(k, sc)
			for _, data := range [][]byte{nil, {}, []byte("x"), bytes.Repeat([]byte{0xab}, 5000)} {
				sig1, err := s.Sign(data)
				if err != nil {
					t.Fatal(err)
				}
				sig2, _ := s.Sign(data)
				if !bytes.Equal(sig1, sig2) {
					t.Fatalf("scheme %v not deterministic", sc)
				}
				if !s.Public().Verify(data, sig1) {
					t.Fatalf("key %d scheme %v: SDK verifier rejects deterministic signature", k, sc)
				}
				sg := neofscrypto.NewSignature(sc, s.Public(), sig1)
				if !sg.Verify(data) {
					t.Fatalf("key %d scheme %v: Signature.Verify rejects", k, sc)
				}
				if s.Public().Verify(append([]byte("y"), data...), sig1) {
					t.Fatalf("verifies other data")
				}
			}
		}
		if !bytes.Equal(gensign.PubBytes(k), neofscrypto.PublicKeyBytes((*neofsecdsa.PublicKey)(&gensign.Key(k).PublicKey))) {
			t.Fatal("pub bytes")
		}
	}
}

// Package gensign provides fixed ECDSA test keys and fully deterministic
// neofscrypto.Signer implementations for every signature scheme the node
// supports (ECDSA_SHA512, ECDSA_DETERMINISTIC_SHA256, ECDSA_WALLETCONNECT) plus
// an N3 witness signer for a fake script runner.
//
// Why not the SDK signers: neofsecdsa.Signer and SignerWalletConnect draw from
// crypto/rand, so the same rapid draws would give different bytes on replay.
// The signers here derive every nonce / salt from the private key and the
// signed data (RFC 6979 via crypto/ecdsa with a nil reader, salt = SHA-256 of
// key||data), so a generated case is a pure function of the rapid draws. The
// signatures are verified by the unchanged SDK / node verifiers (see
// gensign_test.go).
//
// Depends on the standard library, neo-go keys and neofs-sdk-go only.
package gensign

import (
	"crypto"
	"crypto/ecdsa"
	"crypto/elliptic"
	"crypto/sha256"
	"crypto/sha512"
	"encoding/asn1"
	"encoding/base64"
	"encoding/hex"
	"fmt"
	"math/big"

	"github.com/nspcc-dev/neo-go/pkg/crypto/hash"
	"github.com/nspcc-dev/neo-go/pkg/crypto/keys"
	"github.com/nspcc-dev/neo-go/pkg/io"
	neofscrypto "github.com/nspcc-dev/neofs-sdk-go/crypto"
	neofsecdsa "github.com/nspcc-dev/neofs-sdk-go/crypto/ecdsa"
	"github.com/nspcc-dev/neofs-sdk-go/user"
	"pgregory.net/rapid"
)

// NKeys is the number of fixed private keys.
const NKeys = 6

var privKeys [NKeys]*ecdsa.PrivateKey

func init() {
	c := elliptic.P256()
	for i := range privKeys {
		// D = SHA-256("verif-key-<i>") reduced into [1, N-1]; fixed forever.
		h := sha256.Sum256([]byte(fmt.Sprintf("verif-key-%d", i)))
		d := new(big.Int).SetBytes(h[:])
		n1 := new(big.Int).Sub(c.Params().N, big.NewInt(1))
		d.Mod(d, n1).Add(d, big.NewInt(1))
		k := &ecdsa.PrivateKey{D: d}
		k.Curve = c
		k.X, k.Y = c.ScalarBaseMult(d.Bytes())
		privKeys[i] = k
	}
}

// Key returns fixed private key #i (0 <= i < NKeys).
func Key(i int) *ecdsa.PrivateKey { return privKeys[i] }

// PubBytes returns the compressed public key of fixed key #i.
func PubBytes(i int) []byte { return (*keys.PublicKey)(&privKeys[i].PublicKey).Bytes() }

// UserID returns the user ID (N3 account) of fixed key #i.
func UserID(i int) user.ID { return user.NewFromECDSAPublicKey(privKeys[i].PublicKey) }

// Schemes lists all ECDSA schemes supported by the node.
var Schemes = []neofscrypto.Scheme{neofscrypto.ECDSA_SHA512, neofscrypto.ECDSA_DETERMINISTIC_SHA256, neofscrypto.ECDSA_WALLETCONNECT}

// Signer is a deterministic neofscrypto.Signer for one of the three ECDSA
// schemes. It also implements user.Signer.
type Signer struct {
	K *ecdsa.PrivateKey
	S neofscrypto.Scheme
}

// New returns a deterministic signer with fixed key #key and the given scheme.
func New(key int, scheme neofscrypto.Scheme) Signer { return Signer{K: privKeys[key], S: scheme} }

// Scheme implements neofscrypto.Signer.
func (x Signer) Scheme() neofscrypto.Scheme { return x.S }

// UserID implements user.Signer.
func (x Signer) UserID() user.ID { return user.NewFromECDSAPublicKey(x.K.PublicKey) }

// Public implements neofscrypto.Signer.
func (x Signer) Public() neofscrypto.PublicKey {
	switch x.S {
	case neofscrypto.ECDSA_SHA512:
		return (*neofsecdsa.PublicKey)(&x.K.PublicKey)
	case neofscrypto.ECDSA_WALLETCONNECT:
		return (*neofsecdsa.PublicKeyWalletConnect)(&x.K.PublicKey)
	default:
		return (*neofsecdsa.PublicKeyRFC6979)(&x.K.PublicKey)
	}
}

func detRS(k *ecdsa.PrivateKey, digest []byte, h crypto.Hash) (r, s *big.Int, err error) {
	der, err := k.Sign(nil, digest, h) // nil reader: RFC 6979, deterministic
	if err != nil {
		return nil, nil, err
	}
	var v struct{ R, S *big.Int }
	if _, err = asn1.Unmarshal(der, &v); err != nil {
		return nil, nil, err
	}
	return v.R, v.S, nil
}

func rs64(k *ecdsa.PrivateKey, msg []byte) ([]byte, error) {
	h := sha256.Sum256(msg)
	r, s, err := detRS(k, h[:], crypto.SHA256)
	if err != nil {
		return nil, err
	}
	b := make([]byte, 64)
	r.FillBytes(b[:32])
	s.FillBytes(b[32:])
	return b, nil
}

// Sign implements neofscrypto.Signer deterministically.
func (x Signer) Sign(data []byte) ([]byte, error) {
	switch x.S {
	case neofscrypto.ECDSA_SHA512:
		h := sha512.Sum512(data)
		r, s, err := detRS(x.K, h[:], crypto.SHA512)
		if err != nil {
			return nil, err
		}
		b := make([]byte, 65)
		b[0] = 4
		r.FillBytes(b[1:33])
		s.FillBytes(b[33:])
		return b, nil
	case neofscrypto.ECDSA_DETERMINISTIC_SHA256:
		return rs64(x.K, data)
	case neofscrypto.ECDSA_WALLETCONNECT:
		sh := sha256.New()
		sh.Write(x.K.D.Bytes())
		sh.Write(data)
		salt := sh.Sum(nil)[:16]
		b64 := make([]byte, base64.StdEncoding.EncodedLen(len(data)))
		base64.StdEncoding.Encode(b64, data)
		sig, err := rs64(x.K, saltMessageWalletConnect(b64, salt))
		if err != nil {
			return nil, err
		}
		return append(sig, salt...), nil
	default:
		return nil, fmt.Errorf("gensign: unsupported scheme %v", x.S)
	}
}

// SaltMessageWalletConnect builds the message signed under the WalletConnect
// scheme from base64 data and salt (same as the unexported function of
// neofs-sdk-go/crypto/ecdsa; written from the WalletConnect message format).
func SaltMessageWalletConnect(data, salt []byte) []byte { return saltMessageWalletConnect(data, salt) }

func saltMessageWalletConnect(data, salt []byte) []byte {
	saltedLen := hex.EncodedLen(len(salt)) + len(data)
	b := make([]byte, 4+io.GetVarSize(saltedLen)+saltedLen+2)
	b[0], b[1], b[2], b[3] = 0x01, 0x00, 0x01, 0xf0
	n := 4 + io.PutVarUint(b[4:], uint64(saltedLen))
	n += hex.Encode(b[n:], salt)
	n += copy(b[n:], data)
	b[n], b[n+1] = 0x00, 0x00
	return b
}

// AnySigner draws a deterministic signer: key index and scheme. RFC 6979 is
// the most frequent scheme (it is what nodes use), the others get ~20% each.
func AnySigner() *rapid.Generator[Signer] {
	return rapid.Custom(func(t *rapid.T) Signer {
		k := rapid.IntRange(0, NKeys-1).Draw(t, "key")
		s := rapid.SampledFrom([]neofscrypto.Scheme{
			neofscrypto.ECDSA_DETERMINISTIC_SHA256, neofscrypto.ECDSA_DETERMINISTIC_SHA256, neofscrypto.ECDSA_DETERMINISTIC_SHA256,
			neofscrypto.ECDSA_SHA512, neofscrypto.ECDSA_WALLETCONNECT,
		}).Draw(t, "scheme")
		return New(k, s)
	})
}

// N3Signer produces N3 witnesses for the fake script runner of this package:
// verification script = "verif-n3-acc-<id>" bytes, invocation script =
// SHA-256(secret || data) where secret is derived from the script. The fake runner accepts
// exactly those (the fake runner lives with the C33 check). It is NOT a Neo VM; it only stands in for the FS chain call
// that the node delegates N3 verification to.
type N3Signer struct{ ID int }

func n3Secret(verifScript []byte) []byte {
	h := sha256.Sum256(append([]byte("verif-n3-secret:"), verifScript...))
	return h[:]
}

// VerifScript returns the verification script (public part) of the account.
func (x N3Signer) VerifScript() []byte { return []byte(fmt.Sprintf("verif-n3-acc-%d", x.ID)) }

// Scheme implements neofscrypto.Signer.
func (x N3Signer) Scheme() neofscrypto.Scheme { return neofscrypto.N3 }

// Sign implements neofscrypto.Signer: returns the invocation script.
func (x N3Signer) Sign(data []byte) ([]byte, error) {
	return N3Invocation(x.VerifScript(), sha256.Sum256(data)), nil
}

// N3Invocation returns the only invocation script N3Check accepts for the
// given verification script and data hash.
func N3Invocation(verifScript []byte, dataHash [sha256.Size]byte) []byte {
	h := sha256.New()
	h.Write(n3Secret(verifScript))
	h.Write(dataHash[:])
	return h.Sum(nil)
}

// Public implements neofscrypto.Signer: the "key" of an N3 signature is the
// verification script.
func (x N3Signer) Public() neofscrypto.PublicKey { p := n3Pub(x.VerifScript()); return &p }

type n3Pub []byte

func (p *n3Pub) MaxEncodedSize() int     { return len(*p) }
func (p *n3Pub) Encode(buf []byte) int   { return copy(buf, *p) }
func (p *n3Pub) Decode(b []byte) error   { *p = append((*p)[:0], b...); return nil }
func (p *n3Pub) Verify(_, _ []byte) bool { return false }

// UserID implements user.Signer (script-hash account of the verification script).
func (x N3Signer) UserID() user.ID { return user.NewFromScriptHash(hash.Hash160(x.VerifScript())) }

var (
	_ user.Signer = N3Signer{}
	_ user.Signer = Signer{}
)

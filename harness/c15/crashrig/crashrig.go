// Package crashrig is the crash-snapshot rig shared by the checks of C15
// (after a crash every object the metadata lists as available is readable) and
// C09 (a removed object never becomes readable again without a new upload).
//
// It runs ONE real shard (blob storage = FSTree behind a faultstore tap,
// metabase, optional write-cache behind a tap installed through the overlay
// shim Shard.VerifWrapWriteCache) and takes a snapshot of the three storage
// locations (blob dir, metabase file, write-cache dir)
//
//   - before and after every mutating call the shard or the write-cache flusher
//     makes into the blob storage (Put, PutBatch, Delete),
//   - before and after every mutating call the shard makes into the write-cache
//     (Put, Delete),
//   - after every completed operation.
//
// Shard operations are a fixed sequence of component steps
// (write-cache / blob storage / metabase), and the metabase steps are always
// separated by one of the tapped calls or by the operation end, so these
// snapshots are exactly the process-crash states at component-step boundaries.
// The metabase file is copied with a bbolt read transaction (Tx.CopyFile), i.e.
// the committed state; blob/write-cache mutations are serialised with the
// snapshot by one mutex that the taps hold around the wrapped call.
//
// The rig is meant to run inside a testing/synctest bubble (package bubble):
// the write-cache flush scheduler ticks on fake time. Tick keeps the operating
// goroutine half a period away from the scheduler's ticks, so background
// flushes never overlap with foreground operations unless a test asks for it
// with ArmPause (deterministic flush-versus-foreground schedules: the flusher
// is parked right before its blob write, i.e. after it has read the object
// from the cache).
//
// Nothing here draws random values.
package crashrig

import (
	"errors"
	"fmt"
	"os"
	"path/filepath"
	"sync/atomic"
	"testing/synctest"
	"time"

	"github.com/nspcc-dev/neofs-node/pkg/local_object_storage/blobstor/common"
	"github.com/nspcc-dev/neofs-node/pkg/local_object_storage/blobstor/fstree"
	"github.com/nspcc-dev/neofs-node/pkg/local_object_storage/shard"
	"github.com/nspcc-dev/neofs-node/pkg/local_object_storage/writecache"
	"github.com/nspcc-dev/neofs-node/verifharness/faultstore"
	"github.com/nspcc-dev/neofs-node/verifharness/snap"
	"github.com/nspcc-dev/neofs-node/verifharness/stor"
	apistatus "github.com/nspcc-dev/neofs-sdk-go/client/status"
	"github.com/nspcc-dev/neofs-sdk-go/object"
	oid "github.com/nspcc-dev/neofs-sdk-go/object/id"
)

// FlushPeriod is the write-cache scheduler period (writecache.defaultMaxBatchDelay).
const FlushPeriod = time.Second

// Cfg describes the shard under test.
type Cfg struct {
	// WC enables the write-cache.
	WC bool
	// WCMaxSize is the write-cache capacity in bytes (0 = default 1 GiB).
	WCMaxSize uint64
	// WCBatchThreshold: objects up to this size are flushed in batches
	// (PutBatch), bigger ones one by one (0 = default 128 KiB).
	WCBatchThreshold uint64
	// Workers is the number of flush workers (0 = 2).
	Workers int
}

func (c Cfg) wcOpts() []writecache.Option {
	w := c.Workers
	if w <= 0 {
		w = 2
	}
	o := []writecache.Option{writecache.WithFlushWorkersCount(w)}
	if c.WCMaxSize > 0 {
		o = append(o, writecache.WithMaxCacheSize(c.WCMaxSize))
	}
	if c.WCBatchThreshold > 0 {
		o = append(o, writecache.WithMaxFlushBatchThreshold(c.WCBatchThreshold))
	}
	return o
}

// Step describes one tapped call.
type Step struct {
	// Comp is "blob" or "wc"; Method is Put, PutBatch or Delete.
	Comp, Method string
	Addrs        []oid.Address
	// After is false for the point before the call, true after it (Err is its result).
	After bool
	Err   error
}

func (s Step) String() string {
	w := "before"
	if s.After {
		w = "after"
	}
	return fmt.Sprintf("%s %s.%s%v", w, s.Comp, s.Method, shortAddrs(s.Addrs))
}

func shortAddrs(as []oid.Address) []string {
	r := make([]string, len(as))
	for i, a := range as {
		r[i] = a.Object().EncodeToString()[:6]
	}
	return r
}

// Snap is one crash snapshot (a directory with the stor.ShardCfg layout).
type Snap struct {
	Dir   string
	Seq   int
	OpIdx int
	Op    string
	// Point describes where the snapshot was taken ("end" or a Step).
	Point string
	// Inside: taken strictly inside an operation (between two component steps).
	Inside bool
	Epoch  uint64
	// Meta is whatever Rig.SnapMeta returned at snapshot time.
	Meta any
}

func (s Snap) String() string {
	return fmt.Sprintf("snapshot#%d op[%d] %s @ %s", s.Seq, s.OpIdx, s.Op, s.Point)
}

// Rig is the shard under test with its taps.
type Rig struct {
	Cfg   Cfg
	Root  string // temp root: Root/live = shard dir, Root/snaps = snapshots
	Epoch *stor.Epoch
	FS    *faultstore.Store
	Sh    *shard.Shard

	// OnStep, if set, is called under the rig lock for every tapped call
	// before the snapshot of that point is taken (model updates).
	OnStep func(Step)
	// SnapMeta, if set, is called under the rig lock and its result is stored in Snap.Meta.
	SnapMeta func() any
	// Filter, if set, decides whether a snapshot is taken at a point.
	Filter func(inside bool) bool

	mu      chanLock
	seq     int
	opIdx   int
	op      string
	inOp    bool
	pending []Snap
	base    time.Time
	snapErr error

	pauseAddr *oid.Address
	paused    chan struct{}
	resume    chan struct{}
	// Parked holds the addresses of the blob write the flusher is (was last)
	// parked in front of; ParkedNow says whether it is parked right now (both
	// guarded by the rig lock).
	Parked    []oid.Address
	ParkedNow bool
	resumed   bool

	// noSpace: blob Put/PutBatch fail with common.ErrNoSpace (injected full disk)
	noSpace atomic.Bool
}

// SetNoSpace switches the injected "no space left" failure of blob writes.
func (r *Rig) SetNoSpace(on bool) { r.noSpace.Store(on) }

// BlobHas reports which of addrs are stored in the blob storage of shard directory dir.
func BlobHas(dir string, addrs []oid.Address) (map[oid.Address]bool, error) {
	fst := stor.FSTree(stor.BlobDir(dir))
	if err := fst.Open(true); err != nil {
		return nil, err
	}
	defer fst.Close()
	if err := fst.Init(common.ID{}); err != nil {
		return nil, err
	}
	res := map[oid.Address]bool{}
	for _, a := range addrs {
		ok, err := fst.Exists(a)
		if err != nil {
			return nil, err
		}
		res[a] = ok
	}
	return res, nil
}

// Dir returns the live shard directory.
func (r *Rig) Dir() string { return filepath.Join(r.Root, "live") }

// New creates the temp root and opens the shard.
func New(c Cfg) (*Rig, error) {
	root, err := os.MkdirTemp("", "crashrig")
	if err != nil {
		return nil, err
	}
	r := &Rig{Cfg: c, Root: root, Epoch: &stor.Epoch{}, opIdx: -1, mu: make(chanLock, 1)}
	if err := r.open(); err != nil {
		os.RemoveAll(root)
		return nil, err
	}
	return r, nil
}

func (r *Rig) shardCfg(dir string, ep *stor.Epoch, blob common.Storage) stor.ShardCfg {
	return stor.ShardCfg{Dir: dir, Epoch: ep, WriteCache: r.Cfg.WC, WCOpts: r.Cfg.wcOpts(), Blob: blob}
}

func (r *Rig) open() error {
	fs := faultstore.New(stor.FSTree(stor.BlobDir(r.Dir())))
	fs.Fail = func(m string, _ []oid.Address) error {
		if (m == "Put" || m == "PutBatch") && r.noSpace.Load() {
			return common.ErrNoSpace
		}
		return nil
	}
	fs.Before = func(m string, a []oid.Address) { r.before("blob", m, a) }
	fs.After = func(m string, a []oid.Address, err error) { r.after("blob", m, a, err) }
	sh, err := stor.OpenShard(r.shardCfg(r.Dir(), r.Epoch, fs))
	if err != nil {
		return err
	}
	sh.VerifWrapWriteCache(func(c writecache.Cache) writecache.Cache { return &wcTap{Cache: c, r: r} })
	r.mu.Lock()
	r.FS, r.Sh = fs, sh
	r.base = time.Now()
	r.mu.Unlock()
	return nil
}

// Reopen closes and reopens the live shard (a clean restart).
func (r *Rig) Reopen() error {
	if err := r.CloseShard(); err != nil {
		return err
	}
	return r.open()
}

// CloseShard closes the live shard (Reopen or OpenAgain follow).
func (r *Rig) CloseShard() error {
	if r.Sh == nil {
		return nil
	}
	err := r.Sh.Close()
	r.mu.Lock()
	r.Sh = nil
	r.mu.Unlock()
	return err
}

// OpenAgain opens the live shard after CloseShard (e.g. after an offline resync).
func (r *Rig) OpenAgain() error { return r.open() }

// Cleanup closes the shard and removes everything.
func (r *Rig) Cleanup() {
	if r.resume != nil && !r.resumed {
		// a failing case may leave the flusher parked
		r.resumed = true
		close(r.resume)
	}
	if r.Sh != nil {
		_ = r.Sh.Close()
		r.Sh = nil
	}
	os.RemoveAll(r.Root)
}

// chanLock is a mutex whose waiters are "durably blocked" in the sense of
// testing/synctest (a goroutine waiting for a sync.Mutex is not, which would
// stop the fake clock while the holder waits for a timer, e.g. FSTree's
// combined-write window).
type chanLock chan struct{}

func (l chanLock) Lock()   { l <- struct{}{} }
func (l chanLock) Unlock() { <-l }

func mutating(m string) bool { return m == "Put" || m == "PutBatch" || m == "Delete" }

func (r *Rig) before(comp, m string, addrs []oid.Address) {
	if !mutating(m) {
		return
	}
	r.mu.Lock()
	st := Step{Comp: comp, Method: m, Addrs: addrs}
	if r.OnStep != nil {
		r.OnStep(st)
	}
	r.snapshotLocked(st.String(), true)
	if comp == "blob" && m != "Delete" && r.pauseAddr != nil {
		for _, a := range addrs {
			if a == *r.pauseAddr {
				r.pauseAddr = nil
				r.Parked = append([]oid.Address(nil), addrs...)
				r.ParkedNow = true
				paused, resume := r.paused, r.resume
				r.mu.Unlock()
				paused <- struct{}{}
				<-resume
				r.mu.Lock()
				r.ParkedNow = false
				break
			}
		}
	}
	// the lock stays held during the wrapped call; after() releases it
}

func (r *Rig) after(comp, m string, addrs []oid.Address, err error) {
	if !mutating(m) {
		return
	}
	st := Step{Comp: comp, Method: m, Addrs: addrs, After: true, Err: err}
	if r.OnStep != nil {
		r.OnStep(st)
	}
	r.snapshotLocked(st.String(), true)
	r.mu.Unlock()
}

// Begin marks the start of operation idx (name is used in labels).
func (r *Rig) Begin(idx int, name string) {
	r.mu.Lock()
	r.opIdx, r.op, r.inOp = idx, name, true
	r.mu.Unlock()
}

// End marks the end of the current operation and takes the post-operation snapshot.
func (r *Rig) End() {
	r.mu.Lock()
	if r.Sh != nil {
		r.snapshotLocked("end", false)
	}
	r.inOp = false
	r.mu.Unlock()
}

// Lock/Unlock expose the rig lock for model updates from the operating goroutine.
func (r *Rig) Lock()   { r.mu.Lock() }
func (r *Rig) Unlock() { r.mu.Unlock() }

func (r *Rig) snapshotLocked(point string, inside bool) {
	// A tapped call outside Begin/End comes from the background flusher while
	// the operating goroutine sleeps in Tick: that is inside the flush "operation".
	if r.Sh == nil || r.snapErr != nil {
		return
	}
	if r.Filter != nil && !r.Filter(inside) {
		return
	}
	r.seq++
	d := filepath.Join(r.Root, "snaps", fmt.Sprintf("s%04d", r.seq))
	err := os.MkdirAll(d, 0o755)
	if err == nil {
		err = snap.Copy(stor.BlobDir(r.Dir()), stor.BlobDir(d))
	}
	if err == nil && r.Cfg.WC {
		err = snap.Copy(stor.WCDir(r.Dir()), stor.WCDir(d))
	}
	if err == nil {
		err = r.Sh.VerifMetabase().VerifC15CopyFile(stor.MetaPath(d))
	}
	if err != nil {
		r.snapErr = fmt.Errorf("snapshot %s: %w", point, err)
		return
	}
	op := r.op
	if !r.inOp {
		op = "(outside operations)"
	}
	s := Snap{Dir: d, Seq: r.seq, OpIdx: r.opIdx, Op: op, Point: point, Inside: inside, Epoch: r.Epoch.CurrentEpoch()}
	if r.SnapMeta != nil {
		s.Meta = r.SnapMeta()
	}
	r.pending = append(r.pending, s)
}

// Drain returns the snapshots taken since the last Drain (the caller verifies
// and removes them) and the first snapshot error, if any (harness problem).
func (r *Rig) Drain() ([]Snap, error) {
	r.mu.Lock()
	defer r.mu.Unlock()
	p := r.pending
	r.pending = nil
	return p, r.snapErr
}

// Tick lets one scheduler period pass on fake time and waits until the flush
// workers are idle again. Afterwards the clock is half a period away from the
// scheduler's ticks.
func (r *Rig) Tick() {
	time.Sleep(r.untilHalf())
	synctest.Wait()
}

// untilHalf returns the fake duration until the next (tick + half period).
func (r *Rig) untilHalf() time.Duration {
	// exactly one scheduler tick (at the next multiple of the period since the
	// scheduler started) lies inside the returned duration
	el := time.Since(r.base) % FlushPeriod
	return FlushPeriod + FlushPeriod/2 - el
}

// ArmPause makes the flusher park right before its next blob Put/PutBatch that
// contains addr (it has read the object from the cache by then).
func (r *Rig) ArmPause(addr oid.Address) {
	r.mu.Lock()
	r.pauseAddr = &addr
	r.paused = make(chan struct{})
	r.resume = make(chan struct{})
	r.resumed = false
	r.mu.Unlock()
}

// WaitPaused sleeps one scheduler period; it returns true as soon as the
// flusher parked (the caller then runs foreground operations and must call
// Resume), false if no flush of the armed address happened (disarmed).
func (r *Rig) WaitPaused() bool {
	select {
	case <-r.paused:
		// let the other flush workers finish their batches first, so that the
		// foreground operations overlap with the parked flush only
		synctest.Wait()
		return true
	case <-time.After(r.untilHalf()):
		synctest.Wait()
		r.mu.Lock()
		armed := r.pauseAddr != nil
		r.pauseAddr = nil
		r.mu.Unlock()
		if !armed {
			// parked in the very last moment
			<-r.paused
			synctest.Wait()
			return true
		}
		return false
	}
}

// Resume releases the parked flusher and waits until the workers are idle.
func (r *Rig) Resume() {
	r.resumed = true
	r.resume <- struct{}{}
	synctest.Wait()
}

// wcTap taps the calls the shard makes into its write-cache.
type wcTap struct {
	writecache.Cache
	r *Rig
}

func (w *wcTap) Put(a oid.Address, o *object.Object, b []byte) error {
	w.r.before("wc", "Put", []oid.Address{a})
	err := w.Cache.Put(a, o, b)
	w.r.after("wc", "Put", []oid.Address{a}, err)
	return err
}

func (w *wcTap) Delete(a oid.Address) error {
	w.r.before("wc", "Delete", []oid.Address{a})
	err := w.Cache.Delete(a)
	w.r.after("wc", "Delete", []oid.Address{a}, err)
	return err
}

// OpenSnapshot opens snapshot directory dir as a fresh shard (the restarted
// node) with the same configuration and the given epoch. No taps.
func (r *Rig) OpenSnapshot(dir string, epoch uint64) (*shard.Shard, *stor.Epoch, error) {
	ep := &stor.Epoch{}
	ep.Set(epoch)
	c := r.shardCfg(dir, ep, nil)
	// no 10 ms combined-write window in the restarted copy (keeps the fake clock still)
	c.FSTOpts = []fstree.Option{fstree.WithCombinedCountLimit(1)}
	sh, err := stor.OpenShard(c)
	return sh, ep, err
}

// Resync rebuilds the metabase of the (closed) shard directory dir from its
// blob storage exactly as `neofs-lancet meta resync` does: open+init the
// metabase, open the FSTree read-only, DB.ResyncFromBlobstor, close both.
func Resync(dir string, ep *stor.Epoch) error {
	db, err := stor.OpenMeta(stor.MetaPath(dir), ep)
	if err != nil {
		return fmt.Errorf("open metabase: %w", err)
	}
	defer db.Close()
	fst := stor.FSTree(stor.BlobDir(dir))
	if err := fst.Open(true); err != nil {
		return fmt.Errorf("open fstree: %w", err)
	}
	defer fst.Close()
	if err := fst.Init(common.ID{}); err != nil {
		return fmt.Errorf("init fstree: %w", err)
	}
	return db.ResyncFromBlobstor(fst, func(oid.Address, error) error { return nil })
}

// IsNotFound reports whether err is an "object not found" status.
func IsNotFound(err error) bool { return errors.Is(err, apistatus.ErrObjectNotFound) }

package crashrig

import (
	"errors"
	"fmt"
	"strings"

	meta "github.com/nspcc-dev/neofs-node/pkg/local_object_storage/metabase"
	"github.com/nspcc-dev/neofs-node/verifharness/stor"
	"github.com/nspcc-dev/neofs-node/verifharness/uni"
	oid "github.com/nspcc-dev/neofs-sdk-go/object/id"
	"pgregory.net/rapid"
)

// The history universe: NCnr containers, regular objects 0..NReg-1 and
// tombstone objects TombBase..TombBase+NTomb-1 in each. Every address has ONE
// fixed content per history (a tombstone's target and expiration are fixed by
// its first appearance), so "byte-identical" has a unique meaning.
//
// Object ID indexes of package uni are PARTITIONED between the containers
// (container c owns regular IDs c*NReg.. and tombstone IDs TombBase+c*NTomb..):
// FSTree combined files index their members by object ID only, so one ID in
// two containers (impossible with real, content-derived IDs) would be a
// harness artefact.
const (
	NCnr     = 2
	NReg     = 3
	NTomb    = 3
	TombBase = NCnr * NReg
)

// RegID / TombID map (container, per-container index) to the uni object index.
func RegID(c, i int) int  { return c*NReg + i }
func TombID(c, t int) int { return TombBase + c*NTomb + t }

// RegAddr / TombAddr are the addresses.
func RegAddr(c, i int) oid.Address  { return uni.Addr(c, RegID(c, i)) }
func TombAddr(c, t int) oid.Address { return uni.Addr(c, TombID(c, t)) }

// RegLens are the payload lengths of the regular objects by index. With the
// marshalled header (≈150 bytes) they lie on both sides of BatchThreshold, and
// two of the big ones exceed CacheSize, so a put can miss the cache.
var RegLens = [NReg]int{0, 48, 900}

const (
	// BatchThreshold for writecache.WithMaxFlushBatchThreshold.
	BatchThreshold = 512
	// CacheSize for writecache.WithMaxCacheSize.
	CacheSize = 1700
)

// Op kinds.
const (
	KPut    = "put"    // Shard.Put of regular object (C,I)
	KTomb   = "tomb"   // Shard.Put of tombstone (C,T) -> I with expiration Exp
	KMark   = "mark"   // Shard.MarkGarbage (C,I) with Mark (0 default = drop, 1 redundant)
	KDel    = "del"    // Shard.Delete (C,I) directly (engine put rollback path)
	KGC     = "gc"     // one GC pass
	KEpoch  = "epoch"  // epoch+1 and the new-epoch event
	KFlush  = "flush"  // Shard.FlushWriteCache
	KTick   = "tick"   // one write-cache scheduler period (background flush)
	KRace   = "race"   // park the background flush of (C,I) before its blob write, run Inner, resume
	KReopen = "reopen" // clean restart
	KResync = "resync" // stop, offline metabase resync from the blob storage, start (Mark 0: live epoch source, 1: epoch 0 as neofs-lancet)
	// KTickNoSpace: one scheduler period during which every write of the flusher
	// into the blob storage fails with common.ErrNoSpace (full disk)
	KTickNoSpace = "tick-enospc"
)

// Op is one history step.
type Op struct {
	Kind  string `json:"k"`
	C     int    `json:"c,omitempty"`
	I     int    `json:"i,omitempty"`
	T     int    `json:"t,omitempty"`
	Exp   int    `json:"exp,omitempty"`
	Mark  int    `json:"mark,omitempty"`
	Inner []Op   `json:"inner,omitempty"`
}

func (o Op) String() string {
	switch o.Kind {
	case KPut:
		return fmt.Sprintf("put(c%d/o%d)", o.C, o.I)
	case KTomb:
		return fmt.Sprintf("tomb(c%d/o%d->o%d exp=%d)", o.C, o.T, o.I, o.Exp)
	case KMark:
		return fmt.Sprintf("mark(c%d/o%d %s)", o.C, o.I, [2]string{"default", "redundant"}[o.Mark])
	case KDel:
		return fmt.Sprintf("del(c%d/o%d)", o.C, o.I)
	case KEpoch:
		return fmt.Sprintf("epoch+%d", max(o.Exp, 1))
	case KResync:
		return [2]string{"resync(live-epoch)", "resync(epoch0)"}[o.Mark]
	case KRace:
		in := make([]string, len(o.Inner))
		for i := range o.Inner {
			in[i] = o.Inner[i].String()
		}
		return fmt.Sprintf("race(c%d/o%d){%s}", o.C, o.I, strings.Join(in, ";"))
	}
	return o.Kind
}

// OpsString renders a history.
func OpsString(ops []Op) string {
	s := make([]string, len(ops))
	for i := range ops {
		s[i] = ops[i].String()
	}
	return strings.Join(s, " ; ")
}

// World is the generator-side view of a history (used for biasing and for the
// expected contents; it is NOT an oracle).
type World struct {
	R *Rig
	// Specs of every address that appeared so far.
	Specs map[oid.Address]uni.Spec
	// Want is the expected marshalled object per address.
	Want map[oid.Address][]byte
	// Present: a put of the regular object succeeded and no removal was requested since.
	Present [NCnr][NReg]bool
	// Pending: removal requested (tombstone / mark) and not known to be collected.
	Pending [NCnr][NReg]bool
	// MaybeCached: put since the last flush opportunity (write-cache only).
	MaybeCached [NCnr][NReg]bool
	tombs       [NCnr][NTomb]*Op
	// MaxExp is the largest tombstone expiration used.
	MaxExp int
	// LateTombs: a fresh tombstone expires below the current epoch with probability LateTombs/4 (0 = 1).
	LateTombs int
	// GCPendingWeight is the weight of a GC pass while removals are pending (0 = 6).
	GCPendingWeight int
	// Bias, if set, may add weight to op kinds of the next top-level draw.
	Bias func(add func(kind string, n int))
	// Hooks for the property-specific model.
	OnOp func(op Op, phase string, err error) // phase "begin" / "end"
	// Stats
	PutErrs, Races, RacesParked int
	Log                         []string
}

// NewWorld wraps a rig.
func NewWorld(r *Rig) *World {
	return &World{R: r, Specs: map[oid.Address]uni.Spec{}, Want: map[oid.Address][]byte{}}
}

// Universe lists every address of the history universe.
func Universe() []oid.Address {
	var r []oid.Address
	for c := 0; c < NCnr; c++ {
		for i := 0; i < NReg; i++ {
			r = append(r, RegAddr(c, i))
		}
		for t := 0; t < NTomb; t++ {
			r = append(r, TombAddr(c, t))
		}
	}
	return r
}

// RegSpec is the fixed spec of regular object (c,i).
func RegSpec(c, i int) uni.Spec {
	return uni.Spec{Kind: uni.Regular, Cnr: c, ID: RegID(c, i), Exp: -1, Parent: -1, ParentExp: -1, First: -1, PayloadLen: RegLens[i]}
}

func tombSpec(o Op) uni.Spec {
	return uni.Spec{Kind: uni.Tombstone, Cnr: o.C, ID: TombID(o.C, o.T), Exp: o.Exp, Target: RegID(o.C, o.I), Parent: -1, ParentExp: -1, First: -1}
}

func (w *World) remember(s uni.Spec) {
	a := uni.Addr(s.Cnr, s.ID)
	if _, ok := w.Specs[a]; !ok {
		w.Specs[a] = s
		w.Want[a] = uni.Build(s).Marshal()
	}
}

// Allow selects the op kinds a generator may draw.
type Allow struct {
	Race, Reopen, Resync, NoSpace bool
}

func (w *World) anyPresent() bool {
	for c := range w.Present {
		for i := range w.Present[c] {
			if w.Present[c][i] {
				return true
			}
		}
	}
	return false
}

// AnyStored reports whether some regular object is stored and not requested for removal.
func (w *World) AnyStored() bool { return w.anyPresent() }

// AnyPending reports whether a removal was requested and not collected yet.
func (w *World) AnyPending() bool { return w.anyPending() }

func (w *World) anyPending() bool {
	for c := range w.Pending {
		for i := range w.Pending[c] {
			if w.Pending[c][i] {
				return true
			}
		}
	}
	return false
}

func (w *World) anyCached() bool {
	for c := range w.MaybeCached {
		for i := range w.MaybeCached[c] {
			if w.MaybeCached[c][i] {
				return true
			}
		}
	}
	return false
}

func (w *World) cachedCount() int {
	n := 0
	for c := range w.MaybeCached {
		for i := range w.MaybeCached[c] {
			if w.MaybeCached[c][i] {
				n++
			}
		}
	}
	return n
}

// drawExp draws a tombstone expiration: current epoch + 0..2, or (a tombstone
// delivered late, e.g. by replication) below the current epoch.
func (w *World) drawExp(t *rapid.T) int {
	cur := int(w.R.Epoch.CurrentEpoch())
	lp := w.LateTombs
	if lp <= 0 {
		lp = 1
	}
	if cur > 0 && rapid.IntRange(0, 3).Draw(t, "late") < lp {
		return cur - rapid.IntRange(1, cur).Draw(t, "lateby")
	}
	return cur + rapid.IntRange(0, 2).Draw(t, "exp")
}

// target draws a regular object, preferring ones satisfying pref.
func (w *World) target(t *rapid.T, pref func(c, i int) bool) (int, int) {
	var good [][2]int
	for c := 0; c < NCnr; c++ {
		for i := 0; i < NReg; i++ {
			if pref != nil && pref(c, i) {
				good = append(good, [2]int{c, i})
			}
		}
	}
	if len(good) > 0 && rapid.IntRange(0, 9).Draw(t, "pref") < 8 {
		p := rapid.SampledFrom(good).Draw(t, "obj")
		return p[0], p[1]
	}
	return rapid.IntRange(0, NCnr-1).Draw(t, "c"), rapid.IntRange(0, NReg-1).Draw(t, "i")
}

// Draw draws the next operation, biased by the current state so that removal
// requests mostly hit stored objects, GC passes mostly follow removal requests
// and flush opportunities mostly follow cached puts.
func (w *World) Draw(t *rapid.T, al Allow, inner bool) Op {
	wc := w.R.Cfg.WC
	var kinds []string
	add := func(k string, n int) {
		for ; n > 0; n-- {
			kinds = append(kinds, k)
		}
	}
	if w.anyPresent() {
		add(KPut, 3)
		add(KTomb, 3)
		add(KMark, 4)
		add(KDel, 2)
	} else {
		add(KPut, 6)
		add(KTomb, 1)
	}
	if w.anyPending() {
		g := w.GCPendingWeight
		if g <= 0 {
			g = 6
		}
		add(KGC, g)
	} else {
		add(KGC, 1)
	}
	if !inner {
		add(KEpoch, 1)
		if wc {
			n := 1
			if w.anyCached() {
				n = 3
			}
			add(KFlush, n)
			add(KTick, n)
			if al.NoSpace && w.anyCached() {
				add(KTickNoSpace, 4)
			}
			if w.cachedCount() >= 2 {
				add(KTick, 3) // a batch flush (PutBatch) needs >= 2 small cached objects
			}
			if al.Race && w.anyCached() {
				add(KRace, 4)
			}
		}
		if al.Reopen {
			add(KReopen, 1)
		}
		if al.Resync {
			add(KResync, 2)
		}
	}
	if w.Bias != nil && !inner {
		w.Bias(func(k string, n int) {
			switch k {
			case KFlush, KTick, KRace, KTickNoSpace:
				if !wc {
					return
				}
			}
			add(k, n)
		})
	}
	op := Op{Kind: rapid.SampledFrom(kinds).Draw(t, "kind")}
	present := func(c, i int) bool { return w.Present[c][i] }
	switch op.Kind {
	case KPut:
		op.C, op.I = w.target(t, func(c, i int) bool { return !w.Present[c][i] && !w.Pending[c][i] })
	case KTomb:
		// re-put of a known tombstone sometimes, a fresh one otherwise
		tt := rapid.IntRange(0, NTomb-1).Draw(t, "t")
		cc := rapid.IntRange(0, NCnr-1).Draw(t, "tc")
		if old := w.tombs[cc][tt]; old != nil {
			op = *old
			break
		}
		op.T = tt
		_, op.I = w.target(t, func(c, i int) bool { return c == cc && w.Present[c][i] })
		op.C = cc
		op.Exp = w.drawExp(t)
	case KResync:
		if rapid.IntRange(0, 3).Draw(t, "resync-epoch0") == 0 {
			op.Mark = 1
		}
	case KMark:
		op.C, op.I = w.target(t, present)
		op.Mark = rapid.IntRange(0, 1).Draw(t, "mark")
	case KEpoch:
		// +1, or +3 = past every tombstone expiration drawn so far
		op.Exp = rapid.SampledFrom([]int{1, 1, 3}).Draw(t, "depoch")
	case KDel:
		op.C, op.I = w.target(t, present)
	case KRace:
		op.C, op.I = w.target(t, func(c, i int) bool { return w.MaybeCached[c][i] })
		// the foreground work done while the flusher is parked: mostly a
		// removal of the very object followed by a GC pass
		n := rapid.IntRange(1, 2).Draw(t, "ninner")
		for k := 0; k < n; k++ {
			var in Op
			if k == 0 && rapid.IntRange(0, 9).Draw(t, "same") < 8 {
				in = Op{Kind: rapid.SampledFrom([]string{KDel, KMark, KMark, KTomb}).Draw(t, "ikind"), C: op.C, I: op.I}
				switch in.Kind {
				case KMark:
					in.Mark = rapid.IntRange(0, 1).Draw(t, "mark")
				case KTomb:
					in.T = rapid.IntRange(0, NTomb-1).Draw(t, "t")
					if old := w.tombs[in.C][in.T]; old != nil {
						in = *old
					} else {
						in.Exp = w.drawExp(t)
					}
				}
			} else if k == 1 && rapid.IntRange(0, 9).Draw(t, "gc") < 8 {
				in = Op{Kind: KGC}
			} else {
				in = w.Draw(t, al, true)
			}
			op.Inner = append(op.Inner, in)
		}
	}
	return op
}

// Apply runs op on the live shard (between Rig.Begin and Rig.End, which the
// caller does) and returns a harness error, if any. Errors of the shard
// operations themselves are legitimate outcomes and only recorded.
func (w *World) Apply(op Op) error {
	sh := w.R.Sh
	if w.OnOp != nil {
		w.OnOp(op, "begin", nil)
	}
	var opErr error
	switch op.Kind {
	case KPut:
		s := RegSpec(op.C, op.I)
		w.remember(s)
		opErr = sh.Put(uni.Build(s), nil)
		if opErr == nil {
			if !w.Pending[op.C][op.I] {
				w.Present[op.C][op.I] = true
			}
			w.MaybeCached[op.C][op.I] = w.R.Cfg.WC
		} else {
			w.PutErrs++
		}
	case KTomb:
		if old := w.tombs[op.C][op.T]; old != nil {
			// one fixed content per address: a later draw of the same
			// tombstone ID re-puts the first one
			op.I, op.Exp = old.I, old.Exp
		}
		s := tombSpec(op)
		w.remember(s)
		if w.tombs[op.C][op.T] == nil {
			o := op
			o.Inner = nil
			w.tombs[op.C][op.T] = &o
		}
		if op.Exp > w.MaxExp {
			w.MaxExp = op.Exp
		}
		opErr = sh.Put(uni.Build(s), nil)
		if opErr == nil {
			w.Pending[op.C][op.I] = true
			w.Present[op.C][op.I] = false
		} else {
			w.PutErrs++
		}
	case KMark:
		m := meta.GarbageMarkDefault
		if op.Mark == 1 {
			m = meta.GarbageMarkRedundant
		}
		opErr = sh.MarkGarbage(uni.Cnr(op.C), []oid.ID{uni.OID(RegID(op.C, op.I))}, m)
		if opErr == nil {
			w.Pending[op.C][op.I] = true
			w.Present[op.C][op.I] = false
		}
	case KDel:
		opErr = sh.Delete(uni.Cnr(op.C), []oid.ID{uni.OID(RegID(op.C, op.I))})
		w.Present[op.C][op.I] = false
		w.Pending[op.C][op.I] = false
		w.MaybeCached[op.C][op.I] = false
	case KGC:
		sh.VerifGCPass()
		w.Pending = [NCnr][NReg]bool{}
	case KEpoch:
		d := uint64(op.Exp)
		if d == 0 {
			d = 1
		}
		e := w.R.Epoch.Add(d)
		sh.VerifNewEpoch(e)
	case KFlush:
		opErr = sh.FlushWriteCache(false)
		w.MaybeCached = [NCnr][NReg]bool{}
	case KTick:
		w.R.Tick()
		w.MaybeCached = [NCnr][NReg]bool{}
	case KTickNoSpace:
		w.R.SetNoSpace(true)
		w.R.Tick()
		w.R.SetNoSpace(false)
	case KRace:
		w.Races++
		w.R.ArmPause(RegAddr(op.C, op.I))
		if w.R.WaitPaused() {
			w.RacesParked++
			for _, in := range op.Inner {
				if err := w.Apply(in); err != nil {
					w.R.Resume()
					return err
				}
			}
			w.R.Resume()
		}
		w.MaybeCached = [NCnr][NReg]bool{}
	case KReopen:
		if err := w.R.Reopen(); err != nil {
			return fmt.Errorf("reopen: %w", err)
		}
	case KResync:
		if err := w.R.CloseShard(); err != nil {
			return fmt.Errorf("close before resync: %w", err)
		}
		rep := w.R.Epoch
		if op.Mark == 1 {
			rep = &stor.Epoch{} // neofs-lancet opens the metabase with a constant epoch 0
		}
		if err := Resync(w.R.Dir(), rep); err != nil {
			return fmt.Errorf("resync: %w", err)
		}
		if err := w.R.OpenAgain(); err != nil {
			return fmt.Errorf("open after resync: %w", err)
		}
	default:
		return errors.New("unknown op " + op.Kind)
	}
	if opErr != nil {
		w.Log = append(w.Log, fmt.Sprintf("%s -> %v", op, opErr))
	}
	if w.OnOp != nil {
		w.OnOp(op, "end", opErr)
	}
	return nil
}

// Package c15 decides property C15: after a crash, every object the shard's
// metadata lists as available is readable in full.
//
// Fault enumeration: rapid generates histories of ≤10 shard operations (put
// into the write-cache / past a full cache / without a cache, tombstone, drop
// and redundant marks, direct delete, GC pass, epoch, explicit and background
// write-cache flush with objects on both sides of the batch threshold, a
// background flush parked in front of its blob write while foreground
// operations run). Package crashrig snapshots the three storage locations
// before and after EVERY component step (blob Put/PutBatch/Delete, write-cache
// Put/Delete as called by the shard) and after every operation; every
// snapshot is reopened as a restarted shard (plain open, no resync) and
//
//	for every address of the universe:
//	    Shard.Exists(addr) == (true, nil)  ⇒  Shard.Get(addr) returns the byte-identical object.
//
// The converse (orphan data without metadata) is not asserted.
package c15

import (
	"bytes"
	"errors"
	"fmt"
	"os"
	"strings"
	"testing"

	"github.com/nspcc-dev/neofs-node/pkg/local_object_storage/blobstor/common"
	"github.com/nspcc-dev/neofs-node/verifharness/bubble"
	"github.com/nspcc-dev/neofs-node/verifharness/c15/crashrig"
	"github.com/nspcc-dev/neofs-node/verifharness/ev"
	"github.com/nspcc-dev/neofs-node/verifharness/snap"
	"github.com/nspcc-dev/neofs-node/verifharness/stor"
	oid "github.com/nspcc-dev/neofs-sdk-go/object/id"
	"pgregory.net/rapid"
)

// Fingerprint of the known-finding class: deleteObjs removes the object from
// the write-cache BEFORE the metabase record is deleted, so a crash in between
// leaves an object that the metadata still lists as available (redundant mark
// or direct delete) without data if it had not been flushed yet.
const fpWCFirst = "C15:deleteobjs-drops-write-cache-copy-before-metadata"

type violation struct {
	snap crashrig.Snap
	addr oid.Address
	what string
}

// verify reopens one snapshot and applies the oracle. It returns the number of
// addresses the metadata reported available and the violations.
func verify(r *crashrig.Rig, w *crashrig.World, s crashrig.Snap) (int, []violation) {
	sh, _, err := r.OpenSnapshot(s.Dir, s.Epoch)
	if err != nil {
		ev.Inconclusive("C15: cannot open %v as a shard: %v", s, err)
	}
	defer sh.Close()
	var (
		avail int
		vs    []violation
	)
	for _, a := range crashrig.Universe() {
		ok, err := sh.Exists(a, false)
		if err != nil || !ok {
			continue
		}
		avail++
		obj, err := sh.Get(a, false)
		if err != nil {
			vs = append(vs, violation{s, a, fmt.Sprintf("Exists=(true,nil) but Get: %v", err)})
			continue
		}
		want, known := w.Want[a]
		if !known {
			vs = append(vs, violation{s, a, "Exists=(true,nil) for an address that was never put"})
			continue
		}
		if got := obj.Marshal(); !bytes.Equal(got, want) {
			vs = append(vs, violation{s, a, fmt.Sprintf("Get returned %d bytes differing from the %d bytes put", len(got), len(want))})
		}
	}
	return avail, vs
}

func pointKind(p string) string {
	// "before wc.Delete[...]" -> "before wc.Delete"
	if i := strings.IndexByte(p, '['); i >= 0 {
		return p[:i]
	}
	return p
}

func TestC15Crash(t *testing.T) {
	rec := ev.New("C15", "crash")
	defer rec.Flush()
	maxOps := 10
	bubble.Check(t, func(t *rapid.T) {
		cfg := crashrig.Cfg{WC: rapid.IntRange(0, 3).Draw(t, "wc") > 0}
		if cfg.WC {
			cfg.WCBatchThreshold = crashrig.BatchThreshold
			if rapid.Bool().Draw(t, "smallcache") {
				cfg.WCMaxSize = crashrig.CacheSize
			}
		}
		r, err := crashrig.New(cfg)
		if err != nil {
			ev.Inconclusive("C15: rig: %v", err)
		}
		defer r.Cleanup()
		w := crashrig.NewWorld(r)

		// Classification of the known-finding class only: addresses for which the
		// current Delete / GC operation (deleteObjs) has already dropped the
		// write-cache copy while its metabase record is not deleted yet (the next
		// blob step of deleteObjs comes after metaBase.Delete and clears it).
		wcDeleted := map[oid.Address]bool{}
		var kinds []string
		w.OnOp = func(op crashrig.Op, phase string, _ error) {
			r.Lock()
			defer r.Unlock()
			if phase == "begin" {
				kinds = append(kinds, op.Kind)
			} else {
				kinds = kinds[:len(kinds)-1]
			}
			clear(wcDeleted)
		}
		enospcSingle, enospcBatch := false, false
		r.OnStep = func(st crashrig.Step) {
			if st.Comp == "blob" && st.After && errors.Is(st.Err, common.ErrNoSpace) {
				if st.Method == "Put" {
					enospcSingle = true
				} else {
					enospcBatch = true
				}
			}
			k := ""
			if len(kinds) > 0 {
				k = kinds[len(kinds)-1]
			}
			if k != crashrig.KDel && k != crashrig.KGC {
				return
			}
			switch {
			case st.Comp == "wc" && st.Method == "Delete" && st.After && st.Err == nil:
				wcDeleted[st.Addrs[0]] = true
			case st.Comp == "blob" && st.Method == "Delete":
				// deleteObjs reached its blob step: metaBase.Delete is done
				// (Put/PutBatch steps belong to a concurrently running flusher)
				clear(wcDeleted)
			}
		}
		r.SnapMeta = func() any {
			m := make(map[oid.Address]bool, len(wcDeleted))
			for a := range wcDeleted {
				m[a] = true
			}
			return m
		}

		// byte-identical snapshots (same files, same epoch) are verified once
		seen := map[string]bool{}
		var ops []crashrig.Op
		cfgs := fmt.Sprintf("wc=%v cache=%d", cfg.WC, cfg.WCMaxSize)
		n := rapid.IntRange(2, maxOps).Draw(t, "n")
		for i := 0; i < n; i++ {
			op := w.Draw(t, crashrig.Allow{Race: true, Reopen: true, NoSpace: true}, false)
			ops = append(ops, op)
			r.Lock()
			enospcSingle, enospcBatch = false, false
			r.Unlock()
			r.Begin(i, op.String())
			if err := w.Apply(op); err != nil {
				ev.Inconclusive("C15: %v (history %s)", err, crashrig.OpsString(ops))
			}
			r.End()
			snaps, err := r.Drain()
			if err != nil {
				ev.Inconclusive("C15: %v", err)
			}
			prefix := cfgs + " | " + crashrig.OpsString(ops)
			for k, s := range snaps {
				dg, err := snap.Digest(stor.BlobDir(s.Dir), stor.MetaPath(s.Dir), stor.WCDir(s.Dir))
				if err != nil {
					ev.Inconclusive("C15: digest of %v: %v", s, err)
				}
				dg = fmt.Sprintf("%s@%d", dg, s.Epoch)
				if seen[dg] {
					// same crash state as an already verified one (typically "before
					// the first step" == end of the previous operation)
					os.RemoveAll(s.Dir)
					rec.Label("crash-point-with-already-verified-state")
					if op.Kind == crashrig.KTickNoSpace && enospcSingle {
						// a failed flush that changes nothing leaves the verified state
						rec.Label("flush-single&ENOSPC")
						rec.Label("flush-single&ENOSPC:state-unchanged")
					}
					continue
				}
				seen[dg] = true
				avail, vs := verify(r, w, s)
				os.RemoveAll(s.Dir)
				labels := []string{"point:" + pointKind(s.Point), "op:" + op.Kind}
				if cfg.WC {
					labels = append(labels, "shard:write-cache")
				} else {
					labels = append(labels, "shard:no-cache")
				}
				if s.Inside {
					labels = append(labels, "inside-op")
				}
				if avail > 0 {
					labels = append(labels, "metadata-lists-available")
				}
				if (op.Kind == crashrig.KTick || op.Kind == crashrig.KRace) && s.Inside {
					labels = append(labels, "inside-background-flush")
				}
				if op.Kind == crashrig.KTickNoSpace {
					// fault class: the flusher's blob write failed with "no space left";
					// every snapshot of the period, in particular the one after it, is a
					// state the node may stop in
					if enospcSingle {
						labels = append(labels, "flush-single&ENOSPC")
					}
					if enospcBatch {
						labels = append(labels, "flush-batch&ENOSPC")
					}
				}
				rec.Case(s.Inside, fmt.Sprintf("%s #%d %s", prefix, k, s.Point), labels...)
				for _, v := range vs {
					if s.Inside && s.Meta.(map[oid.Address]bool)[v.addr] && strings.Contains(v.what, "Get:") {
						// object dropped from the write-cache by deleteObjs, metabase record not deleted yet
						if rec.Known(fpWCFirst) {
							rec.Excluded(1)
							continue
						}
						t.Fatalf("C15 violated [%s]: %s: %s\n  at %v\n  shard: %s\n  history: %s\n  op errors: %v",
							fpWCFirst, v.addr, v.what, v.snap, cfgs, crashrig.OpsString(ops), w.Log)
					}
					t.Fatalf("C15 violated: %s: %s\n  at %v\n  shard: %s\n  history: %s\n  op errors: %v",
						v.addr, v.what, v.snap, cfgs, crashrig.OpsString(ops), w.Log)
				}
			}
		}
		if rec.WantSample() {
			rec.Sample(map[string]any{"shard": cfgs, "history": crashrig.OpsString(ops)})
		}
		rec.LabelN("histories", 1)
		if w.RacesParked > 0 {
			rec.LabelN("histories-with-parked-flush", 1)
		}
		if w.PutErrs > 0 {
			rec.LabelN("histories-with-rejected-put", 1)
		}
	})
}

// Package c39 decides property C39 for pkg/util/precision: converting GAS
// amounts between Fixed8 (main chain) and the balance contract precision never
// creates value, is exact when the target precision is at least the source one,
// and never silently overflows / changes sign inside the supported range.
//
// Oracle: math/big reference (floor division / exact multiplication by
// 10^|p-8|).
//
// Supported range. Fixed8Converter's doc comment gives the guarantee it relies
// on: "balance contract will operate with Deposit and Withdraw amounts that
// less than 2**53-1" (JSON bound of contract invocation parameters). The
// NeoFS main chain contract enforces exactly that by limiting Deposit/Withdraw
// to 9000 GAS "Max integer of Fixed12 in JSON bound (2**53-1)". Hence an
// amount is inside the supported range when it is below 2^53 in the precision
// it is expressed in: the argument AND the mathematically exact result.
// Class names used below:
//
//	core   0 <= n < 2^53 and exact result < 2^53    -> everything asserted
//	wide   0 <= n, exact result fits int64 (not core) -> n < 2^53: exactness + round trip asserted (it is
//	          what the statement says literally for n < 2^53 and any int64 API can
//	          satisfy it); n >= 2^53: only "round trip never exceeds the original"
//	wrap   0 <= n, exact result does not fit int64   -> NOT asserted, counted; the int64 API cannot
//	          represent the result (see /verif/sensitivity/C39.md and the report)
//	neg    n < 0, exact (floor) result fits int64     -> asserted: single conversion == math/big floor
//	          reference; SIGNED round trip <= n (floor division never creates value, the
//	          magnitude of a negative may grow), round trip == n when the target precision
//	          is at least the source one. The round trip part is skipped (counted) when
//	          the way back does not fit int64.
//	          n < 0 with a result below MinInt64 belongs to "wrap".
package c39

import (
	"fmt"
	"math"
	"math/big"
	"testing"

	"github.com/nspcc-dev/neofs-node/pkg/util/precision"
	"github.com/nspcc-dev/neofs-node/verifharness/ev"
	"pgregory.net/rapid"
)

const (
	maxPrecision = 18
	lim53        = int64(1) << 53
	// fingerprint of the "result does not fit int64" class; only honoured if the
	// coordinator lists it as an open finding.
	fpWrap = "C39:int64-wrap-result-exceeds-int64"
)

var (
	bigLim53 = big.NewInt(lim53)
	bigMaxI  = big.NewInt(math.MaxInt64)
	bigMinI  = big.NewInt(math.MinInt64)
)

func pow10(k int) *big.Int { return new(big.Int).Exp(big.NewInt(10), big.NewInt(int64(k)), nil) }

// refConvert converts n from precision `from` to precision `to`: exact
// multiplication when precision grows, floor division (never more than the
// real value for n >= 0) when it shrinks.
func refConvert(from, to int, n *big.Int) *big.Int {
	switch {
	case to > from:
		return new(big.Int).Mul(n, pow10(to-from))
	case to < from:
		q, m := new(big.Int).QuoRem(n, pow10(from-to), new(big.Int)) // truncated
		if m.Sign() < 0 {
			q.Sub(q, big.NewInt(1)) // floor
		}
		return q
	}
	return new(big.Int).Set(n)
}

func fitsInt64(x *big.Int) bool { return x.Cmp(bigMinI) >= 0 && x.Cmp(bigMaxI) <= 0 }

// class of converting n (>= 0 or < 0) with mathematically exact result r.
func classify(n int64, r *big.Int) string {
	switch {
	case !fitsInt64(r):
		return "wrap"
	case n < 0:
		return "neg"
	case n < lim53 && r.Cmp(bigLim53) < 0:
		return "core"
	}
	return "wide"
}

// amountGen draws an int64 amount for precision p: boundary values, values
// around the points where n*10^|p-8| crosses 2^53 and 2^63, uniform in
// [0, 2^53), uniform int64, and realistic GAS amounts (<= 9000 GAS).
func amountGen(p int) *rapid.Generator[int64] {
	return rapid.Custom(func(t *rapid.T) int64 {
		v := absAmountGen(p).Draw(t, "v")
		// negative twins of every boundary class (signed relations are asserted for them too)
		if v > 0 && rapid.IntRange(0, 4).Draw(t, "negate") == 0 {
			v = -v
		}
		return v
	})
}

func absAmountGen(p int) *rapid.Generator[int64] {
	return rapid.Custom(func(t *rapid.T) int64 {
		exp := p - 8
		if exp < 0 {
			exp = -exp
		}
		f := pow10(exp)
		d := int64(rapid.IntRange(-3, 3).Draw(t, "d"))
		clamp := func(x *big.Int) int64 {
			if x.Cmp(bigMaxI) > 0 {
				return math.MaxInt64
			}
			if x.Cmp(bigMinI) < 0 {
				return math.MinInt64
			}
			return x.Int64()
		}
		switch rapid.IntRange(0, 9).Draw(t, "kind") {
		case 0: // fixed boundary set
			return rapid.SampledFrom([]int64{0, 1, -1, 2, lim53 - 1, lim53, lim53 + 1, lim53 - 2, math.MaxInt64,
				math.MaxInt64 - 1, math.MinInt64, math.MinInt64 + 1, -lim53, -lim53 + 1, 1 << 31, 1 << 32, 1<<62 - 1, 1 << 62}).Draw(t, "b")
		case 1: // 10^k + d
			k := rapid.IntRange(0, 18).Draw(t, "k")
			return clamp(new(big.Int).Add(pow10(k), big.NewInt(d)))
		case 2: // m*10^exp + d: multiples of the factor and their neighbours (rounding edge)
			m := rapid.Int64Range(0, 1<<20).Draw(t, "m")
			return clamp(new(big.Int).Add(new(big.Int).Mul(big.NewInt(m), f), big.NewInt(d)))
		case 3: // around 2^53 / factor: the result crosses the supported limit
			return clamp(new(big.Int).Add(new(big.Int).Div(bigLim53, f), big.NewInt(d)))
		case 4: // around 2^63 / factor: the result crosses int64
			return clamp(new(big.Int).Add(new(big.Int).Div(new(big.Int).Lsh(big.NewInt(1), 63), f), big.NewInt(d)))
		case 5, 6: // uniform in the supported argument range
			return rapid.Int64Range(0, lim53-1).Draw(t, "u53")
		case 7: // realistic: up to 9000 GAS in Fixed8 / Fixed12
			if rapid.Bool().Draw(t, "f12") {
				return rapid.Int64Range(0, 9000_000000000000).Draw(t, "gas12")
			}
			return rapid.Int64Range(0, 9000_00000000).Draw(t, "gas8")
		case 8: // uniform so that the result stays in the supported range
			hi := new(big.Int).Div(bigLim53, f).Int64()
			return rapid.Int64Range(0, hi).Draw(t, "ucore")
		default:
			return rapid.Int64().Draw(t, "i64")
		}
	})
}

type dir struct {
	name     string
	from, to func(p int) int
	call     func(c precision.Fixed8Converter, n int64) int64
	back     func(c precision.Fixed8Converter, n int64) int64
}

var dirs = []dir{
	{"ToBalancePrecision", func(int) int { return 8 }, func(p int) int { return p },
		precision.Fixed8Converter.ToBalancePrecision, precision.Fixed8Converter.ToFixed8},
	{"ToFixed8", func(p int) int { return p }, func(int) int { return 8 },
		precision.Fixed8Converter.ToFixed8, precision.Fixed8Converter.ToBalancePrecision},
}

// checkOne evaluates one (direction, p, n) point; returns class and an error text.
func checkOne(rec *ev.Recorder, d dir, p int, n int64) (string, string) {
	c := precision.NewConverter(uint32(p))
	from, to := d.from(p), d.to(p)
	bn := big.NewInt(n)
	exact := refConvert(from, to, bn)
	cls := classify(n, exact)
	got := d.call(c, n)

	switch cls {
	case "neg":
		// signed relations hold for negative amounts too (floor division)
		if exact.Cmp(big.NewInt(got)) != 0 {
			return cls, fmt.Sprintf("%s(p=%d, n=%d) = %d, floor reference %s [class neg]", d.name, p, n, got, exact)
		}
		exactBack := refConvert(to, from, exact)
		if !fitsInt64(exactBack) {
			rec.Label("neg:way-back-exceeds-int64(not asserted)")
			return cls, ""
		}
		rt := d.back(c, got)
		if rt > n {
			return cls, fmt.Sprintf("round trip %s(p=%d): %d -> %d -> %d creates value (signed)", d.name, p, n, got, rt)
		}
		if to >= from && rt != n {
			return cls, fmt.Sprintf("round trip %s(p=%d): %d -> %d -> %d must be exact (target precision %d >= source %d)", d.name, p, n, got, rt, to, from)
		}
		if exactBack.Cmp(big.NewInt(rt)) != 0 {
			return cls, fmt.Sprintf("round trip %s(p=%d): %d -> %d -> %d, floor reference %s", d.name, p, n, got, rt, exactBack)
		}
		return cls, ""
	case "wrap":
		// the exact result needs more than 63 bits: the int64 API cannot return it.
		if n >= 0 && n < lim53 {
			rec.Label("wrap-with-arg<2^53")
			if got < 0 {
				rec.Label("wrap-with-arg<2^53:negative-result")
			}
			rec.Known(fpWrap) // recorded only when listed as an open finding
		}
		return cls, ""
	}
	// n < 2^53 (the statement's range): exact value, hence same sign and no wrap.
	// n >= 2^53: only the no-value-creation rule of the round trip.
	strict := n < lim53
	if strict {
		if exact.Cmp(big.NewInt(got)) != 0 {
			return cls, fmt.Sprintf("%s(p=%d, n=%d) = %d, exact value %s [class %s]", d.name, p, n, got, exact, cls)
		}
		if got < 0 {
			return cls, fmt.Sprintf("%s(p=%d, n=%d) = %d is negative", d.name, p, n, got)
		}
	}
	// round trip: there and back never yields more than the original, and is
	// exact when the intermediate precision is at least the source precision
	rt := d.back(c, got)
	if rt > n {
		return cls, fmt.Sprintf("round trip %s(p=%d): %d -> %d -> %d creates value", d.name, p, n, got, rt)
	}
	if !strict {
		return cls, ""
	}
	exactBack := refConvert(to, from, exact)
	if rt < 0 {
		return cls, fmt.Sprintf("round trip %s(p=%d): %d -> %d -> %d changes sign", d.name, p, n, got, rt)
	}
	if to >= from && rt != n {
		return cls, fmt.Sprintf("round trip %s(p=%d): %d -> %d -> %d must be exact (target precision %d >= source %d)", d.name, p, n, got, rt, to, from)
	}
	if exactBack.Cmp(big.NewInt(rt)) != 0 {
		return cls, fmt.Sprintf("round trip %s(p=%d): %d -> %d -> %d, exact %s", d.name, p, n, got, rt, exactBack)
	}
	return cls, ""
}

func TestC39Converter(t *testing.T) {
	rec := ev.New("C39", "converter")
	defer rec.Flush()
	rapid.Check(t, func(t *rapid.T) {
		p := rapid.IntRange(0, maxPrecision).Draw(t, "p")
		n := amountGen(p).Draw(t, "n")
		di := rapid.IntRange(0, 1).Draw(t, "dir")
		d := dirs[di]
		cls, msg := checkOne(rec, d, p, n)
		scaled := p != 8 && n != 0
		rec.Case(cls != "wrap" && scaled, fmt.Sprintf("%d|%d|%d", di, p, n),
			"class:"+cls, d.name, fmt.Sprintf("p=%02d", p))
		if (cls == "core" || cls == "neg") && d.from(p) > d.to(p) && scaled {
			f := pow10(d.from(p) - d.to(p))
			if new(big.Int).Mod(big.NewInt(n), f).Sign() != 0 {
				rec.Label(cls + ":lossy-division")
			} else {
				rec.Label(cls + ":exact-division")
			}
		}
		if rec.WantSample() && cls == "core" && scaled {
			rec.Sample(map[string]any{"dir": d.name, "p": p, "n": n})
		}
		if msg != "" {
			t.Fatalf("%s", msg)
		}
	})
}

// TestC39Boundaries enumerates the concrete boundary table for every precision
// 0..18 and both directions ("concrete boundary values for the Go
// implementation" in the quantifier).
func TestC39Boundaries(t *testing.T) {
	rec := ev.New("C39", "boundaries")
	defer rec.Flush()
	k, nsh := ev.Shard()
	var base []*big.Int
	add := func(x *big.Int) {
		for d := int64(-2); d <= 2; d++ {
			base = append(base, new(big.Int).Add(x, big.NewInt(d)))
		}
	}
	add(big.NewInt(0))
	for e := 0; e <= 18; e++ {
		add(pow10(e))
		add(new(big.Int).Mul(big.NewInt(9000), pow10(e))) // contract limit 9000 GAS in any precision
		add(new(big.Int).Div(bigLim53, pow10(e)))         // result crosses 2^53
		add(new(big.Int).Div(new(big.Int).Lsh(big.NewInt(1), 63), pow10(e)))
	}
	for _, s := range []uint{31, 32, 52, 53, 62, 63} {
		add(new(big.Int).Lsh(big.NewInt(1), s))
	}
	idx := 0
	for p := 0; p <= maxPrecision; p++ {
		for di, d := range dirs {
			for _, x := range base {
				idx++
				if idx%nsh != k {
					continue
				}
				for _, neg := range []bool{false, true} {
					y := x
					if neg {
						y = new(big.Int).Neg(x)
					}
					if !fitsInt64(y) {
						continue
					}
					n := y.Int64()
					cls, msg := checkOne(rec, d, p, n)
					rec.Case(cls != "wrap" && p != 8 && n != 0, fmt.Sprintf("%d|%d|%d", di, p, n), "class:"+cls)
					if msg != "" {
						t.Fatalf("%s", msg)
					}
				}
			}
		}
	}
}

// TestC39Convert checks the arbitrary-precision helper precision.Convert (used
// by neofs-cli to print balances): exact multiplication / floor division for
// every pair of precisions 0..18, never more than the original on the way back.
func TestC39Convert(t *testing.T) {
	rec := ev.New("C39", "convert")
	defer rec.Flush()
	rapid.Check(t, func(t *rapid.T) {
		from := rapid.IntRange(0, maxPrecision).Draw(t, "from")
		to := rapid.IntRange(0, maxPrecision).Draw(t, "to")
		p := to
		if from != 8 {
			p = from
		}
		n := amountGen(p).Draw(t, "n")
		neg := n < 0
		rec.Case(from != to && n != 0, fmt.Sprintf("%d|%d|%d", from, to, n), map[bool]string{true: "convert:neg", false: "convert:nonneg"}[neg])
		bn := big.NewInt(n)
		got := precision.Convert(uint32(from), uint32(to), bn)
		if bn.Cmp(big.NewInt(n)) != 0 {
			t.Fatalf("Convert(%d,%d,%d) modified its argument: %s", from, to, n, bn)
		}
		exact := refConvert(from, to, big.NewInt(n))
		if got.Cmp(exact) != 0 {
			t.Fatalf("Convert(%d,%d,%d) = %s, floor reference %s", from, to, n, got, exact)
		}
		back := precision.Convert(uint32(to), uint32(from), got)
		if back.Cmp(big.NewInt(n)) > 0 || (!neg && back.Sign() < 0) {
			t.Fatalf("Convert round trip %d -> %s -> %s creates value / changes sign (from=%d to=%d)", n, got, back, from, to)
		}
		if to >= from && back.Cmp(big.NewInt(n)) != 0 {
			t.Fatalf("Convert round trip %d -> %s -> %s must be exact (from=%d to=%d)", n, got, back, from, to)
		}
	})
}

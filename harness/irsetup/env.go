package irsetup

import (
	"crypto/sha256"
	"errors"
	"fmt"
	"math/big"
	"strings"
	"sync"
	"time"

	"github.com/nspcc-dev/neo-go/pkg/core/native/nativehashes"
	"github.com/nspcc-dev/neo-go/pkg/core/native/noderoles"
	"github.com/nspcc-dev/neo-go/pkg/crypto/keys"
	"github.com/nspcc-dev/neo-go/pkg/encoding/fixedn"
	"github.com/nspcc-dev/neo-go/pkg/util"
	"github.com/nspcc-dev/neo-go/pkg/vm/stackitem"
	containerrpc "github.com/nspcc-dev/neofs-contract/rpc/container"
	netmaprpc "github.com/nspcc-dev/neofs-contract/rpc/netmap"
	"github.com/nspcc-dev/neofs-node/pkg/innerring/processors"
	"github.com/nspcc-dev/neofs-node/pkg/innerring/processors/alphabet"
	"github.com/nspcc-dev/neofs-node/pkg/innerring/processors/balance"
	cntproc "github.com/nspcc-dev/neofs-node/pkg/innerring/processors/container"
	"github.com/nspcc-dev/neofs-node/pkg/innerring/processors/governance"
	"github.com/nspcc-dev/neofs-node/pkg/innerring/processors/neofs"
	nmproc "github.com/nspcc-dev/neofs-node/pkg/innerring/processors/netmap"
	repproc "github.com/nspcc-dev/neofs-node/pkg/innerring/processors/reputation"
	"github.com/nspcc-dev/neofs-node/pkg/innerring/processors/settlement"
	"github.com/nspcc-dev/neofs-node/pkg/morph/client"
	balanceClient "github.com/nspcc-dev/neofs-node/pkg/morph/client/balance"
	cntClient "github.com/nspcc-dev/neofs-node/pkg/morph/client/container"
	neofsClient "github.com/nspcc-dev/neofs-node/pkg/morph/client/neofs"
	nmClient "github.com/nspcc-dev/neofs-node/pkg/morph/client/netmap"
	repClient "github.com/nspcc-dev/neofs-node/pkg/morph/client/reputation"
	fschaincontracts "github.com/nspcc-dev/neofs-node/pkg/morph/contracts"
	"github.com/nspcc-dev/neofs-node/pkg/morph/event"
	balanceEvent "github.com/nspcc-dev/neofs-node/pkg/morph/event/balance"
	cntEvent "github.com/nspcc-dev/neofs-node/pkg/morph/event/container"
	neofsEvent "github.com/nspcc-dev/neofs-node/pkg/morph/event/neofs"
	nmEvent "github.com/nspcc-dev/neofs-node/pkg/morph/event/netmap"
	repEvent "github.com/nspcc-dev/neofs-node/pkg/morph/event/reputation"
	"github.com/nspcc-dev/neofs-node/pkg/morph/event/rolemanagement"
	"github.com/nspcc-dev/neofs-node/pkg/util/precision"
	"github.com/nspcc-dev/neofs-node/verifharness/irfix"
	"github.com/nspcc-dev/neofs-sdk-go/container"
	cid "github.com/nspcc-dev/neofs-sdk-go/container/id"
	neofsecdsa "github.com/nspcc-dev/neofs-sdk-go/crypto/ecdsa"
	"github.com/nspcc-dev/neofs-sdk-go/netmap"
	"github.com/nspcc-dev/neofs-sdk-go/reputation"
	"go.uber.org/zap"
	"go.uber.org/zap/zapcore"
	"go.uber.org/zap/zaptest/observer"
)

// Contracts are the script hashes the processors are bound to.
type Contracts struct {
	Netmap, Container, Balance, Reputation, Proxy, NeoFS util.Uint160
	Alphabet                                             []util.Uint160
}

// Fakes are the harness-owned non-chain dependencies of the processors.
type Fakes struct {
	State     *irfix.State
	Epoch     *irfix.Epoch
	Validator *Validator
	Timer     *EpochTimer
	Voter     *Voter
	IRKeys    *IRFetcher
	Managers  *Managers
	ChainTime *ChainTime
	NetState  *NetState // nil: the netmap client is used (needs a chain)
	Meta      *MetaChain

	AlphabetSync  func(event.Event)
	NotaryDeposit func(event.Event)
}

// Validator is a scripted nmproc.NodeValidator.
type Validator struct {
	mu     sync.Mutex
	Reject error
	Inner  func(netmap.NodeInfo) error // optional: real validators
	Calls  int
	Last   netmap.NodeInfo
}

func (v *Validator) Verify(ni netmap.NodeInfo) error {
	v.mu.Lock()
	defer v.mu.Unlock()
	v.Calls++
	v.Last = ni
	if v.Inner != nil {
		return v.Inner(ni)
	}
	return v.Reject
}

// Set scripts the validator.
func (v *Validator) Set(reject error, inner func(netmap.NodeInfo) error) {
	v.mu.Lock()
	v.Reject, v.Inner, v.Calls = reject, inner, 0
	v.mu.Unlock()
}

// NCalls returns the number of Verify calls since Set.
func (v *Validator) NCalls() int {
	v.mu.Lock()
	defer v.mu.Unlock()
	return v.Calls
}

type EpochTimer struct {
	mu     sync.Mutex
	Resets []uint32
}

func (e *EpochTimer) ResetEpochTimer(h uint32) error {
	e.mu.Lock()
	e.Resets = append(e.Resets, h)
	e.mu.Unlock()
	return nil
}

type Voter struct {
	mu    sync.Mutex
	Votes int
}

func (v *Voter) VoteForFSChainValidator(keys.PublicKeys, *util.Uint256) error {
	v.mu.Lock()
	v.Votes++
	v.mu.Unlock()
	return nil
}

type IRFetcher struct{ Keys keys.PublicKeys }

func (f *IRFetcher) InnerRingKeys() (keys.PublicKeys, error) { return f.Keys, nil }

type Managers struct{ Nodes []netmap.NodeInfo }

func (m *Managers) BuildManagers(uint64, reputation.PeerID) ([]netmap.NodeInfo, error) {
	return m.Nodes, nil
}

// MetaChain is a recording processors.MetadataChain.
type MetaChain struct {
	mu    sync.Mutex
	Calls []string
}

func (m *MetaChain) UpdateContainerPlacement(id cid.ID, _ [][]netmap.NodeInfo, _ netmap.PlacementPolicy, _ uint32) error {
	m.mu.Lock()
	m.Calls = append(m.Calls, "placement:"+id.String())
	m.mu.Unlock()
	return nil
}

func (m *MetaChain) RegisterMetadataContainer(id cid.ID, _ uint32) error {
	m.mu.Lock()
	m.Calls = append(m.Calls, "register:"+id.String())
	m.mu.Unlock()
	return nil
}

type ChainTime struct{ T time.Time }

func (c *ChainTime) Now() time.Time { return c.T }

// NetState is a scripted container-processor NetworkState.
type NetState struct {
	mu  sync.Mutex
	Ep  uint64
	Map *netmap.NetMap
}

func (n *NetState) Epoch() (uint64, error) {
	n.mu.Lock()
	defer n.mu.Unlock()
	return n.Ep, nil
}
func (n *NetState) SetEpoch(e uint64) {
	n.mu.Lock()
	n.Ep = e
	n.mu.Unlock()
}
func (n *NetState) NetMap() (*netmap.NetMap, error) {
	n.mu.Lock()
	defer n.mu.Unlock()
	if n.Map == nil {
		return nil, errors.New("harness: no network map")
	}
	return n.Map, nil
}
func (n *NetState) GetEpochBlock(uint64) (uint32, error)       { return 1, nil }
func (n *NetState) GetEpochBlockByTime(uint32) (uint32, error) { return 1, nil }

// Env is the set of inner ring processors on top of real morph clients.
type Env struct {
	FS, Main *client.Client
	C        Contracts
	F        Fakes
	Logs     *observer.ObservedLogs

	NetmapCli    *nmClient.Client
	ContainerCli *cntClient.Client
	BalanceCli   *balanceClient.Client
	RepCli       *repClient.Client
	NeoFSCli     *neofsClient.Client

	Alphabet   *alphabet.Processor
	Balance    *balance.Processor
	Container  *cntproc.Processor
	Governance *governance.Processor
	NeoFS      *neofs.Processor
	Netmap     *nmproc.Processor
	Reputation *repproc.Processor
	Settlement *settlement.Processor

	Signers MainTxSigners

	// LastLogs are the warn/error log lines of the last handled event (filled by Dropped).
	LastLogs []string
}

// Options of NewEnv.
type Options struct {
	FSURL, MainURL string // neoproxy endpoints (may be the same)
	Key            *keys.PrivateKey
	AlphabetKeys   keys.PublicKeys // what the notary witness is built from
	Contracts      Contracts
	Magic          uint32
	Offline        bool // no chain: netmap processor is built without the initial netmap read
	AllowEC        bool
	ScriptedNet    bool // container processor gets Fakes.NetState instead of the netmap client
	MetaEnabled    bool // chain metadata feature on (container processor gets Fakes.Meta)
}

// NewEnv builds everything the way innerring.New wires it (same constructor
// parameters; pools of size 1 so that VerifWaitIdle is a barrier).
func NewEnv(o Options) (*Env, error) {
	core, logs := observer.New(zapcore.WarnLevel)
	log := zap.New(core)
	e := &Env{C: o.Contracts, Logs: logs}
	e.F = Fakes{
		State: &irfix.State{}, Epoch: &irfix.Epoch{}, Validator: &Validator{}, Timer: &EpochTimer{},
		Voter: &Voter{}, IRKeys: &IRFetcher{Keys: o.AlphabetKeys}, Managers: &Managers{},
		ChainTime: &ChainTime{T: time.Unix(1_800_000_000, 0)}, NetState: &NetState{}, Meta: &MetaChain{},
	}
	var alpha func() (keys.PublicKeys, error)
	if o.Offline {
		alpha = func() (keys.PublicKeys, error) { return o.AlphabetKeys, nil }
	}
	var err error
	if e.FS, err = irfix.NewClient(o.FSURL, o.Key, &o.Contracts.Proxy, alpha); err != nil {
		return nil, fmt.Errorf("fs chain client: %w", err)
	}
	if e.Main, err = irfix.NewClient(o.MainURL, o.Key, &o.Contracts.Proxy, alpha); err != nil {
		return nil, fmt.Errorf("main chain client: %w", err)
	}
	e.Signers = MainTxSigners{Proxy: o.Contracts.Proxy, Alphabet: o.AlphabetKeys, Invoker: irfix.Key(77), Notary: nativehashes.Notary, Magic: o.Magic}

	// clients exactly as innerring.New creates them
	if e.NetmapCli, err = nmClient.NewFromMorph(e.FS, o.Contracts.Netmap, nmClient.AsAlphabet()); err != nil {
		return nil, err
	}
	if e.ContainerCli, err = cntClient.NewFromMorph(e.FS, o.Contracts.Container, cntClient.AsAlphabet()); err != nil {
		return nil, err
	}
	if e.BalanceCli, err = balanceClient.NewFromMorph(e.FS, o.Contracts.Balance, balanceClient.AsAlphabet()); err != nil {
		return nil, err
	}
	if e.RepCli, err = repClient.NewFromMorph(e.FS, o.Contracts.Reputation, repClient.AsAlphabet()); err != nil {
		return nil, err
	}
	if e.NeoFSCli, err = neofsClient.NewFromMorph(e.Main, o.Contracts.NeoFS, fixedn.Fixed8(0), neofsClient.TryNotary(), neofsClient.AsAlphabet()); err != nil {
		return nil, err
	}

	e.Settlement = settlement.New(settlement.Prm{State: e.F.State, ContainerClient: e.ContainerCli, NetmapClient: e.NetmapCli, BalanceClient: e.BalanceCli},
		settlement.WithLogger(log))

	if e.Governance, err = governance.New(&governance.Params{
		Log: log, NeoFSClient: e.NeoFSCli, NetmapClient: e.NetmapCli, AlphabetState: e.F.State, EpochState: e.F.Epoch,
		Voter: e.F.Voter, IRFetcher: e.F.IRKeys, FSChainClient: e.FS, MainnetClient: e.Main,
	}); err != nil {
		return nil, fmt.Errorf("governance: %w", err)
	}

	e.F.AlphabetSync = e.Governance.HandleAlphabetSync
	e.F.NotaryDeposit = func(event.Event) {}
	nmPrm := &nmproc.Params{
		Log: log, PoolSize: 1, NetmapClient: e.NetmapCli, EpochTimer: e.F.Timer, EpochState: e.F.Epoch, AlphabetState: e.F.State,
		ContainerWrapper:     e.ContainerCli,
		NotaryDepositHandler: func(ev event.Event) { e.F.NotaryDeposit(ev) },
		AlphabetSyncHandler:  func(ev event.Event) { e.F.AlphabetSync(ev) },
		NodeValidator:        e.F.Validator,
	}
	if o.Offline {
		e.Netmap, err = nmproc.VerifNewOffline(nmPrm, new(netmap.NetMap))
	} else {
		e.Netmap, err = nmproc.New(nmPrm)
	}
	if err != nil {
		return nil, fmt.Errorf("netmap: %w", err)
	}

	var ns cntproc.NetworkState = e.NetmapCli
	if o.ScriptedNet {
		ns = e.F.NetState
	}
	if e.Container, err = cntproc.New(&cntproc.Params{
		Log: log, PoolSize: 1, AlphabetState: e.F.State, ContainerClient: e.ContainerCli, NetworkState: ns,
		AllowEC: o.AllowEC, ChainTime: e.F.ChainTime, MetaEnabled: o.MetaEnabled, MetaClient: metaClient(o.MetaEnabled, e.F.Meta),
	}); err != nil {
		return nil, fmt.Errorf("container: %w", err)
	}

	conv := precision.NewConverter(12)
	if e.Balance, err = balance.New(&balance.Params{
		Log: log, PoolSize: 1, NeoFSClient: e.NeoFSCli, BalanceSC: o.Contracts.Balance, AlphabetState: e.F.State, Converter: conv,
	}); err != nil {
		return nil, fmt.Errorf("balance: %w", err)
	}
	if e.NeoFS, err = neofs.New(&neofs.Params{
		Log: log, PoolSize: 1, NeoFSContract: o.Contracts.NeoFS, BalanceClient: e.BalanceCli, NetmapClient: e.NetmapCli, FSChainClient: e.FS,
		EpochState: e.F.Epoch, AlphabetState: e.F.State, Converter: conv,
		MintEmitCacheSize: 100, MintEmitThreshold: 1, MintEmitValue: fixedn.Fixed8(20000000), GasBalanceThreshold: 0,
	}); err != nil {
		return nil, fmt.Errorf("neofs: %w", err)
	}
	if e.Alphabet, err = alphabet.New(&alphabet.Params{
		Log: log, PoolSize: 1, AlphabetContracts: o.Contracts.Alphabet, NetmapClient: e.NetmapCli, FSChainClient: e.FS, IRList: e.F.State,
		StorageEmission: 1_0000_0000,
	}); err != nil {
		return nil, fmt.Errorf("alphabet: %w", err)
	}
	if e.Reputation, err = repproc.New(&repproc.Params{
		Log: log, PoolSize: 1, EpochState: e.F.Epoch, AlphabetState: e.F.State, ReputationWrapper: e.RepCli, ManagerBuilder: e.F.Managers,
	}); err != nil {
		return nil, fmt.Errorf("reputation: %w", err)
	}
	return e, nil
}

func metaClient(on bool, m *MetaChain) processors.MetadataChain {
	if !on {
		return nil
	}
	return m
}

// Close releases the morph clients.
func (e *Env) Close() {
	e.FS.Close()
	e.Main.Close()
}

// WaitIdle waits for all worker pools (twice governance<-netmap chaining:
// netmap's new-epoch task hands a task to the governance pool).
func (e *Env) WaitIdle() {
	for i := 0; i < 2; i++ {
		e.Netmap.VerifWaitIdle()
		e.Governance.VerifWaitIdle()
		e.Alphabet.VerifWaitIdle()
		e.Balance.VerifWaitIdle()
		e.Container.VerifWaitIdle()
		e.NeoFS.VerifWaitIdle()
		e.Reputation.VerifWaitIdle()
	}
}

// WaitIdleTimeout is WaitIdle with a deadline that only guards the harness
// against handlers stuck in long retry loops; false = still busy.
func (e *Env) WaitIdleTimeout(d time.Duration) bool {
	done := make(chan struct{})
	go func() { e.WaitIdle(); close(done) }()
	select {
	case <-done:
		return true
	case <-time.After(d):
		return false
	}
}

// Dropped reports (and forgets) "worker pool drained" warnings: the handler
// could not hand its task over and the event was dropped.
func (e *Env) Dropped() bool {
	n := 0
	e.LastLogs = e.LastLogs[:0]
	for _, l := range e.Logs.TakeAll() {
		if strings.Contains(l.Message, "pool drained") {
			n++
			continue
		}
		e.LastLogs = append(e.LastLogs, fmt.Sprintf("%s %v", l.Message, l.ContextMap()))
	}
	return n > 0
}

// Handler is one registered handler / timer / startup action.
type Handler struct {
	Proc, Name, Kind string
	// Guard documents where the membership guard is (source reading; checked dynamically by C35).
	Guard string
	// Event builds a well-formed event; v varies the content.
	Event func(e *Env, v Variation) (event.Event, error)
	Call  func(event.Event)
}

// Variation is the generated content of an event.
type Variation struct {
	Epoch  uint64
	Amount int64
	Key    *keys.PrivateKey
	Nonce  uint32
	VUB    uint32
	Salt   byte
	Role   noderoles.Role
	// Cnr is the container the request is about (marshalled), Owner signs it.
	Cnr   container.Container
	Owner *keys.PrivateKey
}

func txHash(v Variation) util.Uint256 {
	return util.Uint256(sha256.Sum256([]byte{v.Salt, byte(v.Epoch), byte(v.Nonce)}))
}

func b20(s byte) []byte { h := irfix.Hash160(s); return h.BytesBE() }

// ContainerStruct mirrors morph/client/container.containerToStackItem.
func ContainerStruct(cnr container.Container) *containerrpc.ContainerInfo {
	ver := cnr.Version()
	owner := cnr.Owner()
	var attrs []*containerrpc.ContainerAttribute
	for k, v := range cnr.Attributes() {
		attrs = append(attrs, &containerrpc.ContainerAttribute{Key: k, Value: v})
	}
	return &containerrpc.ContainerInfo{
		Version:       &containerrpc.ContainerAPIVersion{Major: big.NewInt(int64(ver.Major())), Minor: big.NewInt(int64(ver.Minor()))},
		Owner:         owner.ScriptHash(),
		Nonce:         cnr.ProtoMessage().Nonce,
		BasicACL:      big.NewInt(int64(cnr.BasicACL().Bits())),
		Attributes:    attrs,
		StoragePolicy: cnr.PlacementPolicy().Marshal(),
	}
}

// Handlers enumerates every handler the processors register plus the timer
// and directly wired actions of innerring.New / initTimers. The counts of the
// registered tables are checked: a new handler makes the run inconclusive
// instead of silently uncovered.
func (e *Env) Handlers() ([]Handler, error) {
	var hs []Handler
	want := func(name string, got, exp int) error {
		if got != exp {
			return fmt.Errorf("%s registers %d handlers, the harness table knows %d: update irsetup.Handlers", name, got, exp)
		}
		return nil
	}
	newEpoch := func(contract util.Uint160) func(*Env, Variation) (event.Event, error) {
		return func(e *Env, v Variation) (event.Event, error) {
			return nmEvent.ParseNewEpoch(Notification(contract, "NewEpoch", txHash(v), stackitem.Make(v.Epoch)))
		}
	}

	// alphabet
	an := e.Alphabet.ListenerNotificationHandlers()
	if err := errors.Join(want("alphabet notifications", len(an), 1), want("alphabet notary", len(e.Alphabet.ListenerNotaryHandlers()), 0), want("alphabet timers", len(e.Alphabet.TimersHandlers()), 0)); err != nil {
		return nil, err
	}
	hs = append(hs, Handler{Proc: "alphabet", Name: "NewEpoch->emit", Kind: "notification", Guard: "processEmit: AlphabetIndex() < 0 first", Event: newEpoch(e.C.Netmap), Call: an[0].Handler()})

	// balance
	bn := e.Balance.ListenerNotificationHandlers()
	if err := errors.Join(want("balance notifications", len(bn), 1), want("balance notary", len(e.Balance.ListenerNotaryHandlers()), 0), want("balance timers", len(e.Balance.TimersHandlers()), 0)); err != nil {
		return nil, err
	}
	hs = append(hs, Handler{Proc: "balance", Name: "Lock->cheque", Kind: "notification", Guard: "processLock: IsAlphabet() first",
		Event: func(e *Env, v Variation) (event.Event, error) {
			return balanceEvent.ParseLock(Notification(e.C.Balance, "Lock", txHash(v),
				stackitem.Make([]byte{v.Salt, 1, 2}), stackitem.Make(b20(v.Salt)), stackitem.Make(b20(v.Salt+1)), stackitem.Make(v.Amount), stackitem.Make(v.Epoch+5)))
		}, Call: bn[0].Handler()})

	// container
	cn := e.Container.ListenerNotaryHandlers()
	if err := errors.Join(want("container notary", len(cn), 11), want("container notifications", len(e.Container.ListenerNotificationHandlers()), 0), want("container timers", len(e.Container.TimersHandlers()), 0)); err != nil {
		return nil, err
	}
	sig := func(v Variation, data []byte) []byte { return v.Owner.Sign(data) } // placeholder shape (content irrelevant for C35)
	pub := func(v Variation) []byte { return v.Owner.PublicKey().Bytes() }
	cnrID := func(v Variation) []byte { id := sha256.Sum256(v.Cnr.Marshal()); return id[:] }
	reqOf := func(e *Env, v Variation, method string, args ...any) (Request, error) {
		return NewRequest(e.Signers, e.C.Container, method, v.Nonce, v.VUB, args...)
	}
	cGuard := "process*: IsAlphabet() first"
	hs = append(hs,
		Handler{Proc: "container", Name: "put", Kind: "notary", Guard: cGuard, Call: cn[0].Handler(), Event: func(e *Env, v Variation) (event.Event, error) {
			b := v.Cnr.Marshal()
			r, err := reqOf(e, v, cntEvent.PutNotaryEvent, b, sig(v, b), pub(v), []byte{})
			if err != nil {
				return nil, err
			}
			return cntEvent.ParsePutNotary(r.Ev)
		}},
		Handler{Proc: "container", Name: "putNamed", Kind: "notary", Guard: cGuard, Call: cn[1].Handler(), Event: func(e *Env, v Variation) (event.Event, error) {
			b := v.Cnr.Marshal()
			r, err := reqOf(e, v, cntEvent.PutNamedNotaryEvent, b, sig(v, b), pub(v), []byte{}, "name", "container")
			if err != nil {
				return nil, err
			}
			return cntEvent.ParsePutNamedNotary(r.Ev)
		}},
		Handler{Proc: "container", Name: "create", Kind: "notary", Guard: cGuard, Call: cn[2].Handler(), Event: func(e *Env, v Variation) (event.Event, error) {
			b := v.Cnr.Marshal()
			r, err := reqOf(e, v, fschaincontracts.CreateContainerMethod, b, sig(v, b), pub(v), []byte{}, "", "", false)
			if err != nil {
				return nil, err
			}
			return cntEvent.CreateContainerRequest{MainTransaction: *r.Req.MainTransaction, CreateContainerParams: fschaincontracts.CreateContainerParams{
				Container: b, InvocationScript: sig(v, b), VerificationScript: pub(v)}}, nil
		}},
		Handler{Proc: "container", Name: "createV2", Kind: "notary", Guard: cGuard, Call: cn[3].Handler(), Event: func(e *Env, v Variation) (event.Event, error) {
			b := v.Cnr.Marshal()
			r, err := reqOf(e, v, fschaincontracts.CreateContainerV2Method, ContainerStruct(v.Cnr), sig(v, b), pub(v), []byte{})
			if err != nil {
				return nil, err
			}
			return cntEvent.CreateContainerV2Request{MainTransaction: *r.Req.MainTransaction, Container: *ContainerStruct(v.Cnr), InvocationScript: sig(v, b), VerificationScript: pub(v)}, nil
		}},
		Handler{Proc: "container", Name: "delete", Kind: "notary", Guard: cGuard, Call: cn[4].Handler(), Event: func(e *Env, v Variation) (event.Event, error) {
			id := cnrID(v)
			r, err := reqOf(e, v, cntEvent.DeleteNotaryEvent, id, sig(v, id), []byte{})
			if err != nil {
				return nil, err
			}
			return cntEvent.ParseDeleteNotary(r.Ev)
		}},
		Handler{Proc: "container", Name: "remove", Kind: "notary", Guard: cGuard, Call: cn[5].Handler(), Event: func(e *Env, v Variation) (event.Event, error) {
			id := cnrID(v)
			r, err := reqOf(e, v, fschaincontracts.RemoveContainerMethod, id, sig(v, id), pub(v), []byte{})
			if err != nil {
				return nil, err
			}
			return cntEvent.RemoveContainerRequest{MainTransaction: *r.Req.MainTransaction, RemoveContainerParams: fschaincontracts.RemoveContainerParams{ID: id, InvocationScript: sig(v, id), VerificationScript: pub(v)}}, nil
		}},
		Handler{Proc: "container", Name: "setEACL", Kind: "notary", Guard: cGuard, Call: cn[6].Handler(), Event: func(e *Env, v Variation) (event.Event, error) {
			tb := []byte{v.Salt, 2, 3}
			r, err := reqOf(e, v, cntEvent.SetEACLNotaryEvent, tb, sig(v, tb), pub(v), []byte{})
			if err != nil {
				return nil, err
			}
			return cntEvent.ParseSetEACLNotary(r.Ev)
		}},
		Handler{Proc: "container", Name: "putEACL", Kind: "notary", Guard: cGuard, Call: cn[7].Handler(), Event: func(e *Env, v Variation) (event.Event, error) {
			tb := []byte{v.Salt, 2, 3}
			r, err := reqOf(e, v, fschaincontracts.PutContainerEACLMethod, tb, sig(v, tb), pub(v), []byte{})
			if err != nil {
				return nil, err
			}
			return cntEvent.PutContainerEACLRequest{MainTransaction: *r.Req.MainTransaction, PutContainerEACLParams: fschaincontracts.PutContainerEACLParams{EACL: tb, InvocationScript: sig(v, tb), VerificationScript: pub(v)}}, nil
		}},
		Handler{Proc: "container", Name: "putReport", Kind: "notary", Guard: cGuard, Call: cn[8].Handler(), Event: func(e *Env, v Variation) (event.Event, error) {
			id := cnrID(v)
			r, err := reqOf(e, v, fschaincontracts.PutContainerReportMethod, id, v.Amount, int64(3), pub(v))
			if err != nil {
				return nil, err
			}
			return cntEvent.Report{CID: id, StorageSize: v.Amount, ObjectsNumber: 3, NodeKey: pub(v), NotaryRequest: r.Req}, nil
		}},
		Handler{Proc: "container", Name: "setAttribute", Kind: "notary", Guard: cGuard, Call: cn[9].Handler(), Event: func(e *Env, v Variation) (event.Event, error) {
			id := cnrID(v)
			r, err := reqOf(e, v, fschaincontracts.SetContainerAttributeMethod, id, "k", "v", int64(1<<40), sig(v, id), pub(v), []byte{})
			if err != nil {
				return nil, err
			}
			return cntEvent.SetAttributeRequest{MainTransaction: *r.Req.MainTransaction, ID: id, Attribute: "k", Value: "v", ValidUntil: 1 << 40, InvocationScript: sig(v, id), VerificationScript: pub(v)}, nil
		}},
		Handler{Proc: "container", Name: "removeAttribute", Kind: "notary", Guard: cGuard, Call: cn[10].Handler(), Event: func(e *Env, v Variation) (event.Event, error) {
			id := cnrID(v)
			r, err := reqOf(e, v, fschaincontracts.RemoveContainerAttributeMethod, id, "k", int64(1<<40), sig(v, id), pub(v), []byte{})
			if err != nil {
				return nil, err
			}
			return cntEvent.RemoveAttributeRequest{MainTransaction: *r.Req.MainTransaction, ID: id, Attribute: "k", ValidUntil: 1 << 40, InvocationScript: sig(v, id), VerificationScript: pub(v)}, nil
		}},
	)

	// governance
	gn := e.Governance.ListenerNotificationHandlers()
	if err := errors.Join(want("governance notifications", len(gn), 1), want("governance notary", len(e.Governance.ListenerNotaryHandlers()), 0), want("governance timers", len(e.Governance.TimersHandlers()), 0)); err != nil {
		return nil, err
	}
	hs = append(hs,
		Handler{Proc: "governance", Name: "Designation", Kind: "notification", Guard: "processAlphabetSync: IsAlphabet() first", Call: gn[0].Handler(), Event: func(e *Env, v Variation) (event.Event, error) {
			return rolemanagement.ParseDesignate(Notification(e.Main.GetDesignateHash(), "Designation", txHash(v),
				stackitem.Make(int64(v.Role)), stackitem.Make(v.Epoch), stackitem.NewArray(nil), stackitem.NewArray(nil)))
		}},
		Handler{Proc: "governance", Name: "Sync(from netmap new epoch)", Kind: "internal", Guard: "processAlphabetSync: IsAlphabet() first", Call: e.Governance.HandleAlphabetSync, Event: func(e *Env, v Variation) (event.Event, error) {
			return governance.NewSyncEvent(txHash(v)), nil
		}},
	)

	// neofs (main chain)
	nn := e.NeoFS.ListenerNotificationHandlers()
	if err := errors.Join(want("neofs notifications", len(nn), 4), want("neofs notary", len(e.NeoFS.ListenerNotaryHandlers()), 0), want("neofs timers", len(e.NeoFS.TimersHandlers()), 0)); err != nil {
		return nil, err
	}
	nGuard := "process*: IsAlphabet() first"
	hs = append(hs,
		Handler{Proc: "neofs", Name: "Deposit->mint", Kind: "notification", Guard: nGuard, Call: nn[0].Handler(), Event: func(e *Env, v Variation) (event.Event, error) {
			return neofsEvent.ParseDeposit(Notification(e.C.NeoFS, "Deposit", txHash(v), stackitem.Make(b20(v.Salt)), stackitem.Make(v.Amount), stackitem.Make(b20(v.Salt+3)), stackitem.Make([]byte{v.Salt, 9})))
		}},
		Handler{Proc: "neofs", Name: "Withdraw->lock", Kind: "notification", Guard: nGuard, Call: nn[1].Handler(), Event: func(e *Env, v Variation) (event.Event, error) {
			id := sha256.Sum256([]byte{v.Salt})
			return neofsEvent.ParseWithdraw(Notification(e.C.NeoFS, "Withdraw", txHash(v), stackitem.Make(b20(v.Salt)), stackitem.Make(v.Amount), stackitem.Make(id[:])))
		}},
		Handler{Proc: "neofs", Name: "Cheque->burn", Kind: "notification", Guard: nGuard, Call: nn[2].Handler(), Event: func(e *Env, v Variation) (event.Event, error) {
			return neofsEvent.ParseCheque(Notification(e.C.NeoFS, "Cheque", txHash(v), stackitem.Make([]byte{v.Salt, 7}), stackitem.Make(b20(v.Salt)), stackitem.Make(v.Amount), stackitem.Make(b20(v.Salt+1))))
		}},
		Handler{Proc: "neofs", Name: "SetConfig->setConfig", Kind: "notification", Guard: nGuard, Call: nn[3].Handler(), Event: func(e *Env, v Variation) (event.Event, error) {
			return neofsEvent.ParseConfig(Notification(e.C.NeoFS, "SetConfig", txHash(v), stackitem.Make([]byte{v.Salt}), stackitem.Make([]byte("MaxObjectSize")), stackitem.Make([]byte{v.Salt, 0, 0, 1})))
		}},
	)

	// netmap
	mn := e.Netmap.ListenerNotificationHandlers()
	mh := e.Netmap.ListenerNotaryHandlers()
	if err := errors.Join(want("netmap notifications", len(mn), 1), want("netmap notary", len(mh), 2), want("netmap timers", len(e.Netmap.TimersHandlers()), 0)); err != nil {
		return nil, err
	}
	hs = append(hs,
		Handler{Proc: "netmap", Name: "NewEpoch", Kind: "notification", Guard: "NONE in processNewEpoch (local state update; but also containerWrp.UpdateContainerPlacement when the map changed); alphabet sync and notary deposit sub-handlers are guarded", Call: mn[0].Handler(), Event: newEpoch(e.C.Netmap)},
		Handler{Proc: "netmap", Name: "addNode", Kind: "notary", Guard: "processAddNode: IsAlphabet() first", Call: mh[0].Handler(), Event: func(e *Env, v Variation) (event.Event, error) {
			node := &netmaprpc.NetmapNode2{Addresses: []string{"/ip4/10.0.0.1/tcp/8080"}, Attributes: map[string]string{"Price": "1"}, Key: v.Key.PublicKey(), State: netmaprpc.NodeStateOnline}
			r, err := NewRequest(e.Signers, e.C.Netmap, nmEvent.AddNodeNotaryEvent, v.Nonce, v.VUB, node)
			if err != nil {
				return nil, err
			}
			return nmEvent.ParseAddNodeNotary(r.Ev)
		}},
		Handler{Proc: "netmap", Name: "updateState", Kind: "notary", Guard: "processUpdatePeer: IsAlphabet() first", Call: mh[1].Handler(), Event: func(e *Env, v Variation) (event.Event, error) {
			r, err := NewRequest(e.Signers, e.C.Netmap, nmEvent.UpdateStateNotaryEvent, v.Nonce, v.VUB, int64(1+v.Salt%3), v.Key.PublicKey().Bytes())
			if err != nil {
				return nil, err
			}
			return nmEvent.ParseUpdatePeerNotary(r.Ev)
		}},
		Handler{Proc: "netmap", Name: "epoch timer tick", Kind: "timer", Guard: "processNewEpochTick: IsAlphabet() first", Call: func(event.Event) { e.Netmap.HandleNewEpochTick() }, Event: func(*Env, Variation) (event.Event, error) { return nil, nil }},
	)

	// reputation
	rh := e.Reputation.ListenerNotaryHandlers()
	if err := errors.Join(want("reputation notary", len(rh), 1), want("reputation notifications", len(e.Reputation.ListenerNotificationHandlers()), 0), want("reputation timers", len(e.Reputation.TimersHandlers()), 0)); err != nil {
		return nil, err
	}
	hs = append(hs, Handler{Proc: "reputation", Name: "put", Kind: "notary", Guard: "processPut: IsAlphabet() first", Call: rh[0].Handler(), Event: func(e *Env, v Variation) (event.Event, error) {
		var gt reputation.GlobalTrust
		gt.Init()
		var mgr, peer reputation.PeerID
		mgr.SetPublicKey(v.Owner.PublicKey().Bytes())
		peer.SetPublicKey(v.Key.PublicKey().Bytes())
		gt.SetManager(mgr)
		var tr reputation.Trust
		tr.SetPeer(peer)
		tr.SetValue(0.5)
		gt.SetTrust(tr)
		if err := gt.Sign(neofsecdsa.Signer(v.Owner.PrivateKey)); err != nil {
			return nil, err
		}
		r, err := NewRequest(e.Signers, e.C.Reputation, repEvent.PutNotaryEvent, v.Nonce, v.VUB, int64(v.Epoch), v.Key.PublicKey().Bytes(), gt.Marshal())
		if err != nil {
			return nil, err
		}
		return repEvent.ParsePutNotary(r.Ev)
	}})

	// settlement (timer, synchronous)
	hs = append(hs, Handler{Proc: "settlement", Name: "basic income timer", Kind: "timer", Guard: "HandleBasicIncomeEvent: IsAlphabet() first", Call: e.Settlement.HandleBasicIncomeEvent, Event: func(e *Env, v Variation) (event.Event, error) {
		return settlement.NewBasicIncomeEvent(v.Epoch), nil
	}})
	return hs, nil
}

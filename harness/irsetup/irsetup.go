// Package irsetup builds the inner-ring processors (alphabet, balance,
// container, governance, neofs, netmap, reputation, settlement) with their
// public constructors on top of real morph clients that talk to a neoproxy
// endpoint, plus the table of every registered handler / timer action with a
// generator of a well-formed event for it. Used by the C35/C37/C38 harnesses.
package irsetup

import (
	"errors"
	"fmt"

	"github.com/nspcc-dev/neo-go/pkg/core/state"
	"github.com/nspcc-dev/neo-go/pkg/core/transaction"
	"github.com/nspcc-dev/neo-go/pkg/crypto/hash"
	"github.com/nspcc-dev/neo-go/pkg/crypto/keys"
	"github.com/nspcc-dev/neo-go/pkg/network/payload"
	"github.com/nspcc-dev/neo-go/pkg/smartcontract"
	"github.com/nspcc-dev/neo-go/pkg/smartcontract/scparser"
	"github.com/nspcc-dev/neo-go/pkg/util"
	"github.com/nspcc-dev/neo-go/pkg/vm/opcode"
	"github.com/nspcc-dev/neo-go/pkg/vm/stackitem"
	"github.com/nspcc-dev/neofs-node/pkg/morph/event"
)

// NotaryEv is a harness implementation of event.NotaryEvent: what the notary
// preparator hands to the processors' parsers for one contract call of the
// main transaction.
type NotaryEv struct {
	Contract util.Uint160
	Method   string
	Args     []scparser.PushedItem
	Req      *payload.P2PNotaryRequest
}

func (e NotaryEv) ScriptHash() util.Uint160       { return e.Contract }
func (e NotaryEv) Type() event.NotaryType         { return event.NotaryTypeFromString(e.Method) }
func (e NotaryEv) Params() []scparser.PushedItem  { return e.Args }
func (e NotaryEv) Raw() *payload.P2PNotaryRequest { return e.Req }

// Request is a notary request as a client (storage node / user) would have
// sent it: main transaction calling contract.method(args) with the usual
// signer layout (proxy, alphabet multisig, invoker, notary) and a fallback.
type Request struct {
	Ev  NotaryEv
	Req *payload.P2PNotaryRequest
}

// MainTxSigners describes the accounts of the main transaction.
type MainTxSigners struct {
	Proxy    util.Uint160
	Alphabet keys.PublicKeys
	Invoker  *keys.PrivateKey
	Notary   util.Uint160
	Magic    uint32
}

// NewRequest builds the main transaction script with neo-go's script builder
// (the same encoding the morph client / neofs-contract RPC bindings produce),
// parses it back with scparser exactly like the notary preparator, and wraps it
// into a P2PNotaryRequest.
func NewRequest(s MainTxSigners, contract util.Uint160, method string, nonce, vub uint32, args ...any) (Request, error) {
	script, err := smartcontract.CreateCallScript(contract, method, args...)
	if err != nil {
		return Request{}, fmt.Errorf("build script: %w", err)
	}
	ctx := scparser.NewContext(script, 0)
	sh, m, _, params, err := scparser.GetAppCallFromContext(ctx)
	if err != nil {
		return Request{}, fmt.Errorf("parse script back: %w", err)
	}
	if sh != contract || m != method {
		return Request{}, errors.New("script round trip mismatch")
	}

	multi, err := smartcontract.CreateDefaultMultiSigRedeemScript(s.Alphabet)
	if err != nil {
		return Request{}, err
	}
	alphaAcc := hash160(multi)
	invAcc := s.Invoker.GetScriptHash()
	tx := transaction.New(script, 1_0000_0000)
	tx.Nonce = nonce
	tx.ValidUntilBlock = vub
	tx.NetworkFee = 1_0000_0000
	tx.Signers = []transaction.Signer{
		{Account: s.Proxy, Scopes: transaction.None},
		{Account: alphaAcc, Scopes: transaction.Global},
		{Account: invAcc, Scopes: transaction.Global},
		{Account: s.Notary, Scopes: transaction.None},
	}
	tx.Attributes = []transaction.Attribute{{Type: transaction.NotaryAssistedT, Value: &transaction.NotaryAssisted{NKeys: uint8(len(s.Alphabet) + 1)}}}
	dummy := make([]byte, 66)
	dummy[0], dummy[1] = byte(opcode.PUSHDATA1), 64
	tx.Scripts = []transaction.Witness{
		{InvocationScript: []byte{}, VerificationScript: []byte{}},
		{InvocationScript: dummy, VerificationScript: multi},
		{InvocationScript: s.Invoker.SignHashable(s.Magic, tx), VerificationScript: s.Invoker.PublicKey().GetVerificationScript()},
		{InvocationScript: dummy, VerificationScript: []byte{}},
	}
	tx.Scripts[2].InvocationScript = append([]byte{byte(opcode.PUSHDATA1), 64}, tx.Scripts[2].InvocationScript...)

	fb := transaction.New([]byte{byte(opcode.RET)}, 0)
	fb.Nonce = nonce
	fb.ValidUntilBlock = vub
	fb.Signers = []transaction.Signer{{Account: s.Notary, Scopes: transaction.None}, {Account: invAcc, Scopes: transaction.None}}
	fb.Attributes = []transaction.Attribute{
		{Type: transaction.NotaryAssistedT, Value: &transaction.NotaryAssisted{NKeys: 0}},
		{Type: transaction.NotValidBeforeT, Value: &transaction.NotValidBefore{Height: vub - 1}},
		{Type: transaction.ConflictsT, Value: &transaction.Conflicts{Hash: tx.Hash()}},
	}
	fb.Scripts = []transaction.Witness{
		{InvocationScript: dummy, VerificationScript: []byte{}},
		{InvocationScript: append([]byte{byte(opcode.PUSHDATA1), 64}, s.Invoker.SignHashable(s.Magic, fb)...), VerificationScript: s.Invoker.PublicKey().GetVerificationScript()},
	}
	req := &payload.P2PNotaryRequest{MainTransaction: tx, FallbackTransaction: fb}
	req.Witness = transaction.Witness{
		InvocationScript:   append([]byte{byte(opcode.PUSHDATA1), 64}, s.Invoker.SignHashable(s.Magic, req)...),
		VerificationScript: s.Invoker.PublicKey().GetVerificationScript(),
	}
	ne := NotaryEv{Contract: contract, Method: method, Args: params, Req: req}
	return Request{Ev: ne, Req: req}, nil
}

func hash160(b []byte) util.Uint160 { return hash.Hash160(b) }

// Notification builds a contract notification as the listener receives it.
func Notification(contract util.Uint160, name string, tx util.Uint256, items ...stackitem.Item) *state.ContainedNotificationEvent {
	return &state.ContainedNotificationEvent{
		Container: tx,
		NotificationEvent: state.NotificationEvent{
			ScriptHash: contract,
			Name:       name,
			Item:       stackitem.NewArray(items),
		},
	}
}

package objsrv

import "pgregory.net/rapid"

var xHeaderPool = [][2]string{{"x-tag", "a"}, {"x-tag", "b"}, {"Content-Type", "text/plain"}, {DenyXHeaderKey, "no"}, {DenyXHeaderKey, DenyXHeaderValue}}

var searchKeyPool = []string{"class", "n", "FileName", "Timestamp"}

// GenSpec draws a raw request description. defects lists the defect classes to
// choose from (uniformly); pass only DefNone for valid requests. The result is
// already normalised.
func GenSpec(t *rapid.T, defects []Defect) Spec {
	var s Spec
	s.Defect = drawDefect(t, defects)
	ops := make([]Op, 0, NumOps)
	for op := Op(0); op < NumOps; op++ {
		if Applicable(op, s.Defect) {
			ops = append(ops, op)
		}
	}
	s.Op = rapid.SampledFrom(ops).Draw(t, "op")
	s.Cnr = rapid.IntRange(0, NumContainers-1).Draw(t, "cnr")
	s.Obj = rapid.IntRange(0, NumObjIndexes-1).Draw(t, "obj")
	s.Requester = rapid.IntRange(IDOwner, IDOther).Draw(t, "requester")
	s.Scheme = rapid.SampledFrom([]int{SchemeSHA512, SchemeSHA512, SchemeRFC6979, SchemeWalletConnect, SchemeN3}).Draw(t, "scheme")
	s.Version = rapid.IntRange(0, len(Versions)-1).Draw(t, "version")
	s.TTL = uint32(rapid.IntRange(1, 3).Draw(t, "ttl"))
	s.XHeaders = rapid.SliceOfN(rapid.SampledFrom(xHeaderPool), 0, 2).Draw(t, "xheaders")
	s.Trusted = rapid.IntRange(0, 5).Draw(t, "trusted") == 0
	s.Late = rapid.IntRange(0, 2).Draw(t, "late") == 0
	s.TLSPeer = rapid.IntRange(0, 2).Draw(t, "tlsPeer") != 0 && (s.Defect.IsSignature() || rapid.Bool().Draw(t, "tlsPeerOther"))
	s.DefectArg = rapid.IntRange(0, 400).Draw(t, "defectArg")
	s.ForgeKind = rapid.IntRange(0, 3).Draw(t, "forgeKind")
	s.Session = rapid.SampledFrom([]int{SessionNone, SessionNone, SessionV1, SessionV2}).Draw(t, "session")
	s.SessionBindObj = rapid.Bool().Draw(t, "sessionBindObj")
	s.Bearer = rapid.IntRange(0, 3).Draw(t, "bearer") == 0
	s.BearerForUser = rapid.Bool().Draw(t, "bearerForUser")
	switch s.Op {
	case OpGet:
		s.Raw = rapid.Bool().Draw(t, "raw")
		s.PayloadOnly = rapid.Bool().Draw(t, "payloadOnly")
		s.RangeKind = rapid.IntRange(0, NumRangeKinds-1).Draw(t, "rangeKind")
		s.RangeOff = uint64(rapid.IntRange(0, 800).Draw(t, "rangeOff"))
		s.RangeLen = uint64(rapid.IntRange(0, 800).Draw(t, "rangeLen"))
	case OpHead:
		s.Raw = rapid.Bool().Draw(t, "raw")
	case OpRange:
		s.Raw = rapid.Bool().Draw(t, "raw")
		s.RangeOff = uint64(rapid.IntRange(0, 800).Draw(t, "rangeOff"))
		s.RangeLen = uint64(rapid.IntRange(0, 800).Draw(t, "rangeLen"))
	case OpSearch:
		s.SearchCount = uint32(rapid.IntRange(1, 50).Draw(t, "searchCount"))
		n := rapid.IntRange(0, 2).Draw(t, "searchFilters")
		for i := range n {
			s.SearchFilters = append(s.SearchFilters, [2]string{searchKeyPool[(i+s.DefectArg)%len(searchKeyPool)],
				rapid.SampledFrom([]string{"plain", "secret", "1", ""}).Draw(t, "filterValue")})
		}
		s.SearchAttrs = rapid.IntRange(0, n).Draw(t, "searchAttrs")
	case OpPut:
		s.PutPayload = rapid.SliceOfN(rapid.Byte(), 0, 200).Draw(t, "putPayload")
		s.PutChunks = rapid.IntRange(0, 3).Draw(t, "putChunks")
		s.PutAttr = rapid.SampledFrom([]string{"", "x", "secret"}).Draw(t, "putAttr")
		s.PutTombstone = rapid.IntRange(0, 4).Draw(t, "putTombstone") == 0
	}
	// Focus on the rare interesting corner: Others reading from the container
	// with the stored eACL through the server whose ACL checker cannot see
	// object headers at request time (header-time eACL evaluation).
	if (s.Defect == DefNone || s.Defect == DefEACLHeader) && (s.Op == OpGet || s.Op == OpHead) &&
		rapid.IntRange(0, 3).Draw(t, "focusHeaderTime") == 0 {
		s.Cnr, s.Requester, s.Session, s.Bearer = CnrEACL, IDOther, SessionNone, false
		if s.Scheme == SchemeN3 {
			s.Scheme = SchemeSHA512
		}
		if s.Defect == DefNone && rapid.Bool().Draw(t, "focusRemote") {
			// ... or the object lives on the other container node (proxy path)
			s.Obj, s.Late, s.Trusted = ObjRemotePlain, false, false
			if s.TTL < 2 {
				s.TTL = 2
			}
		} else {
			s.Late = true
		}
	}
	return Normalize(s)
}

// drawDefect picks a defect class: first a group (authenticity, session,
// bearer, access), then a member, so that small groups are not starved.
func drawDefect(t *rapid.T, defects []Defect) Defect {
	if len(defects) == 1 {
		return defects[0]
	}
	var groups [][]Defect
	add := func(f func(Defect) bool) {
		var g []Defect
		for _, d := range defects {
			if f(d) {
				g = append(g, d)
			}
		}
		if len(g) > 0 {
			groups = append(groups, g)
		}
	}
	add(Defect.IsSignature)
	add(Defect.IsSession)
	add(Defect.IsBearer)
	add(Defect.IsACL)
	add(func(d Defect) bool { return d == DefNone })
	g := groups[rapid.IntRange(0, len(groups)-1).Draw(t, "defectGroup")]
	return g[rapid.IntRange(0, len(g)-1).Draw(t, "defect")]
}

// AllDefects returns every defect class except DefNone.
func AllDefects() []Defect {
	res := make([]Defect, 0, NumDefects-1)
	for d := DefNone + 1; d < NumDefects; d++ {
		res = append(res, d)
	}
	return res
}

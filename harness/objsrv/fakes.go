package objsrv

import (
	"bytes"
	"context"
	"crypto/ecdsa"
	"errors"
	"math"
	"slices"
	"sync"
	"sync/atomic"
	"time"

	"github.com/nspcc-dev/neo-go/pkg/core/block"
	"github.com/nspcc-dev/neo-go/pkg/core/transaction"
	"github.com/nspcc-dev/neo-go/pkg/neorpc/result"
	"github.com/nspcc-dev/neo-go/pkg/smartcontract/trigger"
	"github.com/nspcc-dev/neo-go/pkg/util"
	"github.com/nspcc-dev/neo-go/pkg/vm/stackitem"
	iec "github.com/nspcc-dev/neofs-node/internal/ec"
	clientcore "github.com/nspcc-dev/neofs-node/pkg/core/client"
	objectcore "github.com/nspcc-dev/neofs-node/pkg/core/object"
	aclsvc "github.com/nspcc-dev/neofs-node/pkg/services/object/acl/v2"
	"github.com/nspcc-dev/neofs-node/pkg/services/object/common"
	deletesvc "github.com/nspcc-dev/neofs-node/pkg/services/object/delete"
	getsvc "github.com/nspcc-dev/neofs-node/pkg/services/object/get"
	putsvc "github.com/nspcc-dev/neofs-node/pkg/services/object/put"
	statesession "github.com/nspcc-dev/neofs-node/pkg/util/state/session"
	"github.com/nspcc-dev/neofs-sdk-go/bearer"
	"github.com/nspcc-dev/neofs-sdk-go/client"
	apistatus "github.com/nspcc-dev/neofs-sdk-go/client/status"
	"github.com/nspcc-dev/neofs-sdk-go/container"
	"github.com/nspcc-dev/neofs-sdk-go/container/acl"
	cid "github.com/nspcc-dev/neofs-sdk-go/container/id"
	"github.com/nspcc-dev/neofs-sdk-go/eacl"
	"github.com/nspcc-dev/neofs-sdk-go/netmap"
	"github.com/nspcc-dev/neofs-sdk-go/object"
	oid "github.com/nspcc-dev/neofs-sdk-go/object/id"
	protoacl "github.com/nspcc-dev/neofs-sdk-go/proto/acl"
	protoobject "github.com/nspcc-dev/neofs-sdk-go/proto/object"
	protosession "github.com/nspcc-dev/neofs-sdk-go/proto/session"
	"github.com/nspcc-dev/neofs-sdk-go/session"
	sessionv2 "github.com/nspcc-dev/neofs-sdk-go/session/v2"
	"github.com/nspcc-dev/neofs-sdk-go/stat"
	"github.com/nspcc-dev/neofs-sdk-go/user"
)

// N3OKScript is the invocation script the fake chain accepts for N3 signatures.
var N3OKScript = []byte{0x11} // PUSH1

// chain implements object.FSChain, aclsvc.FSChain, aclsvc.Netmapper,
// aclsvc.InnerRingFetcher, aclsvc.TimeProvider, container / eACL sources,
// getsvc.NeoFSNetwork and putsvc.NeoFSNetwork over the fixed universe.
type chain struct {
	u           *Universe
	log         *Log
	maintenance atomic.Bool
}

func (c *chain) cnr(id cid.ID) *Cnr {
	for _, x := range c.u.Cnrs {
		if x.ID == id {
			return x
		}
	}
	return nil
}

func (c *chain) Get(id cid.ID) (container.Container, error) {
	if x := c.cnr(id); x != nil {
		return x.Cnr, nil
	}
	return container.Container{}, apistatus.ErrContainerNotFound
}

func (c *chain) GetEACL(id cid.ID) (eacl.Table, error) {
	if x := c.cnr(id); x != nil && x.HasEACL {
		return x.EACL, nil
	}
	return eacl.Table{}, apistatus.ErrEACLNotFound
}

func (c *chain) CurrentEpoch() uint64         { return Epoch }
func (c *chain) CurrentBlock() uint32         { return Epoch * EpochDuration }
func (c *chain) CurrentEpochDuration() uint64 { return EpochDuration }
func (c *chain) Epoch() (uint64, error)       { return Epoch, nil }
func (c *chain) Now() time.Time               { return ChainTime }
func (c *chain) InnerRingKeys() [][]byte      { return [][]byte{c.u.IR.Pub} }

func (c *chain) GetNetMapByEpoch(uint64) (*netmap.NetMap, error) { return c.NetMap() }
func (c *chain) NetMap() (*netmap.NetMap, error) {
	var nm netmap.NetMap
	nm.SetEpoch(Epoch)
	nm.SetNodes(c.u.NodeInfo[:])
	return &nm, nil
}
func (c *chain) GetEpochBlock(epoch uint64) (uint32, error) {
	return uint32(epoch * EpochDuration), nil
}
func (c *chain) GetEpochBlockByTime(uint32) (uint32, error)      { return Epoch * EpochDuration, nil }
func (c *chain) ServerInContainer(cid.ID) (bool, error)          { return true, nil }
func (c *chain) HasUserInNNS(string, util.Uint160) (bool, error) { return false, nil }

// InvokeContainedScript "runs" an N3 witness: accepted iff the script starts
// with N3OKScript followed by the first 8 bytes of the signed data hash. Logged as the signature-verification check.
func (c *chain) InvokeContainedScript(tx *transaction.Transaction, _ *block.Header, _ *trigger.Type, _ *bool) (*result.Invoke, error) {
	h := tx.Hash().BytesBE()
	ok := bytes.HasPrefix(tx.Script, append(slices.Clone(N3OKScript), h[:8]...))
	c.log.Add(KindCheck, "sig-n3", ok)
	return &result.Invoke{State: "HALT", Stack: []stackitem.Item{stackitem.NewBool(ok)}}, nil
}

func (c *chain) containerKeys() [][]byte {
	return [][]byte{c.u.Node.Pub, c.u.Remote.Pub, c.u.CnrNode.Pub}
}

func (c *chain) ForEachContainerNodePublicKey(id cid.ID, f func([]byte) bool) error {
	if c.cnr(id) == nil {
		return apistatus.ErrContainerNotFound
	}
	for _, k := range c.containerKeys() {
		if !f(k) {
			return nil
		}
	}
	return nil
}

func (c *chain) ForEachContainerNodePublicKeyInLastTwoEpochs(id cid.ID, f func([]byte) bool) error {
	return c.ForEachContainerNodePublicKey(id, f)
}

func (c *chain) InContainerInLastTwoEpochs(_ cid.ID, pub []byte) (bool, error) {
	for _, k := range c.containerKeys() {
		if bytes.Equal(k, pub) {
			return true, nil
		}
	}
	return false, nil
}

func (c *chain) SelectContainerNodes(id cid.ID) ([][]netmap.NodeInfo, []uint, []iec.Rule, error) {
	if c.cnr(id) == nil {
		return nil, nil, nil, apistatus.ErrContainerNotFound
	}
	return [][]netmap.NodeInfo{c.u.NodeInfo[:]}, []uint{1}, nil, nil
}

func (c *chain) GetNodesForObject(a oid.Address) ([][]netmap.NodeInfo, []uint, []iec.Rule, error) {
	return c.SelectContainerNodes(a.Container())
}

func (c *chain) IsOwnPublicKey(pub []byte) bool       { return bytes.Equal(pub, c.u.Node.Pub) }
func (c *chain) IsLocalNodePublicKey(pub []byte) bool { return c.IsOwnPublicKey(pub) }

func (c *chain) LocalNodeUnderMaintenance() bool {
	m := c.maintenance.Load()
	c.log.Add(KindCheck, "maintenance", m)
	return m
}

type cnrNodes struct{ c *chain }

func (x cnrNodes) Unsorted() [][]netmap.NodeInfo { return [][]netmap.NodeInfo{x.c.u.NodeInfo[:]} }
func (x cnrNodes) SortForObject(oid.ID) ([][]netmap.NodeInfo, error) {
	return [][]netmap.NodeInfo{x.c.u.NodeInfo[:]}, nil
}
func (x cnrNodes) PrimaryCounts() []uint { return []uint{1} }
func (x cnrNodes) ECRules() []iec.Rule   { return nil }

// putNet adapts chain to putsvc.NeoFSNetwork (method set clashes with getsvc's otherwise).
type putNet struct{ *chain }

func (p putNet) GetContainerNodes(id cid.ID) (putsvc.ContainerNodes, error) {
	if p.cnr(id) == nil {
		return nil, apistatus.ErrContainerNotFound
	}
	return cnrNodes{p.chain}, nil
}

// headerSource is the remote header source of the eACL checker.
type headerSource struct{ log *Log }

func (h headerSource) Head(_ context.Context, a oid.Address) (*object.Object, error) {
	h.log.Add(KindACLRead, "acl.header-source.Head", a)
	return nil, errors.New("verif: header source has no network")
}

// storage implements object.Storage.
type storage struct {
	log *Log
	u   *Universe
}

func (s storage) GetSessionPrivateKey(user.ID) (ecdsa.PrivateKey, error) {
	s.log.Add(KindNeutral, "storage.GetSessionPrivateKey")
	return ecdsa.PrivateKey{}, apistatus.ErrSessionTokenNotFound
}

func (s storage) GetSessionV2PrivateKey([]sessionv2.Target) (ecdsa.PrivateKey, error) {
	s.log.Add(KindNeutral, "storage.GetSessionV2PrivateKey")
	return ecdsa.PrivateKey{}, apistatus.ErrSessionTokenNotFound
}

func (s storage) VerifyAndStoreObjectLocally(_ context.Context, o object.Object) error {
	s.log.Add(KindEffect, "storage.VerifyAndStoreObjectLocally", o.GetID())
	return nil
}

func (s storage) SearchObjects(_ context.Context, c cid.ID, _ []objectcore.SearchFilter, attrs []string, _ *objectcore.SearchCursor, n uint16) ([]client.SearchResultItem, []byte, error) {
	s.log.Add(KindEffect, "storage.SearchObjects", c)
	item := client.SearchResultItem{ID: oid.ID{1}}
	for range attrs {
		item.Attributes = append(item.Attributes, "v")
	}
	return []client.SearchResultItem{item}, nil, nil
}

// clients implements the ClientConstructor interfaces: every dial is an effect and is refused.
type clients struct {
	log    *Log
	remote *remoteNode
}

func (c clients) Get(_ context.Context, n netmap.NodeInfo) (clientcore.MultiAddressClient, error) {
	c.log.Add(KindEffect, "remote.dial", n.PublicKey()[:4])
	if c.remote != nil && bytes.Equal(n.PublicKey(), c.remote.u.Remote.Pub) {
		return remoteClient{c.remote}, nil
	}
	return nil, errors.New("verif: no network")
}

// transport implements putsvc.Transport.
type transport struct{ log *Log }

func (t transport) SendReplicationRequestToNode(_ context.Context, _ []byte, n netmap.NodeInfo) ([]byte, error) {
	t.log.Add(KindEffect, "remote.replicate", n.PublicKey()[:4])
	return nil, errors.New("verif: no network")
}

// payments implements putsvc.PaymentChecker; it is the first dependency touched by
// putsvc.Streamer.Init, so its call marks "the PUT target was initialised".
type payments struct{ log *Log }

func (p payments) UnpaidSince(c cid.ID) (int64, error) {
	p.log.Add(KindEffect, "put.init", c)
	return -1, nil
}

type quotas struct{}

func (quotas) AvailableQuotasLeft(cid.ID, user.ID) (uint64, uint64, error) {
	return math.MaxUint64, math.MaxUint64, nil
}

type maxSize struct{}

func (maxSize) MaxObjectSize() uint64 { return MaxObjectSize }

// putStore implements putsvc.ObjectStorage.
type putStore struct {
	log *Log
	mu  sync.Mutex
	n   int
}

func (s *putStore) Put(_ context.Context, o *object.Object, _ []byte) error {
	s.log.Add(KindEffect, "put.store", o.GetID(), " len=", len(o.Payload()))
	s.mu.Lock()
	s.n++
	s.mu.Unlock()
	return nil
}

func (s *putStore) IsLocked(context.Context, oid.Address) (bool, error) { return false, nil }

type nopSplitVerifier struct{}

func (nopSplitVerifier) VerifySplit(context.Context, cid.ID, oid.ID, []object.MeasuredObject) error {
	return nil
}

type nopTombVerifier struct{}

func (nopTombVerifier) VerifyTombStoneWithoutPayload(context.Context, object.Object) error {
	return nil
}

type nopPostPlacement struct{}

func (nopPostPlacement) HandlePostPlacement(*object.Object, []netmap.NodeInfo) {}

type noSessions struct{}

func (noSessions) GetToken(user.ID) *statesession.PrivateToken                       { return nil }
func (noSessions) FindTokenBySubjects([]sessionv2.Target) *statesession.PrivateToken { return nil }

// handlers implements object.Handlers like cmd/neofs-node's objectSvc, logging every call.
type handlers struct {
	log *Log
	get *getsvc.Service
	put *putsvc.Service
}

func (h *handlers) Get(ctx context.Context, p getsvc.Prm) error {
	h.log.Add(KindEffect, "handler.Get")
	return h.get.Get(ctx, p)
}

func (h *handlers) Head(ctx context.Context, p getsvc.HeadPrm) error {
	h.log.Add(KindEffect, "handler.Head")
	return h.get.Head(ctx, p)
}

func (h *handlers) GetRange(ctx context.Context, p getsvc.RangePrm) error {
	h.log.Add(KindEffect, "handler.GetRange")
	return h.get.GetRange(ctx, p)
}

func (h *handlers) Delete(context.Context, deletesvc.Prm) error {
	h.log.Add(KindEffect, "handler.Delete")
	return nil
}

// Put only allocates the streamer (the server calls it before reading the first message).
func (h *handlers) Put(ctx context.Context) (*putsvc.Streamer, error) {
	h.log.Add(KindNeutral, "handler.Put(open)")
	return h.put.Put(ctx)
}

// extractor wraps the real aclsvc.Service and logs every call with its outcome.
type extractor struct {
	log *Log
	svc aclsvc.Service
}

func res(err error) string {
	if err == nil {
		return "ok"
	}
	return "err: " + err.Error()
}

func (x extractor) PutRequestToInfo(ctx context.Context, r *protoobject.PutRequest, in *protoobject.PutRequest_Body_Init, c cid.ID, op acl.Op, t common.RequestTokens) (aclsvc.RequestInfo, user.ID, error) {
	i, o, err := x.svc.PutRequestToInfo(ctx, r, in, c, op, t)
	x.log.Add(KindCheck, "reqinfo", res(err))
	return i, o, err
}
func (x extractor) DeleteRequestToInfo(ctx context.Context, r *protoobject.DeleteRequest, c cid.ID, t common.RequestTokens) (aclsvc.RequestInfo, error) {
	i, err := x.svc.DeleteRequestToInfo(ctx, r, c, t)
	x.log.Add(KindCheck, "reqinfo", res(err))
	return i, err
}
func (x extractor) HeadRequestToInfo(ctx context.Context, r *protoobject.HeadRequest, c cid.ID, t common.RequestTokens) (aclsvc.RequestInfo, error) {
	i, err := x.svc.HeadRequestToInfo(ctx, r, c, t)
	x.log.Add(KindCheck, "reqinfo", res(err))
	return i, err
}
func (x extractor) GetRequestToInfo(ctx context.Context, r *protoobject.GetRequest, c cid.ID, t common.RequestTokens) (aclsvc.RequestInfo, error) {
	i, err := x.svc.GetRequestToInfo(ctx, r, c, t)
	x.log.Add(KindCheck, "reqinfo", res(err))
	return i, err
}
func (x extractor) RangeRequestToInfo(ctx context.Context, r *protoobject.GetRangeRequest, c cid.ID, t common.RequestTokens) (aclsvc.RequestInfo, error) {
	i, err := x.svc.RangeRequestToInfo(ctx, r, c, t)
	x.log.Add(KindCheck, "reqinfo", res(err))
	return i, err
}
func (x extractor) SearchV2RequestToInfo(ctx context.Context, r *protoobject.SearchV2Request, c cid.ID, t common.RequestTokens) (aclsvc.RequestInfo, error) {
	i, err := x.svc.SearchV2RequestToInfo(ctx, r, c, t)
	x.log.Add(KindCheck, "reqinfo", res(err))
	return i, err
}
func (x extractor) VerifySessionTokenMessage(m *protosession.SessionTokenV2, v sessionv2.Verb, c cid.ID) (sessionv2.Token, error) {
	t, err := x.svc.VerifySessionTokenMessage(m, v, c)
	x.log.Add(KindCheck, "token.session-v2", res(err))
	return t, err
}
func (x extractor) VerifySessionV1TokenMessage(m *protosession.SessionToken, v session.ObjectVerb, c cid.ID, o oid.ID) (session.Object, error) {
	t, err := x.svc.VerifySessionV1TokenMessage(m, v, c, o)
	x.log.Add(KindCheck, "token.session-v1", res(err))
	return t, err
}
func (x extractor) VerifyBearerTokenMessage(m *protoacl.BearerToken) (bearer.Token, error) {
	t, err := x.svc.VerifyBearerTokenMessage(m)
	x.log.Add(KindCheck, "token.bearer", res(err))
	return t, err
}

// checker wraps the real ACL checker and logs every decision.
type checker struct {
	log *Log
	c   aclsvc.ACLChecker
}

func (x checker) CheckBasicACL(i aclsvc.RequestInfo) bool {
	ok := x.c.CheckBasicACL(i)
	x.log.Add(KindCheck, "basic-acl", ok)
	return ok
}

func (x checker) StickyBitCheck(i aclsvc.RequestInfo, o user.ID) bool {
	ok := x.c.StickyBitCheck(i, o)
	x.log.Add(KindCheck, "sticky", ok)
	return ok
}

func (x checker) CheckEACL(ctx context.Context, msg any, c cid.ID, o oid.ID, i aclsvc.RequestInfo) error {
	what := "eacl-header"
	if _, ok := msg.(interface {
		GetVerifyHeader() *protosession.RequestVerificationHeader
	}); ok {
		what = "eacl-request"
	}
	x.log.enterACL()
	err := x.c.CheckEACL(ctx, msg, c, o, i)
	x.log.leaveACL()
	x.log.Add(KindCheck, what, res(err))
	return err
}

// engineMetrics implements engine.MetricRegister: every engine operation becomes an event.
type engineMetrics struct {
	log  *Log
	name string // "store" for the data engine, "emptystore" for the ACL-only engine
}

func (m engineMetrics) op(what string) { m.log.Add(m.log.storeKind(), m.name+"."+what) }

func (m engineMetrics) AddListContainersDuration(time.Duration)        { m.op("ListContainers") }
func (m engineMetrics) AddEstimateContainerSizeDuration(time.Duration) { m.op("EstimateContainerSize") }
func (m engineMetrics) AddDeleteDuration(time.Duration)                { m.op("Delete") }
func (m engineMetrics) AddDropDuration(time.Duration)                  { m.op("Drop") }
func (m engineMetrics) AddExistsDuration(time.Duration)                { m.op("Exists") }
func (m engineMetrics) AddGetDuration(time.Duration)                   { m.op("Get") }
func (m engineMetrics) AddHeadDuration(time.Duration)                  { m.op("Head") }
func (m engineMetrics) AddReadHeaderDuration(time.Duration)            { m.op("ReadHeader") }
func (m engineMetrics) AddReadObjectDuration(time.Duration)            { m.op("ReadObject") }
func (m engineMetrics) AddReadPayloadRangeDuration(time.Duration)      { m.op("ReadPayloadRange") }
func (m engineMetrics) AddGetStreamDuration(time.Duration)             { m.op("GetStream") }
func (m engineMetrics) AddGetRangeStreamDuration(time.Duration)        { m.op("GetRangeStream") }
func (m engineMetrics) AddInhumeDuration(time.Duration)                { m.op("Inhume") }
func (m engineMetrics) AddPutDuration(time.Duration)                   { m.op("Put") }
func (m engineMetrics) AddRangeDuration(time.Duration)                 { m.op("Range") }
func (m engineMetrics) AddSearchDuration(time.Duration)                { m.op("Search") }
func (m engineMetrics) AddListObjectsDuration(time.Duration)           { m.op("ListObjects") }
func (m engineMetrics) AddGetECPartDuration(time.Duration)             { m.op("GetECPart") }
func (m engineMetrics) AddReadECPartDuration(time.Duration)            { m.op("ReadECPart") }
func (m engineMetrics) AddGetECPartRangeDuration(time.Duration)        { m.op("GetECPartRange") }
func (m engineMetrics) AddHeadECPartDuration(time.Duration)            { m.op("HeadECPart") }
func (m engineMetrics) AddReadECPartHeaderDuration(time.Duration)      { m.op("ReadECPartHeader") }
func (m engineMetrics) AddReadECPartRangeDuration(time.Duration)       { m.op("ReadECPartRange") }
func (engineMetrics) SetObjectCounter(string, string, uint64)          {}
func (engineMetrics) AddToObjectCounter(string, string, int)           {}
func (engineMetrics) SetReadonly(string, bool)                         {}
func (engineMetrics) AddToContainerSize(string, int64)                 {}
func (engineMetrics) AddToPayloadCounter(string, int64)                {}

// srvMetrics implements object.MetricCollector.
type srvMetrics struct{}

func (srvMetrics) HandleOpExecResult(stat.Method, bool, time.Duration) {}
func (srvMetrics) AddPutPayload(int)                                   {}
func (srvMetrics) AddGetPayload(int)                                   {}

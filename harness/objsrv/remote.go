package objsrv

import (
	"context"
	"errors"
	"fmt"
	"io"
	"net"

	"github.com/nspcc-dev/neofs-sdk-go/client"
	apistatus "github.com/nspcc-dev/neofs-sdk-go/client/status"
	cid "github.com/nspcc-dev/neofs-sdk-go/container/id"
	neofscrypto "github.com/nspcc-dev/neofs-sdk-go/crypto"
	"github.com/nspcc-dev/neofs-sdk-go/object"
	oid "github.com/nspcc-dev/neofs-sdk-go/object/id"
	protoobject "github.com/nspcc-dev/neofs-sdk-go/proto/object"
	iprotobuf "github.com/nspcc-dev/neofs-sdk-go/proto/protobuf"
	"github.com/nspcc-dev/neofs-sdk-go/proto/refs"
	protosession "github.com/nspcc-dev/neofs-sdk-go/proto/session"
	"github.com/nspcc-dev/neofs-sdk-go/reputation"
	"github.com/nspcc-dev/neofs-sdk-go/user"
	"github.com/nspcc-dev/neofs-sdk-go/version"
	"google.golang.org/grpc"
	"google.golang.org/grpc/credentials/insecure"
	"google.golang.org/grpc/test/bufconn"
)

// remoteNode is the other container node: an in-process gRPC server (bufconn)
// that serves GET / HEAD / RANGE / SEARCH for the "remote" objects of the
// universe the way a storage node would answer a request of another container
// node (no access checks: the requester is a container node). Every request it
// receives is an effect ("remote.request.<RPC>").
type remoteNode struct {
	log  *Log
	u    *Universe
	srv  *grpc.Server
	conn *grpc.ClientConn
}

func newRemoteNode(log *Log, u *Universe) (*remoteNode, error) {
	r := &remoteNode{log: log, u: u}
	lis := bufconn.Listen(256 << 10)
	r.srv = grpc.NewServer(grpc.ForceServerCodecV2(iprotobuf.BufferedCodec{}))
	r.srv.RegisterService(&grpc.ServiceDesc{
		ServiceName: protoobject.ObjectService_ServiceDesc.ServiceName,
		HandlerType: (*any)(nil),
		Methods: []grpc.MethodDesc{
			{MethodName: "Head", Handler: r.head},
			{MethodName: "SearchV2", Handler: r.search},
		},
		Streams: []grpc.StreamDesc{
			{StreamName: "Get", Handler: r.get, ServerStreams: true},
			{StreamName: "GetRange", Handler: r.rng, ServerStreams: true},
		},
	}, nil)
	go func() { _ = r.srv.Serve(lis) }()
	var err error
	r.conn, err = grpc.NewClient("passthrough:///verif-remote",
		grpc.WithContextDialer(func(ctx context.Context, _ string) (net.Conn, error) { return lis.DialContext(ctx) }),
		grpc.WithTransportCredentials(insecure.NewCredentials()))
	if err != nil {
		r.srv.Stop()
		return nil, err
	}
	return r, nil
}

func (r *remoteNode) close() {
	_ = r.conn.Close()
	r.srv.Stop()
}

func (r *remoteNode) find(a *refs.Address) *object.Object {
	var addr oid.Address
	if a == nil || addr.FromProtoMessage(a) != nil {
		return nil
	}
	for _, c := range r.u.Cnrs {
		if c.ID != addr.Container() {
			continue
		}
		for i := range c.Remote {
			if c.Remote[i].GetID() == addr.Object() {
				return &c.Remote[i]
			}
		}
	}
	return nil
}

var notFoundMeta = &protosession.ResponseMetaHeader{Status: apistatus.FromError(apistatus.ErrObjectNotFound)}

func (r *remoteNode) get(_ any, stream grpc.ServerStream) error {
	var req protoobject.GetRequest
	if err := stream.RecvMsg(&req); err != nil {
		return err
	}
	r.log.Add(KindEffect, "remote.request.Get")
	obj := r.find(req.GetBody().GetAddress())
	if obj == nil {
		return stream.SendMsg(&protoobject.GetResponse{MetaHeader: notFoundMeta})
	}
	mo := obj.ProtoMessage()
	if err := stream.SendMsg(&protoobject.GetResponse{Body: &protoobject.GetResponse_Body{ObjectPart: &protoobject.GetResponse_Body_Init_{
		Init: &protoobject.GetResponse_Body_Init{ObjectId: mo.ObjectId, Signature: mo.Signature, Header: mo.Header}}}}); err != nil {
		return err
	}
	pl := obj.Payload()
	if rg := req.GetBody().GetRange(); rg != nil && rg.Length > 0 {
		if rg.Offset+rg.Length > uint64(len(pl)) {
			return stream.SendMsg(&protoobject.GetResponse{MetaHeader: &protosession.ResponseMetaHeader{Status: apistatus.FromError(apistatus.ErrObjectOutOfRange)}})
		}
		pl = pl[rg.Offset : rg.Offset+rg.Length]
	} else if er := req.GetBody().GetExtendedRange(); er != nil {
		from, to := uint64(0), uint64(len(pl))
		switch {
		case er.FirstPos != nil && er.LastPos != nil:
			from, to = *er.FirstPos, min(*er.LastPos+1, to)
		case er.FirstPos != nil:
			from = *er.FirstPos
		case er.LastPos != nil:
			from = to - min(*er.LastPos, to)
		}
		if from >= to {
			return stream.SendMsg(&protoobject.GetResponse{MetaHeader: &protosession.ResponseMetaHeader{Status: apistatus.FromError(apistatus.ErrObjectOutOfRange)}})
		}
		pl = pl[from:to]
	}
	for len(pl) > 0 {
		n := min(len(pl), 1000)
		if err := stream.SendMsg(&protoobject.GetResponse{Body: &protoobject.GetResponse_Body{ObjectPart: &protoobject.GetResponse_Body_Chunk{Chunk: pl[:n]}}}); err != nil {
			return err
		}
		pl = pl[n:]
	}
	return nil
}

func (r *remoteNode) rng(_ any, stream grpc.ServerStream) error {
	var req protoobject.GetRangeRequest
	if err := stream.RecvMsg(&req); err != nil {
		return err
	}
	r.log.Add(KindEffect, "remote.request.GetRange")
	obj := r.find(req.GetBody().GetAddress())
	if obj == nil {
		return stream.SendMsg(&protoobject.GetRangeResponse{MetaHeader: notFoundMeta})
	}
	pl := obj.Payload()
	if rg := req.GetBody().GetRange(); rg != nil && rg.Length > 0 {
		if rg.Offset+rg.Length > uint64(len(pl)) {
			return stream.SendMsg(&protoobject.GetRangeResponse{MetaHeader: &protosession.ResponseMetaHeader{Status: apistatus.FromError(apistatus.ErrObjectOutOfRange)}})
		}
		pl = pl[rg.Offset : rg.Offset+rg.Length]
	}
	for len(pl) > 0 {
		n := min(len(pl), 1000)
		if err := stream.SendMsg(&protoobject.GetRangeResponse{Body: &protoobject.GetRangeResponse_Body{RangePart: &protoobject.GetRangeResponse_Body_Chunk{Chunk: pl[:n]}}}); err != nil {
			return err
		}
		pl = pl[n:]
	}
	return nil
}

func (r *remoteNode) head(_ any, _ context.Context, dec func(any) error, _ grpc.UnaryServerInterceptor) (any, error) {
	var req protoobject.HeadRequest
	if err := dec(&req); err != nil {
		return nil, err
	}
	r.log.Add(KindEffect, "remote.request.Head")
	obj := r.find(req.GetBody().GetAddress())
	if obj == nil {
		return &protoobject.HeadResponse{MetaHeader: notFoundMeta}, nil
	}
	mo := obj.ProtoMessage()
	return &protoobject.HeadResponse{Body: &protoobject.HeadResponse_Body{Head: &protoobject.HeadResponse_Body_Header{
		Header: &protoobject.HeaderWithSignature{Header: mo.Header, Signature: mo.Signature}}}}, nil
}

func (r *remoteNode) search(_ any, _ context.Context, dec func(any) error, _ grpc.UnaryServerInterceptor) (any, error) {
	var req protoobject.SearchV2Request
	if err := dec(&req); err != nil {
		return nil, err
	}
	r.log.Add(KindEffect, "remote.request.SearchV2")
	return &protoobject.SearchV2Response{Body: &protoobject.SearchV2Response_Body{}}, nil
}

// remoteClient implements clientcore.MultiAddressClient over the bufconn
// connection. The SDK-client style methods are not used by the server for
// plain (non-split, non-EC) objects; they answer with an error and an effect.
type remoteClient struct{ r *remoteNode }

var errNoSDKCall = errors.New("verif: SDK-style remote call is not served by the fake remote node")

func (c remoteClient) ForAnyGRPCConn(ctx context.Context, f func(context.Context, *grpc.ClientConn) error) error {
	return f(ctx, c.r.conn)
}
func (c remoteClient) APIVersion() *refs.Version { return version.Current().ProtoMessage() }
func (c remoteClient) call(what string) error {
	c.r.log.Add(KindEffect, "remote.sdkcall."+what)
	return fmt.Errorf("%s: %w", what, errNoSDKCall)
}
func (c remoteClient) ObjectPutInit(context.Context, object.Object, user.Signer, client.PrmObjectPutInit) (client.ObjectWriter, error) {
	return nil, c.call("ObjectPutInit")
}
func (c remoteClient) ReplicateObject(context.Context, oid.ID, io.ReadSeeker, neofscrypto.Signer, bool) (*neofscrypto.Signature, error) {
	return nil, c.call("ReplicateObject")
}
func (c remoteClient) ObjectDelete(context.Context, cid.ID, oid.ID, user.Signer, client.PrmObjectDelete) (oid.ID, error) {
	return oid.ID{}, c.call("ObjectDelete")
}
func (c remoteClient) ObjectGetInit(context.Context, cid.ID, oid.ID, user.Signer, client.PrmObjectGet) (object.Object, *client.PayloadReader, error) {
	return object.Object{}, nil, c.call("ObjectGetInit")
}
func (c remoteClient) ObjectHead(context.Context, cid.ID, oid.ID, user.Signer, client.PrmObjectHead) (*object.Object, error) {
	return nil, c.call("ObjectHead")
}
func (c remoteClient) ObjectSearchInit(context.Context, cid.ID, user.Signer, client.PrmObjectSearch) (*client.ObjectListReader, error) {
	return nil, c.call("ObjectSearchInit")
}
func (c remoteClient) SearchObjects(context.Context, cid.ID, object.SearchFilters, []string, string, neofscrypto.Signer, client.SearchObjectsOptions) ([]client.SearchResultItem, string, error) {
	return nil, "", c.call("SearchObjects")
}
func (c remoteClient) ObjectRangeInit(context.Context, cid.ID, oid.ID, uint64, uint64, user.Signer, client.PrmObjectRange) (*client.ObjectRangeReader, error) {
	return nil, c.call("ObjectRangeInit")
}
func (c remoteClient) AnnounceLocalTrust(context.Context, uint64, []reputation.Trust, client.PrmAnnounceLocalTrust) error {
	return c.call("AnnounceLocalTrust")
}
func (c remoteClient) AnnounceIntermediateTrust(context.Context, uint64, reputation.PeerToPeerTrust, client.PrmAnnounceIntermediateTrust) error {
	return c.call("AnnounceIntermediateTrust")
}

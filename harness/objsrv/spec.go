package objsrv

import "fmt"

// Op is a client-facing object operation.
type Op int

// Client operations (order is stable; generators draw an index).
const (
	OpGet Op = iota
	OpHead
	OpRange
	OpDelete
	OpSearch
	OpPut
	NumOps
)

func (o Op) String() string {
	return [...]string{"GET", "HEAD", "RANGE", "DELETE", "SEARCH", "PUT"}[o]
}

// HasObject reports whether requests of the op address an existing object.
func (o Op) HasObject() bool { return o == OpGet || o == OpHead || o == OpRange || o == OpDelete }

// Defect is the single thing wrong with an otherwise valid request.
type Defect int

// Defect classes.
const (
	DefNone Defect = iota
	// authenticity
	DefNoVerifyHeader   // no verification header at all (TTL 2, or TTL 1 from a non-authenticated peer)
	DefTrustedTTL2      // no verification header, authenticated peer, but TTL != 1
	DefBodySigFlip      // one byte of the body signature flipped
	DefBodyChanged      // body changed after signing
	DefMetaSigFlip      // one byte of the meta header signature flipped
	DefMetaChanged      // meta header changed after signing
	DefOriginSigFlip    // one byte of the origin signature flipped (API < 2.25 only: it is checked there)
	DefKeySwap          // public key of a signature replaced by another user's key
	DefNoBodySig        // body signature removed
	DefInnerLayerBroken // two-layer signature chain (API < 2.25), inner meta signature broken
	DefForgedKey        // signed by a stranger, every signature names the container owner's public key
	// session tokens
	DefSessionExpired
	DefSessionNotYetValid
	DefSessionOtherContainer
	DefSessionOtherObject // V1 token bound to another object (GET/HEAD/RANGE)
	DefSessionWrongVerb
	DefSessionTampered  // token body changed after it was signed
	DefSessionForgedSig // byte-identical body of a genuine token, signature replaced (other key / bit flip / empty / signature of other data)
	DefSessionBothVersions
	// bearer tokens
	DefBearerExpired
	DefBearerNotOwner       // issued by a user that does not own the container
	DefBearerOtherContainer // eACL table bound to another container
	DefBearerOtherUser      // issued for another user
	DefBearerTampered
	DefBearerForgedSig // byte-identical body of a genuine token, signature replaced
	// access rules
	DefBasicACL         // Others on the private container
	DefSticky           // PUT into the sticky container with a foreign owner in the object
	DefEACLRequest      // stored eACL denies by request X-header (decidable at request time)
	DefEACLObjectAttr   // stored eACL denies by object attribute, header available locally at request time
	DefEACLBearerDeny   // valid bearer token whose table denies the operation
	DefEACLHeader       // stored eACL denies by object attribute, header NOT available at request time (GET/HEAD)
	DefEACLHeaderRemote // same, but the object lives on the other container node: the header arrives through the proxy path
	NumDefects
)

var defectNames = [...]string{"none", "sig/no-verify-header", "sig/trusted-peer-ttl2", "sig/body-sig-flip", "sig/body-changed",
	"sig/meta-sig-flip", "sig/meta-changed", "sig/origin-sig-flip", "sig/key-swap", "sig/no-body-sig", "sig/inner-layer-broken", "sig/forged-owner-key",
	"session/expired", "session/not-yet-valid", "session/other-container", "session/other-object", "session/wrong-verb",
	"session/tampered", "session/forged-signature", "session/both-versions",
	"bearer/expired", "bearer/not-owner", "bearer/other-container", "bearer/other-user", "bearer/tampered", "bearer/forged-signature",
	"acl/basic", "acl/sticky", "acl/eacl-request-xheader", "acl/eacl-request-object-attr", "acl/eacl-bearer-deny", "acl/eacl-header-time", "acl/eacl-header-time-remote"}

func (d Defect) String() string { return defectNames[d] }

// IsSignature, IsSession, IsBearer, IsACL classify the defect.
func (d Defect) IsSignature() bool { return d >= DefNoVerifyHeader && d <= DefForgedKey }
func (d Defect) IsSession() bool   { return d >= DefSessionExpired && d <= DefSessionBothVersions }
func (d Defect) IsBearer() bool    { return d >= DefBearerExpired && d <= DefBearerForgedSig }
func (d Defect) IsACL() bool       { return d >= DefBasicACL && d <= DefEACLHeaderRemote }

// Versions is the table of API versions put into request meta headers
// (nil = no version). Origin signatures are required below 2.25; GET/HEAD/RANGE
// responses are signed up to 2.17, the others up to 2.21.
var Versions = [][2]uint32{{2, 17}, {2, 21}, {2, 24}, {2, 25}, {2, 26}, {0, 0}}

// Signature schemes of Spec.Scheme.
const (
	SchemeSHA512 = iota
	SchemeRFC6979
	SchemeWalletConnect
	SchemeN3
	NumSchemes
)

// Session / bearer presence of Spec.
const (
	SessionNone = iota
	SessionV1
	SessionV2
)

// Range kinds of Spec.RangeKind (GET only; RANGE always uses RangeOff/RangeLen).
const (
	RangeNone = iota
	RangeOffLen
	RangeExtBounds
	RangeExtFrom
	RangeExtSuffix
	NumRangeKinds
)

// Spec is a fully generated description of one request. Normalize makes it
// self-consistent; Build turns it into signed messages.
type Spec struct {
	Op        Op
	Cnr       int
	Obj       int // ObjPlain, ObjSecret, ObjAbsent, ObjRemotePlain or ObjRemoteSecret
	Requester int // IDOwner / IDOther (signer of the request)
	Scheme    int
	Version   int // index into Versions
	TTL       uint32
	XHeaders  [][2]string
	Trusted   bool // sent over a mutually authenticated connection without verification header (TTL 1)
	TLSPeer   bool // the connection is mutually authenticated (client certificate of a stranger) although the request carries a verification header
	Late      bool // GET/HEAD only: served by Env.ServerLate (object headers unavailable to eACL at request time)

	Raw         bool
	PayloadOnly bool
	RangeKind   int
	RangeOff    uint64
	RangeLen    uint64

	SearchCount   uint32
	SearchFilters [][2]string // key, value (STRING_EQUAL)
	SearchAttrs   int         // number of requested attributes (taken from the filters' keys)

	PutPayload   []byte
	PutChunks    int // payload is split into this many chunk messages (0 = no chunk message)
	PutAttr      string
	PutTombstone bool

	Session        int
	SessionBindObj bool
	Bearer         bool
	BearerForUser  bool

	Defect    Defect
	DefectArg int // free parameter of the defect (byte to flip, field to change, PUT message index)
	ForgeKind int // Def*ForgedSig: 0 re-signed by another key, 1 bit flip, 2 empty signature value, 3 owner's signature of other data
}

// Fingerprint identifies the normalised spec for distinct counting.
func (s Spec) Fingerprint() string {
	return fmt.Sprintf("%v|c%d o%d r%d s%d v%d t%d x%v tr%v|%v %v %d %d %d|%d %v %d|%d %d %q %v|%d %v %v %v|%v %d %d",
		s.Op, s.Cnr, s.Obj, s.Requester, s.Scheme, s.Version, s.TTL, s.XHeaders, [3]bool{s.Trusted, s.Late, s.TLSPeer},
		s.Raw, s.PayloadOnly, s.RangeKind, s.RangeOff, s.RangeLen,
		s.SearchCount, s.SearchFilters, s.SearchAttrs,
		len(s.PutPayload), s.PutChunks, s.PutAttr, s.PutTombstone,
		s.Session, s.SessionBindObj, s.Bearer, s.BearerForUser, s.Defect, s.DefectArg, s.ForgeKind)
}

// String is a compact human-readable rendering for failure messages and samples.
func (s Spec) String() string {
	cn := [...]string{"open", "private", "eacl", "sticky"}[s.Cnr]
	on := [...]string{"plain", "secret", "absent", "remote-plain", "remote-secret"}[s.Obj]
	rn := [...]string{"owner", "other", "other2"}[s.Requester]
	sn := [...]string{"sha512", "rfc6979", "walletconnect", "n3"}[s.Scheme]
	v := Versions[s.Version]
	extra := ""
	switch s.Op {
	case OpGet:
		extra = fmt.Sprintf(" raw=%v payloadOnly=%v range=%d[%d,%d]", s.Raw, s.PayloadOnly, s.RangeKind, s.RangeOff, s.RangeLen)
	case OpHead:
		extra = fmt.Sprintf(" raw=%v", s.Raw)
	case OpRange:
		extra = fmt.Sprintf(" raw=%v range=[%d,%d]", s.Raw, s.RangeOff, s.RangeLen)
	case OpSearch:
		extra = fmt.Sprintf(" count=%d filters=%v attrs=%d", s.SearchCount, s.SearchFilters, s.SearchAttrs)
	case OpPut:
		extra = fmt.Sprintf(" payload=%dB chunks=%d attr=%q tombstone=%v", len(s.PutPayload), s.PutChunks, s.PutAttr, s.PutTombstone)
	}
	if s.Late {
		extra += " server=late"
	}
	if s.TLSPeer {
		extra += " tls-peer(with verification header)"
	}
	return fmt.Sprintf("%v cnr=%s obj=%s by=%s scheme=%s api=%d.%d ttl=%d trusted=%v xhdr=%v session=%d(bindObj=%v) bearer=%v(forUser=%v)%s DEFECT=%v(arg %d forge %d)",
		s.Op, cn, on, rn, sn, v[0], v[1], s.TTL, s.Trusted, s.XHeaders, s.Session, s.SessionBindObj, s.Bearer, s.BearerForUser, extra, s.Defect, s.DefectArg, s.ForgeKind)
}

// Applicable reports whether the defect class exists for the operation.
func Applicable(op Op, d Defect) bool {
	switch d {
	case DefSessionOtherObject:
		return op == OpGet || op == OpHead || op == OpRange
	case DefSticky:
		return op == OpPut
	case DefEACLObjectAttr, DefEACLHeader, DefEACLHeaderRemote:
		// RANGE and DELETE requests carry no object headers for eACL (address
		// only), SEARCH has no object, PUT carries its own header.
		return op == OpGet || op == OpHead
	}
	return true
}

// Normalize forces the constraints that make the base request valid and the
// chosen defect the only thing wrong with it. It never consults the server.
func Normalize(s Spec) Spec {
	if !Applicable(s.Op, s.Defect) {
		s.Defect = DefNone
	}
	if s.Requester != IDOwner {
		s.Requester = IDOther
	}
	if s.TTL == 0 {
		s.TTL = 1
	}
	if s.TTL > 3 {
		s.TTL = 3
	}
	if !s.Op.HasObject() {
		s.Obj = ObjPlain
	}
	d := s.Defect
	s.Late = (s.Late && (s.Op == OpGet || s.Op == OpHead) && d != DefEACLObjectAttr && d != DefEACLHeaderRemote) || d == DefEACLHeader
	if s.Op == OpGet {
		if s.RangeKind == RangeOffLen && s.RangeLen == 0 {
			s.RangeOff = 0
		}
		if s.RangeKind == RangeNone || s.RangeKind == RangeExtSuffix {
			s.RangeOff = 0
		}
		if s.RangeKind == RangeNone || s.RangeKind == RangeExtFrom {
			s.RangeLen = 0
		}
	}

	// tokens: present only where they can be valid, or where their defect is the subject
	if d.IsSession() {
		if s.Session == SessionNone {
			s.Session = SessionV1 + s.DefectArg%2
		}
		if d == DefSessionOtherObject {
			s.Session = SessionV1
			s.SessionBindObj = true
		}
	} else if s.Op == OpPut {
		// a valid session PUT needs the node to hold the session key: out of scope
		s.Session = SessionNone
	}
	if d.IsBearer() || d == DefEACLBearerDeny {
		s.Bearer = true
	}
	if d == DefBearerOtherUser {
		s.BearerForUser = true
	}

	// authenticity variants
	if s.Scheme == SchemeN3 {
		// N3 witnesses are supported by every handler but GET; keep them to the
		// plain cases and to the defects that make sense for a witness
		switch {
		case s.Op == OpGet, s.Session != SessionNone, s.Trusted, s.Op == OpPut && (s.Cnr == CnrSticky || d == DefSticky):
			s.Scheme = SchemeSHA512
		case d != DefNone && d != DefBodySigFlip && d != DefMetaSigFlip && d != DefBodyChanged && d != DefMetaChanged &&
			d != DefBasicACL && d != DefEACLRequest && !d.IsBearer():
			s.Scheme = SchemeSHA512
		}
	}
	switch d {
	case DefNoVerifyHeader:
		s.Trusted = false
	case DefTrustedTTL2:
		s.Trusted = true
		if s.TTL == 1 {
			s.TTL = 2
		}
	default:
		if d.IsSignature() || d.IsSession() {
			s.Trusted = false
		}
	}
	if s.Trusted {
		s.Scheme = SchemeSHA512
		if d != DefTrustedTTL2 {
			// credentials come from the TLS peer, tokens are not consulted for them
			s.Session, s.TTL = SessionNone, 1
		}
		// DefTrustedTTL2 keeps a drawn (valid) session token: without the TTL
		// condition an authenticated peer could act for the token's issuer
		// without signing anything
	}
	// A TLS-authenticated connection plus a PRESENT verification header: the
	// header must still be verified. For signature defects this is combined
	// with TTL 1 (the only TTL for which an authenticated peer may omit the header).
	if s.Trusted {
		s.TLSPeer = false
	}
	if s.TLSPeer {
		switch {
		case d == DefInnerLayerBroken:
			s.TLSPeer = false // needs TTL >= 2
		case d == DefNoVerifyHeader:
			if s.TTL == 1 { // that would be the valid unsigned inter-node request
				s.TTL = 2
			}
		case d.IsSignature():
			s.TTL = 1
		}
	}
	if d == DefForgedKey {
		s.Requester, s.Session = IDOther, SessionNone
		if s.Scheme == SchemeN3 {
			s.Scheme = SchemeSHA512
		}
	}
	if d == DefOriginSigFlip || d == DefInnerLayerBroken {
		if v := Versions[s.Version]; !(v[0] == 2 && v[1] < 25) && !(v[0] == 0 && v[1] == 0) {
			s.Version = 2 // 2.24
		}
	}
	if d == DefInnerLayerBroken && s.TTL < 2 {
		s.TTL = 2
	}
	if s.Op == OpSearch {
		if s.SearchCount == 0 {
			s.SearchCount = 1
		}
		if s.SearchCount > 1000 {
			s.SearchCount = 1000
		}
		if s.SearchAttrs > len(s.SearchFilters) {
			s.SearchAttrs = len(s.SearchFilters)
		}
	}

	// who acts: with a valid session token the issuer (the owner) acts
	actsAsOwner := s.Requester == IDOwner || s.Session != SessionNone
	if s.Scheme == SchemeN3 {
		actsAsOwner = false
	}

	// access: base must be allowed
	switch d {
	case DefBasicACL:
		s.Cnr, s.Requester, s.Session = CnrPrivate, IDOther, SessionNone
	case DefSticky:
		s.Cnr, s.Session = CnrSticky, SessionNone
	case DefEACLRequest:
		s.Cnr, s.Session, s.Bearer = CnrEACL, SessionNone, false
		if s.Scheme != SchemeN3 {
			s.Requester = IDOther
		}
		s.XHeaders = append([][2]string{{DenyXHeaderKey, DenyXHeaderValue}}, s.XHeaders...)
	case DefEACLObjectAttr, DefEACLHeader, DefEACLHeaderRemote:
		s.Cnr, s.Obj, s.Requester, s.Session, s.Bearer = CnrEACL, ObjSecret, IDOther, SessionNone, false
		if s.Scheme == SchemeN3 {
			s.Scheme = SchemeSHA512
		}
		if d == DefEACLHeaderRemote {
			s.Obj = ObjRemoteSecret
			if s.Trusted || s.TTL < 2 { // only a request that may leave the node reaches the remote copy
				s.Trusted, s.TTL = false, 2
			}
		}
	case DefEACLBearerDeny:
		if s.Cnr == CnrPrivate { // bearer rules are not allowed by the private basic ACL
			s.Cnr = CnrOpen
		}
	default:
		if s.Cnr == CnrPrivate && !actsAsOwner && d != DefForgedKey {
			s.Requester, s.Scheme = IDOwner, min(s.Scheme, SchemeWalletConnect)
		}
		if s.Cnr == CnrEACL && !actsAsOwner && (s.Op == OpGet || s.Op == OpHead) && !s.Bearer {
			switch s.Obj {
			case ObjSecret:
				s.Obj = ObjPlain
			case ObjRemoteSecret:
				s.Obj = ObjRemotePlain
			}
		}
	}
	if d != DefEACLRequest {
		xs := s.XHeaders[:0:0]
		for _, x := range s.XHeaders {
			if x[0] != DenyXHeaderKey {
				xs = append(xs, x)
			}
		}
		s.XHeaders = xs
	}
	if s.Op == OpPut {
		if s.PutChunks > len(s.PutPayload) {
			s.PutChunks = len(s.PutPayload)
		}
		if len(s.PutPayload) > 0 && s.PutChunks == 0 {
			s.PutChunks = 1
		}
		if s.PutTombstone {
			s.PutPayload, s.PutChunks = nil, 0
		}
	}
	if s.Op == OpRange && s.RangeLen == 0 {
		s.RangeOff = 0
	}
	// fields that do not belong to the operation are zeroed (honest fingerprints)
	if s.Op != OpGet {
		s.PayloadOnly, s.RangeKind = false, RangeNone
		if s.Op != OpRange {
			s.RangeOff, s.RangeLen = 0, 0
		}
	}
	if s.Op != OpGet && s.Op != OpHead && s.Op != OpRange {
		s.Raw = false
	}
	if s.Op != OpSearch {
		s.SearchCount, s.SearchFilters, s.SearchAttrs = 0, nil, 0
	}
	if s.Op != OpPut {
		s.PutPayload, s.PutChunks, s.PutAttr, s.PutTombstone = nil, 0, "", false
	}
	if s.Session == SessionNone || !s.Op.HasObject() || s.Session == SessionV2 {
		s.SessionBindObj = false
	}
	if !s.Bearer {
		s.BearerForUser = false
	}
	if d != DefSessionForgedSig && d != DefBearerForgedSig {
		s.ForgeKind = 0
	} else {
		s.ForgeKind = ((s.ForgeKind % 4) + 4) % 4
	}
	if s.Trusted {
		s.Scheme = SchemeSHA512
	}
	return s
}

package objsrv

import (
	"context"
	"fmt"
	"path/filepath"

	isessions "github.com/nspcc-dev/neofs-node/internal/sessions"
	"github.com/nspcc-dev/neofs-node/pkg/local_object_storage/blobstor/fstree"
	"github.com/nspcc-dev/neofs-node/pkg/local_object_storage/engine"
	meta "github.com/nspcc-dev/neofs-node/pkg/local_object_storage/metabase"
	"github.com/nspcc-dev/neofs-node/pkg/local_object_storage/shard"
	objectsvc "github.com/nspcc-dev/neofs-node/pkg/services/object"
	"github.com/nspcc-dev/neofs-node/pkg/services/object/acl"
	aclsvc "github.com/nspcc-dev/neofs-node/pkg/services/object/acl/v2"
	getsvc "github.com/nspcc-dev/neofs-node/pkg/services/object/get"
	putsvc "github.com/nspcc-dev/neofs-node/pkg/services/object/put"
	objutil "github.com/nspcc-dev/neofs-node/pkg/services/object/util"
	"github.com/nspcc-dev/neofs-sdk-go/eacl"
	"go.uber.org/zap"
)

// Env is one server harness instance. It is not safe for concurrent requests
// (the log is shared); run cases sequentially.
type Env struct {
	U   *Universe
	Log *Log

	// Server is wired like cmd/neofs-node: the ACL checker reads headers from
	// the same engine as the handlers.
	Server *objectsvc.Server
	// ServerLate gives the ACL checker an empty engine, so that eACL records
	// with object-header filters cannot be decided at request time.
	ServerLate *objectsvc.Server

	chain  *chain
	data   *engine.StorageEngine
	empty  *engine.StorageEngine
	putSt  *putStore
	aclSvc aclsvc.Service
	remote *remoteNode
	sess   *isessions.ObjectSessionsCache
}

// NewEnv builds the universe, stores its objects into a fresh engine under dir
// and constructs both servers with object.New.
func NewEnv(dir string) (*Env, error) {
	u := newUniverse()
	log := new(Log)
	ch := &chain{u: u, log: log}

	data := engine.New(engine.WithMetrics(engineMetrics{log: log, name: "store"}), engine.WithLogger(zap.NewNop()))
	_, err := data.AddShard(
		shard.WithBlobstor(fstree.New(fstree.WithPath(filepath.Join(dir, "fstree")))),
		shard.WithMetaBaseOptions(
			meta.WithPath(filepath.Join(dir, "metabase")),
			meta.WithEpochState(ch),
		),
		shard.WithLogger(zap.NewNop()),
	)
	if err != nil {
		return nil, fmt.Errorf("add shard: %w", err)
	}
	if err = data.Init(); err != nil {
		return nil, fmt.Errorf("init engine: %w", err)
	}
	for _, c := range u.Cnrs {
		for i := range c.Objects {
			if err = data.Put(context.Background(), &c.Objects[i], nil); err != nil {
				return nil, fmt.Errorf("store object: %w", err)
			}
		}
	}
	empty := engine.New(engine.WithMetrics(engineMetrics{log: log, name: "emptystore"}), engine.WithLogger(zap.NewNop()))

	nodeKey := u.Node.Priv
	keyStorage := objutil.NewKeyStorage(&nodeKey, noSessions{}, ch)
	remote, err := newRemoteNode(log, u)
	if err != nil {
		return nil, fmt.Errorf("start fake remote node: %w", err)
	}
	cl := clients{log: log, remote: remote}

	get := getsvc.New(ch,
		getsvc.WithLogger(zap.NewNop()),
		getsvc.WithLocalStorageEngine(data),
		getsvc.WithClientConstructor(cl),
		getsvc.WithKeyStorage(keyStorage),
	)
	putSt := &putStore{log: log}
	put := putsvc.NewService(transport{log: log}, putNet{ch}, nil, quotas{}, payments{log: log},
		putsvc.WithSessionsCache(isessions.NewObjectSessionsCache(16)),
		putsvc.WithLogger(zap.NewNop()),
		putsvc.WithKeyStorage(keyStorage),
		putsvc.WithObjectStorage(putSt),
		putsvc.WithMaxSizeSource(maxSize{}),
		putsvc.WithContainerSource(ch),
		putsvc.WithNetworkState(ch),
		putsvc.WithClientConstructor(cl),
		putsvc.WithSplitChainVerifier(nopSplitVerifier{}),
		putsvc.WithTombstoneVerifier(nopTombVerifier{}),
		putsvc.WithPostPlacementReplicator(nopPostPlacement{}),
	)
	hs := &handlers{log: log, get: get, put: put}

	sessCache := isessions.NewObjectSessionsCache(1000)
	aclSvc := aclsvc.New(ch, sessCache,
		aclsvc.WithLogger(zap.NewNop()),
		aclsvc.WithIRFetcher(ch),
		aclsvc.WithNetmapper(ch),
		aclsvc.WithContainerSource(ch),
		aclsvc.WithTimeProvider(ch),
	)
	mkChecker := func(e *engine.StorageEngine) checker {
		return checker{log: log, c: acl.NewChecker(new(acl.CheckerPrm).
			SetEACLSource(ch).
			SetValidator(eacl.NewValidator()).
			SetLocalStorage(e).
			SetHeaderSource(headerSource{log: log}))}
	}
	st := storage{log: log, u: u}
	ext := extractor{log: log, svc: aclSvc}

	e := &Env{U: u, Log: log, chain: ch, data: data, empty: empty, putSt: putSt, aclSvc: aclSvc, remote: remote, sess: sessCache}
	e.Server = objectsvc.New(hs, ch, st, nil, nodeKey, srvMetrics{}, mkChecker(data), ext, cl, zap.NewNop())
	e.ServerLate = objectsvc.New(hs, ch, st, nil, nodeKey, srvMetrics{}, mkChecker(empty), ext, cl, zap.NewNop())
	log.Reset()
	return e, nil
}

// SetMaintenance switches the maintenance flag reported by FSChain.LocalNodeUnderMaintenance.
func (e *Env) SetMaintenance(on bool) { e.chain.maintenance.Store(on) }

// TickEpoch does what cmd/neofs-node does to the object service on a new epoch
// event: the bearer / NNS check caches of the ACL service and the session token
// cache are dropped. The epoch number itself stays (token lifetimes are relative to it).
func (e *Env) TickEpoch() {
	e.aclSvc.ResetTokenCheckCache()
	e.sess.ResetCache()
}

// ResetCaches is TickEpoch (kept for callers of the first version).
func (e *Env) ResetCaches() { e.TickEpoch() }

// Close releases the engines.
func (e *Env) Close() {
	e.remote.close()
	_ = e.data.Close()
	_ = e.empty.Close()
}

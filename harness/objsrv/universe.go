package objsrv

import (
	"crypto/ecdsa"
	"crypto/sha256"
	"fmt"
	"time"

	"github.com/nspcc-dev/neo-go/pkg/crypto/keys"
	"github.com/nspcc-dev/neofs-sdk-go/container"
	"github.com/nspcc-dev/neofs-sdk-go/container/acl"
	cid "github.com/nspcc-dev/neofs-sdk-go/container/id"
	neofscrypto "github.com/nspcc-dev/neofs-sdk-go/crypto"
	neofsecdsa "github.com/nspcc-dev/neofs-sdk-go/crypto/ecdsa"
	"github.com/nspcc-dev/neofs-sdk-go/eacl"
	"github.com/nspcc-dev/neofs-sdk-go/netmap"
	"github.com/nspcc-dev/neofs-sdk-go/object"
	oid "github.com/nspcc-dev/neofs-sdk-go/object/id"
	"github.com/nspcc-dev/neofs-sdk-go/user"
)

// Fixed chain state of the universe.
const (
	Epoch         = 10
	EpochDuration = 240
	MaxObjectSize = 1 << 20
)

// ChainTime is the fixed FS chain time (session V2 token lifetimes are relative to it).
var ChainTime = time.Date(2026, 1, 1, 0, 0, 0, 0, time.UTC)

// Identity is a deterministic key pair with its derived user ID.
type Identity struct {
	Name string
	Key  *keys.PrivateKey
	Priv ecdsa.PrivateKey
	ID   user.ID
	Pub  []byte // compressed public key
}

func newIdentity(name string) Identity {
	h := sha256.Sum256([]byte("verif-objsrv-key:" + name))
	k, err := keys.NewPrivateKeyFromBytes(h[:])
	if err != nil {
		panic(err)
	}
	return Identity{Name: name, Key: k, Priv: k.PrivateKey, ID: user.NewFromECDSAPublicKey(k.PrivateKey.PublicKey), Pub: k.PublicKey().Bytes()}
}

// Signer returns a request/object signer of the given scheme.
func (i Identity) Signer(scheme neofscrypto.Scheme) neofscrypto.Signer {
	switch scheme {
	case neofscrypto.ECDSA_DETERMINISTIC_SHA256:
		return neofsecdsa.SignerRFC6979(i.Priv)
	case neofscrypto.ECDSA_WALLETCONNECT:
		return neofsecdsa.SignerWalletConnect(i.Priv)
	default:
		return neofsecdsa.Signer(i.Priv)
	}
}

// UserSigner returns a user.Signer (tokens, objects).
func (i Identity) UserSigner() user.Signer { return user.NewAutoIDSigner(i.Priv) }

// Identities of the universe (indices are stable; specs refer to them).
const (
	IDOwner  = iota // owner of every container
	IDOther         // a user with the Others role
	IDOther2        // another stranger (foreign issuer, swapped keys)
	numRequesters
)

// Container indices.
const (
	CnrOpen    = iota // eacl-public-read-write, no stored eACL table
	CnrPrivate        // private: Others are denied by basic ACL
	CnrEACL           // eacl-public-read-write with the stored table EACLTable
	CnrSticky         // eacl-public-read-write with the sticky bit
	numContainers
)

// Object indices inside a container.
const (
	ObjPlain  = iota // attribute class=plain
	ObjSecret        // attribute class=secret (denied to Others by the stored table of CnrEACL)
	numObjects
	ObjAbsent       = numObjects     // an ID that is stored nowhere
	ObjRemotePlain  = numObjects + 1 // stored only on the other container node, class=plain
	ObjRemoteSecret = numObjects + 2 // stored only on the other container node, class=secret
	numObjIndexes   = numObjects + 3
)

// X-header that triggers the request-time DENY record of CnrEACL.
const (
	DenyXHeaderKey   = "x-verif-deny"
	DenyXHeaderValue = "yes"
	ClassAttr        = "class"
	ClassSecret      = "secret"
)

// Cnr is one container of the universe.
type Cnr struct {
	Name    string
	ID      cid.ID
	Cnr     container.Container
	HasEACL bool
	EACL    eacl.Table
	Objects [numObjects]object.Object // stored in the local engine
	Remote  [numObjects]object.Object // stored on the fake remote node only (plain, secret)
	Absent  oid.ID
}

// Universe is the fixed set of identities, containers and stored objects.
type Universe struct {
	Node     Identity // the server under test
	Remote   Identity // the other container node
	CnrNode  Identity // a container node that only sends replicas
	IR       Identity
	Users    [numRequesters]Identity
	Cnrs     [numContainers]*Cnr
	NodeInfo [2]netmap.NodeInfo // local, remote
}

var allEACLOps = []eacl.Operation{eacl.OperationGet, eacl.OperationHead, eacl.OperationPut, eacl.OperationDelete,
	eacl.OperationSearch, eacl.OperationRange, eacl.OperationRangeHash}

func newUniverse() *Universe {
	u := &Universe{
		Node: newIdentity("node"), Remote: newIdentity("remote"), CnrNode: newIdentity("cnrnode"), IR: newIdentity("ir"),
	}
	u.Users[IDOwner] = newIdentity("owner")
	u.Users[IDOther] = newIdentity("other")
	u.Users[IDOther2] = newIdentity("other2")

	u.NodeInfo[0].SetPublicKey(u.Node.Pub)
	u.NodeInfo[0].SetNetworkEndpoints("/ip4/127.0.0.1/tcp/1")
	u.NodeInfo[1].SetPublicKey(u.Remote.Pub)
	u.NodeInfo[1].SetNetworkEndpoints("/ip4/127.0.0.2/tcp/1")

	var policy netmap.PlacementPolicy
	var rd netmap.ReplicaDescriptor
	rd.SetNumberOfObjects(1)
	policy.SetReplicas([]netmap.ReplicaDescriptor{rd})

	mk := func(name string, basic acl.Basic) *Cnr {
		var c container.Container
		c.Init()
		c.SetOwner(u.Users[IDOwner].ID)
		c.SetBasicACL(basic)
		c.SetPlacementPolicy(policy)
		c.SetName("verif-" + name)
		c.SetCreationTime(ChainTime.Add(-time.Hour))
		return &Cnr{Name: name, Cnr: c, ID: cid.NewFromMarshalledContainer(c.Marshal())}
	}
	sticky := acl.PublicRWExtended
	sticky.MakeSticky()
	u.Cnrs[CnrOpen] = mk("open", acl.PublicRWExtended)
	u.Cnrs[CnrPrivate] = mk("private", acl.Private)
	u.Cnrs[CnrEACL] = mk("eacl", acl.PublicRWExtended)
	u.Cnrs[CnrSticky] = mk("sticky", sticky)

	// Stored eACL of CnrEACL. Order matters: the request-header record is
	// decidable at request time and comes first; the object-attribute record
	// needs the object header.
	others := []eacl.Target{eacl.NewTargetByRole(eacl.RoleOthers)}
	var recs []eacl.Record
	for _, op := range allEACLOps {
		recs = append(recs, eacl.ConstructRecord(eacl.ActionDeny, op, others,
			eacl.NewRequestHeaderFilter(DenyXHeaderKey, eacl.MatchStringEqual, DenyXHeaderValue)))
	}
	for _, op := range allEACLOps {
		recs = append(recs, eacl.ConstructRecord(eacl.ActionDeny, op, others,
			eacl.NewObjectPropertyFilter(ClassAttr, eacl.MatchStringEqual, ClassSecret)))
	}
	u.Cnrs[CnrEACL].HasEACL = true
	u.Cnrs[CnrEACL].EACL = eacl.NewTableForContainer(u.Cnrs[CnrEACL].ID, recs)

	owner := u.Users[IDOwner]
	for ci, c := range u.Cnrs {
		for oi := range numObjects {
			class, size := "plain", 3000+ci
			if oi == ObjSecret {
				class, size = ClassSecret, 700+ci
			}
			obj := object.New(c.ID, owner.ID)
			obj.SetAttributes(object.NewAttribute(ClassAttr, class), object.NewAttribute("n", fmt.Sprint(ci*10+oi)))
			obj.SetCreationEpoch(Epoch - 1)
			obj.SetPayload(detPayload(fmt.Sprintf("%s/%d", c.Name, oi), size))
			obj.SetPayloadSize(uint64(size))
			if err := obj.SetVerificationFields(owner.UserSigner()); err != nil {
				panic(err)
			}
			c.Objects[oi] = *obj

			robj := object.New(c.ID, owner.ID)
			robj.SetAttributes(object.NewAttribute(ClassAttr, class), object.NewAttribute("n", fmt.Sprint(100+ci*10+oi)))
			robj.SetCreationEpoch(Epoch - 1)
			robj.SetPayload(detPayload(fmt.Sprintf("remote/%s/%d", c.Name, oi), size+500))
			robj.SetPayloadSize(uint64(size + 500))
			if err := robj.SetVerificationFields(owner.UserSigner()); err != nil {
				panic(err)
			}
			c.Remote[oi] = *robj
		}
		c.Absent = oid.ID(sha256.Sum256([]byte("verif-absent:" + c.Name)))
	}
	return u
}

func detPayload(seed string, n int) []byte {
	res := make([]byte, 0, n+32)
	h := sha256.Sum256([]byte(seed))
	for len(res) < n {
		res = append(res, h[:]...)
		h = sha256.Sum256(h[:])
	}
	return res[:n]
}

// ObjectID returns the ID addressed by object index oi of container ci.
func (u *Universe) ObjectID(ci, oi int) oid.ID {
	switch {
	case oi < numObjects:
		return u.Cnrs[ci].Objects[oi].GetID()
	case oi == ObjRemotePlain:
		return u.Cnrs[ci].Remote[ObjPlain].GetID()
	case oi == ObjRemoteSecret:
		return u.Cnrs[ci].Remote[ObjSecret].GetID()
	}
	return u.Cnrs[ci].Absent
}

// NumContainers, NumObjects, NumRequesters expose the universe dimensions to generators.
const (
	NumContainers = numContainers
	NumObjects    = numObjects
	NumObjIndexes = numObjIndexes
	NumRequesters = numRequesters
)

// Package objsrv is the shared server harness of properties C29 and C45: one
// real neofs-node Object service server (pkg/services/object.Server, built with
// the public constructor object.New) wired to recording dependencies, plus
// request builders that produce valid signed requests and requests carrying
// exactly one defect.
//
// What is real and what is fake
//
//   - real: object.Server; the ACL request-info extractor (acl/v2.Service: token
//     verification, sender classification); the ACL checker (acl.Checker with the
//     SDK eACL validator); the GET/HEAD/RANGE handler (getsvc.Service reading from
//     a real storage engine on a temp dir); the PUT handler (putsvc.Service with
//     the real FormatValidator); request signing / verification (SDK + internal/crypto).
//   - recording fakes: FSChain (containers, epoch, container nodes, maintenance
//     flag), netmapper, inner-ring list, chain time, eACL source, eACL header
//     source, object.Storage (sessions, SearchObjects, VerifyAndStoreObjectLocally),
//     ClientConstructor (every dial is logged), PUT local object storage /
//     payments / transport, DELETE handler, gRPC server streams.
//   - the other container node is an in-process gRPC server over bufconn
//     (remote.go) serving GET / HEAD / RANGE / SEARCH for two objects per
//     container that are NOT in the local engine, so that the server's proxy
//     path (re-signed request to a container node, response relayed to the
//     client, header-time eACL re-check on the relayed header) runs for real.
//   - every engine operation is observed through engine.MetricRegister hooks.
//
// Everything observable goes into one ordered Log of events with a Kind:
//
//	check   – an authorisation step ran (token verification, request-info
//	          extraction, basic ACL, sticky bit, eACL on request / on header,
//	          N3 signature script run, maintenance probe)
//	effect  – something the properties call an effect: a handler call, a storage
//	          engine operation outside an ACL evaluation, a local store, a search,
//	          a dial of a remote node, a header or payload chunk written to the
//	          response stream
//	aclread – the ACL checker read local storage / the remote header source while
//	          evaluating eACL (not an effect for C29; "touches local storage" for C45)
//	neutral – chain metadata reads and the allocation-only Handlers.Put(ctx) call
//
// Two server instances share all dependencies: Env.Server is wired like
// cmd/neofs-node (the ACL checker reads object headers from the same engine as
// the handlers); Env.ServerLate gives the ACL checker an empty engine, which
// makes request-time eACL evaluation of object-header filters inconclusive
// (ErrNotMatched) exactly as it is for objects that are not available locally
// at request time, so that the header-time re-check of the local read path is
// exercised; the re-check of the proxy path is exercised on Env.Server with the
// objects that live on the fake remote node only.
//
// Methods of the gRPC service interface and of *object.Server are enumerated by
// reflection (Methods); a method the table does not know makes the checks
// inconclusive.
package objsrv
